------------------------------- MODULE FastqOps -------------------------------
(* C12 / FASTQ: biotite.sequence.io.fastq.FastqFile.

     lines : the text
     ent   : OrderedDict identifier -> <<seq_start, seq_stop, score_start, score_stop>>
             (0-based line offsets, stops exclusive), maintained incrementally
     cpl   : chars_per_line, 0 stands for None (every sequence / score string on one line)
     off   : the ASCII offset of the quality scores

   The reader is the line automaton of _find_entries / read_iter: it cannot recognise an
   entry start by '@' alone, because '@' (and '+') are legal score characters and a wrapped
   score block may put them first on a line; it counts characters instead.  Q_Scan is that
   automaton; Q_Meaning is the declarative reading of a well-formed text. *)
EXTENDS Text

(* ---------------------------------------------------------------- domain *)
Dom_Ident(h)  == Dom_Line(h) /\ IsStripped(h)
\* sequences are non-empty strings of letters (an entry without symbols cannot be stored:
\* its sequence and score lines would be empty lines, which the reader drops)
Dom_QSeq(s)   == s # <<>> /\ \A k \in 1..Len(s) : IsUpper(s[k])
\* a score is in range when its character is a printable, non-blank ASCII character
Dom_Score(q, off) == q + off >= 33 /\ q + off <= 126
Dom_Scores(qs, off) == \A k \in 1..Len(qs) : Dom_Score(qs[k], off)
Dom_Offset(off) == off \in {33, 64}

(* ---------------------------------------------------------------- implementation-shaped *)
Q_New(off, cpl) == [lines |-> <<>>, ent |-> <<>>, cpl |-> cpl, off |-> off]

ScoreStr(qs, off)  == [k \in 1..Len(qs) |-> qs[k] + off]        \* _scores_to_score_str
ScoresOf(str, off) == [k \in 1..Len(str) |-> str[k] - off]      \* _score_str_to_scores
WrapOrNot(s, cpl)  == IF cpl = 0 THEN <<s>> ELSE WrapImpl(s, cpl)

Q_IdentLine(h) == <<AT>> \o StripWs(DelCh(h, NL))
Q_EntryLines(h, s, qs, off, cpl) ==
  <<Q_IdentLine(h)>> \o WrapOrNot(s, cpl) \o <<<<PLUS>>>> \o WrapOrNot(ScoreStr(qs, off), cpl)

\* The automaton of _find_entries.  acc.mode: "idle" | "seq" | "score" | "bad";
\* offsets are 0-based line indices (k - 1 for the k-th line).
Q_Scan(lines) ==
  LET step(acc, k) ==
        LET l == lines[k] IN
        IF acc.mode = "bad" THEN acc
        ELSE IF l = <<>> THEN [acc EXCEPT !.mode = "bad"]        \* line[0] raises IndexError
        ELSE IF acc.mode = "idle" THEN
               IF l[1] = AT
                 THEN [acc EXCEPT !.mode = "seq", !.id = Drop(l, 1), !.ss = k,
                                  !.seqLen = 0, !.scLen = 0]
                 ELSE [acc EXCEPT !.mode = "bad"]
        ELSE IF acc.mode = "seq" THEN
               IF l[1] = PLUS
                 THEN [acc EXCEPT !.mode = "score", !.se = k - 1, !.qs = k]
                 ELSE [acc EXCEPT !.seqLen = @ + Len(l)]
        ELSE \* "score"
             LET n == acc.scLen + Len(l) IN
             IF n < acc.seqLen THEN [acc EXCEPT !.scLen = n]
             ELSE IF n = acc.seqLen
               THEN [acc EXCEPT !.mode = "idle", !.scLen = n,
                                !.ent = OdSet(@, acc.id, <<acc.ss, acc.se, acc.qs, k>>)]
               ELSE [acc EXCEPT !.mode = "bad"]
      fin == FoldLeft(step, [mode |-> "idle", id |-> <<>>, ss |-> 0, se |-> 0, qs |-> 0,
                             seqLen |-> 0, scLen |-> 0, ent |-> <<>>],
                      [k \in 1..Len(lines) |-> k])
  IN [ok |-> fin.mode = "idle", ent |-> fin.ent]
Q_Reindex(lines) == Q_Scan(lines).ent

Q_SeqOf(lines, pos)    == FlattenSeq(SubSeq(lines, pos[1] + 1, pos[2]))
Q_ScoreStrOf(lines, pos) == FlattenSeq(SubSeq(lines, pos[3] + 1, pos[4]))
Q_Value(st, pos) == <<Q_SeqOf(st.lines, pos), ScoresOf(Q_ScoreStrOf(st.lines, pos), st.off)>>

R(st, oc, out) == [st |-> st, oc |-> oc, out |-> out]

Q_Get(st, h) ==
  IF ~OdHas(st.ent, h) THEN R(st, "Rejected", <<>>)
  ELSE R(st, "ok", Q_Value(st, OdGet(st.ent, h)))

\* del self.lines[seq_start - 1 : score_stop]
Q_Del(st, h) ==
  IF ~OdHas(st.ent, h) THEN R(st, "Rejected", <<>>)
  ELSE LET pos == OdGet(st.ent, h)
           ls  == SubSeq(st.lines, 1, pos[1] - 1) \o SubSeq(st.lines, pos[4] + 1, Len(st.lines))
       IN R([st EXCEPT !.lines = ls, !.ent = Q_Reindex(ls)], "ok", <<>>)

Q_Set(st, h, s, qs) ==
  IF Len(s) # Len(qs) THEN R(st, "Rejected", <<>>)          \* documented ValueError
  ELSE
    LET d   == IF OdHas(st.ent, h) THEN Q_Del(st, h).st ELSE st
        new == Q_EntryLines(h, s, qs, st.off, st.cpl)
        b   == Len(d.lines)
        nSeq == IF st.cpl = 0 THEN 1 ELSE Len(WrapImpl(s, st.cpl))
        nSc  == IF st.cpl = 0 THEN 1 ELSE Len(WrapImpl(ScoreStr(qs, st.off), st.cpl))
    IN R([d EXCEPT !.lines = d.lines \o new,
                   !.ent = Append(d.ent, <<h, <<b + 1, b + 1 + nSeq, b + 2 + nSeq, b + 2 + nSeq + nSc>>>>)],
         "ok", <<>>)

Q_View(st) == [k \in 1..Len(st.ent) |-> <<st.ent[k][1], Q_Value(st, st.ent[k][2])>>]

\* FastqFile.read: strip every line, drop empty ones, refuse an empty rest or a malformed one
Q_Read(raw, off, cpl) ==
  LET ls == SelectSeq([k \in 1..Len(raw) |-> StripWs(raw[k])], LAMBDA l : l # <<>>)
      sc == Q_Scan(ls) IN
  IF ls = <<>> \/ ~sc.ok THEN R(Q_New(off, cpl), "Rejected", <<>>)
  ELSE R([lines |-> ls, ent |-> sc.ent, cpl |-> cpl, off |-> off], "ok", <<>>)

\* FastqFile.read_iter: same automaton, yields the entries (duplicates kept)
Q_ReadIter(raw, off) ==
  LET ls == SelectSeq([k \in 1..Len(raw) |-> StripWs(raw[k])], LAMBDA l : l # <<>>)
      step(acc, l) ==
        IF acc.mode = "bad" THEN acc
        ELSE IF acc.mode = "idle" THEN
               IF l[1] = AT THEN [acc EXCEPT !.mode = "seq", !.id = Drop(l, 1), !.s = <<>>, !.q = <<>>]
               ELSE [acc EXCEPT !.mode = "bad"]
        ELSE IF acc.mode = "seq" THEN
               IF l[1] = PLUS THEN [acc EXCEPT !.mode = "score"] ELSE [acc EXCEPT !.s = @ \o l]
        ELSE LET q == acc.q \o l IN
             IF Len(q) < Len(acc.s) THEN [acc EXCEPT !.q = q]
             ELSE IF Len(q) = Len(acc.s)
               THEN [acc EXCEPT !.mode = "idle", !.q = q,
                                !.items = Append(@, <<acc.id, <<acc.s, ScoresOf(q, off)>>>>)]
               ELSE [acc EXCEPT !.mode = "bad"]
      fin == FoldLeft(step, [mode |-> "idle", id |-> <<>>, s |-> <<>>, q |-> <<>>, items |-> <<>>], ls)
  \* an incomplete last entry is silently dropped by the iterator; malformed input raises
  IN [ok |-> fin.mode # "bad", items |-> fin.items]

Q_WriteIter(items, off, cpl) ==
  FlattenSeq([k \in 1..Len(items) |->
     Q_EntryLines(items[k][1], items[k][2][1], items[k][2][2], off, cpl)])

(* ---------------------------------------------------------------- declarative layer *)
\* A text is a well-formed FASTQ text with entries es (identifier, sequence, score string)
\* iff it is the concatenation of blocks  @id / s-lines / + / q-lines  where the s-lines
\* concatenate to the sequence, none of them starts with '+', and the q-lines concatenate
\* to a score string of the same length.  Q_Blocks(items, ...) enumerates nothing: it checks
\* a candidate decomposition given by the per-entry line counts.
Q_IsBlock(ls, h, s, qstr) ==
  \E i \in 2..(Len(ls) - 1) :
     /\ ls[1] = <<AT>> \o h
     /\ ls[i] = <<PLUS>>
     /\ FlattenSeq(SubSeq(ls, 2, i - 1)) = s
     /\ \A j \in 2..(i - 1) : ls[j] # <<>> /\ ls[j][1] # PLUS
     /\ FlattenSeq(SubSeq(ls, i + 1, Len(ls))) = qstr
     /\ \A j \in (i + 1)..Len(ls) : ls[j] # <<>>
     /\ Len(qstr) = Len(s)

IdealSet(m, h, v) == Append(OdDel(m, h), <<h, v>>)
IdealDel(m, h)    == OdDel(m, h)

Q_Apply(st, op, a) ==
  CASE op = "new"  -> R(Q_New(a[1], a[2]), "ok", <<>>)
    [] op = "set"  -> Q_Set(st, a[1], a[2], a[3])
    [] op = "del"  -> Q_Del(st, a[1])
    [] op = "get"  -> Q_Get(st, a[1])
    [] op = "read" -> Q_Read(a[1], a[2], a[3])
    [] OTHER       -> R(st, "Rejected", <<>>)

\* the class docstring example: offset 33 ("Sanger")
ASSUME Q_EntryLines(<<115>>, <<65, 84, 65, 67, 84>>, <<0, 3, 10, 7, 12>>, 33, 0)
         = <<<<AT, 115>>, <<65, 84, 65, 67, 84>>, <<PLUS>>, <<33, 36, 43, 40, 45>>>>
=============================================================================
