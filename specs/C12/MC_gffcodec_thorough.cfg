SPECIFICATION Spec
CONSTANTS
  CharClasses <- CharClassesThorough
  StrLen = 2
INVARIANT InvRoundTrip
INVARIANT InvKnownBadExact
INVARIANT InvQuote
INVARIANT InvAnnotAnyOrder
INVARIANT InvRefusals
CHECK_DEADLOCK FALSE
