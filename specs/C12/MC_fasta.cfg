SPECIFICATION Spec
CONSTANTS
  Headers <- HeadersQuick
  SeqStrs <- SeqStrsQuick
  Cpls <- CplsQuick
  Depth = 100
CONSTRAINT DepthBound
INVARIANT InvIndex
INVARIANT InvView
INVARIANT InvMeaning
INVARIANT InvReread
INVARIANT InvWrapped
PROPERTY RefusalIsNoOp
CHECK_DEADLOCK FALSE
