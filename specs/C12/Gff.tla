------------------------------- MODULE Gff -------------------------------
(* C12 / GFF3: exhaustive edit-history machine of the entry list (GffOps). *)
EXTENDS GffOps

CONSTANTS Entries, Directives, Texts, MaxLen, MaxDirs, Depth

VARIABLES lines, ent, dirs, fasta, ideal, oc, out, alt
vars == <<lines, ent, dirs, fasta, ideal, oc, out, alt>>
Cur == [lines |-> lines, ent |-> ent, dirs |-> dirs, fasta |-> fasta]

IdxRange == (-MaxLen - 1)..(MaxLen + 1)

AllCalls ==    {<<"append", <<e>>>> : e \in Entries}
          \cup {<<"insert", <<i, e>>>> : i \in IdxRange, e \in Entries}
          \cup {<<"setitem", <<i, e>>>> : i \in IdxRange, e \in Entries}
          \cup {<<"delitem", <<i>>>> : i \in IdxRange}
          \cup {<<"getitem", <<i>>>> : i \in IdxRange}
          \cup {<<"directive", d>> : d \in Directives}
          \cup {<<"read", <<t>>>> : t \in Texts}

\* Where the specified writer refuses a seqid starting with '#', a writer that escapes it is
\* equally consistent: alt is the list view such a writer would produce (None otherwise).
Fix(e) == [e EXCEPT ![1] = <<120>> \o StripWs(@)]
AltView(op, a) ==
  IF op \in {"append", "insert", "setitem"} /\ KB_GffHashSeqid(a[Len(a)])
     /\ X_Apply(Cur, op, [a EXCEPT ![Len(a)] = Fix(@)]).oc = "ok"
    THEN Some(IdealApply(ideal, op, a, "ok")) ELSE None

IdealAfter(op, a, r) ==
  IF op = "read" THEN X_View(r.st) ELSE IdealApply(ideal, op, a, r.oc)

Call(c) ==
  LET r == X_Apply(Cur, c[1], c[2]) IN
  /\ Len(r.st.ent) <= MaxLen /\ Len(r.st.dirs) <= MaxDirs
  \* Dom: no directive is appended behind bundled FASTA data (it would land inside the data,
  \* which the class does not index; not part of the property)
  /\ ~(c[1] = "directive" /\ fasta)
  /\ lines' = r.st.lines /\ ent' = r.st.ent /\ dirs' = r.st.dirs /\ fasta' = r.st.fasta
  /\ ideal' = IdealAfter(c[1], c[2], r)
  /\ oc' = r.oc /\ out' = r.out /\ alt' = AltView(c[1], c[2])

Init == /\ lines = X_New.lines /\ ent = X_New.ent /\ dirs = X_New.dirs /\ fasta = X_New.fasta
        /\ ideal = <<>> /\ oc = "ok" /\ out = <<>> /\ alt = None
Next == \E c \in AllCalls : Call(c)
Spec == Init /\ [][Next]_vars
DepthBound == TLCGet("level") <= Depth

(* ---------------------------------------------------------------- model values *)
S_chr == <<99, 104, 114>>     S_src == <<115, 114, 99>>     S_gene == <<103, 101, 110, 101>>
S_CDS == <<67, 68, 83>>       S_ID == <<73, 68>>
E1 == <<S_chr, S_src, S_gene, 1, 5, None, "+", None, <<>>>>
\* "c 1", score 1.5, reverse, phase 2, ID="a;b=c", "k y"=" v%"
E2 == <<<<99, SP, 49>>, <<115>>, S_CDS, 2, 9, Some(3), "-", Some(2),
        <<<<S_ID, <<97, SEMI, 98, EQ, 99>>>>, <<<<107, SP, 121>>, <<SP, 118, PCT>>>>>>>>
\* a tab and a line break in a value, an empty value, unstranded
E3 == <<S_chr, S_src, S_gene, -3, 12, Some(0), ".", None,
        <<<<<<110>>, <<120, TAB, 121, NL>>>>, <<<<101>>, <<>>>>>>>>
E_HASH == <<<<HASH, 99>>, S_src, S_gene, 1, 5, None, "+", None, <<>>>>
E_GT   == <<<<GT, 99>>, S_src, S_gene, 1, 5, None, "+", None, <<>>>>
EntriesQuick == {E1, E2, E_HASH, E_GT}
EntriesThorough == {E1, E2, E3, E_HASH, E_GT}
DirectivesQuick == {<<<<100>>, <<<<112>>, <<113>>>>>>, <<S_FASTA, <<>>>>}
DirectivesThorough == DirectivesQuick \cup {<<<<100, 50>>, <<>>>>}
\* a text with a comment, a blank and an indented line, two entries, and bundled FASTA data
T_FASTA == << <<HASH, HASH>> \o S_GFFVERSION \o <<SP, 51>>,
              <<HASH, SP, 99>>,
              X_CreateLine(E1).line,
              <<>>,
              <<SP, 120>>,
              X_CreateLine(E2).line,
              <<HASH, HASH>> \o S_FASTA,
              <<GT, 115>>,
              <<65, 67, 71>> >>
TextsQuick == {T_FASTA}

ASSUME \A e \in {E1, E2, E3} : Dom_Entry(e)

(* ---------------------------------------------------------------- properties *)
InvIndex == LET ix == X_Reindex(lines) IN ent = ix.ent /\ fasta = ix.fasta /\ X_Directives(Cur) = ix.dirs
InvView == X_View(Cur) = ideal
InvReread == LET r == X_Read(lines).st IN X_View(r) = ideal /\ X_Directives(r) = X_Directives(Cur)
\* every entry line is the writer's line for the entry it denotes, and parses back to it
InvLines == \A k \in 1..Len(ent) : LET cl == X_CreateLine(ideal[k]) IN cl.ok /\ cl.line = lines[ent[k] + 1]
RefusalIsNoOp == [][oc' # "ok" => (lines' = lines /\ ent' = ent /\ dirs' = dirs /\ ideal' = ideal)]_vars
=============================================================================
