------------------------------- MODULE FastaOps -------------------------------
(* C12 / FASTA: biotite.sequence.io.fasta.FastaFile as a pair of representations

     lines : the text (sequence of lines, Text.tla)
     ent   : the incremental index the class maintains (OrderedDict header -> (start, stop),
             0-based line offsets, stop exclusive)

   One operator per public call (F_Set = __setitem__, F_Del = __delitem__, F_Get =
   __getitem__, F_Read = FastaFile.read, F_ReadIter / F_WriteIter the static iterators), each
   shaped like the code, plus the declarative layer the property talks about:
     F_Meaning(lines)  what a FASTA text means (ordered entries),
     IdealSet/IdealDel the ordered-mapping semantics of the edits.
   The model checker (Fasta.tla) checks that the two layers agree after every edit. *)
EXTENDS Text

(* ---------------------------------------------------------------- domain *)
\* headers the format can carry (assumption A2): no line break, no surrounding blanks
Dom_Header(h) == Dom_Line(h) /\ IsStripped(h)
\* sequence strings: symbols of the letter alphabets (letters, '*', '-'), never a blank,
\* never '>' or ';' (which would be read as header / comment at a line start)
Dom_SeqStr(s) == \A k \in 1..Len(s) : IsUpper(s[k]) \/ IsLower(s[k]) \/ s[k] \in {STAR, MINUS}
Dom_Cpl(w) == w >= 1

(* ---------------------------------------------------------------- implementation-shaped *)
F_New(cpl) == [lines |-> <<>>, ent |-> <<>>, cpl |-> cpl]

\* ">" + header.replace("\n", "").strip()
F_HeaderLine(h) == <<GT>> \o StripWs(DelCh(h, NL))
F_EntryLines(h, s, cpl) == <<F_HeaderLine(h)>> \o WrapImpl(s, cpl)

\* _find_entries (precondition: no empty line; the first line is a header line)
F_ReindexOk(lines) == (\A k \in 1..Len(lines) : lines[k] # <<>>) /\ (lines = <<>> \/ lines[1][1] = GT)
F_Reindex(lines) ==
  LET hdr == SelectSeq([k \in 1..Len(lines) |-> k], LAMBDA k : lines[k][1] = GT)
      n   == Len(hdr)
      stop(j) == IF j < n THEN hdr[j + 1] - 1 ELSE Len(lines)
  IN FoldLeft(LAMBDA acc, j : OdSet(acc, Drop(StripWs(lines[hdr[j]]), 1), <<hdr[j] - 1, stop(j)>>),
              <<>>, [j \in 1..n |-> j])

\* "".join(line.strip() for line in lines[start+1:stop])
F_SeqOf(lines, pos) ==
  FlattenSeq([k \in 1..(pos[2] - pos[1] - 1) |-> StripWs(lines[pos[1] + 1 + k])])

R(st, oc, out) == [st |-> st, oc |-> oc, out |-> out]

F_Get(st, h) ==
  IF ~OdHas(st.ent, h) THEN R(st, "Rejected", <<>>)
  ELSE R(st, "ok", F_SeqOf(st.lines, OdGet(st.ent, h)))

F_Del(st, h) ==
  IF ~OdHas(st.ent, h) THEN R(st, "Rejected", <<>>)
  ELSE LET pos == OdGet(st.ent, h)
           ls  == SubSeq(st.lines, 1, pos[1]) \o SubSeq(st.lines, pos[2] + 1, Len(st.lines))
       IN R([st EXCEPT !.lines = ls, !.ent = F_Reindex(ls)], "ok", <<>>)

F_Set(st, h, s) ==
  LET new == F_EntryLines(h, s, st.cpl) IN
  IF OdHas(st.ent, h)
    THEN LET d  == F_Del(st, h).st
             ls == d.lines \o new
         IN R([st EXCEPT !.lines = ls, !.ent = F_Reindex(ls)], "ok", <<>>)
    ELSE \* fast path: the index is extended without re-scanning, keyed by the header as given
         R([st EXCEPT !.lines = st.lines \o new,
                      !.ent = Append(st.ent, <<h, <<Len(st.lines), Len(st.lines) + Len(new)>>>>)],
           "ok", <<>>)

\* items() of the live object
F_View(st) == [k \in 1..Len(st.ent) |-> <<st.ent[k][1], F_SeqOf(st.lines, st.ent[k][2])>>]

\* FastaFile.read: blank and ';' lines are dropped; an empty rest or a rest that does not
\* start with '>' is refused (InvalidFileError)
F_Read(raw, cpl) ==
  LET ls == SelectSeq(raw, LAMBDA l : ~IsBlank(l) /\ l[1] # SEMI) IN
  IF ls = <<>> \/ ls[1][1] # GT THEN R(F_New(cpl), "Rejected", <<>>)
  ELSE R([lines |-> ls, ent |-> F_Reindex(ls), cpl |-> cpl], "ok", <<>>)

\* FastaFile.read_iter: (header, sequence) pairs in file order, duplicates kept
F_ReadIter(raw) ==
  LET step(acc, l0) ==
        LET l == StripWs(l0) IN
        IF l = <<>> \/ l[1] = SEMI THEN acc
        ELSE IF l[1] = GT THEN Append(acc, <<Drop(l, 1), <<>>>>)
        ELSE IF acc = <<>> THEN acc           \* text before the first header is dropped
        ELSE [acc EXCEPT ![Len(acc)][2] = @ \o l]
  IN FoldLeft(step, <<>>, raw)

\* FastaFile.write_iter
F_WriteIter(items, cpl) ==
  FlattenSeq([k \in 1..Len(items) |-> F_EntryLines(items[k][1], items[k][2], cpl)])

(* ---------------------------------------------------------------- declarative layer *)
\* Meaning of a FASTA text: every line starting with '>' opens an entry whose sequence is the
\* concatenation of the following non-header lines (blanks removed).
F_Meaning(lines) ==
  LET H == {k \in 1..Len(lines) : lines[k] # <<>> /\ lines[k][1] = GT}
      hs == SetToSortSeq(H, <)
      nxt(k) == IF \E j \in H : j > k THEN Min({j \in H : j > k}) ELSE Len(lines) + 1
  IN [i \in 1..Len(hs) |->
        <<Drop(StripWs(lines[hs[i]]), 1),
          FlattenSeq([j \in 1..(nxt(hs[i]) - hs[i] - 1) |-> StripWs(lines[hs[i] + j])])>>]

\* ordered mapping: a new key is appended; a replaced key moves to the end (the class deletes
\* and re-appends; where a replaced entry lands is not part of the property, see SameUpToMove)
IdealSet(m, h, s) == Append(OdDel(m, h), <<h, s>>)
IdealDel(m, h)    == OdDel(m, h)

\* two ordered mappings that agree as mappings and on the order of all keys but `key`
SameUpToMove(m1, m2, key) ==
  /\ OdDel(m1, key) = OdDel(m2, key)
  /\ OdHas(m1, key) = OdHas(m2, key)
  /\ OdHas(m1, key) => OdGet(m1, key) = OdGet(m2, key)
  /\ DistinctKeys(m1) /\ DistinctKeys(m2)

(* ---------------------------------------------------------------- dispatcher (trace validation) *)
F_Apply(st, op, a) ==
  CASE op = "new"  -> R(F_New(a[1]), "ok", <<>>)
    [] op = "set"  -> F_Set(st, a[1], a[2])
    [] op = "del"  -> F_Del(st, a[1])
    [] op = "get"  -> F_Get(st, a[1])
    [] op = "read" -> F_Read(a[1], a[2])
    [] OTHER       -> R(st, "Rejected", <<>>)

ASSUME F_WriteIter(<<<<<<97>>, <<65, 67, 71>>>>, <<<<98>>, <<>>>>>>, 2)
         = <<<<GT, 97>>, <<65, 67>>, <<71>>, <<GT, 98>>>>
ASSUME F_ReadIter(<<<<SEMI, 120>>, <<GT, 97>>, <<65, 67>>, <<>>, <<SP, 71, SP>>, <<GT, 98>>>>)
         = <<<<<<97>>, <<65, 67, 71>>>>, <<<<98>>, <<>>>>>>
=============================================================================
