SPECIFICATION Spec
CONSTANTS
  Headers <- HeadersQuick
  SeqStrs <- SeqStrsThorough
  Cpls <- CplsThorough
  Depth = 100
CONSTRAINT DepthBound
INVARIANT InvIndex
INVARIANT InvView
INVARIANT InvMeaning
INVARIANT InvReread
INVARIANT InvWrapped
PROPERTY RefusalIsNoOp
CHECK_DEADLOCK FALSE
