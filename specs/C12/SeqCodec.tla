------------------------------- MODULE SeqCodec -------------------------------
(* C12 / FASTA, FASTQ, sequence converters, load/save helpers: exhaustive single-step check.

   Case families (Init enumerates them, r is what the specification computes):
     fastq_rt  entries -> write_iter text -> read / read_iter   (Fastq line automaton against
               every wrapping, '@' and '+' first on score lines, both offsets)
     fasta_rt  entries -> write_iter text -> read / read_iter
     conv      a Sequence object through set_sequence / get_sequence of fasta, fastq, genbank
     general   biotite.sequence.io.general save_sequence(s) / load_sequence(s)
   want = the value that has to come back (the property: unchanged), back = what the
   implementation-shaped model returns, kb = known-bad predicates that hold for the input. *)
EXTENDS Text

FA == INSTANCE FastaOps
FQ == INSTANCE FastqOps

CONSTANTS MaxSeqLen,        \* fastq_rt: sequence lengths 1..MaxSeqLen
          QCpls, QOffs,     \* fastq_rt: chars_per_line values (0 = None) and offsets
          Second,           \* fastq_rt: whether two-entry files are enumerated in full
          FCpls             \* fasta_rt: chars_per_line values

VARIABLES c, r
vars == <<c, r>>

(* ---------------------------------------------------------------- sequence types *)
NucUnamb == {65, 67, 71, 84}
NucAmb   == NucUnamb \cup {82, 89, 87, 83, 77, 75, 72, 66, 86, 68, 78}
ProtAlph == {65, 67, 68, 69, 70, 71, 72, 73, 75, 76, 77, 78, 80, 81, 82, 83, 84, 86, 87, 89, 66, 90, 88, STAR}
AllIn(s, A) == \A k \in 1..Len(s) : s[k] \in A
\* a sequence object is <<class, symbols>> with class "nuc" | "prot"
Dom_SeqObj(x) == x[2] # <<>> /\ IF x[1] = "nuc" THEN AllIn(x[2], NucAmb) ELSE AllIn(x[2], ProtAlph)

\* fasta._convert_to_string / fastq._convert_to_string
ToStr(x, rna) == IF rna /\ x[1] = "nuc" THEN ReplaceCh(x[2], 84, 85) ELSE x[2]
\* fasta._convert_to_sequence(seq_str, seq_type): seq_type "auto" | "nuc" | "prot"
NucProc(s)  == ReplaceCh(ReplaceCh(Upper(s), 85, 84), 88, 78)      \* U -> T, X -> N
ProtProc(s) == ReplaceCh(ReplaceCh(Upper(s), 85, 67), 79, 75)      \* U -> C, O -> K
FromStr(s, type) ==
  IF type = "nuc" THEN (IF AllIn(NucProc(s), NucAmb) THEN <<"nuc", NucProc(s)>> ELSE <<"Rejected", <<>>>>)
  ELSE IF type = "prot" THEN (IF AllIn(ProtProc(s), ProtAlph) THEN <<"prot", ProtProc(s)>> ELSE <<"Rejected", <<>>>>)
  ELSE IF AllIn(NucProc(s), NucAmb) THEN <<"nuc", NucProc(s)>>
  ELSE IF AllIn(ProtProc(s), ProtAlph) THEN <<"prot", ProtProc(s)>>
  ELSE <<"Rejected", <<>>>>
\* the type guess of get_sequence is only determined for strings that are not also
\* nucleotide strings; protein sequences made of nucleotide letters need seq_type
Dom_AutoDetect(x) == x[1] = "nuc" \/ ~AllIn(NucProc(x[2]), NucAmb)

\* known defect (NOTES.md): save_sequences writes every FASTQ entry under the key "identifer"
KB_GeneralFastqKey(suffix, plural) == suffix = "fastq" /\ plural
S_identifer == <<105, 100, 101, 110, 116, 105, 102, 101, 114>>
S_sequence  == <<115, 101, 113, 117, 101, 110, 99, 101>>

(* ---------------------------------------------------------------- case enumeration *)
Letters == <<65, 67, 71, 84, 65, 67, 71>>
ScoreChars(off) == IF off = 33 THEN {AT, PLUS, 73} ELSE {AT, SEMI, 104}
RECURSIVE Strs(_, _)
Strs(A, n) == IF n = 0 THEN {<<>>} ELSE {<<a>> \o t : a \in A, t \in Strs(A, n - 1)}
QEntries(id, off) == UNION {{<<id, <<SubSeq(Letters, 1, n), FQ!ScoresOf(q, off)>>>> : q \in Strs(ScoreChars(off), n)} : n \in 1..MaxSeqLen}
QFew(id, off) == {<<id, <<SubSeq(Letters, 1, n), FQ!ScoresOf([k \in 1..n |-> IF k % 2 = 1 THEN AT ELSE (IF off = 33 THEN PLUS ELSE SEMI)], off)>>>> : n \in 1..MaxSeqLen}
QItemLists(off) ==
  {<<e>> : e \in QEntries(<<97>>, off)}
  \cup {<<e1, e2>> : e1 \in QEntries(<<97>>, off), e2 \in IF Second THEN QEntries(<<98, SP, AT>>, off) ELSE QFew(<<98, SP, AT>>, off)}

FSeqs == {<<>>, <<65>>, <<65, 67>>, <<65, 67, 71>>, <<77, 75, 86, STAR, 65>>, <<65, MINUS, MINUS, 67, 71, 84, 78>>}
FItemLists == {<<<<<<97>>, s>>>> : s \in FSeqs}
              \cup {<<<<<<97, SP, GT, 98>>, s>>, <<<<99>>, t>>>> : s \in FSeqs, t \in FSeqs}

Objs == {<<"nuc", <<65, 67, 71, 84, 84, 65>>>>, <<"nuc", <<84>>>>, <<"nuc", <<65, 67, 78, 82, 89, 84, 87>>>>,
         <<"prot", <<77, 75, 86, STAR, 65, 88, 66, 90>>>>, <<"prot", <<71, 65, 84, 84, 65, 67, 65>>>>,
         <<"prot", <<65, 88, 71>>>>, <<"prot", <<STAR>>>>}
ConvCases ==
     {cc \in {<<"fasta", x, rna, type>> : x \in Objs, rna \in BOOLEAN, type \in {"auto", "typed"}} :
         cc[4] = "auto" => Dom_AutoDetect(cc[2])}
  \cup {<<"fastq", x, rna, "typed">> : x \in {o \in Objs : o[1] = "nuc"}, rna \in BOOLEAN}
  \cup {<<"gb", x, FALSE, "typed">> : x \in Objs}
GeneralCases ==
     {<<suffix, FALSE, <<<<S_sequence, x>>>>>> : suffix \in {"fasta", "fastq", "gb"}, x \in {o \in Objs : o[1] = "nuc"}}
  \cup {<<suffix, FALSE, <<<<S_sequence, x>>>>>> : suffix \in {"fasta", "gp"}, x \in {o \in Objs : o[1] = "prot" /\ Dom_AutoDetect(o)}}
  \cup {<<suffix, TRUE, <<<<<<97>>, Objs1>>, <<<<98, SP, 99>>, Objs2>>>>>> : suffix \in {"fasta", "fastq", "gb"},
          Objs1 \in {o \in Objs : o[1] = "nuc"}, Objs2 \in {<<"nuc", <<71, 71, 65>>>>}}
  \cup {<<suffix, TRUE, <<<<S_identifer, <<"nuc", <<65, 67>>>>>>>>>> : suffix \in {"fastq"}}

Cases ==    UNION {{<<"fastq_rt", <<items, off, cpl>>>> : cpl \in QCpls, items \in QItemLists(off)} : off \in QOffs}
       \cup {<<"fasta_rt", <<items, cpl>>>> : items \in FItemLists, cpl \in FCpls}
       \cup {<<"conv", cc>> : cc \in ConvCases}
       \cup {<<"general", g>> : g \in GeneralCases}

(* ---------------------------------------------------------------- what the specification computes *)
Compute(cs) ==
  CASE cs[1] = "fastq_rt" ->
         LET items == cs[2][1]  off == cs[2][2]  cpl == cs[2][3]
             text == FQ!Q_WriteIter(items, off, cpl)
             it   == FQ!Q_ReadIter(text, off)
             rd   == FQ!Q_Read(text, off, cpl)
         IN [want |-> items, text |-> text, back |-> IF it.ok THEN it.items ELSE <<"bad">>,
             back2 |-> IF rd.oc = "ok" THEN FQ!Q_View(rd.st) ELSE <<"bad">>, kb |-> {}]
    [] cs[1] = "fasta_rt" ->
         LET items == cs[2][1]  cpl == cs[2][2]
             text == FA!F_WriteIter(items, cpl)
             rd   == FA!F_Read(text, cpl)
         IN [want |-> items, text |-> text, back |-> FA!F_ReadIter(text),
             back2 |-> IF rd.oc = "ok" THEN FA!F_View(rd.st) ELSE <<"bad">>, kb |-> {}]
    [] cs[1] = "conv" ->
         LET fmt == cs[2][1]  x == cs[2][2]  rna == cs[2][3]
             type == IF cs[2][4] = "auto" THEN "auto" ELSE x[1]
             str == IF fmt = "gb" THEN Lower(x[2]) ELSE ToStr(x, rna)
         IN [want |-> x, text |-> <<str>>, back |-> FromStr(str, type), back2 |-> <<>>, kb |-> {}]
    [] cs[1] = "general" ->
         LET suffix == cs[2][1]  plural == cs[2][2]  seqs == cs[2][3]
             want == [k \in 1..Len(seqs) |-> <<seqs[k][1], seqs[k][2]>>]
         IN IF plural /\ suffix = "gb" THEN [want |-> <<"Rejected">>, text |-> <<>>, back |-> <<"Rejected">>, back2 |-> <<>>, kb |-> {}]
            ELSE IF KB_GeneralFastqKey(suffix, plural)
              THEN [want |-> want, text |-> <<>>, back |-> <<<<S_identifer, seqs[Len(seqs)][2]>>>>, back2 |-> <<>>,
                    kb |-> IF want = <<<<S_identifer, seqs[Len(seqs)][2]>>>> THEN {} ELSE {"C12-general-save-sequences-fastq-key"}]
              ELSE [want |-> want, text |-> <<>>, back |-> want, back2 |-> <<>>, kb |-> {}]

Init == c \in Cases /\ r = Compute(c)
Next == UNCHANGED vars
Spec == Init /\ [][Next]_vars

(* ---------------------------------------------------------------- properties *)
\* the round trip is the identity (or the input is known-bad, exactly)
InvRoundTrip == (r.back = r.want) \/ r.kb # {}
InvKnownBadExact == r.kb # {} => r.back # r.want
InvBothReaders == c[1] \in {"fastq_rt", "fasta_rt"} => r.back2 = r.want
\* every written FASTQ entry is a block of the declarative grammar and wraps without loss
InvFastqBlocks ==
  c[1] = "fastq_rt" =>
    LET items == c[2][1]  off == c[2][2]  cpl == c[2][3] IN
    \A k \in 1..Len(items) :
      LET ls == FQ!Q_EntryLines(items[k][1], items[k][2][1], items[k][2][2], off, cpl) IN
      /\ FQ!Q_IsBlock(ls, items[k][1], items[k][2][1], FQ!ScoreStr(items[k][2][2], off))
      /\ cpl > 0 => \A j \in 1..Len(ls) : Len(ls[j]) <= Max2(cpl, Len(items[k][1]) + 1)
InvDomain ==
  /\ c[1] = "fastq_rt" => \A k \in 1..Len(c[2][1]) :
        FQ!Dom_Ident(c[2][1][k][1]) /\ FQ!Dom_QSeq(c[2][1][k][2][1]) /\ FQ!Dom_Scores(c[2][1][k][2][2], c[2][2])
  /\ c[1] = "fasta_rt" => \A k \in 1..Len(c[2][1]) : FA!Dom_Header(c[2][1][k][1]) /\ FA!Dom_SeqStr(c[2][1][k][2])
  /\ c[1] = "conv" => Dom_SeqObj(c[2][2]) /\ (c[2][4] = "auto" => Dom_AutoDetect(c[2][2]))
=============================================================================
