------------------------------- MODULE GbFeature -------------------------------
(* C12 / GenBank, feature table and ORIGIN block (pattern R: reference codec + the
   implementation-shaped writer and reader).

   Location  [first, last, strand \in {"+","-"}, defect \subseteq {"BL","BR","UNK","BTW"}]
             BL/BR = BEYOND_LEFT/BEYOND_RIGHT ("<a", ">b"), UNK = UNK_LOC ("a.b"),
             BTW = BETWEEN ("a^b"): the defects the GenBank location grammar can express.
   Feature   [key, locs (a set of locations), qual (ordered dictionary key -> None | <<value>>;
             a value with line breaks stands for several values of the same key)]

   RefWriteLocs(x)   the set of location strings the grammar allows for x
   ParseLocs(t)      the reader (_parse_locs / _parse_single_loc; a recursive descent, so the
                     implementation-shaped reader is also the grammar's meaning function)
   ImplWriteLocs(s)  _convert_to_loc_string on the locations in iteration order s
   WriteFeature / ReadFeatures   set_annotation / get_annotation on the FEATURES lines
   WriteOrigin / ReadOrigin      set_sequence / get_sequence + _get_seq_start

   KB_* name the inputs on which the implementation-shaped codec is known not to be the
   identity (see NOTES.md); the model checker verifies  identity \/ KB  on the whole domain. *)
EXTENDS Text

S_join       == <<106, 111, 105, 110>>
S_order      == <<111, 114, 100, 101, 114>>
S_complement == <<99, 111, 109, 112, 108, 101, 109, 101, 110, 116>>

Loc(f, l, s, d) == [first |-> f, last |-> l, strand |-> s, defect |-> d]

(* ---------------------------------------------------------------- domain *)
Dom_Loc(x) ==
  /\ x.first <= x.last /\ x.strand \in {"+", "-"}
  /\ x.defect \subseteq {"BL", "BR", "UNK", "BTW"}
  /\ ~({"UNK", "BTW"} \subseteq x.defect)
  /\ (x.defect \cap {"UNK", "BTW"} # {} => x.first < x.last)      \* "5.5" / "5^5" mean nothing
Dom_Word(s, n) == s # <<>> /\ Len(s) <= n /\ \A k \in 1..Len(s) : IsAlnum(s[k]) \/ s[k] \in {USCORE, MINUS, 39}
\* one qualifier value segment: printable ASCII without the double quote
Dom_QualSeg(s) == \A k \in 1..Len(s) : s[k] >= 32 /\ s[k] <= 126 /\ s[k] # DQ
Dom_QualVal(v) == v = None \/ (\A seg \in ToSet(SplitOn(v[1], NL)) : Dom_QualSeg(seg))
Dom_Feature(f) ==
  /\ Dom_Word(f.key, 15)
  /\ f.locs # {} /\ \A x \in f.locs : Dom_Loc(x)
  /\ DistinctKeys(f.qual)
  /\ \A k \in 1..Len(f.qual) : Dom_Word(f.qual[k][1], 20) /\ Dom_QualVal(f.qual[k][2])

\* known defects (NOTES.md)
KB_GbSingleBaseBeyondRight(locs) == \E x \in locs : x.first = x.last /\ "BR" \in x.defect
KB_GbOnlyValuelessQualifiers(qual) == qual # <<>> /\ \A k \in 1..Len(qual) : qual[k][2] = None
KB_GbEmptyAnnotation(fs) == fs = {}

(* ---------------------------------------------------------------- writer, as implemented *)
\* _convert_to_loc_string([loc])
ImplWriteLoc1(x) ==
  LET f == (IF "BL" \in x.defect THEN <<LT>> ELSE <<>>) \o IntText(x.first)
      l == (IF "BR" \in x.defect THEN <<GT>> ELSE <<>>) \o IntText(x.last)
      body == IF x.first = x.last THEN f                 \* drops ">": KB_GbSingleBaseBeyondRight
              ELSE IF "UNK" \in x.defect THEN f \o <<DOT>> \o l
              ELSE IF "BTW" \in x.defect THEN f \o <<CARET>> \o l
              ELSE f \o <<DOT, DOT>> \o l
  IN IF x.strand = "-" THEN S_complement \o <<LPAR>> \o body \o <<RPAR>> ELSE body
\* s: the locations in the order the frozenset happens to iterate
ImplWriteLocs(s) ==
  IF Len(s) = 1 THEN ImplWriteLoc1(s[1])
  ELSE S_join \o <<LPAR>> \o Join([k \in 1..Len(s) |-> ImplWriteLoc1(s[k])], <<COMMA>>) \o <<RPAR>>

(* ---------------------------------------------------------------- the grammar's encodings *)
RangeForms(x) ==
  LET f == (IF "BL" \in x.defect THEN <<LT>> ELSE <<>>) \o IntText(x.first)
      l == (IF "BR" \in x.defect THEN <<GT>> ELSE <<>>) \o IntText(x.last)
  IN IF "UNK" \in x.defect THEN {f \o <<DOT>> \o l}
     ELSE IF "BTW" \in x.defect THEN {f \o <<CARET>> \o l}
     ELSE {f \o <<DOT, DOT>> \o l}
          \cup (IF x.first = x.last /\ "BR" \notin x.defect THEN {f} ELSE {})
          \cup (IF x.first = x.last /\ x.defect = {"BR"} THEN {l} ELSE {})
PartForms(x) ==
  IF x.strand = "-" THEN {S_complement \o <<LPAR>> \o t \o <<RPAR>> : t \in RangeForms(x)}
  ELSE RangeForms(x)
\* all sequences that pick one element of sets[k] for every k
RECURSIVE Picks(_)
Picks(sets) ==
  IF sets = <<>> THEN {<<>>}
  ELSE {<<h>> \o t : h \in sets[1], t \in Picks(Tail(sets))}
Perms(S) == {p \in [1..Cardinality(S) -> S] : \A i, j \in 1..Cardinality(S) : p[i] = p[j] => i = j}
Fwd(x) == [x EXCEPT !.strand = "+"]
RefWriteLocs(locs) ==
  IF Cardinality(locs) = 1 THEN PartForms(CHOOSE x \in locs : TRUE)
  ELSE UNION {
         {S_join \o <<LPAR>> \o Join(c, <<COMMA>>) \o <<RPAR>> : c \in Picks([k \in 1..Len(p) |-> PartForms(p[k])])}
         \cup (IF \A x \in locs : x.strand = "-"
                 THEN {S_complement \o <<LPAR>> \o S_join \o <<LPAR>> \o Join(c, <<COMMA>>) \o <<RPAR, RPAR>> :
                         c \in Picks([k \in 1..Len(p) |-> RangeForms(Fwd(p[k]))])}
                 ELSE {})
         : p \in Perms(locs)}

(* ---------------------------------------------------------------- reader *)
Bad == [ok |-> FALSE, locs |-> <<>>]
\* str.split(sep)[0:2] for a two-character separator
Split2(s, a, b) ==
  LET p == IndexOf2(s, a, b)
      rest == Drop(s, p + 1)
      q == IndexOf2(rest, a, b)
  IN <<Take(s, p - 1), IF q = 0 THEN rest ELSE Take(rest, q - 1)>>
\* _parse_single_loc
ParseSingle(s) ==
  LET range(parts, d0) ==
        IF Len(parts) < 2 \/ parts[1] = <<>> \/ parts[2] = <<>> THEN Bad
        ELSE LET bl == parts[1][1] = LT   br == parts[2][1] = GT
                 ft == IF bl THEN Tail(parts[1]) ELSE parts[1]
                 lt == IF br THEN Tail(parts[2]) ELSE parts[2]
             IN IF ~IsIntText(ft) \/ ~IsIntText(lt) THEN Bad
                ELSE IF IntValue(ft) > IntValue(lt) THEN Bad      \* Location refuses first > last
                ELSE [ok |-> TRUE,
                      locs |-> <<Loc(IntValue(ft), IntValue(lt), "+",
                                     d0 \cup (IF bl THEN {"BL"} ELSE {}) \cup (IF br THEN {"BR"} ELSE {}))>>]
  IN IF IndexOf2(s, DOT, DOT) > 0 THEN range(Split2(s, DOT, DOT), {})
     ELSE IF HasCh(s, DOT) THEN range(SplitOn(s, DOT), {"UNK"})
     ELSE IF HasCh(s, CARET) THEN range(SplitOn(s, CARET), {"BTW"})
     ELSE IF s = <<>> THEN Bad
     ELSE LET d == IF s[1] = LT THEN {"BL"} ELSE IF s[1] = GT THEN {"BR"} ELSE {}
              t == IF d = {} THEN s ELSE Tail(s)
          IN IF ~IsIntText(t) THEN Bad
             ELSE [ok |-> TRUE, locs |-> <<Loc(IntValue(t), IntValue(t), "+", d)>>]

\* _parse_locs
RECURSIVE ParseLocs(_)
ParseLocs(s) ==
  LET a == IndexOfCh(s, LPAR)  b == RIndexOfCh(s, RPAR) IN
  IF StartsWith(s, S_join) \/ StartsWith(s, S_order) THEN
    IF a = 0 \/ b = 0 THEN Bad
    ELSE LET parts == SplitOn(Slice(s, a, b - 1), COMMA)
             rs == [k \in 1..Len(parts) |-> ParseLocs(StripWs(parts[k]))]
         IN IF \E k \in 1..Len(rs) : ~rs[k].ok THEN Bad
            ELSE [ok |-> TRUE, locs |-> FlattenSeq([k \in 1..Len(rs) |-> rs[k].locs])]
  ELSE IF StartsWith(s, S_complement) THEN
    IF a = 0 \/ b = 0 THEN Bad
    ELSE LET r == ParseLocs(Slice(s, a, b - 1)) IN
         IF ~r.ok THEN Bad
         ELSE [ok |-> TRUE, locs |-> [k \in 1..Len(r.locs) |-> [r.locs[k] EXCEPT !.strand = "-"]]]
  ELSE ParseSingle(s)

(* ---------------------------------------------------------------- feature table lines *)
KEY_START == 5
QUAL_START == 21
\* set_annotation, one feature; ls = its locations in iteration order
WriteFeature(key, ls, qual) ==
  <<Spaces(KEY_START) \o LJust(key, QUAL_START - KEY_START) \o ImplWriteLocs(ls)>> \o
  FlattenSeq([k \in 1..Len(qual) |->
     IF qual[k][2] = None THEN <<Spaces(QUAL_START) \o <<SLASH>> \o qual[k][1]>>
     ELSE LET vs == SplitOn(qual[k][2][1], NL) IN
          [j \in 1..Len(vs) |-> Spaces(QUAL_START) \o <<SLASH>> \o qual[k][1] \o <<EQ, DQ>> \o vs[j] \o <<DQ>>]])

\* re.compile(r'(".*?"|/.*?=)').split(val): text and matches alternate
RECURSIVE RxSplit(_, _, _, _)
RxSplit(s, i, t0, acc) ==
  LET C == {k \in i..Len(s) : (s[k] = DQ /\ IndexFrom(s, DQ, k + 1) > 0)
                               \/ (s[k] = SLASH /\ IndexFrom(s, EQ, k + 1) > 0)} IN
  IF C = {} THEN Append(acc, Slice(s, t0 - 1, Len(s)))
  ELSE LET k == Min(C)
           j == IF s[k] = DQ THEN IndexFrom(s, DQ, k + 1) ELSE IndexFrom(s, EQ, k + 1)
       IN RxSplit(s, j + 1, j + 1, acc \o <<Slice(s, t0 - 1, k - 1), SubSeq(s, k, j)>>)

\* _set_qual on an ordered dictionary; a second value for a key is appended after a line break
SetQual(q, key, v) ==
  IF ~OdHas(q, key) THEN Append(q, <<key, v>>)
  ELSE [q EXCEPT ![OdPos(q, key)][2] = Some(@[1] \o <<NL>> \o v[1])]

\* the qualifier loop of get_annotation over the parts after the location
ParseQuals(parts) ==
  LET step(acc, part) ==
        IF acc.key = None THEN
          \* a key part: may hold several value-less keys and at most one "/key=" at its end
          LET ws == Words(part)
              one(a2, w) == IF ~HasCh(w, EQ) THEN [a2 EXCEPT !.q = SetQual(@, Tail(w), None), !.key = None]
                            ELSE [a2 EXCEPT !.key = Some(SubSeq(w, 2, Len(w) - 1))]
          IN FoldLeft(one, acc, ws)
        ELSE
          LET v == IF part[1] = DQ THEN SubSeq(part, 2, Len(part) - 1) ELSE part
          IN [q |-> SetQual(acc.q, acc.key[1], Some(v)), key |-> None]
  IN FoldLeft(step, [q |-> <<>>, key |-> None], parts).q

\* get_annotation on the content lines of the FEATURES field: the features in file order;
\* a feature whose location cannot be parsed is skipped (with a warning)
ReadFeatures(lines) ==
  LET grp(acc, l) ==
        IF l[KEY_START + 1] # SP
          THEN Append(acc, <<StripWs(Slice(l, KEY_START, QUAL_START - 1)), Drop(l, QUAL_START) \o <<SP>>>>)
          ELSE [acc EXCEPT ![Len(acc)][2] = @ \o Drop(l, QUAL_START) \o <<SP>>]
      fl == FoldLeft(grp, <<>>, lines)
      one(kv) ==
        LET parts0 == RxSplit(kv[2], 1, 1, <<>>)
            parts  == SelectSeq([k \in 1..Len(parts0) |-> StripWs(parts0[k])], LAMBDA p : p # <<>>)
            pl     == ParseLocs(parts[1])
        IN IF ~pl.ok THEN <<>>
           ELSE <<[key |-> kv[1], locs |-> ToSet(pl.locs), qual |-> ParseQuals(Tail(parts))]>>
  IN FlattenSeq([k \in 1..Len(fl) |-> one(fl[k])])

\* get_annotation on an empty table: the reader's feature list then holds one (None, "") pair
\* whose location cannot be popped; it raises instead of returning the empty annotation
ReadFeaturesOc(lines) == IF lines = <<>> THEN "Rejected" ELSE "ok"

\* features compare as Python compares them: key, location set, qualifier dictionary
QualMap(q) == {<<q[k][1], q[k][2]>> : k \in 1..Len(q)}
FeatVal(f) == <<f.key, f.locs, QualMap(f.qual)>>

(* ---------------------------------------------------------------- ORIGIN *)
Dom_Origin(seq, start) == seq # <<>> /\ start >= 1 /\ start + Len(seq) < 100000000
                          /\ \A k \in 1..Len(seq) : IsUpper(seq[k]) \/ seq[k] = STAR
CHUNK == 10
PER_LINE == 60
\* set_sequence, as written: one pass over the chunk starts
WriteOrigin(seq, start) ==
  LET s == Lower(seq)
      step(acc, c) ==              \* c = 0-based offset of a chunk
        LET a == IF c # 0 /\ c % PER_LINE = 0
                   THEN [lines |-> Append(acc.lines, acc.line), line |-> RJust(IntText(start + c), 9)]
                   ELSE acc
        IN [a EXCEPT !.line = @ \o <<SP>> \o Slice(s, c, c + CHUNK)]
      fin == FoldLeft(step, [lines |-> <<>>, line |-> RJust(IntText(start), 9)],
                      [k \in 1..CeilDiv(Len(s), CHUNK) |-> (k - 1) * CHUNK])
  IN Append(fin.lines, fin.line)
\* what the block is: line k (from 0) carries the position of its first symbol, right-aligned
\* in 9 columns, then its up to six chunks of ten symbols, each preceded by one blank
OriginDecl(seq, start) ==
  LET s == Lower(seq) IN
  [k \in 1..Max2(1, CeilDiv(Len(s), PER_LINE)) |->
     RJust(IntText(start + (k - 1) * PER_LINE), 9) \o
     FlattenSeq([c \in 1..CeilDiv(Min2(Len(s) - (k - 1) * PER_LINE, PER_LINE), CHUNK) |->
        <<SP>> \o Slice(s, (k - 1) * PER_LINE + (c - 1) * CHUNK, Min2((k - 1) * PER_LINE + c * CHUNK, k * PER_LINE))])]
\* get_sequence / get_annotated_sequence: symbols (upper case) and the sequence start
ReadOrigin(lines) ==
  [seq |-> Upper(SelectSeq(FlattenSeq(lines), LAMBDA c : ~IsDigit(c) /\ c # SP)),
   start |-> IntValue(Words(lines[1])[1])]

ASSUME ImplWriteLocs(<<Loc(7, 9, "-", {"BL", "UNK"}), Loc(1, 2, "+", {"BTW"})>>)
         = S_join \o <<LPAR>> \o S_complement \o <<LPAR, LT, 55, DOT, 57, RPAR, COMMA, 49, CARET, 50, RPAR>>
ASSUME ToSet(ParseLocs(S_complement \o <<LPAR>> \o S_join \o <<LPAR, 49, DOT, DOT, 50, COMMA, SP, 52, RPAR, RPAR>>).locs)
         = {Loc(1, 2, "-", {}), Loc(4, 4, "-", {})}
ASSUME ParseLocs(<<LT, 53, DOT, DOT, GT, 53>>).locs = <<Loc(5, 5, "+", {"BL", "BR"})>>
ASSUME WriteOrigin(<<65, 67, 71, 84, 65, 65, 67, 67, 71, 71, 84>>, 3)
         = <<Spaces(8) \o <<51, SP, 97, 99, 103, 116, 97, 97, 99, 99, 103, 103, SP, 116>>>>
=============================================================================
