------------------------------- MODULE GffCodec -------------------------------
(* C12 / GFF3: exhaustive single-step check of the line codec (percent quoting, 9 columns)
   and of the annotation converters gff.set_annotation / gff.get_annotation.

   A GFF feature is [key, locs, qual]: locs a set of [first, last, strand \in {"+","-"}]
   (GFF3 cannot express location defects), qual an ordered dictionary key -> None | <<value>>.
   Case families:
     entry  one entry value -> _create_line -> __getitem__
     annot  a set of features -> set_annotation -> text -> get_annotation *)
EXTENDS GffAnnot

CONSTANTS CharClasses,    \* characters used to build attribute keys / values / seqids
          StrLen          \* strings of length 0..StrLen over CharClasses

VARIABLES c, r
vars == <<c, r>>

(* ---------------------------------------------------------------- cases *)
RECURSIVE Strs(_, _)
Strs(A, n) == IF n = 0 THEN {<<>>} ELSE {<<a>> \o t : a \in A, t \in Strs(A, n - 1)}
StrsUpTo(A, n) == UNION {Strs(A, k) : k \in 0..n}
S_chr == <<99, 104, 114>>   S_src == <<115, 114, 99>>   S_gene == <<103, 101, 110, 101>>  S_note == <<110, 111, 116, 101>>
BaseEntry(seqid, attrs) == <<seqid, S_src, S_gene, 1, 5, None, "+", None, attrs>>
EntryCases ==
     \* one attribute: every key / value over the character classes
     {BaseEntry(S_chr, <<<<k, v>>>>) : k \in StrsUpTo(CharClasses, 1), v \in StrsUpTo(CharClasses, StrLen)}
     \* two attributes: the special value first, so that it is not the last column text
  \cup {BaseEntry(S_chr, <<<<<<107>>, v>>, <<<<108>>, <<120>>>>>>) : v \in StrsUpTo(CharClasses, StrLen)}
     \* seqid / source over the classes (stripped ones are in the domain)
  \cup {BaseEntry(s, <<>>) : s \in StrsUpTo(CharClasses, 2) \ {<<>>}}
     \* the other columns
  \cup {<<S_chr, S_src, S_CDS, st, st + 2, sc, sd, ph, <<>>>> :
          st \in {-3, 0, 12}, sc \in {None, Some(0), Some(3), Some(24)}, sd \in {"+", "-", "."}, ph \in {None, Some(0), Some(2)}}

F_gene  == [key |-> S_gene, locs |-> {GLoc(1, 5, "+")}, qual |-> <<>>]
F_cds   == [key |-> S_CDS, locs |-> {GLoc(2, 4, "+"), GLoc(7, 9, "+")},
            qual |-> <<<<S_ID, Some(<<99, 49>>)>>, <<S_note, Some(<<97, SEMI, 98, SP, EQ>>)>>>>]
F_cdsr  == [key |-> S_CDS, locs |-> {GLoc(2, 4, "-"), GLoc(7, 9, "-"), GLoc(11, 11, "-")}, qual |-> <<<<S_ID, Some(<<99, 50>>)>>>>]
F_mixed == [key |-> S_gene, locs |-> {GLoc(2, 6, "-"), GLoc(2, 3, "+")}, qual |-> <<<<S_ID, Some(<<109>>)>>>>]
F_exon  == [key |-> <<101, 120, 111, 110>>, locs |-> {GLoc(3, 3, "-")}, qual |-> <<<<<<107, SP, 121>>, Some(<<SP, 118, TAB>>)>>>>]
F_same  == [key |-> S_gene, locs |-> {GLoc(4, 8, "+")}, qual |-> <<>>]
F_noid  == [key |-> S_gene, locs |-> {GLoc(1, 5, "+"), GLoc(8, 9, "+")}, qual |-> <<>>]          \* refused
F_none  == [key |-> S_gene, locs |-> {GLoc(1, 5, "+")}, qual |-> <<<<S_note, None>>>>]           \* refused
F_blank == [key |-> S_gene, locs |-> {GLoc(1, 5, "+")}, qual |-> <<<<S_note, Some(<<97, SP>>)>>>>] \* known-bad
GoodFeatures == {F_gene, F_cds, F_cdsr, F_mixed, F_exon, F_same}
AnnotCases == {{f} : f \in GoodFeatures \cup {F_noid, F_none, F_blank}}
              \cup {{f, g} : f \in GoodFeatures, g \in GoodFeatures \cup {F_blank}}
              \cup {{F_gene, F_cds, F_exon}, {F_cdsr, F_mixed, F_same}}

Cases == {<<"entry", e>> : e \in EntryCases} \cup {<<"annot", fs>> : fs \in AnnotCases}

KBe(e) == (IF KB_GffTrailingBlank(e) THEN {"C12-gff-trailing-blank"} ELSE {})
          \cup (IF KB_GffHashSeqid(e) THEN {"C12-gff-hash-seqid"} ELSE {})

Compute(cs) ==
  CASE cs[1] = "entry" ->
         LET e == cs[2]  cl == X_CreateLine(e) IN
         IF ~cl.ok THEN [oc |-> "Rejected", want |-> <<>>, text |-> <<>>, back |-> <<>>,
                         kb |-> KBe(e) \cap {"C12-gff-hash-seqid"}]
         ELSE LET p == X_ParseLine(cl.line) IN
              [oc |-> "ok", want |-> NormE(e), text |-> <<cl.line>>, back |-> IF p.ok THEN p.e ELSE <<"bad">>, kb |-> KBe(e)]
    [] cs[1] = "annot" ->
         LET fs == cs[2]  w == SomeWriting(fs)  wl == A_WriteLines(w) IN
         IF ~wl.ok THEN [oc |-> "Rejected", want |-> {}, text |-> <<>>, back |-> {}, kb |-> {}]
         ELSE [oc |-> "ok", want |-> {GFeatVal(f) : f \in fs}, text |-> wl.lines, back |-> A_Back(wl.lines),
               kb |-> IF \E f \in fs : f.qual # <<>> /\ f.qual[Len(f.qual)][2] # None
                                        /\ LET v == f.qual[Len(f.qual)][2][1] IN v # <<>> /\ v[Len(v)] = SP
                      THEN {"C12-gff-trailing-blank"} ELSE {}]

Init == c \in Cases /\ r = Compute(c)
Next == UNCHANGED vars
Spec == Init /\ [][Next]_vars

(* ---------------------------------------------------------------- model values *)
\* a, blank, tab, line break, %, ;, =, &, ",", >, #
CharClassesQuick == {97, SP, TAB, PCT, SEMI, EQ, GT, HASH}
CharClassesThorough == {97, SP, TAB, NL, PCT, SEMI, EQ, AMP, COMMA, GT, HASH, 65, 48}

(* ---------------------------------------------------------------- properties *)
InvRoundTrip == (r.back = r.want) \/ r.kb # {}
InvKnownBadExact == (r.kb # {} /\ r.oc = "ok") => r.back # r.want
\* quoting is inverted by unquoting on every ASCII string, and quoted text has no separator
InvQuote ==
  c[1] = "entry" => \A k \in 1..Len(c[2][9]) : \A s \in {c[2][9][k][1], c[2][9][k][2]} :
       /\ Unquote(Quote(s)) = s
       /\ \A j \in 1..Len(Quote(s)) : Quote(s)[j] \notin {TAB, NL, SEMI, EQ, AMP, COMMA}
\* the annotation comes back whatever order the writer iterates in (or is refused / known-bad)
InvAnnotAnyOrder ==
  (c[1] = "annot" /\ Dom_GffAnnot(c[2])) =>
     \A w \in Writings(c[2]) : Consistent(w) =>
        LET wl == A_WriteLines(w) IN wl.ok /\ (A_Back(wl.lines) = {GFeatVal(f) : f \in c[2]} \/ r.kb # {})
InvRefusals == (c[1] = "annot" /\ r.oc = "Rejected") => ~Dom_GffAnnot(c[2])
=============================================================================
