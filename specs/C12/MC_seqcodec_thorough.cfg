SPECIFICATION Spec
CONSTANTS
  MaxSeqLen = 4
  QCpls = {0, 1, 2, 3, 5}
  QOffs = {33, 64}
  Second = FALSE
  FCpls = {1, 2, 3, 80}
INVARIANT InvRoundTrip
INVARIANT InvKnownBadExact
INVARIANT InvBothReaders
INVARIANT InvFastqBlocks
INVARIANT InvDomain
CHECK_DEADLOCK FALSE
