------------------------------- MODULE GbFileOps -------------------------------
(* C12 / GenBank, file layer: biotite.sequence.io.genbank.GenBankFile as a list of fields.

     lines : the text (always ends with the terminator line "//")
     fpos  : the incremental field index  <<start, stop, NAME>>  (0-based line offsets, stop
             exclusive) that insert / __setitem__ / __delitem__ shift instead of re-scanning

   A field value is <<name, content, sub>>: name a string, content a list of lines, sub an
   ordered dictionary  subfield name -> list of lines.  One operator per public call
   (G_Insert, G_Append, G_SetItem, G_DelItem, G_GetItem, G_SetField, G_GetIndices, G_Read);
   the declarative layer is the list-of-fields semantics (IdealInsert, ...) on normalised
   values (Norm).  The model checker (GbFile.tla) checks  fpos = G_Reindex(lines)  and
   G_View = ideal  after every edit. *)
EXTENDS Text

S_FEATURES == <<70, 69, 65, 84, 85, 82, 69, 83>>
S_ORIGIN   == <<79, 82, 73, 71, 73, 78>>
S_LOCQUAL  == <<76, 111, 99, 97, 116, 105, 111, 110, 47, 81, 117, 97, 108, 105, 102, 105, 101, 114, 115>>
S_TERM     == <<SLASH, SLASH>>
IsRaw(nm)  == nm \in {S_FEATURES, S_ORIGIN}      \* fields whose content is stored without indentation

(* ---------------------------------------------------------------- domain *)
\* field and subfield names: non-empty words that fit the 12-column name area
Dom_Name(nm)    == nm # <<>> /\ Len(nm) <= 12 /\ (\A k \in 1..Len(nm) : IsAlnum(nm[k]) \/ nm[k] = USCORE)
Dom_SubName(nm) == nm # <<>> /\ Len(nm) <= 10 /\ (\A k \in 1..Len(nm) : IsAlnum(nm[k]) \/ nm[k] = USCORE)
\* raw (FEATURES / ORIGIN) content lines are indented: an unindented line would be a new field
Dom_RawLine(l)  == Dom_Line(l) /\ (l = <<>> \/ l[1] = SP)
Dom_Field(f) ==
  /\ Dom_Name(f[1])
  /\ IF IsRaw(Upper(f[1]))
       THEN \A k \in 1..Len(f[2]) : Dom_RawLine(f[2][k])
       ELSE /\ Len(f[2]) >= 1 /\ (\A k \in 1..Len(f[2]) : Dom_Line(f[2][k]))
            /\ \A j \in 1..Len(f[3]) :
                 /\ Dom_SubName(f[3][j][1]) /\ Len(f[3][j][2]) >= 1
                 /\ \A k \in 1..Len(f[3][j][2]) : Dom_Line(f[3][j][2][k])
            /\ DistinctKeys([j \in 1..Len(f[3]) |-> <<Upper(f[3][j][1]), 0>>])
\* indices the list interface accepts (Python list indices)
Dom_Index(i, n)       == i >= -n /\ i < n
Dom_InsertIndex(i, n) == i >= -n /\ i <= n
\* known defect: _translate_idx has no lower bound (see NOTES.md, C12-gb-index-below-minus-len)
KB_GbIndexBelow(i, n) == i < -n

(* ---------------------------------------------------------------- implementation-shaped *)
G_New == [lines |-> <<S_TERM>>, fpos |-> <<>>]

\* _to_lines
NameCol(label, n) == <<label>> \o [k \in 1..Max2(0, n - 1) |-> <<>>]
G_ToLines(f) ==
  LET nm   == Upper(StripWs(f[1]))
      subs == OdFromList([j \in 1..Len(f[3]) |-> <<Upper(StripWs(f[3][j][1])), f[3][j][2]>>])
  IN IF nm = S_FEATURES THEN <<S_FEATURES \o Spaces(13) \o S_LOCQUAL>> \o f[2]
     ELSE IF nm = S_ORIGIN THEN <<S_ORIGIN>> \o f[2]
     ELSE LET nameCol == NameCol(nm, Len(f[2])) \o
                         FlattenSeq([j \in 1..Len(subs) |-> NameCol(<<SP, SP>> \o subs[j][1], Len(subs[j][2]))])
              contCol == f[2] \o FlattenSeq([j \in 1..Len(subs) |-> subs[j][2]])
          IN [k \in 1..Min2(Len(nameCol), Len(contCol)) |-> LJust(nameCol[k], 12) \o contCol[k]]

\* _find_field_indices
G_Reindex(lines) ==
  LET step(acc, k) ==
        LET l == lines[k] IN
        IF l = <<>> \/ l[1] = SP THEN acc
        ELSE IF Take(l, 2) # S_TERM
          THEN [start |-> Some(k - 1), name |-> StripWs(Take(l, 12)),
                fpos  |-> IF acc.start = None THEN acc.fpos
                          ELSE Append(acc.fpos, <<acc.start[1], k - 1, acc.name>>)]
          ELSE [acc EXCEPT !.fpos = IF acc.start = None THEN @
                                    ELSE Append(@, <<acc.start[1], k - 1, acc.name>>)]
  IN FoldLeft(step, [start |-> None, name |-> <<>>, fpos |-> <<>>], [k \in 1..Len(lines) |-> k]).fpos

\* __getitem__ on a valid, non-negative index i (0-based)
G_Field(lines, fp) ==
  LET start == fp[1]  stop == fp[2]  nm == fp[3] IN
  IF IsRaw(nm) THEN <<nm, SubSeq(lines, start + 2, stop), <<>>>>
  ELSE
    LET hdrs == SelectSeq([k \in 1..(stop - start - 1) |-> start + 1 + k],   \* 1-based line numbers after the first
                          LAMBDA k : lines[k] # <<>> /\ StripWs(Take(lines[k], 12)) # <<>>)
        n    == Len(hdrs)
        endOf(j) == IF j < n THEN hdrs[j + 1] - 1 ELSE stop
        cut(a, b) == [k \in 1..(b - a + 1) |-> Drop(lines[a + k - 1], 12)]
        subs == FoldLeft(LAMBDA acc, j : OdSet(acc, StripWs(Take(lines[hdrs[j]], 12)), cut(hdrs[j], endOf(j))),
                         <<>>, [j \in 1..n |-> j])
        cstop == IF n = 0 THEN stop ELSE hdrs[1] - 1
    IN <<nm, cut(start + 1, cstop), subs>>

G_Len(st) == Len(st.fpos)
G_View(st) == [k \in 1..Len(st.fpos) |-> G_Field(st.lines, st.fpos[k])]

R(st, oc, out) == [st |-> st, oc |-> oc, out |-> out]
Pos(i, n) == IF i < 0 THEN n + i ELSE i                 \* _translate_idx

G_GetItem(st, i) ==
  IF ~Dom_Index(i, G_Len(st)) THEN R(st, "Rejected", <<>>)
  ELSE R(st, "ok", G_Field(st.lines, st.fpos[Pos(i, G_Len(st)) + 1]))

Shift(fpos, from, d) ==        \* entries from..end (1-based) moved by d lines
  [k \in 1..Len(fpos) |-> IF k >= from THEN <<fpos[k][1] + d, fpos[k][2] + d, fpos[k][3]>> ELSE fpos[k]]

NameOk(f) == StripWs(f[1]) # <<>>

G_SetItem(st, i, f) ==
  IF ~Dom_Index(i, G_Len(st)) \/ ~NameOk(f) THEN R(st, "Rejected", <<>>)
  ELSE LET p   == Pos(i, G_Len(st)) + 1
           ins == G_ToLines(f)
           start == st.fpos[p][1]  oldStop == st.fpos[p][2]
           d   == Len(ins) - (oldStop - start)
           ls  == SubSeq(st.lines, 1, start) \o ins \o SubSeq(st.lines, oldStop + 1, Len(st.lines))
           fp  == [Shift(st.fpos, p + 1, d) EXCEPT ![p] = <<start, start + Len(ins), Upper(f[1])>>]
       IN R([lines |-> ls, fpos |-> fp], "ok", <<>>)

G_DelItem(st, i) ==
  IF ~Dom_Index(i, G_Len(st)) THEN R(st, "Rejected", <<>>)
  ELSE LET p  == Pos(i, G_Len(st)) + 1
           start == st.fpos[p][1]  stop == st.fpos[p][2]
           ls == SubSeq(st.lines, 1, start) \o SubSeq(st.lines, stop + 1, Len(st.lines))
           sh == Shift(st.fpos, p, -(stop - start))
           fp == SubSeq(sh, 1, p - 1) \o SubSeq(sh, p + 1, Len(sh))
       IN R([lines |-> ls, fpos |-> fp], "ok", <<>>)

G_Insert(st, i, f) ==
  IF ~Dom_InsertIndex(i, G_Len(st)) \/ ~NameOk(f) THEN R(st, "Rejected", <<>>)
  ELSE LET p   == Pos(i, G_Len(st))            \* 0-based position of the new field
           ins == G_ToLines(f)
           start == IF p = 0 THEN 0 ELSE st.fpos[p][2]
           ls  == SubSeq(st.lines, 1, start) \o ins \o SubSeq(st.lines, start + 1, Len(st.lines))
           sh  == Shift(st.fpos, p + 1, Len(ins))
           fp  == SubSeq(sh, 1, p) \o <<<<start, start + Len(ins), Upper(f[1])>>>> \o SubSeq(sh, p + 1, Len(sh))
       IN R([lines |-> ls, fpos |-> fp], "ok", <<>>)

G_Append(st, f) == G_Insert(st, G_Len(st), f)

\* get_indices(name): 0-based indices of the fields called name.upper()
G_GetIndices(st, nm) ==
  SelectSeq([k \in 1..Len(st.fpos) |-> k - 1], LAMBDA k : st.fpos[k + 1][3] = Upper(nm))

\* set_field: overwrite the only field of that name, append if there is none,
\* refuse (InvalidFileError) when the name is ambiguous
G_SetField(st, f) ==
  LET idx == G_GetIndices(st, f[1]) IN
  IF Len(idx) > 1 THEN R(st, "Rejected", <<>>)
  ELSE IF Len(idx) = 1 THEN G_SetItem(st, idx[1], <<Upper(f[1]), f[2], f[3]>>)
  ELSE G_Append(st, <<Upper(f[1]), f[2], f[3]>>)

\* GenBankFile.read
G_Read(raw) == R([lines |-> raw, fpos |-> G_Reindex(raw)], "ok", <<>>)

(* ---------------------------------------------------------------- declarative layer *)
\* the value a field denotes: upper-case names, subfields only for indented fields
Norm(f) ==
  LET nm == Upper(StripWs(f[1])) IN
  <<nm, f[2], IF IsRaw(nm) THEN <<>>
              ELSE OdFromList([j \in 1..Len(f[3]) |-> <<Upper(StripWs(f[3][j][1])), f[3][j][2]>>])>>

IdealInsert(m, i, f) == LET p == Pos(i, Len(m)) IN SubSeq(m, 1, p) \o <<Norm(f)>> \o SubSeq(m, p + 1, Len(m))
IdealSetItem(m, i, f) == [m EXCEPT ![Pos(i, Len(m)) + 1] = Norm(f)]
IdealDelItem(m, i)    == LET p == Pos(i, Len(m)) + 1 IN SubSeq(m, 1, p - 1) \o SubSeq(m, p + 1, Len(m))
IdealIndices(m, nm)   == SelectSeq([k \in 1..Len(m) |-> k - 1], LAMBDA k : m[k + 1][1] = Upper(nm))
IdealSetField(m, f)   ==
  LET idx == IdealIndices(m, f[1]) IN
  IF Len(idx) > 1 THEN m ELSE IF Len(idx) = 1 THEN IdealSetItem(m, idx[1], f) ELSE Append(m, Norm(f))

G_Apply(st, op, a) ==
  CASE op = "new"       -> R(G_New, "ok", <<>>)
    [] op = "insert"    -> G_Insert(st, a[1], a[2])
    [] op = "append"    -> G_Append(st, a[1])
    [] op = "setitem"   -> G_SetItem(st, a[1], a[2])
    [] op = "delitem"   -> G_DelItem(st, a[1])
    [] op = "getitem"   -> G_GetItem(st, a[1])
    [] op = "set_field" -> G_SetField(st, a[1])
    [] op = "indices"   -> R(st, "ok", G_GetIndices(st, a[1]))
    [] op = "read"      -> G_Read(a[1])
    [] OTHER            -> R(st, "Rejected", <<>>)

IdealApply(m, op, a, oc) ==
  IF oc # "ok" THEN m
  ELSE CASE op = "new"       -> <<>>
         [] op = "insert"    -> IdealInsert(m, a[1], a[2])
         [] op = "append"    -> Append(m, Norm(a[1]))
         [] op = "setitem"   -> IdealSetItem(m, a[1], a[2])
         [] op = "delitem"   -> IdealDelItem(m, a[1])
         [] op = "set_field" -> IdealSetField(m, a[1])
         [] OTHER            -> m

\* the class docstring example
ASSUME G_ToLines(<<<<83, 79, 77, 69>>, <<<<79, 110, 101>>, <<65>>>>,
                   <<<<<<83, 49>>, <<<<83, 105>>>>>>, <<<<83, 50>>, <<<<84>>, <<108>>>>>>>>>>)
  = << <<83, 79, 77, 69>> \o Spaces(8) \o <<79, 110, 101>>,
       Spaces(12) \o <<65>>,
       <<SP, SP, 83, 49>> \o Spaces(8) \o <<83, 105>>,
       <<SP, SP, 83, 50>> \o Spaces(8) \o <<84>>,
       Spaces(12) \o <<108>> >>
=============================================================================
