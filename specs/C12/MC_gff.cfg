SPECIFICATION Spec
CONSTANTS
  Entries <- EntriesQuick
  Directives <- DirectivesQuick
  Texts <- TextsQuick
  MaxLen = 2
  MaxDirs = 2
  Depth = 6
CONSTRAINT DepthBound
INVARIANT InvIndex
INVARIANT InvView
INVARIANT InvReread
INVARIANT InvLines
PROPERTY RefusalIsNoOp
CHECK_DEADLOCK FALSE
