SPECIFICATION Spec
CONSTANTS
  Positions <- PositionsQuick
  MaxParts = 2
  PairPositions <- PairPositionsQuick
  QualValues <- QualValuesQuick
  OriginLens <- OriginLensQuick
  OriginStarts <- OriginStartsQuick
INVARIANT InvCodecExists
INVARIANT InvWriterInGrammar
INVARIANT InvRoundTrip
INVARIANT InvKnownBadExact
INVARIANT InvOrigin
INVARIANT InvDomain
CHECK_DEADLOCK FALSE
