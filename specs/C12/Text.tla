------------------------------- MODULE Text -------------------------------
(* C12 shared layer: text as data.

   A character is its ASCII code (an integer 9..126), a line is a sequence of characters,
   a text is a sequence of lines.  The driver maps codes <-> real characters with chr/ord,
   so every operator below is evaluated by TLC on exactly the characters the library sees.

   Implementation-shaped operators carry the name of the Python function they describe
   (WrapImpl = biotite.file.wrap_string, StripWs = str.strip, SplitOn = str.split(c), ...). *)
EXTENDS Integers, Sequences, FiniteSets, SequencesExt, FiniteSetsExt

(* ---------------------------------------------------------------- characters *)
TAB == 9      NL == 10      CR == 13      SP == 32
BANG == 33    DQ == 34      HASH == 35    PCT == 37     AMP == 38
LPAR == 40    RPAR == 41    STAR == 42    PLUS == 43    COMMA == 44   MINUS == 45
DOT == 46     SLASH == 47   SEMI == 59    LT == 60      EQ == 61      GT == 62
AT == 64      CARET == 94   USCORE == 95  TILDE == 126

\* str.isspace on ASCII: \t \n \v \f \r, the separators 28..31, and the blank
IsWs(c)     == (c >= 9 /\ c <= 13) \/ (c >= 28 /\ c <= 32)
IsDigit(c)  == c >= 48 /\ c <= 57
IsUpper(c)  == c >= 65 /\ c <= 90
IsLower(c)  == c >= 97 /\ c <= 122
IsAlnum(c)  == IsDigit(c) \/ IsUpper(c) \/ IsLower(c)
UpperCh(c)  == IF IsLower(c) THEN c - 32 ELSE c
LowerCh(c)  == IF IsUpper(c) THEN c + 32 ELSE c
Upper(s)    == [k \in 1..Len(s) |-> UpperCh(s[k])]
Lower(s)    == [k \in 1..Len(s) |-> LowerCh(s[k])]
ReplaceCh(s, a, b) == [k \in 1..Len(s) |-> IF s[k] = a THEN b ELSE s[k]]

Min2(a, b) == IF a < b THEN a ELSE b
Max2(a, b) == IF a > b THEN a ELSE b
CeilDiv(a, b) == (a + b - 1) \div b

(* optional values *)
None == <<>>
Some(v) == <<v>>
IsNone(o) == o = <<>>

(* ---------------------------------------------------------------- slicing helpers *)
\* Python s[a:b] on 0-based offsets with 0 <= a; b may exceed the length
Slice(s, a, b) == IF a >= Min2(b, Len(s)) THEN <<>> ELSE SubSeq(s, a + 1, Min2(b, Len(s)))
Drop(s, k)     == Slice(s, k, Len(s))
Take(s, k)     == Slice(s, 0, k)
StartsWith(s, p) == Len(s) >= Len(p) /\ SubSeq(s, 1, Len(p)) = p
Spaces(k) == [i \in 1..k |-> SP]
\* str.ljust(w)
LJust(s, w) == IF Len(s) >= w THEN s ELSE s \o Spaces(w - Len(s))
\* "{:>w}".format(s)
RJust(s, w) == IF Len(s) >= w THEN s ELSE Spaces(w - Len(s)) \o s
\* "{:^w}".format(s): the extra blank goes to the right
Center(s, w) == IF Len(s) >= w THEN s
                ELSE LET t == w - Len(s) IN Spaces(t \div 2) \o s \o Spaces(t - t \div 2)

\* first / last 1-based position of character c in s at or after position from (0 = none)
IndexFrom(s, c, from) ==
  LET P == {k \in from..Len(s) : s[k] = c} IN IF P = {} THEN 0 ELSE Min(P)
IndexOfCh(s, c) == IndexFrom(s, c, 1)
RIndexOfCh(s, c) ==
  LET P == {k \in 1..Len(s) : s[k] = c} IN IF P = {} THEN 0 ELSE Max(P)
HasCh(s, c) == \E k \in 1..Len(s) : s[k] = c
\* first 1-based position where the two-character pattern <<a,b>> starts (0 = none)
IndexOf2(s, a, b) ==
  LET P == {k \in 1..(Len(s) - 1) : s[k] = a /\ s[k + 1] = b} IN IF P = {} THEN 0 ELSE Min(P)

(* ---------------------------------------------------------------- str.strip *)
StripWs(s) ==
  LET P == {k \in 1..Len(s) : ~IsWs(s[k])}
  IN IF P = {} THEN <<>> ELSE SubSeq(s, Min(P), Max(P))
IsBlank(s) == \A k \in 1..Len(s) : IsWs(s[k])
IsStripped(s) == s = <<>> \/ (~IsWs(s[1]) /\ ~IsWs(s[Len(s)]))
DelCh(s, c) == SelectSeq(s, LAMBDA x : x # c)

(* ---------------------------------------------------------------- str.split(c) *)
\* positions of the separator, then the pieces between them (k separators -> k+1 pieces)
SplitOn(s, c) ==
  LET pos == SelectSeq([k \in 1..Len(s) |-> k], LAMBDA k : s[k] = c)
      n   == Len(pos)
      lo(i) == IF i = 1 THEN 0 ELSE pos[i - 1]
      hi(i) == IF i = n + 1 THEN Len(s) + 1 ELSE pos[i]
  IN [i \in 1..(n + 1) |-> Slice(s, lo(i), hi(i) - 1)]
\* str.split(): maximal runs of non-whitespace
Words(s) ==
  LET starts == SelectSeq([k \in 1..Len(s) |-> k],
                          LAMBDA k : ~IsWs(s[k]) /\ (k = 1 \/ IsWs(s[k - 1])))
      endOf(k) == LET Q == {j \in k..Len(s) : IsWs(s[j])} IN IF Q = {} THEN Len(s) ELSE Min(Q) - 1
  IN [i \in 1..Len(starts) |-> SubSeq(s, starts[i], endOf(starts[i]))]
\* sep.join(parts)
JoinWith(parts, sep) ==
  FoldLeft(LAMBDA acc, p : IF acc = None THEN Some(p) ELSE Some(acc[1] \o sep \o p), None, parts)
Join(parts, sep) == IF parts = <<>> THEN <<>> ELSE JoinWith(parts, sep)[1]

(* ---------------------------------------------------------------- integers as text *)
RECURSIVE NatDigits(_)
NatDigits(n) == IF n < 10 THEN <<48 + n>> ELSE Append(NatDigits(n \div 10), 48 + (n % 10))
IntText(n) == IF n < 0 THEN <<MINUS>> \o NatDigits(-n) ELSE NatDigits(n)
IsNatText(s) == s # <<>> /\ \A k \in 1..Len(s) : IsDigit(s[k])
\* what int(s) accepts on the inputs that occur here: optional sign, digits
IsIntText(s) == IF s # <<>> /\ s[1] \in {MINUS, PLUS} THEN IsNatText(Tail(s)) ELSE IsNatText(s)
NatValue(s) == FoldLeft(LAMBDA acc, c : acc * 10 + (c - 48), 0, s)
IntValue(s) == IF s[1] = MINUS THEN -NatValue(Tail(s))
               ELSE IF s[1] = PLUS THEN NatValue(Tail(s)) ELSE NatValue(s)

(* ---------------------------------------------------------------- wrap_string *)
\* biotite.file.wrap_string: for i in range(0, len(text), width): text[i:i+width]
WrapImpl(text, w) ==
  [k \in 1..CeilDiv(Len(text), w) |-> SubSeq(text, (k - 1) * w + 1, Min2(k * w, Len(text)))]
\* what a wrapping is: the pieces concatenate to the text, all but the last have exactly
\* w characters, the last has 1..w (so nothing is dropped and no empty line is produced)
IsWrapOf(ls, text, w) ==
  /\ FlattenSeq(ls) = text
  /\ \A k \in 1..Len(ls) : Len(ls[k]) >= 1 /\ Len(ls[k]) <= w
  /\ \A k \in 1..(Len(ls) - 1) : Len(ls[k]) = w

(* ---------------------------------------------------------------- ordered dictionaries *)
\* An OrderedDict is a sequence of <<key, value>> with distinct keys.
OdKeys(od) == [k \in 1..Len(od) |-> od[k][1]]
OdHas(od, key) == \E k \in 1..Len(od) : od[k][1] = key
OdPos(od, key) == CHOOSE k \in 1..Len(od) : od[k][1] = key
OdGet(od, key) == od[OdPos(od, key)][2]
\* d[key] = v : existing keys keep their position
OdSet(od, key, v) ==
  IF OdHas(od, key) THEN [od EXCEPT ![OdPos(od, key)] = <<key, v>>] ELSE Append(od, <<key, v>>)
OdDel(od, key) == SelectSeq(od, LAMBDA e : e[1] # key)
OdFromList(items) == FoldLeft(LAMBDA acc, e : OdSet(acc, e[1], e[2]), <<>>, items)
DistinctKeys(items) == \A i, j \in 1..Len(items) : items[i][1] = items[j][1] => i = j

\* text file round trip: "\n".join(lines) + "\n" written, str.splitlines() read back.
\* On lines without line-break characters this is the identity; Dom_Line states it.
Dom_Line(l) == \A k \in 1..Len(l) : l[k] \notin {NL, CR, 11, 12, 28, 29, 30}   \* str.splitlines boundaries

ASSUME WrapImpl(<<65, 67, 71, 84, 65>>, 2) = <<<<65, 67>>, <<71, 84>>, <<65>>>>
ASSUME WrapImpl(<<>>, 3) = <<>>
ASSUME SplitOn(<<65, COMMA, COMMA, 66>>, COMMA) = <<<<65>>, <<>>, <<66>>>>
ASSUME SplitOn(<<>>, COMMA) = <<<<>>>>
ASSUME Words(<<SP, 65, 66, SP, SP, 67>>) = <<<<65, 66>>, <<67>>>>
ASSUME IntText(-120) = <<MINUS, 49, 50, 48>> /\ IntValue(IntText(-120)) = -120
ASSUME StripWs(<<SP, 65, SP, 66, TAB>>) = <<65, SP, 66>>
ASSUME Center(<<65>>, 4) = <<SP, 65, SP, SP>>
=============================================================================
