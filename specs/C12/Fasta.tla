------------------------------- MODULE Fasta -------------------------------
(* C12 / FASTA: exhaustive edit-history machine over FastaOps (see FastaOps.tla).
   Variables: the two representations of the file object (lines, ent), the line width it was
   created with, the ordered mapping the edits denote (ideal), and the outcome / returned
   value of the last call. *)
EXTENDS FastaOps

CONSTANTS Headers,     \* header strings used as keys
          SeqStrs,     \* sequence strings used as values
          Cpls,        \* chars_per_line values (chosen in Init)
          Depth

VARIABLES lines, ent, cpl, ideal, oc, out
vars == <<lines, ent, cpl, ideal, oc, out>>
Cur == [lines |-> lines, ent |-> ent, cpl |-> cpl]

ASSUME \A h \in Headers : Dom_Header(h)
ASSUME \A s \in SeqStrs : Dom_SeqStr(s)
ASSUME \A w \in Cpls : Dom_Cpl(w)

AllCalls ==    {<<"set", <<h, s>>>> : h \in Headers, s \in SeqStrs}
          \cup {<<"del", <<h>>>> : h \in Headers}
          \cup {<<"get", <<h>>>> : h \in Headers}

IdealAfter(op, a, r) ==
  IF r.oc # "ok" THEN ideal
  ELSE CASE op = "set" -> IdealSet(ideal, a[1], a[2])
         [] op = "del" -> IdealDel(ideal, a[1])
         [] OTHER      -> ideal

Call(c) ==
  LET r == F_Apply(Cur, c[1], c[2]) IN
  /\ lines' = r.st.lines /\ ent' = r.st.ent /\ cpl' = cpl
  /\ ideal' = IdealAfter(c[1], c[2], r)
  /\ oc' = r.oc /\ out' = r.out

Init == /\ cpl \in Cpls /\ lines = <<>> /\ ent = <<>> /\ ideal = <<>> /\ oc = "ok" /\ out = <<>>
Next == \E c \in AllCalls : Call(c)
Spec == Init /\ [][Next]_vars
DepthBound == TLCGet("level") <= Depth

(* ---------------------------------------------------------------- model values *)
\* "a", "b c", ">d" (a header may itself start with '>')
HeadersQuick == {<<97>>, <<98, 32, 99>>, <<62, 100>>}
\* "", "ACG", "GATTA"; the thorough tier uses "", "A", "AC*-" and a 7-letter string
SeqStrsQuick == {<<>>, <<65, 67, 71>>, <<71, 65, 84, 84, 65>>}
SeqStrsThorough == {<<>>, <<65>>, <<65, 67, STAR, MINUS>>, <<77, 75, 86, 76, 65, 88, 66>>}
CplsQuick == {2}
CplsThorough == {1, 3, 80}

(* ---------------------------------------------------------------- properties *)
\* the incremental index is what a full re-scan of the text gives
InvIndex == F_ReindexOk(lines) /\ ent = F_Reindex(lines)
\* the live mapping view is the ordered mapping the edits denote
InvView == F_View(Cur) = ideal
\* ... and so is the meaning of the text itself, through the file reader and the iterator
InvMeaning == F_Meaning(lines) = ideal /\ F_ReadIter(lines) = ideal
InvReread ==
  LET r == F_Read(lines, cpl) IN
  IF ideal = <<>> THEN r.oc = "Rejected" ELSE r.oc = "ok" /\ F_View(r.st) = ideal
\* every stored sequence is wrapped without loss (wrap_string keeps the last partial line)
InvWrapped ==
  \A k \in 1..Len(ent) :
    IsWrapOf(SubSeq(lines, ent[k][2][1] + 2, ent[k][2][2]), ideal[k][2], cpl)
\* a refused call changes nothing
RefusalIsNoOp == [][oc' # "ok" => (lines' = lines /\ ent' = ent /\ ideal' = ideal)]_vars
\* the last returned value of a get is the stored value
InvGet == TRUE
=============================================================================
