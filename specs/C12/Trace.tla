------------------------------- MODULE Trace -------------------------------
(* C12 direction B: executions recorded from the real file classes, re-computed by TLC with
   the operators of FastaOps / FastqOps / GbFileOps / GffOps / GbFeature / GffAnnot.

   TRACE_FILE is a JSON array of traces, a trace is an array of events.
   History events (k = "hist") belong to one file object:
     {k, fmt, op, a, oc, vok, view, rr, rview, iok, iter, out, dirs, rdirs}
     view  = list/mapping view of the live object after the call   (vok: it could be taken)
     rr    = outcome of re-reading the written text, rview = its view
     iter  = view through the static iterator (FASTA/FASTQ; iok: no exception)
   Round-trip events (k = "pure") are independent write-read experiments:
     {k, fmt, a, oc, got, text}
   Every event is consumed; a disagreement is printed as <<"MISMATCH", tid, index, kb, ...>>
   (kb = known-bad predicates that hold for the event), a history is judged up to its first
   disagreement.  <<"GRAMMAR", ...>> / <<"MODELGAP", ...>> / <<"OUTOFDOMAIN", ...>> are
   diagnostics about the written text, the specification itself and the generators. *)
EXTENDS Text, Json, IOUtils, TLC

FA == INSTANCE FastaOps
FQ == INSTANCE FastqOps
GF == INSTANCE GbFileOps
GB == INSTANCE GbFeature
XA == INSTANCE GffAnnot

Tr == JsonDeserialize(IOEnv.TRACE_FILE)

VARIABLES tid, l, S, live
tvars == <<tid, l, S, live>>

(* ---------------------------------------------------------------- histories *)
Mapping(fmt) == fmt \in {"fasta", "fastq"}

ModelApply(fmt, m, op, a) ==
  IF op = "reload" THEN
    CASE fmt = "fasta" -> FA!F_Read(m.lines, m.cpl)
      [] fmt = "fastq" -> FQ!Q_Read(m.lines, m.off, m.cpl)
      [] fmt = "gb"    -> GF!G_Read(m.lines)
      [] fmt = "gff"   -> XA!X_Read(m.lines)
  ELSE
    CASE fmt = "fasta" -> FA!F_Apply(m, op, a)
      [] fmt = "fastq" -> FQ!Q_Apply(m, op, a)
      [] fmt = "gb"    -> GF!G_Apply(m, op, a)
      [] fmt = "gff"   -> XA!X_Apply(m, op, a)

ModelView(fmt, m) ==
  CASE fmt = "fasta" -> FA!F_View(m)
    [] fmt = "fastq" -> FQ!Q_View(m)
    [] fmt = "gb"    -> GF!G_View(m)
    [] fmt = "gff"   -> XA!X_View(m)

IdealAfter(fmt, idl, op, a, oc) ==
  IF oc # "ok" \/ op = "reload" THEN idl
  ELSE IF op = "new" THEN <<>>
  ELSE CASE fmt = "fasta" -> (IF op = "set" THEN FA!IdealSet(idl, a[1], a[2])
                              ELSE IF op = "del" THEN FA!IdealDel(idl, a[1]) ELSE idl)
         [] fmt = "fastq" -> (IF op = "set" THEN FQ!IdealSet(idl, a[1], <<a[2], a[3]>>)
                              ELSE IF op = "del" THEN FQ!IdealDel(idl, a[1]) ELSE idl)
         [] fmt = "gb"    -> GF!IdealApply(idl, op, a, oc)
         [] fmt = "gff"   -> XA!IdealApply(idl, op, a, oc)

\* the value an observing call has to return, from the declarative view
IdealOut(fmt, idl, op, a) ==
  CASE Mapping(fmt) /\ op = "get" -> OdGet(idl, a[1])
    [] fmt = "gb" /\ op = "getitem"  -> idl[GF!Pos(a[1], Len(idl)) + 1]
    [] fmt = "gb" /\ op = "indices"  -> GF!IdealIndices(idl, a[1])
    [] fmt = "gff" /\ op = "getitem" -> idl[XA!ListPos(a[1], Len(idl))]
    [] OTHER -> <<>>

\* alternative consistent result of a call the specification refuses (None: there is none)
AltView(fmt, idl, m, op, a) ==
  IF fmt = "gb" /\ op = "insert" /\ GF!KB_GbIndexBelow(a[1], Len(idl)) /\ GF!NameOk(a[2])
    THEN Some(GF!IdealInsert(idl, -Len(idl), a[2]))
  ELSE IF fmt = "gff" /\ op \in {"append", "insert", "setitem"} /\ XA!KB_GffHashSeqid(a[Len(a)])
          /\ XA!X_Apply(m, op, [a EXCEPT ![Len(a)] = [@ EXCEPT ![1] = <<120>> \o StripWs(@)]]).oc = "ok"
    THEN Some(XA!IdealApply(idl, op, a, "ok"))
  ELSE None

HistKB(fmt, idl, op, a) ==
  (IF fmt = "gb" /\ op \in {"insert", "setitem", "delitem", "getitem"} /\ GF!KB_GbIndexBelow(a[1], Len(idl))
     THEN {"C12-gb-index-below-minus-len"} ELSE {})
  \cup (IF fmt = "gff" /\ op \in {"append", "insert", "setitem"} /\ XA!KB_GffHashSeqid(a[Len(a)])
     THEN {"C12-gff-hash-seqid"} ELSE {})

\* the call arguments lie in the specified input domain (generator self-check)
HistDom(e) ==
  CASE e.fmt = "fasta" /\ e.op = "set" -> FA!Dom_Header(e.a[1]) /\ FA!Dom_SeqStr(e.a[2])
    [] e.fmt = "fasta" /\ e.op \in {"get", "del"} -> FA!Dom_Header(e.a[1])
    [] e.fmt = "fastq" /\ e.op = "set" -> FQ!Dom_Ident(e.a[1]) /\ FQ!Dom_QSeq(e.a[2]) /\ FQ!Dom_Scores(e.a[3], S.m.off)
    [] e.fmt = "gb" /\ e.op \in {"insert", "setitem"} -> GF!Dom_Field(e.a[2])
    [] e.fmt = "gb" /\ e.op \in {"append", "set_field"} -> GF!Dom_Field(e.a[1])
    [] e.fmt = "gff" /\ e.op \in {"append", "insert", "setitem"} -> XA!Dom_Entry(e.a[Len(e.a)])
    [] OTHER -> TRUE

\* [ok |-> the event agrees with the specification, exact |-> ... and the object can be followed further,
\*  st |-> successor of S]
HistStep(e) ==
  LET fmt == e.fmt
      r   == IF e.op = "new"
               THEN CASE fmt = "fasta" -> FA!R(FA!F_New(e.a[1]), "ok", <<>>)
                      [] fmt = "fastq" -> FQ!R(FQ!Q_New(e.a[1], e.a[2]), "ok", <<>>)
                      [] fmt = "gb"    -> GF!R(GF!G_New, "ok", <<>>)
                      [] fmt = "gff"   -> XA!R(XA!X_New, "ok", <<>>)
               ELSE ModelApply(fmt, S.m, e.op, e.a)
      pre == IF e.op = "new" THEN <<>> ELSE S.ideal
      idl == IdealAfter(fmt, pre, e.op, e.a, r.oc)
      replaced == Mapping(fmt) /\ e.op = "set" /\ OdHas(pre, e.a[1])
      ViewEq(v) == v = idl \/ (replaced /\ FA!SameUpToMove(v, idl, e.a[1]))
      Consistent(v) ==
        /\ e.vok /\ e.view = v
        /\ IF Mapping(fmt) /\ v = <<>> THEN (e.rr = "Rejected" \/ e.rview = <<>>)
           ELSE e.rr = "ok" /\ e.rview = v
      alt == IF e.op = "new" THEN None ELSE AltView(fmt, pre, S.m, e.op, e.a)
      okAccepted ==
        /\ e.oc = "ok" /\ e.vok /\ ViewEq(e.view)
        /\ IF Mapping(fmt) /\ idl = <<>> THEN (e.rr = "Rejected" \/ e.rview = <<>>)
           ELSE e.rr = "ok" /\ e.rview = e.view
        /\ Mapping(fmt) => (e.iok /\ e.iter = e.view)
        /\ fmt = "gff" => (ToSet(e.dirs) = ToSet(XA!X_Directives(r.st)) /\ e.rdirs = e.dirs)
        /\ e.op \in {"get", "getitem", "indices"} => e.out = IdealOut(fmt, idl, e.op, e.a)
      okRefused == (e.oc = "Rejected" /\ Consistent(pre)) \/ (alt # None /\ e.oc = "ok" /\ Consistent(alt[1]))
      ok == IF r.oc = "ok" THEN okAccepted ELSE okRefused
      gap == r.oc = "ok" /\ ModelView(fmt, r.st) # idl
  IN [ok |-> ok,
      exact |-> ok /\ (r.oc # "ok" \/ e.view = idl),
      st |-> IF r.oc = "ok" THEN [m |-> r.st, ideal |-> idl] ELSE S,
      gap |-> gap,
      report |-> <<HistKB(fmt, pre, e.op, e.a), r.oc, IF r.oc = "ok" THEN idl ELSE pre, alt,
                   IF r.oc = "ok" THEN IdealOut(fmt, idl, e.op, e.a) ELSE <<>>>>]

(* ---------------------------------------------------------------- round trips *)
LocOf(j)  == GB!Loc(j[1], j[2], j[3], ToSet(j[4]))
FeatOf(j) == [key |-> j[1], locs |-> {LocOf(x) : x \in ToSet(j[2])}, qual |-> j[3]]
GLocOf(j) == XA!GLoc(j[1], j[2], j[3])
GFeatOf(j) == [key |-> j[1], locs |-> {GLocOf(x) : x \in ToSet(j[2])}, qual |-> j[3]]

GbKBs(fs) ==
  (IF \E f \in fs : GB!KB_GbSingleBaseBeyondRight(f.locs) THEN {"C12-gb-single-base-beyond-right"} ELSE {})
  \cup (IF \E f \in fs : GB!KB_GbOnlyValuelessQualifiers(f.qual) THEN {"C12-gb-only-valueless-qualifiers"} ELSE {})
  \cup (IF GB!KB_GbEmptyAnnotation(fs) THEN {"C12-gb-empty-annotation"} ELSE {})

\* [ok, kb, want, back (what the implementation-shaped model returns), dom, gram]
PureStep(e) ==
  CASE e.fmt = "gbfeat" ->
         LET fseq == [k \in 1..Len(e.a) |-> FeatOf(e.a[k])]
             fs   == ToSet(fseq)
             want == {GB!FeatVal(f) : f \in fs}
             got  == {GB!FeatVal(FeatOf(j)) : j \in ToSet(e.got)}
             lines == FlattenSeq([k \in 1..Len(fseq) |-> GB!WriteFeature(fseq[k].key, SetToSeq(fseq[k].locs), fseq[k].qual)])
             mfs  == GB!ReadFeatures(lines)
             kb   == GbKBs(fs)
             tfs  == GB!ReadFeatures(e.text)
         IN [ok |-> e.oc = "ok" /\ got = want, kb |-> kb, want |-> want,
             back |-> <<GB!ReadFeaturesOc(lines), {GB!FeatVal(mfs[k]) : k \in 1..Len(mfs)}>>,
             dom |-> \A f \in fs : GB!Dom_Feature(f),
             \* does the specification's reader understand the text the library wrote
             gram |-> kb # {} \/ (\E k \in 1..Len(e.text) : Len(e.text[k]) < GB!QUAL_START)
                      \/ {GB!FeatVal(tfs[k]) : k \in 1..Len(tfs)} = want]
    [] e.fmt = "origin" ->
         LET seq == e.a[1]  start == e.a[2] IN
         [ok |-> e.oc = "ok" /\ e.got = <<seq, start>>, kb |-> {}, want |-> <<seq, start>>,
          back |-> LET ro == GB!ReadOrigin(GB!WriteOrigin(seq, start)) IN <<ro.seq, ro.start>>,
          dom |-> GB!Dom_Origin(seq, start),
          gram |-> e.text = GB!WriteOrigin(seq, start) /\ e.text = GB!OriginDecl(seq, start)]
    [] e.fmt = "gffannot" ->
         LET fseq == [k \in 1..Len(e.a) |-> GFeatOf(e.a[k])]
             fs   == ToSet(fseq)
             dom  == XA!Dom_GffAnnot(fs)
             want == {XA!GFeatVal(f) : f \in fs}
             got  == {XA!GFeatVal(GFeatOf(j)) : j \in ToSet(e.got)}
             w    == [k \in 1..Len(fseq) |-> <<fseq[k], SetToSeq(fseq[k].locs)>>]
             wl   == XA!A_WriteLines(w)
             kb   == IF \E f \in fs : f.qual # <<>> /\ f.qual[Len(f.qual)][2] # None
                                       /\ LET v == f.qual[Len(f.qual)][2][1] IN v # <<>> /\ v[Len(v)] = SP
                     THEN {"C12-gff-trailing-blank"} ELSE {}
         IN [ok |-> IF wl.ok THEN e.oc = "ok" /\ got = want ELSE e.oc = "Rejected",
             kb |-> kb, want |-> want,
             back |-> IF wl.ok THEN <<"ok", XA!A_Back(wl.lines)>> ELSE <<"Rejected", {}>>,
             dom |-> wl.ok => dom, gram |-> TRUE]
    [] e.fmt = "fastq_rt" ->
         LET items == e.a[1]  off == e.a[2]  cpl == e.a[3]
             text == FQ!Q_WriteIter(items, off, cpl)
             it == FQ!Q_ReadIter(text, off) IN
         [ok |-> e.oc = "ok" /\ e.got = <<items, items>>, kb |-> {}, want |-> items,
          back |-> IF it.ok THEN it.items ELSE <<>>,
          dom |-> \A k \in 1..Len(items) : FQ!Dom_Ident(items[k][1]) /\ FQ!Dom_QSeq(items[k][2][1])
                                          /\ FQ!Dom_Scores(items[k][2][2], off) /\ Len(items[k][2][1]) = Len(items[k][2][2]),
          gram |-> e.text = text]
    [] e.fmt = "fasta_rt" ->
         LET items == e.a[1]  cpl == e.a[2]
             text == FA!F_WriteIter(items, cpl) IN
         [ok |-> e.oc = "ok" /\ e.got = <<items, items>>, kb |-> {}, want |-> items,
          back |-> FA!F_ReadIter(text),
          dom |-> \A k \in 1..Len(items) : FA!Dom_Header(items[k][1]) /\ FA!Dom_SeqStr(items[k][2]),
          gram |-> e.text = text]

(* ---------------------------------------------------------------- the trace machine *)
Init == /\ tid \in 1..Len(Tr)
        /\ l = 0
        /\ S = [m |-> <<>>, ideal |-> <<>>]
        /\ live = TRUE

Next ==
  /\ l < Len(Tr[tid])
  /\ l' = l + 1
  /\ UNCHANGED tid
  /\ LET e == Tr[tid][l + 1] IN
     IF e.k = "pure" THEN
       LET p == PureStep(e) IN
       /\ UNCHANGED <<S, live>>
       /\ (p.ok \/ PrintT(<<"MISMATCH", tid, l + 1, p.kb, "pure", p.want, p.back>>))
       /\ (p.dom \/ PrintT(<<"OUTOFDOMAIN", tid, l + 1>>))
       /\ (p.gram \/ PrintT(<<"GRAMMAR", tid, l + 1>>))
     ELSE IF ~live THEN UNCHANGED <<S, live>>
     ELSE
       LET h == HistStep(e) IN
       /\ S' = h.st
       /\ live' = h.exact
       /\ (h.ok \/ PrintT(<<"MISMATCH", tid, l + 1, h.report[1], "hist", h.report[2], h.report[3], h.report[4], h.report[5]>>))
       /\ (~h.gap \/ PrintT(<<"MODELGAP", tid, l + 1>>))
       /\ (HistDom(e) \/ PrintT(<<"OUTOFDOMAIN", tid, l + 1>>))

Spec == Init /\ [][Next]_tvars
=============================================================================
