SPECIFICATION Spec
CONSTANTS
  Positions <- PositionsThorough
  MaxParts = 3
  PairPositions <- PairPositionsThorough
  QualValues <- QualValuesThorough
  OriginLens <- OriginLensThorough
  OriginStarts <- OriginStartsThorough
INVARIANT InvCodecExists
INVARIANT InvWriterInGrammar
INVARIANT InvRoundTrip
INVARIANT InvKnownBadExact
INVARIANT InvOrigin
INVARIANT InvDomain
CHECK_DEADLOCK FALSE
