------------------------------- MODULE PdbFile -------------------------------
(* C07: a whole PDB file as PDBFile.set_structure writes it and PDBFile.get_structure /
   get_coord / get_b_factor / get_model_count read it.

   A structure is
     S = [atoms  : Seq(atom)                      annotations, shared by all models
          models : Seq(Seq(<<x, y, z>>))          one coordinate list per model (>= 1 model)
          opt    : [h36, ids, bf, occ, chg]       see PdbColumns
          box    : <<>> | << <<a, b, c>> >>       orthorhombic cell lengths (Dom_Box)
          bonds  : <<>> | << Seq(<<i, j, t>>) >>  0-based atom indices i < j, bond type t ]

   WriteFile(S)   the lines of the file, or "Rejected" (one unwritable atom refuses everything)
   ReadFile(...)  the structure the reader has to return from these lines
   The line-kind part (IndexModels, RecordsForModel, ModelLength) is shaped like
   _index_models_and_atoms / _get_atom_record_indices_for_model / _get_model_length; the
   CONECT part like _set_bonds / _get_bonds followed by connect_via_residue_names. *)
EXTENDS PdbColumns

NAtoms(S) == Len(S.atoms)
NModels(S) == Len(S.models)

(* ------------------------------------------------------------------ CRYST1 *)
CrystLayout ==
  << Fld("record", 1, 6, "L"), Fld("a", 7, 15, "R"), Fld("b", 16, 24, "R"), Fld("c", 25, 33, "R"),
     Fld("alpha", 34, 40, "R"), Fld("beta", 41, 47, "R"), Fld("gamma", 48, 54, "R"),
     Fld("sGroup", 56, 66, "L"), Fld("z", 67, 70, "R") >>
ASSUME LayoutOK(CrystLayout, LineLen)
TCRYST1 == T("CRYST1")
T9000 == T("90.00")
CrystVals(b) ==
  [record |-> TCRYST1, a |-> FixedText(b[1], 3), b |-> FixedText(b[2], 3), c |-> FixedText(b[3], 3),
   alpha |-> T9000, beta |-> T9000, gamma |-> T9000, sGroup |-> T("P 1"), z |-> T("1")]
(* Dom_Box: orthorhombic cell with finite positive edge lengths, none of them shorter than 1/10000 of
   their sum (vectors_from_unitcell clears smaller vector components as numerical noise) *)
BoxFinite(S) == \A k \in 1..3 : ~IsSpecial(S.box[1][k]) /\ S.box[1][k][1] > 0
BoxAspect(S) == LET u == [k \in 1..3 |-> RoundUnits(S.box[1][k], 3)] IN
                \A k \in 1..3 : u[k] >= (u[1] + u[2] + u[3]) \div 10000 + 1
Dom_Box(S) == S.box = <<>> \/ (BoxFinite(S) /\ BoxAspect(S))
BoxWritable(S) == S.box = <<>> \/ FitsAll(CrystLayout, CrystVals(S.box[1]))
KB_CrystOverflow(S) == S.box # <<>> /\ ~BoxWritable(S)          \* not checked by the writer

(* ------------------------------------------------------------------ MODEL / ENDMDL *)
TMODEL == T("MODEL")
TENDMDL == T("ENDMDL")
TCONECT == T("CONECT")
ModelLine(k) == T("MODEL     ") \o RJust(IntText(k), 4)

(* ------------------------------------------------------------------ CONECT *)
SolventNames == {T("HOH"), T("SOL")}
HetNonSolvent(S, i) == S.atoms[i].het /\ S.atoms[i].resn \notin SolventNames
BondSeq(S) == IF S.bonds = <<>> THEN <<>> ELSE S.bonds[1]
BondSet(S) == {BondSeq(S)[k] : k \in DOMAIN BondSeq(S)}
(* the bonds CONECT records carry: a non-water hetero partner, or a bond between residues / chains
   (i, j are 0-based) *)
Carried(S) ==
  {b \in BondSet(S) :
     \/ HetNonSolvent(S, b[1] + 1) \/ HetNonSolvent(S, b[2] + 1)
     \/ S.atoms[b[1] + 1].resi # S.atoms[b[2] + 1].resi
     \/ S.atoms[b[1] + 1].chain # S.atoms[b[2] + 1].chain}
CarriedPairs(S) == {<<b[1], b[2]>> : b \in Carried(S)}
Partners(P, i) == {p[2] : p \in {q \in P : q[1] = i}} \cup {p[1] : p \in {q \in P : q[2] = i}}
SortedSeq(X) == SetToSortSeq(X, <)
SerialText(S, i) == IdText(SerialOf(S.atoms[i], S.opt, i), 5, MaxSerial, S.opt.h36).s
(* records of one centre atom (0-based c): its partners in increasing order, four per record;
   P the carried pairs, ids the serial texts of all atoms *)
ConectOf(P, ids, c) ==
  LET ps == SortedSeq(Partners(P, c))
      nrec == (Len(ps) + 3) \div 4
  IN [r \in 1..nrec |->
        TCONECT \o RJust(ids[c + 1], 5)
          \o Flat([k \in 1..(IF r < nrec THEN 4 ELSE Len(ps) - 4 * (nrec - 1)) |->
                     RJust(ids[ps[4 * (r - 1) + k] + 1], 5)])]
ConectLines(S) ==
  IF S.bonds = <<>> THEN <<>>
  ELSE Bind(CarriedPairs(S), LAMBDA P :
         Bind([i \in 1..NAtoms(S) |-> SerialText(S, i)], LAMBDA ids :
           Flat([c \in 1..NAtoms(S) |-> ConectOf(P, ids, c - 1)])))

(* ------------------------------------------------------------------ the writer *)
AtomRes(S, m, i) == WriteAtom(S.atoms[i], S.models[m][i], S.opt, i)
AllAtomRes(S) == [m \in 1..NModels(S) |-> [i \in 1..NAtoms(S) |-> AtomRes(S, m, i)]]
FileWritable(S) ==
  /\ \A m \in 1..NModels(S) : \A i \in 1..NAtoms(S) : AtomRes(S, m, i).oc = "ok"
  /\ BoxWritable(S)

WriteFile(S) ==
  Bind(AllAtomRes(S), LAMBDA res :
    IF ~(BoxWritable(S) /\ \A m \in 1..NModels(S) : \A i \in 1..NAtoms(S) : res[m][i].oc = "ok")
      THEN [oc |-> "Rejected", lines |-> <<>>]
      ELSE [oc |-> "ok",
            lines |-> (IF S.box = <<>> THEN <<>> ELSE <<Render(CrystLayout, CrystVals(S.box[1]), LineLen)>>)
                        \o Flat([m \in 1..NModels(S) |->
                                   LET atoms == [i \in 1..NAtoms(S) |-> res[m][i].line] IN
                                   IF NModels(S) > 1 THEN <<ModelLine(m)>> \o atoms \o <<TENDMDL>> ELSE atoms])
                        \o ConectLines(S)])

(* ------------------------------------------------------------------ line kinds and models *)
LineKind(l) ==
  IF StartsWith(l, TMODEL) THEN "MODEL"
  ELSE IF StartsWith(l, TATOM) \/ StartsWith(l, THETATM) THEN "ATOM"
  ELSE IF StartsWith(l, TCONECT) THEN "CONECT"
  ELSE IF StartsWith(l, TCRYST1) THEN "CRYST1"
  ELSE "OTHER"
Kinds(lines) == [k \in DOMAIN lines |-> LineKind(lines[k])]
Positions(kinds, kind) == SelectSeq([k \in DOMAIN kinds |-> k], LAMBDA k : kinds[k] = kind)

(* _index_models_and_atoms, on the sequence of line kinds (positions are 1-based here) *)
ModelStarts(kinds) ==
  LET ms == Positions(kinds, "MODEL") IN
  IF ms = <<>> /\ Positions(kinds, "ATOM") # <<>> THEN <<1>> ELSE ms
AtomPositions(kinds) == Positions(kinds, "ATOM")

(* _get_atom_record_indices_for_model(model), model = 1, 2, ... or -1, -2, ... from the end.
   0 and numbers beyond the last model are refused.  (A negative number below -count is outside
   the documented domain: Dom_ModelNumber.) *)
Dom_ModelNumber(kinds, k) == k >= -Len(ModelStarts(kinds))
NoRecords == [ok |-> FALSE, pos |-> <<>>]
RecordsForModel(kinds, k) ==
  LET st == ModelStarts(kinds)  last == Len(st)  ap == AtomPositions(kinds)
      m == IF k < 0 THEN last + k + 1 ELSE k
  IN IF k = 0 \/ m > last \/ m < 1 THEN NoRecords
     ELSE IF m < last THEN [ok |-> TRUE, pos |-> SelectSeq(ap, LAMBDA p : p >= st[m] /\ p < st[m + 1])]
     ELSE [ok |-> TRUE, pos |-> SelectSeq(ap, LAMBDA p : p >= st[m])]

(* _get_model_length: every model has the same number of atom records *)
ModelLength(kinds) ==
  LET st == ModelStarts(kinds)
      cnt(m) == Len(RecordsForModel(kinds, m).pos)
  IN IF st = <<>> THEN [ok |-> FALSE, n |-> 0]
     ELSE [ok |-> \A m \in 1..Len(st) : cnt(m) = cnt(1), n |-> cnt(1)]

(* ------------------------------------------------------------------ bonds on the reading side *)
(* residue templates of the synthetic Chemical Component Dictionary (fixtures/ccd/make_ccd.py):
   bond types 1 single, 2 double, 3 triple, 5 aromatic single, 6 aromatic double *)
Tpl(pairs) == {<<T(p[1]), T(p[2]), p[3]>> : p \in pairs}
Template(resn) ==
  CASE resn = T("ALA") -> Tpl({<<"N","CA",1>>, <<"CA","C",1>>, <<"C","O",2>>, <<"CA","CB",1>>, <<"C","OXT",1>>})
    [] resn = T("GLY") -> Tpl({<<"N","CA",1>>, <<"CA","C",1>>, <<"C","O",2>>, <<"C","OXT",1>>})
    [] resn = T("SER") -> Tpl({<<"N","CA",1>>, <<"CA","C",1>>, <<"C","O",2>>, <<"CA","CB",1>>, <<"CB","OG",1>>})
    [] resn \in {T("DA"), T("DG")} ->
         Tpl({<<"P","OP1",2>>, <<"P","O5'",1>>, <<"O5'","C5'",1>>, <<"C5'","C3'",1>>, <<"C3'","O3'",1>>})
    [] resn = T("LIG") -> Tpl({<<"C1","C2",3>>, <<"C2","O1",1>>, <<"C1","N1",2>>})
    [] resn = T("RNG") -> Tpl({<<"C1","C2",6>>, <<"C2","C3",5>>, <<"C3","C4",6>>, <<"C4","C5",5>>, <<"C5","C6",6>>, <<"C6","C1",5>>})
    [] OTHER -> {}
LinkClass(resn) ==
  IF resn \in {T("ALA"), T("GLY"), T("SER")} THEN "pep"
  ELSE IF resn \in {T("DA"), T("DG")} THEN "nuc" ELSE "none"

(* get_residue_starts: a residue starts where chain, number, insertion code or name changes *)
SameResidue(a, b) == a.chain = b.chain /\ a.resi = b.resi /\ a.icode = b.icode /\ a.resn = b.resn
ResStarts(atoms) == SelectSeq([i \in DOMAIN atoms |-> i], LAMBDA i : i = 1 \/ ~SameResidue(atoms[i - 1], atoms[i]))
ResEnd(atoms, starts, r) == IF r < Len(starts) THEN starts[r + 1] - 1 ELSE Len(atoms)

Pair(i, j, t) == IF i < j THEN <<i, j, t>> ELSE <<j, i, t>>
HasP(B, b) == \E c \in B : c[1] = b[1] /\ c[2] = b[2]
MergeBonds(B, C) == C \cup {b \in B : ~HasP(C, b)}           \* C wins on common pairs (BondList.merge)

(* all pairs of atoms of one residue (positions lo..hi) named like a template bond *)
ResidueBonds(atoms, lo, hi) ==
  UNION {{Pair(p[1] - 1, p[2] - 1, tp[3]) :
            p \in {q \in (lo..hi) \X (lo..hi) : atoms[q[1]].name = tp[1] /\ atoms[q[2]].name = tp[2]}}
         : tp \in Template(atoms[lo].resn)}
TemplateBonds(atoms) ==
  LET st == ResStarts(atoms) IN
  UNION {ResidueBonds(atoms, st[r], ResEnd(atoms, st, r)) : r \in 1..Len(st)}

FirstNamed(atoms, lo, hi, nm) ==
  LET c == {i \in lo..hi : atoms[i].name = nm} IN IF c = {} THEN 0 ELSE CHOOSE i \in c : \A k \in c : i <= k
(* _connect_inter_residue: C-N between consecutive amino acids, O3'-P between nucleotides, of one
   chain whose numbers do not jump by more than one *)
ImpliedLinks(atoms) ==
  LET st == ResStarts(atoms) IN
  UNION {LET a == atoms[st[r]]  b == atoms[st[r + 1]]
             cls == IF LinkClass(a.resn) = LinkClass(b.resn) THEN LinkClass(a.resn) ELSE "none"
             i == FirstNamed(atoms, st[r], ResEnd(atoms, st, r), IF cls = "pep" THEN T("C") ELSE T("O3'"))
             j == FirstNamed(atoms, st[r + 1], ResEnd(atoms, st, r + 1), IF cls = "pep" THEN T("N") ELSE T("P"))
         IN IF a.chain = b.chain /\ ~(b.resi - a.resi > 1) /\ cls # "none" /\ i # 0 /\ j # 0
              THEN {Pair(i - 1, j - 1, 1)} ELSE {}
         : r \in 1..(Len(st) - 1)}

(* _get_bonds: CONECT records as pairs of type ANY (0), atoms addressed by their serial numbers *)
IndexOfSerial(serials, v) ==            \* last atom carrying that number (atom_id_to_index is overwritten)
  LET c == {i \in DOMAIN serials : serials[i] = v} IN IF c = {} THEN 0 ELSE CHOOSE i \in c : \A k \in c : i >= k
ConectPairs(lines, serials) ==
  UNION {LET l == LJust(lines[n], LineLen)
             ctr == Dec(Cols(l, 7, 11))
             Part(k) == Dec(Cols(l, 12 + 5 * (k - 1), 16 + 5 * (k - 1)))
             upto == IF \E k \in 1..4 : ~Part(k).ok THEN (CHOOSE k \in 1..4 : ~Part(k).ok /\ \A q \in 1..(k - 1) : Part(q).ok) - 1
                     ELSE 4
         IN IF LineKind(lines[n]) # "CONECT" \/ ~ctr.ok THEN {}
            ELSE {Pair(IndexOfSerial(serials, ctr.v) - 1, IndexOfSerial(serials, Part(k).v) - 1, 0) : k \in 1..upto}
         : n \in DOMAIN lines}

(* ------------------------------------------------------------------ the reader *)
ReadBox(lines) ==
  LET cs == Positions(Kinds(lines), "CRYST1") IN
  IF cs = <<>> THEN <<>>
  ELSE LET l == lines[cs[1]]  F(n) == Field(l, CrystLayout, n) IN
       << [len |-> <<ParseFixed(F("a"), 3).units, ParseFixed(F("b"), 3).units, ParseFixed(F("c"), 3).units>>,
           ang |-> <<ParseFixed(F("alpha"), 2).units, ParseFixed(F("beta"), 2).units, ParseFixed(F("gamma"), 2).units>>] >>

NoBonds == [carry |-> {}, upper |-> {}, exact |-> {}]
ReadBonds(lines, atoms) ==
  Bind(ConectPairs(lines, [i \in DOMAIN atoms |-> atoms[i].serial]), LAMBDA cp :
    Bind(MergeBonds(cp, MergeBonds(TemplateBonds(atoms), ImpliedLinks(atoms))), LAMBDA exact :
      [carry |-> {<<b[1], b[2]>> : b \in cp},          \* must come back
       upper |-> {<<b[1], b[2]>> : b \in exact},       \* nothing else may come back
       exact |-> exact]))                              \* with these types (diagnostic)
(* get_structure(model=None, extra_fields=[atom_id, b_factor, occupancy, charge], include_bonds)
   S is only consulted for what the caller knows: whether bonds were written (include_bonds) *)
ReadFile(lines, S) ==
  Bind(Kinds(lines), LAMBDA kinds :
    Bind(ModelLength(kinds), LAMBDA ml :
      Bind([m \in 1..Len(ModelStarts(kinds)) |->
              Bind(RecordsForModel(kinds, m).pos, LAMBDA pos : [i \in 1..ml.n |-> ReadAtom(lines[pos[i]])])],
           LAMBDA recs :
        [ok      |-> ml.ok /\ \A i \in 1..ml.n : recs[1][i].ok,
         nmodels |-> Len(recs),
         atoms   |-> recs[1],                                  \* annotations come from the first model
         coords  |-> [m \in 1..Len(recs) |-> [i \in 1..ml.n |-> recs[m][i].xyz]],
         box     |-> ReadBox(lines),
         bonds   |-> IF S.bonds = <<>> THEN NoBonds ELSE ReadBonds(lines, recs[1])])))

(* get_structure(model=k) / get_coord(model=k): the coordinates of one model *)
ReadModel(lines, k) ==
  LET r == RecordsForModel(Kinds(lines), k) IN
  IF r.ok THEN [oc |-> "ok", xyz |-> [i \in 1..Len(r.pos) |-> ReadAtom(lines[r.pos[i]]).xyz]]
  ELSE [oc |-> "Rejected", xyz |-> <<>>]

(* ------------------------------------------------------------------ what a round trip has to give *)
AbstractFile(S) ==
  [ok      |-> TRUE,
   nmodels |-> NModels(S),
   atoms   |-> [i \in 1..NAtoms(S) |-> Abstract(S.atoms[i], S.models[1][i], S.opt, i)],
   coords  |-> [m \in 1..NModels(S) |-> [i \in 1..NAtoms(S) |-> Abstract(S.atoms[i], S.models[m][i], S.opt, i).xyz]],
   box     |-> IF S.box = <<>> THEN <<>>
               ELSE << [len |-> <<SignedUnits(S.box[1][1], 3), SignedUnits(S.box[1][2], 3), SignedUnits(S.box[1][3], 3)>>,
                        ang |-> <<9000, 9000, 9000>>] >>]
Dom_File(S) ==
  /\ NAtoms(S) >= 1 /\ NModels(S) >= 1 /\ Dom_Box(S)
  /\ \A i \in 1..NAtoms(S) : Dom_RoundTrip(S.atoms[i], S.opt, i)
  /\ \A m \in 1..NModels(S) : Len(S.models[m]) = NAtoms(S)
(* bonds can only be read back when the serial numbers address the atoms: distinct, increasing *)
Dom_BondIds(S) ==
  S.bonds = <<>> \/ \A i \in 1..(NAtoms(S) - 1) :
     0 < SerialOf(S.atoms[i], S.opt, i) /\ SerialOf(S.atoms[i], S.opt, i) < SerialOf(S.atoms[i + 1], S.opt, i + 1)

FileKB(S) ==
  UNION {KBSet(S.atoms[i], S.models[m][i], S.opt, i) : m \in 1..NModels(S), i \in 1..NAtoms(S)}
    \cup (IF KB_CrystOverflow(S) THEN {"CrystOverflow"} ELSE {})
(* wrap-around of numbers beyond the decimal columns is announced by a warning; a refusal would
   satisfy the property as well *)
Lenient(S) == \E i \in 1..NAtoms(S) : ~Dom_Ids(S.atoms[i], S.opt, i)

(* ------------------------------------------------------------------ everything the checks compare *)
EmptyBack == [ok |-> FALSE, nmodels |-> 0, atoms |-> <<>>, coords |-> <<>>, box |-> <<>>, bonds |-> NoBonds]
(* model numbers tried on a file of M models: -(M+1) .. M+1 *)
ModelNumbers(M) == [k \in 1..(2 * M + 3) |-> k - M - 2]
Expect(S) ==
  Bind(WriteFile(S), LAMBDA w :
  [oc      |-> w.oc,
   lines   |-> w.lines,
   back    |-> IF w.oc = "ok" THEN ReadFile(w.lines, S) ELSE EmptyBack,
   sel     |-> IF w.oc = "ok"
               THEN [q \in 1..(2 * NModels(S) + 3) |-> ReadModel(w.lines, ModelNumbers(NModels(S))[q])]
               ELSE <<>>,
   kb      |-> FileKB(S),
   lenient |-> Lenient(S),
   domBox  |-> Dom_Box(S),
   dom     |-> Dom_File(S) /\ Dom_BondIds(S)])

Pending == [oc |-> "pending", lines |-> <<>>, back |-> EmptyBack, sel |-> <<>>, kb |-> {}, lenient |-> FALSE,
            domBox |-> FALSE, dom |-> FALSE]

(* ------------------------------------------------------------------ statements checked by TLC (S1) *)
(* the design round-trips: reading what the reference writer wrote gives the structure back at
   column precision *)
StripBonds(r) == [ok |-> r.ok, nmodels |-> r.nmodels, atoms |-> r.atoms, coords |-> r.coords, box |-> r.box]
RoundTripOK(S, e) == (e.oc = "ok" /\ Dom_File(S)) => StripBonds(e.back) = AbstractFile(S)
(* every ATOM / HETATM record has its fields in the standard columns *)
ColumnsOK(S, e) ==
  e.oc = "ok" =>
    \A m \in 1..NModels(S) : \A i \in 1..NAtoms(S) :
       InColumns(AtomRes(S, m, i).line, AtomLayout, AtomVals(S.atoms[i], S.models[m][i], S.opt, i), LineLen)
(* the acceptance test as implemented differs from "every field fits" only on the known-bad inputs *)
AcceptanceOK(S) ==
  \A m \in 1..NModels(S) : \A i \in 1..NAtoms(S) :
    LET a == S.atoms[i]  c == S.models[m][i] IN
    /\ Writable(a, c, S.opt, i) => ImplAccepts(a, c, S.opt, i)
    /\ (ImplAccepts(a, c, S.opt, i) /\ ~Writable(a, c, S.opt, i)) =>
          KBSet(a, c, S.opt, i) \cap {"RoundCarry", "NegativeId", "UncheckedWidth"} # {}
(* model selection: k and k - M - 1 name the same model; 0 and M + 1 are refused *)
ModelsOK(S, e) ==
  e.oc = "ok" =>
    LET M == NModels(S) IN
    /\ e.back.nmodels = M
    /\ \A k \in 1..M : /\ ReadModel(e.lines, k) = [oc |-> "ok", xyz |-> e.back.coords[k]]
                        /\ ReadModel(e.lines, k - M - 1) = ReadModel(e.lines, k)
    /\ ReadModel(e.lines, 0).oc = "Rejected" /\ ReadModel(e.lines, M + 1).oc = "Rejected"
(* CONECT: exactly the carried bonds come back from the records, at most four partners per record *)
BondsOK(S, e) ==
  (e.oc = "ok" /\ S.bonds # <<>> /\ Dom_File(S) /\ Dom_BondIds(S)) =>
    /\ e.back.bonds.carry = CarriedPairs(S)
    /\ e.back.bonds.carry \subseteq e.back.bonds.upper
    /\ \A n \in DOMAIN e.lines : LineKind(e.lines[n]) = "CONECT" => Len(e.lines[n]) \in {16, 21, 26, 31}
=============================================================================
