SPECIFICATION Spec
CONSTANTS
  Rich = FALSE
INVARIANT InvRoundTrip
INVARIANT InvColumns
INVARIANT InvAcceptance
INVARIANT InvModels
CHECK_DEADLOCK FALSE
