SPECIFICATION Spec
CONSTANTS
  Rich = TRUE
INVARIANT InvRoundTrip
INVARIANT InvColumns
INVARIANT InvAcceptance
INVARIANT InvModels
INVARIANT InvBonds
INVARIANT InvFraming
CHECK_DEADLOCK FALSE
