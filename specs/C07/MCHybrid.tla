------------------------------- MODULE MCHybrid -------------------------------
(* C07, S1 for Hybrid36: exhaustive enumeration of numbers n at width w.
   Two kinds of states (same variable shapes):
     <<"num", w, n>>   one number; out = <<ok, numeral>>            (boundary families, small widths)
     <<"blk", w, b>>   the block b*BlockSize .. b*BlockSize+BlockSize-1 of a width that is
                       enumerated completely; out = <<TRUE, numerals right-justified to w and
                       concatenated>>.  Blocks are successors of "grp" states (GroupSize blocks
                       each) so that TLC's workers share them.
   The invariants are evaluated for every number of every state. *)
EXTENDS Hybrid36, TLC

CONSTANTS K,              \* neighbourhood radius around every boundary
          SmallWidths,    \* widths enumerated completely, one state per number (1, 2)
          FullWidths,     \* widths enumerated completely in blocks (thorough: 3, 4)
          BoundaryWidths, \* widths explored around their boundaries (4, 5)
          BlockSize, GroupSize,
          ExtremeDigits, ExtremeLead

VARIABLES inp, out
vars == <<inp, out>>

(* --- boundary family: numerals all of whose base-36 digits are extreme, +-K -------------- *)
\* ExtremeDigits: base-36 digit values used below the leading position, e.g. {0, 9, 10, 35} = 0 9 A Z
\* ExtremeLead:   leading letters, e.g. {10, 35} = A Z
RECURSIVE ExtremeTails(_)
ExtremeTails(k) == IF k = 0 THEN {0} ELSE {36 * t + d : t \in ExtremeTails(k - 1), d \in ExtremeDigits}
\* base-36 values of the extreme numerals of width w
ExtremeB36(w) == {l * Pow36(w - 1) + t : l \in ExtremeLead, t \in ExtremeTails(w - 1)}
Around(S, lo, hi) == {c \in {x + d : x \in S, d \in (-K)..K} : lo <= c /\ c <= hi}
RECURSIVE DecimalExtremes(_)
DecimalExtremes(k) == IF k = 0 THEN {0} ELSE {10 * t + d : t \in DecimalExtremes(k - 1), d \in {0, 1, 9}}

Boundary(w) ==
  LET half == 26 * Pow36(w - 1)
      up == {v - 10 * Pow36(w - 1) + Pow10(w) : v \in ExtremeB36(w)}
      lo == {x + half : x \in up}
  IN Around(up \cup lo \cup DecimalExtremes(w) \cup {0, Pow10(w), Pow10(w) + half, MaxH36(w)},
            -K, MaxH36(w) + K)
BoundaryF == [w \in BoundaryWidths |-> Boundary(w)]

Result(n, w) == LET e == Enc(n, w) IN <<e.ok, e.s>>
BlockNums(w, b) == {m \in (b * BlockSize)..(b * BlockSize + BlockSize - 1) : m <= MaxH36(w)}
BlockText(w, b) ==
  FoldLeft(LAMBDA acc, k : acc \o RJust(Enc(b * BlockSize + k - 1, w).s, w), <<>>,
           [k \in 1..Cardinality(BlockNums(w, b)) |-> k])

NBlocks(w) == MaxH36(w) \div BlockSize + 1
Init ==
  \/ /\ inp \in UNION {{<<"num", w, n>> : n \in (-K)..(MaxH36(w) + K)} : w \in SmallWidths}
                 \cup UNION {{<<"num", w, n>> : n \in BoundaryF[w]} : w \in BoundaryWidths}
     /\ out = Result(inp[3], inp[2])
  \/ /\ inp \in UNION {{<<"grp", w, g>> : g \in 0..((NBlocks(w) - 1) \div GroupSize)} : w \in FullWidths}
     /\ out = <<TRUE, <<>>>>

Next ==
  /\ inp[1] = "grp"
  /\ \E b \in (inp[3] * GroupSize)..(inp[3] * GroupSize + GroupSize - 1) :
       /\ b < NBlocks(inp[2])
       /\ inp' = <<"blk", inp[2], b>>
       /\ out' = <<TRUE, BlockText(inp[2], b)>>

Spec == Init /\ [][Next]_vars

(* --- the statements, per number ----------------------------------------------------------- *)
NumOK(n, w) ==
  LET e == Enc(n, w) IN
  /\ e.ok = (0 <= n /\ n <= MaxH36(w))                                  \* refusals exactly outside the range
  /\ e.ok =>
       /\ Len(e.s) <= w
       /\ Dec(e.s) = [ok |-> TRUE, v |-> n]                              \* decode inverts encode
       /\ Dec(RJust(e.s, w)) = [ok |-> TRUE, v |-> n]                    \* also in its right-justified column
       /\ (n >= Pow10(w) => Len(e.s) = w /\ (CanonicalUpper(e.s) \/ CanonicalLower(e.s)))
       /\ (n < MaxH36(w) => Enc(n + 1, w).s = NextNumeral(e.s, w))      \* declarative enumeration order
       /\ Enc(Dec(e.s).v, w).s = e.s                                     \* encode inverts decode on numerals

InvNumbers ==
  CASE inp[1] = "num" -> NumOK(inp[3], inp[2])
    [] inp[1] = "blk" -> \A n \in BlockNums(inp[2], inp[3]) : NumOK(n, inp[2])
    [] OTHER -> TRUE
InvBlockText == inp[1] = "blk" => Len(out[2]) = inp[2] * Cardinality(BlockNums(inp[2], inp[3]))
=============================================================================
