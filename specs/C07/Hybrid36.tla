------------------------------- MODULE Hybrid36 -------------------------------
(* C07: the hybrid-36 number notation of width w (PDB uses w = 5 for atom serials and w = 4
   for residue numbers).  Text is a sequence of characters (FixedCols).

   Declarative description: the numbers 0, 1, 2, ... are written, in this order, as
     (1) the decimal numerals below 10^w,
     (2) then all w-character base-36 numerals over 0-9A-Z whose first character is a letter,
         in increasing base-36 order  (A0..0 is 10^w),
     (3) then the same numerals in lower case.
   Nothing else is a numeral; negative numbers and numbers beyond the last lower-case
   numeral are refused.

   Enc / Dec below are shaped like encode_hybrid36 / decode_hybrid36 (subtract the size of
   the previous range, add the base-36 offset of "A0..0").  The model-checked statements are
   in MCHybrid.tla: Dec(Enc(n)) = n, Enc(Dec(s)) = s, Enc walks the declarative enumeration
   (NextNumeral), refusals exactly outside 0..MaxH36(w). *)
EXTENDS FixedCols

UpperSeq == T("ABCDEFGHIJKLMNOPQRSTUVWXYZ")
LowerSeq == T("abcdefghijklmnopqrstuvwxyz")
UpperSet == {UpperSeq[k] : k \in 1..26}
LowerSet == {LowerSeq[k] : k \in 1..26}
(* digit values of the base-36 characters: 0-9 -> 0..9, A/a -> 10 ... Z/z -> 35 (evaluated once) *)
CharVal36 == [c \in DigitSet \cup UpperSet \cup LowerSet |->
                IF c \in DigitSet THEN DigitValF[c]
                ELSE IF c \in UpperSet THEN 9 + CHOOSE k \in 1..26 : UpperSeq[k] = c
                ELSE 9 + CHOOSE k \in 1..26 : LowerSeq[k] = c]

Pow36(k) == CASE k = 0 -> 1 [] k = 1 -> 36 [] k = 2 -> 1296 [] k = 3 -> 46656
              [] k = 4 -> 1679616 [] k = 5 -> 60466176

(* max_hybrid36_number(w) *)
MaxH36(w) == Pow10(w) - 1 + 2 * (26 * Pow36(w - 1))

(* "letters" is UpperSeq or LowerSeq *)
B36Digit(v, letters) == IF v < 10 THEN DigitChar(v) ELSE letters[v - 9]
RECURSIVE Base36(_, _, _)
Base36(n, w, letters) ==
  IF w = 0 THEN <<>> ELSE Append(Base36(n \div 36, w - 1, letters), B36Digit(n % 36, letters))

NoH36 == [ok |-> FALSE, s |-> <<>>]
(* encode_hybrid36(number, length); the decimal range is NOT padded (the caller right-justifies) *)
Enc(n, w) ==
  IF n < 0 THEN NoH36
  ELSE IF n < Pow10(w) THEN [ok |-> TRUE, s |-> NatText(n)]
  ELSE LET m == n - Pow10(w)  half == 26 * Pow36(w - 1) IN
       IF m < half THEN [ok |-> TRUE, s |-> Base36(m + 10 * Pow36(w - 1), w, UpperSeq)]
       ELSE IF m - half < half THEN [ok |-> TRUE, s |-> Base36(m - half + 10 * Pow36(w - 1), w, LowerSeq)]
       ELSE NoH36

(* a numeral of range (2) / (3) *)
CanonicalUpper(t) == Len(t) >= 1 /\ t[1] \in UpperSet /\ \A i \in 2..Len(t) : t[i] \in DigitSet \cup UpperSet
CanonicalLower(t) == Len(t) >= 1 /\ t[1] \in LowerSet /\ \A i \in 2..Len(t) : t[i] \in DigitSet \cup LowerSet
Base36Val(t) == FoldLeft(LAMBDA acc, c : 36 * acc + CharVal36[c], 0, t)

NoNum == [ok |-> FALSE, v |-> 0]
(* decode_hybrid36(string): Python int() first (blanks and a sign are accepted), then the
   stripped text as an upper- or lower-case numeral whose width is its own length.
   Texts that are neither are outside the written language (Dom_H36Text): refused here. *)
Dec(s) ==
  LET pi == ParseInt(s) IN
  IF pi.ok THEN [ok |-> TRUE, v |-> pi.val]
  ELSE LET t == Strip(s)  w == Len(t) IN
       IF w = 0 \/ w > 5 THEN NoNum
       ELSE IF CanonicalUpper(t) THEN [ok |-> TRUE, v |-> Base36Val(t) - 10 * Pow36(w - 1) + Pow10(w)]
       ELSE IF CanonicalLower(t) THEN [ok |-> TRUE, v |-> Base36Val(t) + 16 * Pow36(w - 1) + Pow10(w)]
       ELSE NoNum

(* --- declarative successor on numerals: the enumeration order stated above ---------- *)
(* successor of a base-36 numeral (never called on Z..Z / z..z) *)
RECURSIVE Succ36(_, _)
Succ36(t, letters) ==
  LET v == CharVal36[t[Len(t)]]  head == SubSeq(t, 1, Len(t) - 1) IN
  IF v < 35 THEN Append(head, B36Digit(v + 1, letters))
  ELSE Append(Succ36(head, letters), "0")
FirstOf(w, letters) == <<letters[1]>> \o [i \in 1..(w - 1) |-> "0"]
LastOf(w, letters) == [i \in 1..w |-> letters[26]]
(* the numeral that follows numeral s of width w in the declarative enumeration *)
NextNumeral(s, w) ==
  IF AllDigits(s) THEN (IF NatVal(s) + 1 < Pow10(w) THEN NatText(NatVal(s) + 1) ELSE FirstOf(w, UpperSeq))
  ELSE IF CanonicalUpper(s) THEN (IF s = LastOf(w, UpperSeq) THEN FirstOf(w, LowerSeq) ELSE Succ36(s, UpperSeq))
  ELSE Succ36(s, LowerSeq)

ASSUME Enc(9999, 4).s = T("9999") /\ Enc(10000, 4).s = T("A000") /\ Enc(10000 + 26 * 46656 - 1, 4).s = T("ZZZZ")
ASSUME Enc(10000 + 26 * 46656, 4).s = T("a000") /\ Enc(MaxH36(4), 4).s = T("zzzz") /\ ~Enc(MaxH36(4) + 1, 4).ok
ASSUME MaxH36(4) = 2436111 /\ MaxH36(5) = 87440031
ASSUME Dec(T("A0000")).v = 100000 /\ Dec(T("  12")).v = 12 /\ Dec(T(" A00")).v = 1000
ASSUME ~Dec(T("    ")).ok /\ ~Dec(T("1A00")).ok /\ ~Dec(<<>>).ok
=============================================================================
