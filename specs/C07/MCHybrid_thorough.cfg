SPECIFICATION Spec
CONSTANTS
  K = 5
  SmallWidths = {1, 2}
  FullWidths = {3, 4}
  BoundaryWidths = {4, 5}
  BlockSize = 128
  GroupSize = 16
  ExtremeDigits = {0, 1, 9, 10, 11, 34, 35}
  ExtremeLead = {10, 11, 34, 35}
INVARIANT InvNumbers
INVARIANT InvBlockText
CHECK_DEADLOCK FALSE
