------------------------------- MODULE MCFile -------------------------------
(* C07, S1 for whole files: several atoms and models, CRYST1, CONECT.
   (a) 1..2 atoms x 1..3 models x option sets x boxes (model framing and selection, CRYST1);
   (b) bond scenarios: every subset of a candidate bond list over a peptide + ligand + water
       fragment (template bonds, the implied peptide link, carried and not carried bonds), and
       over a star-shaped ligand (more than four partners -> continuation records), with plain,
       gapped and hybrid-36 serial numbers; two hubs that are each other's fourth partner.
   Per input: inp = the structure, out = PdbFile!Expect(inp) once done. *)
EXTENDS PdbFile, TLC

CONSTANT Rich

VARIABLES inp, out, done
vars == <<inp, out, done>>

R(n, d) == <<n, d>>
Opt(h, i, b, oc, q) == [h36 |-> h, ids |-> i, bf |-> b, occ |-> oc, chg |-> q]

(* ---------------------------------------------------------------- (a) models and boxes *)
Atom2(k) == [BaseAtom EXCEPT !.serial = 5 * k, !.name = IF k = 1 THEN T("N") ELSE T("CA"),
                             !.elem = IF k = 1 THEN T("N") ELSE T("C"),
                             !.bf = R(k, 8), !.occ = R(3, 4), !.chg = k - 2]
\* distinct coordinates per model and atom, negative ones included
Coord(m, i) == <<R(4 * m + i, 4), R(-(8 * i + m), 8), R(m * i, 1)>>
Boxes == { <<>>, << <<R(10, 1), R(41, 2), R(121, 4)>> >>,
           << <<R(12799999, 128), R(50000, 1), R(60001, 2)>> >>,  \* 99999.992: the largest float32 below 100000
           << <<R(129, 16), R(3, 16), R(5, 1)>> >>,                \* 8.0625, 0.1875: ties
           << <<R(100000, 1), R(5, 1), R(5, 1)>> >> }           \* ten characters: CrystOverflow
ModelInputs ==
  {[atoms |-> [i \in 1..n |-> Atom2(i)],
    models |-> [m \in 1..M |-> [i \in 1..n |-> Coord(m, i)]],
    opt |-> o, box |-> b, bonds |-> <<>>] :
     n \in 1..2, M \in 1..3, b \in Boxes,
     o \in {NoOpt, Opt(FALSE, TRUE, TRUE, TRUE, TRUE), Opt(TRUE, TRUE, FALSE, FALSE, FALSE)}}
\* one unwritable coordinate in the last model refuses the whole file
BadModelInputs ==
  {[atoms |-> <<Atom2(1)>>, models |-> <<<<Coord(1, 1)>>, <<<<R(1, 1), v, R(2, 1)>>>>>>,
    opt |-> NoOpt, box |-> <<>>, bonds |-> <<>>] : v \in {R(12345, 1), R(0, 0), R(-16383993, 16384)}}

(* ---------------------------------------------------------------- (b) bonds *)
A(het, chain, resi, resn, name, elem) ==
  [BaseAtom EXCEPT !.het = het, !.chain = T(chain), !.resi = resi, !.resn = T(resn), !.name = T(name), !.elem = T(elem)]
Fragment ==
  << A(FALSE, "A", 1, "ALA", "N", "N"), A(FALSE, "A", 1, "ALA", "CA", "C"), A(FALSE, "A", 1, "ALA", "C", "C"),
     A(FALSE, "A", 2, "GLY", "N", "N"), A(FALSE, "A", 2, "GLY", "CA", "C"),
     A(TRUE, "A", 3, "LIG", "C1", "C"), A(TRUE, "A", 3, "LIG", "C2", "C"),
     A(TRUE, "A", 4, "HOH", "O", "O"), A(FALSE, "B", 4, "SER", "OG", "O") >>
\* candidate bonds (0-based): template, link, between residues, ligand, ligand-water, water-chain B ...
FragCand == << <<0, 1, 1>>, <<2, 3, 1>>, <<0, 4, 2>>, <<5, 6, 3>>, <<6, 7, 1>>, <<1, 5, 1>>, <<7, 8, 1>>, <<3, 4, 2>> >>
Star ==
  << A(TRUE, "A", 1, "LIG", "C1", "C"), A(TRUE, "A", 1, "LIG", "C2", "C"), A(TRUE, "A", 1, "LIG", "O1", "O"),
     A(TRUE, "A", 1, "LIG", "N1", "N"), A(TRUE, "A", 1, "LIG", "X1", "C"), A(TRUE, "A", 1, "LIG", "X2", "C"),
     A(TRUE, "A", 1, "LIG", "X3", "C") >>
StarCand == << <<0, 1, 3>>, <<0, 2, 1>>, <<0, 3, 2>>, <<0, 4, 1>>, <<0, 5, 1>>, <<0, 6, 1>>, <<1, 2, 1>> >>

(* two hubs bonded to each other, each other's FOURTH partner in the order the writer meets the
   bonds: a reader that takes fewer than four partners per record loses the bond in both directions *)
Hubs == [i \in 1..8 |-> A(TRUE, "A", 1, "UNL", IF i = 1 THEN "C1" ELSE IF i = 2 THEN "C2" ELSE "X1", "C")]   \* no residue template
HubBonds == << <<0, 2, 1>>, <<0, 3, 1>>, <<0, 4, 1>>, <<1, 5, 1>>, <<1, 6, 1>>, <<1, 7, 1>>, <<0, 1, 2>> >>

Line(n) == [i \in 1..n |-> <<R(3 * i, 2), R(i, 4), R(-i, 1)>>]
SubSeqOf(cands, keep) == SelectSeq(cands, LAMBDA b : b \in keep)
WithSerials(atoms, f) == [i \in DOMAIN atoms |-> [atoms[i] EXCEPT !.serial = f[i]]]
BondInput(atoms, cands, keep, o) ==
  [atoms |-> atoms, models |-> <<Line(Len(atoms))>>, opt |-> o, box |-> <<>>, bonds |-> <<SubSeqOf(cands, keep)>>]
Elems(s) == {s[k] : k \in DOMAIN s}
IdOpt == Opt(FALSE, TRUE, FALSE, FALSE, FALSE)
H36Opt == Opt(TRUE, TRUE, FALSE, FALSE, FALSE)
BondInputs ==
       {BondInput(Fragment, FragCand, keep, NoOpt) :
          keep \in IF Rich THEN SUBSET Elems(FragCand) ELSE {k \in SUBSET Elems(FragCand) : Cardinality(k) \in {0, 1, 2, 7, 8}}}
  \cup {BondInput(Star, StarCand, keep, NoOpt) :
          keep \in IF Rich THEN SUBSET Elems(StarCand) ELSE {k \in SUBSET Elems(StarCand) : Cardinality(k) >= 5}}
  \cup {BondInput(WithSerials(Star, [i \in 1..7 |-> 10 * i + 3]), StarCand, Elems(StarCand), IdOpt),
        BondInput(WithSerials(Star, [i \in 1..7 |-> 99995 + i]), StarCand, Elems(StarCand), H36Opt),
        BondInput(WithSerials(Fragment, [i \in 1..9 |-> 99990 + i]), FragCand, Elems(FragCand), IdOpt),
        BondInput(WithSerials(Fragment, [i \in 1..9 |-> 43770010 + i]), FragCand, Elems(FragCand), H36Opt)}
  \cup {BondInput(Hubs, HubBonds, Elems(HubBonds), NoOpt)}
  \* a stack with bonds: CONECT follows the last ENDMDL
  \cup {[BondInput(Fragment, FragCand, Elems(FragCand), NoOpt) EXCEPT !.models = <<Line(9), Line(9)>>]}

Inputs == ModelInputs \cup BadModelInputs \cup BondInputs

(* two steps per input, so that TLC's workers share the evaluation of Expect *)
Init == inp \in Inputs /\ out = Pending /\ done = FALSE
Next == ~done /\ done' = TRUE /\ out' = Expect(inp) /\ UNCHANGED inp
Spec == Init /\ [][Next]_vars

InvRoundTrip == done => RoundTripOK(inp, out)
InvColumns == done => ColumnsOK(inp, out)
InvAcceptance == done => AcceptanceOK(inp)
InvModels == done => ModelsOK(inp, out)
InvBonds == done => BondsOK(inp, out)
(* the line kinds of a written file: CRYST1?, then per model MODEL ATOM* (ENDMDL = OTHER), then CONECT* *)
InvFraming ==
  (done /\ out.oc = "ok") =>
    LET k == Kinds(out.lines)  M == NModels(inp)  n == NAtoms(inp) IN
    /\ Len(Positions(k, "ATOM")) = M * n
    /\ Len(Positions(k, "MODEL")) = IF M > 1 THEN M ELSE 0
    /\ Len(Positions(k, "CRYST1")) = IF inp.box = <<>> THEN 0 ELSE 1
    /\ \A p \in DOMAIN k : k[p] = "CONECT" => \A q \in p..Len(k) : k[q] = "CONECT"
=============================================================================
