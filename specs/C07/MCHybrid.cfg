SPECIFICATION Spec
CONSTANTS
  K = 3
  SmallWidths = {1, 2}
  FullWidths = {3}
  BoundaryWidths = {4, 5}
  BlockSize = 128
  GroupSize = 16
  ExtremeDigits = {0, 9, 10, 35}
  ExtremeLead = {10, 35}
INVARIANT InvNumbers
INVARIANT InvBlockText
CHECK_DEADLOCK FALSE
