------------------------------- MODULE MCAtom -------------------------------
(* C07, S1 for the ATOM / HETATM record: single-atom structures whose fields run through the
   boundary classes of their columns (one field at a time around a base atom, plus the
   interacting groups name x element, chain x resSeq x iCode, numbers x hybrid-36;
   Rich = TRUE adds the full products of the coordinate and B-factor / occupancy classes).
   Per input: inp = the structure, out = PdbFile!Expect(inp) once done. *)
EXTENDS PdbFile, TLC

CONSTANT Rich

VARIABLES inp, out, done
vars == <<inp, out, done>>

R(n, d) == <<n, d>>
(* --- coordinates (all exactly representable as float32) ------------------------------- *)
CoordClasses ==
  { R(0, 1), R(1, 16), R(3, 16), R(-1, 4096), R(1, 2), R(-1, 2), R(5, 4),
    R(10239998, 1024), R(10239999, 1024),        \* 9999.998.., 9999.999.. : the last two float32 below 10000
    R(10240000, 1024),                           \* 10000: five digits
    R(16383993, 16384),                          \* 999.99957 -> "1000.000", still 8 characters
    R(-16383984, 16384), R(-16383991, 16384),    \* -999.99902, -999.99945 -> "-999.999"
    R(-16383992, 16384), R(-16383993, 16384),    \* -999.99951, -999.99957 -> "-1000.000": 9 characters
    R(-16384000, 16384),                         \* -1000
    R(-1023, 2), R(12345, 1),
    R(0, 0), R(1, 0), R(-1, 0) }                 \* NaN, +inf, -inf
(* --- B-factor / occupancy (float64 annotations) ---------------------------------------- *)
BfClasses ==
  { R(0, 1), R(1, 1), R(1, 8), R(3, 8), R(-1, 1024),
    R(1023990, 1024),                            \* 999.990234375 -> "999.99"
    R(1023994, 1024),                            \* 999.994140625 -> "999.99"
    R(1023995, 1024),                            \* 999.9951171875 -> "1000.00": 7 characters
    R(1024000, 1024),                            \* 1000
    R(-102394, 1024),                            \* -99.994140625 -> "-99.99"
    R(-102395, 1024),                            \* -99.9951171875 -> "-100.00": 7 characters
    R(-102400, 1024),                            \* -100
    R(-199, 2),
    R(0, 0), R(1, 0) }
SerialClasses == {1, 2, 0, -1, -9999, -10000, 99999, 100000, 100001, 199998, 199999}
SerialH36 == {1, 99999, 100000, 100001, 43770015, 43770016, 87440031, 87440032, 0, -1}
ResiClasses == {1, 0, -1, -999, -1000, 9999, 10000, 10001, 19998, 19999}
ResiH36 == {1, 9999, 10000, 10001, 1223055, 1223056, 2436111, 2436112, 0, -1}
NameClasses == {<<>>, T("C"), T("CA"), T("CA1"), T("HD11"), T("ABCDE"), T("O5'")}
ElemClasses == {<<>>, T("C"), T("CA"), T("ABC")}
ResnClasses == {<<>>, T("A"), T("DA"), T("ALA"), T("ALAX")}
ChainClasses == {<<>>, T("A"), T("AB")}
IcodeClasses == {<<>>, T("B"), T("AB")}
ChargeClasses == {-10, -9, -1, 0, 1, 9, 10}

Opt(h, i, b, oc, q) == [h36 |-> h, ids |-> i, bf |-> b, occ |-> oc, chg |-> q]
AllOpt == Opt(FALSE, TRUE, TRUE, TRUE, TRUE)
One(a, c, o) == [atoms |-> <<a>>, models |-> <<<<c>>>>, opt |-> o, box |-> <<>>, bonds |-> <<>>]
Z == R(0, 1)
At(k, v) == [j \in 1..3 |-> IF j = k THEN v ELSE Z]

Inputs ==
       {One(BaseAtom, At(k, v), NoOpt) : k \in 1..3, v \in CoordClasses}
  \cup {One([BaseAtom EXCEPT !.bf = v], Zero3, Opt(FALSE, FALSE, TRUE, FALSE, FALSE)) : v \in BfClasses}
  \cup {One([BaseAtom EXCEPT !.occ = v], Zero3, Opt(FALSE, FALSE, FALSE, TRUE, FALSE)) : v \in BfClasses}
  \cup {One([BaseAtom EXCEPT !.serial = v], Zero3, Opt(FALSE, TRUE, FALSE, FALSE, FALSE)) : v \in SerialClasses}
  \cup {One([BaseAtom EXCEPT !.serial = v], Zero3, Opt(TRUE, TRUE, FALSE, FALSE, FALSE)) : v \in SerialH36}
  \cup {One([BaseAtom EXCEPT !.resi = v], Zero3, NoOpt) : v \in ResiClasses}
  \cup {One([BaseAtom EXCEPT !.resi = v], Zero3, Opt(TRUE, FALSE, FALSE, FALSE, FALSE)) : v \in ResiH36}
  \cup {One([BaseAtom EXCEPT !.name = n, !.elem = e, !.het = h], Zero3, NoOpt) :
          n \in NameClasses, e \in ElemClasses, h \in BOOLEAN}
  \cup {One([BaseAtom EXCEPT !.resn = v], Zero3, NoOpt) : v \in ResnClasses}
  \cup {One([BaseAtom EXCEPT !.chain = ch, !.resi = r, !.icode = ic], Zero3, NoOpt) :
          ch \in ChainClasses, r \in {1, 1234, -999}, ic \in IcodeClasses}
  \cup {One([BaseAtom EXCEPT !.chg = v], Zero3, Opt(FALSE, FALSE, FALSE, FALSE, TRUE)) : v \in ChargeClasses}
  \cup {One([BaseAtom EXCEPT !.bf = b, !.occ = q, !.chg = 1, !.serial = 7, !.het = TRUE], At(1, R(5, 4)), AllOpt) :
          b \in {R(1, 8), R(1023994, 1024)}, q \in {R(1, 2), R(-102394, 1024)}}
  \cup (IF Rich
          THEN {One(BaseAtom, <<x, y, z>>, NoOpt) : x \in CoordClasses, y \in CoordClasses, z \in CoordClasses}
               \cup {One([BaseAtom EXCEPT !.bf = b, !.occ = q], Zero3, Opt(FALSE, FALSE, TRUE, TRUE, FALSE)) :
                       b \in BfClasses, q \in BfClasses}
               \cup {One([BaseAtom EXCEPT !.serial = s, !.resi = r], Zero3, Opt(h, TRUE, FALSE, FALSE, FALSE)) :
                       s \in SerialClasses \cup SerialH36, r \in ResiClasses \cup ResiH36, h \in BOOLEAN}
          ELSE {})

(* two steps per input, so that TLC's workers share the evaluation of Expect *)
Init == inp \in Inputs /\ out = Pending /\ done = FALSE
Next == ~done /\ done' = TRUE /\ out' = Expect(inp) /\ UNCHANGED inp
Spec == Init /\ [][Next]_vars

InvRoundTrip == done => RoundTripOK(inp, out)
InvColumns == done => ColumnsOK(inp, out)
InvAcceptance == done => AcceptanceOK(inp)
InvModels == done => ModelsOK(inp, out)
=============================================================================
