SPECIFICATION Spec
CONSTANTS
  Rich = FALSE
INVARIANT InvRoundTrip
INVARIANT InvColumns
INVARIANT InvAcceptance
INVARIANT InvModels
INVARIANT InvBonds
INVARIANT InvFraming
CHECK_DEADLOCK FALSE
