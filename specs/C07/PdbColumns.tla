------------------------------- MODULE PdbColumns -------------------------------
(* C07: one ATOM / HETATM record of a PDB file as a fixed-column layout (FixedCols).

   An atom is a record of field values
     a = [het, serial, name, resn, chain, resi, icode, elem, bf, occ, chg]
   (texts are character sequences, bf / occ exact rationals, the rest integers / booleans),
   c = <<x, y, z>> its coordinates (exact rationals), i its 1-based position in the array and
     o = [h36, ids, bf, occ, chg]
   the call options: hybrid-36 mode and which optional annotations (atom_id, b_factor,
   occupancy, charge) the array carries.

   WriteAtom  = what PDBFile.set_structure has to put on the line, or "Rejected"
   ReadAtom   = what PDBFile.get_structure has to read from such a line
   Abstract   = the atom "as the format can hold it" (values at the precision of their columns)
   ImplAccepts = the acceptance test as _check_pdb_compatibility performs it (digits of the
                 truncated value); the KB_* predicates name the inputs on which it differs from
                 the declarative rule "every formatted field fits its columns". *)
EXTENDS Hybrid36

AtomLayout ==
  << Fld("record", 1, 6, "L"),     Fld("serial", 7, 11, "R"),   Fld("name", 13, 16, "L"),
     Fld("altLoc", 17, 17, "L"),   Fld("resName", 18, 20, "R"), Fld("chainID", 22, 22, "L"),
     Fld("resSeq", 23, 26, "R"),   Fld("iCode", 27, 27, "R"),
     Fld("x", 31, 38, "R"),        Fld("y", 39, 46, "R"),       Fld("z", 47, 54, "R"),
     Fld("occupancy", 55, 60, "R"), Fld("tempFactor", 61, 66, "R"),
     Fld("element", 77, 78, "R"),  Fld("charge", 79, 80, "R") >>
LineLen == 80
ASSUME LayoutOK(AtomLayout, LineLen)

MaxSerial == 99999          \* _PDB_MAX_ATOMS
MaxResSeq == 9999           \* _PDB_MAX_RESIDUES

TATOM == T("ATOM")
THETATM == T("HETATM")

(* ------------------------------------------------------------------ field texts *)
SerialOf(a, o, i) == IF o.ids THEN a.serial ELSE i

(* decimal mode: positive numbers beyond the column wrap around (documented by a warning),
   zero and negative numbers are written as they are; hybrid-36 mode: Enc *)
WrapId(n, max) == IF n > 0 THEN ((n - 1) % max) + 1 ELSE n
IdText(n, w, max, h36) == IF h36 THEN Enc(n, w) ELSE [ok |-> TRUE, s |-> IntText(WrapId(n, max))]

(* atom-name alignment: a one-letter element with a name shorter than 4 starts in column 14 *)
NameText(a) == IF Len(a.elem) = 1 /\ Len(a.name) < 4 THEN <<" ">> \o a.name ELSE a.name

ChargeText(q) == IF q > 0 THEN Append(NatText(q), "+") ELSE IF q < 0 THEN Append(NatText(-q), "-") ELSE <<>>

AtomVals(a, c, o, i) ==
  [record     |-> IF a.het THEN THETATM ELSE TATOM,
   serial     |-> IdText(SerialOf(a, o, i), 5, MaxSerial, o.h36).s,
   name       |-> NameText(a),
   altLoc     |-> <<>>,
   resName    |-> a.resn,
   chainID    |-> a.chain,
   resSeq     |-> IdText(a.resi, 4, MaxResSeq, o.h36).s,
   iCode      |-> a.icode,
   x          |-> FixedText(c[1], 3),
   y          |-> FixedText(c[2], 3),
   z          |-> FixedText(c[3], 3),
   occupancy  |-> IF o.occ THEN FixedText(a.occ, 2) ELSE T("1.00"),
   tempFactor |-> IF o.bf THEN FixedText(a.bf, 2) ELSE T("0.00"),
   element    |-> a.elem,
   charge     |-> IF o.chg THEN ChargeText(a.chg) ELSE <<>>]

(* ------------------------------------------------------------------ the writer's duty *)
NumbersFinite(a, c, o) ==
  /\ \A k \in 1..3 : ~IsSpecial(c[k])
  /\ (o.bf => ~IsSpecial(a.bf))
  /\ (o.occ => ~IsSpecial(a.occ))

Writable(a, c, o, i) ==
  /\ NumbersFinite(a, c, o)                                      \* NaN / inf is refused
  /\ IdText(SerialOf(a, o, i), 5, MaxSerial, o.h36).ok           \* hybrid-36 refuses negatives and > max
  /\ IdText(a.resi, 4, MaxResSeq, o.h36).ok
  /\ FitsAll(AtomLayout, AtomVals(a, c, o, i))                   \* every formatted field fits its columns

WriteAtom(a, c, o, i) ==
  IF Writable(a, c, o, i)
    THEN [oc |-> "ok", line |-> Render(AtomLayout, AtomVals(a, c, o, i), LineLen)]
    ELSE [oc |-> "Rejected", line |-> <<>>]

(* ------------------------------------------------------------------ the reader *)
(* charge columns: "1-" is turned into "-1"; blank is 0 *)
ReadCharge(raw) ==
  LET t == IF raw[1] \in {"+", "-"} THEN raw ELSE <<raw[2], raw[1]>> IN
  IF raw = <<" ", " ">> THEN [ok |-> TRUE, val |-> 0] ELSE ParseInt(t)

ReadAtom(line) ==
  LET F(n) == Field(line, AtomLayout, n)
      ser == Dec(F("serial"))   rsq == Dec(F("resSeq"))   chg == ReadCharge(F("charge"))
      px == ParseFixed(F("x"), 3)  py == ParseFixed(F("y"), 3)  pz == ParseFixed(F("z"), 3)
      po == ParseFixed(F("occupancy"), 2)  pb == ParseFixed(F("tempFactor"), 2)
  IN [ok     |-> Len(line) = LineLen /\ ser.ok /\ rsq.ok /\ chg.ok /\ px.ok /\ py.ok /\ pz.ok /\ po.ok /\ pb.ok
                 /\ ~(px.nan \/ py.nan \/ pz.nan \/ po.nan \/ pb.nan),
      het    |-> F("record") = THETATM,
      serial |-> ser.v,
      name   |-> Strip(F("name")),
      altloc |-> F("altLoc"),
      resn   |-> Strip(F("resName")),
      chain  |-> Strip(F("chainID")),
      resi   |-> rsq.v,
      icode  |-> Strip(F("iCode")),
      elem   |-> Strip(F("element")),
      chg    |-> chg.val,
      occ    |-> po.units,            \* hundredths
      bf     |-> pb.units,            \* hundredths
      xyz    |-> <<px.units, py.units, pz.units>>]      \* thousandths

(* the atom at the precision of its columns: what a round trip has to reproduce *)
Abstract(a, c, o, i) ==
  [ok     |-> TRUE,
   het    |-> a.het,
   serial |-> SerialOf(a, o, i),
   name   |-> a.name,
   altloc |-> <<" ">>,
   resn   |-> a.resn,
   chain  |-> a.chain,
   resi   |-> a.resi,
   icode  |-> a.icode,
   elem   |-> a.elem,
   chg    |-> IF o.chg THEN a.chg ELSE 0,
   occ    |-> IF o.occ THEN SignedUnits(a.occ, 2) ELSE 100,
   bf     |-> IF o.bf THEN SignedUnits(a.bf, 2) ELSE 0,
   xyz    |-> <<SignedUnits(c[1], 3), SignedUnits(c[2], 3), SignedUnits(c[3], 3)>>]

(* ------------------------------------------------------------------ domain of the round-trip claim *)
NoBlankIn(s) == ~HasBlank(s)
Dom_Names(a) == NoBlankIn(a.name) /\ NoBlankIn(a.resn) /\ NoBlankIn(a.chain) /\ NoBlankIn(a.icode) /\ NoBlankIn(a.elem)
(* "within the PDB format limits": numbers that the decimal columns can hold without wrapping *)
Dom_Ids(a, o, i) == o.h36 \/ (SerialOf(a, o, i) <= MaxSerial /\ a.resi <= MaxResSeq)
(* an empty element is re-guessed from the atom name by the reader (documented by a warning) *)
Dom_Element(a) == Len(a.elem) >= 1
Dom_RoundTrip(a, o, i) == Dom_Names(a) /\ Dom_Ids(a, o, i)

(* ------------------------------------------------------------------ the acceptance test as implemented *)
(* number_of_integer_digits: characters of the value truncated toward zero *)
TruncDigits(r) == IF IsSpecial(r) THEN 20 ELSE Len(IntText(TruncToZero(r)))

ImplAccepts(a, c, o, i) ==
  /\ \A k \in 1..3 : ~IsNaN(c[k])
  /\ Len(a.chain) <= 1 /\ Len(a.resn) <= 3 /\ Len(a.name) <= 4
  /\ \A k \in 1..3 : TruncDigits(c[k]) <= 4
  /\ (o.bf => TruncDigits(a.bf) <= 3)
  /\ (o.occ => TruncDigits(a.occ) <= 3)
  /\ (o.chg => Len(NatText(Abs(a.chg))) <= 1)
  /\ IdText(SerialOf(a, o, i), 5, MaxSerial, o.h36).ok
  /\ IdText(a.resi, 4, MaxResSeq, o.h36).ok

(* Known-bad inputs (recorded findings): the implementation writes a record where the
   property demands a refusal, or writes it into the wrong columns. *)
RoundCarry(r, d, w) == ~IsSpecial(r) /\ TruncDigits(r) <= w - d - 1 /\ ~Fits(FixedText(r, d), w)
KB_RoundCarry(a, c, o) ==            \* the rounded text is one character longer than the truncated value
  \/ \E k \in 1..3 : RoundCarry(c[k], 3, 8)
  \/ (o.bf /\ RoundCarry(a.bf, 2, 6))
  \/ (o.occ /\ RoundCarry(a.occ, 2, 6))
KB_EmptyChain(a) == Len(a.chain) = 0                      \* written without its column: resSeq, iCode shift left
KB_NegativeId(a, o, i) ==                                  \* "-1000" in 4 columns, "-10000" in 5
  ~o.h36 /\ (a.resi < -999 \/ SerialOf(a, o, i) < -9999)
KB_UncheckedWidth(a) == Len(a.icode) > 1 \/ Len(a.elem) > 2

KBSet(a, c, o, i) ==
  (IF KB_RoundCarry(a, c, o) THEN {"RoundCarry"} ELSE {}) \cup
  (IF KB_EmptyChain(a) THEN {"EmptyChain"} ELSE {}) \cup
  (IF KB_NegativeId(a, o, i) THEN {"NegativeId"} ELSE {}) \cup
  (IF KB_UncheckedWidth(a) THEN {"UncheckedWidth"} ELSE {})

(* ------------------------------------------------------------------ pinned examples *)
BaseAtom == [het |-> FALSE, serial |-> 1, name |-> T("CA"), resn |-> T("ALA"), chain |-> T("A"),
             resi |-> 1, icode |-> <<>>, elem |-> T("C"), bf |-> <<0, 1>>, occ |-> <<1, 1>>, chg |-> 0]
NoOpt == [h36 |-> FALSE, ids |-> FALSE, bf |-> FALSE, occ |-> FALSE, chg |-> FALSE]
Zero3 == <<<<0, 1>>, <<0, 1>>, <<0, 1>>>>
ASSUME WriteAtom(BaseAtom, Zero3, NoOpt, 1).line =
         T("ATOM      1  CA  ALA A   1       0.000   0.000   0.000  1.00  0.00           C  ")
ASSUME WriteAtom([BaseAtom EXCEPT !.name = T("HD11"), !.elem = T("H")], Zero3, NoOpt, 1).line =
         T("ATOM      1 HD11 ALA A   1       0.000   0.000   0.000  1.00  0.00           H  ")
ASSUME WriteAtom([BaseAtom EXCEPT !.het = TRUE, !.resn = T("CA"), !.elem = T("CA")], Zero3, NoOpt, 1).line =
         T("HETATM    1 CA    CA A   1       0.000   0.000   0.000  1.00  0.00          CA  ")
=============================================================================
