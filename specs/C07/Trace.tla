------------------------------- MODULE Trace -------------------------------
(* C07 direction B: executions recorded from the real PDBFile / hybrid-36 functions are
   re-computed by TLC with the operators of PdbFile / Hybrid36.
   TRACE_FILE is a JSON array of traces, a trace is an array of events:
     {op: "file", S, oc, lines, back, sel}    one set_structure -> lines -> get_structure round trip
         S      the structure handed to set_structure (PdbFile's shape; texts as lists of characters)
         oc     "ok" | "Rejected"
         lines  PDBFile.lines after set_structure (lists of characters)
         back   projection of get_structure(read(text)): nmodels, atoms, coords, box, bonds
         sel    [{k, oc, xyz}] get_structure(model=k) for the model numbers tried
     {op: "h36", n, w, oc, s, dec}            encode_hybrid36(n, w) -> s, decode_hybrid36(s.rjust(w)) -> dec
   Every event is judged on its own; a disagreement prints
   <<"MISMATCH", tid, l, flags, known-bad predicates of the input, expected outcome, lenient,
     index of the first differing ATOM/HETATM line, the expected line>>. *)
EXTENDS PdbFile, Json, IOUtils, TLC

Tr == JsonDeserialize(IOEnv.TRACE_FILE)

VARIABLES tid, l
tvars == <<tid, l>>

AtomLinesOf(lines) == SelectSeq(lines, LAMBDA x : LineKind(x) = "ATOM")
ConectLinesOf(lines) == SelectSeq(lines, LAMBDA x : LineKind(x) = "CONECT")

(* the logged atom (no xyz / ok / altloc) against the expected one *)
AtomEq(g, x) ==
  /\ g.het = x.het /\ g.serial = x.serial /\ g.name = x.name /\ g.resn = x.resn /\ g.chain = x.chain
  /\ g.resi = x.resi /\ g.icode = x.icode /\ g.chg = x.chg /\ g.occ = x.occ /\ g.bf = x.bf
  /\ (x.elem = <<>> \/ g.elem = x.elem)            \* Dom_Element: an empty element is re-guessed by the reader

(* written CONECT records, as directed (centre, partner) pairs of 0-based atom indices *)
Directed(P) == P \cup {<<p[2], p[1]>> : p \in P}
ConectDirected(lines, serials) ==
  UNION {LET x == LJust(lines[n], LineLen)
             ctr == Dec(Cols(x, 7, 11))
             Part(k) == Dec(Cols(x, 12 + 5 * (k - 1), 16 + 5 * (k - 1)))
         IN IF ~ctr.ok THEN {}
            ELSE {<<IndexOfSerial(serials, ctr.v) - 1, IndexOfSerial(serials, Part(k).v) - 1>> :
                    k \in {q \in 1..4 : Part(q).ok}}
         : n \in DOMAIN lines}

JudgeFile(ev) == Bind(Expect(ev.S), LAMBDA e :
  LET S == ev.S
      okOc == ev.oc = e.oc \/ (e.lenient /\ ev.oc = "Rejected")
      both == ev.oc = "ok" /\ e.oc = "ok"
      ea == AtomLinesOf(e.lines)   oa == AtomLinesOf(ev.lines)
      okAtoms == both => oa = ea
      Differs(i) == i > Len(ea) \/ i > Len(oa) \/ ea[i] # oa[i]
      firstBad == IF both /\ ~okAtoms
                    THEN CHOOSE i \in 1..(Len(ea) + Len(oa)) : Differs(i) /\ \A k \in 1..(i - 1) : ~Differs(k)
                    ELSE 0
      expLine == IF firstBad > 0 /\ firstBad <= Len(ea) THEN ea[firstBad] ELSE <<>>
      okKinds == both => Kinds(ev.lines) = Kinds(e.lines)                 \* diagnostic only
      \* the reader saw the expected records (with bonds only inside Dom_BondIds / Dom_Ids: the
      \* reader refuses serial numbers that do not address the atoms)
      rd == both /\ okAtoms /\ (S.bonds = <<>> \/ e.dom)
      g == ev.back   x == e.back
      okBack == rd =>
                  /\ g.ok /\ g.nmodels = x.nmodels /\ Len(g.atoms) = Len(x.atoms)
                  /\ \A i \in DOMAIN x.atoms : i \in DOMAIN g.atoms /\ AtomEq(g.atoms[i], x.atoms[i])
                  /\ g.coords = x.coords
                  /\ (e.domBox => (Len(g.box) = Len(x.box)
                                    /\ (x.box # <<>> => g.box[1].len = x.box[1].len /\ g.box[1].ang = x.box[1].ang)))
      gotPairs == {<<b[1], b[2]>> : b \in ToSet(g.bonds)}
      okBonds == (rd /\ S.bonds # <<>> /\ e.dom) => (x.bonds.carry \subseteq gotPairs /\ gotPairs \subseteq x.bonds.upper)
      exactBonds == (rd /\ S.bonds # <<>> /\ e.dom) => ToSet(g.bonds) = x.bonds.exact     \* diagnostic only
      cl == ConectLinesOf(ev.lines)
      okConect == (both /\ S.bonds # <<>> /\ e.dom) =>
                    /\ ConectDirected(cl, [i \in 1..NAtoms(S) |-> SerialOf(S.atoms[i], S.opt, i)])
                         = Directed(CarriedPairs(S))
                    /\ \A n \in DOMAIN cl : Len(RStrip(cl[n])) \in {16, 21, 26, 31}
      M == NModels(S)
      okSel == rd => \A q \in DOMAIN ev.sel :
                 LET k == ev.sel[q].k  r == ReadModel(e.lines, k) IN
                 (k # 0 /\ -M <= k /\ k <= M) => (ev.sel[q].oc = r.oc /\ ev.sel[q].xyz = r.xyz)
      okSelOut == rd => \A q \in DOMAIN ev.sel :                          \* diagnostic only
                 LET k == ev.sel[q].k IN (k = 0 \/ k < -M \/ k > M) => ev.sel[q].oc = "Rejected"
      flags == <<okOc, okAtoms, okBack, okBonds, okConect, okSel>>
      diag == <<okKinds, exactBonds, okSelOut>>
  IN /\ (flags = <<TRUE, TRUE, TRUE, TRUE, TRUE, TRUE>>
           \/ PrintT(<<"MISMATCH", tid, l + 1, flags, e.kb, e.oc, e.lenient, firstBad, expLine>>))
     /\ (diag = <<TRUE, TRUE, TRUE>> \/ PrintT(<<"DIAG", tid, l + 1, diag>>)))

JudgeH36(ev) ==
  LET e == Enc(ev.n, ev.w)
      okOc == (ev.oc = "ok") = e.ok
      okS == e.ok /\ ev.oc = "ok" => ev.s = e.s
      d == Dec(RJust(e.s, ev.w))
      okDec == e.ok /\ ev.oc = "ok" => ev.dec = d.v
      flags == <<okOc, okS, okDec>>
  IN flags = <<TRUE, TRUE, TRUE>> \/ PrintT(<<"MISMATCH", tid, l + 1, flags, {}, IF e.ok THEN "ok" ELSE "Rejected", FALSE, 0, <<>>>>)

Init == tid \in 1..Len(Tr) /\ l = 0
Next == /\ l < Len(Tr[tid])
        /\ l' = l + 1
        /\ UNCHANGED tid
        /\ LET ev == Tr[tid][l + 1] IN
           IF ev.op = "file" THEN JudgeFile(ev) ELSE JudgeH36(ev)
Spec == Init /\ [][Next]_tvars
=============================================================================
