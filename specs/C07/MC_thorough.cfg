SPECIFICATION Spec
CONSTANTS
  Rich = TRUE
INVARIANT InvRoundTrip
INVARIANT InvColumns
INVARIANT InvAcceptance
INVARIANT InvModels
CHECK_DEADLOCK FALSE
