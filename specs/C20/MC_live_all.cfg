SPECIFICATION FairSpec
CONSTANT Depth = 99
CONSTANT ToolSet <- AllTools
PROPERTY EventuallyExits
PROPERTY BlockedIsJoinable
CHECK_DEADLOCK FALSE
