SPECIFICATION Spec
CONSTANT Depth = 8
CONSTANT ToolSet <- AllTools
CONSTRAINT DepthBound
INVARIANT InvRunEndsClean
INVARIANT InvNoCleanupBeforeEnd
INVARIANT InvResultsOnlyAfterJoin
INVARIANT InvResultsOnlyOfSuccess
INVARIANT InvProcConsistent
INVARIANT InvNoObjectNoResources
INVARIANT InvCleanupSignalEndsAll
INVARIANT InvCleanupAtMostOnce
PROPERTY RefusalIsNoOp
PROPERTY LegalIffAllowed
PROPERTY EndedIsStable
CHECK_DEADLOCK FALSE
