SPECIFICATION FairSpec
CONSTANT Depth = 8
CONSTANT ToolSet <- CoreTools
INVARIANT InvRunEndsClean
INVARIANT InvNoCleanupBeforeEnd
INVARIANT InvResultsOnlyAfterJoin
INVARIANT InvResultsOnlyOfSuccess
INVARIANT InvProcConsistent
INVARIANT InvNoObjectNoResources
INVARIANT InvCleanupSignalEndsAll
INVARIANT InvCleanupAtMostOnce
PROPERTY RefusalIsNoOp
PROPERTY LegalIffAllowed
PROPERTY EndedIsStable
PROPERTY EventuallyExits
PROPERTY BlockedIsJoinable
CHECK_DEADLOCK FALSE
