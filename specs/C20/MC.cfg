SPECIFICATION Spec
CONSTANT Depth = 7
CONSTRAINT DepthBound
INVARIANT InvRunEndsClean
INVARIANT InvNoCleanupBeforeEnd
INVARIANT InvResultsOnlyAfterJoin
INVARIANT InvProcConsistent
INVARIANT InvCleanupAtMostOnce
PROPERTY RefusalIsNoOp
PROPERTY LegalIffAllowed
PROPERTY EndedIsStable
CHECK_DEADLOCK FALSE
