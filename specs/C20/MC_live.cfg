SPECIFICATION FairSpec
CONSTANT Depth = 99
PROPERTY EventuallyExits
CHECK_DEADLOCK FALSE
