SPECIFICATION FairSpec
CONSTANT Depth = 99
CONSTANT ToolSet <- CoreTools
PROPERTY EventuallyExits
PROPERTY BlockedIsJoinable
CHECK_DEADLOCK FALSE
