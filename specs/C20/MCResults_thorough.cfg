SPECIFICATION Spec
CONSTANT Ns = {2, 3, 4, 5, 9, 10, 11, 12, 13, 19, 20, 21, 30, 99, 100, 101, 102, 120}
CONSTANT LongNs = {2, 3, 4}
CONSTANT EmKinds = {"identity", "reversed", "rotated", "evenodd", "stride", "byname"}
CONSTANT ProfKinds = {"asc", "desc", "zig", "pairs"}
CONSTANT PadKinds = {"end", "alternate"}
CONSTANT SeqTypes = {"nuc", "prot", "custom"}
INVARIANT InvJoined
INVARIANT InvEnvironment
INVARIANT InvFaithful
INVARIANT InvRowOfInput
CHECK_DEADLOCK FALSE
