---------------------------- MODULE AppLifecycle ----------------------------
(* C20: exhaustive exploration of all call sequences (bounded length) x tool behaviours. *)
EXTENDS AppLifecycleOps

CONSTANTS Depth, ToolSet      \* ToolSet: CoreTools (graph for the replay) or AllTools

VARIABLES app, proc, files, cleanups, cwd, res, tool, failed, oc, out, last, silent
vars == <<app, proc, files, cleanups, cwd, res, tool, failed, oc, out, last, silent>>

Cur == [app |-> app, proc |-> proc, files |-> files, cleanups |-> cleanups, cwd |-> cwd,
        res |-> res, tool |-> tool, failed |-> failed]

Init == \E t \in ToolSet :
          LET S == InitState(t) IN
          /\ app = S.app /\ proc = S.proc /\ files = S.files /\ cleanups = S.cleanups
          /\ cwd = S.cwd /\ res = S.res /\ tool = S.tool /\ failed = S.failed
          /\ oc = "ok" /\ out = "" /\ last = "init" /\ silent = FALSE

Call(c) ==
  /\ Enabled(Cur, c)
  /\ LET r == Step(Cur, c) IN
     /\ app' = r.app /\ proc' = r.proc /\ files' = r.files /\ cleanups' = r.cleanups
     /\ cwd' = r.cwd /\ res' = r.res /\ tool' = r.tool /\ failed' = r.failed
     /\ IF c \in Silent
          THEN oc' = oc /\ out' = out /\ last' = last /\ silent' = TRUE   \* not a call: nothing returned
          ELSE oc' = r.oc /\ out' = r.out /\ last' = c /\ silent' = FALSE

Next == \E c \in Calls : Call(c)
Spec == Init /\ [][Next]_vars
\* liveness is checked on the unconstrained spec: weak fairness of the environment steps, and
\* of join for the programs that wait for a reader
FairSpec == Spec /\ WF_vars(Call("proc_exits")) /\ WF_vars(Call("proc_writes")) /\ WF_vars(Call("join"))

DepthBound == TLCGet("level") <= Depth

InvRunEndsClean == RunEndsClean(Cur)
InvNoCleanupBeforeEnd == NoCleanupBeforeEnd(Cur)
InvResultsOnlyAfterJoin == ResultsOnlyAfterJoin(Cur)
InvProcConsistent == ProcConsistent(Cur)
InvNoObjectNoResources == NoObjectNoResources(Cur)
\* the design decision behind RunEndsClean: only a signal that ends EVERY program may be used
InvCleanupSignalEndsAll == \A t \in ToolSet : StoppedBy(t, CleanupSignal)
InvResultsOnlyOfSuccess == ResultsOnlyOfSuccess(Cur)
InvCleanupAtMostOnce == cleanups <= 1
\* a refused call has no side effect on anything
RefusalIsNoOp ==
  [][(oc' = "AppStateError" /\ ~silent') =>
       /\ app' = app /\ proc' = proc /\ files' = files /\ cleanups' = cleanups
       /\ cwd' = cwd /\ res' = res /\ failed' = failed]_vars
\* a call is refused exactly when the documented life cycle does not allow it
LegalIffAllowed ==
  [][(~silent' /\ last' \notin EnvSteps) => ((oc' = "AppStateError") = (app \notin Allowed(last')))]_vars
\* once ended, a run stays ended and clean
EndedIsStable == [][RunEnded(Cur) => (app' = app /\ cleanups' = cleanups /\ files' = files)]_vars
\* a started program does not stay in its working phase for ever, and a program that waits
\* for a reader is brought to an end by join
EventuallyExits == (proc = "running") ~> (proc \in {"blocked", "exited"})
BlockedIsJoinable == (proc = "blocked") ~> (proc = "exited")
=============================================================================
