---------------------------- MODULE ResultsTrace ----------------------------
(* C20 direction B for the data half: successful runs recorded from the real MSA wrappers.
   Event: {tool, join, n, lens, out, rows, order, leaves, sequences}: the history start, join()
   on a program of behaviour `tool`; `join` is the outcome of join(), `out` is what the
   external program emitted (its own copy: headers as digit sequences, rows run-length
   encoded; <<>> if the run did not succeed) and the rest is what the wrapper handed out
   (leaves: <<>> if the wrapper has no tree getter, else <<leaf numbers>>).  wkind = the wrapper
   class, setters = the option setters called before start (any sequence, repetitions
   included), given_tree = the clades of the tree handed to set_guide_tree, extra = what the
   class-specific result getters handed out (shape of MsaOptions.Extras), guards = outcome of
   the class-specific getters in CREATED and of the class-specific setters in JOINED ("none" =
   the class has none / not tried).  TLC recomputes the outcome with AppLifecycleOps.PlainRun,
   the results with MsaResults.Results and MsaOptions.Extras. *)
EXTENDS MsaOptions, AppLifecycleOps, Json, IOUtils

Tr == JsonDeserialize(IOEnv.TRACE_FILE)

VARIABLES tid, l
tvars == <<tid, l>>

NoFlags == <<FALSE, FALSE, FALSE, FALSE, FALSE, FALSE, FALSE>>
GuardsOk(e) ==
  /\ e.guards[1] \in {"none", Step(CreatedState(DefaultTool), "get_dist").oc}
  /\ e.guards[2] \in {"none", Step(Core(PlainRun(DefaultTool)[2]), "setter").oc}
Judge(e) ==
  LET j == PlainRun(e.tool)[2] IN
  IF e.join # j.oc
    THEN PrintT(<<"MISMATCH", tid, l + 1, NoFlags, [oc |-> j.oc, app |-> j.app]>>)
  ELSE IF j.oc # "ok" THEN TRUE                 \* no results to hand out
  ELSE IF ~Dom_Complete(e.out, e.n)
    THEN PrintT(<<"MISMATCH", tid, l + 1, NoFlags, [oc |-> "NOTDOMAIN", app |-> j.app]>>)
    ELSE LET r == Results(e.out, e.n)
             x == Extras(e.wkind, e.setters, e.n, e.given_tree)
             flags == <<r.rows = e.rows, r.order = e.order,
                        e.leaves = <<>> \/ e.leaves = <<r.leaves>>,
                        r.sequences = e.sequences, FaithfulTo(r, e.out, e.lens),
                        /\ e.extra.dist \in x.dist
                        /\ x.tree_default = e.extra.tree_default /\ x.tree_kmer = e.extra.tree_kmer
                        /\ x.tree_identity = e.extra.tree_identity,
                        GuardsOk(e)>>
         IN IF \A i \in 1..Len(flags) : flags[i] THEN TRUE
            ELSE PrintT(<<"MISMATCH", tid, l + 1, flags,
                          [oc |-> "ok", app |-> j.app, rows |-> r.rows, order |-> r.order,
                           leaves |-> r.leaves, sequences |-> r.sequences, extra |-> x]>>)

Init == tid \in 1..Len(Tr) /\ l = 0
Next ==
  /\ l < Len(Tr[tid])
  /\ l' = l + 1
  /\ UNCHANGED tid
  /\ Judge(Tr[tid][l + 1])
Spec == Init /\ [][Next]_tvars
=============================================================================
