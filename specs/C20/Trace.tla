------------------------------- MODULE Trace -------------------------------
(* C20 direction B: executions recorded from real application wrappers, validated against
   AppLifecycleOps.Step.  Event: {c, tool, oc, out, app, proc, files, cleanups, cwd}
   (observation after the call).  Each event is judged from the logged pre-state.  The first
   event of every trace is the action "construct" (InitState: there is no wrapper object). *)
EXTENDS AppLifecycleOps, Json, IOUtils

Tr == JsonDeserialize(IOEnv.TRACE_FILE)

VARIABLES tid, l, S
tvars == <<tid, l, S>>

Matches(e, r) ==
  /\ r.oc = e.oc
  /\ ((r.oc # "ok" \/ e.oc # "ok") \/ r.out = e.out)
  /\ r.app = e.app                        \* also after a failed launch: CANCELLED
  /\ r.proc = e.proc /\ r.files = e.files /\ r.cleanups = e.cleanups /\ r.cwd = e.cwd

Flags(e, r) == <<r.oc = e.oc, (r.oc # "ok" \/ e.oc # "ok") \/ r.out = e.out, r.app = e.app,
                 r.proc = e.proc, r.files = e.files, r.cleanups = e.cleanups, r.cwd = e.cwd>>

\* accepted iff some variant (silent refresh before / after the call) explains the event
Judge(e, pre) ==
  IF \E r \in Variants(pre, e.c) : Matches(e, r) THEN TRUE
  ELSE LET r == Step(pre, e.c) IN
       PrintT(<<"MISMATCH", tid, l + 1, Flags(e, r),
                [oc |-> r.oc, out |-> r.out, app |-> r.app, proc |-> r.proc, files |-> r.files,
                 cleanups |-> r.cleanups, cwd |-> r.cwd, failed |-> r.failed]>>)

Init == tid \in 1..Len(Tr) /\ l = 0 /\ S = InitState(DefaultTool)

Next ==
  /\ l < Len(Tr[tid])
  /\ l' = l + 1
  /\ UNCHANGED tid
  /\ LET e == Tr[tid][l + 1]
         pre == IF l = 0 THEN InitState(e.tool) ELSE S
     IN IF ~(Enabled(pre, e.c) \/ Enabled(Refreshed(pre), e.c))
          THEN /\ PrintT(<<"MISMATCH", tid, l + 1, <<FALSE, FALSE, FALSE, FALSE, FALSE, FALSE, FALSE>>,
                          [oc |-> "NOTENABLED", out |-> "", app |-> pre.app, proc |-> pre.proc,
                           files |-> pre.files, cleanups |-> pre.cleanups, cwd |-> pre.cwd,
                           failed |-> FALSE]>>)
               /\ S' = pre
          ELSE LET r == Step(IF Enabled(pre, e.c) THEN pre ELSE Refreshed(pre), e.c) IN
               /\ Judge(e, pre)
               /\ S' = [app |-> e.app, proc |-> e.proc, files |-> e.files, cleanups |-> e.cleanups,
                        cwd |-> e.cwd, res |-> r.res, tool |-> e.tool, failed |-> r.failed]

Spec == Init /\ [][Next]_tvars
=============================================================================
