SPECIFICATION Spec
CONSTANT Ns = {2, 3, 10, 11, 21, 101}
CONSTANT LongNs = {2, 4}
CONSTANT EmKinds = {"identity", "reversed", "rotated", "evenodd", "stride", "byname"}
CONSTANT ProfKinds = {"asc", "zig", "pairs"}
CONSTANT PadKinds = {"end", "alternate"}
CONSTANT SeqTypes = {"nuc", "prot", "custom"}
INVARIANT InvJoined
INVARIANT InvEnvironment
INVARIANT InvFaithful
INVARIANT InvRowOfInput
CHECK_DEADLOCK FALSE
