----------------------------- MODULE MsaResults -----------------------------
(* C20, the data half of the property: "results ... equal what the external program produced,
   mapped back to the input order and sequence type".

   The wrapper writes input k (0-based) to the program under the header Digits(k) (its decimal
   numeral).  The program emits the aligned rows in an order of its own, each under the header
   of the input it belongs to.  The results of a successful run are
     rows  : one gapped row per INPUT, in input order - row k is the emitted row whose header
             denotes the NUMBER k
     order : the input numbers in the order the program emitted them
   A gapped row is a run-length sequence of [k |-> "s" | "g", c |-> count > 0] (symbols of the
   input in their order / gaps); adjacent runs differ in kind.

   Inputs are described by n (how many), the lengths of the sequences, the program's emission
   order and its padding style; TLC computes the program's output (the environment) and the
   results the wrapper has to hand out. *)
EXTENDS Integers, Sequences, FiniteSets, SequencesExt, TLC

(* ---------------------------------------------------------------- headers are numerals *)
RECURSIVE Digits(_)
Digits(i) == IF i < 10 THEN <<i>> ELSE Append(Digits(i \div 10), i % 10)
Value(ds) == FoldLeft(LAMBDA acc, d : 10 * acc + d, 0, ds)
\* order of the header TEXTS (what a program sorting by name would use)
RECURSIVE LexLess(_, _)
LexLess(a, b) ==
  IF a = <<>> THEN b # <<>>
  ELSE IF b = <<>> THEN FALSE
  ELSE IF a[1] # b[1] THEN a[1] < b[1]
  ELSE LexLess(Tail(a), Tail(b))

(* ---------------------------------------------------------------- gapped rows *)
Run(k, c) == [k |-> k, c |-> c]
Row(lead, len, trail) ==
  SelectSeq(<<Run("g", lead), Run("s", len), Run("g", trail)>>, LAMBDA r : r.c > 0)
Width(row) == FoldLeft(LAMBDA acc, r : acc + r.c, 0, row)
Symbols(row) == FoldLeft(LAMBDA acc, r : IF r.k = "s" THEN acc + r.c ELSE acc, 0, row)

(* ---------------------------------------------------------------- input families *)
Profiles == {"asc", "desc", "zig", "pairs", "long"}
Lengths(profile, n) ==
  [i \in 1..n |->
     CASE profile = "asc" -> i
       [] profile = "desc" -> n + 1 - i
       [] profile = "zig" -> IF i % 2 = 1 THEN (i + 1) \div 2 ELSE n + 1 - (i \div 2)
       [] profile = "pairs" -> 1 + ((i - 1) \div 2)      \* neighbours share a length
       [] profile = "long" -> 20000 + 3 * i]             \* the alignment exceeds an OS pipe
MaxOf(L) == FoldLeft(LAMBDA acc, x : IF x > acc THEN x ELSE acc, 0, L)

GCD(a, b) == CHOOSE d \in 1..a : a % d = 0 /\ b % d = 0 /\ \A e \in (d + 1)..a : ~(a % e = 0 /\ b % e = 0)
Stride(n) == CHOOSE a \in 2..(n + 1) : GCD(a, n) = 1 /\ \A b \in 2..(a - 1) : GCD(b, n) # 1
Emissions == {"identity", "reversed", "rotated", "evenodd", "stride", "byname"}
\* emission order: sequence of 0-based input numbers
Emission(kind, n) ==
  CASE kind = "identity" -> [k \in 1..n |-> k - 1]
    [] kind = "reversed" -> [k \in 1..n |-> n - k]
    [] kind = "rotated" -> [k \in 1..n |-> (k + n - 2) % n]              \* last first
    [] kind = "evenodd" -> LET ne == (n + 1) \div 2 IN
                           [k \in 1..n |-> IF k <= ne THEN 2 * (k - 1) ELSE 2 * (k - ne) - 1]
    [] kind = "stride" -> [k \in 1..n |-> ((k - 1) * Stride(n) + 1) % n]
    [] kind = "byname" -> SortSeq([k \in 1..n |-> k - 1], LAMBDA a, b : LexLess(Digits(a), Digits(b)))
IsPermutation(p, n) == Len(p) = n /\ {p[k] : k \in 1..n} = 0..(n - 1)

Pads == {"end", "alternate"}
\* the program (environment): pads every row with gaps up to the longest input; with
\* "alternate" the rows of the odd inputs get their gaps in front
ToolRow(L, i, pad) ==
  LET m == MaxOf(L) IN
  IF pad = "alternate" /\ i % 2 = 1 THEN Row(m - L[i + 1], L[i + 1], 0) ELSE Row(0, L[i + 1], m - L[i + 1])
ToolOutput(L, p, pad) == [k \in 1..Len(p) |-> [hdr |-> Digits(p[k]), row |-> ToolRow(L, p[k], pad)]]

(* ---------------------------------------------------------------- the specified mapping *)
\* the output is a complete alignment of n inputs: every input number is named exactly once
Dom_Complete(out, n) ==
  /\ Len(out) = n
  /\ \A i \in 0..(n - 1) : Cardinality({k \in 1..n : Value(out[k].hdr) = i}) = 1
RowOf(out, i) == out[CHOOSE k \in 1..Len(out) : Value(out[k].hdr) = i].row
Results(out, n) ==
  [rows |-> [i \in 1..n |-> RowOf(out, i - 1)],
   order |-> [k \in 1..Len(out) |-> Value(out[k].hdr)],
   \* the guide tree names every input exactly once; the sequences handed back are the inputs
   leaves |-> [i \in 1..n |-> i - 1],
   sequences |-> "the_inputs"]

\* declarative reading (documentation of get_alignment_order): re-ordering the result rows
\* by `order` gives back exactly what the program emitted; row i belongs to input i
FaithfulTo(res, out, L) ==
  /\ \A k \in 1..Len(out) : res.rows[res.order[k] + 1] = out[k].row
  /\ \A i \in 1..Len(L) : Symbols(res.rows[i]) = L[i]
  /\ \A i \in 1..Len(L) : Width(res.rows[i]) = Width(res.rows[1])
  /\ IsPermutation(res.order, Len(L))

ASSUME Digits(0) = <<0>> /\ Digits(10) = <<1, 0>> /\ Digits(102) = <<1, 0, 2>> /\ Value(<<1, 0, 2>>) = 102
ASSUME LexLess(<<1, 0>>, <<2>>) /\ ~LexLess(<<2>>, <<1, 1>>) /\ LexLess(<<1>>, <<1, 0>>)
ASSUME Emission("byname", 12) = <<0, 1, 10, 11, 2, 3, 4, 5, 6, 7, 8, 9>>
ASSUME Emission("evenodd", 5) = <<0, 2, 4, 1, 3>> /\ Emission("rotated", 4) = <<3, 0, 1, 2>>
ASSUME Row(0, 3, 2) = <<Run("s", 3), Run("g", 2)>> /\ Row(0, 3, 0) = <<Run("s", 3)>>
=============================================================================
