----------------------------- MODULE MCOptions ------------------------------
(* C20: input family of the class-specific half of the results.  Init enumerates the cases
   (wrapper class, sequence of option setters applied before start, number of sequences, the
   program's emission order); the state holds everything the wrapper has to hand out after the
   plain history construct, setters, start, join: the alignment results (MsaResults.Results)
   AND the class-specific results (MsaOptions.Extras), and the outcome of the class-specific
   calls in the states where the life cycle refuses them.  The dumped states are executed
   against the real wrappers (S2). *)
EXTENDS MsaOptions, AppLifecycleOps

CONSTANTS OptNs, OptEms, OptPads, MaxLen, Repeat

VARIABLES case, st, L, p, out, res, life, given, extra, guard
vars == <<case, st, L, p, out, res, life, given, extra, guard>>

Cases ==
  UNION {{[kind |-> k, setters |-> s, n |-> n, em |-> e, pad |-> pd] :
            s \in SetterSeqs(k, MaxLen, Repeat), n \in OptNs, e \in OptEms, pd \in OptPads} : k \in WrapperKinds}

Init ==
  /\ case \in Cases
  /\ st = SeqTypeFor(case.setters)
  /\ L = Lengths("zig", case.n)
  /\ p = Emission(case.em, case.n)
  /\ out = ToolOutput(L, p, case.pad)
  /\ res = Results(out, case.n)
  /\ life = PlainRun(DefaultTool)
  \* what the caller hands to set_distance_matrix / set_guide_tree
  /\ given = [matrix |-> CallerMatrix(case.n), tree |-> CallerTree(case.n)]
  /\ extra = Extras(case.kind, case.setters, case.n, CallerTree(case.n))
  /\ guard = [getter_created |-> Step(CreatedState(DefaultTool), "get_dist").oc,
              setter_joined |-> Step(Core(PlainRun(DefaultTool)[2]), "setter").oc,
              getter_joined |-> Step(Core(PlainRun(DefaultTool)[2]), "get_dist").oc]
Next == UNCHANGED vars
Spec == Init /\ [][Next]_vars

InvJoined == life[2].oc = "ok" /\ life[2].app = "JOINED" /\ life[2].res = "ready"
InvFaithful == FaithfulTo(res, out, L)
InvDistinguishable == Distinguishable(case.n)
\* a class-specific result is the program's or it is not handed out; it is the caller's own
\* input only where the program was given it instead of being asked for it (the guide tree)
InvNeverTheCallersMatrix == \A a \in extra.dist : a.k = "value" => a.m # CallerMatrix(case.n)
InvMatrixWhenAsked ==
  /\ extra.dist # {}
  /\ (case.kind = "clustalo" /\ Uses(case.setters, "full")) => (\A a \in extra.dist : a.k = "value")
  /\ (case.kind # "clustalo") => (\A a \in extra.dist : a.k = "nogetter")
InvGuards == guard.getter_created = "AppStateError" /\ guard.setter_joined = "AppStateError"
             /\ guard.getter_joined = "ok"
=============================================================================
