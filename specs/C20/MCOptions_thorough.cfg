SPECIFICATION Spec
CONSTANT OptNs = {2, 3, 5, 12, 21}
CONSTANT OptEms = {"reversed", "stride", "byname"}
CONSTANT OptPads = {"end", "alternate"}
CONSTANT MaxLen = 3
CONSTANT Repeat = TRUE
INVARIANT InvJoined
INVARIANT InvFaithful
INVARIANT InvDistinguishable
INVARIANT InvNeverTheCallersMatrix
INVARIANT InvMatrixWhenAsked
INVARIANT InvGuards
CHECK_DEADLOCK FALSE
