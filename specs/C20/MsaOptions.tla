----------------------------- MODULE MsaOptions -----------------------------
(* C20, the data half for the inputs and outputs that only SOME wrapper classes have:
   "results ... equal what the external program produced", for every combination (and order)
   of the option setters of a wrapper class.

   Besides the alignment a program may be asked for further output files (guide trees, a
   distance matrix) and may be given further input files (a guide tree, a distance matrix, a
   substitution matrix) and parameters (gap penalties, iterations, threads, mode).  The
   environment (the program) writes KNOWN content into every output it is asked for, and that
   content differs from everything the caller supplied; a result getter has to hand out the
   content of the program's file - never the caller's own input, never the content of another
   file - and a result the program was not asked to produce is not handed out at all.

   A guide tree is described by its clades: the sequence (by size) of the leaf-number
   sequences below each inner node.  All trees of the model are caterpillars, so there is
   exactly one clade of each size 2..n.  A distance matrix is a sequence of rows of integers. *)
EXTENDS MsaResults

WrapperKinds == {"clustalo", "muscle3", "muscle5", "mafft"}

(* the option setters of each wrapper class (all documented as CREATED-only).  "matrix" is the
   custom substitution matrix, an argument of the constructor. *)
Setters(kind) ==
  CASE kind = "clustalo" -> {"full", "dist_in", "tree_in"}     \* full_matrix_calculation, set_distance_matrix, set_guide_tree
    [] kind = "muscle3" -> {"gap_lin", "gap_aff", "matrix"}    \* set_gap_penalty(number), set_gap_penalty(pair)
    [] kind = "muscle5" -> {"iters", "threads", "super5"}      \* set_iterations, set_thread_number, use_super5
    [] kind = "mafft" -> {"matrix"}
\* the wrapper classes that ask the binary for its version when they are constructed
AsksVersion(kind) == kind \in {"muscle3", "muscle5"}

(* ---------------------------------------------------------------- trees and matrices *)
TreeShapes == {"asc", "desc"}
\* "asc": (((0,1),2),...,n-1)   "desc": (((n-1,n-2),n-3),...,0)
Clades(shape, n) ==
  [k \in 1..(n - 1) |->
     [i \in 1..(k + 1) |-> IF shape = "asc" THEN i - 1 ELSE (n - 1 - k) + (i - 1)]]
\* what the program writes: the tree of the last iteration / the only tree is ascending, the
\* tree of MUSCLE's first ("kmer") iteration is descending
ToolTree(which, n) == Clades(IF which = "kmer" THEN "desc" ELSE "asc", n)
\* what the caller supplies as a guide tree: differs from the program's own tree for n >= 3
CallerTree(n) == Clades("desc", n)

Abs(x) == IF x < 0 THEN -x ELSE x
\* the distance matrix the program writes / the one the caller supplies (both symmetric, zero
\* diagonal, different in every other entry)
ToolMatrix(n) == [i \in 1..n |-> [j \in 1..n |-> IF i = j THEN 0 ELSE 10 + Abs(i - j)]]
CallerMatrix(n) == [i \in 1..n |-> [j \in 1..n |-> IF i = j THEN 0 ELSE i + j]]

(* ---------------------------------------------------------------- the specified results *)
Uses(setters, s) == \E k \in 1..Len(setters) : setters[k] = s

\* get_guide_tree(which): <<>> = the class has no such getter, else <<clades>>.
\* which: "default" (no argument) | "kmer" | "identity" (MuscleApp's iteration argument)
\* callerTree: the clades of the tree the caller hands to set_guide_tree
TreeAnswer(kind, setters, which, n, callerTree) ==
  CASE kind = "clustalo" /\ which = "default" ->
         \* the program is not asked for a tree when it is given one: the tree of the run is
         \* the caller's
         <<IF Uses(setters, "tree_in") THEN callerTree ELSE ToolTree("default", n)>>
    [] kind = "muscle3" -> <<ToolTree(IF which = "default" THEN "identity" ELSE which, n)>>
    [] kind = "mafft" /\ which = "default" -> <<ToolTree("default", n)>>
    [] OTHER -> <<>>

\* get_distance_matrix(): the SET of acceptable answers [k, m]; k = "nogetter" | "absent"
\* (nothing is handed out: refused, or None) | "value" (the matrix m).
\* After full_matrix_calculation() the program is asked for its matrix and the answer is that
\* matrix.  Without it the property does not say whether the program is asked: nothing may be
\* handed out, or the matrix the program wrote - never anything else (the caller's own input).
DistAnswer(kind, setters, n) ==
  IF kind # "clustalo" THEN {[k |-> "nogetter", m |-> <<>>]}
  ELSE IF Uses(setters, "full") THEN {[k |-> "value", m |-> ToolMatrix(n)]}
  ELSE {[k |-> "absent", m |-> <<>>], [k |-> "value", m |-> ToolMatrix(n)]}

Extras(kind, setters, n, callerTree) ==
  [dist |-> DistAnswer(kind, setters, n),
   tree_default |-> TreeAnswer(kind, setters, "default", n, callerTree),
   tree_kmer |-> TreeAnswer(kind, setters, "kmer", n, callerTree),
   tree_identity |-> TreeAnswer(kind, setters, "identity", n, callerTree)]

\* sequence type of the inputs: a custom substitution matrix is a protein matrix
SeqTypeFor(setters) == IF Uses(setters, "matrix") THEN "prot" ELSE "nuc"

\* setter sequences: every order of every subset (Repeat = FALSE), or every sequence up to MaxLen
SetterSeqs(kind, maxLen, repeat) ==
  {s \in UNION {[1..m -> Setters(kind)] : m \in 0..maxLen} :
     repeat \/ \A a, b \in 1..Len(s) : (a # b) => (s[a] # s[b])}

(* the environment is distinguishable: what the program writes is never what the caller gave *)
Distinguishable(n) ==
  /\ ToolMatrix(n) # CallerMatrix(n)
  /\ (n >= 3 => ToolTree("default", n) # CallerTree(n))
  /\ (n >= 3 => ToolTree("kmer", n) # ToolTree("identity", n))

ASSUME Clades("asc", 3) = <<<<0, 1>>, <<0, 1, 2>>>> /\ Clades("desc", 3) = <<<<1, 2>>, <<0, 1, 2>>>>
ASSUME ToolMatrix(2) = <<<<0, 11>>, <<11, 0>>>> /\ CallerMatrix(2) = <<<<0, 3>>, <<3, 0>>>>
ASSUME SetterSeqs("mafft", 1, FALSE) = {<<>>, <<"matrix">>}
ASSUME Cardinality(SetterSeqs("clustalo", 3, FALSE)) = 16
=============================================================================
