SPECIFICATION Spec
CONSTANT OptNs = {2, 3, 12}
CONSTANT OptEms = {"reversed", "stride"}
CONSTANT OptPads = {"end"}
CONSTANT MaxLen = 3
CONSTANT Repeat = FALSE
INVARIANT InvJoined
INVARIANT InvFaithful
INVARIANT InvDistinguishable
INVARIANT InvNeverTheCallersMatrix
INVARIANT InvMatrixWhenAsked
INVARIANT InvGuards
CHECK_DEADLOCK FALSE
