----------------------------- MODULE MCResults ------------------------------
(* C20: input family of the data half.  Init enumerates the cases (how many sequences, the
   program's emission order, the length profile, the padding style, the sequence type); the
   state holds the program's output and the results the wrapper has to hand out.  The dumped
   states are executed against the real wrappers (S2). *)
EXTENDS MsaResults, AppLifecycleOps

CONSTANTS Ns,          \* numbers of input sequences (across the 9/10, 99/100 numeral boundaries)
          LongNs,      \* numbers of input sequences for the "long" profile
          EmKinds, ProfKinds, PadKinds,
          SeqTypes     \* "nuc" | "prot" | "custom" (another alphabet, mapped onto protein letters)

VARIABLES case, L, p, out, res, life
vars == <<case, L, p, out, res, life>>

Dom_Case(c) ==
  IF c.prof = "long" THEN c.n \in LongNs /\ c.pad = "end" /\ c.em \in {"identity", "reversed"}
  ELSE c.n \in Ns
Cases == {c \in [n : Ns \cup LongNs, em : EmKinds, prof : ProfKinds \cup {"long"}, pad : PadKinds,
                 st : SeqTypes] : Dom_Case(c)}

Init ==
  /\ case \in Cases
  /\ L = Lengths(case.prof, case.n)
  /\ p = Emission(case.em, case.n)
  /\ out = ToolOutput(L, p, case.pad)
  /\ res = Results(out, case.n)
  /\ life = PlainRun(DefaultTool)     \* the run these results come from: start, join
Next == UNCHANGED vars
Spec == Init /\ [][Next]_vars

InvJoined == life[2].oc = "ok" /\ life[2].app = "JOINED" /\ life[2].res = "ready"
InvEnvironment == IsPermutation(p, case.n) /\ Dom_Complete(out, case.n)
InvFaithful == FaithfulTo(res, out, L)
\* the mapping is by the NUMBER a header denotes: a result row is never taken from another input
InvRowOfInput == \A i \in 1..case.n : res.rows[i] = ToolRow(L, i - 1, case.pad)
=============================================================================
