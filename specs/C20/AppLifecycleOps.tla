--------------------------- MODULE AppLifecycleOps ---------------------------
(* C20: life cycle of biotite.application wrappers (Application / LocalApp / MSAApp and the
   concrete MSA wrappers).  One operator per public call; the environment (the external
   program exiting, or getting stuck on its own output) is its own action.  This is the
   *specified* behaviour: what the documentation of Application promises plus the property's
   clean-up obligations.

   S = [app, proc, files, cleanups, cwd, res, tool, failed]
     app      : the wrapper's life-cycle state
     proc     : "none" | "running" | "blocked" | "exited"   (the child process / remote job)
                "running": still working (it hangs until the environment lets it go on);
                "blocked": it has written more than the OS pipes hold and waits for a reader -
                           it ends as soon as, and only when, somebody reads its output
     files    : "present" | "absent"               (temporary files; created by the constructor)
     cleanups : number of clean-up runs so far
     cwd      : "home" | "moved"                   (working directory of the calling process)
     res      : "none" | "ready"                   (results evaluated)
     tool     : behaviour of the external program, constant for a behaviour; a record of
                independent dimensions (see Tool below)
     failed   : TRUE after a failed launch (the run has ended; nothing else is specified)
   Step(S, c) = S' extended with oc (outcome) and out (returned value).
   oc in {"ok", "AppStateError", "TimeoutError", "Rejected"} *)
EXTENDS Integers, Sequences, FiniteSets, TLC

AppStates == {"CREATED", "RUNNING", "FINISHED", "JOINED", "CANCELLED"}

(* ------------------------------------------------- behaviours of the external program
   launch : "ok" | "missing" (the binary cannot be found, OSError) | "badopt" (an option setter
            was given a value the launcher cannot pass on, TypeError) - failures to launch
   order  : order of the rows in the program's output relative to the input
   output : "complete" | "truncated" (a row is missing: the program died / gave up half-way)
            | "garbage" (not an alignment) | "none"
   ending : how the program ends after it has written that output: exit code 0, a failing exit
            code, or death by a signal (killed from outside, crash in its own tear-down)
   vol    : what it writes to its pipes besides the result: a few bytes, or more than an OS
            pipe holds on STDOUT, on STDERR, on both *)
Launches == {"ok", "missing", "badopt"}
Orders == {"identity", "reversed", "rotated"}
Outputs == {"complete", "truncated", "garbage", "none"}
Endings == {"exit0", "exit3", "SIGKILL", "SIGTERM", "SIGSEGV"}
Volumes == {"small", "bigout", "bigerr", "bigboth"}
Tool(la, ord, ou, en, vo) == [launch |-> la, order |-> ord, output |-> ou, ending |-> en, vol |-> vo]
DefaultTool == Tool("ok", "identity", "complete", "exit0", "small")
\* the order of the rows only means something for a complete output
AllTools ==
  {Tool("ok", o, "complete", e, v) : o \in Orders, e \in Endings, v \in Volumes}
  \cup {Tool("ok", "identity", u, e, v) : u \in Outputs \ {"complete"}, e \in Endings, v \in Volumes}
  \cup {Tool(la, "identity", "complete", "exit0", "small") : la \in {"missing", "badopt"}}
\* one dimension varied at a time around the default + the combinations that interact
\* (death by signal after complete / partial output, failure with a long error message,
\* big volume together with a signal)
CoreTools ==
  {DefaultTool,
   Tool("ok", "reversed", "complete", "exit0", "small"),
   Tool("ok", "rotated", "complete", "exit0", "small"),
   Tool("ok", "identity", "garbage", "exit0", "small"),
   Tool("ok", "identity", "truncated", "exit0", "small"),
   Tool("ok", "identity", "none", "exit3", "small"),
   Tool("ok", "identity", "complete", "SIGKILL", "small"),
   Tool("ok", "reversed", "complete", "SIGSEGV", "small"),
   Tool("ok", "identity", "truncated", "SIGTERM", "small"),
   Tool("ok", "identity", "complete", "exit0", "bigout"),
   Tool("ok", "rotated", "complete", "exit0", "bigerr"),
   Tool("ok", "reversed", "complete", "exit0", "bigboth"),
   Tool("ok", "identity", "none", "exit3", "bigerr"),
   Tool("ok", "identity", "complete", "SIGKILL", "bigout"),
   Tool("missing", "identity", "complete", "exit0", "small"),
   Tool("badopt", "identity", "complete", "exit0", "small")}

LaunchFails(t) == t.launch # "ok"
\* a run is successful exactly when the program delivered a complete alignment AND ended
\* with exit code 0
Succeeds(t) == t.launch = "ok" /\ t.output = "complete" /\ t.ending = "exit0"
BigVolume(t) == t.vol # "small"
ExitText(t) == CASE t.ending = "exit0" -> "0" [] t.ending = "exit3" -> "3" [] OTHER -> "signal"

Calls == {"start", "join", "join_t", "join_T", "cancel", "state", "setter", "get_alignment",
          "get_order", "get_tree", "get_exit_code", "get_stdout", "get_command",
          "get_process", "proc_exits", "proc_writes", "refresh"}
\* "join"   : join()                - waits as long as it takes
\* "join_t" : join(timeout = short) - expires unless the program has already exited
\* "join_T" : join(timeout = long)  - long enough for a program that only waits for a reader
\* "proc_exits" / "proc_writes" are the environment: the program (small volume) ends / the
\* program (big volume) starts writing and gets stuck on the full pipe.
\* "refresh" is not a public call: it is the wrapper noticing (at any time it is asked anything)
\* that the program has exited, RUNNING -> FINISHED.  The documentation says the state
\* "changes to FINISHED when the application finishes"; the implementation updates its flag
\* lazily, so the specification lets this silent step happen before or after any call.
Silent == {"refresh"}
EnvSteps == {"proc_exits", "proc_writes"}

(* the documented life cycle: in which states a call is accepted *)
Allowed(c) ==
  CASE c = "start" -> {"CREATED"}
    [] c \in {"join", "join_t", "join_T", "cancel"} -> {"RUNNING", "FINISHED"}
    [] c = "setter" -> {"CREATED"}
    [] c \in {"get_alignment", "get_order", "get_tree"} -> {"JOINED"}
    [] c \in {"get_exit_code", "get_stdout"} -> {"FINISHED", "JOINED"}
    [] c = "get_command" -> {"RUNNING", "FINISHED", "JOINED", "CANCELLED"}
    [] c = "get_process" -> {"RUNNING", "FINISHED"}
    [] c \in {"state", "proc_exits", "proc_writes", "refresh"} -> AppStates

With(S, oc, out) ==
  [app |-> S.app, proc |-> S.proc, files |-> S.files, cleanups |-> S.cleanups, cwd |-> S.cwd,
   res |-> S.res, tool |-> S.tool, failed |-> S.failed, oc |-> oc, out |-> out]

\* the end of a run: clean-up runs (once), temp files go away, the child is gone
EndRun(S, newApp, newRes) ==
  [S EXCEPT !.app = newApp, !.res = newRes, !.cleanups = S.cleanups + 1, !.files = "absent",
            !.proc = IF S.proc \in {"running", "blocked"} THEN "exited" ELSE S.proc, !.cwd = "home"]

\* what the external program's output means, mapped back to input order
OrderOf(tool) == tool.order

\* the wrapper has read everything the program wrote (a blocked program thereby ends) and
\* judges the run: non-zero exit, death by signal, unparsable / incomplete output -> rejected
Evaluate(S) ==
  IF Succeeds(S.tool)
    THEN With(EndRun(S, "JOINED", "ready"), "ok", "")
    ELSE With(EndRun(S, "CANCELLED", "none"), "Rejected", "")

\* calls whose result the modelled environment does not decide
Blocks(S, c) ==
  \/ c \in {"join", "join_T"} /\ S.proc = "running"   \* waits for ever / for the whole long timeout
  \/ c = "join_t" /\ S.proc = "blocked"               \* a race between the timeout and the reader

Step(S, c) ==
  IF c = "proc_exits" THEN With([S EXCEPT !.proc = "exited"], "ok", "")
  ELSE IF c = "proc_writes" THEN With([S EXCEPT !.proc = "blocked"], "ok", "")
  ELSE IF c = "refresh" THEN With([S EXCEPT !.app = "FINISHED"], "ok", "")
  ELSE IF S.app \notin Allowed(c) THEN With(S, "AppStateError", "")
  ELSE CASE c = "start" ->
              IF LaunchFails(S.tool)
                THEN With([EndRun(S, "CANCELLED", "none") EXCEPT !.failed = TRUE], "Rejected", "")
                ELSE With([S EXCEPT !.app = "RUNNING", !.proc = "running"], "ok", "")
         [] c \in {"join", "join_T"} -> Evaluate(S)
         [] c = "join_t" ->
              IF S.proc = "running"
                THEN With(EndRun(S, "CANCELLED", "none"), "TimeoutError", "")
                ELSE Evaluate(S)
         [] c = "cancel" -> With(EndRun(S, "CANCELLED", "none"), "ok", "")
         [] c = "state" ->
              LET a == IF S.app = "RUNNING" /\ S.proc = "exited" THEN "FINISHED" ELSE S.app
              IN With([S EXCEPT !.app = a], "ok", a)
         [] c = "setter" -> With(S, "ok", "")
         [] c = "get_alignment" -> With(S, "ok", "rows_are_inputs_in_input_order")
         [] c = "get_order" -> With(S, "ok", OrderOf(S.tool))
         [] c = "get_tree" -> With(S, "ok", "tree_with_every_sequence_once")
         [] c = "get_exit_code" -> With(S, "ok", ExitText(S.tool))
         [] c = "get_stdout" -> With(S, "ok", "text")
         [] c = "get_command" -> With(S, "ok", "text")
         [] c = "get_process" -> With(S, "ok", S.proc)

Enabled(S, c) ==
  /\ ~S.failed                                   \* after a failed launch nothing is specified
  /\ (c = "proc_exits" => (S.proc = "running" /\ ~BigVolume(S.tool)))
  /\ (c = "proc_writes" => (S.proc = "running" /\ BigVolume(S.tool)))
  /\ (c = "refresh" => (S.app = "RUNNING" /\ S.proc = "exited"))
  /\ ~(S.app \in Allowed(c) /\ Blocks(S, c))

Core(r) == [app |-> r.app, proc |-> r.proc, files |-> r.files, cleanups |-> r.cleanups,
            cwd |-> r.cwd, res |-> r.res, tool |-> r.tool, failed |-> r.failed]
Refreshed(S) == IF Enabled(S, "refresh") THEN [S EXCEPT !.app = "FINISHED"] ELSE S
\* all results of call c from S with the silent step allowed before and after it
Variants(S, c) ==
  LET pres == {S, Refreshed(S)}
      rs   == {Step(p, c) : p \in {q \in pres : Enabled(q, c)}}
  IN rs \cup {With(Refreshed(Core(r)), r.oc, r.out) : r \in rs}

InitState(tool) ==
  [app |-> "CREATED", proc |-> "none", files |-> "present", cleanups |-> 0, cwd |-> "home",
   res |-> "none", tool |-> tool, failed |-> FALSE]

\* the plain history start() - the program does its work - join(), for a program that can be
\* launched: <<result of start, result of join>>
PlainRun(tool) ==
  LET s1 == Step(InitState(tool), "start")
      s2 == Step(Core(s1), IF BigVolume(tool) THEN "proc_writes" ELSE "proc_exits")
  IN <<s1, Step(Core(s2), "join")>>

(* ------------------------------------------------------------------ properties of a state *)
RunEnded(S) == S.app \in {"JOINED", "CANCELLED"} \/ S.failed
RunEndsClean(S) ==
  RunEnded(S) => (S.cleanups = 1 /\ S.files = "absent" /\ S.proc \notin {"running", "blocked"}
                  /\ S.cwd = "home")
NoCleanupBeforeEnd(S) == ~RunEnded(S) => (S.cleanups = 0 /\ S.files = "present")
ResultsOnlyAfterJoin(S) == (S.res = "ready") = (S.app = "JOINED")
\* results are handed out for successful runs only
ResultsOnlyOfSuccess(S) == (S.res = "ready") => Succeeds(S.tool)
ProcConsistent(S) ==
  /\ (S.app = "CREATED" => S.proc = "none")
  /\ (S.app = "RUNNING" => S.proc \in {"running", "blocked", "exited"})
  /\ (S.app \in {"FINISHED", "JOINED"} => S.proc = "exited")
  /\ (S.proc = "blocked" => BigVolume(S.tool))
=============================================================================
