--------------------------- MODULE AppLifecycleOps ---------------------------
(* C20: life cycle of biotite.application wrappers (Application / LocalApp / MSAApp and the
   concrete MSA wrappers).  One operator per public call; the environment (the external
   program exiting) is its own action.  This is the *specified* behaviour: what the
   documentation of Application promises plus the property's clean-up obligations.

   S = [app, proc, files, cleanups, cwd, res, tool, failed]
     app      : the wrapper's life-cycle state
     proc     : "none" | "running" | "exited"      (the child process / remote job)
     files    : "present" | "absent"               (temporary files; created by the constructor)
     cleanups : number of clean-up runs so far
     cwd      : "home" | "moved"                   (working directory of the calling process)
     res      : "none" | "ready"                   (results evaluated)
     tool     : behaviour of the external program, constant for a behaviour:
                "ok" | "reordered" | "rotated" | "exit3" | "garbage" | "missing" | "badopt"
     failed   : TRUE after a failed launch (the run has ended; nothing else is specified)
   Step(S, c) = S' extended with oc (outcome) and out (returned value).
   oc in {"ok", "AppStateError", "TimeoutError", "Rejected"} *)
EXTENDS Integers, Sequences, FiniteSets, TLC

AppStates == {"CREATED", "RUNNING", "FINISHED", "JOINED", "CANCELLED"}
Tools == {"ok", "reordered", "rotated", "exit3", "garbage", "missing", "badopt"}
\* "missing": the binary cannot be found (OSError); "badopt": an option setter was given a value
\* the launcher cannot pass on (TypeError) - both are failures to launch
LaunchFails == {"missing", "badopt"}
Calls == {"start", "join", "join_t", "cancel", "state", "setter", "get_alignment",
          "get_order", "get_tree", "get_exit_code", "get_stdout", "get_command",
          "get_process", "proc_exits", "refresh"}
\* "refresh" is not a public call: it is the wrapper noticing (at any time it is asked anything)
\* that the program has exited, RUNNING -> FINISHED.  The documentation says the state
\* "changes to FINISHED when the application finishes"; the implementation updates its flag
\* lazily, so the specification lets this silent step happen before or after any call.
Silent == {"refresh"}

(* the documented life cycle: in which states a call is accepted *)
Allowed(c) ==
  CASE c = "start" -> {"CREATED"}
    [] c \in {"join", "join_t", "cancel"} -> {"RUNNING", "FINISHED"}
    [] c = "setter" -> {"CREATED"}
    [] c \in {"get_alignment", "get_order", "get_tree"} -> {"JOINED"}
    [] c \in {"get_exit_code", "get_stdout"} -> {"FINISHED", "JOINED"}
    [] c = "get_command" -> {"RUNNING", "FINISHED", "JOINED", "CANCELLED"}
    [] c = "get_process" -> {"RUNNING", "FINISHED"}
    [] c \in {"state", "proc_exits", "refresh"} -> AppStates

With(S, oc, out) ==
  [app |-> S.app, proc |-> S.proc, files |-> S.files, cleanups |-> S.cleanups, cwd |-> S.cwd,
   res |-> S.res, tool |-> S.tool, failed |-> S.failed, oc |-> oc, out |-> out]

\* the end of a run: clean-up runs (once), temp files go away, the child is gone
EndRun(S, newApp, newRes) ==
  [S EXCEPT !.app = newApp, !.res = newRes, !.cleanups = S.cleanups + 1, !.files = "absent",
            !.proc = IF S.proc = "running" THEN "exited" ELSE S.proc, !.cwd = "home"]

\* what the external program's output means, mapped back to input order
OrderOf(tool) == IF tool = "reordered" THEN "reversed" ELSE IF tool = "rotated" THEN "rotated" ELSE "identity"

Evaluate(S) ==
  IF S.tool \in {"ok", "reordered", "rotated"}
    THEN With(EndRun(S, "JOINED", "ready"), "ok", "")
    ELSE With(EndRun(S, "CANCELLED", "none"), "Rejected", "")   \* non-zero exit / unparsable output

\* calls that cannot return in the modelled environment (they would block forever)
Blocks(S, c) == c = "join" /\ S.proc = "running"

Step(S, c) ==
  IF c = "proc_exits" THEN With([S EXCEPT !.proc = "exited"], "ok", "")
  ELSE IF c = "refresh" THEN With([S EXCEPT !.app = "FINISHED"], "ok", "")
  ELSE IF S.app \notin Allowed(c) THEN With(S, "AppStateError", "")
  ELSE CASE c = "start" ->
              IF S.tool \in LaunchFails
                THEN With([EndRun(S, "CANCELLED", "none") EXCEPT !.failed = TRUE], "Rejected", "")
                ELSE With([S EXCEPT !.app = "RUNNING", !.proc = "running"], "ok", "")
         [] c = "join" -> Evaluate(S)
         [] c = "join_t" ->
              IF S.proc = "running"
                THEN With(EndRun(S, "CANCELLED", "none"), "TimeoutError", "")
                ELSE Evaluate(S)
         [] c = "cancel" -> With(EndRun(S, "CANCELLED", "none"), "ok", "")
         [] c = "state" ->
              LET a == IF S.app = "RUNNING" /\ S.proc = "exited" THEN "FINISHED" ELSE S.app
              IN With([S EXCEPT !.app = a], "ok", a)
         [] c = "setter" -> With(S, "ok", "")
         [] c = "get_alignment" -> With(S, "ok", "rows_are_inputs_in_input_order")
         [] c = "get_order" -> With(S, "ok", OrderOf(S.tool))
         [] c = "get_tree" -> With(S, "ok", "tree_with_every_sequence_once")
         [] c = "get_exit_code" -> With(S, "ok", IF S.tool = "exit3" THEN "3" ELSE "0")
         [] c = "get_stdout" -> With(S, "ok", "text")
         [] c = "get_command" -> With(S, "ok", "text")
         [] c = "get_process" -> With(S, "ok", S.proc)

Enabled(S, c) ==
  /\ ~S.failed                                   \* after a failed launch nothing is specified
  /\ (c = "proc_exits" => S.proc = "running")
  /\ (c = "refresh" => (S.app = "RUNNING" /\ S.proc = "exited"))
  /\ ~(S.app \in Allowed(c) /\ Blocks(S, c))

Core(r) == [app |-> r.app, proc |-> r.proc, files |-> r.files, cleanups |-> r.cleanups,
            cwd |-> r.cwd, res |-> r.res, tool |-> r.tool, failed |-> r.failed]
Refreshed(S) == IF Enabled(S, "refresh") THEN [S EXCEPT !.app = "FINISHED"] ELSE S
\* all results of call c from S with the silent step allowed before and after it
Variants(S, c) ==
  LET pres == {S, Refreshed(S)}
      rs   == {Step(p, c) : p \in {q \in pres : Enabled(q, c)}}
  IN rs \cup {With(Refreshed(Core(r)), r.oc, r.out) : r \in rs}

InitState(tool) ==
  [app |-> "CREATED", proc |-> "none", files |-> "present", cleanups |-> 0, cwd |-> "home",
   res |-> "none", tool |-> tool, failed |-> FALSE]

(* ------------------------------------------------------------------ properties of a state *)
RunEnded(S) == S.app \in {"JOINED", "CANCELLED"} \/ S.failed
RunEndsClean(S) ==
  RunEnded(S) => (S.cleanups = 1 /\ S.files = "absent" /\ S.proc # "running" /\ S.cwd = "home")
NoCleanupBeforeEnd(S) == ~RunEnded(S) => (S.cleanups = 0 /\ S.files = "present")
ResultsOnlyAfterJoin(S) == (S.res = "ready") = (S.app = "JOINED")
ProcConsistent(S) ==
  /\ (S.app = "CREATED" => S.proc = "none")
  /\ (S.app = "RUNNING" => S.proc \in {"running", "exited"})
  /\ (S.app \in {"FINISHED", "JOINED"} => S.proc = "exited")
=============================================================================
