--------------------------- MODULE AppLifecycleOps ---------------------------
(* C20: life cycle of biotite.application wrappers (Application / LocalApp / MSAApp and the
   concrete MSA wrappers).  One operator per public call; the environment (the external
   program exiting, or getting stuck on its own output) is its own action.  This is the
   *specified* behaviour: what the documentation of Application promises plus the property's
   clean-up obligations.

   S = [app, proc, files, cleanups, cwd, res, tool, failed]
     app      : the wrapper's life-cycle state; "NONE" = there is no wrapper object (yet): the
                history starts with the action "construct", which may fail
     proc     : "none" | "running" | "blocked" | "exited"   (the child process / remote job)
                "running": still working (it hangs until the environment lets it go on);
                "blocked": it has written more than the OS pipes hold and waits for a reader -
                           it ends as soon as, and only when, somebody reads its output
     files    : "present" | "absent"               (temporary files; created by the constructor:
                                                    absent while there is no wrapper object)
     cleanups : number of clean-up runs so far
     cwd      : "home" | "moved"                   (working directory of the calling process)
     res      : "none" | "ready"                   (results evaluated)
     tool     : behaviour of the external program, constant for a behaviour; a record of
                independent dimensions (see Tool below)
     failed   : TRUE after a failed launch (the run has ended: the wrapper object exists, it is
                in the one end state without results, CANCELLED, and every call is still
                answered by the life cycle) and after a refused construction (there is no
                object; nothing may be left behind, nothing can be called)
   Step(S, c) = S' extended with oc (outcome) and out (returned value).
   oc in {"ok", "AppStateError", "TimeoutError", "Rejected"} *)
EXTENDS Integers, Sequences, FiniteSets, TLC

AppStates == {"NONE", "CREATED", "RUNNING", "FINISHED", "JOINED", "CANCELLED"}

(* ------------------------------------------------- behaviours of the external program
   launch : "ok" | "missing" (the binary cannot be found, OSError) | "badopt" (an option setter
            was given a value the launcher cannot pass on, TypeError) - failures to launch
   order  : order of the rows in the program's output relative to the input
   output : "complete" | "truncated" (a row is missing: the program died / gave up half-way)
            | "garbage" (not an alignment) | "none"
   ending : how the program ends after it has written that output: exit code 0, a failing exit
            code, or death by a signal (killed from outside, crash in its own tear-down)
   vol    : what it writes to its pipes besides the result: a few bytes, or more than an OS
            pipe holds on STDOUT, on STDERR, on both
   stop   : how the program reacts to the signals a program can catch (SIGTERM, SIGINT, SIGHUP)
            while it works or waits: "default" (it dies) | "resists" (it ignores / handles
            them, as wrapper scripts and programs with their own signal handling do); nothing
            resists SIGKILL
   build  : what happens when the wrapper object is constructed: "ok" | the binary is asked for
            its version and is missing ("no_binary") / reports a version the wrapper class does
            not accept ("wrong_version") / reports no version at all ("no_version") | the
            caller's arguments are refused ("bad_input": one sequence, mixed alphabets, an
            asymmetric matrix).  Everything but "ok" makes the construction fail. *)
Launches == {"ok", "missing", "badopt"}
Orders == {"identity", "reversed", "rotated"}
Outputs == {"complete", "truncated", "garbage", "none"}
Endings == {"exit0", "exit3", "SIGKILL", "SIGTERM", "SIGSEGV"}
Volumes == {"small", "bigout", "bigerr", "bigboth"}
StopKinds == {"default", "resists"}
Builds == {"ok", "no_binary", "wrong_version", "no_version", "bad_input"}
Tool(la, ord, ou, en, vo) == [launch |-> la, order |-> ord, output |-> ou, ending |-> en, vol |-> vo,
                              stop |-> "default", build |-> "ok"]
Resisting(t) == [t EXCEPT !.stop = "resists"]
DefaultTool == Tool("ok", "identity", "complete", "exit0", "small")
\* the signals a wrapper may use to end the program, and which of them end which program
Signals == {"SIGTERM", "SIGINT", "SIGKILL"}
StoppedBy(t, sig) == sig = "SIGKILL" \/ t.stop = "default"
\* the specified design: a run that is ended from outside ends the program with the one
\* signal that ends every program (InvRunEndsClean holds for every behaviour only because of it)
CleanupSignal == "SIGKILL"
\* the order of the rows only means something for a complete output
LaunchedTools ==
  {Tool("ok", o, "complete", e, v) : o \in Orders, e \in Endings, v \in Volumes}
  \cup {Tool("ok", "identity", u, e, v) : u \in Outputs \ {"complete"}, e \in Endings, v \in Volumes}
AllTools ==
  LaunchedTools \cup {Resisting(t) : t \in LaunchedTools}
  \cup {Tool(la, "identity", "complete", "exit0", "small") : la \in {"missing", "badopt"}}
  \cup {[DefaultTool EXCEPT !.build = b] : b \in Builds \ {"ok"}}
\* one dimension varied at a time around the default + the combinations that interact
\* (death by signal after complete / partial output, failure with a long error message,
\* big volume together with a signal)
CoreTools ==
  {DefaultTool,
   Tool("ok", "reversed", "complete", "exit0", "small"),
   Tool("ok", "rotated", "complete", "exit0", "small"),
   Tool("ok", "identity", "garbage", "exit0", "small"),
   Tool("ok", "identity", "truncated", "exit0", "small"),
   Tool("ok", "identity", "none", "exit3", "small"),
   Tool("ok", "identity", "complete", "SIGKILL", "small"),
   Tool("ok", "reversed", "complete", "SIGSEGV", "small"),
   Tool("ok", "identity", "truncated", "SIGTERM", "small"),
   Tool("ok", "identity", "complete", "exit0", "bigout"),
   Tool("ok", "rotated", "complete", "exit0", "bigerr"),
   Tool("ok", "reversed", "complete", "exit0", "bigboth"),
   Tool("ok", "identity", "none", "exit3", "bigerr"),
   Tool("ok", "identity", "complete", "SIGKILL", "bigout"),
   Tool("missing", "identity", "complete", "exit0", "small"),
   Tool("badopt", "identity", "complete", "exit0", "small"),
   \* a program that does not die on a polite signal: while it works, while it waits for a
   \* reader of its pipes, and one that would end badly anyway
   Resisting(DefaultTool),
   Resisting(Tool("ok", "reversed", "complete", "exit0", "bigboth")),
   Resisting(Tool("ok", "identity", "none", "exit3", "bigerr")),
   \* every way a construction can fail
   [DefaultTool EXCEPT !.build = "no_binary"],
   [DefaultTool EXCEPT !.build = "wrong_version"],
   [DefaultTool EXCEPT !.build = "no_version"],
   [DefaultTool EXCEPT !.build = "bad_input"]}

LaunchFails(t) == t.launch # "ok"
BuildFails(t) == t.build # "ok"
\* a run is successful exactly when the program delivered a complete alignment AND ended
\* with exit code 0
Succeeds(t) == t.launch = "ok" /\ t.output = "complete" /\ t.ending = "exit0"
BigVolume(t) == t.vol # "small"
ExitText(t) == CASE t.ending = "exit0" -> "0" [] t.ending = "exit3" -> "3" [] OTHER -> "signal"

Calls == {"construct", "start", "join", "join_t", "join_T", "cancel", "state", "setter",
          "get_alignment", "get_order", "get_tree", "get_dist", "get_exit_code", "get_stdout",
          "get_command", "get_process", "get_stderr", "get_info", "proc_exits", "proc_writes", "refresh"}
\* "construct" : the constructor of the wrapper class (it may ask the binary for its version and
\*               it creates the temporary files); the only action while there is no object
\* "get_dist"  : a result getter that only some wrapper classes have (the distance matrix the
\*               program wrote, ClustalOmegaApp after full_matrix_calculation())
\* "get_stderr": the other pipe of the program (same states as "get_stdout")
\* "get_info"  : the informational getters that are not bound to a state (the paths of the input
\*               / output file the program is given, the sequence type): they describe the
\*               wrapper object, not the run, and are answered in every state
\* "join"   : join()                - waits as long as it takes
\* "join_t" : join(timeout = short) - expires unless the program has already exited
\* "join_T" : join(timeout = long)  - long enough for a program that only waits for a reader
\* "proc_exits" / "proc_writes" are the environment: the program (small volume) ends / the
\* program (big volume) starts writing and gets stuck on the full pipe.
\* "refresh" is not a public call: it is the wrapper noticing (at any time it is asked anything)
\* that the program has exited, RUNNING -> FINISHED.  The documentation says the state
\* "changes to FINISHED when the application finishes"; the implementation updates its flag
\* lazily, so the specification lets this silent step happen before or after any call.
Silent == {"refresh"}
EnvSteps == {"proc_exits", "proc_writes"}

(* the documented life cycle: in which states a call is accepted *)
Allowed(c) ==
  CASE c = "construct" -> {"NONE"}
    [] c = "start" -> {"CREATED"}
    [] c \in {"join", "join_t", "join_T", "cancel"} -> {"RUNNING", "FINISHED"}
    [] c = "setter" -> {"CREATED"}
    [] c \in {"get_alignment", "get_order", "get_tree", "get_dist"} -> {"JOINED"}
    [] c \in {"get_exit_code", "get_stdout", "get_stderr"} -> {"FINISHED", "JOINED"}
    [] c = "get_info" -> AppStates \ {"NONE"}
    [] c = "get_command" -> {"RUNNING", "FINISHED", "JOINED", "CANCELLED"}
    [] c = "get_process" -> {"RUNNING", "FINISHED"}
    [] c \in {"state", "proc_exits", "proc_writes", "refresh"} -> AppStates \ {"NONE"}

With(S, oc, out) ==
  [app |-> S.app, proc |-> S.proc, files |-> S.files, cleanups |-> S.cleanups, cwd |-> S.cwd,
   res |-> S.res, tool |-> S.tool, failed |-> S.failed, oc |-> oc, out |-> out]

\* the end of a run: clean-up runs (once), temp files go away, the child is gone (a program
\* that is still alive is ended with CleanupSignal)
EndRun(S, newApp, newRes) ==
  [S EXCEPT !.app = newApp, !.res = newRes, !.cleanups = S.cleanups + 1, !.files = "absent",
            !.proc = IF S.proc \in {"running", "blocked"} /\ StoppedBy(S.tool, CleanupSignal)
                       THEN "exited" ELSE S.proc,
            !.cwd = "home"]

\* what the external program's output means, mapped back to input order
OrderOf(tool) == tool.order

\* the wrapper has read everything the program wrote (a blocked program thereby ends) and
\* judges the run: non-zero exit, death by signal, unparsable / incomplete output -> rejected
Evaluate(S) ==
  IF Succeeds(S.tool)
    THEN With(EndRun(S, "JOINED", "ready"), "ok", "")
    ELSE With(EndRun(S, "CANCELLED", "none"), "Rejected", "")

\* calls whose result the modelled environment does not decide
Blocks(S, c) ==
  \/ c \in {"join", "join_T"} /\ S.proc = "running"   \* waits for ever / for the whole long timeout
  \/ c = "join_t" /\ S.proc = "blocked"               \* a race between the timeout and the reader
  \* Dom_CommandText: the command is reported as text; after the caller supplied an option
  \* that is not text (the launch failure "badopt") its rendering is not specified
  \/ c = "get_command" /\ S.tool.launch = "badopt"

Step(S, c) ==
  IF c = "proc_exits" THEN With([S EXCEPT !.proc = "exited"], "ok", "")
  ELSE IF c = "proc_writes" THEN With([S EXCEPT !.proc = "blocked"], "ok", "")
  ELSE IF c = "refresh" THEN With([S EXCEPT !.app = "FINISHED"], "ok", "")
  ELSE IF S.app \notin Allowed(c) THEN With(S, "AppStateError", "")
  ELSE CASE c = "construct" ->
              \* a refused construction leaves nothing behind: no object, no file, no process
              IF BuildFails(S.tool)
                THEN With([S EXCEPT !.failed = TRUE], "Rejected", "")
                ELSE With([S EXCEPT !.app = "CREATED", !.files = "present"], "ok", "")
         [] c = "start" ->
              IF LaunchFails(S.tool)
                THEN With([EndRun(S, "CANCELLED", "none") EXCEPT !.failed = TRUE], "Rejected", "")
                ELSE With([S EXCEPT !.app = "RUNNING", !.proc = "running"], "ok", "")
         [] c \in {"join", "join_T"} -> Evaluate(S)
         [] c = "join_t" ->
              IF S.proc = "running"
                THEN With(EndRun(S, "CANCELLED", "none"), "TimeoutError", "")
                ELSE Evaluate(S)
         [] c = "cancel" -> With(EndRun(S, "CANCELLED", "none"), "ok", "")
         [] c = "state" ->
              LET a == IF S.app = "RUNNING" /\ S.proc = "exited" THEN "FINISHED" ELSE S.app
              IN With([S EXCEPT !.app = a], "ok", a)
         [] c = "setter" -> With(S, "ok", "")
         [] c = "get_alignment" -> With(S, "ok", "rows_are_inputs_in_input_order")
         [] c = "get_order" -> With(S, "ok", OrderOf(S.tool))
         [] c = "get_tree" -> With(S, "ok", "tree_with_every_sequence_once")
         [] c = "get_dist" -> With(S, "ok", "matrix_the_program_wrote")
         [] c = "get_exit_code" -> With(S, "ok", ExitText(S.tool))
         [] c = "get_stdout" -> With(S, "ok", "text")
         [] c = "get_stderr" -> With(S, "ok", "text")
         [] c = "get_info" -> With(S, "ok", "text")
         [] c = "get_command" -> With(S, "ok", "text")
         [] c = "get_process" -> With(S, "ok", S.proc)

Enabled(S, c) ==
  \* after a refused construction there is nothing to call; after a failed launch the wrapper
  \* is an ended run like any other: every call is answered by the life cycle
  /\ ~(S.failed /\ S.app = "NONE")
  /\ ((c = "construct") = (S.app = "NONE"))      \* no object: nothing to call but the constructor
  /\ (c = "proc_exits" => (S.proc = "running" /\ ~BigVolume(S.tool)))
  /\ (c = "proc_writes" => (S.proc = "running" /\ BigVolume(S.tool)))
  /\ (c = "refresh" => (S.app = "RUNNING" /\ S.proc = "exited"))
  /\ ~(S.app \in Allowed(c) /\ Blocks(S, c))

Core(r) == [app |-> r.app, proc |-> r.proc, files |-> r.files, cleanups |-> r.cleanups,
            cwd |-> r.cwd, res |-> r.res, tool |-> r.tool, failed |-> r.failed]
Refreshed(S) == IF Enabled(S, "refresh") THEN [S EXCEPT !.app = "FINISHED"] ELSE S
\* all results of call c from S with the silent step allowed before and after it
Variants(S, c) ==
  LET pres == {S, Refreshed(S)}
      rs   == {Step(p, c) : p \in {q \in pres : Enabled(q, c)}}
  IN rs \cup {With(Refreshed(Core(r)), r.oc, r.out) : r \in rs}

InitState(tool) ==
  [app |-> "NONE", proc |-> "none", files |-> "absent", cleanups |-> 0, cwd |-> "home",
   res |-> "none", tool |-> tool, failed |-> FALSE]
\* the state after a successful construction
CreatedState(tool) == Core(Step(InitState([tool EXCEPT !.build = "ok"]), "construct"))

\* the plain history construct - start() - the program does its work - join(), for a program
\* that can be constructed and launched: <<result of start, result of join>>
PlainRun(tool) ==
  LET s1 == Step(CreatedState(tool), "start")
      s2 == Step(Core(s1), IF BigVolume(tool) THEN "proc_writes" ELSE "proc_exits")
  IN <<s1, Step(Core(s2), "join")>>

(* ------------------------------------------------------------------ properties of a state *)
RunEnded(S) == S.app \in {"JOINED", "CANCELLED"} \/ (S.failed /\ S.app # "NONE")
\* while there is no wrapper object (before the construction, after a refused one) nothing
\* is owned: no temporary file, no process, no clean-up to run
NoObjectNoResources(S) ==
  S.app = "NONE" => (S.files = "absent" /\ S.proc = "none" /\ S.cleanups = 0 /\ S.cwd = "home")
RunEndsClean(S) ==
  RunEnded(S) => (S.cleanups = 1 /\ S.files = "absent" /\ S.proc \notin {"running", "blocked"}
                  /\ S.cwd = "home")
NoCleanupBeforeEnd(S) == ~RunEnded(S) => (S.cleanups = 0 /\ ((S.files = "present") = (S.app # "NONE")))
ResultsOnlyAfterJoin(S) == (S.res = "ready") = (S.app = "JOINED")
\* results are handed out for successful runs only
ResultsOnlyOfSuccess(S) == (S.res = "ready") => Succeeds(S.tool)
ProcConsistent(S) ==
  /\ (S.app \in {"NONE", "CREATED"} => S.proc = "none")
  /\ (S.app = "RUNNING" => S.proc \in {"running", "blocked", "exited"})
  /\ (S.app \in {"FINISHED", "JOINED"} => S.proc = "exited")
  /\ (S.proc = "blocked" => BigVolume(S.tool))
=============================================================================
