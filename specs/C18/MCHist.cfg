SPECIFICATION Spec
CONSTANTS
  Depth = 2
  MaxRecs = 3
  Rich = FALSE
INVARIANT InvDomain
INVARIANT InvStable
INVARIANT InvStructures
CHECK_DEADLOCK FALSE
