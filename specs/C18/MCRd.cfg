SPECIFICATION Spec
CONSTANTS
  Rich = FALSE
INVARIANT InvOptionTable
INVARIANT InvIdentityDecided
CHECK_DEADLOCK FALSE
