------------------------------- MODULE RdkitBridge -------------------------------
(* C18: biotite.interface.rdkit.to_mol / from_mol as far as the property reaches: atoms in the
   same order (element, formal charge), every model <-> one conformer, and the two bond-type
   tables.  BondType values as in MolFile (0 ANY .. 9 AROMATIC).

   RDKit bond types are strings here: "UNSPECIFIED", "SINGLE", "DOUBLE", "TRIPLE", "QUADRUPLE",
   "AROMATIC", "DATIVE".  Options of the calls that the round-trip claim needs:
   to_mol(explicit_hydrogen=True) and from_mol(add_hydrogen=False) (otherwise RDKit adds hydrogen
   atoms by its own valence model); use_dative_bonds selects DATIVE for COORDINATION. *)
EXTENDS MolFile

AromaticTypes == {5, 6, 7, 9}
(* domain of the bridge: element symbols RDKit knows (the ones the checks use), formal charges -15..15 *)
RdElements == {T("C"), T("N"), T("O"), T("H"), T("S"), T("P"), T("F"), T("CL"), T("BR"), T("FE"), T("NA"), T("ZN")}
Dom_Rd(m) == Dom_Mol(m) /\ CoordsFinite(m)
             /\ \A i \in 1..NAtoms(m) : m.atoms[i].elem \in RdElements /\ m.atoms[i].chg \in -15..15
(* to_mol, as documented: _BIOTITE_TO_RDKIT_BOND_TYPE, COORDINATION -> DATIVE iff use_dative_bonds *)
ToRd(t, dative) ==
  CASE t = 0 -> "UNSPECIFIED" [] t = 1 -> "SINGLE" [] t = 2 -> "DOUBLE" [] t = 3 -> "TRIPLE" [] t = 4 -> "QUADRUPLE"
    [] t \in AromaticTypes -> "AROMATIC"
    [] t = 8 -> IF dative THEN "DATIVE" ELSE "SINGLE"
(* from_mol for a bond that is not aromatic: _RDKIT_TO_BIOTITE_BOND_TYPE *)
FromRd(r) ==
  CASE r = "UNSPECIFIED" -> 0 [] r = "SINGLE" -> 1 [] r = "DOUBLE" -> 2 [] r = "TRIPLE" -> 3 [] r = "QUADRUPLE" -> 4
    [] r = "DATIVE" -> 8 [] OTHER -> 0
(* the types RDKit can express as they are *)
ExpressibleRd(dative) == {0, 1, 2, 3, 4} \cup (IF dative THEN {8} ELSE {})
(* The types a bond may have after to_mol -> from_mol.  An aromatic bond returns kekulized
   (AROMATIC_SINGLE / AROMATIC_DOUBLE, RDKit's choice among the valid Kekule structures) or, where
   RDKit cannot kekulize (no ring), as the generic AROMATIC. *)
RdImages(t, dative) == IF t \in AromaticTypes THEN {5, 6, 9} ELSE {FromRd(ToRd(t, dative))}

(* a valid Kekule assignment of a ring whose bonds are all aromatic: every atom of the ring has
   exactly one AROMATIC_DOUBLE bond *)
ValidKekule(n, B) ==
  /\ \A b \in B : b[3] \in {5, 6}
  /\ \A a \in 0..(n - 1) : Cardinality({b \in B : (b[1] = a \/ b[2] = a) /\ b[3] = 6}) = 1

(* Known-bad input (recorded finding): use_dative_bonds=True has no effect, COORDINATION becomes SINGLE *)
KB_Dative(m, dative) == dative /\ \E k \in 1..NBonds(m) : m.bonds[k][3] = 8
(* expected result: the stack of all models, same atoms, bonds with their image sets *)
ExpectRd(m, nmodels, dative) ==
  [nmodels |-> nmodels,
   kb |-> IF KB_Dative(m, dative) THEN {"Dative"} ELSE {},
   atoms |-> [i \in 1..NAtoms(m) |-> [elem |-> UpperText(m.atoms[i].elem), chg |-> m.atoms[i].chg]],
   bonds |-> {<<m.bonds[k][1], m.bonds[k][2], RdImages(m.bonds[k][3], dative)>> : k \in 1..NBonds(m)}]

(* S1: the tables are inverse on what RDKit can express *)
TablesOK == \A dative \in BOOLEAN : \A t \in ExpressibleRd(dative) : FromRd(ToRd(t, dative)) = t
ASSUME TablesOK
ASSUME FromRd(ToRd(8, FALSE)) = 1 /\ FromRd(ToRd(8, TRUE)) = 8
=============================================================================
