------------------------------- MODULE RdkitBridge -------------------------------
(* C18: biotite.interface.rdkit.to_mol / from_mol as far as the property reaches: atoms in the
   same order (element, formal charge), every model <-> one conformer, the two bond-type
   tables, and the OPTIONS of the two calls.  BondType values as in MolFile (0 ANY .. 9 AROMATIC).

   RDKit bond types are strings here: "UNSPECIFIED", "SINGLE", "DOUBLE", "TRIPLE", "QUADRUPLE",
   "AROMATIC", "DATIVE".

   Options (a record o):
     o.eh     to_mol(explicit_hydrogen=...)  "None" | "True" | "False"
     o.kek    to_mol(kekulize=...)           aromatic types are written as their plain orders
     o.dative to_mol(use_dative_bonds=...)   DATIVE for COORDINATION
     o.ah     from_mol(add_hydrogen=...)     "None" | "True" | "False"
     o.conf   from_mol(conformer_id=...)     "all" (None) | "3D" | "first" (0)
   The round trip is the identity on atoms exactly when RDKit has no implicit hydrogen to make
   explicit: every atom was marked "no implicit hydrogens" (explicit_hydrogen=True, or the default
   with a hydrogen atom in the molecule) or from_mol does not add hydrogens (add_hydrogen=False, or
   the default with a hydrogen atom in the molecule).  Otherwise the molecule comes back as a prefix
   of the result - same atoms in the same order, same bonds - followed by the hydrogen atoms RDKit
   adds, each with one SINGLE bond to an atom of the molecule. *)
EXTENDS MolFile

AromaticTypes == {5, 6, 7, 9}
(* domain of the bridge: element symbols RDKit knows (the ones the checks use), formal charges -15..15 *)
RdElements == {T("C"), T("N"), T("O"), T("H"), T("S"), T("P"), T("F"), T("CL"), T("BR"), T("FE"), T("NA"), T("ZN")}
Dom_Rd(m) == Dom_Mol(m) /\ CoordsFinite(m)
             /\ \A i \in 1..NAtoms(m) : m.atoms[i].elem \in RdElements /\ m.atoms[i].chg \in -15..15

(* ------------------------------------------------------------------ options *)
TriState == {"None", "True", "False"}
ConfSel == {"all", "3D", "first"}
Opt(eh, ah, kek, dative, conf) == [eh |-> eh, ah |-> ah, kek |-> kek, dative |-> dative, conf |-> conf]
AllOpts == [eh : TriState, ah : TriState, kek : BOOLEAN, dative : BOOLEAN, conf : ConfSel]
DefaultOpt == Opt("None", "None", FALSE, FALSE, "all")
(* the combination in which RDKit's hydrogen model plays no part, whatever the molecule *)
PlainOpt(dative) == Opt("True", "False", FALSE, dative, "all")

TH == T("H")
HasH(m) == \E i \in 1..NAtoms(m) : UpperText(m.atoms[i].elem) = TH

(* ------------------------------------------------------------------ the two bond-type tables *)
(* to_mol, as documented: _BIOTITE_TO_RDKIT_BOND_TYPE, COORDINATION -> DATIVE iff use_dative_bonds *)
ToRd(t, dative) ==
  CASE t = 0 -> "UNSPECIFIED" [] t = 1 -> "SINGLE" [] t = 2 -> "DOUBLE" [] t = 3 -> "TRIPLE" [] t = 4 -> "QUADRUPLE"
    [] t \in AromaticTypes -> "AROMATIC"
    [] t = 8 -> IF dative THEN "DATIVE" ELSE "SINGLE"
(* from_mol for a bond that is not aromatic: _RDKIT_TO_BIOTITE_BOND_TYPE *)
FromRd(r) ==
  CASE r = "UNSPECIFIED" -> 0 [] r = "SINGLE" -> 1 [] r = "DOUBLE" -> 2 [] r = "TRIPLE" -> 3 [] r = "QUADRUPLE" -> 4
    [] r = "DATIVE" -> 8 [] OTHER -> 0
(* kekulize=True: BondList.remove_aromaticity() before the table is applied *)
Dearom(t) == CASE t = 5 -> 1 [] t = 6 -> 2 [] t = 7 -> 3 [] t = 9 -> 0 [] OTHER -> t
(* the types RDKit can express as they are *)
ExpressibleRd(dative) == {0, 1, 2, 3, 4} \cup (IF dative THEN {8} ELSE {})
(* The types a bond may have after to_mol -> from_mol (declarative).  An aromatic bond returns kekulized
   (AROMATIC_SINGLE / AROMATIC_DOUBLE, RDKit's choice among the valid Kekule structures) or, where
   RDKit cannot kekulize (no ring), as the generic AROMATIC; with kekulize=True it returns as its
   plain order (the generic AROMATIC has none: ANY). *)
RdImagesK(t, dative, kek) ==
  IF t \in AromaticTypes THEN (IF kek THEN {Dearom(t)} ELSE {5, 6, 9}) ELSE {FromRd(ToRd(t, dative))}
RdImages(t, dative) == RdImagesK(t, dative, FALSE)

(* a valid Kekule assignment of a ring whose bonds are all aromatic: every atom of the ring has
   exactly one AROMATIC_DOUBLE bond *)
ValidKekule(n, B) ==
  /\ \A b \in B : b[3] \in {5, 6}
  /\ \A a \in 0..(n - 1) : Cardinality({b \in B : (b[1] = a \/ b[2] = a) /\ b[3] = 6}) = 1
(* the same for the aromatic part of a molecule that has other atoms as well (substituents, hydrogens):
   A = the atoms with an aromatic bond in m, B = the bonds of the result *)
AromaticAtoms(m) == {a \in 0..(NAtoms(m) - 1) : \E k \in 1..NBonds(m) : m.bonds[k][3] \in AromaticTypes /\ (m.bonds[k][1] = a \/ m.bonds[k][2] = a)}
ValidKekuleOn(A, B) ==
  LET R == {b \in B : b[1] \in A /\ b[2] \in A} IN
  /\ \A b \in R : b[3] \in {5, 6}
  /\ \A a \in A : Cardinality({b \in R : (b[1] = a \/ b[2] = a) /\ b[3] = 6}) = 1

(* ------------------------------------------------------------------ the two calls, step by step *)
(* to_mol: the RDKit molecule as far as the round trip depends on it.  noimp = SetNoImplicit(True). *)
RejectedMol == [oc |-> "Rejected", atoms |-> <<>>, bonds |-> <<>>]
ToMol(m, o) ==
  LET hasH == HasH(m)
      explicit == IF o.eh = "None" THEN hasH ELSE o.eh = "True"
  IN IF o.eh = "False" /\ hasH THEN RejectedMol              \* documented BadStructureError
     ELSE [oc |-> "ok",
           atoms |-> [i \in 1..NAtoms(m) |-> [elem |-> UpperText(m.atoms[i].elem), chg |-> m.atoms[i].chg, noimp |-> explicit]],
           bonds |-> [k \in 1..NBonds(m) |->
                        <<m.bonds[k][1], m.bonds[k][2], ToRd(IF o.kek THEN Dearom(m.bonds[k][3]) ELSE m.bonds[k][3], o.dative)>>]]

(* RDKit's count of implicit hydrogens.  It is decided here only for what every chemistry text agrees
   on: a neutral atom of C, N, O, F, Cl, Br whose bonds are plain SINGLE / DOUBLE / TRIPLE bonds within
   its default valence lacks (valence - sum of orders) hydrogens.  Everything else (charged atoms,
   metals, S, P, aromatic / unspecified / dative bonds, exceeded valences) is RDKit's business. *)
Unspecified == -1
DefaultValence(e) ==
  CASE e = T("C") -> 4 [] e = T("N") -> 3 [] e = T("O") -> 2 [] e \in {T("F"), T("CL"), T("BR")} -> 1 [] OTHER -> 0
RdOrder(r) == CASE r = "SINGLE" -> 1 [] r = "DOUBLE" -> 2 [] r = "TRIPLE" -> 3 [] OTHER -> 0
ImplicitHs(rd, i) ==
  LET a == rd.atoms[i]
      at == SelectSeq(rd.bonds, LAMBDA b : b[1] = i - 1 \/ b[2] = i - 1)
      sum == FoldLeft(LAMBDA acc, b : acc + RdOrder(b[3]), 0, at)
  IN IF a.noimp THEN 0
     ELSE IF DefaultValence(a.elem) > 0 /\ a.chg = 0 /\ (\A k \in 1..Len(at) : RdOrder(at[k][3]) > 0) /\ sum <= DefaultValence(a.elem)
          THEN DefaultValence(a.elem) - sum
          ELSE Unspecified

(* from_mol: add_hydrogen (default: iff the Mol has no hydrogen atom), then atoms and bonds in order;
   hs[i] = number of hydrogen atoms appended for atom i (0: none may appear, Unspecified: RDKit decides) *)
FromMol(rd, o) ==
  LET explicitH == \E i \in 1..Len(rd.atoms) : rd.atoms[i].elem = TH           \* _has_explicit_hydrogen
      add == IF o.ah = "None" THEN ~explicitH ELSE o.ah = "True"
  IN [atoms |-> [i \in 1..Len(rd.atoms) |-> [elem |-> rd.atoms[i].elem, chg |-> rd.atoms[i].chg]],
      hs |-> [i \in 1..Len(rd.atoms) |-> IF add THEN ImplicitHs(rd, i) ELSE 0],
      bonds |-> {<<rd.bonds[k][1], rd.bonds[k][2],
                   IF rd.bonds[k][3] = "AROMATIC" THEN {5, 6, 9} ELSE {FromRd(rd.bonds[k][3])}>> : k \in 1..Len(rd.bonds)}]

(* Known-bad input (recorded finding, repaired since): use_dative_bonds=True has no effect, COORDINATION becomes SINGLE *)
KB_Dative(m, dative) == dative /\ \E k \in 1..NBonds(m) : m.bonds[k][3] = 8

(* classes of molecules the hydrogen options distinguish *)
OpenValence(m) ==     \* some atom gets a hydrogen under every option combination in which hydrogens are implicit and added
  LET rd == [oc |-> "ok",
             atoms |-> [i \in 1..NAtoms(m) |-> [elem |-> UpperText(m.atoms[i].elem), chg |-> m.atoms[i].chg, noimp |-> FALSE]],
             bonds |-> [k \in 1..NBonds(m) |-> <<m.bonds[k][1], m.bonds[k][2], ToRd(m.bonds[k][3], TRUE)>>]]
  IN \E i \in 1..NAtoms(m) : ImplicitHs(rd, i) > 0
MolClass(m) == IF HasH(m) THEN "hasH" ELSE IF OpenValence(m) THEN "noH-open" ELSE "noH-other"

(* expected result of to_mol(m as a stack of nmodels models, o) -> from_mol(o): the molecule is the
   prefix of the result; all selected models, atoms in order, bonds with their image sets *)
ExpectRdOpt(m, nmodels, o) ==
  Bind(ToMol(m, o), LAMBDA rd :
    IF rd.oc = "Rejected"
    THEN [oc |-> "Rejected", nmodels |-> 0, stack |-> FALSE, kb |-> {}, atoms |-> <<>>, hs |-> <<>>, bonds |-> {}, cls |-> MolClass(m)]
    ELSE Bind(FromMol(rd, o), LAMBDA r :
      [oc |-> "ok",
       nmodels |-> IF o.conf = "first" THEN 1 ELSE nmodels,          \* every model is one 3D conformer
       stack |-> o.conf # "first",                                   \* an integer id returns an AtomArray
       kb |-> IF KB_Dative(m, o.dative) THEN {"Dative"} ELSE {},
       atoms |-> r.atoms, hs |-> r.hs, bonds |-> r.bonds, cls |-> MolClass(m)]))
ExpectRd(m, nmodels, dative) == ExpectRdOpt(m, nmodels, PlainOpt(dative))

(* ------------------------------------------------------------------ declarative statements (S1) *)
(* when the round trip has to be the identity on atoms and when the call is refused, per option combination *)
RefusalExpected(m, o) == o.eh = "False" /\ HasH(m)
IdentityExpected(m, o) == o.eh = "True" \/ HasH(m) \/ o.ah = "False"
OptionTableOK(m, nmodels, o, x) ==
  /\ (x.oc = "Rejected") <=> RefusalExpected(m, o)
  /\ x.oc = "ok" =>
       /\ Len(x.atoms) = NAtoms(m) /\ Len(x.hs) = NAtoms(m)
       /\ \A i \in 1..NAtoms(m) : x.atoms[i] = [elem |-> UpperText(m.atoms[i].elem), chg |-> m.atoms[i].chg]
       /\ IdentityExpected(m, o) => \A i \in 1..NAtoms(m) : x.hs[i] = 0
       \* where hydrogens are implicit and added, an open valence of the organic subset is filled
       /\ (~IdentityExpected(m, o) /\ MolClass(m) = "noH-open") => \E i \in 1..NAtoms(m) : x.hs[i] > 0
       /\ x.bonds = {<<m.bonds[k][1], m.bonds[k][2], RdImagesK(m.bonds[k][3], o.dative, o.kek)>> : k \in 1..NBonds(m)}
       /\ x.nmodels = (IF o.conf = "first" THEN 1 ELSE nmodels)

(* S1: the tables are inverse on what RDKit can express; kekulize=True maps the aromatic orders to plain ones *)
TablesOK == \A dative \in BOOLEAN : \A t \in ExpressibleRd(dative) : FromRd(ToRd(t, dative)) = t
ASSUME TablesOK
ASSUME FromRd(ToRd(8, FALSE)) = 1 /\ FromRd(ToRd(8, TRUE)) = 8
ASSUME RdImagesK(5, FALSE, TRUE) = {1} /\ RdImagesK(6, FALSE, TRUE) = {2} /\ RdImagesK(7, FALSE, TRUE) = {3} /\ RdImagesK(9, FALSE, TRUE) = {0}
ASSUME \A t \in 0..9 : \A d \in BOOLEAN : RdImagesK(t, d, FALSE) = RdImages(t, d)
=============================================================================
