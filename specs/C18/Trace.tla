------------------------------- MODULE Trace -------------------------------
(* C18 direction B: executions recorded from the real MOLFile / SDFile / RDKit bridge are
   re-computed by TLC.  TRACE_FILE is a JSON array of traces, a trace an array of events:
     {op: "ctab", m, version, dflt, oc, lines, back}
         MOLFile.set_structure(m, default_bond_type=dflt, version) -> lines (behind the 3 header lines)
         -> MOLFile.read -> get_structure -> back = {ok, atoms: [{elem, xyz, chg}], bonds: [[i, j, t]]}
     {op: "rd", m, nmodels, opt: {eh, ah, kek, dative, conf}, ring, oc, back}
         to_mol(stack of nmodels models, explicit_hydrogen=eh, kekulize=kek, use_dative_bonds=dative)
         -> from_mol(add_hydrogen=ah, conformer_id=conf) -> back = {nmodels, stack, atoms: [{elem, chg}], bonds, coords_same}
         (all atoms and bonds of the result; coords_same: the first Len(m.atoms) atoms of every model have the
         coordinates they were given)
     {op: "sd", recs, oc, lines, back}
         SDFile of the records (header, ctab lines, metadata) -> serialize -> lines
         -> SDFile.deserialize -> back = [{header, ctab, meta: {ok, items}, mol}]
     {op: "hist", recs, loaded, calls, obs}
         an SDFile of the records (read back from its own text first if loaded), then the calls of SdHist
         one by one (calls[k] = {c: name, ...arguments}); obs[k] = {oc, keys, back} after call k:
         keys = list(file.keys()), back = the records of SDFile.deserialize(file.serialize()) as for "sd"
   Texts are lists of characters.  A disagreement prints <<"MISMATCH", tid, l, flags, kb, ...>>. *)
EXTENDS RdkitBridge, SdHist, Json, IOUtils, TLC

Tr == JsonDeserialize(IOEnv.TRACE_FILE)
VARIABLES tid, l
tvars == <<tid, l>>

MolEq(g, x) ==          \* logged molecule (bonds as a list) against the expected one (bonds as a set)
  /\ g.ok = x.ok /\ Len(g.atoms) = Len(x.atoms)
  /\ \A i \in DOMAIN x.atoms : i \in DOMAIN g.atoms /\ g.atoms[i].elem = x.atoms[i].elem /\ g.atoms[i].xyz = x.atoms[i].xyz
                               /\ g.atoms[i].chg = x.atoms[i].chg
  /\ ToSet(g.bonds) = x.bonds /\ Len(g.bonds) = Cardinality(x.bonds)

JudgeCtab(ev) == Bind(ExpectCtab(ev.m, ev.version, ev.dflt), LAMBDA e :
  LET isAlt == e.alt # <<>> /\ ev.oc = "ok" /\ ev.lines = e.alt        \* V3000 chosen where V2000 does not fit
      okOc == ev.oc = e.oc \/ (e.lenient /\ ev.oc = "Rejected") \/ isAlt
      both == ev.oc = "ok" /\ e.oc = "ok"
      v2000 == both /\ VersionOf(e.lines[1]) = T("V2000")
      okLines == (v2000 => ev.lines = e.lines)                          \* fixed columns: character by character
                 /\ ((both /\ ~v2000) => (VersionOf(ev.lines[1]) = T("V3000") /\ ReadCtab(ev.lines) = e.back))
      exact3000 == (both /\ ~v2000) => ev.lines = e.lines              \* diagnostic only
      okBack == (both /\ okLines /\ e.dom) => MolEq(ev.back, e.back)
      flags == <<okOc, okLines, okBack>>
  IN /\ (flags = <<TRUE, TRUE, TRUE>> \/ PrintT(<<"MISMATCH", tid, l + 1, flags, e.kb, e.oc>>))
     /\ (exact3000 \/ PrintT(<<"DIAG", tid, l + 1, "v3000-lines-differ">>)))

(* the molecule is the prefix of the result; behind it only the hydrogen atoms RDKit makes explicit:
   element H, no charge, exactly one bond, a SINGLE bond to an atom of the molecule; their number per
   atom is the spec's hs (0 wherever the option table demands the identity, Unspecified = RDKit decides) *)
JudgeRd(ev) ==
  Bind(ExpectRdOpt(ev.m, ev.nmodels, ev.opt), LAMBDA x :
  LET g == ev.back
      n == NAtoms(ev.m)
      gb == ToSet(g.bonds)
      inner == {c \in gb : c[1] < n /\ c[2] < n}
      okOc == ev.oc = x.oc
      both == ev.oc = "ok" /\ x.oc = "ok"
      okAtoms == both => (/\ g.nmodels = x.nmodels /\ g.stack = x.stack /\ g.coords_same /\ Len(g.atoms) >= Len(x.atoms)
                          /\ \A i \in DOMAIN x.atoms : g.atoms[i].elem = x.atoms[i].elem /\ g.atoms[i].chg = x.atoms[i].chg)
      okHs == (both /\ okAtoms) =>
                /\ \A e \in (n + 1)..Len(g.atoms) :
                     /\ g.atoms[e].elem = TH /\ g.atoms[e].chg = 0
                     /\ LET at == {c \in gb : c[1] = e - 1 \/ c[2] = e - 1} IN
                        Cardinality(at) = 1 /\ \A c \in at : c[3] = 1 /\ c[1] < n
                /\ \A i \in 1..n : x.hs[i] # Unspecified =>
                     Cardinality({c \in gb : c[1] = i - 1 /\ c[2] >= n}) = x.hs[i]
      okBonds == both =>
                   /\ Len(g.bonds) = Cardinality(gb)
                   /\ Cardinality(inner) = Cardinality(x.bonds)
                   /\ \A b \in x.bonds : \E c \in inner : c[1] = b[1] /\ c[2] = b[2] /\ c[3] \in b[3]
      okRing == (both /\ ev.ring /\ ~ev.opt.kek) => ValidKekuleOn(AromaticAtoms(ev.m), inner)
      flags == <<okOc, okAtoms, okHs, okBonds, okRing>>
  IN flags = <<TRUE, TRUE, TRUE, TRUE, TRUE>> \/ PrintT(<<"MISMATCH", tid, l + 1, flags, x.kb, x.oc, x.bonds, x.hs>>))

JudgeSd(ev) ==
  LET recs == [k \in DOMAIN ev.recs |-> [header |-> ev.recs[k].header, ctab |-> ev.recs[k].ctab, meta |-> ev.recs[k].meta]] IN
  Bind(SerializeFile(recs), LAMBDA w :
  LET dom == Dom_File(recs)
      okOc == ev.oc = w.oc
      both == ev.oc = "ok" /\ w.oc = "ok"
      \* the reference text, blank-insensitive at line ends: a diagnostic (the property asks for the
      \* content to survive; only the V2000 ctab lines are column-bound, and those are judged as "ctab" events)
      okLines == (both /\ dom) => [i \in DOMAIN ev.lines |-> RStrip(ev.lines[i])] = [i \in DOMAIN w.lines |-> RStrip(w.lines[i])]
      x == AbstractFile(recs)
      g == ev.back
      okNames == (both /\ dom) => (Len(g) = Len(x) /\ \A k \in DOMAIN x : g[k].header.mol_name = x[k].header.mol_name)
      okHeader == (both /\ dom /\ okNames) => \A k \in DOMAIN x : g[k].header = x[k].header
      okMeta == (both /\ dom /\ okNames) => \A k \in DOMAIN x : g[k].meta.ok /\ g[k].meta.items = x[k].meta.items
      okCtab == (both /\ dom /\ okNames) => \A k \in DOMAIN x : g[k].ctab = x[k].ctab /\ MolEq(g[k].mol, ReadCtab(x[k].ctab))
      flags == <<okOc, okNames, okHeader, okMeta, okCtab>>
  IN /\ (flags = <<TRUE, TRUE, TRUE, TRUE, TRUE>> \/ PrintT(<<"MISMATCH", tid, l + 1, flags, {}, w.oc>>))
     /\ (okLines \/ PrintT(<<"DIAG", tid, l + 1, "sd-lines-differ">>)))

(* a recorded history: every call is applied to the specified mapping, every observation compared *)
JudgeHist(ev) ==
  Bind(FoldLeft(LAMBDA acc, r : PutKey(acc, r.header.mol_name, [header |-> r.header, ctab |-> r.ctab, meta |-> r.meta]),
                <<>>, ev.recs), LAMBDA init :
  Bind(FoldLeft(LAMBDA acc, c : LET cur == IF Len(acc) = 0 THEN init ELSE acc[Len(acc)].file IN
                                Append(acc, IF Dom_Call(cur, c) THEN ApplyCall(cur, c) ELSE [oc |-> "outside", file |-> cur]),
                <<>>, ev.calls), LAMBDA res :
  LET FlagsAt(k) ==
        LET x == res[k].file
            g == ev.obs[k]
            dom == Dom_Hist(x) /\ res[k].oc # "outside"
            okOc == dom => g.oc = res[k].oc
            okKeys == dom => g.keys = KeysOf(x)
            okNames == dom => (Len(g.back) = Len(x) /\ \A n \in DOMAIN x : g.back[n].header.mol_name = x[n].key)
            okHeader == (dom /\ okNames) => \A n \in DOMAIN x : g.back[n].header = x[n].rec.header
            okMeta == (dom /\ okNames) => \A n \in DOMAIN x : g.back[n].meta.ok /\ g.back[n].meta.items = x[n].rec.meta
            okCtab == (dom /\ okNames) => \A n \in DOMAIN x : g.back[n].ctab = x[n].rec.ctab /\ MolEq(g.back[n].mol, ReadCtab(x[n].rec.ctab))
        IN <<okOc, okKeys, okNames, okHeader, okMeta, okCtab>>
      bad == {k \in 1..Len(ev.calls) : FlagsAt(k) # <<TRUE, TRUE, TRUE, TRUE, TRUE, TRUE>>}
      outside == {k \in 1..Len(ev.calls) : res[k].oc = "outside"}
  IN /\ Len(ev.obs) = Len(ev.calls)
     /\ (bad = {} \/ LET k == CHOOSE k \in bad : \A q \in bad : k <= q IN
                     PrintT(<<"MISMATCH", tid, l + 1, FlagsAt(k), {}, res[k].oc, k>>))
     /\ (outside = {} \/ PrintT(<<"DIAG", tid, l + 1, "hist-call-outside-domain">>))))

Init == tid \in 1..Len(Tr) /\ l = 0
Next == /\ l < Len(Tr[tid])
        /\ l' = l + 1
        /\ UNCHANGED tid
        /\ LET ev == Tr[tid][l + 1] IN
           CASE ev.op = "ctab" -> JudgeCtab(ev)
             [] ev.op = "rd" -> JudgeRd(ev)
             [] ev.op = "sd" -> JudgeSd(ev)
             [] ev.op = "hist" -> JudgeHist(ev)
Spec == Init /\ [][Next]_tvars
=============================================================================
