SPECIFICATION Spec
CONSTANTS
  Rich = FALSE
  BigCounts = {999, 1000}
  DenseCounts <- DenseQuick
INVARIANT InvRoundTrip
INVARIANT InvColumns
INVARIANT InvVersion
INVARIANT InvAcceptance
INVARIANT InvBondImage
CHECK_DEADLOCK FALSE
