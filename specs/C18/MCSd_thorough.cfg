SPECIFICATION Spec
CONSTANTS
  Rich = TRUE
INVARIANT InvRoundTrip
INVARIANT InvNames
INVARIANT InvHeaderWidth
INVARIANT InvKeys
CHECK_DEADLOCK FALSE
