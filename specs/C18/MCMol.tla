------------------------------- MODULE MCMol -------------------------------
(* C18, S1 for connection tables and the RDKit bridge.  Inputs <<m, version, dflt>>:
   (a) one atom: element classes x coordinate classes (each axis), charges -15..15 and beyond;
   (b) two atoms, one bond of every type x default types;
   (c) three atoms, two bonds: all type pairs over three topologies;
   (d) 9 / 17 charged atoms among uncharged ones (continuation of "M  CHG");
   (e) chains of 998..1001 atoms and 999 atoms with 1000 bonds (version switch);
   (f) few atoms with 999..1001 bonds (DenseCounts): the two counts of the counts line are limited
       independently, so each is taken across the limit while the other stays far below it.
   Every input with version in {"None", "V2000", "V3000"}.  Per input (two steps, so that the
   workers share the work): out = [ctab, rd] once done. *)
EXTENDS RdkitBridge, TLC

CONSTANTS Rich, BigCounts,     \* BigCounts: the atom counts of (e)
          DenseCounts          \* <<atoms, bonds>> of (f)

(* values for DenseCounts (a cfg file cannot hold tuples) *)
DenseQuick == {<<46, 999>>, <<46, 1000>>, <<60, 1001>>}
DenseThorough == DenseQuick \cup {<<45, 990>>, <<100, 1000>>, <<200, 1203>>}

VARIABLES inp, out, done
vars == <<inp, out, done>>

R(n, d) == <<n, d>>
Z3 == <<R(0, 1), R(0, 1), R(0, 1)>>
CoordClasses ==
  { R(0, 1), R(1, 16), R(1, 32), R(3, 32), R(-1, 65536), R(-5, 4),
    R(12799999, 128),          \* 99999.9921875, the largest float32 below 100000 -> "99999.9922"
    R(12800000, 128),          \* 100000: six digits
    R(-10239999, 1024),        \* -9999.9990234375 -> "-9999.9990"
    R(-10240000, 1024),        \* -10000: six characters
    R(-19999, 2),
    R(0, 0), R(1, 0), R(-1, 0) }
ElemClasses == {T("C"), T("CL"), T("N"), T("ABC"), T("ABCD"), <<>>, T("c")}
ChargeClasses == (-15..15) \cup {-100, -99, 99, 100, 999, 1000}
Atom(e, xyz, q) == [elem |-> e, xyz |-> xyz, chg |-> q]
At(k, v) == [j \in 1..3 |-> IF j = k THEN v ELSE R(0, 1)]
Mol(atoms, bonds) == [atoms |-> atoms, bonds |-> bonds]
P(i) == <<R(3 * i, 2), R(-i, 4), R(i, 16)>>

Versions == {"None", "V2000", "V3000"}
Types == 0..9

Single ==
       {Mol(<<Atom(e, At(k, v), 0)>>, <<>>) : e \in {T("C")}, k \in 1..3, v \in CoordClasses}
  \cup {Mol(<<Atom(e, P(1), 0)>>, <<>>) : e \in ElemClasses}
  \cup {Mol(<<Atom(T("N"), P(2), q)>>, <<>>) : q \in ChargeClasses}
Pairs ==
  {Mol(<<Atom(T("C"), P(1), 1), Atom(T("O"), P(2), -1)>>, <<<<0, 1, t>>>>) : t \in Types}
Triples ==
  {Mol(<<Atom(T("C"), P(1), 0), Atom(T("N"), P(2), 2), Atom(T("FE"), P(3), -4)>>, <<<<b1[1], b1[2], t1>>, <<b2[1], b2[2], t2>>>>) :
     t1 \in IF Rich THEN Types ELSE {0, 1, 4, 9}, t2 \in IF Rich THEN Types ELSE {2, 5, 8},
     b1 \in {<<0, 1>>}, b2 \in {<<1, 2>>, <<0, 2>>}}
  \cup {Mol(<<Atom(T("C"), P(1), 0), Atom(T("N"), P(2), 2), Atom(T("FE"), P(3), -4)>>, <<<<0, 2, 1>>, <<1, 2, 3>>>>)}
ChargedRun(n, every) ==
  Mol([i \in 1..n |-> Atom(T("C"), P(i), IF i % every = 0 THEN 0 ELSE ((i * 7) % 31) - 15)],
      [i \in 1..(n - 1) |-> <<i - 1, i, 1>>])
Many == {ChargedRun(10, 10), ChargedRun(12, 4), ChargedRun(20, 7), ChargedRun(8, 9), ChargedRun(9, 10)}
Chain(n, nb) ==
  Mol([i \in 1..n |-> Atom(IF i % 2 = 0 THEN T("C") ELSE T("O"), <<R(i, 4), R(-i, 8), R(0, 1)>>, IF i % 250 = 0 THEN -1 ELSE 0)],
      [k \in 1..nb |-> IF k < n THEN <<k - 1, k, 1 + (k % 3)>> ELSE <<k - n, k - n + 2, 1>>])
Big == {Chain(n, n - 1) : n \in BigCounts} \cup (IF 999 \in BigCounts THEN {Chain(999, 1000)} ELSE {})
(* the first nb pairs i < j in lexicographic order: any number of bonds up to n (n - 1) / 2 on n atoms *)
PairSeq(n) == Flat([i \in 1..(n - 1) |-> [d \in 1..(n - i) |-> <<i - 1, i - 1 + d>>]])
Dense(n, nb) ==
  Bind(PairSeq(n), LAMBDA ps :
    Mol([i \in 1..n |-> Atom(IF i % 3 = 0 THEN T("N") ELSE T("C"), <<R(i, 2), R(-i, 8), R(i, 16)>>, IF i % 20 = 0 THEN 1 ELSE 0)],
        [k \in 1..nb |-> <<ps[k][1], ps[k][2], 1 + (k % 3)>>]))
ASSUME \A c \in DenseCounts : 2 * c[2] <= c[1] * (c[1] - 1)
DenseMols == {Dense(c[1], c[2]) : c \in DenseCounts}

Inputs ==
       {<<m, v, 0>> : m \in Single \cup Many \cup Big \cup DenseMols, v \in Versions}
  \cup {<<m, v, d>> : m \in Pairs \cup Triples, v \in Versions, d \in IF Rich THEN {0, 1, 9} ELSE {0, 1}}

Pending == [ctab |-> [oc |-> "pending", lines |-> <<>>, back |-> EmptyBack, alt |-> <<>>, kb |-> {}, lenient |-> FALSE, dom |-> FALSE],
            rd |-> <<>>]
Init == inp \in Inputs /\ out = Pending /\ done = FALSE
Next == /\ ~done /\ done' = TRUE /\ UNCHANGED inp
        /\ out' = [ctab |-> ExpectCtab(inp[1], inp[2], inp[3]),
                   \* the bridge is asked for small molecules of valid elements only, with 2 models
                   rd |-> IF NAtoms(inp[1]) <= 3 /\ inp[2] = "None" /\ Dom_Rd(inp[1])
                          THEN <<ExpectRd(inp[1], 2, FALSE), ExpectRd(inp[1], 2, TRUE)>> ELSE <<>>]
Spec == Init /\ [][Next]_vars

InvRoundTrip == done => RoundTripOK(inp[1], inp[3], out.ctab)
InvColumns == done => ColumnsOK(inp[1], inp[3], out.ctab)
InvVersion == done => VersionOK(inp[1], inp[2], out.ctab)
InvAcceptance == done => AcceptanceOK(inp[1], inp[2], inp[3], out.ctab)
(* every expressible type returns unchanged, every other type as the default type *)
InvBondImage ==
  (done /\ out.ctab.oc = "ok" /\ Dom_Mol(inp[1])) =>
     \A k \in 1..NBonds(inp[1]) :
        LET b == inp[1].bonds[k] IN
        <<b[1], b[2], IF b[3] \in Expressible THEN b[3] ELSE BondImage(inp[3], inp[3])>> \in out.ctab.back.bonds
=============================================================================
