------------------------------- MODULE MCHist -------------------------------
(* C18, S1 / S2 for histories of an SDFile (SdHist).  A state machine: `file` is the mapping,
   `forms[i] = <<record, header, metadata>>` says which parts of record i are still the text they
   were read as ("text") and which are objects ("obj") - the representation the implementation
   keeps; it takes no part in any value.  Every call of AllCalls that is enabled is taken from every
   state up to Depth calls; the state graph is dumped and every transition is replayed against the
   real SDFile (S2).

   Initial states: the same two-record file freshly built (all "obj") and as read from its text
   (all "text"). *)
EXTENDS SdHist, TLC

CONSTANTS Depth, MaxRecs, Rich

VARIABLES file, forms, oc
vars == <<file, forms, oc>>

(* ------------------------------------------------------------------ the alphabet *)
R(n, d) == <<n, d>>
MolA == [atoms |-> <<[elem |-> T("O"), xyz |-> <<R(0, 1), R(0, 1), R(0, 1)>>, chg |-> 0]>>, bonds |-> <<>>]
MolB == [atoms |-> <<[elem |-> T("C"), xyz |-> <<R(3, 2), R(-1, 4), R(0, 1)>>, chg |-> -1],
                     [elem |-> T("N"), xyz |-> <<R(0, 1), R(1, 16), R(5, 1)>>, chg |-> 0]>>,
         bonds |-> <<<<0, 1, 2>>>>]
CtabA == WriteCtab(MolA, "None", 0).lines
CtabB == WriteCtab(MolB, "V3000", 0).lines

NameA == T("A")
NameB == T("B")
NameC == T("m 1")
Names == {NameA, NameB, NameC}

K1 == [number |-> <<>>, name |-> <<T("first")>>, regint |-> <<>>, regext |-> <<>>]
K2 == [number |-> <<2>>, name |-> <<T("x.y")>>, regint |-> <<42>>, regext |-> <<T("CAS-1")>>]
V1 == <<T("v")>>
V2 == <<T("1.5"), T("second line")>>

Hdr(name) == [mol_name |-> name, initials |-> <<>>, program |-> <<>>, time |-> <<>>, dimensions |-> <<>>,
              scaling |-> <<>>, energy |-> <<>>, registry |-> <<>>, comments |-> <<>>]
FullHdr(name) == [mol_name |-> name, initials |-> T("AB"), program |-> T("my prog"), time |-> << <<12, 31, 99, 23, 59>> >>,
                  dimensions |-> T("3D"), scaling |-> T("1"), energy |-> T("-12.5"), registry |-> T("123456"),
                  comments |-> T("a comment")]
Rec(h, ctab, md) == [header |-> h, ctab |-> ctab, meta |-> md]

File0 == PutKey(PutKey(<<>>, NameA, Rec(FullHdr(NameA), CtabA, <<<<K1, V1>>>>)), NameB, Rec(Hdr(NameB), CtabB, <<>>))
(* the record that is inserted carries another name than the key it is stored under *)
Proto == Rec([FullHdr(T("Molecule")) EXCEPT !.comments = T("inserted")], CtabA, <<<<K2, V2>>, <<K1, V1>>>>)

FieldValue(f) ==
  CASE f = "initials" -> T("Z") [] f = "program" -> T("p2") [] f = "time" -> << <<2, 29, 24, 13, 37>> >>
    [] f = "dimensions" -> T("2D") [] f = "scaling" -> T("0.5") [] f = "energy" -> T("7") [] f = "registry" -> T("9")
    [] f = "comments" -> T("c 2")
Fields == IF Rich THEN HeaderFields ELSE {"program", "time", "comments"}
Idx == 1..MaxRecs

NewHdrValue == [Hdr(<<>>) EXCEPT !.program = T("new"), !.comments = T("replaced")]
NewMetaValue == <<<<K2, V1>>>>

(* calls are tuples with the discriminating parts first (TLC compares tuples element by element) *)
AllCalls ==
       {<<"Reload">>}
  \cup {<<"Touch", w, i>> : w \in {"record", "header", "meta"}, i \in Idx}
  \cup {<<"Move", i, n>> : i \in Idx, n \in Names}
  \cup {<<"Insert", p, n, Proto>> : p \in {"fresh", "parsed"}, n \in Names}
  \cup {<<"Delete", i>> : i \in Idx}
  \cup {<<"SetField", f, i, FieldValue(f)>> : f \in Fields, i \in Idx}
  \cup {<<"NewHeader", i, NewHdrValue>> : i \in Idx}
  \cup {<<"SetMeta", i, k, v>> : i \in Idx, k \in {K1, K2}, v \in {V2, <<>>}}
  \cup {<<"DelMeta", i, k>> : i \in Idx, k \in {K1, K2}}
  \cup {<<"NewMeta", i, NewMetaValue>> : i \in Idx}
  \cup {<<"SetStructure", v, i, IF v = "None" THEN MolB ELSE MolA>> : v \in {"None", "V3000"}, i \in Idx}

AsRec(c) ==
  CASE c[1] = "Reload" -> [c |-> "Reload"]
    [] c[1] = "Touch" -> [c |-> "Touch", what |-> c[2], i |-> c[3]]
    [] c[1] = "Move" -> [c |-> "Move", i |-> c[2], name |-> c[3]]
    [] c[1] = "Insert" -> [c |-> "Insert", how |-> c[2], name |-> c[3], rec |-> c[4]]
    [] c[1] = "Delete" -> [c |-> "Delete", i |-> c[2]]
    [] c[1] = "SetField" -> [c |-> "SetField", field |-> c[2], i |-> c[3], value |-> c[4]]
    [] c[1] = "NewHeader" -> [c |-> "NewHeader", i |-> c[2], header |-> c[3]]
    [] c[1] = "SetMeta" -> [c |-> "SetMeta", i |-> c[2], key |-> c[3], value |-> c[4]]
    [] c[1] = "DelMeta" -> [c |-> "DelMeta", i |-> c[2], key |-> c[3]]
    [] c[1] = "NewMeta" -> [c |-> "NewMeta", i |-> c[2], meta |-> c[3]]
    [] c[1] = "SetStructure" -> [c |-> "SetStructure", version |-> c[2], i |-> c[3], m |-> c[4]]

(* ------------------------------------------------------------------ the representation (no value depends on it) *)
Obj == "obj"
Txt == "text"
FormsPut(fm, fl, k, f) ==          \* the forms after file[k] = record with forms f (fl: the mapping before)
  IF HasKey(fl, k) THEN [i \in DOMAIN fm |-> IF fl[i].key = k THEN f ELSE fm[i]] ELSE Append(fm, f)
WithRec(fm, i) == [fm EXCEPT ![i][1] = Obj]
WithHdr(fm, i) == [fm EXCEPT ![i][1] = Obj, ![i][2] = Obj]
WithMeta(fm, i) == [fm EXCEPT ![i][1] = Obj, ![i][3] = Obj]
FormsAfter(c) ==
  CASE c.c = "Reload" -> [i \in DOMAIN file |-> <<Txt, Txt, Txt>>]
    [] c.c = "Touch" -> (CASE c.what = "record" -> WithRec(forms, c.i) [] c.what = "header" -> WithHdr(forms, c.i)
                           [] c.what = "meta" -> WithMeta(forms, c.i))
    [] c.c = "Move" -> FormsPut(DelAt(forms, c.i), DelAt(file, c.i), c.name, <<Obj, Obj, forms[c.i][3]>>)
    [] c.c = "Insert" -> FormsPut(forms, file, c.name, <<Obj, Obj, IF c.how = "parsed" THEN Txt ELSE Obj>>)
    [] c.c = "Delete" -> DelAt(forms, c.i)
    [] c.c \in {"SetField", "NewHeader"} -> WithHdr(forms, c.i)
    [] c.c \in {"SetMeta", "DelMeta", "NewMeta"} -> WithMeta(forms, c.i)
    [] c.c = "SetStructure" -> WithRec(forms, c.i)

(* bounds of the configuration, beyond Dom_Call *)
Enabled(c) ==
  /\ Dom_Call(file, c)
  /\ c.c = "Touch" => forms[c.i] # <<Obj, Obj, Obj>>                      \* otherwise nothing is left to look at
  /\ c.c = "Insert" => (Len(file) < MaxRecs \/ HasKey(file, c.name))

Call(t) ==
  /\ TLCGet("level") <= Depth            \* at most Depth calls
  /\ LET c == AsRec(t) IN
     /\ Enabled(c)
     /\ LET res == ApplyCall(file, c) IN
        /\ oc' = res.oc
        /\ file' = res.file
        /\ forms' = FormsAfter(c)

Init == /\ file = File0
        /\ oc = "ok"
        /\ forms \in {[i \in DOMAIN File0 |-> <<Obj, Obj, Obj>>], [i \in DOMAIN File0 |-> <<Txt, Txt, Txt>>]}
Next == \E c \in AllCalls : Call(c)
Spec == Init /\ [][Next]_vars

(* ------------------------------------------------------------------ S1 *)
InvDomain == Len(file) >= 1 /\ Len(file) <= MaxRecs /\ Dom_Hist(file) /\ Len(forms) = Len(file)
InvStable == StableOK(file)
InvStructures == StructuresOK(file)
=============================================================================
