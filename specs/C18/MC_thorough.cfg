SPECIFICATION Spec
CONSTANTS
  Rich = TRUE
  BigCounts = {998, 999, 1000, 1001}
  DenseCounts <- DenseThorough
INVARIANT InvRoundTrip
INVARIANT InvColumns
INVARIANT InvVersion
INVARIANT InvAcceptance
INVARIANT InvBondImage
CHECK_DEADLOCK FALSE
