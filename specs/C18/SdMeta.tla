------------------------------- MODULE SdMeta -------------------------------
(* C18: the parts of an SD file around the connection tables: the three header lines, the
   metadata (data items) with their key grammar, records and the "$$$$" delimiter.

   Header    h = [mol_name, initials, program, time, dimensions, scaling, energy, registry, comments]
             (texts; time = <<>> or << <<month, day, year mod 100, hour, minute>> >>)
   Key       k = [number, name, regint, regext], each component <<>> (absent) or <<v>>;
             number / regint are naturals, name / regext texts; number or name must be present
   Metadata  Seq(<<key, value>>), value = Seq(line) (at least one line)
   Record    [header, ctab : Seq(line), meta]            (ctab lines come from MolFile!WriteCtab)
   File      Seq(record), names (header.mol_name) pairwise different

   SerializeX / DeserializeX are shaped like the methods of Header, Metadata.Key, Metadata,
   SDRecord and SDFile; lines are texts, a file is a sequence of lines. *)
EXTENDS FixedCols

(* ------------------------------------------------------------------ header *)
(* f"{value:>w.w}": right-justified to w, truncated to the first w characters *)
RTrunc(s, w) == RJust(SubSeq(s, 1, IF Len(s) < w THEN Len(s) ELSE w), w)
TimeText(t) == IF t = <<>> THEN <<>>
               ELSE Flat([k \in 1..5 |-> ZeroPad(t[1][k], 2)])                 \* strftime("%m%d%y%H%M")
HeaderLine2(h) ==
  RTrunc(h.initials, 2) \o RTrunc(h.program, 8) \o RTrunc(TimeText(h.time), 10) \o RTrunc(h.dimensions, 2)
    \o RTrunc(h.scaling, 12) \o RTrunc(h.energy, 12) \o RTrunc(h.registry, 6)
SerializeHeader(h) ==
  IF Len(h.mol_name) > 80 THEN [oc |-> "Rejected", lines |-> <<>>]
  ELSE [oc |-> "ok", lines |-> <<h.mol_name, HeaderLine2(h), h.comments>>]

ParseTime(s) ==              \* 10 digits mmddyyHHMM; blank -> None
  IF IsBlank(s) THEN <<>>
  ELSE IF Len(s) = 10 /\ AllDigits(s) THEN << [k \in 1..5 |-> NatVal(SubSeq(s, 2 * k - 1, 2 * k))] >>
  ELSE <<>>                  \* invalid time: None, with a warning
DeserializeHeader(lines) ==
  LET l2 == LJust(lines[2], 52) IN
  [mol_name |-> Strip(lines[1]),
   initials |-> Strip(Cols(l2, 1, 2)), program |-> Strip(Cols(l2, 3, 10)), time |-> ParseTime(Cols(l2, 11, 20)),
   dimensions |-> Strip(Cols(l2, 21, 22)), scaling |-> Strip(Cols(l2, 23, 34)), energy |-> Strip(Cols(l2, 35, 46)),
   registry |-> Strip(Cols(l2, 47, 52)), comments |-> Strip(lines[3])]

Stripped(s) == s = Strip(s)
(* domain of "the header survives unchanged": every field within its width and without outer blanks,
   a time of day at minute precision (seconds and the century are not part of the format) *)
Dom_Header(h) ==
  /\ Len(h.mol_name) <= 80 /\ Len(h.initials) <= 2 /\ Len(h.program) <= 8 /\ Len(h.dimensions) <= 2
  /\ Len(h.scaling) <= 12 /\ Len(h.energy) <= 12 /\ Len(h.registry) <= 6
  /\ Stripped(h.mol_name) /\ Stripped(h.initials) /\ Stripped(h.program) /\ Stripped(h.dimensions)
  /\ Stripped(h.scaling) /\ Stripped(h.energy) /\ Stripped(h.registry) /\ Stripped(h.comments)

(* ------------------------------------------------------------------ metadata keys *)
NameFirst == DigitSet \cup UpperLetters \cup LowerLetters
NameRest == NameFirst \cup {"_", "."}
ExtChars == NameRest \cup {"-"}
ValidName(s) == Len(s) >= 1 /\ s[1] \in NameFirst /\ \A i \in 2..Len(s) : s[i] \in NameRest       \* _NAME_INPUT_REGEX
ValidExt(s) == \A i \in 1..Len(s) : s[i] \in ExtChars
Absent(c) == c = <<>>
ValidKey(k) == (~Absent(k.number) \/ ~Absent(k.name)) /\ (Absent(k.name) \/ ValidName(k.name[1]))
(* the key grammar of the format also restricts the external registry part *)
Dom_Key(k) == ValidKey(k) /\ (Absent(k.regext) \/ ValidExt(k.regext[1]))

(* Key.serialize: "> DTn <name> n (ext) " *)
SerializeKey(k) ==
  T("> ") \o (IF Absent(k.number) THEN <<>> ELSE T("DT") \o NatText(k.number[1]) \o <<" ">>)
          \o (IF Absent(k.name) THEN <<>> ELSE <<"<">> \o k.name[1] \o T("> "))
          \o (IF Absent(k.regint) THEN <<>> ELSE NatText(k.regint[1]) \o <<" ">>)
          \o (IF Absent(k.regext) THEN <<>> ELSE <<"(">> \o k.regext[1] \o T(") "))

(* Key.deserialize: the blank-separated components behind '>' are classified by their shape *)
CompKind(c) ==
  IF Len(c) >= 3 /\ c[1] = "D" /\ c[2] = "T" /\ AllDigits(SubSeq(c, 3, Len(c))) THEN "number"
  ELSE IF Len(c) >= 3 /\ c[1] = "<" /\ c[Len(c)] = ">" /\ ValidName(SubSeq(c, 2, Len(c) - 1)) THEN "name"
  ELSE IF AllDigits(c) THEN "regint"
  ELSE IF Len(c) >= 2 /\ c[1] = "(" /\ c[Len(c)] = ")" /\ ValidExt(SubSeq(c, 2, Len(c) - 1)) THEN "regext"
  ELSE "invalid"
NoKey == [ok |-> FALSE, key |-> [number |-> <<>>, name |-> <<>>, regint |-> <<>>, regext |-> <<>>]]
DeserializeKey(line) ==
  LET comps == Tokens(SubSeq(line, 2, Len(line)))
      kinds == [i \in 1..Len(comps) |-> CompKind(comps[i])]
      Of(kind) == {i \in 1..Len(comps) : kinds[i] = kind}
      One(kind) == comps[CHOOSE i \in Of(kind) : TRUE]
      key == [number |-> IF Of("number") = {} THEN <<>> ELSE <<NatVal(SubSeq(One("number"), 3, Len(One("number"))))>>,
              name   |-> IF Of("name") = {} THEN <<>> ELSE <<SubSeq(One("name"), 2, Len(One("name")) - 1)>>,
              regint |-> IF Of("regint") = {} THEN <<>> ELSE <<NatVal(One("regint"))>>,
              regext |-> IF Of("regext") = {} THEN <<>> ELSE <<SubSeq(One("regext"), 2, Len(One("regext")) - 1)>>]
  IN IF Of("invalid") # {} \/ \E kd \in {"number", "name", "regint", "regext"} : Cardinality(Of(kd)) > 1
          \/ (Of("number") = {} /\ Of("name") = {})
       THEN NoKey ELSE [ok |-> TRUE, key |-> key]

(* ------------------------------------------------------------------ metadata *)
(* a value survives when none of its lines is empty, has outer blanks, or looks like a key or a
   record delimiter (the reader strips lines, skips empty ones and takes '>' lines for keys) *)
Dom_ValueLine(s) == Len(s) >= 1 /\ Stripped(s) /\ s[1] # ">" /\ ~StartsWith(s, T("$$$$"))
Dom_Value(v) == Len(v) >= 1 /\ \A i \in DOMAIN v : Dom_ValueLine(v[i])
DistinctKeys(md) == \A i, j \in DOMAIN md : i # j => md[i][1] # md[j][1]
Dom_Meta(md) == DistinctKeys(md) /\ \A i \in DOMAIN md : Dom_Key(md[i][1]) /\ Dom_Value(md[i][2])

(* Metadata.serialize: per item the key line, the value lines, an empty line *)
SerializeMeta(md) == Flat([i \in 1..Len(md) |-> <<SerializeKey(md[i][1])>> \o md[i][2] \o <<<<>>>>])

(* Metadata.deserialize: lines are stripped, empty lines skipped, '>' lines start a new item *)
RECURSIVE MetaItems(_, _)
MetaItems(lines, acc) ==          \* acc: items so far, the last one still collecting value lines
  IF lines = <<>> THEN acc
  ELSE LET l == Strip(Head(lines)) IN
       IF l = <<>> THEN MetaItems(Tail(lines), acc)
       ELSE IF l[1] = ">" THEN MetaItems(Tail(lines), Append(acc, <<DeserializeKey(l), <<>>>>))
       ELSE IF acc = <<>> THEN <<<<NoKey, <<l>>>>>>                                   \* value before any key: error
       ELSE MetaItems(Tail(lines), [acc EXCEPT ![Len(acc)] = <<acc[Len(acc)][1], Append(acc[Len(acc)][2], l)>>])
DeserializeMeta(lines) ==
  LET it == MetaItems(lines, <<>>) IN
  [ok |-> \A i \in DOMAIN it : it[i][1].ok /\ it[i][2] # <<>>,
   items |-> [i \in DOMAIN it |-> <<it[i][1].key, it[i][2]>>]]

(* ------------------------------------------------------------------ records and files *)
TDelim == T("$$$$")
SdEnd == T("M  END")
SerializeRecord(r) ==
  LET h == SerializeHeader(r.header) IN
  IF h.oc # "ok" THEN [oc |-> "Rejected", lines |-> <<>>]
  ELSE [oc |-> "ok", lines |-> h.lines \o r.ctab \o SerializeMeta(r.meta)]
SerializeFile(recs) ==
  LET parts == [i \in 1..Len(recs) |-> SerializeRecord(recs[i])] IN
  IF \E i \in DOMAIN parts : parts[i].oc # "ok" THEN [oc |-> "Rejected", lines |-> <<>>]
  ELSE [oc |-> "ok", lines |-> Flat([i \in 1..Len(recs) |-> parts[i].lines \o <<TDelim>>])]

(* _get_ctab_stop: the first "M  END" behind the three header lines *)
CtabStop(lines) ==
  LET hit == {i \in 4..Len(lines) : StartsWith(lines[i], SdEnd)} IN
  IF hit = {} THEN Len(lines) ELSE CHOOSE i \in hit : \A q \in hit : i <= q
DeserializeRecord(lines) ==
  LET stop == CtabStop(lines) IN
  [header |-> DeserializeHeader(SubSeq(lines, 1, 3)),
   ctab |-> SubSeq(lines, 4, stop),
   meta |-> DeserializeMeta(SubSeq(lines, stop + 1, Len(lines)))]
(* SDFile.deserialize: records end at the lines starting with "$$$$"; the name is the first line *)
DeserializeFile(lines) ==
  LET ends == SelectSeq([i \in 1..Len(lines) |-> i], LAMBDA i : StartsWith(lines[i], TDelim))
      start(k) == IF k = 1 THEN 1 ELSE ends[k - 1] + 1
  IN [k \in 1..Len(ends) |-> DeserializeRecord(SubSeq(lines, start(k), ends[k] - 1))]

DistinctNames(recs) == \A i, j \in DOMAIN recs : i # j => recs[i].header.mol_name # recs[j].header.mol_name
Dom_File(recs) ==
  /\ Len(recs) >= 1 /\ DistinctNames(recs)
  /\ \A i \in DOMAIN recs : Dom_Header(recs[i].header) /\ Dom_Meta(recs[i].meta)
                            /\ ~StartsWith(recs[i].header.mol_name, TDelim)

(* what a round trip has to give: names in order, headers, ctab lines, metadata items *)
AbstractFile(recs) ==
  [k \in 1..Len(recs) |->
     [header |-> recs[k].header, ctab |-> recs[k].ctab, meta |-> [ok |-> TRUE, items |-> recs[k].meta]]]
FileRoundTripOK(recs) ==
  LET w == SerializeFile(recs) IN
  (w.oc = "ok" /\ Dom_File(recs)) => DeserializeFile(w.lines) = AbstractFile(recs)

ASSUME SerializeKey([number |-> <<3>>, name |-> <<T("x.y_1")>>, regint |-> <<42>>, regext |-> <<T("CAS-1.2")>>])
         = T("> DT3 <x.y_1> 42 (CAS-1.2) ")
ASSUME DeserializeKey(T("> DT3 <x.y_1> 42 (CAS-1.2)")).key
         = [number |-> <<3>>, name |-> <<T("x.y_1")>>, regint |-> <<42>>, regext |-> <<T("CAS-1.2")>>]
ASSUME ~DeserializeKey(T("> x")).ok /\ ~DeserializeKey(T("> 12 13")).ok /\ DeserializeKey(T("> <a> ()")).key.regext = <<<<>>>>
=============================================================================
