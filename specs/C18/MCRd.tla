------------------------------- MODULE MCRd -------------------------------
(* C18, S1 / S2 for the RDKit bridge with its options.  Inputs <<m, nmodels, o>>:
   molecules of the classes the hydrogen options distinguish
     "hasH"      at least one hydrogen atom (saturated CH4, NH4+, H2O with H first; open CH2; H2, H, H+),
     "noH-open"  no hydrogen atom and an open valence of the organic subset (C, C=O, C#N, a charged
                 five-atom skeleton, ANY / QUADRUPLE / aromatic bonds next to plain ones ...),
     "noH-other" no hydrogen atom and nothing the valence model of the spec decides (CO2, N2, Cl2, CCl4,
                 metals, ions, S, P),
   aromatic bonds (pairs of every aromatic type, six-rings with and without hydrogens) and
   COORDINATION bonds, each with
     to_mol(explicit_hydrogen None/True/False, kekulize, use_dative_bonds)
     x from_mol(add_hydrogen None/True/False, conformer_id None/"3D"/0)
   as a stack of 1..3 models.  out = ExpectRdOpt(...) once done (two steps, so that workers share). *)
EXTENDS RdkitBridge, TLC

CONSTANTS Rich

VARIABLES inp, out, done
vars == <<inp, out, done>>

R(n, d) == <<n, d>>
P(i) == <<R(3 * i, 2), R(-i, 4), R(i, 16)>>
(* as: sequence of <<element, charge>>; bonds: sequence of <<i, j, type>> *)
M(as, bonds) == [atoms |-> [i \in 1..Len(as) |-> [elem |-> T(as[i][1]), xyz |-> P(i), chg |-> as[i][2]]], bonds |-> bonds]
Star(c, h, t) == [k \in 1..h |-> <<c, c + k, t>>]          \* atom c bonded to the h atoms behind it

Lone ==
  {M(<<<<e, 0>>>>, <<>>) : e \in {"C", "N", "O", "S", "P", "CL", "FE", "ZN", "H"}}
  \cup {M(<<<<"N", 1>>>>, <<>>), M(<<<<"O", -1>>>>, <<>>), M(<<<<"NA", 1>>>>, <<>>), M(<<<<"C", -1>>>>, <<>>),
        M(<<<<"H", 1>>>>, <<>>), M(<<<<"CL", -1>>>>, <<>>)}
WithH ==
  { M(<<<<"C", 0>>, <<"H", 0>>, <<"H", 0>>, <<"H", 0>>, <<"H", 0>>>>, Star(0, 4, 1)),        \* methane
    M(<<<<"C", 0>>, <<"H", 0>>, <<"H", 0>>>>, Star(0, 2, 1)),                                \* CH2: hydrogens and an open valence
    M(<<<<"O", -1>>, <<"H", 0>>>>, Star(0, 1, 1)),                                           \* hydroxide
    M(<<<<"H", 0>>, <<"O", 0>>, <<"H", 0>>>>, <<<<0, 1, 1>>, <<1, 2, 1>>>>),                 \* water, a hydrogen first
    M(<<<<"H", 0>>, <<"H", 0>>>>, <<<<0, 1, 1>>>>),
    M(<<<<"N", 1>>, <<"H", 0>>, <<"H", 0>>, <<"H", 0>>, <<"H", 0>>>>, Star(0, 4, 1)),        \* ammonium
    M(<<<<"C", 0>>, <<"O", 0>>, <<"H", 0>>, <<"H", 0>>>>, <<<<0, 1, 2>>, <<0, 2, 1>>, <<0, 3, 1>>>>),   \* formaldehyde
    M(<<<<"H", 0>>, <<"C", 0>>, <<"N", 0>>>>, <<<<0, 1, 1>>, <<1, 2, 3>>>>),                 \* HCN
    M(<<<<"C", 0>>, <<"C", 0>>, <<"H", 0>>>>, <<<<0, 1, 1>>, <<1, 2, 1>>>>),                 \* one hydrogen, open valences
    M(<<<<"FE", 0>>, <<"N", 0>>, <<"H", 0>>, <<"H", 0>>, <<"H", 0>>>>, <<<<0, 1, 8>>, <<1, 2, 1>>, <<1, 3, 1>>, <<1, 4, 1>>>>) }
Skeleton ==    \* heavy atoms only, one charged, open valences everywhere
  M(<<<<"C", 0>>, <<"C", 0>>, <<"O", -1>>, <<"N", 0>>, <<"S", 0>>>>, <<<<0, 1, 1>>, <<0, 4, 1>>, <<1, 2, 1>>, <<1, 3, 2>>>>)
HeavyOpen ==
  { M(<<<<"C", 0>>, <<"O", 0>>>>, <<<<0, 1, 2>>>>),
    M(<<<<"C", 0>>, <<"C", 0>>>>, <<<<0, 1, 1>>>>),
    M(<<<<"C", 0>>, <<"N", 0>>>>, <<<<0, 1, 3>>>>),
    M(<<<<"C", 0>>, <<"O", -1>>>>, <<<<0, 1, 1>>>>),
    M(<<<<"N", 0>>, <<"N", 0>>>>, <<<<0, 1, 1>>>>),
    M(<<<<"CL", 0>>, <<"C", 0>>>>, <<<<0, 1, 1>>>>),
    M(<<<<"C", 0>>, <<"N", 0>>, <<"O", 0>>>>, <<<<0, 1, 0>>, <<1, 2, 1>>>>),                 \* ANY next to SINGLE
    M(<<<<"C", 0>>, <<"C", 0>>, <<"O", 0>>>>, <<<<0, 1, 4>>, <<1, 2, 1>>>>),                 \* QUADRUPLE next to SINGLE
    M(<<<<"FE", 0>>, <<"N", 0>>, <<"C", 0>>>>, <<<<0, 1, 8>>, <<1, 2, 1>>>>),                \* COORDINATION next to SINGLE
    Skeleton }
HeavyOther ==
  { M(<<<<"O", 0>>, <<"C", 0>>, <<"O", 0>>>>, <<<<0, 1, 2>>, <<1, 2, 2>>>>),                 \* CO2: saturated
    M(<<<<"N", 0>>, <<"N", 0>>>>, <<<<0, 1, 3>>>>),
    M(<<<<"CL", 0>>, <<"CL", 0>>>>, <<<<0, 1, 1>>>>),
    M(<<<<"C", 0>>, <<"CL", 0>>, <<"CL", 0>>, <<"CL", 0>>, <<"CL", 0>>>>, Star(0, 4, 1)),
    M(<<<<"FE", 2>>, <<"S", 0>>>>, <<<<0, 1, 8>>>>),
    M(<<<<"NA", 1>>, <<"CL", -1>>>>, <<>>) }
Hexagon(t1, t2) == [k \in 1..6 |-> IF k < 6 THEN <<k - 1, k, IF k % 2 = 1 THEN t1 ELSE t2>> ELSE <<0, 5, t2>>]
SixC == [i \in 1..6 |-> <<"C", 0>>]
Aromatic ==
  {M(<<<<"C", 0>>, <<"C", 0>>>>, <<<<0, 1, t>>>>) : t \in AromaticTypes}
  \cup { M(SixC, SortSeq(Hexagon(5, 6), LAMBDA a, b : a[1] < b[1] \/ (a[1] = b[1] /\ a[2] < b[2]))),
         M(SixC, SortSeq(Hexagon(9, 9), LAMBDA a, b : a[1] < b[1] \/ (a[1] = b[1] /\ a[2] < b[2]))),
         \* benzene with its hydrogens
         M(SixC \o [i \in 1..6 |-> <<"H", 0>>],
           SortSeq(Hexagon(5, 6) \o [k \in 1..6 |-> <<k - 1, k + 5, 1>>], LAMBDA a, b : a[1] < b[1] \/ (a[1] = b[1] /\ a[2] < b[2]))) }
(* thorough: every pair of atoms over element x charge x bond type *)
PairElems == {"C", "N", "H", "FE"}
PairFamily == {M(<<<<e1, q>>, <<e2, 0>>>>, <<<<0, 1, t>>>>) : e1 \in PairElems, e2 \in PairElems, q \in {0, -1}, t \in 0..9}

Mols == Lone \cup WithH \cup HeavyOpen \cup HeavyOther \cup Aromatic
ASSUME \A m \in Mols \cup PairFamily : Dom_Rd(m)
ASSUME MolClass(Skeleton) = "noH-open"
ASSUME \A m \in WithH : MolClass(m) = "hasH"
ASSUME \A m \in HeavyOpen : MolClass(m) = "noH-open"
ASSUME \A m \in HeavyOther : MolClass(m) = "noH-other"

HydrogenOpts(kek, dative, conf) == {Opt(eh, ah, kek, dative, conf) : eh \in TriState, ah \in TriState}
OptsQuick == UNION {HydrogenOpts(kek, dative, "all") : kek \in BOOLEAN, dative \in BOOLEAN}
             \cup HydrogenOpts(FALSE, FALSE, "3D") \cup HydrogenOpts(FALSE, FALSE, "first")
Inputs ==
  IF Rich
  THEN {<<m, n, o>> : m \in Mols, n \in 1..3, o \in AllOpts} \cup {<<m, 2, o>> : m \in PairFamily, o \in AllOpts}
  ELSE {<<m, 2, o>> : m \in Mols, o \in OptsQuick}
       \cup {<<m, 1, o>> : m \in Mols, o \in HydrogenOpts(FALSE, FALSE, "all")}
       \cup {<<m, 3, o>> : m \in {Skeleton}, o \in HydrogenOpts(FALSE, FALSE, "first")}

Pending == [oc |-> "pending", nmodels |-> 0, stack |-> FALSE, kb |-> {}, atoms |-> <<>>, hs |-> <<>>, bonds |-> {}, cls |-> ""]
Init == inp \in Inputs /\ out = Pending /\ done = FALSE
Next == /\ ~done /\ done' = TRUE /\ UNCHANGED inp
        /\ out' = ExpectRdOpt(inp[1], inp[2], inp[3])
Spec == Init /\ [][Next]_vars

(* the step-by-step model of the two calls agrees with the declarative table of the options *)
InvOptionTable == done => OptionTableOK(inp[1], inp[2], inp[3], out)
(* where the table demands the identity, nothing about the result is left to RDKit's valence model *)
InvIdentityDecided == (done /\ out.oc = "ok" /\ IdentityExpected(inp[1], inp[3])) => \A i \in DOMAIN out.hs : out.hs[i] # Unspecified
=============================================================================
