------------------------------- MODULE MolFile -------------------------------
(* C18: the MDL connection table (ctab) of MOL / SDF files, V2000 and V3000, as
   write_structure_to_ctab writes it and read_structure_from_ctab reads it.

   A molecule is
     m = [atoms : Seq([elem, xyz, chg]),     elem a text, xyz = <<x, y, z>> exact rationals, chg an integer
          bonds : Seq(<<i, j, t>>)]          0-based atom indices i < j (one entry per pair), t a BondType value
   BondType values: 0 ANY, 1 SINGLE, 2 DOUBLE, 3 TRIPLE, 4 QUADRUPLE, 5 AROMATIC_SINGLE,
   6 AROMATIC_DOUBLE, 7 AROMATIC_TRIPLE, 8 COORDINATION, 9 AROMATIC.

   WriteCtab(m, version, dflt) the ctab lines, or "Rejected";  version in {"None", "V2000", "V3000"},
                               dflt = default_bond_type for types without a ctab counterpart
   ReadCtab(lines)             the molecule the reader has to return
   V2000 is a fixed-column format (FixedCols layouts: counts, atom, bond lines, "M  CHG" lines);
   V3000 is a token format ("M  V30 " prefix, BEGIN/END blocks, CHG= property). *)
EXTENDS FixedCols

(* ------------------------------------------------------------------ code tables *)
(* BOND_TYPE_MAPPING_REV: BondType -> ctab bond code (ANY is written as 8) *)
Expressible == {0, 1, 2, 3, 5, 6, 9}
BondCode(t) == CASE t = 1 -> 1 [] t = 2 -> 2 [] t = 3 -> 3 [] t = 9 -> 4 [] t = 0 -> 8 [] t = 5 -> 6 [] t = 6 -> 7
(* BOND_TYPE_MAPPING: ctab bond code -> BondType (5 and 8 are ANY; unknown codes are ANY, with a warning) *)
CodeBond(c) == CASE c = 1 -> 1 [] c = 2 -> 2 [] c = 3 -> 3 [] c = 4 -> 9 [] c = 5 -> 0 [] c = 6 -> 5
                 [] c = 7 -> 6 [] c = 8 -> 0 [] OTHER -> 0
WrittenCode(t, dflt) == IF t \in Expressible THEN BondCode(t) ELSE BondCode(dflt)
(* what a bond type is after a round trip: itself if expressible, else the default type *)
BondImage(t, dflt) == CodeBond(WrittenCode(t, dflt))

(* CHARGE_MAPPING_REV / CHARGE_MAPPING: the charge code of the V2000 atom block (0, +-1..3 only) *)
ChargeCode(q) == CASE q = 0 -> 0 [] q = 1 -> 3 [] q = 2 -> 2 [] q = 3 -> 1 [] q = -1 -> 5 [] q = -2 -> 6
                   [] q = -3 -> 7 [] OTHER -> 0
CodeCharge(k) == CASE k = 0 -> 0 [] k = 3 -> 1 [] k = 2 -> 2 [] k = 1 -> 3 [] k = 5 -> -1 [] k = 6 -> -2
                   [] k = 7 -> -3 [] OTHER -> 0
ChargesPerLine == 8

NAtoms(m) == Len(m.atoms)
NBonds(m) == Len(m.bonds)

(* ------------------------------------------------------------------ V2000 layouts *)
CountsTail == T("  0     0  0  0  0  0  0  1 V2000")
CountsLayout == << Fld("aaa", 1, 3, "R"), Fld("bbb", 4, 6, "R"), Fld("tail", 7, 39, "L") >>
CountsLen == 39
AtomTail == T("  0  0  0  0  0  0  0  0  0  0")
AtomLayout == << Fld("x", 1, 10, "R"), Fld("y", 11, 20, "R"), Fld("z", 21, 30, "R"),
                 Fld("symbol", 32, 34, "L"), Fld("massdiff", 35, 36, "R"), Fld("charge", 37, 39, "R"),
                 Fld("tail", 40, 69, "L") >>
AtomLen == 69
BondTail == T("  0  0  0  0")
BondLayout == << Fld("first", 1, 3, "R"), Fld("second", 4, 6, "R"), Fld("type", 7, 9, "R"), Fld("tail", 10, 21, "L") >>
BondLen == 21
ASSUME LayoutOK(CountsLayout, CountsLen) /\ LayoutOK(AtomLayout, AtomLen) /\ LayoutOK(BondLayout, BondLen)
ASSUME Len(CountsTail) = 33 /\ Len(AtomTail) = 30 /\ Len(BondTail) = 12

CountsVals(m) == [aaa |-> IntText(NAtoms(m)), bbb |-> IntText(NBonds(m)), tail |-> CountsTail]
AtomVals(a) ==
  [x |-> FixedText(a.xyz[1], 4), y |-> FixedText(a.xyz[2], 4), z |-> FixedText(a.xyz[3], 4),
   symbol |-> Capitalize(a.elem), massdiff |-> T("0"), charge |-> IntText(ChargeCode(a.chg)), tail |-> AtomTail]
BondVals(b, dflt) ==
  [first |-> IntText(b[1] + 1), second |-> IntText(b[2] + 1), type |-> IntText(WrittenCode(b[3], dflt)), tail |-> BondTail]

(* "M  CHGnn8 aaa vvv ...": the literal charges of all charged atoms, eight per line *)
TMCHG == T("M  CHG")
TMEND == T("M  END")
Charged(m) == SelectSeq([i \in 1..NAtoms(m) |-> i], LAMBDA i : m.atoms[i].chg # 0)
ChgEntry(m, i) == <<" ">> \o RJust(IntText(i), 3) \o <<" ">> \o RJust(IntText(m.atoms[i].chg), 3)
ChargeLines(m) ==
  Bind(Charged(m), LAMBDA ch :
    LET nl == (Len(ch) + ChargesPerLine - 1) \div ChargesPerLine IN
    [r \in 1..nl |->
       LET cnt == IF r < nl THEN ChargesPerLine ELSE Len(ch) - ChargesPerLine * (nl - 1) IN
       TMCHG \o RJust(IntText(cnt), 3) \o Flat([k \in 1..cnt |-> ChgEntry(m, ch[ChargesPerLine * (r - 1) + k])])])

(* ------------------------------------------------------------------ what fits *)
CoordsFinite(m) == \A i \in 1..NAtoms(m) : \A k \in 1..3 : ~IsSpecial(m.atoms[i].xyz[k])
NoNaN(m) == \A i \in 1..NAtoms(m) : \A k \in 1..3 : ~IsNaN(m.atoms[i].xyz[k])
CountsFit(m) == NAtoms(m) < 1000 /\ NBonds(m) < 1000                 \* _is_v2000_compatible
ValuesFit2000(m, dflt) ==
  /\ CoordsFinite(m)
  /\ \A i \in 1..NAtoms(m) : FitsAll(AtomLayout, AtomVals(m.atoms[i])) /\ Fits(IntText(m.atoms[i].chg), 3)
(* number_of_integer_digits(coord) <= 5, the test the writers perform (both versions) *)
TruncDigits(r) == IF IsSpecial(r) THEN 20 ELSE Len(IntText(TruncToZero(r)))
ImplCoordsOK(m) == \A i \in 1..NAtoms(m) : \A k \in 1..3 : TruncDigits(m.atoms[i].xyz[k]) <= 5

(* ------------------------------------------------------------------ writers *)
Rejected == [oc |-> "Rejected", lines |-> <<>>]
Write2000(m, dflt) ==
  IF ~(CountsFit(m) /\ ValuesFit2000(m, dflt)) THEN Rejected
  ELSE [oc |-> "ok",
        lines |-> <<Render(CountsLayout, CountsVals(m), CountsLen)>>
                    \o [i \in 1..NAtoms(m) |-> Render(AtomLayout, AtomVals(m.atoms[i]), AtomLen)]
                    \o [k \in 1..NBonds(m) |-> Render(BondLayout, BondVals(m.bonds[k], dflt), BondLen)]
                    \o ChargeLines(m) \o <<TMEND>>]

V30 == T("M  V30 ")
V3000CountsLine == T("  0  0  0  0  0  0  0  0  0  0999 V3000")
QuoteTok(s) == IF HasBlank(s) \/ s = <<>> THEN <<"\"">> \o s \o <<"\"">> ELSE s           \* _quote
Sp == <<" ">>
Atom3000(a, i) ==
  IntText(i) \o Sp \o QuoteTok(Capitalize(a.elem)) \o Sp \o FixedText(a.xyz[1], 4) \o Sp \o FixedText(a.xyz[2], 4)
    \o Sp \o FixedText(a.xyz[3], 4) \o T(" 0 ") \o (IF a.chg = 0 THEN <<>> ELSE T("CHG=") \o IntText(a.chg))
Bond3000(b, k, dflt) ==
  IntText(k) \o Sp \o IntText(WrittenCode(b[3], dflt)) \o Sp \o IntText(b[1] + 1) \o Sp \o IntText(b[2] + 1)
Write3000(m, dflt) ==
  IF ~CoordsFinite(m) THEN Rejected
  ELSE [oc |-> "ok",
        lines |-> <<V3000CountsLine>>
                    \o [k \in 1..(NAtoms(m) + NBonds(m) + 7) |->
                          V30 \o (CASE k = 1 -> T("BEGIN CTAB")
                                    [] k = 2 -> T("COUNTS ") \o IntText(NAtoms(m)) \o Sp \o IntText(NBonds(m)) \o T(" 0 0 0")
                                    [] k = 3 -> T("BEGIN ATOM")
                                    [] k >= 4 /\ k <= NAtoms(m) + 3 -> Atom3000(m.atoms[k - 3], k - 3)
                                    [] k = NAtoms(m) + 4 -> T("END ATOM")
                                    [] k = NAtoms(m) + 5 -> T("BEGIN BOND")
                                    [] k >= NAtoms(m) + 6 /\ k <= NAtoms(m) + NBonds(m) + 5 ->
                                         Bond3000(m.bonds[k - NAtoms(m) - 5], k - NAtoms(m) - 5, dflt)
                                    [] k = NAtoms(m) + NBonds(m) + 6 -> T("END BOND")
                                    [] k = NAtoms(m) + NBonds(m) + 7 -> T("END CTAB"))]
                    \o <<TMEND>>]

(* version = "None": V2000 unless the counts need V3000; values that do not fit are refused *)
WriteCtab(m, version, dflt) ==
  CASE version = "V2000" -> Write2000(m, dflt)
    [] version = "V3000" -> Write3000(m, dflt)
    [] OTHER -> IF CountsFit(m) THEN Write2000(m, dflt) ELSE Write3000(m, dflt)
(* V3000 has no columns, but the writer applies the five-digit test there as well: a refusal of
   such coordinates is accepted (the property asks for "V3000 or an error") *)
Lenient(m, version) == (version = "V3000" \/ (version = "None" /\ ~CountsFit(m))) /\ ~ImplCoordsOK(m) /\ CoordsFinite(m)

(* ------------------------------------------------------------------ readers *)
VersionOf(counts) == Strip(Cols(LJust(counts, 39), 34, 39))
NoMol == [ok |-> FALSE, atoms |-> <<>>, bonds |-> {}]

IsChgLine(l) == StartsWith(l, TMCHG)
(* "M  CHGnn8 aaa vvv ..." -> sequence of <<atom number, charge>> (the reader splits on blanks) *)
ChgPairs(l) ==
  LET tk == Tokens(SubSeq(l, 10, Len(l))) IN
  [k \in 1..(Len(tk) \div 2) |-> <<ParseInt(tk[2 * k - 1]).val, ParseInt(tk[2 * k]).val>>]

(* one "M  CHG" entry supersedes all charges of the atom block; later entries overwrite earlier ones *)
ChargeOf(i, l, anyChg, pairs) ==
  IF ~anyChg THEN CodeCharge(ParseInt(Cols(l, 37, 39)).val)
  ELSE LET hit == {k \in 1..Len(pairs) : pairs[k][1] = i} IN
       IF hit = {} THEN 0 ELSE pairs[CHOOSE k \in hit : \A q \in hit : q <= k][2]
Read2000(lines) ==
  LET c == LJust(lines[1], CountsLen) IN
  Bind(ParseInt(Cols(c, 1, 3)).val, LAMBDA na :
  Bind(ParseInt(Cols(c, 4, 6)).val, LAMBDA nb :
  Bind(SelectSeq(SubSeq(lines, 2 + na + nb, Len(lines)), IsChgLine), LAMBDA chg :
  Bind(Flat([k \in 1..Len(chg) |-> ChgPairs(chg[k])]), LAMBDA pairs :
    [ok |-> TRUE,
     atoms |-> [i \in 1..na |->
                  LET l == LJust(lines[1 + i], AtomLen) IN
                  [elem |-> UpperText(Strip(Cols(l, 32, 34))),
                   xyz |-> <<ParseFixed(Cols(l, 1, 10), 4).units, ParseFixed(Cols(l, 11, 20), 4).units,
                             ParseFixed(Cols(l, 21, 30), 4).units>>,
                   chg |-> ChargeOf(i, l, chg # <<>>, pairs)]],
     bonds |-> {LET l == LJust(lines[1 + na + k], BondLen)
                    i == ParseInt(Cols(l, 1, 3)).val - 1   j == ParseInt(Cols(l, 4, 6)).val - 1
                IN <<IF i < j THEN i ELSE j, IF i < j THEN j ELSE i, CodeBond(ParseInt(Cols(l, 7, 9)).val)>>
                : k \in 1..nb}]))))

(* V3000: the "M  V30 " lines without their prefix, the lines between BEGIN x and END x *)
V30Lines(lines) ==
  LET sel == SelectSeq(lines, LAMBDA l : StartsWith(l, T("M  V30"))) IN
  [k \in 1..Len(sel) |-> Strip(SubSeq(sel[k], 7, Len(sel[k])))]
Block(v, name) ==
  LET b == {k \in 1..Len(v) : StartsWith(v[k], T("BEGIN ") \o name)}
      e == {k \in 1..Len(v) : StartsWith(v[k], T("END ") \o name)}
  IN IF b = {} \/ e = {} THEN <<>>
     ELSE SubSeq(v, (CHOOSE k \in b : \A q \in b : k <= q) + 1, (CHOOSE k \in e : \A q \in e : k <= q) - 1)
Unquote(t) == IF Len(t) >= 2 /\ t[1] = "\"" /\ t[Len(t)] = "\"" THEN SubSeq(t, 2, Len(t) - 1) ELSE t
ChgProp(toks) ==             \* the CHG=n property among the tokens behind aamap, 0 if absent
  LET hit == {k \in 1..Len(toks) : StartsWith(toks[k], T("CHG="))} IN
  IF hit = {} THEN 0 ELSE ParseInt(SubSeq(toks[CHOOSE k \in hit : TRUE], 5, Len(toks[CHOOSE k \in hit : TRUE]))).val
(* V3000 atom numbers are arbitrary: bonds address atoms through them *)
IndexOfNum(nums, num) ==
  IF num \in DOMAIN nums /\ nums[num] = num THEN num ELSE CHOOSE k \in DOMAIN nums : nums[k] = num
Read3000(lines) ==
  Bind(V30Lines(lines), LAMBDA v :
  Bind(Block(v, T("ATOM")), LAMBDA al :
  Bind(Block(v, T("BOND")), LAMBDA bl :
  Bind([k \in 1..Len(al) |-> Tokens(al[k])], LAMBDA atok :
  Bind([k \in 1..Len(al) |-> ParseInt(atok[k][1]).val], LAMBDA nums :
    IF al = <<>> THEN NoMol
    ELSE [ok |-> TRUE,
          atoms |-> [k \in 1..Len(al) |->
                       [elem |-> UpperText(Unquote(atok[k][2])),
                        xyz |-> <<ParseFixed(atok[k][3], 4).units, ParseFixed(atok[k][4], 4).units, ParseFixed(atok[k][5], 4).units>>,
                        chg |-> ChgProp(SubSeq(atok[k], 7, Len(atok[k])))]],
          bonds |-> {LET tk == Tokens(bl[k])
                         i == IndexOfNum(nums, ParseInt(tk[3]).val) - 1   j == IndexOfNum(nums, ParseInt(tk[4]).val) - 1
                     IN <<IF i < j THEN i ELSE j, IF i < j THEN j ELSE i, CodeBond(ParseInt(tk[2]).val)>>
                     : k \in 1..Len(bl)}])))))

ReadCtab(lines) ==
  LET ver == VersionOf(lines[1]) IN
  IF ver = T("V2000") THEN Read2000(lines)
  ELSE IF ver = T("V3000") THEN Read3000(lines)
  ELSE NoMol

(* ------------------------------------------------------------------ what a round trip has to give *)
Abstract(m, dflt) ==
  [ok |-> TRUE,
   atoms |-> [i \in 1..NAtoms(m) |->
                [elem |-> UpperText(m.atoms[i].elem),
                 xyz |-> <<SignedUnits(m.atoms[i].xyz[1], 4), SignedUnits(m.atoms[i].xyz[2], 4), SignedUnits(m.atoms[i].xyz[3], 4)>>,
                 chg |-> m.atoms[i].chg]],
   bonds |-> {<<m.bonds[k][1], m.bonds[k][2], BondImage(m.bonds[k][3], dflt)>> : k \in 1..NBonds(m)}]

(* domain of the round-trip claim *)
(* element symbols: upper case (the writer capitalises, the reader upper-cases), one or two characters
   (the element annotation of the AtomArray the reader returns holds two characters) *)
Dom_Elem(m) == \A i \in 1..NAtoms(m) : m.atoms[i].elem = UpperText(m.atoms[i].elem) /\ ~HasBlank(m.atoms[i].elem)
                                       /\ Len(m.atoms[i].elem) \in {1, 2}
Dom_Bonds(m) == \A k \in 1..NBonds(m) : /\ 0 <= m.bonds[k][1] /\ m.bonds[k][1] < m.bonds[k][2] /\ m.bonds[k][2] < NAtoms(m)
                                        /\ \A q \in 1..NBonds(m) : (q # k) => <<m.bonds[q][1], m.bonds[q][2]>> # <<m.bonds[k][1], m.bonds[k][2]>>
Dom_Mol(m) == NAtoms(m) >= 1 /\ Dom_Elem(m) /\ Dom_Bonds(m)

(* Known-bad inputs: written into shifted columns instead of being refused / moved to V3000 *)
KB_ElementWidth(m) == \E i \in 1..NAtoms(m) : Len(m.atoms[i].elem) > 3
KB_ChargeWidth(m) == \E i \in 1..NAtoms(m) : Len(IntText(m.atoms[i].chg)) > 3
KB_RoundCarry(m) == \E i \in 1..NAtoms(m) : \E k \in 1..3 :
                      LET r == m.atoms[i].xyz[k] IN ~IsSpecial(r) /\ TruncDigits(r) <= 5 /\ ~Fits(FixedText(r, 4), 10)
KBSet(m, version) ==
  IF version = "V3000" \/ ~CountsFit(m) THEN {}
  ELSE (IF KB_ElementWidth(m) THEN {"ElementWidth"} ELSE {}) \cup (IF KB_ChargeWidth(m) THEN {"ChargeWidth"} ELSE {})
         \cup (IF KB_RoundCarry(m) THEN {"RoundCarry"} ELSE {})

(* ------------------------------------------------------------------ everything the checks compare *)
EmptyBack == [ok |-> FALSE, atoms |-> <<>>, bonds |-> {}]
ExpectCtab(m, version, dflt) ==
  Bind(WriteCtab(m, version, dflt), LAMBDA w :
    [oc |-> w.oc, lines |-> w.lines,
     back |-> IF w.oc = "ok" THEN ReadCtab(w.lines) ELSE EmptyBack,
     \* version None with values that do not fit the V2000 columns: "select V3000 or raise an error"
     alt |-> IF w.oc = "Rejected" /\ version = "None" /\ CountsFit(m) /\ CoordsFinite(m) THEN Write3000(m, dflt).lines ELSE <<>>,
     kb |-> KBSet(m, version), lenient |-> Lenient(m, version), dom |-> Dom_Mol(m)])

(* statements checked by TLC (S1) *)
RoundTripOK(m, dflt, e) == (e.oc = "ok" /\ Dom_Mol(m)) => e.back = Abstract(m, dflt)
ColumnsOK(m, dflt, e) ==
  (e.oc = "ok" /\ VersionOf(e.lines[1]) = T("V2000")) =>
    /\ InColumns(e.lines[1], CountsLayout, CountsVals(m), CountsLen)
    /\ \A i \in 1..NAtoms(m) : InColumns(e.lines[1 + i], AtomLayout, AtomVals(m.atoms[i]), AtomLen)
    /\ \A k \in 1..NBonds(m) : InColumns(e.lines[1 + NAtoms(m) + k], BondLayout, BondVals(m.bonds[k], dflt), BondLen)
    /\ \A n \in (2 + NAtoms(m) + NBonds(m))..(Len(e.lines) - 1) :
         IsChgLine(e.lines[n]) /\ Len(e.lines[n]) <= 9 + 8 * ChargesPerLine /\ (Len(e.lines[n]) - 9) % 8 = 0
    /\ e.lines[Len(e.lines)] = TMEND
(* counts that need V3000 select it (version None) or are refused (version V2000) *)
VersionOK(m, version, e) ==
  /\ (e.oc = "ok" /\ version = "V2000") => VersionOf(e.lines[1]) = T("V2000") /\ CountsFit(m)
  /\ (e.oc = "ok" /\ version = "V3000") => VersionOf(e.lines[1]) = T("V3000")
  /\ (e.oc = "ok" /\ version = "None") => VersionOf(e.lines[1]) = (IF CountsFit(m) THEN T("V2000") ELSE T("V3000"))
  /\ (version = "V2000" /\ ~CountsFit(m)) => e.oc = "Rejected"
(* the acceptance test as implemented differs from "every value fits" only on the known-bad inputs *)
AcceptanceOK(m, version, dflt, e) ==
  LET implOK == NoNaN(m) /\ ImplCoordsOK(m) /\ (version = "V2000" => CountsFit(m)) IN
  /\ ((e.oc = "ok" /\ ~Lenient(m, version)) => implOK)
  /\ (implOK /\ e.oc = "Rejected") => KBSet(m, version) # {}
=============================================================================
