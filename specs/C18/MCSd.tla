------------------------------- MODULE MCSd -------------------------------
(* C18, S1 for SD files: headers, metadata keys and values, multi-record files.
   Inputs are files (sequences of records):
   (a) one record, every subset of key components x name / registry classes x value classes;
   (b) one record, header fields through their width classes (empty, short, full width, too long);
   (c) files of 1..3 records with different names, orders and metadata counts 0..2,
       connection tables in V2000 and V3000.
   out = [oc, lines, back] with back = DeserializeFile(lines). *)
EXTENDS SdMeta, TLC

CONSTANT Rich
VARIABLES inp, out, done
vars == <<inp, out, done>>

(* connection tables are opaque here: line sequences as MolFile writes them *)
CtabA == << T("  1  0  0     0  0  0  0  0  0  1 V2000"),
            T("    0.0000    0.0000    0.0000 O   0  0  0  0  0  0  0  0  0  0  0  0"), T("M  END") >>
CtabB == << T("  0  0  0  0  0  0  0  0  0  0999 V3000"), T("M  V30 BEGIN CTAB"), T("M  V30 COUNTS 1 0 0 0 0"),
            T("M  V30 BEGIN ATOM"), T("M  V30 1 C 0.0000 0.0000 0.0000 0 CHG=-1"), T("M  V30 END ATOM"),
            T("M  V30 BEGIN BOND"), T("M  V30 END BOND"), T("M  V30 END CTAB"), T("M  END") >>

Opt(S) == {<<>>} \cup {<<v>> : v \in S}
Names == {T("a"), T("A1"), T("x.y_1"), T("9"), T("DT5")}
Exts == {<<>>, T("CAS-1.2"), T("a_b")}
Keys ==
  {[number |-> n, name |-> nm, regint |-> ri, regext |-> re] :
     n \in Opt({0, 7, 123}), nm \in Opt(IF Rich THEN Names ELSE {T("A1"), T("x.y_1")}),
     ri \in Opt({42}), re \in Opt(IF Rich THEN Exts ELSE {<<>>, T("CAS-1.2")})}
GoodKeys == {k \in Keys : ValidKey(k)}
Values == { <<T("v")>>, <<T("two words")>>, <<T("1.5"), T("second line")>>, <<T("a"), T("b"), T("M  END")>> }

Hdr(name) == [mol_name |-> name, initials |-> <<>>, program |-> <<>>, time |-> <<>>, dimensions |-> <<>>,
              scaling |-> <<>>, energy |-> <<>>, registry |-> <<>>, comments |-> <<>>]
FullHdr == [mol_name |-> T("mol A"), initials |-> T("AB"), program |-> T("my prog"), time |-> << <<12, 31, 99, 23, 59>> >>,
            dimensions |-> T("3D"), scaling |-> T("1"), energy |-> T("-12.5"), registry |-> T("123456"),
            comments |-> T("a comment")]
Rec(h, ctab, md) == [header |-> h, ctab |-> ctab, meta |-> md]
Long(n) == [i \in 1..n |-> "x"]

K1 == [number |-> <<>>, name |-> <<T("first")>>, regint |-> <<>>, regext |-> <<>>]
K2 == [number |-> <<2>>, name |-> <<>>, regint |-> <<>>, regext |-> <<>>]
KeyInputs == {<<Rec(Hdr(T("m")), CtabA, <<<<k, v>>>>)>> : k \in GoodKeys, v \in IF Rich THEN Values ELSE {<<T("v")>>}}
             \cup {<<Rec(Hdr(T("m")), CtabA, <<<<k, v>>>>)>> : k \in {CHOOSE g \in GoodKeys : g.name = <<T("x.y_1")>> /\ g.number = <<7>> /\ g.regint = <<42>> /\ g.regext = <<T("CAS-1.2")>>}, v \in Values}
HeaderInputs ==
       {<<Rec(FullHdr, CtabA, <<>>)>>, <<Rec(Hdr(<<>>), CtabB, <<>>)>>}
  \cup {<<Rec([FullHdr EXCEPT !.initials = v], CtabA, <<>>)>> : v \in {<<>>, T("A"), T("ABC")}}
  \cup {<<Rec([FullHdr EXCEPT !.program = v], CtabA, <<>>)>> : v \in {<<>>, T("p"), T("12345678"), T("123456789")}}
  \cup {<<Rec([FullHdr EXCEPT !.registry = v], CtabA, <<>>)>> : v \in {<<>>, T("1"), T("1234567")}}
  \cup {<<Rec([FullHdr EXCEPT !.scaling = v, !.energy = w], CtabA, <<>>)>> : v \in {<<>>, T("123456789012")}, w \in {<<>>, T("1234567890123")}}
  \cup {<<Rec([FullHdr EXCEPT !.time = v], CtabA, <<>>)>> : v \in {<<>>, << <<1, 1, 0, 0, 0>> >>, << <<2, 29, 68, 9, 5>> >>, << <<6, 15, 69, 12, 30>> >>}}
  \cup {<<Rec([FullHdr EXCEPT !.mol_name = v], CtabA, <<>>)>> : v \in {Long(80), Long(81)}}
  \cup {<<Rec([FullHdr EXCEPT !.comments = v], CtabA, <<<<K1, <<T("v")>>>>>>)>> : v \in {<<>>, T("M  END"), T("> <x>")}}
Metas == {<<>>, <<<<K1, <<T("v")>>>>>>, <<<<K1, <<T("v"), T("w")>>>>, <<K2, <<T("x y")>>>>>>, <<<<K2, <<T("x")>>>>, <<K1, <<T("v")>>>>>>}
FileInputs ==
  {[i \in 1..n |-> Rec(Hdr(nm[i]), IF (i + c) % 2 = 0 THEN CtabA ELSE CtabB, md[i])] :
     n \in 1..(IF Rich THEN 3 ELSE 2), c \in 0..1,
     nm \in {<<T("B"), T("A"), T("C")>>, <<T("mol 1"), T("B"), T("A")>>},
     md \in {<<m1, m2, m1>> : m1 \in Metas, m2 \in Metas}}

Inputs == KeyInputs \cup HeaderInputs \cup FileInputs

Result(recs) ==
  LET w == SerializeFile(recs) IN
  [oc |-> w.oc, lines |-> w.lines, back |-> IF w.oc = "ok" THEN DeserializeFile(w.lines) ELSE <<>>, dom |-> Dom_File(recs)]
Init == inp \in Inputs /\ out = [oc |-> "pending", lines |-> <<>>, back |-> <<>>, dom |-> FALSE] /\ done = FALSE
Next == ~done /\ done' = TRUE /\ UNCHANGED inp /\ out' = Result(inp)
Spec == Init /\ [][Next]_vars

InvRoundTrip == done => ((out.oc = "ok" /\ out.dom) => out.back = AbstractFile(inp))
(* names and order of the records survive even outside the header / metadata domain *)
InvNames == (done /\ out.oc = "ok" /\ DistinctNames(inp) /\ \A i \in DOMAIN inp : Stripped(inp[i].header.mol_name) /\ Len(inp[i].header.mol_name) <= 80) =>
              [i \in DOMAIN out.back |-> out.back[i].header.mol_name] = [i \in DOMAIN inp |-> inp[i].header.mol_name]
(* the second header line is always 52 characters: values are padded or truncated, never shifted *)
InvHeaderWidth == (done /\ out.oc = "ok") => \A i \in DOMAIN inp : Len(HeaderLine2(inp[i].header)) = 52
InvKeys == \A k \in GoodKeys : Dom_Key(k) => DeserializeKey(SerializeKey(k)) = [ok |-> TRUE, key |-> k]
=============================================================================
