SPECIFICATION Spec
CONSTANTS
  Rich = FALSE
INVARIANT InvRoundTrip
INVARIANT InvNames
INVARIANT InvHeaderWidth
INVARIANT InvKeys
CHECK_DEADLOCK FALSE
