------------------------------- MODULE SdHist -------------------------------
(* C18: an SDFile as a mutable mapping with a history.  The property speaks about what is
   written and read back; a file that is written has usually been assembled by a sequence of
   operations - records taken from a file that was read, stored under another name, headers and
   metadata edited in place or replaced, structures set, records deleted - and every such history
   has to end in a file whose names, order, headers, metadata and connection tables are the ones the
   operations produced.

   file   = Seq([key, rec]),  rec = [header, ctab, meta] as in SdMeta; the sequence is the
            insertion order of the mapping; key = rec.header.mol_name (kept by PutKey)
   A step gives [oc, file]; oc = "Rejected" leaves the file as it was.

   The operators are shaped like the methods they specify:
     DoReload            SDFile.deserialize(file.serialize())             (write -> read)
     DoMove(i, name)     r = file[key_i]; del file[key_i]; file[name] = r  (SDFile.__setitem__ puts
                         the key into r.header.mol_name)
     DoInsert(name, r)   file[name] = r                                   (r fresh or taken from another file that was read)
     DoDelete(i)         del file[key_i]
     DoSetField(i, f, v) file[key_i].header.<f> = v                       (in place)
     DoNewHeader(i, h)   file[key_i].header = Header(mol_name=key_i, ...)
     DoSetMeta(i, k, v)  file[key_i].metadata[k] = v                      (in place; an empty value is refused)
     DoDelMeta(i, k)     del file[key_i].metadata[k]                      (an absent key is refused)
     DoNewMeta(i, md)    file[key_i].metadata = md
     DoSetStructure(i, m, version)   file[key_i].set_structure(m, version=version)
     (looking at a record, its header or its metadata changes nothing)

   Records, headers and metadata that come from a file are kept as text until they are used
   (SDFile._records, SDRecord._header / _metadata).  That is a representation: no operator above
   depends on it.  The configurations track it (MCHist: `forms`) only to make the generated
   behaviours pass through every combination of "still text" / "already an object". *)
EXTENDS MolFile, SdMeta

Ok(file) == [oc |-> "ok", file |-> file]
Refused(file) == [oc |-> "Rejected", file |-> file]

KeysOf(file) == [i \in DOMAIN file |-> file[i].key]
RecsOf(file) == [i \in DOMAIN file |-> file[i].rec]
HasKey(file, k) == \E i \in DOMAIN file : file[i].key = k

(* dict assignment: an existing key keeps its position, a new key goes to the end; the key becomes the molecule name *)
PutKey(file, k, rec) ==
  LET e == [key |-> k, rec |-> [rec EXCEPT !.header.mol_name = k]] IN
  IF HasKey(file, k) THEN [i \in DOMAIN file |-> IF file[i].key = k THEN e ELSE file[i]]
  ELSE Append(file, e)
DelAt(file, i) == SubSeq(file, 1, i - 1) \o SubSeq(file, i + 1, Len(file))

(* what SDFile.deserialize makes of a text: records under the name in their first line; a name that
   occurs twice keeps its first position and its last record (dict) *)
FromLines(lines) ==
  LET back == DeserializeFile(lines) IN
  FoldLeft(LAMBDA acc, r : PutKey(acc, r.header.mol_name, [header |-> r.header, ctab |-> r.ctab, meta |-> r.meta.items]),
           <<>>, back)
Readable(lines) == \A r \in ToSet(DeserializeFile(lines)) : r.meta.ok

DoReload(file) ==
  Bind(SerializeFile(RecsOf(file)), LAMBDA w :
    IF w.oc # "ok" \/ ~Readable(w.lines) THEN Refused(file) ELSE Ok(FromLines(w.lines)))

DoMove(file, i, name) == Ok(PutKey(DelAt(file, i), name, file[i].rec))
DoInsert(file, name, rec) == Ok(PutKey(file, name, rec))
DoDelete(file, i) == Ok(DelAt(file, i))

HeaderFields == {"initials", "program", "time", "dimensions", "scaling", "energy", "registry", "comments"}
SetHdr(h, f, v) ==
  CASE f = "initials" -> [h EXCEPT !.initials = v] [] f = "program" -> [h EXCEPT !.program = v]
    [] f = "time" -> [h EXCEPT !.time = v] [] f = "dimensions" -> [h EXCEPT !.dimensions = v]
    [] f = "scaling" -> [h EXCEPT !.scaling = v] [] f = "energy" -> [h EXCEPT !.energy = v]
    [] f = "registry" -> [h EXCEPT !.registry = v] [] f = "comments" -> [h EXCEPT !.comments = v]
DoSetField(file, i, f, v) == Ok([file EXCEPT ![i].rec.header = SetHdr(@, f, v)])
DoNewHeader(file, i, h) == Ok([file EXCEPT ![i].rec.header = [h EXCEPT !.mol_name = file[i].key]])

MetaHas(md, k) == \E n \in DOMAIN md : md[n][1] = k
MetaPut(md, k, v) ==
  IF MetaHas(md, k) THEN [n \in DOMAIN md |-> IF md[n][1] = k THEN <<k, v>> ELSE md[n]] ELSE Append(md, <<k, v>>)
MetaDel(md, k) == SelectSeq(md, LAMBDA it : it[1] # k)
DoSetMeta(file, i, k, v) ==
  IF v = <<>> \/ v = <<<<>>>> THEN Refused(file)                  \* "Metadata value must not be empty"
  ELSE Ok([file EXCEPT ![i].rec.meta = MetaPut(@, k, v)])
DoDelMeta(file, i, k) ==
  IF ~MetaHas(file[i].rec.meta, k) THEN Refused(file) ELSE Ok([file EXCEPT ![i].rec.meta = MetaDel(@, k)])
DoNewMeta(file, i, md) == Ok([file EXCEPT ![i].rec.meta = md])

DoSetStructure(file, i, m, version) ==
  Bind(WriteCtab(m, version, 0), LAMBDA w :
    IF w.oc # "ok" THEN Refused(file) ELSE Ok([file EXCEPT ![i].rec.ctab = w.lines]))

(* one call as a record [c |-> name, ...arguments]: the dispatch shared by the exhaustive configuration
   (MCHist) and by the validation of recorded histories (Trace) *)
ApplyCall(file, c) ==
  CASE c.c = "Reload" -> DoReload(file)
    [] c.c = "Touch" -> Ok(file)
    [] c.c = "Move" -> DoMove(file, c.i, c.name)
    [] c.c = "Insert" -> DoInsert(file, c.name, [header |-> c.rec.header, ctab |-> c.rec.ctab, meta |-> c.rec.meta])
    [] c.c = "Delete" -> DoDelete(file, c.i)
    [] c.c = "SetField" -> DoSetField(file, c.i, c.field, c.value)
    [] c.c = "NewHeader" -> DoNewHeader(file, c.i, c.header)
    [] c.c = "SetMeta" -> DoSetMeta(file, c.i, c.key, c.value)
    [] c.c = "DelMeta" -> DoDelMeta(file, c.i, c.key)
    [] c.c = "NewMeta" -> DoNewMeta(file, c.i, c.meta)
    [] c.c = "SetStructure" -> DoSetStructure(file, c.i, c.m, c.version)
(* the calls a history may contain (the real mapping raises KeyError / reads nothing beyond them) *)
Dom_Call(file, c) ==
  /\ c.c \in {"Touch", "Move", "Delete", "SetField", "NewHeader", "SetMeta", "DelMeta", "NewMeta", "SetStructure"} =>
        c.i \in DOMAIN file
  /\ c.c = "Delete" => Len(file) >= 2                       \* a file without records cannot be read
  /\ c.c = "Reload" => Len(file) >= 1

(* ------------------------------------------------------------------ what has to hold after every history *)
KeysInHeaders(file) == \A i \in DOMAIN file : file[i].key = file[i].rec.header.mol_name
Dom_Hist(file) == Dom_File(RecsOf(file)) /\ KeysInHeaders(file)
(* writing and reading gives the same mapping: names in order, headers, connection tables, metadata *)
StableOK(file) == (Len(file) >= 1 /\ Dom_Hist(file)) => DoReload(file) = Ok(file)
StructuresOK(file) == \A i \in DOMAIN file : ReadCtab(file[i].rec.ctab).ok

ASSUME LET h == [mol_name |-> T("x"), initials |-> <<>>, program |-> <<>>, time |-> <<>>, dimensions |-> <<>>,
                 scaling |-> <<>>, energy |-> <<>>, registry |-> <<>>, comments |-> <<>>]
           r == [header |-> h, ctab |-> <<T("M  END")>>, meta |-> <<>>]
           f == PutKey(PutKey(<<>>, T("a"), r), T("b"), r)
       IN /\ KeysOf(f) = <<T("a"), T("b")>>
          /\ KeysOf(DoMove(f, 1, T("c")).file) = <<T("b"), T("c")>>          \* moved to the end
          /\ KeysOf(DoMove(f, 1, T("b")).file) = <<T("b")>>                  \* replaces the record that had the name
          /\ KeysOf(DoMove(f, 1, T("a")).file) = <<T("b"), T("a")>>
          /\ DoMove(f, 1, T("c")).file[2].rec.header.mol_name = T("c")
=============================================================================
