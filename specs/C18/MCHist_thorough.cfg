SPECIFICATION Spec
CONSTANTS
  Depth = 3
  MaxRecs = 3
  Rich = TRUE
INVARIANT InvDomain
INVARIANT InvStable
INVARIANT InvStructures
CHECK_DEADLOCK FALSE
