SPECIFICATION Spec
CONSTANTS
  Rich = TRUE
INVARIANT InvOptionTable
INVARIANT InvIdentityDecided
CHECK_DEADLOCK FALSE
