------------------------------- MODULE MC -------------------------------
(* X01, exhaustive single-call universe (pattern of specs/C03/SeqCodec.tla, specs/C19/MCTree.tla).

   An initial state is a case  inp = <<family, arguments...>>  (phase 0); one step computes what the
   specification says the call returns:  res = Eval(inp)  (phase 1).  TLC checks the laws of Codon.tla on
   every case (stage S1) and dumps all (inp, res) pairs; the driver executes every case against the real
   classes and compares with res (stage S2).

   The text of codon_tables.txt comes in through the environment: X01_TEXT names a JSON file holding the
   lines of the file as arrays of one-character strings (written by the driver from the file biotite
   itself reads).  Synthetic table files are rendered by this module (Render) and handed to the driver by
   the family "text"; codon tables and argument variants are referred to by name in the cases, the family
   "variants" publishes them. *)
EXTENDS Codon, Json, IOUtils

CONSTANTS MaxLen4,     \* every string over A C G T of length 0..MaxLen4 is translated with every table of Tables4
          MaxLen3,     \* every string over A G T of length MaxLen4+1..MaxLen3 with the default table
          MaxLen3b,    \* ... of length MaxLen4+1..MaxLen3b with NCBI table 11 (seven start codons)
          RcLen,       \* every string of length 0..RcLen goes through reverse().complement() first
          SeqLen,      \* strings over mixed-case / ambiguous / foreign letters of length 0..SeqLen
          Families     \* the families of cases to generate

VARIABLES inp, res, phase
vars == <<inp, res, phase>>

RealText == JsonDeserialize(IOEnv.X01_TEXT)

(* ---------------------------------------------------------------- tables and argument variants *)
W(a, b, c) == <<a, b, c>>
\* synthetic tables without relation to biology: "odd" has stop codons that are start codons, start codons
\* that do not code for M, and the symbols B Z X; "nostop" has no stop codon at all
SynTables ==
  [odd    |-> [aa |-> [k \in 1..64 |-> IF (k - 1) % 7 = 3 THEN Stop ELSE ProtSyms[(((k - 1) * 5 + 2) % 23) + 1]],
               starts |-> <<WordNum(W("A", "A", "T")), WordNum(W("T", "A", "A")), WordNum(W("G", "G", "G")), WordNum(W("A", "T", "T"))>>],
   nostop |-> [aa |-> [k \in 1..64 |-> ProtSyms[((k - 1) % 20) + 1]],
               starts |-> <<WordNum(W_ATG), WordNum(W("T", "T", "T"))>>]]
SynNames == {"odd", "nostop"}
StartVariants ==
  [atg    |-> <<W_ATG>>,
   two    |-> <<W("T", "T", "G"), W("A", "A", "A")>>,
   stop   |-> <<W("T", "A", "A")>>,                                  \* a stop codon as start codon
   endT   |-> <<W("A", "T", "T"), W("G", "G", "T"), W_ATG>>,           \* start codons ending in T
   twice  |-> <<W_ATG, W_ATG>>,
   short  |-> <<<<"A", "T">>>>,                                      \* incomplete: refused
   long   |-> <<<<"A", "T", "G", "A">>>>,
   amb    |-> <<W("A", "N", "G")>>,                                  \* ambiguous: refused
   mixed  |-> <<W_ATG, <<"G">>>>,
   one    |-> <<<<"G">>>>,                                           \* incomplete: to be refused (finding)
   ones   |-> <<<<"A">>, <<"T">>, <<"G">>>>]
GoodStarts == {"atg", "two", "stop", "endT", "twice"}
BadStarts  == {"short", "long", "amb", "mixed", "one", "ones"}
MapVariants ==
  [none  |-> <<>>,
   one   |-> <<<<W("A", "A", "A"), "W">>>>,
   stops |-> <<<<W_ATG, "*">>, <<W("T", "A", "A"), "Q">>, <<W("T", "T", "T"), "X">>>>,
   amb   |-> <<<<W("A", "A", "R"), "K">>>>,                            \* ambiguous codon: refused
   noaa  |-> <<<<W("A", "A", "A"), "J">>>>]                            \* not an amino acid symbol: refused
GoodMaps == {"none", "one", "stops"}
BadMaps  == {"amb", "noaa"}

DefaultTable == WithStarts(LoadDecl(RealText, <<"name", S_Standard>>).val, <<W_ATG>>).val
RealIds == TableIds(RealText)
LoadedById == TLCEval([k \in RealIds |-> LoadImpl(RealText, <<"id", k>>)])

\* a table reference: <<"default">>, <<"id", k>>, <<"syn", name>>, <<"starts", ref, variant>>, <<"map", ref, variant>>
RECURSIVE TableOf(_)
TableOf(ref) ==
  CASE ref[1] = "default" -> Ok(DefaultTable)
    [] ref[1] = "id"      -> LoadedById[ref[2]]
    [] ref[1] = "syn"     -> Ok(SynTables[ref[2]])
    [] ref[1] = "starts"  -> LET b == TableOf(ref[2]) IN IF IsOk(b) THEN WithStarts(b.val, StartVariants[ref[3]]) ELSE Rej
    [] ref[1] = "map"     -> LET b == TableOf(ref[2]) IN IF IsOk(b) THEN WithMappings(b.val, MapVariants[ref[3]]) ELSE Rej
BaseRefs == {<<"default">>, <<"id", 11>>, <<"syn", "odd">>}
DerivedRefs == {<<"starts", b, v>> : b \in BaseRefs, v \in GoodStarts \cup BadStarts}
          \cup {<<"map", b, v>> : b \in BaseRefs, v \in GoodMaps \cup BadMaps}
          \cup {<<"map", <<"starts", <<"default">>, "two">>, "stops">>, <<"starts", <<"map", <<"id", 11>>, "stops">>, "endT">>}

\* constructor cases: dictionary items and start codons
FullPairs(t) == [k \in 1..64 |-> <<CodonWord(k - 1), t.aa[k]>>]
Without(pairs, n) == SelectSeq(pairs, LAMBDA p : WordNum(p[1]) # n)
CtorVariants ==
  [full     |-> [pairs |-> FullPairs(StdTable), starts |-> <<W_ATG>>],
   reversed |-> [pairs |-> [k \in 1..64 |-> FullPairs(SynTables.odd)[65 - k]], starts |-> <<W("T", "T", "G"), W_ATG>>],
   noAAA    |-> [pairs |-> Without(FullPairs(StdTable), 0), starts |-> <<W_ATG>>],
   noTTT    |-> [pairs |-> Without(FullPairs(StdTable), 63), starts |-> <<W_ATG>>],
   noCTG    |-> [pairs |-> Without(FullPairs(StdTable), WordNum(W("C", "T", "G"))), starts |-> <<W_ATG>>],
   noTwo    |-> [pairs |-> Without(Without(FullPairs(StdTable), 17), 5), starts |-> <<W_ATG>>],
   empty    |-> [pairs |-> <<>>, starts |-> <<W_ATG>>],
   ambKey   |-> [pairs |-> FullPairs(StdTable) \o <<<<W("A", "N", "A"), "K">>>>, starts |-> <<W_ATG>>],
   start2   |-> [pairs |-> FullPairs(StdTable), starts |-> <<<<"A", "T">>>>],
   start4   |-> [pairs |-> FullPairs(StdTable), starts |-> <<W_ATG, <<"A", "T", "G", "G">>>>],
   startN   |-> [pairs |-> FullPairs(StdTable), starts |-> <<W("N", "T", "G")>>],
   start1   |-> [pairs |-> FullPairs(StdTable), starts |-> <<<<"A">>>>]]
CtorNames == DOMAIN CtorVariants

(* ---------------------------------------------------------------- synthetic table files *)
Chars_Alpha == <<"A", "l", "p", "h", "a">>
Chars_AlphaTwo == <<"A", "l", "p", "h", "a", " ", "T", "w", "o">>
Chars_Beta == <<"B", "e", "t", "a">>
Chars_Gamma == <<"G", "a", "m", "m", "a", ",", " ", "x">>
Chars_Al == <<"A", "l">>
Chars_Delta == <<"D", "e", "l", "t", "a">>
\* column orders: the order of the NCBI file (T C A G nested), the order of the codon numbers, and that reversed
ColsFile == LET o == <<3, 1, 0, 2>> IN
            [i \in 1..64 |-> Num(<<o[((i - 1) \div 16) + 1], o[(((i - 1) % 16) \div 4) + 1], o[((i - 1) % 4) + 1]>>)]
ColsNum  == [i \in 1..64 |-> i - 1]
ColsRev  == [i \in 1..64 |-> 64 - i]
SynBlocks ==
  <<[names |-> <<Chars_Alpha>>, id |-> 1, cols |-> ColsFile, t |-> SynTables.odd, order |-> <<1, 2, 3, 4, 5>>,
     width |-> 7, sep |-> <<";", " ">>, trail |-> 0],
    [names |-> <<Chars_AlphaTwo, Chars_Beta>>, id |-> 11, cols |-> ColsNum, t |-> StdTable, order |-> <<3, 4, 5, 1, 2>>,
     width |-> 5, sep |-> <<";">>, trail |-> 2],
    [names |-> <<Chars_Gamma, Chars_Al, Chars_Delta>>, id |-> 2, cols |-> ColsRev, t |-> SynTables.nostop, order |-> <<5, 1, 4, 2, 3>>,
     width |-> 9, sep |-> <<" ", ";", " ", " ">>, trail |-> 0]>>
IntText(n) == IF n < 10 THEN <<Digits[n + 1]>> ELSE <<Digits[(n \div 10) + 1], Digits[(n % 10) + 1]>>
Blanks(k) == [i \in 1..k |-> " "]
Join(parts, sep) == FoldLeft(LAMBDA acc, k : IF k = 1 THEN parts[1] ELSE acc \o sep \o parts[k], <<>>, [k \in DOMAIN parts |-> k])
RenderBlock(b) ==
  LET cw(i) == CodonWord(b.cols[i])
      data == <<[i \in 1..64 |-> AaOf(b.t, b.cols[i])],
                [i \in 1..64 |-> IF b.cols[i] \in StartSet(b.t) THEN "i" ELSE "-"],
                [i \in 1..64 |-> cw(i)[1]], [i \in 1..64 |-> cw(i)[2]], [i \in 1..64 |-> cw(i)[3]]>>
      line(k) == DataLabels[k] \o Blanks(b.width - Len(DataLabels[k])) \o data[k] \o Blanks(b.trail)
  IN <<S_name \o <<" ">> \o Join(b.names, b.sep), S_id \o <<" ">> \o IntText(b.id)>>
     \o [k \in 1..5 |-> line(b.order[k])]
HeadLines == <<<<"#", " ", "t", "e", "s", "t">>, <<"#">>, <<>>>>
\* layout = <<order of blocks, empty lines between blocks, head comment?, empty strings at the end of split("\n")>>
Render(layout) ==
  LET blocks == [k \in DOMAIN layout[1] |-> RenderBlock(SynBlocks[layout[1][k]])]
      gap == [i \in 1..layout[2] |-> <<>>]
      body == FoldLeft(LAMBDA acc, k : IF k = 1 THEN blocks[1] ELSE acc \o gap \o blocks[k], <<>>, [k \in DOMAIN blocks |-> k])
  IN (IF layout[3] THEN HeadLines ELSE <<>>) \o body \o [i \in 1..layout[4] |-> <<>>]
BlockOrders == {<<1>>, <<2>>, <<3>>, <<1, 2>>, <<2, 1>>, <<1, 3>>, <<3, 1>>, <<2, 3>>, <<3, 2>>,
                <<1, 2, 3>>, <<1, 3, 2>>, <<2, 1, 3>>, <<2, 3, 1>>, <<3, 1, 2>>, <<3, 2, 1>>}
Layouts == {<<o, g, h, e>> : o \in BlockOrders, g \in {1, 2}, h \in BOOLEAN, e \in {0, 1}}
SynKeys == {<<"id", k>> : k \in {0, 1, 2, 11, 12, 21}}
      \cup {<<"name", nm>> : nm \in {Chars_Alpha, Chars_AlphaTwo, Chars_Beta, Chars_Gamma, Chars_Al, Chars_Delta,
                                      <<"A", "l", "p", "h">>, <<"a", "l", "p", "h", "a">>, <<"T", "w", "o">>,
                                      Chars_AlphaTwo \o <<";">> \o Chars_Beta, <<"G", "a", "m", "m", "a">>, <<"x">>, <<"1">>}}
\* keys for the real file: every id and name it holds, and keys it does not hold
RealKeys == {<<"id", k>> : k \in RealIds \cup {0, 7, 8, 17, 32, 111}}
       \cup {<<"name", nm>> : nm \in SeqSet(TableNames(RealText))}
       \cup {<<"name", nm>> : nm \in {<<"s", "t", "a", "n", "d", "a", "r", "d">>, S_Standard \o <<" ">>, <<"S", "t", "a", "n", "d">>,
                                      <<"M", "i", "t", "o", "c", "h", "o", "n", "d", "r", "i", "a", "l">>, <<"1">>, <<"B", "a", "c", "t", "e", "r", "i", "a", "l">>}}
TextOf(tr) == IF tr[1] = "real" THEN RealText ELSE Render(tr[2])

(* ---------------------------------------------------------------- what is observed of a table *)
AllRows == [k \in 1..64 |-> ToCodon(k - 1)]
\* probes that must be refused: <<kind, argument>>
BadProbes == <<<<"word", <<"A", "N", "G">>>>, <<"word", <<"A", "T">>>>, <<"word", <<"A", "T", "G", "A">>>>, <<"word", <<>>>>,
               <<"word", <<"R", "Y", "N">>>>, <<"code", <<1, 2>>>>, <<"code", <<0, 1, 2, 3>>>>, <<"code", <<>>>>,
               <<"map", <<<<0, 3>>, <<1, 1>>>>>>, <<"map", <<<<0, 1, 2, 3>>>>>>>>
ProbeOutcome(t, p) ==
  CASE p[1] = "word" -> AaOfWord(t, p[2]).oc
    [] p[1] = "code" -> AaCodeOfCode(t, p[2]).oc
    [] p[1] = "map"  -> MapCodonCodes(t, p[2]).oc
Obs(t) ==
  [aaOf        |-> [k \in 1..64 |-> AaOfWord(t, CodonWord(k - 1)).val],
   codonsOf    |-> [k \in DOMAIN ProtSyms |-> CodonsOfAa(t, ProtSyms[k])],
   aaCodeOf    |-> [k \in 1..64 |-> AaCodeOfCode(t, ToCodon(k - 1)).val],
   codonsOfCode |-> [k \in DOMAIN ProtSyms |-> CodonsOfAaCode(t, k - 1)],
   map         |-> MapCodonCodes(t, AllRows).val,
   mapEmpty    |-> MapCodonCodes(t, <<>>).val,
   dictSyms    |-> CodonDictSyms(t),
   dictCodes   |-> CodonDictCodes(t),
   starts      |-> StartSet(t),
   isStart     |-> IsStartCodon(t, AllRows),
   strEntries  |-> StrEntries(t),
   eqRebuilt   |-> TRUE,                 \* == a table built from codon_dict() and start_codons(); eval(repr(table))
   eqChanged   |-> FALSE,                \* == the table with one mapping changed / with another start codon set / 3
   probes      |-> [k \in DOMAIN BadProbes |-> ProbeOutcome(t, BadProbes[k])]]
Proj(r) == IF IsOk(r) THEN [oc |-> "ok", aa |-> r.val.aa, starts |-> StartSet(r.val)] ELSE [oc |-> "Rejected", aa |-> <<>>, starts |-> {}]

(* ---------------------------------------------------------------- cases *)
Tables4 == {<<"default">>, <<"id", 1>>, <<"id", 11>>, <<"id", 27>>, <<"syn", "odd">>}
SeqLetters == {"A", "c", "g", "T", "N", "y", "X"}
Fam(f) == f \in Families
Init ==
  /\ phase = 0 /\ res = <<>>
  /\ \/ Fam("translate") /\ \E n \in 0..MaxLen4 : \E s \in [1..n -> 0..3] : \E tr \in Tables4 : inp = <<"translate", s, tr, "fwd">>
     \/ Fam("translate") /\ \E n \in (MaxLen4 + 1)..MaxLen3 : \E s \in [1..n -> {0, 2, 3}] : inp = <<"translate", s, <<"default">>, "fwd">>
     \/ Fam("translate") /\ \E n \in (MaxLen4 + 1)..MaxLen3b : \E s \in [1..n -> {0, 2, 3}] : inp = <<"translate", s, <<"id", 11>>, "fwd">>
     \/ Fam("translate") /\ \E n \in 0..RcLen : \E s \in [1..n -> 0..3] : \E tr \in {<<"default">>, <<"id", 11>>} : inp = <<"translate", s, tr, "rc">>
     \/ Fam("seq") /\ \E n \in 0..SeqLen : \E s \in [1..n -> SeqLetters] : \E amb \in {"auto", "no", "yes"} : inp = <<"seq", s, amb>>
     \/ Fam("load") /\ \E key \in RealKeys : inp = <<"load", <<"real">>, key>>
     \/ Fam("load") /\ \E lay \in Layouts : \E key \in SynKeys : inp = <<"load", <<"syn", lay>>, key>>
     \/ Fam("names") /\ inp = <<"names", <<"real">>>>
     \/ Fam("names") /\ \E lay \in Layouts : inp = <<"names", <<"syn", lay>>>>
     \/ Fam("text") /\ inp = <<"text", <<"real">>>>
     \/ Fam("text") /\ \E lay \in Layouts : inp = <<"text", <<"syn", lay>>>>
     \/ Fam("table") /\ \E k \in RealIds : inp = <<"table", <<"id", k>>>>
     \/ Fam("table") /\ \E nm \in SynNames : inp = <<"table", <<"syn", nm>>>>
     \/ Fam("table") /\ inp = <<"table", <<"default">>>>
     \/ Fam("table") /\ \E r \in DerivedRefs : inp = <<"table", r>>
     \/ Fam("ctor") /\ \E v \in CtorNames : inp = <<"ctor", v>>
     \/ Fam("variants") /\ inp = <<"variants">>
     \/ Fam("pin") /\ inp = <<"pin">>

Eval(c) ==
  CASE c[1] = "translate" ->
         LET codes == IF c[4] = "rc" THEN RevComp(c[2]) ELSE c[2]
             t == TableOf(c[3]).val IN
         [complete |-> TranslateComplete(codes, t), orfs |-> OrfsDecl(codes, t, FALSE), orfsMet |-> OrfsDecl(codes, t, TRUE)]
    [] c[1] = "seq" ->
         LET m == MakeNuc(c[2], c[3]) IN
         [ctor |-> m.oc, amb |-> IF IsOk(m) THEN <<m.val.amb>> ELSE <<>>, text |-> IF IsOk(m) THEN m.val.syms ELSE <<>>,
          complete |-> IF IsOk(m) THEN Translate(m.val, TRUE, DefaultTable, FALSE) ELSE Rej,
          orfs |-> IF IsOk(m) THEN Translate(m.val, FALSE, DefaultTable, FALSE) ELSE Rej]
    [] c[1] = "load"  -> Proj(LoadImpl(TextOf(c[2]), c[3]))
    [] c[1] = "names" -> TableNames(TextOf(c[2]))
    [] c[1] = "text"  -> IF c[2][1] = "real" THEN <<>> ELSE Render(c[2][2])
    [] c[1] = "table" -> LET r == TableOf(c[2]) IN IF IsOk(r) THEN [oc |-> "ok", obs |-> <<Obs(r.val)>>] ELSE [oc |-> "Rejected", obs |-> <<>>]
    [] c[1] = "ctor"  -> Proj(Construct(CtorVariants[c[2]].pairs, CtorVariants[c[2]].starts))
    [] c[1] = "variants" -> [starts |-> StartVariants, maps |-> MapVariants, ctor |-> CtorVariants,
                             syn |-> [nm \in SynNames |-> [pairs |-> FullPairs(SynTables[nm]),
                                                           starts |-> [i \in DOMAIN SynTables[nm].starts |-> CodonWord(SynTables[nm].starts[i])]]],
                             probes |-> BadProbes]
    [] c[1] = "pin"   -> Proj(LoadImpl(RealText, <<"id", 1>>))

Compute == phase = 0 /\ phase' = 1 /\ res' = Eval(inp) /\ UNCHANGED inp
Spec == Init /\ [][Compute]_vars

(* ---------------------------------------------------------------- laws (checked on computed states) *)
Done(f) == phase = 1 /\ inp[1] = f
InvOrfs ==
  Done("translate") =>
    LET codes == IF inp[4] = "rc" THEN RevComp(inp[2]) ELSE inp[2]  t == TableOf(inp[3]).val IN
    Law_Orfs(codes, t) /\ Law_Complete(codes, t)
InvSeq ==
  Done("seq") =>
    /\ (res.ctor = "ok" /\ res.amb = <<TRUE>>) => (res.complete = Rej /\ res.orfs = Rej)
    /\ (res.ctor = "ok" /\ res.amb = <<FALSE>>) => (res.orfs.oc = "ok" /\ (res.complete.oc = "ok") = (Len(inp[2]) % 3 = 0))
InvLoad ==
  Done("load") =>
    LET text == TextOf(inp[2]) IN
    /\ Proj(LoadDecl(text, inp[3])) = res
    \* a table is found exactly for the ids and names the file holds; what is found is a table
    /\ (res.oc = "ok") = (IF inp[3][1] = "id" THEN inp[3][2] \in TableIds(text) ELSE InSeq(TableNames(text), inp[3][2]))
InvText == Done("text") => Dom_TableText(TextOf(inp[2]))
InvNames == Done("names") => \A i, j \in DOMAIN res : res[i] = res[j] => i = j
InvTable ==
  Done("table") =>
    LET r == TableOf(inp[2]) IN
    /\ IsOk(r) => (Dom_Table(r.val) /\ Law_Lookups(r.val))
    \* derived tables: the other half is kept
    /\ (IsOk(r) /\ inp[2][1] = "starts") => r.val.aa = TableOf(inp[2][2]).val.aa
    /\ (IsOk(r) /\ inp[2][1] = "map") => r.val.starts = TableOf(inp[2][2]).val.starts
    /\ (inp[2][1] = "starts" /\ inp[2][3] \in BadStarts) => ~IsOk(r)
    /\ (inp[2][1] = "map" /\ inp[2][3] \in BadMaps) => ~IsOk(r)
InvCtor == Done("ctor") => Law_Ctor(CtorVariants[inp[2]].pairs, CtorVariants[inp[2]].starts)
\* the file's table 1 is the standard genetic code; the default table is it with ATG as only start codon
InvPin ==
  Done("pin") => /\ res = [oc |-> "ok", aa |-> StdAA, starts |-> StdStarts]
                 /\ LoadImpl(RealText, <<"name", S_Standard>>) = LoadImpl(RealText, <<"id", 1>>)
                 /\ DefaultTable = DefTable
=============================================================================
