------------------------------- MODULE MC -------------------------------
(* X01, exhaustive single-call universe (pattern of specs/C03/SeqCodec.tla, specs/C19/MCTree.tla).

   An initial state is a case  inp = <<family, arguments...>>  (phase 0); one step computes what the
   specification says the call returns:  res = Eval(inp)  (phase 1).  TLC checks the laws of Codon.tla on
   every case (stage S1) and dumps all (inp, res) pairs; the driver executes every case against the real
   classes and compares with res (stage S2).

   The text of codon_tables.txt, the synthetic table files, tables and argument variants are defined in
   CodonUniverse.tla.  Synthetic table files are handed to the driver by the family "text"; codon tables and
   argument variants are referred to by name in the cases, the family "variants" publishes them. *)
EXTENDS CodonUniverse

CONSTANTS MaxLen4,     \* every string over A C G T of length 0..MaxLen4 is translated with every table of Tables4
          MaxLen3,     \* every string over A G T of length MaxLen4+1..MaxLen3 with the default table
          MaxLen3b,    \* ... of length MaxLen4+1..MaxLen3b with NCBI table 11 (seven start codons)
          MaxCodons,   \* sequences of 0..MaxCodons codons out of ATG TTG TAA GCA with 0..2 nucleotides before and after
          RcLen,       \* every string of length 0..RcLen goes through reverse().complement() first
          SeqLen,      \* strings over mixed-case / ambiguous / foreign letters of length 0..SeqLen
          Families     \* the families of cases to generate

VARIABLES inp, res, phase
vars == <<inp, res, phase>>

(* ---------------------------------------------------------------- cases *)
Tables4 == {<<"default">>, <<"id", 1>>, <<"id", 11>>, <<"id", 27>>, <<"syn", "odd">>}
SeqLetters == {"A", "c", "g", "T", "N", "y", "X"}
Fam(f) == f \in Families
\* codon-level sequences: many start codons in one frame, nested ORFs, several stops, every frame offset
CodonChoices == <<ToCodon(WordNum(W_ATG)), ToCodon(WordNum(W("T", "T", "G"))), ToCodon(WordNum(W("T", "A", "A"))), ToCodon(WordNum(W("G", "C", "A")))>>
Filler(n) == [i \in 1..n |-> 1]
Init ==
  /\ phase = 0 /\ res = <<>>
  /\ \/ Fam("translate") /\ \E n \in 0..MaxLen4 : \E s \in [1..n -> 0..3] : \E tr \in Tables4 : inp = <<"translate", s, tr, "fwd">>
     \/ Fam("translate") /\ \E n \in (MaxLen4 + 1)..MaxLen3 : \E s \in [1..n -> {0, 2, 3}] : inp = <<"translate", s, <<"default">>, "fwd">>
     \/ Fam("translate") /\ \E n \in (MaxLen4 + 1)..MaxLen3b : \E s \in [1..n -> {0, 2, 3}] : inp = <<"translate", s, <<"id", 11>>, "fwd">>
     \/ Fam("translate") /\ \E k \in 0..MaxCodons : \E cs \in [1..k -> 1..4] : \E pre \in 0..2 : \E suf \in 0..2 :
          \E tr \in {<<"default">>, <<"id", 11>>} :
            inp = <<"translate", Filler(pre) \o FlattenSeq([i \in 1..k |-> CodonChoices[cs[i]]]) \o Filler(suf), tr, "fwd">>
     \/ Fam("translate") /\ \E n \in 0..RcLen : \E s \in [1..n -> 0..3] : \E tr \in {<<"default">>, <<"id", 11>>} : inp = <<"translate", s, tr, "rc">>
     \/ Fam("seq") /\ \E n \in 0..SeqLen : \E s \in [1..n -> SeqLetters] : \E amb \in {"auto", "no", "yes"} : inp = <<"seq", s, amb>>
     \/ Fam("load") /\ \E key \in RealKeys : inp = <<"load", <<"real">>, key>>
     \/ Fam("load") /\ \E lay \in Layouts : \E key \in SynKeys : inp = <<"load", <<"syn", lay>>, key>>
     \/ Fam("names") /\ inp = <<"names", <<"real">>>>
     \/ Fam("names") /\ \E lay \in Layouts : inp = <<"names", <<"syn", lay>>>>
     \/ Fam("text") /\ inp = <<"text", <<"real">>>>
     \/ Fam("text") /\ \E lay \in Layouts : inp = <<"text", <<"syn", lay>>>>
     \/ Fam("table") /\ \E k \in RealIds : inp = <<"table", <<"id", k>>>>
     \/ Fam("table") /\ \E nm \in SynNames : inp = <<"table", <<"syn", nm>>>>
     \/ Fam("table") /\ inp = <<"table", <<"default">>>>
     \/ Fam("table") /\ \E r \in DerivedRefs : inp = <<"table", r>>
     \/ Fam("ctor") /\ \E v \in CtorNames : inp = <<"ctor", v>>
     \/ Fam("variants") /\ inp = <<"variants">>
     \/ Fam("pin") /\ inp = <<"pin">>

Eval(c) ==
  CASE c[1] = "translate" ->
         LET codes == IF c[4] = "rc" THEN RevComp(c[2]) ELSE c[2]
             t == TableOf(c[3]).val IN
         [complete |-> TranslateComplete(codes, t), orfs |-> OrfsDecl(codes, t, FALSE), orfsMet |-> OrfsDecl(codes, t, TRUE)]
    [] c[1] = "seq" ->
         LET m == MakeNuc(c[2], c[3]) IN
         [ctor |-> m.oc, amb |-> IF IsOk(m) THEN <<m.val.amb>> ELSE <<>>, text |-> IF IsOk(m) THEN m.val.syms ELSE <<>>,
          complete |-> IF IsOk(m) THEN Translate(m.val, TRUE, DefaultTable, FALSE) ELSE Rej,
          orfs |-> IF IsOk(m) THEN Translate(m.val, FALSE, DefaultTable, FALSE) ELSE Rej]
    [] c[1] = "load"  -> Bind(TextOf(c[2]), LAMBDA text : Proj(LoadImpl(text, c[3])))
    [] c[1] = "names" -> TableNames(TextOf(c[2]))
    [] c[1] = "text"  -> IF c[2][1] = "real" THEN <<>> ELSE Render(c[2][2])
    [] c[1] = "table" -> LET r == TableOf(c[2]) IN IF IsOk(r) THEN [oc |-> "ok", obs |-> <<Obs(r.val)>>] ELSE [oc |-> "Rejected", obs |-> <<>>]
    [] c[1] = "ctor"  -> Proj(Construct(CtorVariants[c[2]].pairs, CtorVariants[c[2]].starts))
    [] c[1] = "variants" -> [starts |-> StartVariants, maps |-> MapVariants, ctor |-> CtorVariants,
                             syn |-> [nm \in SynNames |-> [pairs |-> FullPairs(SynTables[nm]),
                                                           starts |-> [i \in DOMAIN SynTables[nm].starts |-> CodonWord(SynTables[nm].starts[i])]]],
                             probes |-> BadProbes, loadkeys |-> LoadKeys, probeDna |-> ProbeDna,
                             forms |-> <<CodonCodeForms, AaCodeForms, MapForms>>,
                             missing |-> [v \in {"noAAA", "noTTT", "noCTG", "noTwo", "empty"} |-> CodonWord(FirstMissing(CtorVariants[v].pairs))]]
    [] c[1] = "pin"   -> Proj(LoadImpl(RealText, <<"id", 1>>))

Compute == phase = 0 /\ phase' = 1 /\ res' = Eval(inp) /\ UNCHANGED inp
Spec == Init /\ [][Compute]_vars

(* ---------------------------------------------------------------- laws (checked on computed states) *)
Done(f) == phase = 1 /\ inp[1] = f
InvOrfs ==
  Done("translate") =>
    LET codes == IF inp[4] = "rc" THEN RevComp(inp[2]) ELSE inp[2]  t == TableOf(inp[3]).val IN
    Law_Orfs(codes, t) /\ Law_Complete(codes, t)
InvSeq ==
  Done("seq") =>
    /\ (res.ctor = "ok" /\ res.amb = <<TRUE>>) => (res.complete = Rej /\ res.orfs = Rej)
    /\ (res.ctor = "ok" /\ res.amb = <<FALSE>>) => (res.orfs.oc = "ok" /\ (res.complete.oc = "ok") = (Len(inp[2]) % 3 = 0))
InvLoad ==
  Done("load") =>
    Bind(TextOf(inp[2]), LAMBDA text :
      /\ Proj(LoadDecl(text, inp[3])) = res
      \* a table is found exactly for the ids and names the file holds
      /\ (res.oc = "ok") = (IF inp[3][1] = "id" THEN inp[3][2] \in TableIds(text) ELSE InSeq(TableNames(text), inp[3][2])))
InvText == Done("text") => Dom_TableText(TextOf(inp[2]))
InvNames == Done("names") => \A i, j \in DOMAIN res : res[i] = res[j] => i = j
InvTable ==
  Done("table") =>
    LET r == TableOf(inp[2]) IN
    /\ IsOk(r) => (Dom_Table(r.val) /\ Law_Lookups(r.val))
    \* derived tables: the other half is kept
    /\ (IsOk(r) /\ inp[2][1] = "starts") => r.val.aa = TableOf(inp[2][2]).val.aa
    /\ (IsOk(r) /\ inp[2][1] = "map") => r.val.starts = TableOf(inp[2][2]).val.starts
    /\ (inp[2][1] = "starts" /\ inp[2][3] \in BadStarts) => ~IsOk(r)
    /\ (inp[2][1] = "map" /\ inp[2][3] \in BadMaps) => ~IsOk(r)
InvCtor ==
  Done("ctor") => /\ Law_Ctor(CtorVariants[inp[2]].pairs, CtorVariants[inp[2]].starts)
                  \* the codon the error message names: the first missing one in number order
                  /\ (inp[2] = "noTwo" => FirstMissing(CtorVariants[inp[2]].pairs) = 5)
                  /\ (inp[2] = "empty" => FirstMissing(CtorVariants[inp[2]].pairs) = 0)
\* the file's table 1 is the standard genetic code; the default table is it with ATG as only start codon
InvPin ==
  Done("pin") => /\ res = [oc |-> "ok", aa |-> StdAA, starts |-> StdStarts]
                 /\ LoadImpl(RealText, <<"name", S_Standard>>) = LoadImpl(RealText, <<"id", 1>>)
                 /\ DefaultTable = DefTable
=============================================================================
