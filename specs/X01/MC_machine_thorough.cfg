SPECIFICATION Spec
CONSTANTS
  MaxTabs = 3
  Depth = 5
  Rich = TRUE
CONSTRAINT DepthBound
INVARIANT InvTables
INVARIANT InvGlobals
PROPERTY Immutable
CHECK_DEADLOCK FALSE
