SPECIFICATION Spec
CONSTANTS
  MaxLen4 = 8
  MaxLen3 = 10
  MaxLen3b = 9
  MaxCodons = 6
  RcLen = 6
  SeqLen = 4
  Families = {"translate", "seq", "load", "names", "text", "table", "ctor", "variants", "pin"}
INVARIANT InvOrfs
INVARIANT InvSeq
INVARIANT InvLoad
INVARIANT InvText
INVARIANT InvNames
INVARIANT InvTable
INVARIANT InvCtor
INVARIANT InvPin
CHECK_DEADLOCK FALSE
