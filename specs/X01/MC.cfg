SPECIFICATION Spec
CONSTANTS
  MaxLen4 = 6
  MaxLen3 = 9
  MaxLen3b = 8
  MaxCodons = 5
  RcLen = 5
  SeqLen = 3
  Families = {"translate", "seq", "load", "names", "text", "table", "ctor", "variants", "pin"}
INVARIANT InvOrfs
INVARIANT InvSeq
INVARIANT InvLoad
INVARIANT InvText
INVARIANT InvNames
INVARIANT InvTable
INVARIANT InvCtor
INVARIANT InvPin
CHECK_DEADLOCK FALSE
