------------------------------- MODULE Trace -------------------------------
(* X01 code -> spec: calls recorded from the real API, recomputed with the operators of Codon.tla.
   TRACE_FILE holds a JSON array of traces, a trace is an array of events; every event carries its inputs
   and is judged on its own (a "history" event is a whole history of calls on a registry of tables).
   X01_TEXT names the JSON form of codon_tables.txt (see CodonUniverse).  Characters are one-letter strings,
   words / lines arrays of characters, sets arrive as sorted arrays.

   A table source (field src, also inside histories):
     [k |-> "default"]                      CodonTable.default_table()   (codon_table=None in translate)
     [k |-> "id", id |-> n]                 CodonTable.load(n)
     [k |-> "name", name |-> chars]         CodonTable.load("...")
     [k |-> "dict", pairs |-> <<<<word, aa>>...>>, starts |-> <<word...>>]     CodonTable(dict, starts)
     [k |-> "text", text |-> lines, key |-> <<"id", n>> / <<"name", chars>>]  load() from another table file
     [k |-> "starts", base |-> src, starts |-> words]   base.with_start_codons(starts)
     [k |-> "map", base |-> src, pairs |-> items]       base.with_codon_mappings(dict)

   Events (field op):
     "table"      src; obs = the observations of CodonUniverse!Obs (sets as sorted arrays), made through every
                  way of handing over a codon code / amino acid code that gave an answer
     "make"       src; obs = [oc, aa, starts]: the outcome of building the table and what it holds
     "names"      text; obs = table_names()
     "lookup"     src, kind ("word": table["ATG"], "aa": table["M"], "code": table[(0, 3, 2)], "aacode": table[10]), arg;
                  obs = [oc, val] (val: a sequence; sets of codons as sorted arrays of numbers)
     "translate"  src, seq (characters), amb ("auto" / "no" / "yes"), strand ("fwd" / "rc" = reverse().complement()
                  first), complete, met; obs = [ctor, oc, val]: outcome of the constructor, outcome of
                  translate, the protein (complete) or <<<<start, stop, protein>>...>> (ORF mode)
     "history"    calls = <<[c, slot, src / starts / pairs, oc, reg, def]...>>: c \in {"make", "with_starts",
                  "with_map", "poke", "translate"}; reg = <<[aa, starts]...>> all tables held after the call,
                  def = default_table() after the call

   PrintT(<<"MISMATCH", tid, l, flags, expected>>) for disagreements (the run goes on). *)
EXTENDS CodonUniverse

Tr == JsonDeserialize(IOEnv.TRACE_FILE)

VARIABLES tid, l
tvars == <<tid, l>>

KeyOf(k) == <<k[1], k[2]>>
RECURSIVE TableOfSrc(_)
TableOfSrc(src) ==
  CASE src.k = "default" -> Ok(DefaultTable)
    [] src.k = "id"      -> LoadImpl(RealText, <<"id", src.id>>)
    [] src.k = "name"    -> LoadImpl(RealText, <<"name", src.name>>)
    [] src.k = "dict"    -> Construct(src.pairs, src.starts)
    [] src.k = "text"    -> LoadImpl(src.text, KeyOf(src.key))
    [] src.k = "starts"  -> LET b == TableOfSrc(src.base) IN IF IsOk(b) THEN WithStarts(b.val, src.starts) ELSE Rej
    [] src.k = "map"     -> LET b == TableOfSrc(src.base) IN IF IsOk(b) THEN WithMappings(b.val, src.pairs) ELSE Rej
\* the inputs are inside what the specification speaks about
RECURSIVE Dom_Src(_)
Dom_Src(src) ==
  CASE src.k = "dict"   -> Dom_Ctor(src.pairs, src.starts)
    [] src.k = "text"   -> Dom_TableText(src.text)
    [] src.k = "starts" -> Dom_Src(src.base) /\ Len(src.starts) >= 1
    [] src.k = "map"    -> Dom_Src(src.base)
    [] OTHER -> TRUE

AllTrue(flags) == \A q \in DOMAIN flags : flags[q]
Report(flags, expected) == IF AllTrue(flags) THEN TRUE ELSE PrintT(<<"MISMATCH", tid, l + 1, flags, expected>>)

ObsFields == <<"aaOf", "codonsOf", "aaCodeOf", "codonsOfCode", "map", "mapEmpty", "dictSyms", "dictCodes", "starts",
               "isStart", "strEntries", "eqRebuilt", "eqChanged", "probes", "codeForms", "aaCodeForms", "mapForms">>
SetSeq(S) == Sorted(S)
\* the expected observations in the shape they are logged in (sets as sorted arrays; entries of str() sorted by codon)
ObsLogged(t) ==
  LET o == Obs(t) IN
  [o EXCEPT !.codonsOf = [k \in DOMAIN o.codonsOf |-> SetSeq(o.codonsOf[k])],
            !.codonsOfCode = [k \in DOMAIN o.codonsOfCode |-> SetSeq(o.codonsOfCode[k])],
            !.starts = SetSeq(o.starts),
            !.strEntries = [n \in 1..64 |-> <<n - 1, AaOf(t, n - 1), (n - 1) \in StartSet(t)>>]]
JudgeTable(e) ==
  \E r \in {TableOfSrc(e.src)} :
    IF ~IsOk(r) THEN Report(<<Dom_Src(e.src), FALSE>>, <<"the table cannot be built">>)
    ELSE \E exp \in {ObsLogged(r.val)} :
         Report(<<Dom_Src(e.src)>> \o [k \in DOMAIN ObsFields |-> e.obs[ObsFields[k]] = exp[ObsFields[k]]], exp)

ProjLogged(r) == IF IsOk(r) THEN [oc |-> "ok", aa |-> r.val.aa, starts |-> SetSeq(StartSet(r.val))]
                 ELSE [oc |-> "Rejected", aa |-> <<>>, starts |-> <<>>]
JudgeMake(e) ==
  \E exp \in {ProjLogged(TableOfSrc(e.src))} :
    Report(<<Dom_Src(e.src), e.obs.oc = exp.oc, e.obs.aa = exp.aa, e.obs.starts = exp.starts>>, exp)

JudgeNames(e) ==
  \E exp \in {TableNames(e.text)} : Report(<<Dom_TableText(e.text), e.obs = exp>>, exp)

\* single lookups (recorded from the repository's tests); refusals are judged for codon words only
JudgeLookup(e) ==
  \E r \in {TableOfSrc(e.src)} :
    \E exp \in {CASE e.kind = "word" -> LET a == AaOfWord(r.val, e.arg) IN [oc |-> a.oc, val |-> IF IsOk(a) THEN <<a.val>> ELSE <<>>]
                  [] e.kind = "aa"   -> [oc |-> "ok", val |-> SetSeq(CodonsOfAa(r.val, e.arg[1]))]
                  [] e.kind = "code" -> LET a == AaCodeOfCode(r.val, e.arg) IN [oc |-> a.oc, val |-> IF IsOk(a) THEN <<a.val>> ELSE <<>>]
                  [] e.kind = "aacode" -> [oc |-> "ok", val |-> SetSeq(CodonsOfAaCode(r.val, e.arg[1]))]} :
      Report(<<IsOk(r) /\ (e.kind = "aa" => IsProtSym(e.arg[1])) /\ (e.kind = "code" => Dom_CodonCode(e.arg)),
               e.obs.oc = exp.oc, exp.oc # "ok" \/ e.obs.val = exp.val>>, exp)

JudgeTranslate(e) ==
  \E r \in {TableOfSrc(e.src)} : \E m \in {MakeNuc(e.seq, e.amb)} :
    \E exp \in {IF ~IsOk(m) THEN [ctor |-> "Rejected", oc |-> "Rejected", val |-> <<>>]
                ELSE LET obj == IF e.strand = "rc" /\ ~m.val.amb
                                  THEN [m.val EXCEPT !.syms = [i \in DOMAIN m.val.syms |-> NucSyms[RevComp(CodesOf(m.val.syms))[i] + 1]]]
                                  ELSE m.val
                         tr == Translate(obj, e.complete, r.val, e.met)
                     IN [ctor |-> "ok", oc |-> tr.oc, val |-> tr.val]} :
      Report(<<Dom_Src(e.src) /\ IsOk(r) /\ Dom_Translate(e.complete, e.met),
               e.obs.ctor = exp.ctor, e.obs.oc = exp.oc, exp.oc # "ok" \/ e.obs.val = exp.val>>, exp)

\* a history: the registry model is folded over the calls; after every call the logged registry and the logged
\* default table are compared with the model (tables made earlier never change)
TabProj(t) == [aa |-> t.aa, starts |-> SetSeq(StartSet(t))]
HistStep(st, c) ==
  LET made == CASE c.c = "make"        -> TableOfSrc(c.src)
                [] c.c = "with_starts" -> WithStarts(st.reg[c.slot], c.starts)
                [] c.c = "with_map"    -> WithMappings(st.reg[c.slot], c.pairs)
                [] OTHER               -> Rej
      makes == c.c \in {"make", "with_starts", "with_map"}
      reg2 == IF makes /\ IsOk(made) THEN Append(st.reg, made.val) ELSE st.reg
      oc2 == IF makes THEN made.oc ELSE "ok"
      ok == /\ c.oc = oc2
            /\ c.reg = [i \in DOMAIN reg2 |-> TabProj(reg2[i])]
            /\ c.def = TabProj(DefaultTable)
            /\ (c.c = "translate" => c.out = OrfsDecl(Dna(c.seq), st.reg[c.slot], c.met))
  IN [reg |-> reg2, flags |-> Append(st.flags, ok)]
JudgeHistory(e) ==
  \E fin \in {FoldLeft(HistStep, [reg |-> <<>>, flags |-> <<>>], e.calls)} :
    Report(fin.flags, [i \in DOMAIN fin.reg |-> TabProj(fin.reg[i])])

Judge(e) ==
  CASE e.op = "table"     -> JudgeTable(e)
    [] e.op = "make"      -> JudgeMake(e)
    [] e.op = "names"     -> JudgeNames(e)
    [] e.op = "translate" -> JudgeTranslate(e)
    [] e.op = "lookup"    -> JudgeLookup(e)
    [] e.op = "history"   -> JudgeHistory(e)

Init == tid \in 1..Len(Tr) /\ l = 0
Next == /\ l < Len(Tr[tid])
        /\ Judge(Tr[tid][l + 1])
        /\ l' = l + 1
        /\ UNCHANGED tid
Spec == Init /\ [][Next]_tvars
=============================================================================
