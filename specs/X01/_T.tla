---- MODULE _T ----
EXTENDS MC
VARIABLE x
TSpec == x = 0 /\ [][FALSE]_x
ASSUME PrintT(<<"t0", JavaTime>>)
ASSUME PrintT(<<"val", Cardinality(DerivedRefs)>>)
ASSUME PrintT(<<"t1", JavaTime>>)
====
