------------------------------- MODULE CodonUniverse -------------------------------
(* X01: the named things the configurations and the driver talk about -- the text of codon_tables.txt (handed
   in through the environment: X01_TEXT names a JSON file holding the lines of the file as arrays of
   one-character strings, written by the driver from the file biotite itself reads), synthetic codon tables,
   argument variants for the constructor / with_start_codons / with_codon_mappings, synthetic table files
   (Render), table references (TableOf) and the bundle of observations made of one table (Obs). *)
EXTENDS Codon, Json, IOUtils

RealText == JsonDeserialize(IOEnv.X01_TEXT)

(* ---------------------------------------------------------------- tables and argument variants *)
W(a, b, c) == <<a, b, c>>
\* synthetic tables without relation to biology: "odd" has stop codons that are start codons, start codons
\* that do not code for M, and the symbols B Z X; "nostop" has no stop codon at all
SynTables ==
  [odd    |-> [aa |-> [k \in 1..64 |-> IF (k - 1) % 7 = 3 THEN Stop ELSE ProtSyms[(((k - 1) * 5 + 2) % 23) + 1]],
               starts |-> <<WordNum(W("A", "A", "T")), WordNum(W("T", "A", "A")), WordNum(W("G", "G", "G")), WordNum(W("A", "T", "T"))>>],
   nostop |-> [aa |-> [k \in 1..64 |-> ProtSyms[((k - 1) % 20) + 1]],
               starts |-> <<WordNum(W_ATG), WordNum(W("T", "T", "T"))>>]]
SynNames == {"odd", "nostop"}
StartVariants ==
  [atg    |-> <<W_ATG>>,
   two    |-> <<W("T", "T", "G"), W("A", "A", "A")>>,
   stop   |-> <<W("T", "A", "A")>>,                                  \* a stop codon as start codon
   endT   |-> <<W("A", "T", "T"), W("G", "G", "T"), W_ATG>>,           \* start codons ending in T
   twice  |-> <<W_ATG, W_ATG>>,
   short  |-> <<<<"A", "T">>>>,                                      \* incomplete: refused
   long   |-> <<<<"A", "T", "G", "A">>>>,
   amb    |-> <<W("A", "N", "G")>>,                                  \* ambiguous: refused
   mixed  |-> <<W_ATG, <<"G">>>>,
   one    |-> <<<<"G">>>>,                                           \* incomplete: to be refused (finding)
   ones   |-> <<<<"A">>, <<"T">>, <<"G">>>>]
GoodStarts == {"atg", "two", "stop", "endT", "twice"}
BadStarts  == {"short", "long", "amb", "mixed", "one", "ones"}
MapVariants ==
  [none  |-> <<>>,
   one   |-> <<<<W("A", "A", "A"), "W">>>>,
   stops |-> <<<<W_ATG, "*">>, <<W("T", "A", "A"), "Q">>, <<W("T", "T", "T"), "X">>>>,
   amb   |-> <<<<W("A", "A", "R"), "K">>>>,                            \* ambiguous codon: refused
   noaa  |-> <<<<W("A", "A", "A"), "J">>>>]                            \* not an amino acid symbol: refused
GoodMaps == {"none", "one", "stops"}
BadMaps  == {"amb", "noaa"}

DefaultTable == WithStarts(LoadDecl(RealText, <<"name", S_Standard>>).val, <<W_ATG>>).val
RealIds == TableIds(RealText)
LoadedById == TLCEval([k \in RealIds |-> LoadImpl(RealText, <<"id", k>>)])

\* a table reference: <<"default">>, <<"id", k>>, <<"syn", name>>, <<"starts", ref, variant>>, <<"map", ref, variant>>
RECURSIVE TableOf(_)
TableOf(ref) ==
  CASE ref[1] = "default" -> Ok(DefaultTable)
    [] ref[1] = "id"      -> LoadedById[ref[2]]
    [] ref[1] = "syn"     -> Ok(SynTables[ref[2]])
    [] ref[1] = "starts"  -> LET b == TableOf(ref[2]) IN IF IsOk(b) THEN WithStarts(b.val, StartVariants[ref[3]]) ELSE Rej
    [] ref[1] = "map"     -> LET b == TableOf(ref[2]) IN IF IsOk(b) THEN WithMappings(b.val, MapVariants[ref[3]]) ELSE Rej
BaseRefs == {<<"default">>, <<"id", 11>>, <<"syn", "odd">>}
DerivedRefs == {<<"starts", b, v>> : b \in BaseRefs, v \in GoodStarts \cup BadStarts}
          \cup {<<"map", b, v>> : b \in BaseRefs, v \in GoodMaps \cup BadMaps}
          \cup {<<"map", <<"starts", <<"default">>, "two">>, "stops">>, <<"starts", <<"map", <<"id", 11>>, "stops">>, "endT">>}

\* constructor cases: dictionary items and start codons
FullPairs(t) == [k \in 1..64 |-> <<CodonWord(k - 1), t.aa[k]>>]
Without(pairs, n) == SelectSeq(pairs, LAMBDA p : WordNum(p[1]) # n)
CtorVariants ==
  [full     |-> [pairs |-> FullPairs(StdTable), starts |-> <<W_ATG>>],
   reversed |-> [pairs |-> [k \in 1..64 |-> FullPairs(SynTables.odd)[65 - k]], starts |-> <<W("T", "T", "G"), W_ATG>>],
   noAAA    |-> [pairs |-> Without(FullPairs(StdTable), 0), starts |-> <<W_ATG>>],
   noTTT    |-> [pairs |-> Without(FullPairs(StdTable), 63), starts |-> <<W_ATG>>],
   noCTG    |-> [pairs |-> Without(FullPairs(StdTable), WordNum(W("C", "T", "G"))), starts |-> <<W_ATG>>],
   noTwo    |-> [pairs |-> Without(Without(FullPairs(StdTable), 17), 5), starts |-> <<W_ATG>>],
   empty    |-> [pairs |-> <<>>, starts |-> <<W_ATG>>],
   ambKey   |-> [pairs |-> FullPairs(StdTable) \o <<<<W("A", "N", "A"), "K">>>>, starts |-> <<W_ATG>>],
   start2   |-> [pairs |-> FullPairs(StdTable), starts |-> <<<<"A", "T">>>>],
   start4   |-> [pairs |-> FullPairs(StdTable), starts |-> <<W_ATG, <<"A", "T", "G", "G">>>>],
   startN   |-> [pairs |-> FullPairs(StdTable), starts |-> <<W("N", "T", "G")>>],
   start1   |-> [pairs |-> FullPairs(StdTable), starts |-> <<<<"A">>>>]]
CtorNames == DOMAIN CtorVariants

\* keys load() is asked for in the histories of TableMachine, by name
LoadKeys == [id1 |-> <<"id", 1>>, id11 |-> <<"id", 11>>, id2 |-> <<"id", 2>>, id9 |-> <<"id", 9>>,
             nameStd |-> <<"name", S_Standard>>,
             nameFlat |-> <<"name", <<"F", "l", "a", "t", "w", "o", "r", "m", " ", "M", "i", "t", "o", "c", "h", "o", "n", "d", "r", "i", "a", "l">>>>,
             id7 |-> <<"id", 7>>]                                     \* no such table: refused

\* the sequence translate() is asked for: start codons of several tables, nested, a stop
ProbeDna == Dna(<<"T", "T", "G", "A", "T", "G", "A", "A", "A", "T", "A", "A", "T", "G">>)


(* ---------------------------------------------------------------- synthetic table files *)
Chars_Alpha == <<"A", "l", "p", "h", "a">>
Chars_AlphaTwo == <<"A", "l", "p", "h", "a", " ", "T", "w", "o">>
Chars_Beta == <<"B", "e", "t", "a">>
Chars_Gamma == <<"G", "a", "m", "m", "a", ",", " ", "x">>
Chars_Al == <<"A", "l">>
Chars_Delta == <<"D", "e", "l", "t", "a">>
\* column orders: the order of the NCBI file (T C A G nested), the order of the codon numbers, and that reversed
ColsFile == LET o == <<3, 1, 0, 2>> IN
            [i \in 1..64 |-> Num(<<o[((i - 1) \div 16) + 1], o[(((i - 1) % 16) \div 4) + 1], o[((i - 1) % 4) + 1]>>)]
ColsNum  == [i \in 1..64 |-> i - 1]
ColsRev  == [i \in 1..64 |-> 64 - i]
SynBlocks ==
  <<[names |-> <<Chars_Alpha>>, id |-> 1, cols |-> ColsFile, t |-> SynTables.odd, order |-> <<1, 2, 3, 4, 5>>,
     width |-> 7, sep |-> <<";", " ">>, trail |-> 0],
    [names |-> <<Chars_AlphaTwo, Chars_Beta>>, id |-> 11, cols |-> ColsNum, t |-> StdTable, order |-> <<3, 4, 5, 1, 2>>,
     width |-> 5, sep |-> <<";">>, trail |-> 2],
    [names |-> <<Chars_Gamma, Chars_Al, Chars_Delta>>, id |-> 2, cols |-> ColsRev, t |-> SynTables.nostop, order |-> <<5, 1, 4, 2, 3>>,
     width |-> 9, sep |-> <<" ", ";", " ", " ">>, trail |-> 0]>>
IntText(n) == IF n < 10 THEN <<Digits[n + 1]>> ELSE <<Digits[(n \div 10) + 1], Digits[(n % 10) + 1]>>
Blanks(k) == [i \in 1..k |-> " "]
Join(parts, sep) == FoldLeft(LAMBDA acc, k : IF k = 1 THEN parts[1] ELSE acc \o sep \o parts[k], <<>>, [k \in DOMAIN parts |-> k])
RenderBlock(b) ==
  LET cw(i) == CodonWord(b.cols[i])
      data == <<[i \in 1..64 |-> AaOf(b.t, b.cols[i])],
                [i \in 1..64 |-> IF b.cols[i] \in StartSet(b.t) THEN "i" ELSE "-"],
                [i \in 1..64 |-> cw(i)[1]], [i \in 1..64 |-> cw(i)[2]], [i \in 1..64 |-> cw(i)[3]]>>
      line(k) == DataLabels[k] \o Blanks(b.width - Len(DataLabels[k])) \o data[k] \o Blanks(b.trail)
  IN <<S_name \o <<" ">> \o Join(b.names, b.sep), S_id \o <<" ">> \o IntText(b.id)>>
     \o [k \in 1..5 |-> line(b.order[k])]
HeadLines == <<<<"#", " ", "t", "e", "s", "t">>, <<"#">>, <<>>>>
\* layout = <<order of blocks, empty lines between blocks, head comment?, empty strings at the end of split("\n")>>
Render(layout) ==
  LET blocks == [k \in DOMAIN layout[1] |-> RenderBlock(SynBlocks[layout[1][k]])]
      gap == [i \in 1..layout[2] |-> <<>>]
      body == FoldLeft(LAMBDA acc, k : IF k = 1 THEN blocks[1] ELSE acc \o gap \o blocks[k], <<>>, [k \in DOMAIN blocks |-> k])
  IN (IF layout[3] THEN HeadLines ELSE <<>>) \o body \o [i \in 1..layout[4] |-> <<>>]
BlockOrders == {<<1>>, <<2>>, <<3>>, <<1, 2>>, <<2, 1>>, <<1, 3>>, <<3, 1>>, <<2, 3>>, <<3, 2>>,
                <<1, 2, 3>>, <<1, 3, 2>>, <<2, 1, 3>>, <<2, 3, 1>>, <<3, 1, 2>>, <<3, 2, 1>>}
Layouts == {<<o, g, h, e>> : o \in BlockOrders, g \in {1, 2}, h \in BOOLEAN, e \in {0, 1}}
SynKeys == {<<"id", k>> : k \in {0, 1, 2, 11, 12, 21}}
      \cup {<<"name", nm>> : nm \in {Chars_Alpha, Chars_AlphaTwo, Chars_Beta, Chars_Gamma, Chars_Al, Chars_Delta,
                                      <<"A", "l", "p", "h">>, <<"a", "l", "p", "h", "a">>, <<"T", "w", "o">>,
                                      Chars_AlphaTwo \o <<";">> \o Chars_Beta, <<"G", "a", "m", "m", "a">>, <<"x">>, <<"1">>}}
\* keys for the real file: every id and name it holds, and keys it does not hold
RealKeys == {<<"id", k>> : k \in RealIds \cup {0, 7, 8, 17, 32, 111}}
       \cup {<<"name", nm>> : nm \in SeqSet(TableNames(RealText))}
       \cup {<<"name", nm>> : nm \in {<<"s", "t", "a", "n", "d", "a", "r", "d">>, S_Standard \o <<" ">>, <<"S", "t", "a", "n", "d">>,
                                      <<"M", "i", "t", "o", "c", "h", "o", "n", "d", "r", "i", "a", "l">>, <<"1">>, <<"B", "a", "c", "t", "e", "r", "i", "a", "l">>}}
TextOf(tr) == IF tr[1] = "real" THEN RealText ELSE Render(tr[2])

(* ---------------------------------------------------------------- what is observed of a table *)
AllRows == [k \in 1..64 |-> ToCodon(k - 1)]
\* the forms in which codes are handed over; what a call means does not depend on the form
\* (the class hands out numpy integers itself: table[(1, 2, 3)] is one)
CodonCodeForms == <<"tuple", "list", "array_int64", "array_uint8">>        \* table[codon code]
AaCodeForms    == <<"int", "numpy_int64", "numpy_uint8">>                  \* table[amino acid code]
MapForms       == <<"int64", "uint8", "int32">>                            \* element type of map_codon_codes / is_start_codon input
\* probes that must be refused: <<kind, argument>>
BadProbes == <<<<"word", <<"A", "N", "G">>>>, <<"word", <<"A", "T">>>>, <<"word", <<"A", "T", "G", "A">>>>, <<"word", <<>>>>,
               <<"word", <<"R", "Y", "N">>>>, <<"code", <<1, 2>>>>, <<"code", <<0, 1, 2, 3>>>>, <<"code", <<>>>>,
               <<"map", <<<<0, 3>>, <<1, 1>>>>>>, <<"map", <<<<0, 1, 2, 3>>>>>>, <<"map", <<<<2>>>>>>, <<"code", <<2>>>>>>
ProbeOutcome(t, p) ==
  CASE p[1] = "word" -> AaOfWord(t, p[2]).oc
    [] p[1] = "code" -> AaCodeOfCode(t, p[2]).oc
    [] p[1] = "map"  -> MapCodonCodes(t, p[2]).oc
Obs(t) ==
  [aaOf        |-> [k \in 1..64 |-> AaOfWord(t, CodonWord(k - 1)).val],
   codonsOf    |-> [k \in DOMAIN ProtSyms |-> CodonsOfAa(t, ProtSyms[k])],
   aaCodeOf    |-> [k \in 1..64 |-> AaCodeOfCode(t, ToCodon(k - 1)).val],
   codonsOfCode |-> [k \in DOMAIN ProtSyms |-> CodonsOfAaCode(t, k - 1)],
   map         |-> MapCodonCodes(t, AllRows).val,
   mapEmpty    |-> MapCodonCodes(t, <<>>).val,
   dictSyms    |-> CodonDictSyms(t),
   dictCodes   |-> CodonDictCodes(t),
   starts      |-> StartSet(t),
   isStart     |-> IsStartCodon(t, AllRows),
   strEntries  |-> StrEntries(t),
   eqRebuilt   |-> TRUE,                 \* == a table built from codon_dict() and start_codons(); eval(repr(table))
   eqChanged   |-> FALSE,                \* == the table with one mapping changed / with another start codon set / 3
   probes      |-> [k \in DOMAIN BadProbes |-> ProbeOutcome(t, BadProbes[k])],
   \* every form gives the answers listed above ("same"; the driver reports "differs" or "Rejected" otherwise)
   codeForms   |-> [k \in DOMAIN CodonCodeForms |-> "same"],
   aaCodeForms |-> [k \in DOMAIN AaCodeForms |-> "same"],
   mapForms    |-> [k \in DOMAIN MapForms |-> "same"]]
Proj(r) == IF IsOk(r) THEN [oc |-> "ok", aa |-> r.val.aa, starts |-> StartSet(r.val)] ELSE [oc |-> "Rejected", aa |-> <<>>, starts |-> {}]
=============================================================================
