SPECIFICATION TSpec
CONSTANTS
  MaxLen4 = 1
  MaxLen3 = 1
  MaxLen3b = 1
  RcLen = 1
  SeqLen = 1
  Families = {"variants"}
CHECK_DEADLOCK FALSE
