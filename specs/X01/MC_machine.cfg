SPECIFICATION Spec
CONSTANTS
  MaxTabs = 2
  Depth = 4
  Rich = FALSE
CONSTRAINT DepthBound
INVARIANT InvTables
INVARIANT InvGlobals
PROPERTY Immutable
CHECK_DEADLOCK FALSE
