SPECIFICATION Spec
CONSTANTS
  MaxLen4 = 3
  MaxLen3 = 4
  MaxLen3b = 4
  RcLen = 2
  SeqLen = 2
  Families = {"variants"}
INVARIANT InvOrfs
INVARIANT InvSeq
INVARIANT InvLoad
INVARIANT InvText
INVARIANT InvNames
INVARIANT InvTable
INVARIANT InvCtor
INVARIANT InvPin
CHECK_DEADLOCK FALSE
