------------------------------- MODULE Codon -------------------------------
(* X01: biotite.sequence.CodonTable (codon.py), the table file codon_tables.txt and
   NucleotideSequence.translate (seqtypes.py).

   Text is modelled at the level of characters: a character is a one-letter string, a line a
   sequence of characters, a file a sequence of lines (what `f.read().split("\n")` yields).
   Nucleotide codes are 0..3 (A C G T), a codon is a triple of codes, its number 16a+4b+c.
   A codon table is  [aa |-> 64 amino acid symbols indexed by number+1, starts |-> sequence of
   codon numbers in the order given].  Proteins are sequences of amino acid symbols.

   One operator per public call.  Results of calls that may refuse are [oc, val] with
   oc \in {"ok", "Rejected"} ("Rejected" = any exception; the statement names no classes).
   Decl definitions state the property, Impl definitions follow the shape of the code
   (line scanner of load(), -1 filled array of __init__, radix sums, per-frame ORF scan, the
   character arithmetic of __str__); the laws at the end relate them (stage S1).

   Num / ToCodon / OrfsDecl / OrfsImpl restate operators of specs/C03/SeqCodecOps.tla (C03 checks
   them for tables handed over as explicit dictionaries, up to length 5 / 7); here they work on
   symbols, the tables come from the table text, and the remaining calls of the area are added. *)
EXTENDS Integers, Sequences, FiniteSets, SequencesExt, FiniteSetsExt, TLC

Ok(v)  == [oc |-> "ok", val |-> v]
Rej    == [oc |-> "Rejected", val |-> <<>>]
IsOk(r) == r.oc = "ok"

(* ------------------------------------------------------------------ characters *)
InSeq(alph, s)   == \E i \in DOMAIN alph : alph[i] = s
IndexOf(alph, s) == CHOOSE i \in DOMAIN alph : alph[i] = s              \* 1-based
SeqSet(s)        == {s[i] : i \in DOMAIN s}
Sorted(S)        == SetToSortSeq(S, LAMBDA x, y : x < y)

NucSyms  == <<"A", "C", "G", "T">>
AmbSyms  == <<"A", "C", "G", "T", "R", "Y", "W", "S", "M", "K", "H", "B", "V", "D", "N">>
ProtSyms == <<"A", "C", "D", "E", "F", "G", "H", "I", "K", "L", "M", "N", "P", "Q", "R", "S", "T", "V", "W", "Y",
              "B", "Z", "X", "*">>
Stop == "*"
Met  == "M"
Lower == <<"a", "c", "g", "t", "r", "y", "w", "s", "m", "k", "h", "b", "v", "d", "n">>
Upper(ch) == IF InSeq(Lower, ch) THEN AmbSyms[IndexOf(Lower, ch)] ELSE ch
Digits == <<"0", "1", "2", "3", "4", "5", "6", "7", "8", "9">>

\* codes = 0-based places in the alphabets (explicit functions: TLC evaluates [x \in S |-> e] anew at every use)
NucCodeFn  == TLCEval([ch \in SeqSet(NucSyms) |-> IndexOf(NucSyms, ch) - 1])
ProtCodeFn == TLCEval([ch \in SeqSet(ProtSyms) |-> IndexOf(ProtSyms, ch) - 1])
NucCode(ch)  == NucCodeFn[ch]
ProtCode(ch) == ProtCodeFn[ch]
IsNucWord(w) == \A i \in DOMAIN w : w[i] \in DOMAIN NucCodeFn
IsProtSym(ch) == ch \in DOMAIN ProtCodeFn
\* Bind(v, F): F(v) with v evaluated once (TLC may evaluate a LET definition again at every use)
Bind(v, F(_)) == CHOOSE r \in {F(x) : x \in {v}} : TRUE

(* ------------------------------------------------------------------ codon numbers *)
Num(c) == 16 * c[1] + 4 * c[2] + c[3]
ToCodon(n) == <<n \div 16, (n % 16) \div 4, n % 4>>
\* CodonTable._to_number: sum of the radix multipliers (16, 4, 1) times the codes
NumImpl(c) == FoldLeft(LAMBDA acc, k : acc + <<16, 4, 1>>[k] * c[k], 0, <<1, 2, 3>>)
\* CodonTable._to_codon: for n in (2, 1, 0): digit = number // 4^n, stored at place -(n+1), subtracted
ToCodonImpl(n) ==
  LET step(st, e) == LET val == <<1, 4, 16>>[e + 1]  digit == st.rest \div val
                     IN [rest |-> st.rest - digit * val, cod |-> [st.cod EXCEPT ![3 - e] = digit]]
  IN FoldLeft(step, [rest |-> n, cod |-> <<0, 0, 0>>], <<2, 1, 0>>).cod
CodonNums == 0..63
CodonWord(n) == LET c == ToCodon(n) IN <<NucSyms[c[1] + 1], NucSyms[c[2] + 1], NucSyms[c[3] + 1]>>
WordNum(w)   == Num(<<NucCode(w[1]), NucCode(w[2]), NucCode(w[3])>>)     \* w: three letters of ACGT
IsCodonWord(w) == Len(w) = 3 /\ IsNucWord(w)

(* ------------------------------------------------------------------ tables *)
Dom_Table(t) == /\ DOMAIN t.aa = 1..64 /\ \A k \in 1..64 : IsProtSym(t.aa[k])
                /\ Len(t.starts) >= 1 /\ \A k \in DOMAIN t.starts : t.starts[k] \in CodonNums
AaOf(t, n)   == t.aa[n + 1]
StartSet(t)  == SeqSet(t.starts)

\* CodonTable(codon_dict, starts): pairs = the items of the dictionary in order (a later item for the
\* same codon replaces an earlier one, as in a dict), starts = words.
\* Dom_Ctor: what the documentation allows to be asked: keys of three characters, amino acids of
\* the protein alphabet ("all upper case"), at least one start codon (CodonTable(d, []) fails in numpy
\* broadcasting today; whether a table without start codons may exist is left open).
Dom_Ctor(pairs, starts) ==
  /\ \A i \in DOMAIN pairs : Len(pairs[i][1]) = 3 /\ IsProtSym(pairs[i][2])
  /\ Len(starts) >= 1
CtorRejects(pairs, starts) ==
  \/ \E i \in DOMAIN starts : Len(starts[i]) # 3                          \* documented ValueError
  \/ \E i \in DOMAIN starts : ~IsNucWord(starts[i])                       \* ambiguous letters
  \/ \E i \in DOMAIN pairs : ~IsNucWord(pairs[i][1])
  \/ {WordNum(pairs[i][1]) : i \in DOMAIN pairs} # CodonNums              \* incomplete: documented ValueError
Construct(pairs, starts) ==
  IF CtorRejects(pairs, starts) THEN Rej
  ELSE Bind(TLCEval([i \in DOMAIN pairs |-> WordNum(pairs[i][1])]), LAMBDA nums :
         Ok(TLCEval([aa |-> [k \in 1..64 |-> pairs[Max({i \in DOMAIN nums : nums[i] = k - 1})][2]],   \* the last item for the codon
                     starts |-> [i \in DOMAIN starts |-> WordNum(starts[i])]])))
\* implementation-shaped: an array of 64 entries filled with -1 ("?" here), one assignment per item, then
\* the test for a remaining -1; the first missing codon (in number order) is named in the message
CtorArrayImpl(pairs) ==
  FoldLeft(LAMBDA arr, p : [arr EXCEPT ![WordNum(p[1]) + 1] = p[2]], [k \in 1..64 |-> "?"], pairs)
ConstructImpl(pairs, starts) ==
  IF \E i \in DOMAIN starts : Len(starts[i]) # 3 \/ ~IsNucWord(starts[i]) THEN Rej
  ELSE IF \E i \in DOMAIN pairs : ~IsNucWord(pairs[i][1]) THEN Rej
  ELSE LET arr == CtorArrayImpl(pairs) IN
       IF \E k \in 1..64 : arr[k] = "?" THEN Rej
       ELSE Ok(TLCEval([aa |-> arr, starts |-> [i \in DOMAIN starts |-> WordNum(starts[i])]]))
FirstMissing(pairs) == Min({n \in CodonNums : CtorArrayImpl(pairs)[n + 1] = "?"})

\* with_start_codons(starts) / with_codon_mappings(dict): a new table, the old one is not touched.
\* Dom_NewStarts: every entry a word of three characters (the method does not check the length
\* today: with_start_codons(["G"]) builds the start codon GGG, finding X01-with-starts-short).
WithStarts(t, starts) ==
  IF \E i \in DOMAIN starts : Len(starts[i]) # 3 \/ ~IsNucWord(starts[i]) THEN Rej
  ELSE Ok(TLCEval([t EXCEPT !.starts = [i \in DOMAIN starts |-> WordNum(starts[i])]]))
WithMappings(t, pairs) ==
  IF \E i \in DOMAIN pairs : ~IsCodonWord(pairs[i][1]) \/ ~IsProtSym(pairs[i][2]) THEN Rej
  ELSE Ok(TLCEval([t EXCEPT !.aa = FoldLeft(LAMBDA arr, p : [arr EXCEPT ![WordNum(p[1]) + 1] = p[2]], t.aa, pairs)]))

(* ------------------------------------------------------------------ lookups *)
\* table["ATG"]: codon word -> amino acid symbol; words of another length or with ambiguous letters are refused
AaOfWord(t, w) == IF IsCodonWord(w) THEN Ok(AaOf(t, WordNum(w))) ELSE Rej
\* table["M"]: amino acid symbol -> the codons coding for it (as a set of numbers)
CodonsOfAa(t, a) == {n \in CodonNums : AaOf(t, n) = a}
\* table[(1, 2, 3)]: codon code -> amino acid code;   Dom_CodonCode: three codes, each 0..3
Dom_CodonCode(c) == Len(c) = 3 => \A k \in 1..3 : c[k] \in 0..3
AaCodeOfCode(t, c) == IF Len(c) = 3 THEN Ok(ProtCode(AaOf(t, Num(c)))) ELSE Rej
\* table[14]: amino acid code -> codon codes (as a set of numbers); a code no codon has gives the empty set
CodonsOfAaCode(t, k) == {n \in CodonNums : ProtCode(AaOf(t, n)) = k}
\* map_codon_codes(array of shape (n, 3)): row by row; another last dimension is refused
MapCodonCodes(t, rows) ==
  IF \E i \in DOMAIN rows : Len(rows[i]) # 3 THEN Rej
  ELSE Ok([i \in DOMAIN rows |-> ProtCode(AaOf(t, Num(rows[i])))])
IsStartCodon(t, rows) == [i \in DOMAIN rows |-> Num(rows[i]) \in StartSet(t)]
\* codon_dict(), codon_dict(code=True): all 64 codons, in the order of their numbers
CodonDictSyms(t)  == [k \in 1..64 |-> t.aa[k]]
CodonDictCodes(t) == [k \in 1..64 |-> ProtCode(t.aa[k])]
\* str(table): every codon once with its amino acid, marked "i" exactly if it is a start codon
StrEntries(t) == {<<n, AaOf(t, n), n \in StartSet(t)>> : n \in CodonNums}

\* implementation-shaped __str__: one row per pair of first two letters (in the order A C G T); every entry
\* is  codon " " aa  followed by " i " or three blanks and three more blanks; then "string[:-6]" cuts
\* the end of the row -- which is six characters only when the last entry carries no mark
StrRowImpl(t, c1, c2) ==
  LET entry(c3) == LET n == Num(<<c1, c2, c3>>) IN
                   CodonWord(n) \o <<" ", AaOf(t, n)>>
                   \o (IF n \in StartSet(t) THEN <<" ", "i", " ">> ELSE <<" ", " ", " ">>) \o <<" ", " ", " ">>
      raw == entry(0) \o entry(1) \o entry(2) \o entry(3)
  IN SubSeq(raw, 1, Len(raw) - 6)
\* words of a line (separated by blanks)
Words(line) ==
  LET n == Len(line)
      begins == SelectSeq([i \in 1..n |-> i], LAMBDA i : line[i] # " " /\ (i = 1 \/ line[i - 1] = " "))
      EndOf(b) == Min({j \in b..n : j = n \/ line[j + 1] = " "})
  IN [k \in DOMAIN begins |-> SubSeq(line, begins[k], EndOf(begins[k]))]
\* reading a row back: codon, amino acid, optional mark
RECURSIVE ReadEntries(_)
ReadEntries(ws) ==
  IF Len(ws) < 2 THEN {}
  ELSE LET marked == Len(ws) >= 3 /\ ws[3] = <<"i">> IN
       {<<WordNum(ws[1]), ws[2][1], marked>>} \cup ReadEntries(SubSeq(ws, IF marked THEN 4 ELSE 3, Len(ws)))
StrEntriesImpl(t) == UNION {ReadEntries(Words(StrRowImpl(t, c1, c2))) : c1 \in 0..3, c2 \in 0..3}
\* what the code's rendering shows (finding X01-str-start-mark): the mark of start codons ending in T is cut
StrEntriesCut(t) == {<<e[1], e[2], e[3] /\ e[1] % 4 # 3>> : e \in StrEntries(t)}

\* table == other: equal mappings and equal start codons.  The code compares the start codons as tuples
\* (order and repetitions count); decided here only where both readings agree
TableEqDecided(t, u) == t.aa # u.aa \/ StartSet(t) # StartSet(u) \/ t.starts = u.starts
TableEq(t, u) == t.aa = u.aa /\ t.starts = u.starts

(* ------------------------------------------------------------------ the table file *)
S_name == <<"n", "a", "m", "e">>
S_id   == <<"i", "d">>
S_AA   == <<"A", "A">>
S_Init == <<"I", "n", "i", "t">>
S_Base(k) == <<"B", "a", "s", "e", Digits[k + 1]>>
S_Standard == <<"S", "t", "a", "n", "d", "a", "r", "d">>

StartsWith(line, p) == Len(line) >= Len(p) /\ \A i \in DOMAIN p : line[i] = p[i]
DropN(line, k) == SubSeq(line, k + 1, Len(line))                         \* line[k:]
IsBlank(c) == c = " " \/ c = "\t"
Strip(s) == LET keep == {i \in DOMAIN s : ~IsBlank(s[i])} IN
            IF keep = {} THEN <<>> ELSE SubSeq(s, Min(keep), Max(keep))
SplitOn(s, sep) ==                                                       \* s.split(sep)
  LET pos == <<0>> \o SelectSeq([i \in 1..Len(s) |-> i], LAMBDA i : s[i] = sep) \o <<Len(s) + 1>>
  IN [k \in 1..(Len(pos) - 1) |-> SubSeq(s, pos[k] + 1, pos[k + 1] - 1)]
IsIntText(s) == LET w == Strip(s) IN Len(w) >= 1 /\ \A i \in DOMAIN w : InSeq(Digits, w[i])
ParseInt(s)  == FoldLeft(LAMBDA acc, ch : 10 * acc + IndexOf(Digits, ch) - 1, 0, Strip(s))
NamesOfLine(line) == LET parts == SplitOn(DropN(line, 4), ";") IN [k \in DOMAIN parts |-> Strip(parts[k])]

\* a key is <<"id", number>> or <<"name", characters>>
KeyLineMatches(line, key) ==
  IF key[1] = "id" THEN StartsWith(line, S_id) /\ IsIntText(DropN(line, 2)) /\ ParseInt(DropN(line, 2)) = key[2]
  ELSE StartsWith(line, S_name) /\ InSeq(NamesOfLine(line), key[2])

\* the five data lines of a table -> dictionary items and start codons, column by column
FromColumns(aa, init, b1, b2, b3) ==
  IF \E L \in {init, b1, b2, b3} : Len(L) < Len(aa) THEN Rej              \* IndexError in the loop
  ELSE LET word(i) == <<b1[i], b2[i], b3[i]>>
           pairs == TLCEval([i \in 1..Len(aa) |-> <<word(i), aa[i]>>])
           marked == SelectSeq([i \in 1..Len(aa) |-> i], LAMBDA i : init[i] = "i")
           starts == TLCEval([k \in DOMAIN marked |-> word(marked[k])])
       IN IF \E i \in 1..Len(aa) : ~IsProtSym(aa[i]) THEN Rej
          ELSE IF Len(starts) = 0 THEN Rej                                 \* (outside Dom_TableText)
          ELSE Construct(pairs, starts)

\* implementation-shaped load(): one pass over the lines with a "found" flag; an empty line clears it, a
\* matching id / name line sets it, while it is set the data lines are remembered (last one wins)
ScanStart == [found |-> FALSE, bad |-> FALSE, got |-> {}, aa |-> <<>>, init |-> <<>>, b1 |-> <<>>, b2 |-> <<>>, b3 |-> <<>>]
ScanLine(st, line, key) ==
  LET f1 == IF Len(line) = 0 THEN FALSE ELSE st.found
      crash == key[1] = "id" /\ StartsWith(line, S_id) /\ ~IsIntText(DropN(line, 2))      \* int() raises
      f2 == f1 \/ (~crash /\ KeyLineMatches(line, key))
      payload == Strip(DropN(line, 5))
      st2 == [st EXCEPT !.found = f2, !.bad = st.bad \/ crash]
  IN IF ~f2 THEN st2
     ELSE IF StartsWith(line, S_AA)      THEN [st2 EXCEPT !.aa = payload, !.got = @ \cup {"aa"}]
     ELSE IF StartsWith(line, S_Init)    THEN [st2 EXCEPT !.init = payload, !.got = @ \cup {"init"}]
     ELSE IF StartsWith(line, S_Base(1)) THEN [st2 EXCEPT !.b1 = payload, !.got = @ \cup {"b1"}]
     ELSE IF StartsWith(line, S_Base(2)) THEN [st2 EXCEPT !.b2 = payload, !.got = @ \cup {"b2"}]
     ELSE IF StartsWith(line, S_Base(3)) THEN [st2 EXCEPT !.b3 = payload, !.got = @ \cup {"b3"}]
     ELSE st2
LoadImpl(text, key) ==
  LET st == FoldLeft(LAMBDA acc, line : ScanLine(acc, line, key), ScanStart, text) IN
  IF st.bad \/ st.got # {"aa", "init", "b1", "b2", "b3"} THEN Rej          \* "Codon table ... was not found"
  ELSE FromColumns(st.aa, st.init, st.b1, st.b2, st.b3)

\* declarative reading of the file: blocks of non-empty lines; a block is the table of its id and of
\* every name on its name line; its data lines are found by their labels
BlockSpans(text) ==                       \* <<first line, last line>> of every maximal run of non-empty lines
  LET n == Len(text)
      firsts == {a \in 1..n : Len(text[a]) > 0 /\ (a = 1 \/ Len(text[a - 1]) = 0)}
  IN {<<a, Min({b \in a..n : b = n \/ Len(text[b + 1]) = 0})>> : a \in firsts}
BlockLines(text, sp) == SubSeq(text, sp[1], sp[2])
LinesWith(block, label) == SelectSeq(block, LAMBDA line : StartsWith(line, label))
BlockIds(block)   == {ParseInt(DropN(line, 2)) : line \in SeqSet(LinesWith(block, S_id))}
BlockNames(block) == UNION {SeqSet(NamesOfLine(line)) : line \in SeqSet(LinesWith(block, S_name))}
BlockHasKey(block, key) == IF key[1] = "id" THEN key[2] \in BlockIds(block) ELSE key[2] \in BlockNames(block)
DataOf(block, label) == Strip(DropN(LinesWith(block, label)[1], 5))
BlockTable(block) == FromColumns(DataOf(block, S_AA), DataOf(block, S_Init), DataOf(block, S_Base(1)),
                                 DataOf(block, S_Base(2)), DataOf(block, S_Base(3)))
LoadDecl(text, key) ==
  LET hits == {sp \in BlockSpans(text) : BlockHasKey(BlockLines(text, sp), key)} IN
  IF hits = {} THEN Rej ELSE BlockTable(BlockLines(text, CHOOSE sp \in hits : TRUE))

\* table_names(): every name of every name line, in file order
TableNames(text) == FlattenSeq([k \in DOMAIN LinesWith(text, S_name) |-> NamesOfLine(LinesWith(text, S_name)[k])])
TableIds(text)   == UNION {BlockIds(BlockLines(text, sp)) : sp \in BlockSpans(text)}

\* well-formed table files: comment blocks and table blocks; in a table block the key lines (name, id) come
\* first, then each of the five data lines once (any order), all of one length; the columns name 64 distinct
\* codons; ids and names are unique in the file
IsComment(line) == StartsWith(line, <<"#">>)
DataLabels == <<S_AA, S_Init, S_Base(1), S_Base(2), S_Base(3)>>
IsDataLine(line) == \E k \in DOMAIN DataLabels : StartsWith(line, DataLabels[k])
IsKeyLine(line)  == StartsWith(line, S_name) \/ StartsWith(line, S_id)
Dom_Block(block) ==
  \/ \A i \in DOMAIN block : IsComment(block[i])
  \/ /\ \A i \in DOMAIN block : IsKeyLine(block[i]) \/ IsDataLine(block[i])
     /\ \A i, j \in DOMAIN block : (IsKeyLine(block[j]) /\ IsDataLine(block[i])) => j < i
     /\ Len(LinesWith(block, S_id)) = 1 /\ IsIntText(DropN(LinesWith(block, S_id)[1], 2))
     /\ Len(LinesWith(block, S_name)) <= 1
     /\ \A k \in DOMAIN DataLabels : Len(LinesWith(block, DataLabels[k])) = 1
     /\ Bind(TLCEval([k \in 1..5 |-> DataOf(block, DataLabels[k])]), LAMBDA d :       \* AA, Init, Base1..3
          /\ \A k \in 1..5 : Len(d[k]) = 64
          /\ \A k \in 3..5 : IsNucWord(d[k])
          /\ \A i \in 1..64 : IsProtSym(d[1][i]) /\ d[2][i] \in {"-", "i"}
          /\ \E i \in 1..64 : d[2][i] = "i"
          /\ Cardinality({WordNum(<<d[3][i], d[4][i], d[5][i]>>) : i \in 1..64}) = 64)
Dom_TableText(text) ==
  Bind(TLCEval({BlockLines(text, sp) : sp \in BlockSpans(text)}), LAMBDA blocks :
    /\ \A bl \in blocks : Dom_Block(bl)
    /\ Bind(TLCEval([bl \in blocks |-> <<BlockIds(bl), BlockNames(bl)>>]), LAMBDA keys :
         \A x, y \in blocks : x # y => (keys[x][1] \cap keys[y][1] = {} /\ keys[x][2] \cap keys[y][2] = {})))

(* ------------------------------------------------------------------ nucleotide sequences *)
\* NucleotideSequence(chars, ambiguous): letters in either case; "auto" tries the four letters first
MakeNuc(chars, amb) ==
  LET up == [i \in DOMAIN chars |-> Upper(chars[i])]
      un == \A i \in DOMAIN up : InSeq(NucSyms, up[i])
      am == \A i \in DOMAIN up : InSeq(AmbSyms, up[i])
  IN CASE amb = "auto" -> IF un THEN Ok([amb |-> FALSE, syms |-> up]) ELSE IF am THEN Ok([amb |-> TRUE, syms |-> up]) ELSE Rej
       [] amb = "no"   -> IF un THEN Ok([amb |-> FALSE, syms |-> up]) ELSE Rej
       [] amb = "yes"  -> IF am THEN Ok([amb |-> TRUE, syms |-> up]) ELSE Rej
CodesOf(syms) == [i \in DOMAIN syms |-> NucCode(syms[i])]
\* reverse().complement() of an unambiguous sequence
RevComp(codes) == [i \in DOMAIN codes |-> 3 - codes[Len(codes) + 1 - i]]

CodonAt(codes, p) == Num(<<codes[p + 1], codes[p + 2], codes[p + 3]>>)          \* p 0-based
\* translate(complete=True): the codon-by-codon image; the length must be a multiple of 3
TranslateComplete(codes, t) ==
  IF Len(codes) % 3 # 0 THEN Rej
  ELSE Ok([k \in 1..(Len(codes) \div 3) |-> AaOf(t, CodonAt(codes, 3 * (k - 1)))])

\* translate(complete=False), declarative: an ORF <<s, e, protein>> starts at every position s holding a start
\* codon and ends behind the first stop codon in its frame at or after s ("the first nucleotide after a stop
\* codon"), or at the end of the frame when there is none; sorted by s
FrameEnd(n, f) == f + ((n - f) \div 3) * 3
OrfStarts(codes, t) == {s \in 0..(Len(codes) - 3) : CodonAt(codes, s) \in StartSet(t)}
OrfEnd(codes, t, s) ==
  LET n == Len(codes)
      stops == {q \in s..(n - 3) : (q - s) % 3 = 0 /\ AaOf(t, CodonAt(codes, q)) = Stop}
  IN IF stops = {} THEN FrameEnd(n, s % 3) ELSE Min(stops) + 3
OrfProtein(codes, t, s, e, met) ==
  [k \in 1..((e - s) \div 3) |-> IF met /\ k = 1 THEN Met ELSE AaOf(t, CodonAt(codes, s + 3 * (k - 1)))]
OrfsDecl(codes, t, met) ==
  LET ss == Sorted(OrfStarts(codes, t)) IN
  [i \in DOMAIN ss |-> LET e == OrfEnd(codes, t, ss[i]) IN <<ss[i], e, OrfProtein(codes, t, ss[i], e, met)>>]

\* implementation-shaped: for each of the three shifts cut the frame (a negative frame length for short
\* sequences gives an empty frame), translate it completely, take the indices of the start codons, cut
\* behind the first stop in the translated rest, positions = shift + 3 * index; finally sort by start
OrfsImpl(codes, t, met) ==
  LET n == Len(codes)
      Frame(shift) ==
        LET flen == ((n - shift) \div 3) * 3                      \* Python floor division: < 0 for n < shift
            m == IF flen < 0 THEN 0 ELSE flen \div 3
            prot == [k \in 1..m |-> AaOf(t, CodonAt(codes, shift + 3 * (k - 1)))]
            sidx == {k \in 1..m : CodonAt(codes, shift + 3 * (k - 1)) \in StartSet(t)}
            One(si) ==
              LET rest  == SubSeq(prot, si, m)
                  stops == {j \in DOMAIN rest : rest[j] = Stop}
                  stopi == IF stops = {} THEN Len(rest) ELSE Min(stops)
                  p     == SubSeq(rest, 1, stopi)
              IN <<shift + (si - 1) * 3, shift + (si - 1 + stopi) * 3, IF met THEN [p EXCEPT ![1] = Met] ELSE p>>
        IN {One(si) : si \in sidx}
  IN SetToSortSeq(Frame(0) \cup Frame(1) \cup Frame(2), LAMBDA x, y : x[1] < y[1])

\* Dom_Translate: met_start is documented for the ORF mode only
Dom_Translate(complete, met) == complete => ~met
\* NucleotideSequence.translate(complete, codon_table, met_start) on a sequence object
Translate(obj, complete, t, met) ==
  IF obj.amb THEN Rej                                      \* "Translation requires unambiguous alphabet"
  ELSE IF complete THEN TranslateComplete(CodesOf(obj.syms), t)
  ELSE Ok(OrfsDecl(CodesOf(obj.syms), t, met))

(* ------------------------------------------------------------------ the standard genetic code *)
\* amino acids of the 64 codons in number order (AAA, AAC, AAG, AAT, ACA, ...); start codons of NCBI table 1
StdAA == <<"K", "N", "K", "N", "T", "T", "T", "T", "R", "S", "R", "S", "I", "I", "M", "I",
           "Q", "H", "Q", "H", "P", "P", "P", "P", "R", "R", "R", "R", "L", "L", "L", "L",
           "E", "D", "E", "D", "A", "A", "A", "A", "G", "G", "G", "G", "V", "V", "V", "V",
           "*", "Y", "*", "Y", "S", "S", "S", "S", "*", "C", "W", "C", "L", "F", "L", "F">>
W_ATG == <<"A", "T", "G">>
StdStarts == {WordNum(<<"T", "T", "G">>), WordNum(<<"C", "T", "G">>), WordNum(W_ATG)}

(* ------------------------------------------------------------------ laws (stage S1) *)
Law_Numbers ==
  /\ \A n \in CodonNums : ToCodonImpl(n) = ToCodon(n) /\ Num(ToCodon(n)) = n /\ WordNum(CodonWord(n)) = n
  /\ \A c \in (0..3) \X (0..3) \X (0..3) : NumImpl(c) = Num(c) /\ ToCodon(Num(c)) = c
Law_Ctor(pairs, starts) ==
  Dom_Ctor(pairs, starts) =>
    /\ ConstructImpl(pairs, starts) = Construct(pairs, starts)
    /\ IsOk(Construct(pairs, starts)) => Dom_Table(Construct(pairs, starts).val)
\* the lookups of one table agree with each other
Law_Lookups(t) ==
  /\ \A n \in CodonNums : /\ AaOfWord(t, CodonWord(n)).val = AaOf(t, n)
                          /\ n \in CodonsOfAa(t, AaOf(t, n))
                          /\ AaCodeOfCode(t, ToCodon(n)).val = ProtCode(AaOf(t, n))
                          /\ n \in CodonsOfAaCode(t, AaCodeOfCode(t, ToCodon(n)).val)
  /\ \A k \in DOMAIN ProtSyms : /\ CodonsOfAa(t, ProtSyms[k]) = CodonsOfAaCode(t, k - 1)
                                /\ \A n \in CodonsOfAa(t, ProtSyms[k]) : AaOf(t, n) = ProtSyms[k]
  /\ UNION {CodonsOfAa(t, ProtSyms[k]) : k \in DOMAIN ProtSyms} = CodonNums
  /\ MapCodonCodes(t, [k \in 1..64 |-> ToCodon(k - 1)]).val = CodonDictCodes(t)
  /\ {n \in CodonNums : IsStartCodon(t, <<ToCodon(n)>>)[1]} = StartSet(t)
  \* a table built from its own dictionary and start codons is the same table (tests/sequence/test_codon.py)
  /\ Bind(Construct([k \in 1..64 |-> <<CodonWord(k - 1), CodonDictSyms(t)[k]>>],
                     [i \in DOMAIN t.starts |-> CodonWord(t.starts[i])]), LAMBDA r :
          r = Ok(t) /\ TableEq(t, r.val) /\ TableEqDecided(t, r.val))
  /\ StrEntriesImpl(t) = StrEntriesCut(t)                   \* the code's rendering, see StrEntriesCut
  /\ (StrEntriesCut(t) = StrEntries(t)) = (\A n \in StartSet(t) : n % 4 # 3)
Law_Load(text, key) == Dom_TableText(text) => LoadImpl(text, key) = LoadDecl(text, key)
Law_Orfs(codes, t) ==
  \A met \in BOOLEAN :
    LET D == OrfsDecl(codes, t, met)  n == Len(codes) IN
    /\ OrfsImpl(codes, t, met) = D
    /\ Len(D) = Cardinality(OrfStarts(codes, t))
    /\ \A i \in DOMAIN D :
         LET s == D[i][1]  e == D[i][2]  p == D[i][3] IN
         /\ 0 <= s /\ s < e /\ e <= n /\ (e - s) % 3 = 0 /\ Len(p) * 3 = e - s
         /\ CodonAt(codes, s) \in StartSet(t)
         /\ (i > 1 => D[i - 1][1] < s)
         \* the ORF is the complete translation of its slice (first symbol replaced with met_start)
         /\ \A k \in DOMAIN p : (k > 1 \/ ~met) => p[k] = TranslateComplete(SubSeq(codes, s + 1, e), t).val[k]
         /\ (met => p[1] = Met)
         \* no stop before the last codon; the last codon is a stop unless the frame ends there
         /\ \A k \in 1..(Len(p) - 1) : AaOf(t, CodonAt(codes, s + 3 * (k - 1))) # Stop
         /\ (AaOf(t, CodonAt(codes, e - 3)) = Stop \/ e + 3 > n)
\* complete translation is a homomorphism on codon boundaries
Law_Complete(codes, t) ==
  Len(codes) % 3 = 0 =>
    \A k \in 0..(Len(codes) \div 3) :
      TranslateComplete(codes, t).val =
        TranslateComplete(SubSeq(codes, 1, 3 * k), t).val \o TranslateComplete(SubSeq(codes, 3 * k + 1, Len(codes)), t).val

(* ------------------------------------------------------------------ examples of the documentation *)
Chars4(a, b, c, d) == <<a, b, c, d>>
StdTable == [aa |-> StdAA, starts |-> <<WordNum(<<"T", "T", "G">>), WordNum(<<"C", "T", "G">>), WordNum(W_ATG)>>]
DefTable == [aa |-> StdAA, starts |-> <<WordNum(W_ATG)>>]
Dna(w) == [i \in DOMAIN w |-> NucCode(w[i])]
\* CodonTable docstring: table["ATG"] = "M", table[(1,2,3)] = 14, table["M"] = ("ATG",), table[14] = six codons
ASSUME AaOfWord(DefTable, W_ATG) = Ok("M") /\ AaCodeOfCode(DefTable, <<1, 2, 3>>) = Ok(14)
ASSUME CodonsOfAa(DefTable, "M") = {WordNum(W_ATG)}
ASSUME CodonsOfAaCode(DefTable, 14) = {Num(<<0, 2, 0>>), Num(<<0, 2, 2>>), Num(<<1, 2, 0>>), Num(<<1, 2, 1>>), Num(<<1, 2, 2>>), Num(<<1, 2, 3>>)}
\* map_codon_codes docstring: ATGGTTTAA -> [10 17 23] = MV*
ASSUME MapCodonCodes(DefTable, <<<<0, 3, 2>>, <<2, 3, 3>>, <<3, 0, 0>>>>) = Ok(<<10, 17, 23>>)
\* test_table_indexing: table["Y"] = TAT, TAC; table[(0,0,0)] = 8; table[8] = (0,0,0), (0,0,2)
ASSUME CodonsOfAa(StdTable, "Y") = {WordNum(<<"T", "A", "T">>), WordNum(<<"T", "A", "C">>)}
ASSUME AaCodeOfCode(StdTable, <<0, 0, 0>>) = Ok(8) /\ CodonsOfAaCode(StdTable, 8) = {0, 2}
\* translate docstring: AATGATGCTATAGAT -> NDAID; ORFs MML* and ML*
ASSUME TranslateComplete(Dna(<<"A","A","T","G","A","T","G","C","T","A","T","A","G","A","T">>), DefTable)
         = Ok(<<"N", "D", "A", "I", "D">>)
ASSUME OrfsDecl(Dna(<<"A","A","T","G","A","T","G","C","T","A","T","A","G","A","T">>), DefTable, FALSE)
         = <<<<1, 13, <<"M", "M", "L", "*">>>>, <<4, 13, <<"M", "L", "*">>>>>>
\* test_frame_translation: "CA" has no ORF; GATGCATGTGAAAA -> MHVK (no stop, frame end) and M*
ASSUME OrfsDecl(Dna(<<"C", "A">>), DefTable, FALSE) = <<>>
ASSUME OrfsDecl(Dna(<<"G","A","T","G","C","A","T","G","T","G","A","A","A","A">>), DefTable, FALSE)
         = <<<<1, 13, <<"M", "H", "V", "K">>>>, <<5, 11, <<"M", "*">>>>>>
\* complement docstring: reverse complement of ACGCTT is AAGCGT
ASSUME RevComp(Dna(<<"A","C","G","C","T","T">>)) = Dna(<<"A","A","G","C","G","T">>)
ASSUME Law_Numbers
ASSUME Words(<<"A", "B", " ", " ", "C", " ">>) = <<<<"A", "B">>, <<"C">>>>
ASSUME SplitOn(<<"a", ";", ";", "b">>, ";") = <<<<"a">>, <<>>, <<"b">>>> /\ SplitOn(<<>>, ";") = <<<<>>>>
ASSUME ParseInt(<<" ", "1", "2", " ">>) = 12 /\ ~IsIntText(<<" ">>) /\ Strip(<<" ", "x", " ", "y", " ">>) = <<"x", " ", "y">>
=============================================================================
