------------------------------- MODULE TableMachine -------------------------------
(* X01: histories of calls on CodonTable objects ("Objects of this class are immutable").

   The state is the registry reg of the tables a program holds (values [aa, starts]), the outcome oc and
   the result out of the last call.  Every public way of getting a table appends one (load by id / by name,
   default_table(), the constructor, with_start_codons, with_codon_mappings); calls that hand out containers
   (codon_dict(), map_codon_codes(), start_codons(), is_start_codon()) are followed by a write into the
   returned container ("poke"); translate() uses a table.  No call changes a table that exists already --
   in particular not the module-wide default table and not the table a new one was derived from.

   TLC explores every history up to Depth calls with at most MaxTabs tables; the state graph
   (-dump dot,actionlabels) is replayed edge by edge against the real class: after every call the driver
   compares every table of its registry, default_table() and a fresh load(1) with reg, DefTable, StdTable. *)
EXTENDS CodonUniverse

CONSTANTS MaxTabs, Depth, Rich
VARIABLES reg, oc, out
vars == <<reg, oc, out>>

LoadNames  == IF Rich THEN DOMAIN LoadKeys ELSE {"id1", "id11", "nameFlat", "id7"}
CtorUsed   == IF Rich THEN {"full", "reversed", "noTTT"} ELSE {"reversed", "noTTT"}
StartsUsed == IF Rich THEN {"atg", "two", "stop", "endT", "twice", "short", "amb"} ELSE {"atg", "two", "endT", "amb"}
MapsUsed   == IF Rich THEN {"none", "one", "stops", "amb", "noaa"} ELSE {"one", "stops", "amb"}
Pokes      == {"dict", "dictcode", "map", "starts", "isstart", "codons"}
AllCalls ==
       {<<"load", 0, k>> : k \in LoadNames}
  \cup {<<"default", 0, "-">>}
  \cup {<<"ctor", 0, v>> : v \in CtorUsed}
  \cup {<<"with_starts", i, v>> : i \in 1..MaxTabs, v \in StartsUsed}
  \cup {<<"with_map", i, v>> : i \in 1..MaxTabs, v \in MapsUsed}
  \cup {<<"poke", i, w>> : i \in 1..MaxTabs, w \in Pokes}
  \cup {<<"translate", i, "-">> : i \in 1..MaxTabs}

\* result of a call that yields a table (or refuses)
Made(c) ==
  CASE c[1] = "load"        -> LoadImpl(RealText, LoadKeys[c[3]])
    [] c[1] = "default"     -> Ok(DefaultTable)
    [] c[1] = "ctor"        -> Construct(CtorVariants[c[3]].pairs, CtorVariants[c[3]].starts)
    [] c[1] = "with_starts" -> WithStarts(reg[c[2]], StartVariants[c[3]])
    [] c[1] = "with_map"    -> WithMappings(reg[c[2]], MapVariants[c[3]])
Makes(c) == c[1] \in {"load", "default", "ctor", "with_starts", "with_map"}

Call(c) ==
  /\ c[2] <= Len(reg)                                     \* cheap guard: the slot exists
  /\ IF Makes(c)
       THEN /\ Len(reg) < MaxTabs
            /\ LET r == Made(c) IN
               /\ oc' = r.oc
               /\ reg' = IF IsOk(r) THEN Append(reg, r.val) ELSE reg
               /\ out' = <<>>
     ELSE IF c[1] = "poke"
       THEN oc' = "ok" /\ out' = <<>> /\ UNCHANGED reg
     ELSE /\ oc' = "ok" /\ UNCHANGED reg
          /\ out' = OrfsDecl(ProbeDna, reg[c[2]], TRUE)
Init == reg = <<>> /\ oc = "ok" /\ out = <<>>
Next == \E c \in AllCalls : Call(c)
Spec == Init /\ [][Next]_vars
DepthBound == TLCGet("level") <= Depth

InvTables == \A i \in DOMAIN reg : Dom_Table(reg[i])
\* no call changes an existing table; a refused call adds none
Immutable == [][/\ \A i \in DOMAIN reg : i \in DOMAIN reg' /\ reg'[i] = reg[i]
                /\ (oc' # "ok" => reg' = reg)]_vars
InvGlobals == DefaultTable = DefTable /\ LoadedById[1] = Ok(StdTable)
=============================================================================
