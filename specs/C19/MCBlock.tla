------------------------------- MODULE MCBlock -------------------------------
(* C19 S1/S2 for upgma() on block matrices (large structured inputs).

   Init enumerates the family: k groups (k in Ks), group sizes from Sizes with at most MaxTaxa taxa
   in total, base pattern b (symmetric, entries 1..BMax), arrangement of the taxa.
   Small configuration (Expanded = TRUE, a handful of taxa): the UPGMA machine of Phylo runs on the
   expanded matrix, one merge per step, and the lemmas that carry the postcondition to large
   matrices are invariants:
     L_AvgLinkCnt   average linkage from group counts = average linkage on the expanded matrix,
     L_BlockValues  inside Dom_BlockExact every mean the loop holds is an entry of B or a value of
                    the weighted run over the groups,
     L_FlatPost     the one-pass postcondition on the flat form of a tree = UpgmaPost, on the tree the
                    machine returns and on damaged trees (a longer branch, two leaves exchanged, a
                    leaf twice).
   Large configuration (Expanded = FALSE): only the members inside Dom_BlockExact (OnlyWeighted: for
   three and more groups only those where a cluster size decides a mean, crit > 0), no steps; the
   states are the inputs of S2 (real upgma() on Expand(B, grp), judged by Trace.tla with FlatPost). *)
EXTENDS Phylo
CONSTANTS Ks, Sizes, BMax, MaxTaxa, Arrs, Expanded, OnlyWeighted
VARIABLES B, grp, dom, crit, U, step
vars == <<B, grp, dom, crit, U, step>>

SizeVectors(k) == {s \in [1..k -> Sizes] : SeqSum(s) <= MaxTaxa /\ SeqSum(s) >= 2}
Patterns(k) == {b \in SymMatrices(k, BMax) : \A g, h \in 1..k : g # h => b[g][h] >= 1}

Init ==
  /\ \E k \in Ks : \E s \in SizeVectors(k) : \E b \in Patterns(k) :
       /\ B = BlockBase(b, s)
       /\ dom = Dom_BlockSizes(B, s)
       /\ crit = IF dom THEN WRun(B, s).crit ELSE 0
       /\ Expanded \/ (dom /\ (crit > 0 \/ k = 2 \/ ~OnlyWeighted))
       /\ \E arr \in Arrs : grp = Arrange(s, arr)
  /\ U = IF Expanded THEN UpgmaInit(Expand(B, grp)) ELSE <<>>
  /\ step = 0
Next == Expanded /\ ~UpgmaDone(U) /\ U' = UpgmaStep(U) /\ step' = step + 1 /\ UNCHANGED <<B, grp, dom, crit>>
Spec == Init /\ [][Next]_vars

K0 == Len(B)
N0 == Len(grp)
D0 == Expand(B, grp)
InvFamily == /\ Dom_Block(B, grp) /\ dom = Dom_BlockExact(B, grp) /\ (dom => crit <= N0)
             /\ Expanded => Dom_Matrix(D0)

L_AvgLinkCnt ==
  (Expanded /\ step = 1) =>
    \A X \in SUBSET (0..(N0 - 1)) : \A Y \in SUBSET ((0..(N0 - 1)) \ X) :
      (X # {} /\ Y # {}) => AvgLinkCnt(B, Counts(grp, K0, X), Counts(grp, K0, Y)) = AvgLink(D0, X, Y)

L_BlockValues ==
  (Expanded /\ dom) =>
    LET W == WRun(B, GroupSizes(grp, K0))
        entries == {R(B[g][h]) : g, h \in 1..K0}
    IN \A p \in LivePairs(U) : U.d[p] \in entries \cup W.vals

\* damaged trees: one branch longer, two leaf indices exchanged, one leaf index used twice
RECURSIVE MapLeaves(_, _, _)
MapLeaves(t, newIdx, extra) ==                         \* newIdx, extra: functions of the leaf index
  IF IsLeaf(t) THEN LeafN(RAdd(t.len, R(extra[t.idx])), newIdx[t.idx])
  ELSE Node(t.len, -1, TLCEval([k \in DOMAIN t.kids |-> MapLeaves(t.kids[k], newIdx, extra)]))
I0 == 0..(N0 - 1)
Same == [i \in I0 |-> i]
None == [i \in I0 |-> 0]
Longer(t)    == MapLeaves(t, Same, [i \in I0 |-> IF i = 0 THEN 1 ELSE 0])
Exchanged(t) == MapLeaves(t, [i \in I0 |-> IF i = 0 THEN N0 - 1 ELSE IF i = N0 - 1 THEN 0 ELSE i], None)
Twice(t)     == MapLeaves(t, [i \in I0 |-> IF i = 0 THEN N0 - 1 ELSE i], None)
\* UpgmaPost needs every index once to look at the heights at all
PostOf(t) == IF LeavesOnce(t, N0) THEN UpgmaPost(D0, t) ELSE [leaves |-> FALSE, heights |-> FALSE]
L_FlatPost ==
  (Expanded /\ UpgmaDone(U)) =>
    LET t == U.node[CHOOSE i \in U.act : TRUE] IN
    /\ FlatPost(B, grp, Flat(t), N0) = [leaves |-> TRUE, heights |-> TRUE]
    /\ UpgmaPost(D0, t) = [leaves |-> TRUE, heights |-> TRUE]
    /\ \A x \in {Longer(t), Exchanged(t), Twice(t)} : FlatPost(B, grp, Flat(x), N0) = PostOf(x)
    /\ FlatPost(B, grp, Flat(Longer(t)), N0).heights = FALSE
    /\ FlatPost(B, grp, Flat(Twice(t)), N0).leaves = FALSE

ASSUME OddPart(276) = 69 /\ OddPart(32) = 1 /\ OddPart(7) = 7
ASSUME Arrange(<<3, 1, 2>>, "asc") = <<1, 1, 1, 2, 3, 3>> /\ Arrange(<<3, 1, 2>>, "mix") = <<1, 2, 3, 1, 3, 1>>
\* the weighted mean of the docstring matrix: cluster {0, 1} to 2 is (7 + 7) / 2
ASSUME AvgLinkCnt(<<<<0, 7>>, <<7, 0>>>>, <<1, 1>>, <<1, 0>>) = <<7, 2>>
=============================================================================
