------------------------------- MODULE Phylo -------------------------------
(* C19: rooted trees (biotite.sequence.phylo.Tree / TreeNode / as_binary) and the two
   clustering algorithms upgma() and neighbor_joining().

   Numbers are exact rationals <<num, den>> (den > 0, normalised): averages, halves and the
   neighbour-joining thirds stay exact; the driver turns floats into the nearest small rational.

   A tree is a nested record  N = [len |-> rational, idx |-> leaf index or -1, kids |-> <<N ..>>]
   (len: distance to the parent; the root's len is ignored).  One operator per public call:
     LeafList / LeafSet          Tree.leaves, TreeNode.get_indices / get_leaves
     PP, DistPP, LcaPP           TreeNode.distance_to / lowest_common_ancestor as written: paths to
                                 the root in a parent-pointer table, compared from the root
     PairDist                    declarative leaf-to-leaf distance (recursion over sub-trees)
     AsBinary                    as_binary(): unary nodes dissolved (lengths added), wider nodes
                                 split into a chain of zero-length nodes
     Canon / SameTree            Tree.__eq__ / __hash__: children are unordered
     ZeroLens                    what to_newick(include_distance=False) keeps
     UpgmaStep / Upgma           upgma(): the code's loop, one merge per step
     NjStep / Nj                 neighbor_joining(): divergences, corrected distances, branch
                                 lengths, final three-way join *)
EXTENDS Integers, Sequences, FiniteSets, SequencesExt, FiniteSetsExt

(* ------------------------------------------------------------------ rationals *)
RECURSIVE Gcd(_, _)
Gcd(a, b) == IF b = 0 THEN a ELSE Gcd(b, a % b)
Abs(x) == IF x < 0 THEN -x ELSE x
RNorm(n, d) ==
  LET s == IF d < 0 THEN -1 ELSE 1
      g == Gcd(Abs(n), Abs(d))
  IN IF n = 0 THEN <<0, 1>> ELSE <<(s * n) \div g, (s * d) \div g>>
R(n) == <<n, 1>>
RAdd(a, b) == RNorm(a[1] * b[2] + b[1] * a[2], a[2] * b[2])
RSub(a, b) == RNorm(a[1] * b[2] - b[1] * a[2], a[2] * b[2])
RMulI(a, k) == RNorm(a[1] * k, a[2])
RDivI(a, k) == RNorm(a[1], a[2] * k)
REq(a, b) == a[1] * b[2] = b[1] * a[2]
RLt(a, b) == a[1] * b[2] < b[1] * a[2]
RLe(a, b) == a[1] * b[2] <= b[1] * a[2]
RSum(s) == FoldLeft(RAdd, R(0), s)

(* ------------------------------------------------------------------ trees *)
Node(len, idx, kids) == [len |-> len, idx |-> idx, kids |-> kids]
LeafN(len, i) == Node(len, i, <<>>)
IsLeaf(t) == t.idx # -1

RECURSIVE LeafList(_)
LeafList(t) == IF IsLeaf(t) THEN <<t.idx>> ELSE FlattenSeq([k \in DOMAIN t.kids |-> LeafList(t.kids[k])])
LeafSet(t) == ToSet(LeafList(t))
\* the property: every index 0..n-1 is exactly one leaf
LeavesOnce(t, n) == Len(LeafList(t)) = n /\ LeafSet(t) = 0..(n - 1)

\* depth of every leaf below t (t's own len excluded): function leaf index -> rational
RECURSIVE Depths(_)
Depths(t) ==
  IF IsLeaf(t) THEN [i \in {t.idx} |-> R(0)]
  ELSE LET sub == [k \in DOMAIN t.kids |-> Depths(t.kids[k])] IN
       [i \in LeafSet(t) |->
          LET k == CHOOSE k \in DOMAIN t.kids : i \in DOMAIN sub[k] IN RAdd(t.kids[k].len, sub[k][i])]

\* declarative leaf-to-leaf distance: the pair parts at the lowest node holding both
RECURSIVE PairDist(_, _, _)
PairDist(t, i, j) ==
  IF i = j THEN R(0)
  ELSE LET ki == CHOOSE k \in DOMAIN t.kids : i \in LeafSet(t.kids[k])
           kj == CHOOSE k \in DOMAIN t.kids : j \in LeafSet(t.kids[k])
       IN IF ki = kj THEN PairDist(t.kids[ki], i, j)
          ELSE RAdd(RAdd(t.kids[ki].len, Depths(t.kids[ki])[i]), RAdd(t.kids[kj].len, Depths(t.kids[kj])[j]))
\* the clade (leaf set) of the lowest common ancestor
RECURSIVE LcaClade(_, _, _)
LcaClade(t, i, j) ==
  IF IsLeaf(t) THEN {t.idx}
  ELSE LET ki == CHOOSE k \in DOMAIN t.kids : i \in LeafSet(t.kids[k])
           kj == CHOOSE k \in DOMAIN t.kids : j \in LeafSet(t.kids[k])
       IN IF ki = kj THEN LcaClade(t.kids[ki], i, j) ELSE LeafSet(t)
\* topological distance: every edge counts 1
RECURSIVE UnitLens(_)
UnitLens(t) == Node(R(1), t.idx, [k \in DOMAIN t.kids |-> UnitLens(t.kids[k])])
RECURSIVE ZeroLens(_)
ZeroLens(t) == Node(R(0), t.idx, [k \in DOMAIN t.kids |-> ZeroLens(t.kids[k])])

RECURSIVE Clades(_)
Clades(t) == {LeafSet(t)} \cup UNION {Clades(t.kids[k]) : k \in DOMAIN t.kids}

(* ---- the code's way: parent pointers, paths to the root ---------------------------------- *)
\* preorder table: sequence of [parent (0 = none), len, idx]
RECURSIVE PPFrom(_, _, _)
PPFrom(t, parent, tab) ==
  LET me == Len(tab) + 1
      tab1 == Append(tab, [parent |-> parent, len |-> t.len, idx |-> t.idx])
  IN FoldLeft(LAMBDA acc, k : PPFrom(t.kids[k], me, acc), tab1, [k \in DOMAIN t.kids |-> k])
PP(t) == PPFrom(t, 0, <<>>)
RECURSIVE PathToRoot(_, _)
PathToRoot(tab, v) == IF v = 0 THEN <<>> ELSE <<v>> \o PathToRoot(tab, tab[v].parent)
\* lowest_common_ancestor as written: walk both paths backwards from the root while they agree
LcaPP(tab, u, v) ==
  LET pu == Reverse(PathToRoot(tab, u))  pv == Reverse(PathToRoot(tab, v))
      m == IF Len(pu) < Len(pv) THEN Len(pu) ELSE Len(pv)
      agree == {k \in 1..m : \A q \in 1..k : pu[q] = pv[q]}
  IN IF agree = {} THEN 0 ELSE pu[Max(agree)]
\* distance_to as written: add branch lengths from both nodes up to the common ancestor
RECURSIVE UpSum(_, _, _)
UpSum(tab, v, stop) == IF v = stop THEN R(0) ELSE RAdd(tab[v].len, UpSum(tab, tab[v].parent, stop))
DistPP(tab, u, v) == LET a == LcaPP(tab, u, v) IN RAdd(UpSum(tab, u, a), UpSum(tab, v, a))
LeafRow(tab, i) == CHOOSE v \in DOMAIN tab : tab[v].idx = i

(* ---- as_binary ---------------------------------------------------------------------------- *)
\* chain for more than two children: ((c1, c2):0, c3):0 ...  as the code builds it
Chain(kids) ==
  FoldLeft(LAMBDA acc, k : Node(R(0), -1, <<acc, kids[k]>>),
           Node(R(0), -1, <<kids[1], kids[2]>>), [q \in 1..(Len(kids) - 2) |-> q + 2])
RECURSIVE AsBinaryNode(_)
AsBinaryNode(t) ==
  IF IsLeaf(t) THEN t
  ELSE LET bk == [k \in DOMAIN t.kids |-> AsBinaryNode(t.kids[k])] IN
       IF Len(bk) = 1 THEN [bk[1] EXCEPT !.len = RAdd(t.len, bk[1].len)]     \* node dissolved
       ELSE IF Len(bk) = 2 THEN Node(t.len, -1, bk)
       ELSE [Chain(bk) EXCEPT !.len = t.len]
AsBinary(t) == [AsBinaryNode(t) EXCEPT !.len = R(0)]
RECURSIVE IsBinary(_)
IsBinary(t) == IsLeaf(t) \/ (Len(t.kids) = 2 /\ \A k \in DOMAIN t.kids : IsBinary(t.kids[k]))

(* ---- equality: children unordered ------------------------------------------------------- *)
MinLeaf(t) == Min(LeafSet(t))
RECURSIVE Canon(_)
Canon(t) ==
  Node(t.len, t.idx,
       LET ck == [k \in DOMAIN t.kids |-> Canon(t.kids[k])] IN
       SetToSortSeq({k \in DOMAIN ck : TRUE}, LAMBDA a, b : MinLeaf(ck[a]) < MinLeaf(ck[b])))
\* (Canon sorts child positions; CanonTree substitutes the children)
RECURSIVE CanonTree(_)
CanonTree(t) ==
  LET ck == [k \in DOMAIN t.kids |-> CanonTree(t.kids[k])]
      order == SetToSortSeq(DOMAIN ck, LAMBDA a, b : MinLeaf(ck[a]) < MinLeaf(ck[b]))
  IN Node(t.len, t.idx, [q \in DOMAIN order |-> ck[order[q]]])
AtRoot(t) == [t EXCEPT !.len = R(0)]
SameTree(a, b) == CanonTree(AtRoot(a)) = CanonTree(AtRoot(b))
SameTopology(a, b) == CanonTree(ZeroLens(a)) = CanonTree(ZeroLens(b))
SameLeafDistances(a, b) ==
  LeafSet(a) = LeafSet(b) /\ \A i, j \in LeafSet(a) : REq(PairDist(a, i, j), PairDist(b, i, j))

(* ---- domain of trees ---------------------------------------------------------------------- *)
RECURSIVE NodesOK(_)
NodesOK(t) == (IsLeaf(t) => t.kids = <<>> /\ t.idx >= 0)
              /\ (~IsLeaf(t) => Len(t.kids) >= 1 /\ \A k \in DOMAIN t.kids : NodesOK(t.kids[k]))
Dom_Tree(t) == NodesOK(t) /\ LeavesOnce(t, Len(LeafList(t)))

(* ------------------------------------------------------------------ distance matrices *)
\* D: sequence of rows of integers, 0-based indices i, j -> D[i + 1][j + 1]
DAt(D, i, j) == D[i + 1][j + 1]
Dom_Matrix(D) ==
  /\ \A i \in DOMAIN D : Len(D[i]) = Len(D)
  /\ \A i, j \in DOMAIN D : D[i][j] = D[j][i] /\ D[i][j] >= 0
  /\ \A i \in DOMAIN D : D[i][i] = 0
\* average linkage between two clusters (sets of indices): mean of the original distances
LinkSum(D, A, B) == FoldLeft(LAMBDA acc, p : acc + DAt(D, p[1], p[2]), 0, SetToSeq(A \X B))
AvgLink(D, A, B) == RNorm(LinkSum(D, A, B), Cardinality(A) * Cardinality(B))

(* ---- UPGMA: the code's loop ---------------------------------------------------------------
   U = [act   set of live positions (a merged cluster lives at position iMin, jMin dies),
        mem   position -> set of members,   size = Cardinality(mem),
        h     position -> height of the node (rational),
        d     <<i, j>> (i > j) -> current mean distance as the code updates it,
        node  position -> tree built so far]                                                  *)
UpgmaInit(D) ==
  LET n == Len(D) IN
  [act |-> 0..(n - 1),
   mem |-> [i \in 0..(n - 1) |-> {i}],
   h   |-> [i \in 0..(n - 1) |-> R(0)],
   d   |-> [p \in {q \in (0..(n - 1)) \X (0..(n - 1)) : q[1] > q[2]} |-> R(DAt(D, p[1], p[2]))],
   node |-> [i \in 0..(n - 1) |-> LeafN(R(0), i)]]
DU(U, i, j) == IF i > j THEN U.d[<<i, j>>] ELSE U.d[<<j, i>>]
LivePairs(U) == {p \in DOMAIN U.d : p[1] \in U.act /\ p[2] \in U.act}
\* first minimum in the scan order (i ascending, then j ascending), strict '<'
PairBefore(p, q) == p[1] < q[1] \/ (p[1] = q[1] /\ p[2] < q[2])
FirstMin(pairs, val(_)) ==
  CHOOSE p \in pairs : \A q \in pairs : RLt(val(p), val(q)) \/ (REq(val(p), val(q)) /\ (p = q \/ PairBefore(p, q)))
UpgmaDone(U) == Cardinality(U.act) <= 1
UpgmaStep(U) ==
  LET p == FirstMin(LivePairs(U), LAMBDA q : U.d[q])
      i == p[1]  j == p[2]
      height == RDivI(U.d[p], 2)
      si == Cardinality(U.mem[i])  sj == Cardinality(U.mem[j])
      newNode == Node(R(0), -1, <<[U.node[i] EXCEPT !.len = RSub(height, U.h[i])],
                                  [U.node[j] EXCEPT !.len = RSub(height, U.h[j])]>>)
      act2 == U.act \ {j}
  IN [act |-> act2,
      mem |-> [U.mem EXCEPT ![i] = U.mem[i] \cup U.mem[j]],
      h   |-> [U.h EXCEPT ![i] = height],
      d   |-> [q \in DOMAIN U.d |->
                 IF (q[1] = i \/ q[2] = i) /\ q[1] \in act2 /\ q[2] \in act2
                   THEN LET k == IF q[1] = i THEN q[2] ELSE q[1] IN
                        RDivI(RAdd(RMulI(DU(U, i, k), si), RMulI(DU(U, j, k), sj)), si + sj)
                   ELSE U.d[q]],
      node |-> [U.node EXCEPT ![i] = newNode]]
RECURSIVE UpgmaRun(_)
UpgmaRun(U) == IF UpgmaDone(U) THEN U ELSE UpgmaRun(UpgmaStep(U))
Upgma(D) == LET U == UpgmaRun(UpgmaInit(D)) IN U.node[CHOOSE i \in U.act : TRUE]

\* what the property says about a tree t returned for matrix D
RECURSIVE MergeHeightsOK(_, _)
MergeHeightsOK(D, t) ==
  IsLeaf(t) \/
  /\ Len(t.kids) = 2
  /\ LET half == RDivI(AvgLink(D, LeafSet(t.kids[1]), LeafSet(t.kids[2])), 2) IN
     \A i \in LeafSet(t) : REq(Depths(t)[i], half)                     \* ultrametric at this node
  /\ \A k \in DOMAIN t.kids : MergeHeightsOK(D, t.kids[k])
UpgmaPost(D, t) == [leaves |-> LeavesOnce(t, Len(D)), heights |-> LeavesOnce(t, Len(D)) /\ MergeHeightsOK(D, t)]

(* ---- neighbour joining: the code's loop ---------------------------------------------------
   J = [act, d (current distances, rationals), node, r = number of live nodes, root (<<>> or <<tree>>)] *)
NjInit(D) ==
  LET n == Len(D) IN
  [act |-> 0..(n - 1),
   d   |-> [p \in {q \in (0..(n - 1)) \X (0..(n - 1)) : q[1] > q[2]} |-> R(DAt(D, p[1], p[2]))],
   node |-> [i \in 0..(n - 1) |-> LeafN(R(0), i)],
   root |-> <<>>]
DJ(J, i, j) == IF i = j THEN R(0) ELSE IF i > j THEN J.d[<<i, j>>] ELSE J.d[<<j, i>>]
Divergence(J, i) == RSum([q \in 1..Cardinality(J.act) |-> DJ(J, i, SetToSortSeq(J.act, <)[q])])
NjDone(J) == J.root # <<>>
NjStep(J) ==
  LET r == Cardinality(J.act)
      div == [i \in J.act |-> Divergence(J, i)]
      pairs == {p \in DOMAIN J.d : p[1] \in J.act /\ p[2] \in J.act}
      corr(p) == RSub(RSub(RMulI(J.d[p], r - 2), div[p[1]]), div[p[2]])
      p == FirstMin(pairs, corr)
      i == p[1]  j == p[2]
      li == RDivI(RAdd(J.d[p], RDivI(RSub(div[i], div[j]), r - 2)), 2)
      lj == RDivI(RAdd(J.d[p], RDivI(RSub(div[j], div[i]), r - 2)), 2)
  IN IF r > 3
       THEN LET act2 == J.act \ {j} IN
            [act |-> act2,
             d |-> [q \in DOMAIN J.d |->
                      IF (q[1] = i \/ q[2] = i) /\ q[1] \in act2 /\ q[2] \in act2
                        THEN LET k == IF q[1] = i THEN q[2] ELSE q[1] IN
                             RDivI(RSub(RAdd(DJ(J, i, k), DJ(J, j, k)), J.d[p]), 2)
                        ELSE J.d[q]],
             node |-> [J.node EXCEPT ![i] = Node(R(0), -1, <<[J.node[i] EXCEPT !.len = li],
                                                            [J.node[j] EXCEPT !.len = lj]>>)],
             root |-> <<>>]
       ELSE LET k == CHOOSE x \in J.act : x # i /\ x # j
                lk == RDivI(RSub(RAdd(DJ(J, i, k), DJ(J, j, k)), J.d[p]), 2)
            IN [J EXCEPT !.act = {},
                         !.root = <<Node(R(0), -1, <<[J.node[i] EXCEPT !.len = li], [J.node[j] EXCEPT !.len = lj],
                                                     [J.node[k] EXCEPT !.len = lk]>>)>>]
RECURSIVE NjRun(_)
NjRun(J) == IF NjDone(J) THEN J ELSE NjRun(NjStep(J))
Nj(D) == NjRun(NjInit(D)).root[1]
Dom_NjSize(D) == Len(D) >= 4                                        \* fewer nodes: documented ValueError

\* additive (tree-like) matrices: the four-point condition
FourPoint(D, a, b, c, e) ==
  LET s1 == DAt(D, a, b) + DAt(D, c, e)
      s2 == DAt(D, a, c) + DAt(D, b, e)
      s3 == DAt(D, a, e) + DAt(D, b, c)
  IN (s1 <= s2 /\ s2 = s3) \/ (s2 <= s1 /\ s1 = s3) \/ (s3 <= s1 /\ s1 = s2)
Dom_Additive(D) ==
  LET I == 0..(Len(D) - 1) IN
  /\ \A a, b, c \in I : DAt(D, a, b) <= DAt(D, a, c) + DAt(D, c, b)
  /\ \A a, b, c, e \in I : FourPoint(D, a, b, c, e)
\* the matrix of a tree (integer branch lengths)
TreeMatrix(t) ==
  LET n == Len(LeafList(t)) IN
  [i \in 1..n |-> [j \in 1..n |-> PairDist(t, i - 1, j - 1)[1]]]
NjPost(D, t) ==
  [leaves |-> LeavesOnce(t, Len(D)),
   paths  |-> Dom_Additive(D) => (LeavesOnce(t, Len(D)) /\
                \A i, j \in 0..(Len(D) - 1) : REq(PairDist(t, i, j), R(DAt(D, i, j))))]

(* ------------------------------------------------------------------ generators of trees *)
\* partitions of a set S into exactly k non-empty blocks, as sets of blocks
RECURSIVE PartitionsK(_, _)
PartitionsK(S, k) ==
  IF k = 1 THEN (IF S = {} THEN {} ELSE {{S}})
  ELSE IF Cardinality(S) < k THEN {}
  ELSE LET m == Min(S) IN
       UNION {{{B} \cup P : P \in PartitionsK(S \ B, k - 1)} : B \in {{m} \cup X : X \in SUBSET (S \ {m})} \ {S}}
BlocksInOrder(P) == SetToSortSeq(P, LAMBDA A, B : Min(A) < Min(B))

\* branch length of the node above clade S: a fixed function of the clade (pattern pat)
LenOf(S, pat) ==
  CASE pat = 0 -> R(1)
    [] pat = 1 -> R((Min(S) + Cardinality(S)) % 4)          \* 0..3, zero lengths included
    [] OTHER   -> <<2 * Min(S) + 1, 4>>                      \* quarters (exact in float32)

\* all rooted trees over leaf set S: arity 2..MaxArity at every inner node, optionally one unary
\* node above a sub-tree (unary = TRUE)
RECURSIVE TreesOver(_, _, _, _)
TreesOver(S, maxArity, unary, pat) ==
  LET plain ==
        IF Cardinality(S) = 1 THEN {LeafN(LenOf(S, pat), Min(S))}
        ELSE UNION {
               UNION {{Node(LenOf(S, pat), -1, kids) :
                          kids \in {f \in [1..k -> UNION {TreesOver(B, maxArity, unary, pat) : B \in P}] :
                                      \A q \in 1..k : f[q] \in TreesOver(BlocksInOrder(P)[q], maxArity, unary, pat)}}
                      : P \in PartitionsK(S, k)}
               : k \in 2..maxArity}
  IN plain \cup (IF unary /\ Cardinality(S) <= 2 THEN {Node(R(1), -1, <<t>>) : t \in plain} ELSE {})
=============================================================================
