------------------------------- MODULE Phylo -------------------------------
(* C19: rooted trees (biotite.sequence.phylo.Tree / TreeNode / as_binary) and the two
   clustering algorithms upgma() and neighbor_joining().

   Numbers are exact rationals <<num, den>> (den > 0, normalised): averages, halves and the
   neighbour-joining thirds stay exact; the driver turns floats into the nearest small rational.

   A tree is a nested record  N = [len |-> rational, idx |-> leaf index or -1, kids |-> <<N ..>>]
   (len: distance to the parent; the root's len is ignored).  One operator per public call:
     LeafList / LeafSet          Tree.leaves, TreeNode.get_indices / get_leaves
     PP, DistPP, LcaPP           TreeNode.distance_to / lowest_common_ancestor as written: paths to
                                 the root in a parent-pointer table, compared from the root
     PairDist                    declarative leaf-to-leaf distance (recursion over sub-trees)
     AsBinary                    as_binary(): unary nodes dissolved (lengths added), wider nodes
                                 split into a chain of zero-length nodes
     Canon / SameTree            Tree.__eq__ / __hash__: children are unordered
     ZeroLens                    what to_newick(include_distance=False) keeps
     UpgmaStep / Upgma           upgma(): the code's loop, one merge per step
     NjStep / Nj                 neighbor_joining(): divergences, corrected distances, branch
                                 lengths, final three-way join *)
EXTENDS Integers, Sequences, FiniteSets, SequencesExt, FiniteSetsExt, TLC

\* Bind(v, F): F(v) with v evaluated exactly once.  (TLC may re-evaluate a LET definition at every
\* use when it refers to other LET definitions; a variable bound by a set constructor is a value.)
Bind(v, F(_)) == CHOOSE r \in {F(x) : x \in {v}} : TRUE

(* ------------------------------------------------------------------ rationals *)
RECURSIVE Gcd(_, _)
Gcd(a, b) == IF b = 0 THEN a ELSE Gcd(b, a % b)
Abs(x) == IF x < 0 THEN -x ELSE x
RNorm(n, d) ==
  LET s == IF d < 0 THEN -1 ELSE 1
      g == Gcd(Abs(n), Abs(d))
  IN IF n = 0 THEN <<0, 1>> ELSE <<(s * n) \div g, (s * d) \div g>>
R(n) == <<n, 1>>
RAdd(a, b) == RNorm(a[1] * b[2] + b[1] * a[2], a[2] * b[2])
RSub(a, b) == RNorm(a[1] * b[2] - b[1] * a[2], a[2] * b[2])
RMulI(a, k) == RNorm(a[1] * k, a[2])
RDivI(a, k) == RNorm(a[1], a[2] * k)
REq(a, b) == a[1] * b[2] = b[1] * a[2]
RLt(a, b) == a[1] * b[2] < b[1] * a[2]
RLe(a, b) == a[1] * b[2] <= b[1] * a[2]
RSum(s) == FoldLeft(RAdd, R(0), s)

(* ------------------------------------------------------------------ trees *)
Node(len, idx, kids) == [len |-> len, idx |-> idx, kids |-> kids]
LeafN(len, i) == Node(len, i, <<>>)
IsLeaf(t) == t.idx # -1

RECURSIVE LeafList(_)
LeafList(t) == IF IsLeaf(t) THEN <<t.idx>> ELSE FlattenSeq([k \in DOMAIN t.kids |-> LeafList(t.kids[k])])
LeafSet(t) == ToSet(LeafList(t))
\* the property: every index 0..n-1 is exactly one leaf
LeavesOnce(t, n) == Len(LeafList(t)) = n /\ LeafSet(t) = 0..(n - 1)

\* One bottom-up pass over the sub-trees:
\*   ls   leaf set            dep  leaf -> depth below t (t's own len excluded)
\*   pd   <<i, j>> -> leaf-to-leaf distance: the pair parts at the lowest node holding both, there
\*        the distance is the sum of the two depths
\*   lca  <<i, j>> -> clade (leaf set) of the lowest common ancestor
RECURSIVE Info(_)
Info(t) ==
  IF IsLeaf(t)
    THEN [ls |-> {t.idx}, dep |-> [i \in {t.idx} |-> R(0)],
          pd |-> [p \in {<<t.idx, t.idx>>} |-> R(0)], lca |-> [p \in {<<t.idx, t.idx>>} |-> {t.idx}]]
    ELSE \* TLCEval: TLC evaluates function constructors lazily (the body again at every
         \* application); forcing them and binding them once keeps the pass linear
         Bind(TLCEval([k \in DOMAIN t.kids |-> Info(t.kids[k])]), LAMBDA sub :
         Bind(UNION {sub[k].ls : k \in DOMAIN sub}, LAMBDA ls :
         Bind(TLCEval([i \in ls |-> CHOOSE k \in DOMAIN sub : i \in sub[k].ls]), LAMBDA kid :
         Bind(TLCEval([i \in ls |-> RAdd(t.kids[kid[i]].len, sub[kid[i]].dep[i])]), LAMBDA dep :
           [ls |-> ls, dep |-> dep,
            pd |-> TLCEval([p \in ls \X ls |-> IF kid[p[1]] = kid[p[2]] THEN sub[kid[p[1]]].pd[p]
                                               ELSE RAdd(dep[p[1]], dep[p[2]])]),
            lca |-> TLCEval([p \in ls \X ls |-> IF kid[p[1]] = kid[p[2]] THEN sub[kid[p[1]]].lca[p] ELSE ls])]))))
Depths(t) == Info(t).dep
PairDist(t, i, j) == Info(t).pd[<<i, j>>]
LcaClade(t, i, j) == Info(t).lca[<<i, j>>]
\* topological distance: every edge counts 1
RECURSIVE UnitLens(_)
UnitLens(t) == Node(R(1), t.idx, TLCEval([k \in DOMAIN t.kids |-> UnitLens(t.kids[k])]))
RECURSIVE ZeroLens(_)
ZeroLens(t) == Node(R(0), t.idx, TLCEval([k \in DOMAIN t.kids |-> ZeroLens(t.kids[k])]))

RECURSIVE Clades(_)
Clades(t) == {LeafSet(t)} \cup UNION {Clades(t.kids[k]) : k \in DOMAIN t.kids}

(* ---- the code's way: parent pointers, paths to the root ---------------------------------- *)
\* preorder table: sequence of [parent (0 = none), len, idx]
RECURSIVE PPFrom(_, _, _)
PPFrom(t, parent, tab) ==
  LET me == Len(tab) + 1
      tab1 == Append(tab, [parent |-> parent, len |-> t.len, idx |-> t.idx])
  IN FoldLeft(LAMBDA acc, k : PPFrom(t.kids[k], me, acc), tab1, [k \in DOMAIN t.kids |-> k])
PP(t) == PPFrom(t, 0, <<>>)
RECURSIVE PathToRoot(_, _)
PathToRoot(tab, v) == IF v = 0 THEN <<>> ELSE <<v>> \o PathToRoot(tab, tab[v].parent)
\* lowest_common_ancestor as written: walk both paths backwards from the root while they agree
LcaPP(tab, u, v) ==
  LET pu == Reverse(PathToRoot(tab, u))  pv == Reverse(PathToRoot(tab, v))
      m == IF Len(pu) < Len(pv) THEN Len(pu) ELSE Len(pv)
      agree == {k \in 1..m : \A q \in 1..k : pu[q] = pv[q]}
  IN IF agree = {} THEN 0 ELSE pu[Max(agree)]
\* distance_to as written: add branch lengths from both nodes up to the common ancestor
RECURSIVE UpSum(_, _, _)
UpSum(tab, v, stop) == IF v = stop THEN R(0) ELSE RAdd(tab[v].len, UpSum(tab, tab[v].parent, stop))
DistPP(tab, u, v) == LET a == LcaPP(tab, u, v) IN RAdd(UpSum(tab, u, a), UpSum(tab, v, a))
LeafRow(tab, i) == CHOOSE v \in DOMAIN tab : tab[v].idx = i

(* ---- as_binary ---------------------------------------------------------------------------- *)
\* chain for more than two children: ((c1, c2):0, c3):0 ...  as the code builds it
Chain(kids) ==
  FoldLeft(LAMBDA acc, k : Node(R(0), -1, <<acc, kids[k]>>),
           Node(R(0), -1, <<kids[1], kids[2]>>), [q \in 1..(Len(kids) - 2) |-> q + 2])
RECURSIVE AsBinaryNode(_)
AsBinaryNode(t) ==
  IF IsLeaf(t) THEN t
  ELSE Bind(TLCEval([k \in DOMAIN t.kids |-> AsBinaryNode(t.kids[k])]), LAMBDA bk :
       IF Len(bk) = 1 THEN [bk[1] EXCEPT !.len = RAdd(t.len, bk[1].len)]     \* node dissolved
       ELSE IF Len(bk) = 2 THEN Node(t.len, -1, bk)
       ELSE [Chain(bk) EXCEPT !.len = t.len])
AsBinary(t) == [AsBinaryNode(t) EXCEPT !.len = R(0)]
RECURSIVE IsBinary(_)
IsBinary(t) == IsLeaf(t) \/ (Len(t.kids) = 2 /\ \A k \in DOMAIN t.kids : IsBinary(t.kids[k]))

(* ---- equality: children unordered ------------------------------------------------------- *)
MinLeaf(t) == Min(LeafSet(t))
RECURSIVE CanonTree(_)
CanonTree(t) ==
  Bind(TLCEval([k \in DOMAIN t.kids |-> CanonTree(t.kids[k])]), LAMBDA ck :
  Bind(TLCEval([k \in DOMAIN ck |-> MinLeaf(ck[k])]), LAMBDA ml :
  Bind(SetToSortSeq(DOMAIN ck, LAMBDA a, b : ml[a] < ml[b]), LAMBDA order :
    Node(t.len, t.idx, [q \in DOMAIN order |-> ck[order[q]]]))))
AtRoot(t) == [t EXCEPT !.len = R(0)]
SameTree(a, b) == CanonTree(AtRoot(a)) = CanonTree(AtRoot(b))
SameTopology(a, b) == CanonTree(ZeroLens(a)) = CanonTree(ZeroLens(b))
SameLeafDistances(a, b) ==
  \E ia \in {Info(a)} : \E ib \in {Info(b)} :       \* (bound once; a LET would be re-evaluated per use)
    ia.ls = ib.ls /\ \A p \in ia.ls \X ia.ls : REq(ia.pd[p], ib.pd[p])

\* the same two relations when the source tree's values are already at hand (ctz = CanonTree(ZeroLens(t)), it = Info(t))
TopologyIs(p, ctz) == CanonTree(ZeroLens(p)) = ctz
SameDistInfo(ia, ib) == ia.ls = ib.ls /\ \A p \in ia.ls \X ia.ls : REq(ia.pd[p], ib.pd[p])
LeafDistancesAre(p, it) == \E ip \in {Info(p)} : SameDistInfo(ip, it)

(* ---- domain of trees ---------------------------------------------------------------------- *)
RECURSIVE NodesOK(_)
NodesOK(t) == (IsLeaf(t) => t.kids = <<>> /\ t.idx >= 0)
              /\ (~IsLeaf(t) => Len(t.kids) >= 1 /\ \A k \in DOMAIN t.kids : NodesOK(t.kids[k]))
Dom_Tree(t) == NodesOK(t) /\ LeavesOnce(t, Len(LeafList(t)))

(* ------------------------------------------------------------------ distance matrices *)
\* D: sequence of rows of integers, 0-based indices i, j -> D[i + 1][j + 1]
DAt(D, i, j) == D[i + 1][j + 1]
Dom_Matrix(D) ==
  /\ \A i \in DOMAIN D : Len(D[i]) = Len(D)
  /\ \A i, j \in DOMAIN D : D[i][j] = D[j][i] /\ D[i][j] >= 0
  /\ \A i \in DOMAIN D : D[i][i] = 0
\* what upgma() / neighbor_joining() validate themselves (documented ValueError otherwise)
Dom_SymNonNeg(D) ==
  /\ \A i \in DOMAIN D : Len(D[i]) = Len(D)
  /\ \A i, j \in DOMAIN D : D[i][j] = D[j][i] /\ D[i][j] >= 0
\* average linkage between two clusters (sets of indices): mean of the original distances
LinkSum(D, A, B) == FoldLeft(LAMBDA acc, p : acc + DAt(D, p[1], p[2]), 0, SetToSeq(A \X B))
AvgLink(D, A, B) == RNorm(LinkSum(D, A, B), Cardinality(A) * Cardinality(B))

(* ---- UPGMA: the code's loop ---------------------------------------------------------------
   U = [act   set of live positions (a merged cluster lives at position iMin, jMin dies),
        mem   position -> set of members,   size = Cardinality(mem),
        h     position -> height of the node (rational),
        d     <<i, j>> (i > j) -> current mean distance as the code updates it,
        node  position -> tree built so far]                                                  *)
UpgmaInit(D) ==
  LET n == Len(D) IN
  [act |-> 0..(n - 1),
   mem |-> [i \in 0..(n - 1) |-> {i}],
   h   |-> [i \in 0..(n - 1) |-> R(0)],
   d   |-> TLCEval([p \in {q \in (0..(n - 1)) \X (0..(n - 1)) : q[1] > q[2]} |-> R(DAt(D, p[1], p[2]))]),
   node |-> TLCEval([i \in 0..(n - 1) |-> LeafN(R(0), i)])]
DU(U, i, j) == IF i > j THEN U.d[<<i, j>>] ELSE U.d[<<j, i>>]
LivePairs(U) == {p \in DOMAIN U.d : p[1] \in U.act /\ p[2] \in U.act}
\* first minimum in the scan order (i ascending, then j ascending), strict '<'
PairBefore(p, q) == p[1] < q[1] \/ (p[1] = q[1] /\ p[2] < q[2])
FirstMin(pairs, val(_)) ==
  Bind(TLCEval([p \in pairs |-> val(p)]), LAMBDA v :
    CHOOSE p \in pairs : \A q \in pairs : RLt(v[p], v[q]) \/ (REq(v[p], v[q]) /\ (p = q \/ PairBefore(p, q))))
UpgmaDone(U) == Cardinality(U.act) <= 1
UpgmaMerge(U, p) ==
  LET i == p[1]  j == p[2]
      height == RDivI(U.d[p], 2)
      si == Cardinality(U.mem[i])  sj == Cardinality(U.mem[j])
      newNode == Node(R(0), -1, <<[U.node[i] EXCEPT !.len = RSub(height, U.h[i])],
                                  [U.node[j] EXCEPT !.len = RSub(height, U.h[j])]>>)
      act2 == U.act \ {j}
  IN [act |-> act2,
      mem |-> [U.mem EXCEPT ![i] = U.mem[i] \cup U.mem[j]],
      h   |-> [U.h EXCEPT ![i] = height],
      d   |-> TLCEval([q \in DOMAIN U.d |->
                 IF (q[1] = i \/ q[2] = i) /\ q[1] \in act2 /\ q[2] \in act2
                   THEN LET k == IF q[1] = i THEN q[2] ELSE q[1] IN
                        RDivI(RAdd(RMulI(DU(U, i, k), si), RMulI(DU(U, j, k), sj)), si + sj)
                   ELSE U.d[q]]),
      node |-> [U.node EXCEPT ![i] = newNode]]
\* one pass of the while loop: find the first minimum, merge
UpgmaStep(U) == Bind(FirstMin(LivePairs(U), LAMBDA q : U.d[q]), LAMBDA p : UpgmaMerge(U, p))
RECURSIVE UpgmaRun(_)
UpgmaRun(U) == IF UpgmaDone(U) THEN U ELSE UpgmaRun(UpgmaStep(U))
Upgma(D) == LET U == UpgmaRun(UpgmaInit(D)) IN U.node[CHOOSE i \in U.act : TRUE]

\* what the property says about a tree t returned for matrix D
RECURSIVE MergeHeightsOK(_, _)
MergeHeightsOK(D, t) ==
  IsLeaf(t) \/
  /\ Len(t.kids) = 2
  /\ LET half == RDivI(AvgLink(D, LeafSet(t.kids[1]), LeafSet(t.kids[2])), 2)
         dep == Depths(t)
     IN \A i \in DOMAIN dep : REq(dep[i], half)                         \* ultrametric at this node
  /\ \A k \in DOMAIN t.kids : MergeHeightsOK(D, t.kids[k])
\* the two child clades of the lowest common ancestor of i and j (i # j, binary node)
RECURSIVE LcaSide(_, _, _)
LcaSide(t, i, j) ==
  LET ki == CHOOSE k \in DOMAIN t.kids : i \in LeafSet(t.kids[k])
      kj == CHOOSE k \in DOMAIN t.kids : j \in LeafSet(t.kids[k])
  IN IF ki = kj THEN LcaSide(t.kids[ki], i, j) ELSE <<LeafSet(t.kids[ki]), LeafSet(t.kids[kj])>>
UpgmaPost(D, t) == [leaves |-> LeavesOnce(t, Len(D)), heights |-> LeavesOnce(t, Len(D)) /\ MergeHeightsOK(D, t)]

\* The same postcondition on what can be observed of a real tree through the public API:
\*   leaves  leaf indices in tree order
\*   nodes   one entry per inner node: [a |-> leaves below the first child, b |-> below the second,
\*           arity |-> number of children, dep |-> <<<<leaf, depth below the node>>, ...>>]
UpgmaPostObs(D, leaves, nodes) ==
  LET once == Len(leaves) = Len(D) /\ ToSet(leaves) = 0..(Len(D) - 1) IN
  [leaves  |-> once,
   heights |-> once /\ \A k \in DOMAIN nodes :
                 /\ nodes[k].arity = 2
                 /\ LET half == RDivI(AvgLink(D, ToSet(nodes[k].a), ToSet(nodes[k].b)), 2) IN
                    \A q \in DOMAIN nodes[k].dep : REq(nodes[k].dep[q][2], half)]
RECURSIVE NodeObs(_)
NodeObs(t) ==
  IF IsLeaf(t) THEN <<>>
  ELSE <<[a |-> LeafList(t.kids[1]), b |-> IF Len(t.kids) >= 2 THEN LeafList(t.kids[2]) ELSE <<>>,
          arity |-> Len(t.kids),
          dep |-> LET ls == LeafList(t) IN [q \in DOMAIN ls |-> <<ls[q], Depths(t)[ls[q]]>>]]>>
       \o FlattenSeq([k \in DOMAIN t.kids |-> NodeObs(t.kids[k])])

(* ---- neighbour joining: the code's loop ---------------------------------------------------
   J = [act, d (current distances, rationals), node, r = number of live nodes, root (<<>> or <<tree>>)] *)
NjInit(D) ==
  LET n == Len(D) IN
  [act |-> 0..(n - 1),
   d   |-> TLCEval([p \in {q \in (0..(n - 1)) \X (0..(n - 1)) : q[1] > q[2]} |-> R(DAt(D, p[1], p[2]))]),
   node |-> TLCEval([i \in 0..(n - 1) |-> LeafN(R(0), i)]),
   root |-> <<>>]
DJ(J, i, j) == IF i = j THEN R(0) ELSE IF i > j THEN J.d[<<i, j>>] ELSE J.d[<<j, i>>]
Divergence(J, i) == LET ks == SetToSeq(J.act) IN RSum([q \in DOMAIN ks |-> DJ(J, i, ks[q])])
NjDone(J) == J.root # <<>>
NjCorr(J, div, r, p) == RSub(RSub(RMulI(J.d[p], r - 2), div[p[1]]), div[p[2]])
NjJoin(J, div, r, p) ==
  LET i == p[1]  j == p[2]
      li == RDivI(RAdd(J.d[p], RDivI(RSub(div[i], div[j]), r - 2)), 2)
      lj == RDivI(RAdd(J.d[p], RDivI(RSub(div[j], div[i]), r - 2)), 2)
  IN IF r > 3
       THEN LET act2 == J.act \ {j} IN
            [act |-> act2,
             d |-> TLCEval([q \in DOMAIN J.d |->
                      IF (q[1] = i \/ q[2] = i) /\ q[1] \in act2 /\ q[2] \in act2
                        THEN LET k == IF q[1] = i THEN q[2] ELSE q[1] IN
                             RDivI(RSub(RAdd(DJ(J, i, k), DJ(J, j, k)), J.d[p]), 2)
                        ELSE J.d[q]]),
             node |-> [J.node EXCEPT ![i] = Node(R(0), -1, <<[J.node[i] EXCEPT !.len = li],
                                                            [J.node[j] EXCEPT !.len = lj]>>)],
             root |-> <<>>]
       ELSE LET k == CHOOSE x \in J.act : x # i /\ x # j
                lk == RDivI(RSub(RAdd(DJ(J, i, k), DJ(J, j, k)), J.d[p]), 2)
            IN [J EXCEPT !.act = {},
                         !.root = <<Node(R(0), -1, <<[J.node[i] EXCEPT !.len = li], [J.node[j] EXCEPT !.len = lj],
                                                     [J.node[k] EXCEPT !.len = lk]>>)>>]
\* one pass of the while loop: divergences, corrected distances, first minimum, join
NjStep(J) ==
  Bind(Cardinality(J.act), LAMBDA r :
  Bind(TLCEval([i \in J.act |-> Divergence(J, i)]), LAMBDA div :
  Bind(FirstMin({p \in DOMAIN J.d : p[1] \in J.act /\ p[2] \in J.act}, LAMBDA q : NjCorr(J, div, r, q)), LAMBDA p :
    NjJoin(J, div, r, p))))
RECURSIVE NjRun(_)
NjRun(J) == IF NjDone(J) THEN J ELSE NjRun(NjStep(J))
Nj(D) == NjRun(NjInit(D)).root[1]
Dom_NjSize(D) == Len(D) >= 4                                        \* fewer nodes: documented ValueError

\* additive (tree-like) matrices: the four-point condition
FourPoint(D, a, b, c, e) ==
  LET s1 == DAt(D, a, b) + DAt(D, c, e)
      s2 == DAt(D, a, c) + DAt(D, b, e)
      s3 == DAt(D, a, e) + DAt(D, b, c)
  IN (s1 <= s2 /\ s2 = s3) \/ (s2 <= s1 /\ s1 = s3) \/ (s3 <= s1 /\ s1 = s2)
Dom_Additive(D) ==
  LET I == 0..(Len(D) - 1) IN
  /\ \A a, b, c \in I : DAt(D, a, b) <= DAt(D, a, c) + DAt(D, c, b)
  /\ \A a, b, c, e \in I : FourPoint(D, a, b, c, e)
\* the matrix of a tree (integer branch lengths)
TreeMatrix(t) ==
  LET n == Len(LeafList(t)) IN
  LET pd == Info(t).pd IN [i \in 1..n |-> [j \in 1..n |-> pd[<<i - 1, j - 1>>][1]]]
NjPost(D, t) ==
  [leaves |-> LeavesOnce(t, Len(D)),
   paths  |-> Dom_Additive(D) => (LeavesOnce(t, Len(D)) /\
                LET pd == Info(t).pd IN \A i, j \in 0..(Len(D) - 1) : REq(pd[<<i, j>>], R(DAt(D, i, j))))]

\* all symmetric matrices with zero diagonal and entries 0..E
SymMatrices(n, E) ==
  LET pairs == {q \in (1..n) \X (1..n) : q[1] > q[2]} IN
  {[i \in 1..n |-> [j \in 1..n |-> IF i = j THEN 0 ELSE IF i > j THEN f[<<i, j>>] ELSE f[<<j, i>>]]]
     : f \in [pairs -> 0..E]}

\* the same on observables: leaf list and the matrix of Tree.get_distance(i, j)
NjPostObsWith(D, additive, leaves, dist) ==                 \* additive = Dom_Additive(D), evaluated once by the caller
  LET once == Len(leaves) = Len(D) /\ ToSet(leaves) = 0..(Len(D) - 1) IN
  [leaves |-> once,
   paths  |-> additive => (once /\ \A i, j \in DOMAIN D : REq(dist[i][j], R(D[i][j])))]
NjPostObs(D, leaves, dist) == NjPostObsWith(D, Dom_Matrix(D) /\ Dom_Additive(D), leaves, dist)

(* ------------------------------------------------------------------ block matrices: large inputs
   TLC cannot enumerate matrices of several hundred taxa, but counters and array element widths of
   the code only matter there (a cluster of 127 / 128 / 255 / 256 / 257 taxa).  A block matrix is
   given by a small base matrix B over k groups and the group of every taxon:
     B[g][h]  distance between a taxon of group g and a taxon of group h (g # h),
     B[g][g]  distance between two different taxa of group g,
     grp      sequence, grp[i + 1] = group (1..k) of taxon i.
   The property's postcondition on such a matrix needs only the number of taxa of every group in a
   cluster (lemma L_AvgLinkCnt) and one pass over the returned tree (lemma L_FlatPost); both are
   model-checked on every small instance (MCBlock) and then used for the large ones. *)
SeqSum(s) == FoldLeft(LAMBDA a, b : a + b, 0, s)
Expand(B, grp) == [i \in DOMAIN grp |-> [j \in DOMAIN grp |-> IF i = j THEN 0 ELSE B[grp[i]][grp[j]]]]
Counts(grp, k, A) == [g \in 1..k |-> Cardinality({a \in A : grp[a + 1] = g})]
GroupSizes(grp, k) == [g \in 1..k |-> Cardinality({q \in DOMAIN grp : grp[q] = g})]
\* average linkage of two disjoint clusters from their group counts
AvgLinkCnt(B, ca, cb) ==
  LET ks == [g \in 1..Len(B) |-> g]
      num == FoldLeft(LAMBDA acc, g : acc + ca[g] * FoldLeft(LAMBDA a2, h : a2 + cb[h] * B[g][h], 0, ks), 0, ks)
  IN RNorm(num, SeqSum(ca) * SeqSum(cb))
Dom_Block(B, grp) ==
  /\ Len(B) >= 1 /\ Len(grp) >= 2
  /\ \A g \in DOMAIN B : Len(B[g]) = Len(B)
  /\ \A g, h \in DOMAIN B : B[g][h] = B[h][g] /\ B[g][h] >= 0
  /\ \A q \in DOMAIN grp : grp[q] \in DOMAIN B

\* where the taxa of the groups sit in the matrix (the code keeps a merged cluster at the larger index)
Arrangements == {"asc", "desc", "mix"}
Arrange(s, arr) ==
  LET k == Len(s)
      asc == FlattenSeq([g \in 1..k |-> [q \in 1..s[g] |-> g]])
      ks == [g \in 1..k |-> g]
  IN CASE arr = "asc"  -> asc
       [] arr = "desc" -> Reverse(asc)
       [] OTHER        -> FlattenSeq([r \in 1..Max(ToSet(s)) |-> SelectSeq(ks, LAMBDA g : s[g] >= r)])   \* round robin

\* A tree as one list: the inner nodes in post-order, each <<kids, lens>>; a child is its leaf index
\* (>= 0) or -(position of the inner node in the list); lens = branch lengths to the children.
RECURSIVE FlatFrom(_, _)
FlatFrom(t, acc) ==                                         \* -> <<list, reference to t>>
  IF IsLeaf(t) THEN <<acc, t.idx>>
  ELSE Bind(FoldLeft(LAMBDA st, k : Bind(FlatFrom(t.kids[k], st[1]), LAMBDA x : <<x[1], Append(st[2], x[2])>>),
                     <<acc, <<>>>>, [k \in DOMAIN t.kids |-> k]), LAMBDA r :
       Bind(Append(r[1], <<r[2], [k \in DOMAIN t.kids |-> t.kids[k].len]>>), LAMBDA acc2 : <<acc2, -Len(acc2)>>))
Flat(t) == FlatFrom(t, <<>>)[1]

\* The postcondition of upgma() on Expand(B, grp), one pass over the list: every index exactly one
\* leaf; every inner node has two children, both at depth = half the average linkage of their clusters.
FlatPost(B, grp, flat, n) ==
  LET k == Len(B)
      m == Len(flat)
      unit(g) == [x \in 1..k |-> IF x = g THEN 1 ELSE 0]
      leafRefs  == FlattenSeq([q \in 1..m |-> SelectSeq(flat[q][1], LAMBDA r : r >= 0)])
      innerRefs == FlattenSeq([q \in 1..m |-> SelectSeq(flat[q][1], LAMBDA r : r < 0)])
      wellFormed ==
        /\ m >= 1
        /\ \A q \in 1..m : /\ Len(flat[q][1]) >= 1 /\ Len(flat[q][2]) = Len(flat[q][1])
                           /\ \A x \in DOMAIN flat[q][1] : flat[q][1][x] > -q           \* children come first
        /\ Len(innerRefs) = m - 1 /\ ToSet(innerRefs) = {-q : q \in 1..(m - 1)}         \* one tree, root last
      once == wellFormed /\ Len(leafRefs) = n /\ ToSet(leafRefs) = 0..(n - 1)
      Sub(acc, r) == IF r >= 0 THEN [cnt |-> unit(grp[r + 1]), h |-> R(0), ok |-> TRUE] ELSE acc[-r]
      \* h = depth of the leaves below the node as observed (along the first child); rationals are
      \* normalised, so equality of the pairs is equality of the numbers (no products of large numbers)
      NodeSum(acc, nd) ==
        IF Len(nd[1]) # 2
          THEN [cnt |-> [x \in 1..k |-> 0], h |-> R(0), ok |-> FALSE]
          ELSE Bind(Sub(acc, nd[1][1]), LAMBDA a : Bind(Sub(acc, nd[1][2]), LAMBDA b :
               Bind(RDivI(AvgLinkCnt(B, a.cnt, b.cnt), 2), LAMBDA half :
               Bind(RAdd(a.h, nd[2][1]), LAMBDA h1 :
                 [cnt |-> [x \in 1..k |-> a.cnt[x] + b.cnt[x]], h |-> h1,
                  ok  |-> a.ok /\ b.ok /\ h1 = half /\ RAdd(b.h, nd[2][2]) = half]))))
  IN [leaves  |-> once,
      heights |-> once /\ FoldLeft(LAMBDA acc, q : Append(acc, NodeSum(acc, flat[q])), <<>>, [q \in 1..m |-> q])[m].ok]

(* ---- which block matrices are exact in the code's float32 arithmetic ------------------------
   When every B[g][g] is smaller than every B[g][h] (g # h) the groups are completed first (all
   means stay entries of B), then the groups are merged like single taxa that carry the weights
   s[g]: the "weighted run" below (lemma L_BlockValues: every mean the loop ever holds on
   Expand(B, grp) is an entry of B or a value of the weighted run).  W = [act, size, d, vals, ties,
   crit]: vals = every mean seen, ties = some minimum was not unique, crit = the largest cluster
   size that entered a mean as an effective weight (the two distances averaged differ). *)
WInit(B, s) ==
  LET k == Len(B)  pairs == {q \in (1..k) \X (1..k) : q[1] > q[2]} IN
  [act |-> 1..k, size |-> s, d |-> [p \in pairs |-> R(B[p[1]][p[2]])],
   vals |-> {R(B[p[1]][p[2]]) : p \in pairs}, ties |-> FALSE, crit |-> 0]
WD(W, i, j) == IF i > j THEN W.d[<<i, j>>] ELSE W.d[<<j, i>>]
WStep(W) ==
  LET live == {p \in DOMAIN W.d : p[1] \in W.act /\ p[2] \in W.act}
      p == FirstMin(live, LAMBDA q : W.d[q])
      i == p[1]  j == p[2]
      si == W.size[i]  sj == W.size[j]
      act2 == W.act \ {j}
      rest == act2 \ {i}
      newd == [x \in rest |-> RDivI(RAdd(RMulI(WD(W, i, x), si), RMulI(WD(W, j, x), sj)), si + sj)]
  IN [act  |-> act2,
      size |-> [W.size EXCEPT ![i] = si + sj],
      d    |-> [q \in DOMAIN W.d |-> IF q[1] = i /\ q[2] \in rest THEN newd[q[2]]
                                     ELSE IF q[2] = i /\ q[1] \in rest THEN newd[q[1]] ELSE W.d[q]],
      vals |-> W.vals \cup {newd[x] : x \in rest},
      ties |-> W.ties \/ \E q \in live : q # p /\ REq(W.d[q], W.d[p]),
      crit |-> Max({W.crit} \cup {Max({si, sj}) : x \in {y \in rest : ~REq(WD(W, i, y), WD(W, j, y))}})]
RECURSIVE WRunFrom(_)
WRunFrom(W) == IF Cardinality(W.act) <= 1 THEN W ELSE WRunFrom(WStep(W))
WRun(B, s) == WRunFrom(WInit(B, s))
\* v * s and sums of such products are exact in float32: eighths with a numerator below 2^24
ExactVal(v, n) == v[2] \in {1, 2, 4, 8} /\ v[1] >= 0 /\ v[1] <= (16777215 \div n) \div (8 \div v[2])
Dom_BlockSizes(B, s) ==                                      \* s[g] = number of taxa of group g
  LET k == Len(B) IN
  /\ k >= 2 /\ Len(s) = k /\ \A g \in 1..k : s[g] >= 1
  /\ \A g, x, y \in 1..k : x # y => B[g][g] < B[x][y]              \* groups are completed first
  /\ \E W \in {WRun(B, s)} : ~W.ties /\ \A v \in W.vals : ExactVal(v, SeqSum(s))
Dom_BlockExact(B, grp) == Dom_Block(B, grp) /\ Dom_BlockSizes(B, GroupSizes(grp, Len(B)))

\* the family of block matrices the specification generates: off-diagonal 2 u b[g][h] with u = odd
\* part of the size of the first merged pair of groups (the first weighted mean is then dyadic),
\* inside the groups 1, 0, 1, ...
RECURSIVE OddPart(_)
OddPart(x) == IF x > 0 /\ x % 2 = 0 THEN OddPart(x \div 2) ELSE x
BlockBase(b, s) ==
  LET k == Len(s)
      pairs == {q \in (1..k) \X (1..k) : q[1] > q[2]}
      p == FirstMin(pairs, LAMBDA q : R(b[q[1]][q[2]]))
      u == OddPart(s[p[1]] + s[p[2]])
  IN [g \in 1..k |-> [h \in 1..k |-> IF g = h THEN g % 2 ELSE 2 * u * b[g][h]]]

(* ------------------------------------------------------------------ the caller's array
   upgma() and neighbor_joining() take any two-dimensional numeric array and work on a copy: the
   caller's array holds the same matrix after a call, so a second call on it (or a comparison of
   the tree with it) sees the same matrix.  A session is a sequence of calls on one array.
   The returned tree is a value of its own as well: the driver overwrites the array while it observes
   the tree (and restores it for the next call), so a tree that still referred to the caller's memory
   would not have the postcondition for the matrix of the call. *)
ArrayKinds == {"f8", "f4", "i8", "i4", "u1", "f4F", "f4ro", "f8ro", "f4view"}
\*  f8 / f4 float64 / float32, i8 / i4 / u1 integers, F = column-major, ro = write-protected,
\*  view = every second row and column of a larger float32 array
Dom_Kind(D, kind) ==
  /\ kind \in ArrayKinds
  /\ kind = "u1" => \A i \in DOMAIN D : \A j \in DOMAIN D[i] : D[i][j] \in 0..255
ClusterFns == {"upgma", "nj"}
ArrayAfter(fn, M) == M

(* ------------------------------------------------------------------ generators of trees *)
\* partitions of a set S into exactly k non-empty blocks, as sets of blocks
RECURSIVE PartitionsK(_, _)
PartitionsK(S, k) ==
  IF k = 1 THEN (IF S = {} THEN {} ELSE {{S}})
  ELSE IF Cardinality(S) < k THEN {}
  ELSE LET m == Min(S) IN
       UNION {{{B} \cup P : P \in PartitionsK(S \ B, k - 1)} : B \in {{m} \cup X : X \in SUBSET (S \ {m})} \ {S}}
BlocksInOrder(P) == SetToSortSeq(P, LAMBDA A, B : Min(A) < Min(B))

\* branch length of the node above clade S: a fixed function of the clade (pattern pat)
LenOf(S, pat) ==
  CASE pat = 0 -> R(1)
    [] pat = 1 -> R((Min(S) + Cardinality(S)) % 4)          \* 0..3, zero lengths included
    [] pat = 2 -> <<2 * Min(S) + 1, 4>>                      \* quarters (exact in float32)
    \* signed quarters: negative lengths on leaf branches and on branches below inner nodes (a TreeNode
    \* takes any number; neighbour joining returns such trees for matrices that are not tree-like)
    [] OTHER   -> IF (Min(S) + Cardinality(S)) % 2 = 0 THEN <<-(2 * Min(S) + 1), 4>> ELSE <<2 * Min(S) + 3, 4>>

\* all rooted trees over leaf set S: arity 2..MaxArity at every inner node, optionally one unary
\* node above a sub-tree (unary = TRUE)
\* all sequences whose q-th element comes from sets[q]
SeqProduct(sets) ==
  FoldLeft(LAMBDA acc, q : {Append(p, x) : p \in acc, x \in sets[q]}, {<<>>}, [q \in DOMAIN sets |-> q])

RECURSIVE TreesOver(_, _, _, _)
TreesOver(S, maxArity, unary, pat) ==
  LET plain ==
        IF Cardinality(S) = 1 THEN {LeafN(LenOf(S, pat), Min(S))}
        ELSE UNION {
               UNION {LET blocks == BlocksInOrder(P)
                          subs == [q \in DOMAIN blocks |-> TreesOver(blocks[q], maxArity, unary, pat)]
                      IN {Node(LenOf(S, pat), -1, kids) : kids \in SeqProduct(subs)}
                      : P \in PartitionsK(S, k)}
               : k \in 2..maxArity}
  IN plain \cup (IF unary /\ Cardinality(S) <= 2
                   THEN {Node(R(1), -1, <<t>>) : t \in plain}
                        \* and a chain of two single-child nodes (lengths 1 and 2)
                        \cup (IF Cardinality(S) = 1
                                THEN {Node(R(1), -1, <<Node(R(2), -1, <<t>>)>>) : t \in plain} ELSE {})
                   ELSE {})

\* all rooted binary trees over S with every branch length taken from L (integers)
RECURSIVE BinTreesL(_, _)
BinTreesL(S, L) ==
  IF Cardinality(S) = 1 THEN {LeafN(R(w), Min(S)) : w \in L}
  ELSE UNION {{Node(R(w), -1, <<a, b>>) : w \in L, a \in BinTreesL(BlocksInOrder(P)[1], L), b \in BinTreesL(BlocksInOrder(P)[2], L)}
              : P \in PartitionsK(S, 2)}

(* ---- partner trees of the equality calls: an equal tree (children unordered) and an unequal one *)
RECURSIVE Mirror(_)
Mirror(t) == Node(t.len, t.idx, Reverse(TLCEval([k \in DOMAIN t.kids |-> Mirror(t.kids[k])])))
\* a tree that differs in one branch length (the first leaf's)
RECURSIVE Stretch(_, _)
Stretch(t, i) ==
  IF IsLeaf(t) THEN (IF t.idx = i THEN [t EXCEPT !.len = RAdd(t.len, R(1))] ELSE t)
  ELSE Node(t.len, -1, TLCEval([k \in DOMAIN t.kids |-> Stretch(t.kids[k], i)]))

(* ------------------------------------------------------------------ nodes: sub-trees, declarative distances
   distance_to / lowest_common_ancestor are methods of every node, not only of leaves.  Rows of the
   parent-pointer table PP(t) (pre-order) name the nodes. *)
RECURSIVE Subtrees(_)
Subtrees(t) == <<t>> \o FlattenSeq([k \in DOMAIN t.kids |-> Subtrees(t.kids[k])])       \* pre-order, as PP(t)
Ancestors(tab, v) == ToSet(PathToRoot(tab, v))                                            \* v included
DepthCount(tab, v) == Len(PathToRoot(tab, v))
\* the lowest common ancestor, declaratively: the deepest node that is an ancestor of both
LcaDecl(tab, u, v) ==
  LET common == Ancestors(tab, u) \cap Ancestors(tab, v) IN
  CHOOSE a \in common : \A b \in common : DepthCount(tab, b) <= DepthCount(tab, a)
\* the explicit path sum between two nodes: the branches on the path, each once
PathEdges(tab, u, v) == (Ancestors(tab, u) \cup Ancestors(tab, v)) \ (Ancestors(tab, u) \cap Ancestors(tab, v))
NodeDistDecl(tab, u, v) == LET es == SetToSeq(PathEdges(tab, u, v)) IN RSum([q \in DOMAIN es |-> tab[es[q]].len])

(* ------------------------------------------------------------------ the Tree object and its callers
   "Objects of this class are immutable": a Tree owns its root and one list (index -> leaf node,
   `own`).  The public read-only calls (TreeCalls) answer from them and leave them as they are; some
   calls hand a container to the caller (Tree.leaves and TreeNode.get_leaves(): a list of leaf nodes,
   TreeNode.get_indices(): an array, Tree.as_graph(): a graph), which the caller may then edit in place
   (ScrOps, "scribbling").  The design: every handed-out container is a new object.  That is modelled
   with cells: cell 1 is the tree's own list (as leaf indices: own[i + 1] = i), a call that hands out
   a container appends a cell, a scribble edits the cell the caller holds (the one handed out last).
   What the tree answers afterwards (ProbeOf) is a function of the tree value and cell 1 only. *)
TreeCalls == {"len", "leaves", "walk", "dist", "topo", "lca", "nodeDist", "rootPath", "getLeaves", "getIndices",
              "leafCount", "newick", "newickNoDist", "newickLabels", "str", "repr", "iter", "copy", "nodeCopy",
              "eqHash", "graph", "binary"}
ScrOps == {"rev", "pop", "fill", "clear", "sort"}
TreeOps == TreeCalls \cup ScrOps
OwnList(t) == [q \in 1..Len(LeafList(t)) |-> q - 1]
\* <<kind of container, content as leaf indices>> that the call hands out; <<>> = nothing the caller could edit
Handout(t, op) ==
  CASE op = "leaves"     -> <<"list", OwnList(t)>>          \* Tree.leaves
    [] op = "getLeaves"  -> <<"list", LeafList(t)>>         \* root.get_leaves()
    [] op = "getIndices" -> <<"array", LeafList(t)>>        \* root.get_indices()
    [] op = "graph"      -> <<"graph", OwnList(t)>>         \* as_graph(): its leaf nodes
    [] OTHER             -> <<>>
CanScr(kind, scr) ==
  CASE kind = "list"  -> TRUE
    [] kind = "array" -> scr \in {"rev", "fill", "sort"}     \* an array keeps its size
    [] kind = "graph" -> scr \in {"pop", "clear"}            \* remove_node / clear
    [] OTHER -> FALSE
ScrEdit(scr, c) ==
  CASE scr = "rev"   -> Reverse(c)
    [] scr = "pop"   -> (IF c = <<>> THEN c ELSE SubSeq(c, 1, Len(c) - 1))
    [] scr = "fill"  -> [q \in DOMAIN c |-> c[Len(c)]]
    [] scr = "clear" -> <<>>
    [] OTHER         -> SortSeq(c, LAMBDA a, b : a > b)       \* "sort": descending
ObjInit(t) == [cells |-> <<OwnList(t)>>, kinds |-> <<"own">>, held |-> 0]
ObjEnabled(o, op) == op \in TreeCalls \/ (op \in ScrOps /\ o.held # 0 /\ CanScr(o.kinds[o.held], op))
ObjStep(t, o, op) ==
  IF op \in ScrOps THEN [o EXCEPT !.cells[o.held] = ScrEdit(op, @)]
  ELSE LET h == Handout(t, op) IN
       IF h = <<>> THEN o
       ELSE [cells |-> Append(o.cells, h[2]), kinds |-> Append(o.kinds, h[1]), held |-> Len(o.cells) + 1]
\* a history is a sequence of calls and scribbles; <<ok, object>>: ok = every step was enabled
ObjRun(t, ops) ==
  FoldLeft(LAMBDA acc, op : IF acc[1] /\ ObjEnabled(acc[2], op) THEN <<TRUE, ObjStep(t, acc[2], op)>> ELSE <<FALSE, acc[2]>>,
           <<TRUE, ObjInit(t)>>, ops)
\* what the tree answers when asked through its own list: len(tree), [leaf.index for leaf in tree.leaves],
\* root.get_indices(), get_distance(i, j) for all i, j
ProbeWith(t, pd, own) ==
  [n |-> Len(own), byIndex |-> own, order |-> LeafList(t),
   dist |-> [i \in DOMAIN own |-> [j \in DOMAIN own |-> pd[<<own[i], own[j]>>]]]]
ProbeOf(t, own) == Bind(Info(t).pd, LAMBDA pd : ProbeWith(t, pd, own))
\* as_graph(): one edge per child, from the parent's nested tuple to the child's, with the child's distance
GraphEdges(t) ==
  LET subs == Subtrees(t) IN
  UNION {{<<ZeroLens(subs[q]), ZeroLens(subs[q].kids[k]), subs[q].kids[k].len>> : k \in DOMAIN subs[q].kids} : q \in DOMAIN subs}

(* ------------------------------------------------------------------ leaf labels in Newick
   to_newick(labels) writes labels[i] for leaf i, from_newick(newick, labels) reads a label as "the
   position of the label in the provided list"; without a list a leaf is written as its index and read
   as an integer.  A label is a sequence of character tokens (the driver maps them to characters):
     0..9    the digits          10..19  other characters without a meaning in Newick (letters _ - . +)
     20..29  characters a Newick reader may treat specially (blank, tab, quotes, square brackets)
     30..34  the syntax characters , : ; ( ) -- refused by the writer, outside the domain            *)
DigitToks == 0..9
PlainToks == 10..19
QuoteToks == 20..29
BlankToks == {20, 21}                                        \* blank, tab
Dom_Label(lab) == Len(lab) >= 1 /\ \A q \in DOMAIN lab : lab[q] \in DigitToks \cup PlainToks \cup QuoteToks
Dom_Labels(labels, n) ==
  /\ Len(labels) >= n
  /\ \A q \in DOMAIN labels : Dom_Label(labels[q])
  /\ \A p, q \in DOMAIN labels : p # q => labels[p] # labels[q]
RECURSIVE Digits(_)
Digits(i) == IF i < 10 THEN <<i>> ELSE Append(Digits(i \div 10), i % 10)
NumeralValue(lab) == FoldLeft(LAMBDA acc, d : 10 * acc + d, 0, lab)
IsNumeral(lab) == Len(lab) >= 1 /\ \A q \in DOMAIN lab : lab[q] \in DigitToks
\* labels = <<>> stands for "no list given"
LeafText(i, labels) == IF labels = <<>> THEN Digits(i) ELSE labels[i + 1]
LeafIndex(text, labels) ==
  IF labels = <<>> THEN NumeralValue(text) ELSE (CHOOSE q \in DOMAIN labels : labels[q] = text) - 1
HasBlank(labels) == \E q \in DOMAIN labels : \E x \in DOMAIN labels[q] : labels[q][x] \in BlankToks

\* the label lists the specification generates for n leaves, from a pool of numerals and a pool of texts:
\*   every one-to-one choice of numerals (the indices in place, permuted, 1-based, larger than n, zero-padded),
\*   one text among numerals in place / reversed (every text at every position),
\*   texts only (every rotation of the pool)
NumeralPool(n) == {Digits(i) : i \in 0..n} \cup {<<1, 0>>, <<9, 6, 0, 6>>, <<0, 0>>, <<0, 1>>}
TextPool == << <<10>>, <<1, 10>>, <<10, 1>>, <<12, 1>>, <<13, 1>>, <<14, 5>>, <<1, 11, 3>>, <<1, 12, 0>>,   \* a 1a a1 _1 -1 .5 1e3 1_0
               <<10, 20, 11>>, <<10, 11>>, <<1, 20, 2>>, <<10, 21, 10>>,                                   \* "a e", ae, "1 2", a<tab>a
               <<22, 10, 22>>, <<23, 10, 23>>, <<24, 1, 25>> >>                                            \* 'a' "a" [1]
InjectiveSeqs(n, S) == {s \in [1..n -> S] : \A p, q \in 1..n : p # q => s[p] # s[q]}
LabelLists(n, full) ==                       \* full = FALSE: of the numerals only the permutations of the indices
  InjectiveSeqs(n, IF full THEN NumeralPool(n) ELSE {Digits(i) : i \in 0..(n - 1)})
  \cup {[q \in 1..n |-> IF q = p THEN TextPool[x] ELSE Digits(IF rev THEN n - q ELSE q - 1)]
          : p \in 1..n, x \in DOMAIN TextPool, rev \in BOOLEAN}
  \cup {[q \in 1..n |-> TextPool[((q + s) % Len(TextPool)) + 1]] : s \in DOMAIN TextPool}
=============================================================================
