SPECIFICATION Spec
CONSTANTS
  MaxLeaves = 4
  Lens = {1, 2, 3}
  MaxEntry = 3
INVARIANT InvGenerated
INVARIANT InvPartition
INVARIANT InvAdditiveStep
INVARIANT InvFinal
CHECK_DEADLOCK FALSE
