SPECIFICATION Spec
CONSTANTS
  MaxLeaves = 5
  MaxArity = 4
  UnaryUpTo = 4
  Pats = {0, 1, 2, 3}
INVARIANT L_Domain
INVARIANT L_PathSums
INVARIANT L_AsBinary
INVARIANT L_Equality
INVARIANT L_ZeroLens
CHECK_DEADLOCK FALSE
