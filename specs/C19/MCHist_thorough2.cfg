SPECIFICATION Spec
CONSTANTS
  MaxLeaves = 4
  MaxArity = 4
  UnaryUpTo = 3
  Pats = {1, 3}
  Depth = 2
INVARIANT L_Domain
INVARIANT L_ReadOnly
INVARIANT L_Probe
INVARIANT L_NodeDist
CHECK_DEADLOCK FALSE
