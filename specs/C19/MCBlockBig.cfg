SPECIFICATION Spec
CONSTANTS
  Ks = {2, 3}
  Sizes = {1, 12, 127, 128, 255, 256, 257}
  BMax = 3
  MaxTaxa = 300
  Arrs = {"mix"}
  Expanded = FALSE
  OnlyWeighted = TRUE
INVARIANT InvFamily
CHECK_DEADLOCK FALSE
