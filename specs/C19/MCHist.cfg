SPECIFICATION Spec
CONSTANTS
  MaxLeaves = 4
  MaxArity = 3
  UnaryUpTo = 2
  Pats = {3}
  Depth = 2
INVARIANT L_Domain
INVARIANT L_ReadOnly
INVARIANT L_Probe
INVARIANT L_NodeDist
CHECK_DEADLOCK FALSE
