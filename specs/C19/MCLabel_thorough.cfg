SPECIFICATION Spec
CONSTANTS
  MaxLeaves = 4
  MaxArity = 3
  FullUpTo = 3
INVARIANT L_Domain
INVARIANT L_LeafRoundTrip
INVARIANT L_ByPosition
CHECK_DEADLOCK FALSE
