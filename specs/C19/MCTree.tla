------------------------------- MODULE MCTree -------------------------------
(* C19 S1/S2 for trees: Init enumerates every rooted tree in the bounds (all labellings, arity
   2..MaxArity, optional unary nodes, four branch-length patterns, one of them with negative lengths); one step computes what the
   public calls must return (res); the invariants are the laws of the property. *)
EXTENDS Phylo, TLC
CONSTANTS MaxLeaves, MaxArity, Pats, UnaryUpTo     \* unary nodes and chains in the trees with <= UnaryUpTo leaves
VARIABLES inp, res, phase
vars == <<inp, res, phase>>

\* inputs of the equality calls that S2 needs next to the tree itself
Results(t) ==
  [n      |-> Len(LeafList(t)),
   isbin  |-> IsBinary(t),
   mirror |-> Mirror(t),               \* an equal tree (children unordered)
   other  |-> Stretch(t, 0)]           \* an unequal tree (one branch longer)

IsInput(x) == \E n \in 1..MaxLeaves, pat \in Pats : x \in TreesOver(0..(n - 1), MaxArity, n <= UnaryUpTo, pat)
Init == IsInput(inp) /\ res = <<>> /\ phase = 0
Next == phase = 0 /\ phase' = 1 /\ res' = Results(inp) /\ UNCHANGED inp
Spec == Init /\ [][Next]_vars

T0 == inp
I0 == LeafSet(inp)
L_Domain == phase = 1 => Dom_Tree(T0)
\* distance_to / lowest_common_ancestor (paths to the root) = explicit path sums over sub-trees
L_PathSums ==
  phase = 1 =>
    LET tab == PP(T0)  inf == Info(T0) IN
    \A i, j \in I0 :
      LET u == LeafRow(tab, i)  v == LeafRow(tab, j)  a == LcaPP(tab, u, v) IN
      /\ REq(DistPP(tab, u, v), inf.pd[<<i, j>>])
      /\ a # 0
      /\ {tab[w].idx : w \in {x \in DOMAIN tab : tab[x].idx # -1 /\ a \in ToSet(PathToRoot(tab, x))}} = inf.lca[<<i, j>>]
      /\ REq(inf.pd[<<i, j>>], inf.pd[<<j, i>>]) /\ (i = j => inf.pd[<<i, j>>] = R(0))
\* binary form: every inner node has two children, leaves and all leaf distances are kept
L_AsBinary ==
  phase = 1 =>
    LET b == AsBinary(T0) IN
    /\ IsBinary(b) /\ LeafSet(b) = I0 /\ Len(LeafList(b)) = Len(LeafList(T0))
    /\ SameLeafDistances(T0, b)
    /\ AsBinary(b) = b
    /\ (IsBinary(T0) => SameTree(b, T0))
\* equality ignores the order of children, not the branch lengths
L_Equality ==
  phase = 1 =>
    /\ SameTree(T0, Mirror(T0))
    /\ (Len(LeafList(T0)) >= 2 => ~SameTree(T0, Stretch(T0, 0)))
    /\ SameTopology(T0, Stretch(T0, 0))
\* dropping the distances keeps the topology
L_ZeroLens == phase = 1 => SameTopology(T0, ZeroLens(T0)) /\ LET z == Info(ZeroLens(T0)) IN \A p \in DOMAIN z.pd : z.pd[p] = R(0)

\* docstring example: ((0:5,1:7):3,2:10)
ASSUME LET t == Node(R(0), -1, <<Node(R(3), -1, <<LeafN(R(5), 0), LeafN(R(7), 1)>>), LeafN(R(10), 2)>>) IN
       PairDist(t, 0, 1) = R(12) /\ PairDist(t, 0, 2) = R(18) /\ PairDist(t, 1, 2) = R(20)
=============================================================================
