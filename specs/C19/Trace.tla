------------------------------- MODULE Trace -------------------------------
(* C19 code -> spec: observations recorded from the real API, re-computed by Phylo's operators.
   Every event carries its input; it is judged on its own.  Event kinds (field op):

   "tree"   t (nested record, lens as [num, den]), mirror, other (trees built by the driver from the
            specification's Mirror / Stretch or by its own generator); obs =
              leaves   Tree.leaves[i].index and get_indices of the root (tree order)
              dist     get_distance(i, j) as [num, den];   topo   get_distance(i, j, topological)
              lca      sorted leaf indices below lowest_common_ancestor(leaf i, leaf j)
              nw, nwNoDist, nwLabels, nwBlanks   trees parsed back from to_newick(...) variants
              binary   as_binary(tree);   copy   tree.copy()
              eqCopy, eqMirror, eqOther, eqNewick, hashCopy, hashMirror   booleans
              leavesAfter, distAfter   leaves / get_distance asked again after all those calls
   "upgma"  D; obs = [oc, leaves, nodes] (see UpgmaPostObs), tree (diagnostic),
            changed = cells <<i, j>> of the caller's array that differ from a snapshot taken before the call
   "nj"     D; obs = [oc, leaves, dist, rootArity], tree (diagnostic), changed
   "session" D, kind (ArrayKinds), calls = <<[fn, obs, changed], ...>>: a history of calls of upgma /
            neighbor_joining on one array object of that kind (obs as for "upgma" / "nj")
   "block"  B, grp (block matrix, see Phylo); obs = [oc, flat] with flat = the returned tree as list of
            <<kids, lens>> (Phylo!Flat), changed

   PrintT(<<"MISMATCH", tid, l, flags, expected>>) for disagreements,
   PrintT(<<"DIAG", tid, l, what>>) for differences that carry no verdict. *)
EXTENDS Phylo, Json, IOUtils

Tr == JsonDeserialize(IOEnv.TRACE_FILE)

VARIABLES tid, l
tvars == <<tid, l>>

\* JSON tree -> Phylo tree (len arrives as a two-element sequence already; kids as sequence)
RECURSIVE TreeOf(_)
TreeOf(j) == Node(<<j.len[1], j.len[2]>>, j.idx, TLCEval([k \in DOMAIN j.kids |-> TreeOf(j.kids[k])]))

MatrixEq(obs, exp(_, _), n) == \A i, j \in 1..n : REq(obs[i][j], exp(i - 1, j - 1))

\* TLC re-evaluates a LET definition that depends on the state at every use; values bound by a
\* quantifier over a singleton set are computed once -- hence the \E x \in {expr} idiom below.
JudgeTreeWith(e, t, inf, uinf, pNw, pNoDist, pLabels, pBlanks, pBinary, pCopy) ==
  LET o == e.obs
      n == Len(LeafList(t))
      okDomain == Dom_Tree(t)
      okLeaves == o.leaves = LeafList(t) /\ o.byIndex = [i \in 1..n |-> i - 1]
      okDist   == MatrixEq(o.dist, LAMBDA i, j : inf.pd[<<i, j>>], n)
      okTopo   == \A i, j \in 1..n : o.topo[i][j] = uinf.pd[<<i - 1, j - 1>>][1]
      okLca    == \A i, j \in 1..n : ToSet(o.lca[i][j]) = inf.lca[<<i - 1, j - 1>>]
      \* Newick: topology and every leaf-to-leaf distance survive (labels, blanks); without
      \* distances the topology survives
      NwOK(p) == SameTopology(p, t) /\ SameLeafDistances(p, t)
      okNewick == NwOK(pNw) /\ NwOK(pLabels) /\ NwOK(pBlanks)
      okNoDist == SameTopology(pNoDist, t) /\ SameLeafDistances(pNoDist, ZeroLens(t))
      okBinary == IsBinary(pBinary) /\ SameLeafDistances(pBinary, t) /\ Len(LeafList(pBinary)) = n
      okCopy   == SameTopology(pCopy, t) /\ SameLeafDistances(pCopy, t)
      \* the tree answers the same after to_newick / as_binary / copy / == were called on it
      okAfter  == o.leavesAfter = LeafList(t) /\ MatrixEq(o.distAfter, LAMBDA i, j : inf.pd[<<i, j>>], n)
      okEq     == /\ o.eqCopy /\ o.hashCopy
                  /\ o.eqMirror = SameTree(t, TreeOf(e.mirror)) /\ (o.eqMirror => o.hashMirror)
                  /\ o.eqOther = SameTree(t, TreeOf(e.other))
                  /\ o.eqNewick
      \* beyond the statement: exact branch lengths and child order through Newick / copy / as_binary
      dExact   == SameTree(pNw, t) /\ SameTree(pCopy, t) /\ SameTree(pBinary, AsBinary(t))
      flags == <<okDomain, okLeaves, okDist, okTopo, okLca, okNewick, okNoDist, okBinary, okCopy, okEq, okAfter>>
  IN /\ IF dExact THEN TRUE ELSE PrintT(<<"DIAG", tid, l + 1, "tree-exact">>)
     /\ IF okDomain /\ okLeaves /\ okDist /\ okTopo /\ okLca /\ okNewick /\ okNoDist /\ okBinary /\ okCopy /\ okEq /\ okAfter THEN TRUE
        ELSE PrintT(<<"MISMATCH", tid, l + 1, flags,
                      [leaves |-> LeafList(t), dist |-> [i \in 1..n |-> [j \in 1..n |-> inf.pd[<<i - 1, j - 1>>]]],
                       binary |-> CanonTree(AsBinary(t))]>>)

JudgeTree(e) ==
  \E t \in {TreeOf(e.t)} : \E inf \in {Info(t)} : \E uinf \in {Info(UnitLens(t))} :
  \E pNw \in {TreeOf(e.obs.nw)} : \E pNoDist \in {TreeOf(e.obs.nwNoDist)} : \E pLabels \in {TreeOf(e.obs.nwLabels)} :
  \E pBlanks \in {TreeOf(e.obs.nwBlanks)} : \E pBinary \in {TreeOf(e.obs.binary)} : \E pCopy \in {TreeOf(e.obs.copy)} :
    JudgeTreeWith(e, t, inf, uinf, pNw, pNoDist, pLabels, pBlanks, pBinary, pCopy)

\* <<outcome, every index one leaf, postcondition>> of one call, from what was observed
UpgmaFlagsWith(D, o, dom, p) ==
  <<(dom => o[1] = "ok") /\ (~Dom_SymNonNeg(D) => o[1] = "Rejected"), dom => p.leaves, dom => p.heights>>
UpgmaFlagsIn(D, o, dom) ==                                 \* dom = Dom_Matrix(D) /\ Len(D) >= 2
  Bind(IF o[1] = "ok" /\ dom THEN UpgmaPostObs(D, o[2], o[3]) ELSE [leaves |-> FALSE, heights |-> FALSE], LAMBDA p :
    UpgmaFlagsWith(D, o, dom, p))
UpgmaFlags(D, o) == Bind(Dom_Matrix(D) /\ Len(D) >= 2, LAMBDA dom : UpgmaFlagsIn(D, o, dom))
NjFlagsWith(D, o, dom, small, p) ==
  <<(dom => (o[1] = IF small THEN "Rejected" ELSE "ok")) /\ (~Dom_SymNonNeg(D) => o[1] = "Rejected"),
    (dom /\ ~small) => p.leaves, (dom /\ ~small) => p.paths>>
NjFlagsIn(D, o, dom, additive) ==                          \* dom = Dom_Matrix(D), additive = dom /\ Dom_Additive(D)
  Bind(IF o[1] = "ok" /\ dom THEN NjPostObsWith(D, additive, o[2], o[3]) ELSE [leaves |-> FALSE, paths |-> FALSE], LAMBDA p :
    NjFlagsWith(D, o, dom, ~Dom_NjSize(D), p))
NjFlags(D, o) == Bind(Dom_Matrix(D), LAMBDA dom : Bind(dom /\ Dom_Additive(D), LAMBDA additive : NjFlagsIn(D, o, dom, additive)))
AllTrue(flags) == \A q \in DOMAIN flags : flags[q]
\* the caller's array is the same after the call (ArrayAfter)
Unchanged(changed) == changed = <<>>

JudgeUpgma(e) ==
  \E dom \in {Dom_Matrix(e.D) /\ Len(e.D) >= 2} : \E f \in {UpgmaFlags(e.D, e.obs) \o <<Unchanged(e.changed)>>} :
    \* no verdict: the specification's own run (first minimum in scan order) gives the same clades
    /\ IF ~dom \/ e.obs[1] # "ok" \/ Clades(Upgma(e.D)) = Clades(TreeOf(e.tree)) THEN TRUE
        ELSE PrintT(<<"DIAG", tid, l + 1, "upgma-topology">>)
    /\ IF AllTrue(f) THEN TRUE
        ELSE PrintT(<<"MISMATCH", tid, l + 1, f, [tree |-> IF dom THEN CanonTree(Upgma(e.D)) ELSE LeafN(R(0), 0)]>>)

JudgeNj(e) ==
  \E f \in {NjFlags(e.D, e.obs) \o <<Unchanged(e.changed)>>} :
    IF AllTrue(f) THEN TRUE
    ELSE PrintT(<<"MISMATCH", tid, l + 1, f, [additive |-> Dom_Matrix(e.D) /\ Dom_Additive(e.D)]>>)

\* a history of calls on one array: every call is judged against the matrix the array was made from
JudgeSession(e) ==
  \E dom \in {Dom_Matrix(e.D)} : \E additive \in {Dom_Matrix(e.D) /\ Dom_Additive(e.D)} :
  \E per \in {[c \in DOMAIN e.calls |->
                 (IF e.calls[c].fn = "upgma" THEN UpgmaFlagsIn(e.D, e.calls[c].obs, dom /\ Len(e.D) >= 2)
                                            ELSE NjFlagsIn(e.D, e.calls[c].obs, dom, additive))
                 \o <<Unchanged(e.calls[c].changed)>>]} :
  \E f \in {<<Dom_SymNonNeg(e.D) => Dom_Kind(e.D, e.kind), \A c \in DOMAIN per : per[c][1], \A c \in DOMAIN per : per[c][2],
               \A c \in DOMAIN per : per[c][3], \A c \in DOMAIN per : per[c][4]>>} :
    IF AllTrue(f) /\ e.kind \in ArrayKinds /\ \A c \in DOMAIN e.calls : e.calls[c].fn \in ClusterFns THEN TRUE
    ELSE PrintT(<<"MISMATCH", tid, l + 1, f, [calls |-> per]>>)

\* upgma() on a block matrix: the one-pass postcondition on the flat form of the returned tree
JudgeBlock(e) ==
  \E inDom \in {Dom_Block(e.B, e.grp)} : \E exact \in {Dom_BlockExact(e.B, e.grp)} :
  \E p \in {IF inDom /\ e.obs[1] = "ok" THEN FlatPost(e.B, e.grp, e.obs[2], Len(e.grp)) ELSE [leaves |-> FALSE, heights |-> FALSE]} :
  \E f \in {<<inDom, e.obs[1] = "ok", p.leaves, exact => p.heights, Unchanged(e.changed)>>} :
    /\ PrintT(<<"BLOCK", tid, l + 1, exact, IF exact THEN WRun(e.B, GroupSizes(e.grp, Len(e.B))).crit ELSE 0>>)
    /\ IF AllTrue(f) THEN TRUE ELSE PrintT(<<"MISMATCH", tid, l + 1, f, [exact |-> exact]>>)

Judge(e) ==
  CASE e.op = "tree"  -> JudgeTree(e)
    [] e.op = "upgma" -> JudgeUpgma(e)
    [] e.op = "nj"    -> JudgeNj(e)
    [] e.op = "session" -> JudgeSession(e)
    [] e.op = "block" -> JudgeBlock(e)

Init == tid \in 1..Len(Tr) /\ l = 0
Next == /\ l < Len(Tr[tid])
        /\ Judge(Tr[tid][l + 1])
        /\ l' = l + 1
        /\ UNCHANGED tid
Spec == Init /\ [][Next]_tvars
=============================================================================
