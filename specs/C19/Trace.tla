------------------------------- MODULE Trace -------------------------------
(* C19 code -> spec: observations recorded from the real API, re-computed by Phylo's operators.
   Every event carries its input; it is judged on its own.  Event kinds (field op):

   "tree"   t (nested record, lens as [num, den]), mirror, other (trees built by the driver from the
            specification's Mirror / Stretch or by its own generator); obs =
              leaves   Tree.leaves[i].index and get_indices of the root (tree order)
              dist     get_distance(i, j) as [num, den];   topo   get_distance(i, j, topological)
              lca      sorted leaf indices below lowest_common_ancestor(leaf i, leaf j)
              nw, nwNoDist, nwLabels, nwBlanks   trees parsed back from to_newick(...) variants
              binary   as_binary(tree);   copy   tree.copy()
              eqCopy, eqMirror, eqOther, eqNewick, hashCopy, hashMirror   booleans
   "upgma"  D; obs = [oc, leaves, nodes] (see UpgmaPostObs), tree (diagnostic)
   "nj"     D; obs = [oc, leaves, dist, rootArity], tree (diagnostic)

   PrintT(<<"MISMATCH", tid, l, flags, expected>>) for disagreements,
   PrintT(<<"DIAG", tid, l, what>>) for differences that carry no verdict. *)
EXTENDS Phylo, Json, IOUtils

Tr == JsonDeserialize(IOEnv.TRACE_FILE)

VARIABLES tid, l
tvars == <<tid, l>>

\* JSON tree -> Phylo tree (len arrives as a two-element sequence already; kids as sequence)
RECURSIVE TreeOf(_)
TreeOf(j) == Node(<<j.len[1], j.len[2]>>, j.idx, TLCEval([k \in DOMAIN j.kids |-> TreeOf(j.kids[k])]))

MatrixEq(obs, exp(_, _), n) == \A i, j \in 1..n : REq(obs[i][j], exp(i - 1, j - 1))

\* TLC re-evaluates a LET definition that depends on the state at every use; values bound by a
\* quantifier over a singleton set are computed once -- hence the \E x \in {expr} idiom below.
JudgeTreeWith(e, t, inf, uinf, pNw, pNoDist, pLabels, pBlanks, pBinary, pCopy) ==
  LET o == e.obs
      n == Len(LeafList(t))
      okDomain == Dom_Tree(t)
      okLeaves == o.leaves = LeafList(t) /\ o.byIndex = [i \in 1..n |-> i - 1]
      okDist   == MatrixEq(o.dist, LAMBDA i, j : inf.pd[<<i, j>>], n)
      okTopo   == \A i, j \in 1..n : o.topo[i][j] = uinf.pd[<<i - 1, j - 1>>][1]
      okLca    == \A i, j \in 1..n : ToSet(o.lca[i][j]) = inf.lca[<<i - 1, j - 1>>]
      \* Newick: topology and every leaf-to-leaf distance survive (labels, blanks); without
      \* distances the topology survives
      NwOK(p) == SameTopology(p, t) /\ SameLeafDistances(p, t)
      okNewick == NwOK(pNw) /\ NwOK(pLabels) /\ NwOK(pBlanks)
      okNoDist == SameTopology(pNoDist, t) /\ SameLeafDistances(pNoDist, ZeroLens(t))
      okBinary == IsBinary(pBinary) /\ SameLeafDistances(pBinary, t) /\ Len(LeafList(pBinary)) = n
      okCopy   == SameTopology(pCopy, t) /\ SameLeafDistances(pCopy, t)
      okEq     == /\ o.eqCopy /\ o.hashCopy
                  /\ o.eqMirror = SameTree(t, TreeOf(e.mirror)) /\ (o.eqMirror => o.hashMirror)
                  /\ o.eqOther = SameTree(t, TreeOf(e.other))
                  /\ o.eqNewick
      \* beyond the statement: exact branch lengths and child order through Newick / copy / as_binary
      dExact   == SameTree(pNw, t) /\ SameTree(pCopy, t) /\ SameTree(pBinary, AsBinary(t))
      flags == <<okDomain, okLeaves, okDist, okTopo, okLca, okNewick, okNoDist, okBinary, okCopy, okEq>>
  IN /\ IF dExact THEN TRUE ELSE PrintT(<<"DIAG", tid, l + 1, "tree-exact">>)
     /\ IF okDomain /\ okLeaves /\ okDist /\ okTopo /\ okLca /\ okNewick /\ okNoDist /\ okBinary /\ okCopy /\ okEq THEN TRUE
        ELSE PrintT(<<"MISMATCH", tid, l + 1, flags,
                      [leaves |-> LeafList(t), dist |-> [i \in 1..n |-> [j \in 1..n |-> inf.pd[<<i - 1, j - 1>>]]],
                       binary |-> CanonTree(AsBinary(t))]>>)

JudgeTree(e) ==
  \E t \in {TreeOf(e.t)} : \E inf \in {Info(t)} : \E uinf \in {Info(UnitLens(t))} :
  \E pNw \in {TreeOf(e.obs.nw)} : \E pNoDist \in {TreeOf(e.obs.nwNoDist)} : \E pLabels \in {TreeOf(e.obs.nwLabels)} :
  \E pBlanks \in {TreeOf(e.obs.nwBlanks)} : \E pBinary \in {TreeOf(e.obs.binary)} : \E pCopy \in {TreeOf(e.obs.copy)} :
    JudgeTreeWith(e, t, inf, uinf, pNw, pNoDist, pLabels, pBlanks, pBinary, pCopy)

JudgeUpgmaWith(e, dom, p) ==
  LET o == e.obs
      okOc == (dom => o[1] = "ok") /\ (~Dom_SymNonNeg(e.D) => o[1] = "Rejected")
      \* no verdict: the specification's own run (first minimum in scan order) gives the same clades
      dSame == ~dom \/ o[1] # "ok" \/ Clades(Upgma(e.D)) = Clades(TreeOf(e.tree))
  IN /\ IF dSame THEN TRUE ELSE PrintT(<<"DIAG", tid, l + 1, "upgma-topology">>)
     /\ IF okOc /\ (dom => p.leaves) /\ (dom => p.heights) THEN TRUE
        ELSE PrintT(<<"MISMATCH", tid, l + 1, <<okOc, dom => p.leaves, dom => p.heights>>,
                      [tree |-> IF dom THEN CanonTree(Upgma(e.D)) ELSE LeafN(R(0), 0)]>>)
JudgeUpgma(e) ==
  \E dom \in {Dom_Matrix(e.D) /\ Len(e.D) >= 2} :
  \E p \in {IF e.obs[1] = "ok" THEN UpgmaPostObs(e.D, e.obs[2], e.obs[3]) ELSE [leaves |-> FALSE, heights |-> FALSE]} :
    JudgeUpgmaWith(e, dom, p)

JudgeNjWith(e, dom, small, p) ==
  LET o == e.obs
      okOc == (dom => (o[1] = IF small THEN "Rejected" ELSE "ok")) /\ (~Dom_SymNonNeg(e.D) => o[1] = "Rejected")
  IN IF okOc /\ ((dom /\ ~small) => p.leaves) /\ ((dom /\ ~small) => p.paths) THEN TRUE
     ELSE PrintT(<<"MISMATCH", tid, l + 1, <<okOc, (dom /\ ~small) => p.leaves, (dom /\ ~small) => p.paths>>,
                   [additive |-> dom /\ Dom_Additive(e.D)]>>)
JudgeNj(e) ==
  \E dom \in {Dom_Matrix(e.D)} : \E small \in {~Dom_NjSize(e.D)} :
  \E p \in {IF e.obs[1] = "ok" THEN NjPostObs(e.D, e.obs[2], e.obs[3]) ELSE [leaves |-> FALSE, paths |-> FALSE]} :
    JudgeNjWith(e, dom, small, p)

Judge(e) ==
  CASE e.op = "tree"  -> JudgeTree(e)
    [] e.op = "upgma" -> JudgeUpgma(e)
    [] e.op = "nj"    -> JudgeNj(e)

Init == tid \in 1..Len(Tr) /\ l = 0
Next == /\ l < Len(Tr[tid])
        /\ Judge(Tr[tid][l + 1])
        /\ l' = l + 1
        /\ UNCHANGED tid
Spec == Init /\ [][Next]_tvars
=============================================================================
