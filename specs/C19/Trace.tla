------------------------------- MODULE Trace -------------------------------
(* C19 code -> spec: observations recorded from the real API, re-computed by Phylo's operators.
   Every event carries its input; it is judged on its own.  Event kinds (field op):

   "tree"   t (nested record, lens as [num, den]), mirror, other (trees built by the driver from the
            specification's Mirror / Stretch or by its own generator); obs =
              leaves   Tree.leaves[i].index and get_indices of the root (tree order)
              dist     get_distance(i, j) as [num, den];   topo   get_distance(i, j, topological)
              lca      sorted leaf indices below lowest_common_ancestor(leaf i, leaf j)
              nw, nwNoDist, nwLabels, nwBlanks   trees parsed back from to_newick(...) variants
              binary   as_binary(tree);   copy   tree.copy()
              eqCopy, eqMirror, eqOther, eqNewick, hashCopy, hashMirror   booleans
              leavesAfter, distAfter   leaves / get_distance asked again after all those calls
              raised   the calls of the event that ended with an exception (expected: none)
   "upgma"  D; obs = [oc, leaves, nodes] (see UpgmaPostObs), tree (diagnostic),
            changed = cells <<i, j>> of the caller's array that differ from a snapshot taken before the call,
            rt = the returned tree and the tree parsed back from its to_newick() (see ResultNwOK)
   "nj"     D; obs = [oc, leaves, dist, rootArity], tree (diagnostic), changed
   "session" D, kind (ArrayKinds), calls = <<[fn, obs, changed], ...>>: a history of calls of upgma /
            neighbor_joining on one array object of that kind (obs as for "upgma" / "nj"; every returned
            tree is observed while the caller's array is overwritten with other numbers)
   "block"  B, grp (block matrix, see Phylo); obs = [oc, flat] with flat = the returned tree as list of
            <<kids, lens>> (Phylo!Flat), changed

   "hist"   t, mirror, other; histories of read-only calls (Phylo!TreeCalls) and of in-place edits of the
            container handed out last (Phylo!ScrOps), each on a fresh Tree object built from t:
              vals    the distinct results of calls: [op, oc ("ok" / "Rejected"), v]
              probes  the distinct answers to the probe asked after every step:
                      [n = len(tree), byIndex = [leaf.index for leaf in tree.leaves], order = root.get_indices(),
                       dist = get_distance(i, j) for all i, j]     (n = -1: the probe raised an exception)
              hists   <<<<op, position in vals (0 for a scribble), position in probes>>, ...>> per history
            (the tables only avoid repeating equal values: every value that was observed is in them)
   "labels" t, labels (token sequences, Phylo!Dom_Labels); obs = trees parsed back from
            to_newick(labels) / from_newick(.., labels): dist, noDist (include_distance=False), blanks

   PrintT(<<"MISMATCH", tid, l, flags, expected>>) for disagreements,
   PrintT(<<"DIAG", tid, l, what>>) for differences that carry no verdict. *)
EXTENDS Phylo, Json, IOUtils

Tr == JsonDeserialize(IOEnv.TRACE_FILE)

VARIABLES tid, l
tvars == <<tid, l>>

\* JSON tree -> Phylo tree (len arrives as a two-element sequence already; kids as sequence)
RECURSIVE TreeOf(_)
TreeOf(j) == Node(<<j.len[1], j.len[2]>>, j.idx, TLCEval([k \in DOMAIN j.kids |-> TreeOf(j.kids[k])]))

MatrixEq(obs, exp(_, _), n) == \A i, j \in 1..n : REq(obs[i][j], exp(i - 1, j - 1))

\* TLC re-evaluates a LET definition that depends on the state at every use; values bound by a
\* quantifier over a singleton set are computed once -- hence the \E x \in {expr} idiom below.
JudgeTreeWith(e, t, inf, uinf, zinf, ctz, pNw, pNoDist, pLabels, pBlanks, pBinary, pCopy) ==
  LET o == e.obs
      n == Len(LeafList(t))
      okDomain == Dom_Tree(t)
      okLeaves == o.leaves = LeafList(t) /\ o.byIndex = [i \in 1..n |-> i - 1]
      okDist   == MatrixEq(o.dist, LAMBDA i, j : inf.pd[<<i, j>>], n)
      okTopo   == \A i, j \in 1..n : o.topo[i][j] = uinf.pd[<<i - 1, j - 1>>][1]
      okLca    == \A i, j \in 1..n : ToSet(o.lca[i][j]) = inf.lca[<<i - 1, j - 1>>]
      \* Newick: topology and every leaf-to-leaf distance survive (labels, blanks); without
      \* distances the topology survives
      \* (inf = Info(t), zinf = Info(ZeroLens(t)), ctz = CanonTree(ZeroLens(t)): evaluated once per event)
      NwOK(p) == TopologyIs(p, ctz) /\ LeafDistancesAre(p, inf)          \* = SameTopology(p, t) /\ SameLeafDistances(p, t)
      okNewick == NwOK(pNw) /\ NwOK(pLabels) /\ NwOK(pBlanks)
      okNoDist == TopologyIs(pNoDist, ctz) /\ LeafDistancesAre(pNoDist, zinf)
      okBinary == IsBinary(pBinary) /\ LeafDistancesAre(pBinary, inf) /\ Len(LeafList(pBinary)) = n
      okCopy   == NwOK(pCopy)
      \* the tree answers the same after to_newick / as_binary / copy / == were called on it
      okAfter  == o.leavesAfter = LeafList(t) /\ MatrixEq(o.distAfter, LAMBDA i, j : inf.pd[<<i, j>>], n)
      okEq     == /\ o.eqCopy /\ o.hashCopy
                  /\ o.eqMirror = SameTree(t, TreeOf(e.mirror)) /\ (o.eqMirror => o.hashMirror)
                  /\ o.eqOther = SameTree(t, TreeOf(e.other))
                  /\ o.eqNewick
                  \* every call of the event returned (an observation of a call that raised is a value no
                  \* specification value equals - except a boolean, hence the list of those calls)
                  /\ o.raised = <<>>
      \* beyond the statement: exact branch lengths and child order through Newick / copy / as_binary
      dExact   == SameTree(pNw, t) /\ SameTree(pCopy, t) /\ SameTree(pBinary, AsBinary(t))
      flags == <<okDomain, okLeaves, okDist, okTopo, okLca, okNewick, okNoDist, okBinary, okCopy, okEq, okAfter>>
  IN /\ IF dExact THEN TRUE ELSE PrintT(<<"DIAG", tid, l + 1, "tree-exact">>)
     /\ IF okDomain /\ okLeaves /\ okDist /\ okTopo /\ okLca /\ okNewick /\ okNoDist /\ okBinary /\ okCopy /\ okEq /\ okAfter THEN TRUE
        ELSE PrintT(<<"MISMATCH", tid, l + 1, flags,
                      [leaves |-> LeafList(t), dist |-> [i \in 1..n |-> [j \in 1..n |-> inf.pd[<<i - 1, j - 1>>]]],
                       binary |-> CanonTree(AsBinary(t))]>>)

JudgeTree(e) ==
  \E t \in {TreeOf(e.t)} : \E inf \in {Info(t)} : \E uinf \in {Info(UnitLens(t))} :
  \E zinf \in {Info(ZeroLens(t))} : \E ctz \in {CanonTree(ZeroLens(t))} :
  \E pNw \in {TreeOf(e.obs.nw)} : \E pNoDist \in {TreeOf(e.obs.nwNoDist)} : \E pLabels \in {TreeOf(e.obs.nwLabels)} :
  \E pBlanks \in {TreeOf(e.obs.nwBlanks)} : \E pBinary \in {TreeOf(e.obs.binary)} : \E pCopy \in {TreeOf(e.obs.copy)} :
    JudgeTreeWith(e, t, inf, uinf, zinf, ctz, pNw, pNoDist, pLabels, pBlanks, pBinary, pCopy)

\* <<outcome, every index one leaf, postcondition>> of one call, from what was observed
UpgmaFlagsWith(D, o, dom, p) ==
  <<(dom => o[1] = "ok") /\ (~Dom_SymNonNeg(D) => o[1] = "Rejected"), dom => p.leaves, dom => p.heights>>
UpgmaFlagsIn(D, o, dom) ==                                 \* dom = Dom_Matrix(D) /\ Len(D) >= 2
  Bind(IF o[1] = "ok" /\ dom THEN UpgmaPostObs(D, o[2], o[3]) ELSE [leaves |-> FALSE, heights |-> FALSE], LAMBDA p :
    UpgmaFlagsWith(D, o, dom, p))
UpgmaFlags(D, o) == Bind(Dom_Matrix(D) /\ Len(D) >= 2, LAMBDA dom : UpgmaFlagsIn(D, o, dom))
NjFlagsWith(D, o, dom, small, p) ==
  <<(dom => (o[1] = IF small THEN "Rejected" ELSE "ok")) /\ (~Dom_SymNonNeg(D) => o[1] = "Rejected"),
    (dom /\ ~small) => p.leaves, (dom /\ ~small) => p.paths>>
NjFlagsIn(D, o, dom, additive) ==                          \* dom = Dom_Matrix(D), additive = dom /\ Dom_Additive(D)
  Bind(IF o[1] = "ok" /\ dom THEN NjPostObsWith(D, additive, o[2], o[3]) ELSE [leaves |-> FALSE, paths |-> FALSE], LAMBDA p :
    NjFlagsWith(D, o, dom, ~Dom_NjSize(D), p))
NjFlags(D, o) == Bind(Dom_Matrix(D), LAMBDA dom : Bind(dom /\ Dom_Additive(D), LAMBDA additive : NjFlagsIn(D, o, dom, additive)))
AllTrue(flags) == \A q \in DOMAIN flags : flags[q]
\* the caller's array is the same after the call (ArrayAfter)
Unchanged(changed) == changed = <<>>
\* the tree a clustering function returned is a tree like any other: it keeps its topology and every
\* leaf-to-leaf distance through to_newick / from_newick (rt = [tree, dist, nw |-> [tree, dist]]: shapes without
\* lengths and the matrices of get_distance(i, j); a distance without a small rational near it is the same marker
\* in both matrices)
ResultNwOK(oc, rt) ==
  oc = "ok" =>
    /\ TopologyIs(TreeOf(rt.nw.tree), CanonTree(ZeroLens(TreeOf(rt.tree))))
    /\ Len(rt.nw.dist) = Len(rt.dist)
    /\ \A i \in DOMAIN rt.dist : /\ Len(rt.nw.dist[i]) = Len(rt.dist[i])
                                 /\ \A j \in DOMAIN rt.dist[i] : REq(rt.nw.dist[i][j], rt.dist[i][j])

JudgeUpgma(e) ==
  \E dom \in {Dom_Matrix(e.D) /\ Len(e.D) >= 2} : \E f \in {UpgmaFlags(e.D, e.obs) \o <<Unchanged(e.changed), ResultNwOK(e.obs[1], e.rt)>>} :
    \* no verdict: the specification's own run (first minimum in scan order) gives the same clades
    /\ IF ~dom \/ e.obs[1] # "ok" \/ Clades(Upgma(e.D)) = Clades(TreeOf(e.tree)) THEN TRUE
        ELSE PrintT(<<"DIAG", tid, l + 1, "upgma-topology">>)
    /\ IF AllTrue(f) THEN TRUE
        ELSE PrintT(<<"MISMATCH", tid, l + 1, f, [tree |-> IF dom THEN CanonTree(Upgma(e.D)) ELSE LeafN(R(0), 0)]>>)

JudgeNj(e) ==
  \E f \in {NjFlags(e.D, e.obs) \o <<Unchanged(e.changed), ResultNwOK(e.obs[1], e.rt)>>} :
    IF AllTrue(f) THEN TRUE
    ELSE PrintT(<<"MISMATCH", tid, l + 1, f, [additive |-> Dom_Matrix(e.D) /\ Dom_Additive(e.D)]>>)

\* a history of calls on one array: every call is judged against the matrix the array was made from
JudgeSession(e) ==
  \E dom \in {Dom_Matrix(e.D)} : \E additive \in {Dom_Matrix(e.D) /\ Dom_Additive(e.D)} :
  \E per \in {[c \in DOMAIN e.calls |->
                 (IF e.calls[c].fn = "upgma" THEN UpgmaFlagsIn(e.D, e.calls[c].obs, dom /\ Len(e.D) >= 2)
                                            ELSE NjFlagsIn(e.D, e.calls[c].obs, dom, additive))
                 \o <<Unchanged(e.calls[c].changed), ResultNwOK(e.calls[c].obs[1], e.calls[c].rt)>>]} :
  \E f \in {<<Dom_SymNonNeg(e.D) => Dom_Kind(e.D, e.kind), \A c \in DOMAIN per : per[c][1], \A c \in DOMAIN per : per[c][2],
               \A c \in DOMAIN per : per[c][3], \A c \in DOMAIN per : per[c][4], \A c \in DOMAIN per : per[c][5]>>} :
    IF AllTrue(f) /\ e.kind \in ArrayKinds /\ \A c \in DOMAIN e.calls : e.calls[c].fn \in ClusterFns THEN TRUE
    ELSE PrintT(<<"MISMATCH", tid, l + 1, f, [calls |-> per]>>)

\* upgma() on a block matrix: the one-pass postcondition on the flat form of the returned tree
JudgeBlock(e) ==
  \E inDom \in {Dom_Block(e.B, e.grp)} : \E exact \in {Dom_BlockExact(e.B, e.grp)} :
  \E p \in {IF inDom /\ e.obs[1] = "ok" THEN FlatPost(e.B, e.grp, e.obs[2], Len(e.grp)) ELSE [leaves |-> FALSE, heights |-> FALSE]} :
  \E f \in {<<inDom, e.obs[1] = "ok", p.leaves, exact => p.heights, Unchanged(e.changed)>>} :
    /\ PrintT(<<"BLOCK", tid, l + 1, exact, IF exact THEN WRun(e.B, GroupSizes(e.grp, Len(e.B))).crit ELSE 0>>)
    /\ IF AllTrue(f) THEN TRUE ELSE PrintT(<<"MISMATCH", tid, l + 1, f, [exact |-> exact]>>)

\* ---- histories of read-only calls and scribbles on one Tree object
\* is the recorded result v of the call op what the specification says for the tree t (whatever happened before)?
ValOK(e, t, inf, uinf, zinf, ctz, tab, subs, op, v) ==
  LET n == Len(LeafList(t))
      NwOK(p) == TopologyIs(p, ctz) /\ LeafDistancesAre(p, inf)
      Same(p) == LeafList(p) = LeafList(t) /\ NwOK(p)
  IN CASE op = "len"        -> v = n
       [] op = "leaves"     -> v = OwnList(t)
       [] op = "walk"       -> v[2] /\ \E p \in {TreeOf(v[1])} : Same(p)
       [] op = "dist"       -> Len(v) = n /\ MatrixEq(v, LAMBDA i, j : inf.pd[<<i, j>>], n)
       [] op = "topo"       -> Len(v) = n /\ \A i, j \in 1..n : v[i][j] = uinf.pd[<<i - 1, j - 1>>][1]
       [] op = "lca"        -> Len(v) = n /\ \A i, j \in 1..n : ToSet(v[i][j]) = inf.lca[<<i - 1, j - 1>>]
       [] op = "nodeDist"   -> /\ Len(v[1]) = Len(tab) /\ Len(v[2]) = Len(tab)
                               /\ \A a, b \in DOMAIN tab : /\ REq(v[1][a][b], NodeDistDecl(tab, a, b))
                                                           /\ v[2][a][b] = LcaDecl(tab, a, b)
       [] op = "rootPath"   -> Len(v) = n /\ \A i \in 1..n : /\ REq(RSum(v[i]), inf.dep[i - 1])
                                                            /\ Len(v[i]) = DepthCount(tab, LeafRow(tab, i - 1)) - 1
       [] op \in {"getLeaves", "getIndices"} -> v = [q \in DOMAIN subs |-> LeafList(subs[q])]
       [] op = "leafCount"  -> v = [q \in DOMAIN subs |-> Len(LeafList(subs[q]))]
       [] op \in {"newick", "newickLabels"} -> \E p \in {TreeOf(v)} : NwOK(p)
       [] op = "newickNoDist" -> \E p \in {TreeOf(v)} : TopologyIs(p, ctz) /\ LeafDistancesAre(p, zinf)
       [] op = "str"        -> (\E p \in {TreeOf(v[1])} : NwOK(p)) /\ (\E p \in {TreeOf(v[2])} : NwOK(p))
       [] op \in {"copy", "nodeCopy"} -> v[2] /\ \E p \in {TreeOf(v[1])} : NwOK(p)
       [] op = "eqHash"     -> /\ v[1] /\ v[2] /\ v[3] = SameTree(t, TreeOf(e.mirror)) /\ (v[3] => v[4])
                               /\ v[5] = SameTree(t, TreeOf(e.other)) /\ v[6]
       [] op = "binary"     -> \E p \in {TreeOf(v)} : IsBinary(p) /\ LeafDistancesAre(p, inf) /\ Len(LeafList(p)) = n
       [] OTHER             -> TRUE                       \* "repr", "iter", "graph": no statement about the result
\* calls the statement says nothing about may also refuse
NoVerdict(op) == op \in {"repr", "iter", "graph"}
ProbeOK(exp, p) ==
  /\ p.n = exp.n /\ p.byIndex = exp.byIndex /\ p.order = exp.order /\ Len(p.dist) = exp.n
  /\ \A i, j \in 1..exp.n : REq(p.dist[i][j], exp.dist[i][j])
GraphOK(t, v) == ToSet([q \in DOMAIN v |-> <<ZeroLens(TreeOf(v[q][1])), ZeroLens(TreeOf(v[q][2])), <<v[q][3][1], v[q][3][2]>> >>]) = GraphEdges(t)

JudgeHistWith(e, t, inf, uinf, zinf, ctz, tab, subs, exp) ==
  \E okVal \in {TLCEval([k \in DOMAIN e.vals |->
                   IF e.vals[k][2] = "ok" THEN ValOK(e, t, inf, uinf, zinf, ctz, tab, subs, e.vals[k][1], e.vals[k][3])
                   ELSE NoVerdict(e.vals[k][1])])} :
  \E okProbe \in {TLCEval([k \in DOMAIN e.probes |-> ProbeOK(exp, e.probes[k])])} :
  \E runs \in {TLCEval([h \in DOMAIN e.hists |-> ObjRun(t, [s \in DOMAIN e.hists[h] |-> e.hists[h][s][1]])])} :
  LET okDomain == Dom_Tree(t)
      \* every step is a call or an enabled scribble, refers to the tables, and - the object model - the
      \* tree's own list is untouched at the end of the history, so the expected probe is the initial one
      okHists  == \A h \in DOMAIN e.hists :
                    /\ runs[h][1] /\ runs[h][2].cells[1] = exp.byIndex
                    /\ \A s \in DOMAIN e.hists[h] :
                         LET st == e.hists[h][s] IN
                         /\ st[1] \in TreeOps /\ st[3] \in DOMAIN e.probes
                         /\ IF st[1] \in ScrOps THEN st[2] = 0 ELSE st[2] \in DOMAIN e.vals /\ e.vals[st[2]][1] = st[1]
      okVals   == \A k \in DOMAIN okVal : okVal[k]
      okProbes == \A k \in DOMAIN okProbe : okProbe[k]
      flags == <<okDomain, okHists, okVals, okProbes>>
  IN /\ IF \A k \in DOMAIN e.vals : (e.vals[k][1] = "graph" => e.vals[k][2] = "ok" /\ GraphOK(t, e.vals[k][3])) THEN TRUE
        ELSE PrintT(<<"DIAG", tid, l + 1, "as_graph">>)
     /\ IF okDomain /\ okHists /\ okVals /\ okProbes THEN TRUE
        ELSE PrintT(<<"MISMATCH", tid, l + 1, flags,
                      [badVals |-> {k \in DOMAIN okVal : ~okVal[k]}, badProbes |-> {k \in DOMAIN okProbe : ~okProbe[k]},
                       probe |-> exp]>>)
JudgeHist(e) ==
  \E t \in {TreeOf(e.t)} : \E inf \in {Info(t)} : \E uinf \in {Info(UnitLens(t))} : \E tab \in {PP(t)} :
  \E zinf \in {Info(ZeroLens(t))} : \E ctz \in {CanonTree(ZeroLens(t))} :
  \E subs \in {Subtrees(t)} : \E exp \in {ProbeWith(t, inf.pd, OwnList(t))} :
    JudgeHistWith(e, t, inf, uinf, zinf, ctz, tab, subs, exp)

\* ---- Newick with a list of labels: the leaf written as labels[i] is read back as i
JudgeLabels(e) ==
  \E t \in {TreeOf(e.t)} : \E pDist \in {TreeOf(e.obs.dist)} : \E pNoDist \in {TreeOf(e.obs.noDist)} :
  \E pBlanks \in {TreeOf(e.obs.blanks)} : \E inf \in {Info(t)} : \E ctz \in {CanonTree(ZeroLens(t))} :
  LET n == Len(LeafList(t))
      okDomain == Dom_Tree(t) /\ Dom_Labels(e.labels, n)
                  /\ \A i \in 0..(n - 1) : LeafIndex(LeafText(i, e.labels), e.labels) = i
      NwOK(p) == TopologyIs(p, ctz) /\ LeafDistancesAre(p, inf)
      flags == <<okDomain, NwOK(pDist) /\ NwOK(pBlanks),
                 TopologyIs(pNoDist, ctz) /\ LeafDistancesAre(pNoDist, Info(ZeroLens(t)))>>
  IN IF AllTrue(flags) THEN TRUE
     ELSE PrintT(<<"MISMATCH", tid, l + 1, flags, [leaves |-> LeafList(t), blank |-> HasBlank(e.labels)]>>)

Judge(e) ==
  CASE e.op = "tree"  -> JudgeTree(e)
    [] e.op = "hist"  -> JudgeHist(e)
    [] e.op = "labels" -> JudgeLabels(e)
    [] e.op = "upgma" -> JudgeUpgma(e)
    [] e.op = "nj"    -> JudgeNj(e)
    [] e.op = "session" -> JudgeSession(e)
    [] e.op = "block" -> JudgeBlock(e)

Init == tid \in 1..Len(Tr) /\ l = 0
Next == /\ l < Len(Tr[tid])
        /\ Judge(Tr[tid][l + 1])
        /\ l' = l + 1
        /\ UNCHANGED tid
Spec == Init /\ [][Next]_tvars
=============================================================================
