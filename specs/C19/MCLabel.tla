------------------------------- MODULE MCLabel -------------------------------
(* C19 S1/S2: Newick with a list of leaf labels.  Init enumerates trees (all shapes, one pattern of
   branch lengths) and the label lists of Phylo!LabelLists: numerals in place, permuted, 1-based,
   larger than n, zero-padded; texts that look like numbers; texts with blanks, quotes, brackets.
   The law: reading what was written gives the leaf back (with and without a list).  Every state is
   an input of S2: to_newick(labels) / from_newick(newick, labels) with and without distances. *)
EXTENDS Phylo, TLC
CONSTANTS MaxLeaves, MaxArity, FullUpTo     \* all numeral lists for trees with <= FullUpTo leaves
VARIABLES inp, labels, phase
vars == <<inp, labels, phase>>

Init == /\ \E n \in 1..MaxLeaves : inp \in TreesOver(0..(n - 1), MaxArity, FALSE, 3) /\ labels \in LabelLists(n, n <= FullUpTo)
        /\ phase = 0
Next == phase = 0 /\ phase' = 1 /\ UNCHANGED <<inp, labels>>
Spec == Init /\ [][Next]_vars

N == Len(LeafList(inp))
L_Domain == phase = 1 => Dom_Tree(inp) /\ Dom_Labels(labels, N)
L_LeafRoundTrip ==
  phase = 1 => \A i \in 0..(N - 1) : /\ LeafIndex(LeafText(i, labels), labels) = i
                                     /\ LeafIndex(LeafText(i, <<>>), <<>>) = i
\* numerals are read by position, not by value, when a list is given
L_ByPosition ==
  phase = 1 => \A q \in DOMAIN labels : LeafIndex(labels[q], labels) = q - 1

ASSUME Digits(0) = <<0>> /\ Digits(9606) = <<9, 6, 0, 6>> /\ NumeralValue(<<0, 1, 2>>) = 12
ASSUME LeafIndex(<<0>>, << <<2>>, <<0>>, <<1>> >>) = 1 /\ LeafIndex(<<2>>, <<>>) = 2
=============================================================================
