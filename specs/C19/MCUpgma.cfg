SPECIFICATION Spec
CONSTANTS
  MaxN = 4
  MaxEntry = 3
  MaxEntryBig = 2
INVARIANT InvMeans
INVARIANT InvPartition
INVARIANT InvHeights
INVARIANT InvFinal
CHECK_DEADLOCK FALSE
