SPECIFICATION Spec
CONSTANTS
  Ks = {2, 3}
  Sizes = {1, 2, 12, 127, 128, 129, 254, 255, 256, 257, 258}
  BMax = 3
  MaxTaxa = 400
  Arrs = {"asc", "desc", "mix"}
  Expanded = FALSE
  OnlyWeighted = TRUE
INVARIANT InvFamily
CHECK_DEADLOCK FALSE
