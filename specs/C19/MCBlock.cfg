SPECIFICATION Spec
CONSTANTS
  Ks = {2, 3}
  Sizes = {1, 2, 3}
  BMax = 3
  MaxTaxa = 6
  Arrs = {"asc", "desc", "mix"}
  Expanded = TRUE
  OnlyWeighted = FALSE
INVARIANT InvFamily
INVARIANT L_AvgLinkCnt
INVARIANT L_BlockValues
INVARIANT L_FlatPost
CHECK_DEADLOCK FALSE
