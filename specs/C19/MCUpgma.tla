------------------------------- MODULE MCUpgma -------------------------------
(* C19 S1/S2 for upgma(): the code's loop as a state machine, one merge per step.
   Init: every symmetric matrix with zero diagonal and entries 0..MaxEntry for 2..MaxN taxa
   (ties included).  The initial states are also the inputs of S2 (real upgma(), judged by
   Trace.tla with UpgmaPost); the final states carry the specification's own tree (diagnostic
   comparison only: the tie-break is not part of the property). *)
EXTENDS Phylo
CONSTANTS MaxN, MaxEntry, MaxEntryBig      \* entries 0..MaxEntry up to MaxN - 1 taxa, 0..MaxEntryBig for MaxN taxa
VARIABLES D, U, step
vars == <<D, U, step>>

Init == /\ \E n \in 2..MaxN : D \in SymMatrices(n, IF n = MaxN THEN MaxEntryBig ELSE MaxEntry)
        /\ U = UpgmaInit(D)
        /\ step = 0
Next == ~UpgmaDone(U) /\ U' = UpgmaStep(U) /\ step' = step + 1 /\ UNCHANGED D
Spec == Init /\ [][Next]_vars

N0 == Len(D)
\* the proportional update of the means is average linkage on the original matrix
InvMeans == \A p \in LivePairs(U) : REq(U.d[p], AvgLink(D, U.mem[p[1]], U.mem[p[2]]))
\* the live clusters partition the taxa; each carries a tree over exactly its members
InvPartition ==
  /\ UNION {U.mem[i] : i \in U.act} = 0..(N0 - 1)
  /\ \A i, j \in U.act : i # j => U.mem[i] \cap U.mem[j] = {}
  /\ \A i \in U.act : LeafSet(U.node[i]) = U.mem[i] /\ Len(LeafList(U.node[i])) = Cardinality(U.mem[i])
\* every tree built so far is ultrametric with merge heights = half the average linkage,
\* branch lengths are non-negative (heights never decrease along a path to the root)
RECURSIVE NonNegLens(_)
NonNegLens(t) == \A k \in DOMAIN t.kids : RLe(R(0), t.kids[k].len) /\ NonNegLens(t.kids[k])
InvHeights ==
  \A i \in U.act :
    /\ MergeHeightsOK(D, U.node[i])
    /\ NonNegLens(U.node[i])
    /\ \A x \in LeafSet(U.node[i]) : REq(Depths(U.node[i])[x], U.h[i])
\* the step function and the run operator agree; the end result satisfies the postcondition
InvFinal ==
  UpgmaDone(U) =>
    LET t == U.node[CHOOSE i \in U.act : TRUE]  p == UpgmaPost(D, t) IN
    /\ p.leaves /\ p.heights
    /\ UpgmaPostObs(D, LeafList(t), NodeObs(t)) = p          \* the observable form says the same
    /\ t = Upgma(D)
    /\ \A i, j \in 0..(N0 - 1) : i # j =>
         REq(PairDist(t, i, j), AvgLink(D, LcaSide(t, i, j)[1], LcaSide(t, i, j)[2]))
=============================================================================
