SPECIFICATION Spec
CONSTANTS
  MaxLeaves = 4
  Lens = {1, 2}
  MaxEntry = 2
INVARIANT InvGenerated
INVARIANT InvPartition
INVARIANT InvAdditiveStep
INVARIANT InvFinal
CHECK_DEADLOCK FALSE
