------------------------------- MODULE MCSession -------------------------------
(* C19 S1/S2: histories of calls on one array.  The caller holds an array M of some kind (element
   type, memory layout, write protection) with the matrix D; every step is one call of upgma() or
   neighbor_joining() on that same array.  The functions work on a copy (ArrayAfter): after any
   history M is still D, so every call of the history has the postcondition of the first one.
   The states with a complete history (MaxCalls calls) are the behaviours S2 replays against the
   real functions: same array object for all calls, compared cell by cell with a snapshot after each. *)
EXTENDS Phylo
CONSTANTS MaxLeaves, Lens, Kinds, MaxCalls
VARIABLES D, kind, M, hist
vars == <<D, kind, M, hist>>

Init ==
  /\ \E n \in 4..MaxLeaves : \E t \in BinTreesL(0..(n - 1), Lens) : D = TreeMatrix(t)
  /\ kind \in Kinds
  /\ M = D
  /\ hist = <<>>
Call(fn) ==
  /\ Len(hist) < MaxCalls
  /\ hist' = Append(hist, fn)
  /\ M' = ArrayAfter(fn, M)
  /\ UNCHANGED <<D, kind>>
Next == \E fn \in ClusterFns : Call(fn)
Spec == Init /\ [][Next]_vars

\* D never changes and the postcondition does not depend on the kind of array: evaluated once per
\* matrix, after a first call (TLC evaluates initial states with a single thread)
Once == hist = <<"upgma">> /\ kind = CHOOSE k \in Kinds : TRUE
InvDomain == /\ Dom_Kind(D, kind) /\ Kinds \subseteq ArrayKinds
             /\ Once => (Dom_Matrix(D) /\ Dom_Additive(D) /\ Dom_NjSize(D))
InvPure == M = D
\* what the next call returns on the caller's array satisfies the postcondition for the matrix D
\* (recomputed whenever the array is not the matrix the history started with)
InvCallPost ==
  (Once \/ M # D) =>
    LET u == UpgmaPost(D, Upgma(M))  j == NjPost(D, Nj(M)) IN
    u.leaves /\ u.heights /\ j.leaves /\ j.paths
=============================================================================
