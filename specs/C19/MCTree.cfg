SPECIFICATION Spec
CONSTANTS
  MaxLeaves = 4
  MaxArity = 3
  UnaryUpTo = 4
  Pats = {1, 3}
INVARIANT L_Domain
INVARIANT L_PathSums
INVARIANT L_AsBinary
INVARIANT L_Equality
INVARIANT L_ZeroLens
CHECK_DEADLOCK FALSE
