------------------------------- MODULE MCNj -------------------------------
(* C19 S1/S2 for neighbor_joining(): the code's loop as a state machine, one join per step.
   Inputs (initial states):
     kind "add": matrices of all rooted binary trees over 4 (..MaxLeaves) taxa with branch
                 lengths from Lens  -> additive: the result must reproduce every path length;
     kind "any": every symmetric matrix with entries 0..MaxEntry for 4 taxa (ties, non-additive)
                 -> every index exactly one leaf. *)
EXTENDS Phylo
CONSTANTS MaxLeaves, Lens, MaxEntry
VARIABLES kind, D, J, step
vars == <<kind, D, J, step>>

Init ==
  /\ \/ /\ kind = "add"
        /\ \E n \in 4..MaxLeaves : \E t \in BinTreesL(0..(n - 1), Lens) : D = TreeMatrix(t)
     \/ /\ kind = "any"
        /\ D \in SymMatrices(4, MaxEntry)
  /\ J = NjInit(D)
  /\ step = 0
Next == ~NjDone(J) /\ J' = NjStep(J) /\ step' = step + 1 /\ UNCHANGED <<kind, D>>
Spec == Init /\ [][Next]_vars

N0 == Len(D)
InvGenerated == kind = "add" => Dom_Additive(D) /\ Dom_Matrix(D)
\* live nodes carry disjoint sub-trees that together hold every taxon once
InvPartition ==
  ~NjDone(J) =>
    /\ UNION {LeafSet(J.node[i]) : i \in J.act} = 0..(N0 - 1)
    /\ \A i, j \in J.act : i # j => LeafSet(J.node[i]) \cap LeafSet(J.node[j]) = {}
\* on an additive matrix the current distances stay the path lengths between the sub-tree roots,
\* i.e. d[i, j] + depth of any leaf pair = original distance
InvAdditiveStep ==
  (kind = "add" /\ ~NjDone(J)) =>
    \A p \in {q \in DOMAIN J.d : q[1] \in J.act /\ q[2] \in J.act} :
      \A a \in LeafSet(J.node[p[1]]), b \in LeafSet(J.node[p[2]]) :
        REq(RAdd(J.d[p], RAdd(Depths(J.node[p[1]])[a], Depths(J.node[p[2]])[b])), R(DAt(D, a, b)))
InvFinal ==
  NjDone(J) =>
    LET t == J.root[1]  p == NjPost(D, t) IN
    /\ p.leaves /\ p.paths
    /\ Len(t.kids) = 3                       \* binary except for the root (documented)
    /\ t = Nj(D)
    /\ NjPostObs(D, LeafList(t), [i \in 1..N0 |-> [j \in 1..N0 |-> PairDist(t, i - 1, j - 1)]]) = p
=============================================================================
