SPECIFICATION Spec
CONSTANTS
  MaxN = 5
  MaxEntry = 1
  MaxEntryBig = 1
INVARIANT InvMeans
INVARIANT InvPartition
INVARIANT InvHeights
INVARIANT InvFinal
CHECK_DEADLOCK FALSE
