------------------------------- MODULE MCHist -------------------------------
(* C19 S1/S2: histories of read-only calls and caller's scribbles on one Tree object.
   Init enumerates the trees, every step is one call of TreeCalls or one in-place edit (ScrOps) of
   the container that was handed out last; `obj` is the object model of Phylo (cells).  The law: after
   every history the tree's own list is what it was, it was never handed out, and the probe (len, leaves,
   get_indices, get_distance: a function of the tree value and that list) is answered as at the beginning.  The complete histories are
   the inputs of S2: each is executed on a fresh real Tree, with the probe after every step. *)
EXTENDS Phylo, TLC
CONSTANTS MaxLeaves, MaxArity, Pats, UnaryUpTo, Depth
VARIABLES inp, obj, hist
vars == <<inp, obj, hist>>

IsInput(x) == \E n \in 1..MaxLeaves, pat \in Pats : x \in TreesOver(0..(n - 1), MaxArity, n <= UnaryUpTo, pat)
Init == IsInput(inp) /\ obj = ObjInit(inp) /\ hist = <<>>
AllOps == TreeOps
Do(op) == /\ Len(hist) < Depth
          /\ ObjEnabled(obj, op)
          /\ obj' = ObjStep(inp, obj, op)
          /\ hist' = Append(hist, op)
          /\ UNCHANGED inp
Next == \E op \in AllOps : Do(op)
Spec == Init /\ [][Next]_vars

L_Domain == hist = <<>> => Dom_Tree(inp)
\* read-only calls and scribbles on handed-out containers leave the tree as it was
L_ReadOnly ==
  /\ obj.cells[1] = OwnList(inp)
  /\ obj.held # 1 /\ obj.kinds[1] = "own" /\ \A c \in 2..Len(obj.kinds) : obj.kinds[c] # "own"
  /\ ObjRun(inp, hist) = <<TRUE, obj>>
\* the probe is the property's observation: every index exactly one leaf, distances = path sums
L_Probe ==
  hist = <<>> =>
    LET p == ProbeOf(inp, obj.cells[1])  n == Len(LeafList(inp)) IN
    /\ p.n = n /\ LeavesOnce(inp, n) /\ p.byIndex = [q \in 1..n |-> q - 1]
    /\ \A i, j \in 1..n : p.dist[i][j] = PairDist(inp, i - 1, j - 1)
\* distance_to / lowest_common_ancestor of any two nodes (paths to the root, as written) = the
\* deepest common ancestor and the sum over the branches of the path
L_NodeDist ==
  hist = <<>> =>
    LET tab == PP(inp) IN
    \A u, v \in DOMAIN tab : LcaPP(tab, u, v) = LcaDecl(tab, u, v) /\ REq(DistPP(tab, u, v), NodeDistDecl(tab, u, v))
=============================================================================
