SPECIFICATION Spec
CONSTANTS
  MaxLeaves = 5
  Lens = {1}
  Kinds = {"f8", "f4", "i8", "i4", "u1", "f4F", "f4ro", "f8ro", "f4view"}
  MaxCalls = 2
INVARIANT InvDomain
INVARIANT InvPure
INVARIANT InvCallPost
CHECK_DEADLOCK FALSE
