------------------------------- MODULE MCTraj -------------------------------
(* Stage S1 + generator of stage S2 for X09: Init enumerates every call of the bounded space,
   one Compute step stores the specification's answer, the invariants relate the
   implementation-shaped reader to the declarative slice. *)
EXTENDS TrajRead

CONSTANTS MaxM, Na, Starts, Stops, Steps, Chunks, Variants, UseFmts

VARIABLES phase, inp, out
vars == <<phase, inp, out>>

AtomSels == {None, Some(<<0, Na - 1>>), Some(<<1>>)}
NoOut == [oc |-> "none", res |-> NoFrames, items |-> <<>>, impl |-> <<>>, chunks |-> 0, safe |-> TRUE]

Init ==
  /\ phase = 0 /\ out = NoOut
  /\ \E kind \in {"read", "iter"}, fmt \in UseFmts, m \in 1..MaxM, v \in Variants :
     \E a \in OptInts(Starts), b \in OptInts(Stops), c \in OptInts(Steps), cs \in OptInts(Chunks),
        ai \in AtomSels :
       /\ Dom_Window(a, b, c)
       /\ (IF kind = "iter" THEN Dom_Stack(cs) ELSE TRUE)
       /\ inp = [kind |-> kind, fmt |-> fmt, m |-> m, na |-> Na, v |-> v,
                 start |-> a, stop |-> b, step |-> c, ai |-> ai, cs |-> cs]

Compute ==
  /\ phase = 0 /\ phase' = 1 /\ UNCHANGED inp
  /\ out' = IF inp.kind = "read"
            THEN LET r == Op_Read(inp.fmt, inp.m, inp.na, inp.v, inp.start, inp.stop, inp.step, inp.ai, inp.cs)
                     t == IF r.oc = "Rejected" THEN [pos |-> <<>>, chunks |-> 0]
                          ELSE ReadImplFull(inp.m, inp.start, inp.stop, inp.step, inp.cs)
                 IN [oc |-> r.oc, res |-> r.res, items |-> <<>>, impl |-> t.pos, chunks |-> t.chunks,
                     safe |-> Dom_NativeSafe(inp.fmt, inp.step, inp.ai, inp.na)]
            ELSE LET r == Op_ReadIter(inp.fmt, inp.m, inp.na, inp.v, inp.start, inp.stop, inp.step, inp.ai, inp.cs)
                 IN [oc |-> r.oc, res |-> NoFrames, items |-> r.items,
                     impl |-> IterImpl(inp.m, inp.start, inp.stop, inp.step, inp.cs), chunks |-> 0,
                     safe |-> Dom_NativeSafe(inp.fmt, inp.step, inp.ai, inp.na)]

Next == Compute
Spec == Init /\ [][Next]_vars

(* S1: the reader as written delivers the Python slice, whatever the chunk size *)
InvReadImpl ==
  (phase = 1 /\ inp.kind = "read" /\ out.oc # "Rejected") =>
    out.impl = ReadDecl(inp.m, inp.start, inp.stop, inp.step)
InvIterImpl ==
  (phase = 1 /\ inp.kind = "iter") =>
    out.impl = IterDecl(inp.m, inp.start, inp.stop, inp.step, inp.cs)
\* the slice agrees with its set-theoretic definition and is increasing
InvSliceDecl ==
  phase = 1 =>
    LET p == ReadDecl(inp.m, inp.start, inp.stop, inp.step) IN
    /\ SeqRange(p) = SliceSetDecl(inp.start, inp.stop, inp.step, inp.m)
    /\ \A i \in 1..(Len(p) - 1) : p[i] < p[i + 1]
\* chunk independence stated directly: same answer as without chunk_size
InvChunkIndep ==
  (phase = 1 /\ inp.kind = "read" /\ out.oc # "Rejected") =>
    out.impl = ReadImpl(inp.m, inp.start, inp.stop, inp.step, None)
\* items of the iterator concatenate to the frames of read()
InvIterConcat ==
  (phase = 1 /\ inp.kind = "iter") =>
    FoldLeft(LAMBDA acc, x : acc \o x, <<>>, out.impl) = ReadDecl(inp.m, inp.start, inp.stop, inp.step)
InvDom == phase = 1 => (Dom_Traj(inp.m, inp.na) /\ Dom_AtomI(inp.ai, inp.na))
=============================================================================
