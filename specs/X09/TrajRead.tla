------------------------------- MODULE TrajRead -------------------------------
(* X09: trajectory files of biotite (biotite.structure.io.trajfile.TrajectoryFile and the
   format classes XTCFile, TRRFile, DCDFile, NetCDFFile).

   Abstract values
     a frame index k is 0-based like the code's; a trajectory written to disk is identified by
     (m, na, v): m frames, na atoms, content variant v.  Its content is the closed-form table
     Coord / TimeOf / BoxOf below, in integer units (coordinates and box lengths in 1/8 Angstrom,
     time in 1/2 ps), so that every format stores it exactly or to its documented precision.
     Optional arguments are None == <<>> / Some(x) == <<x>> (module PyIndex).

   Two definitions of what read() returns stand next to each other:
     ReadDecl   declarative: the positions of the Python slice full[start:stop:step]
     ReadImpl   implementation-shaped: the cursor arithmetic of TrajectoryFile.read on top of
                the primitive biotraj read(n_frames, stride) (FRead), incl. the rounding of
                chunk_size to a multiple of step, the chunk-wise discarding of the frames before
                start and the chunk loop of _read_chunk_wise
   and likewise IterDecl / IterImpl for read_iter / read_iter_structure.  Stage S1 (MCTraj)
   checks them equal on every bounded input. *)
EXTENDS PyIndex, SequencesExt, TLC

Fmts == {"xtc", "trr", "dcd", "nc"}

(* ------------------------------------------------------------------ content of a trajectory *)
Coord(k, a, v) == <<(k * 4 + a) % 33, (k * 7 + a * 3 + v) % 33, ((k \div 8) + a + 2 * v) % 33>>
TimeOf(k, v)   == k + 1 + v
BoxOf(k, v)    == <<32 + 8 * (k % 8), 64 + 8 * v, 128>>

AllAtoms(na) == [j \in 1..na |-> j - 1]
FrameOf(k, atoms, v) == [j \in 1..Len(atoms) |-> Coord(k, atoms[j], v)]
HasTime(fmt) == fmt # "dcd"           \* DCDFile documents that it stores no simulation time

(* frames at the positions pos restricted to the atoms `atoms` *)
Frames(fmt, v, pos, atoms) ==
  [coord |-> [i \in 1..Len(pos) |-> FrameOf(pos[i], atoms, v)],
   time  |-> IF HasTime(fmt) THEN [i \in 1..Len(pos) |-> TimeOf(pos[i], v)] ELSE <<>>,
   box   |-> [i \in 1..Len(pos) |-> BoxOf(pos[i], v)]]
NoFrames == [coord |-> <<>>, time |-> <<>>, box |-> <<>>]

(* ------------------------------------------------------------------------------ domains *)
Dom_Opt(o, lo)   == IF IsNone(o) THEN TRUE ELSE Val(o) >= lo
\* start/stop are frame indices >= 0, step >= 1 (negative values are not documented),
\* stop >= start (the code computes stop - start frames; a negative count is not specified)
Dom_Window(start, stop, step) ==
  /\ Dom_Opt(start, 0) /\ Dom_Opt(stop, 0) /\ Dom_Opt(step, 1)
  /\ (IF IsNone(stop) THEN TRUE ELSE Val(stop) >= (IF IsNone(start) THEN 0 ELSE Val(start)))
\* atom_i: strictly increasing 0-based atom indices below na, at least one
Dom_AtomI(ai, na) ==
  IF IsNone(ai) THEN TRUE
  ELSE /\ Len(Val(ai)) >= 1
       /\ \A j \in DOMAIN Val(ai) : Val(ai)[j] >= 0 /\ Val(ai)[j] < na
       /\ \A j \in 1..(Len(Val(ai)) - 1) : Val(ai)[j] < Val(ai)[j + 1]
Dom_Traj(m, na) == m >= 1 /\ na >= 1
(* Excluded from execution against the real classes: striding a TRR file while selecting a proper
   subset of the atoms overflows a heap buffer in the reader of the dependency biotraj
   (finding X09-trr-stride-atom-selection-overflow): the process may abort at any later point,
   so these calls are probed in a separate process only. *)
Dom_NativeSafe(fmt, step, ai, na) ==
  ~(fmt = "trr" /\ (IF IsNone(step) THEN FALSE ELSE Val(step) >= 2)
                /\ (IF IsNone(ai) THEN FALSE ELSE Len(Val(ai)) < na))
SelAtoms(ai, na) == IF IsNone(ai) THEN AllAtoms(na) ELSE Val(ai)

(* ------------------------------------------------------- declarative: the Python slice *)
ReadDecl(m, start, stop, step) == SlicePos(start, stop, step, m)

(* ------------------------------------------ primitive: biotraj read(n_frames, stride) *)
Stride(s) == IF IsNone(s) THEN 1 ELSE Val(s)
\* from cursor cur: frames cur, cur+s, ... (at most n of them, all below m); the cursor moves
\* n*s frames on (to the end of the file when n is None)
FRead(m, cur, n, s) ==
  LET st    == Stride(s)
      avail == IF cur >= m THEN 0 ELSE CeilDiv(m - cur, st)
      k     == IF IsNone(n) THEN avail ELSE Max2(0, Min2(Val(n), avail))
  IN [pos |-> [i \in 1..k |-> cur + (i - 1) * st],
      cur |-> IF IsNone(n) THEN Max2(m, cur) ELSE Max2(cur, Min2(m, cur + Val(n) * st))]

(* ---------------------------------------------------- TrajectoryFile.read, as written *)
EffChunk(cs, step) ==
  IF ~IsNone(step) /\ cs % Val(step) # 0 THEN ((cs \div Val(step)) + 1) * Val(step) ELSE cs

\* _read_chunk_wise: rem = None or Some(frames still wanted)
RECURSIVE ChunkLoop(_, _, _, _, _, _)
ChunkLoop(m, cur, rem, step, cs, acc) ==
  IF ~IsNone(rem) /\ Val(rem) = 0 THEN [pos |-> acc, cur |-> cur, chunks |-> 0]
  ELSE LET n == IF IsNone(rem) THEN cs ELSE Min2(Val(rem), cs)
           r == FRead(m, cur, Some(n), step)
       IN IF Len(r.pos) = 0 THEN [pos |-> acc, cur |-> r.cur, chunks |-> 0]
          ELSE LET t == ChunkLoop(m, r.cur, IF IsNone(rem) THEN rem ELSE Some(Val(rem) - n),
                                  step, cs, acc \o r.pos)
               IN [t EXCEPT !.chunks = @ + 1]

StartOf(start) == IF IsNone(start) THEN 0 ELSE Val(start)
\* number of frames to deliver: None, or stop - start converted from step to stride
FrameCount(start, stop, step) ==
  LET nf0 == IF IsNone(stop) THEN None ELSE Some(Val(stop) - StartOf(start))
  IN IF ~IsNone(step) /\ ~IsNone(nf0) THEN Some(((Val(nf0) - 1) \div Val(step)) + 1) ELSE nf0

ReadImplFull(m, start, stop, step, cs) ==
  LET ecs  == IF IsNone(cs) THEN cs ELSE Some(EffChunk(Val(cs), step))
      st   == StartOf(start)
      cur0 == IF st = 0 THEN 0
              ELSE IF IsNone(ecs) \/ Val(ecs) > st THEN FRead(m, 0, Some(st), None).cur
              ELSE ChunkLoop(m, 0, Some(st), None, Val(ecs), <<>>).cur
      nf   == FrameCount(start, stop, step)
  IN IF IsNone(ecs) THEN [pos |-> FRead(m, cur0, nf, step).pos, chunks |-> 1]
     ELSE LET t == ChunkLoop(m, cur0, nf, step, Val(ecs), <<>>) IN [pos |-> t.pos, chunks |-> t.chunks]
ReadImpl(m, start, stop, step, cs) == ReadImplFull(m, start, stop, step, cs).pos

(* ------------------------------------------------- read_iter / read_iter_structure *)
RECURSIVE IterLoop(_, _, _, _, _, _)
IterLoop(m, cur, rem, step, stack, acc) ==
  IF ~IsNone(rem) /\ Val(rem) <= 0 THEN acc
  ELSE LET sz == IF IsNone(stack) THEN 1 ELSE Val(stack)
           n  == IF IsNone(rem) THEN sz ELSE Min2(Val(rem), sz)
           r  == FRead(m, cur, Some(n), step)
       IN IF Len(r.pos) = 0 THEN acc
          ELSE IterLoop(m, r.cur, IF IsNone(rem) THEN rem ELSE Some(Val(rem) - sz), step, stack,
                        Append(acc, r.pos))

IterImpl(m, start, stop, step, stack) ==
  LET st   == StartOf(start)
      cur0 == IF st = 0 THEN 0 ELSE FRead(m, 0, Some(st), None).cur
  IN IterLoop(m, cur0, FrameCount(start, stop, step), step, stack, <<>>)

ChunksOf(s, k) == [i \in 1..CeilDiv(Len(s), k) |-> SubSeq(s, (i - 1) * k + 1, Min2(i * k, Len(s)))]
IterDecl(m, start, stop, step, stack) ==
  ChunksOf(ReadDecl(m, start, stop, step), IF IsNone(stack) THEN 1 ELSE Val(stack))

(* ------------------------------------------------------------ public calls: outcomes *)
(* outcome strings:
     "ok"               the frames of `res`
     "Rejected"         an exception (chunk_size / stack_size < 1: ValueError in the code)
     "EmptyOrRejected"  the selected window holds no frame: the documentation does not say what
                        happens; an exception or a result without frames both conform, frames do not *)
Op_Read(fmt, m, na, v, start, stop, step, ai, cs) ==
  IF ~IsNone(cs) /\ Val(cs) < 1 THEN [oc |-> "Rejected", res |-> NoFrames]
  ELSE LET pos == ReadDecl(m, start, stop, step) IN
       IF Len(pos) = 0 THEN [oc |-> "EmptyOrRejected", res |-> NoFrames]
       ELSE [oc |-> "ok", res |-> Frames(fmt, v, pos, SelAtoms(ai, na))]

\* read_iter: the sequence of yielded items; stack None -> every item holds one frame
Op_ReadIter(fmt, m, na, v, start, stop, step, ai, stack) ==
  LET cks == IterDecl(m, start, stop, step, stack) IN
  IF Len(cks) = 0 THEN [oc |-> "EmptyOrRejected", items |-> <<>>]
  ELSE [oc |-> "ok", items |-> [i \in 1..Len(cks) |-> Frames(fmt, v, cks[i], SelAtoms(ai, na))]]
Dom_Stack(stack) == Dom_Opt(stack, 1)

(* get_structure / read_iter_structure: the template supplies the annotations (modelled: the
   sequence of atom labels), the file the coordinates and the box; atom counts must agree *)
Op_GetStructure(nAtomsFile, templ) ==
  IF Len(templ) # nAtomsFile THEN [oc |-> "Rejected", labels |-> <<>>]
  ELSE [oc |-> "ok", labels |-> templ]

(* --------------------------------------------------- the file object as a state machine *)
(* an array handed to a setter is described by <<m, v>> (m frames of variant v) or None *)
NewFile == [coord |-> None, time |-> None, box |-> None, count |-> None]

CountOk(f, arr) == IsNone(arr) \/ IsNone(f.count) \/ Val(f.count) = Val(arr)[1]
CountAfter(f, arr) == IF IsNone(arr) \/ ~IsNone(f.count) THEN f.count ELSE Some(Val(arr)[1])

Op_Set(f, field, arr, fmt) ==
  IF field = "time" /\ fmt = "dcd" /\ ~IsNone(arr) THEN [oc |-> "Rejected", f |-> f]   \* NotImplementedError (documented)
  ELSE IF ~CountOk(f, arr) THEN [oc |-> "Rejected", f |-> f]
  ELSE [oc |-> "ok",
        f |-> [[f EXCEPT ![field] = arr] EXCEPT !.count = CountAfter(f, arr)]]
Op_Get(f, field) == f[field]
Op_Copy(f) == [oc |-> "Rejected", f |-> f]     \* documented: NotImplementedError

\* what is on disk after write(): needs coordinates; time and box as set
Dom_Write(f) == ~IsNone(f.coord)
\* reading it back completely: a new object whose arrays equal the written ones
\* (time/box that were never set: not specified here -> field "any")
Op_ReadBack(f, fmt) ==
  [coord |-> f.coord,
   time  |-> IF ~HasTime(fmt) THEN "none" ELSE IF IsNone(f.time) THEN "any" ELSE "set",
   box   |-> IF IsNone(f.box) THEN "any" ELSE "set"]

(* invariant of the object: every array that is set has `count` frames *)
FileInv(f) ==
  \A fld \in {"coord", "time", "box"} :
    ~IsNone(f[fld]) => (~IsNone(f.count) /\ Val(f.count) = Val(f[fld])[1])

(* ------------------------------------------------ examples from the documentation / tests *)
ASSUME ReadDecl(5, None, None, None) = <<0, 1, 2, 3, 4>>
ASSUME ReadDecl(5, Some(1), Some(9), Some(2)) = <<1, 3>>
ASSUME ReadImpl(5, Some(1), Some(9), Some(2), Some(3)) = <<1, 3>>
ASSUME EffChunk(3, Some(2)) = 4 /\ EffChunk(4, Some(2)) = 4 /\ EffChunk(1, None) = 1
ASSUME FRead(6, 0, Some(2), Some(3)) = [pos |-> <<0, 3>>, cur |-> 6]
ASSUME FRead(6, 0, Some(2), Some(2)) = [pos |-> <<0, 2>>, cur |-> 4]
ASSUME IterDecl(5, None, None, Some(2), Some(2)) = << <<0, 2>>, <<4>> >>
=============================================================================
