------------------------------- MODULE Trace -------------------------------
(* X09 direction code -> spec: calls recorded from the real API are re-computed with the
   operators of TrajRead.  TRACE_FILE is a JSON array of traces; a trace is a list of events.
   Optional values are [] / [x].  Arrays are logged projected to integers (coordinates and box
   lengths in 1/8 Angstrom, time in 1/2 ps); an array handed to a setter is described by
   [m, v] (m frames of content variant v; the driver builds it with the table of TrajRead).

     {op:"new", fmt, na}                              a fresh file object of the format class
     {op:"set", field, arr, oc, g}                    set_coord / set_time / set_box; g = the three getters afterwards
     {op:"copy", oc}                                  copy()
     {op:"wr", oc, back}                              write(path) then Class.read(path): arrays of the new object
     {op:"gs", templ, oc, labels, depth, coord, box}  get_structure(template)
   calls on a file written from the trajectory (m, na, v):
     {op:"read", fmt, m, na, v, start, stop, step, ai, cs, oc, res}
     {op:"iter", fmt, ..., cs (= stack_size), oc, items}          read_iter
     {op:"iters", fmt, ..., cs, templ, oc, items, labels, shapes} read_iter_structure
   A disagreement is printed as <<"MISMATCH", tid, eventIndex, op, expected>>; the run goes on. *)
EXTENDS TrajRead, Json, IOUtils

Tr == JsonDeserialize(IOEnv.TRACE_FILE)

VARIABLES tid, l, S
tvars == <<tid, l, S>>

Report(op, detail) == PrintT(<<"MISMATCH", tid, l + 1, op, detail>>)

Idx(m) == [i \in 1..m |-> i - 1]
CoordArr(a, na) == [i \in 1..a[1] |-> FrameOf(i - 1, AllAtoms(na), a[2])]
TimeArr(a)      == [i \in 1..a[1] |-> TimeOf(i - 1, a[2])]
BoxArr(a)       == [i \in 1..a[1] |-> BoxOf(i - 1, a[2])]

Obs(f, na) ==
  [coord |-> IF IsNone(f.coord) THEN <<>> ELSE <<CoordArr(Val(f.coord), na)>>,
   time  |-> IF IsNone(f.time)  THEN <<>> ELSE <<TimeArr(Val(f.time))>>,
   box   |-> IF IsNone(f.box)   THEN <<>> ELSE <<BoxArr(Val(f.box))>>]

Dom_Arr(arr) == IF IsNone(arr) THEN TRUE ELSE Val(arr)[1] >= 1 /\ Val(arr)[2] >= 0

\* the outcome class observed for a window without frames
OcMatches(want, got) ==
  IF want = "EmptyOrRejected" THEN got \in {"Empty", "Rejected"} ELSE got = want

Dom_Call(e) ==
  /\ e.fmt \in Fmts /\ Dom_Traj(e.m, e.na) /\ Dom_Window(e.start, e.stop, e.step)
  /\ Dom_AtomI(e.ai, e.na) /\ Dom_NativeSafe(e.fmt, e.step, e.ai, e.na)

JudgeCall(e) ==
  IF ~Dom_Call(e) THEN Report(e.op, "Dom_Call")
  ELSE
  CASE e.op = "read" ->
         LET w == Op_Read(e.fmt, e.m, e.na, e.v, e.start, e.stop, e.step, e.ai, e.cs) IN
         IF OcMatches(w.oc, e.oc) /\ (w.oc = "ok" => e.res = w.res)
            /\ (w.oc = "ok" => ReadImpl(e.m, e.start, e.stop, e.step, e.cs)
                                 = ReadDecl(e.m, e.start, e.stop, e.step))
         THEN TRUE ELSE Report("read", w)
    [] e.op = "iter" ->
         IF ~Dom_Stack(e.cs) THEN Report("iter", "Dom_Stack") ELSE
         LET w == Op_ReadIter(e.fmt, e.m, e.na, e.v, e.start, e.stop, e.step, e.ai, e.cs) IN
         IF OcMatches(w.oc, e.oc) /\ (w.oc = "ok" => e.items = w.items)
            /\ IterImpl(e.m, e.start, e.stop, e.step, e.cs) = IterDecl(e.m, e.start, e.stop, e.step, e.cs)
         THEN TRUE ELSE Report("iter", w)
    [] e.op = "iters" ->
         IF ~Dom_Stack(e.cs) THEN Report("iters", "Dom_Stack") ELSE
         LET w == Op_ReadIter(e.fmt, e.m, e.na, e.v, e.start, e.stop, e.step, e.ai, e.cs)
             g == Op_GetStructure(Len(SelAtoms(e.ai, e.na)), e.templ)
             wantItems == [i \in 1..Len(w.items) |-> [coord |-> w.items[i].coord, box |-> w.items[i].box]]
             \* an AtomArray per frame without stack_size, an AtomArrayStack of the chunk with it
             wantShapes == [i \in 1..Len(w.items) |->
                              IF IsNone(e.cs) THEN <<"array", 1>> ELSE <<"stack", Len(w.items[i].coord)>>]
         IN
         IF g.oc = "Rejected" THEN (IF e.oc = "Rejected" \/ (w.oc # "ok" /\ e.oc = "Empty") THEN TRUE ELSE Report("iters", g))
         ELSE IF OcMatches(w.oc, e.oc)
                 /\ (w.oc = "ok" => /\ e.items = wantItems /\ e.shapes = wantShapes
                                    /\ \A i \in 1..Len(e.labels) : e.labels[i] = g.labels)
              THEN TRUE ELSE Report("iters", [oc |-> w.oc, items |-> wantItems, shapes |-> wantShapes, labels |-> g.labels])

Init == tid \in 1..Len(Tr) /\ l = 0 /\ S = [fmt |-> "xtc", na |-> 1, f |-> NewFile]

Next ==
  /\ l < Len(Tr[tid])
  /\ l' = l + 1
  /\ UNCHANGED tid
  /\ LET e == Tr[tid][l + 1] IN
     CASE e.op = "new" ->
            /\ IF e.fmt \in Fmts /\ e.na >= 1 /\ e.g = Obs(NewFile, e.na) THEN TRUE ELSE Report("new", Obs(NewFile, e.na))
            /\ S' = [fmt |-> e.fmt, na |-> e.na, f |-> NewFile]
       [] e.op = "set" ->
            LET w == Op_Set(S.f, e.field, e.arr, S.fmt) IN
            /\ IF ~(Dom_Arr(e.arr) /\ e.field \in {"coord", "time", "box"}) THEN Report("set", "Dom_Arr")
               ELSE IF e.oc = w.oc /\ e.g = Obs(w.f, S.na) /\ FileInv(w.f) THEN TRUE
               ELSE Report("set", [oc |-> w.oc, g |-> Obs(w.f, S.na)])
            /\ S' = [S EXCEPT !.f = w.f]
       [] e.op = "copy" ->
            /\ IF e.oc = Op_Copy(S.f).oc /\ e.g = Obs(S.f, S.na) THEN TRUE ELSE Report("copy", Op_Copy(S.f).oc)
            /\ UNCHANGED S
       [] e.op = "wr" ->
            LET o == Obs(S.f, S.na)
                rb == Op_ReadBack(S.f, S.fmt) IN
            /\ IF ~Dom_Write(S.f) THEN Report("wr", "Dom_Write")
               ELSE IF /\ e.oc = "ok" /\ e.back.coord = o.coord
                       /\ (rb.time = "none" => e.back.time = <<>>)
                       /\ (rb.time = "set" => e.back.time = o.time)
                       /\ (rb.box = "set" => e.back.box = o.box)
                       /\ e.g = o
                    THEN TRUE ELSE Report("wr", [o EXCEPT !.time = IF rb.time = "none" THEN <<>> ELSE @])
            /\ UNCHANGED S
       [] e.op = "gs" ->
            LET o == Obs(S.f, S.na)
                w == Op_GetStructure(S.na, e.templ) IN
            /\ IF ~Dom_Write(S.f) THEN Report("gs", "Dom_Write")
               ELSE IF e.oc = w.oc /\ e.g = o
                       /\ (w.oc = "ok" => /\ e.labels = w.labels /\ <<e.coord>> = o.coord
                                          /\ e.depth = Val(S.f.coord)[1] /\ e.box = o.box)
                    THEN TRUE ELSE Report("gs", [oc |-> w.oc, labels |-> w.labels, coord |-> o.coord, box |-> o.box])
            /\ UNCHANGED S
       [] OTHER -> JudgeCall(e) /\ UNCHANGED S

Spec == Init /\ [][Next]_tvars
=============================================================================
