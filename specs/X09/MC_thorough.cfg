SPECIFICATION Spec
CONSTANTS
  MaxM = 7
  Na = 4
  Starts = {0, 1, 2, 4, 7, 8}
  Stops = {0, 1, 3, 4, 6, 7, 9}
  Steps = {1, 2, 3, 4}
  Chunks = {0, 1, 2, 3, 5}
  Variants = {0, 1}
  UseFmts = {"xtc", "trr", "dcd", "nc"}
INVARIANT InvReadImpl
INVARIANT InvIterImpl
INVARIANT InvSliceDecl
INVARIANT InvChunkIndep
INVARIANT InvIterConcat
INVARIANT InvDom
CHECK_DEADLOCK FALSE
