SPECIFICATION Spec
CONSTANTS
  MaxM = 4
  Na = 3
  Starts = {0, 1, 2, 5}
  Stops = {0, 2, 4, 6}
  Steps = {1, 2, 3}
  Chunks = {0, 1, 2, 3}
  Variants = {0}
  UseFmts = {"xtc", "trr", "dcd", "nc"}
INVARIANT InvReadImpl
INVARIANT InvIterImpl
INVARIANT InvSliceDecl
INVARIANT InvChunkIndep
INVARIANT InvIterConcat
INVARIANT InvDom
CHECK_DEADLOCK FALSE
