------------------------------- MODULE MCConv -------------------------------
(* C11 S1/S2 for AlignConv.  Inputs are tagged
     <<"alpha", AA>>   a typed alignment (rows with every combination of alphabets, in every order)
     <<"fasta", G>>    a FASTA text (token matrix) that uses '-' and the further gap characters mixed;
                       it is parsed with every option value in GapOptCases
   One step computes the expected values (variable res). *)
EXTENDS AlignConv, TLC

CONSTANTS MaxLenK,      \* "alpha": two rows of lengths 1..MaxLenK over every ordered pair of kinds
          MaxLenK3,     \* "alpha": three rows of lengths 1..MaxLenK3 (0: none)
          Kinds3,       \* kinds of the three-row alignments
          MaxColsF,     \* "fasta": two-row texts with 1..MaxColsF columns
          MaxColsF3,    \* "fasta": three-row texts with 1..MaxColsF3 columns (0: none)
          Rich

VARIABLES inp, res, phase
vars == <<inp, res, phase>>

(* ---- contents: every row holds a code whose symbol differs from alphabet to alphabet (or that the
   smaller alphabets do not have) and a code (1) that nuc / amb / prot spell alike ---- *)
Hi(kind) == CASE kind = "nuc" -> 3 [] kind = "amb" -> 14 [] kind = "prot" -> 18 [] kind = "gen" -> 4 [] kind = "let" -> 4
KContent(kind, n) ==
  CASE n = 1 -> {<<Hi(kind)>>} \cup (IF Rich THEN {<<1>>} ELSE {})
    [] n = 2 -> {<<1, Hi(kind)>>} \cup (IF Rich THEN {<<Hi(kind), 2>>} ELSE {})
    [] OTHER -> {[k \in 1..n |-> IF k = 2 THEN Hi(kind) ELSE k % 3]}
KSeqs(kind, n) == UNION {KContent(kind, k) : k \in 1..n}

\* every order in which the option can list 0..3 further gap characters, in every container
AltChars == {AltChar(1), AltChar(2), AltChar(3)}
GapCharSeqs == {s \in UNION {[1..n -> AltChars] : n \in 0..3} : Cardinality(ToSet(s)) = Len(s)}
GapOptCases == SetToSeq({<<gc, Forms[f]>> : gc \in GapCharSeqs, f \in DOMAIN Forms})
TextTokens == {0, Gap} \cup AltChars

IsInput(x) ==
  \/ \E k1 \in Kinds, k2 \in Kinds : \E a \in KSeqs(k1, MaxLenK), b \in KSeqs(k2, MaxLenK) :
       \E t \in AllTraces(<<Len(a), Len(b)>>, TRUE) : x = <<"alpha", AlnK(<<a, b>>, t, <<k1, k2>>)>>
  \/ /\ MaxLenK3 > 0
     /\ \E k1 \in Kinds3, k2 \in Kinds3, k3 \in Kinds3 :
          \E a \in KSeqs(k1, MaxLenK3), b \in KSeqs(k2, MaxLenK3), c \in KSeqs(k3, MaxLenK3) :
            \E t \in AllTraces(<<Len(a), Len(b), Len(c)>>, TRUE) : x = <<"alpha", AlnK(<<a, b, c>>, t, <<k1, k2, k3>>)>>
  \/ \E m \in 1..MaxColsF : \E G \in [1..2 -> [1..m -> TextTokens]] : x = <<"fasta", G>>
  \/ /\ MaxColsF3 > 0
     /\ \E m \in 1..MaxColsF3 : \E G \in [1..3 -> [1..m -> TextTokens]] : x = <<"fasta", G>>

(* ---- fixed parameters of the score calls ---- *)
MEntry(a, b) == ((3 * a + 5 * b) % 7) - 3                  \* asymmetric
FullM(n1, n2) == [a \in 1..n1 |-> [b \in 1..n2 |-> MEntry(a - 1, b - 1)]]
ScoreCases == <<<<-3, -1, TRUE>>, <<-2, -2, FALSE>>>>
ModeSeq == <<"all", "not_terminal", "shortest">>
MatrixFor(AA) == FullM(ASize(AA.kinds[1]), ASize(AA.kinds[IF Len(AA.kinds) = 2 THEN 2 ELSE 1]))
CodesUsed(AA) == UNION {ToSet(AA.seqs[r]) : r \in DOMAIN AA.seqs}

AlphaResults(AA) ==
  LET U == Untyped(AA)
      G == GappedStrings(AA)
      back == ThroughFasta(AA)
      dom == Dom_RowsPresent(U)
  IN [codes  |-> Codes(U),
      syms   |-> Symbols(AA),
      gapped |-> G,
      str    |-> StrBlocks(G, StrWidth),
      tfs    |-> back.tr,                          \* trace_from_strings(gapped strings)
      fdom   |-> Dom_FastaStable(AA) /\ NCols(U) >= 1,
      fasta  |-> <<back.seqs, back.tr>>,
      sdom   |-> dom /\ Dom_ScoreKinds(AA),
      \* the substitution matrix restricted to the codes that occur (the driver fills the rest with 0)
      mat    |-> {<<a, b, MEntry(a, b)>> : a \in CodesUsed(AA), b \in CodesUsed(AA)},
      score  |-> IF dom /\ Dom_ScoreKinds(AA)
                   THEN [k \in DOMAIN ScoreCases |->
                           Score(U, MatrixFor(AA), ScoreCases[k][1], ScoreCases[k][2], ScoreCases[k][3])]
                   ELSE <<>>,
      idom   |-> dom /\ Dom_CodesMeanSymbols(AA),
      ident  |-> [k \in 1..3 |-> Identity(U, ModeSeq[k])],
      pident |-> [k \in 1..3 |-> LET p == PairwiseIdentity(U, ModeSeq[k]) IN <<p.oc, p.m>>]]

\* one entry per option value: <<gap characters, container, in domain, outcome, sequences, trace>>;
\* the same value is expected when the parsed alignment is written with set_alignment and parsed
\* again with the same option (L_FastaStable)
FastaResults(G) ==
  [k \in DOMAIN GapOptCases |->
     LET gc == GapOptCases[k][1]  r == FromFastaOpt(G, gc) IN
     <<gc, GapOptCases[k][2], Dom_FastaText(G, gc), r.oc, r.A.seqs, r.A.tr>>]

Results(x) == IF x[1] = "alpha" THEN AlphaResults(x[2]) ELSE FastaResults(x[2])

Init == IsInput(inp) /\ res = <<>> /\ phase = 0
Next == phase = 0 /\ phase' = 1 /\ res' = Results(inp) /\ UNCHANGED inp
Spec == Init /\ [][Next]_vars

(* ------------------------------------------------------------------ laws *)
IsA == phase = 1 /\ inp[1] = "alpha"
IsF == phase = 1 /\ inp[1] = "fasta"

L_GeneratorValid == IsA => Dom_Kinds(inp[2]) /\ ValidTrace(Untyped(inp[2]))

\* "decode the row's codes together and scatter them" = "cell by cell"; every row in its own alphabet;
\* the symbols spell the codes (encode . decode = id)
L_Symbols ==
  IsA => LET AA == inp[2]  U == Untyped(AA) IN
         /\ Symbols(AA) = GappedStrings(AA)
         /\ \A r \in DOMAIN AA.seqs : \A c \in DOMAIN AA.tr :
              LET s == Symbols(AA)[r][c] IN
              IF Codes(U)[r][c] = Gap THEN s = GapChar
              ELSE s # GapChar /\ AlphabetOf(AA.kinds[r])[Codes(U)[r][c] + 1] = s
                   /\ Cardinality({k \in 1..ASize(AA.kinds[r]) : AlphabetOf(AA.kinds[r])[k] = s}) = 1

\* gapped strings and back: the aligned symbols, renumbered (the typed version of L_RoundTrip)
L_LettersRoundTrip ==
  IsA => LET AA == inp[2]  U == Untyped(AA)  back == ThroughFasta(AA)  C == Compact(U) IN
         /\ back.tr = C.tr
         /\ back.seqs = LetterSeqs(AlnK(C.seqs, C.tr, AA.kinds))
         /\ ValidTrace(Aln(C.seqs, back.tr))
         /\ GappedStrings(AlnK(C.seqs, back.tr, AA.kinds)) = GappedStrings(AA)

\* str(): the blocks spell the gapped strings, every block but the last is full (checked for small widths
\* too, the real width is far beyond the bounds)
L_StrBlocks ==
  IsA => LET G == GappedStrings(inp[2]) IN
         \A W \in {1, 2, StrWidth} :
           LET B == StrBlocks(G, W) IN
           /\ \A r \in DOMAIN G : FoldLeft(LAMBDA acc, b : acc \o B[b][r], <<>>, [b \in DOMAIN B |-> b]) = G[r]
           /\ \A b \in DOMAIN B : \A r \in DOMAIN G : Len(B[b][r]) = IF b < Len(B) THEN W ELSE Len(G[r]) - (Len(B) - 1) * W
           /\ \A b \in DOMAIN B : Len(B[b][1]) >= 1

\* FASTA reader: pass-by-pass replacement = "every declared character is a gap", for every order of the
\* option; an accepted text gives a valid complete trace; writing it back and parsing again is stable
L_FastaOpt ==
  IsF => LET G == inp[2] IN
         \A k \in DOMAIN GapOptCases :
           LET gc == GapOptCases[k][1]  r == FromFastaOpt(G, gc) IN
           /\ ReplaceGapChars(G, gc) = ReplaceGapCharsDecl(G, gc)
           /\ (r.oc = "Rejected") = HasUndeclared(G, gc)
           /\ (r.oc = "ok" /\ Dom_FastaText(G, gc)) =>
                /\ ValidTrace(r.A) /\ Complete(r.A)
                /\ r.A.seqs = [q \in DOMAIN G |-> SelectSeq(G[q], LAMBDA x : x >= 0)]
                /\ \A q \in DOMAIN G : \A c \in DOMAIN G[q] : (r.A.tr[c][q] = Gap) = (G[q][c] < 0)
L_FastaStable ==
  IsF => LET G == inp[2] IN
         \A k \in DOMAIN GapOptCases :
           LET gc == GapOptCases[k][1]  r == FromFastaOpt(G, gc) IN
           (r.oc = "ok" /\ Dom_FastaText(G, gc)) =>
              LET again == FromFastaOpt(Codes(r.A), gc) IN
              again.oc = "ok" /\ again.A = r.A /\ Dom_FastaText(Codes(r.A), gc)

\* the default option is one of the enumerated values
ASSUME \E k \in DOMAIN GapOptCases : GapOptCases[k][1] = DefaultGapChars
ASSUME Len(GapOptCases) = 48
\* docstring-like example: "-MKV---" / "GATTACA" (protein row first)
ASSUME LET AA == AlnK(<<<<10, 8, 17>>, <<2, 0, 3, 3, 0, 1, 0>>>>,
                      <<<<Gap, 0>>, <<0, 1>>, <<1, 2>>, <<2, 3>>, <<Gap, 4>>, <<Gap, 5>>, <<Gap, 6>>>>, <<"prot", "nuc">>)
       IN Symbols(AA) = <<<<"-", "M", "K", "V", "-", "-", "-">>, <<"G", "A", "T", "T", "A", "C", "A">>>>
ASSUME FromFastaOpt(<<<<0, AltChar(1), AltChar(2)>>, <<0, 0, 0>>>>, <<AltChar(1), AltChar(2)>>).A.tr
         = <<<<0, 0>>, <<Gap, 1>>, <<Gap, 2>>>>
=============================================================================
