------------------------------- MODULE Trace -------------------------------
(* C11 direction B: executions recorded from the real API, re-computed by the same operators.
   TRACE_FILE = JSON array of traces, a trace = array of events; every event is judged on its
   own (events carry their inputs).  Event kinds (field op):

   "helpers"  A, kinds (AlignConv!Kinds name of every row), M, sc = [[go, ge, terminal]..] (empty when the rows'
              alphabets admit no common matrix); obs = codes, gapped / symbols (rows of characters, gap "-"),
              str (blocks of rows of characters), tfs, fasta{seqs (characters), tr},
              term [oc,start,stop], rterm [oc,tr], rgaps tr, ident [[oc,num,den] x3],
              pident [[oc, [[ [num,den].. ].. ]] x3], score [[oc,val]..]
   "fasta_r"  G (FASTA text as a token matrix: code, Gap, AltChar(k)), gc (additional_gap_chars as tokens),
              form ("tuple" | "list" | "str" | "default" = option not passed); obs = [oc, seqs, tr],
              obs2 = [oc, seqs, tr] after set_alignment + get_alignment with the same option
   "index"    A, cidx, ridx (ridx = ["none", []] for alignment[cidx]); obs = [oc, seqs, tr]
   "cigar_w"  A, o; pos, stored (inputs of the read-back chosen by the driver);
              obs = [oc, ops], obs2 = ops parsed from the string form, back = [oc, seqs, tr]
   "cigar_r"  c, pos, ref, seg; obs = [oc, tr]
   "msa"      inputs (contents before the call), objs (which positions hold one and the same Sequence
              object, ProgressiveMsa!Dom_Objs), after (contents of the input objects after the call),
              merges [[a, b, tr]..] (observed calls of align_optimal, may be empty),
              A (returned alignment), order, leaves (0-based, guide tree in DFS order), tree (tokens)
   "msa_exc"  inputs; an exception other than the documented ValueError

   Disagreements: PrintT(<<"MISMATCH", tid, l, flags, expected>>); diagnostics that carry no verdict:
   PrintT(<<"DIAG", tid, l, what>>). *)
EXTENDS Cigar, ProgressiveMsa, AlignConv, Json, IOUtils, TLC

Tr == JsonDeserialize(IOEnv.TRACE_FILE)

VARIABLES tid, l
tvars == <<tid, l>>

ModeSeq == <<"all", "not_terminal", "shortest">>

\* observed rational num/den equals expected <<oc, n, d>>
FracEq(obs, exp) == obs[1] = exp[1] /\ (exp[1] = "ok" => obs[2] * exp[3] = exp[2] * obs[3] /\ obs[3] > 0)

AlnOf(a) == Aln(a.seqs, a.tr)

(* ------------------------------------------------------------------ helpers *)
JudgeHelpers(e) ==
  LET A == AlnOf(e.A)
      o == e.obs
      dom == Dom_RowsPresent(A)
      f == FindTerminalGaps(A)
      rt == RemoveTerminalGaps(A)
      AA == AlnK(e.A.seqs, e.A.tr, e.kinds)             \* every row with its own alphabet
      back == FromGapped(Codes(A))
      okValid  == ValidTrace(A) /\ Dom_Kinds(AA)          \* generator sanity: inputs are in the domain
      okCodes  == /\ o.codes = Codes(A)
                  /\ o.gapped = GappedStrings(AA) /\ o.symbols = Symbols(AA)
                  /\ o.str = StrBlocks(GappedStrings(AA), StrWidth)
      okTfs    == NRows(A) >= 2 => o.tfs = back.tr
      okFasta  == (NCols(A) >= 1 /\ Dom_FastaStable(AA)) =>
                    (o.fasta.seqs = ThroughFasta(AA).seqs /\ o.fasta.tr = back.tr)
      okTerm   == dom => o.term = <<f.oc, f.start, f.stop>>
      okRterm  == dom => (IF rt.oc = "EmptyOrRejected" THEN o.rterm[1] = "Rejected" \/ o.rterm = <<"ok", <<>>>>
                          ELSE o.rterm[1] = rt.oc /\ (rt.oc = "ok" => o.rterm[2] = rt.A.tr))
      okRgaps  == o.rgaps = RemoveGaps(A).tr
      okIdent  == dom /\ Dom_CodesMeanSymbols(AA) => \A k \in 1..3 : FracEq(o.ident[k], Identity(A, ModeSeq[k]))
      okPident == dom /\ Dom_CodesMeanSymbols(AA) /\ NCols(A) >= 1 =>
                    \A k \in 1..3 :
                      LET p == PairwiseIdentity(A, ModeSeq[k]) IN
                      /\ o.pident[k][1] = p.oc
                      /\ p.oc = "ok" => \A i, j \in 1..NRows(A) :
                                          o.pident[k][2][i][j][1] * p.m[i][j][2] = p.m[i][j][1] * o.pident[k][2][i][j][2]
      okScore  == dom /\ Dom_ScoreKinds(AA) => \A k \in DOMAIN e.sc :
                           LET s == Score(A, e.M, e.sc[k][1], e.sc[k][2], e.sc[k][3]) IN
                           o.score[k][1] = s[1] /\ (s[1] = "ok" => o.score[k][2] = s[2])
      flags == <<okValid, okCodes, okTfs, okFasta, okTerm, okRterm, okRgaps, okIdent, okPident, okScore>>
  IN IF okValid /\ okCodes /\ okTfs /\ okFasta /\ okTerm /\ okRterm /\ okRgaps /\ okIdent /\ okPident /\ okScore THEN TRUE
     ELSE PrintT(<<"MISMATCH", tid, l + 1, flags,
                   [codes |-> Codes(A), syms |-> Symbols(AA), back |-> back, term |-> <<f.oc, f.start, f.stop>>,
                    rterm |-> <<rt.oc, rt.A.tr>>, rgaps |-> RemoveGaps(A).tr,
                    ident |-> [k \in 1..3 |-> Identity(A, ModeSeq[k])],
                    score |-> IF dom /\ Dom_ScoreKinds(AA)
                                THEN [k \in DOMAIN e.sc |-> Score(A, e.M, e.sc[k][1], e.sc[k][2], e.sc[k][3])] ELSE <<>>]>>)

(* ------------------------------------------------------------------ FASTA reader with its option *)
JudgeFastaR(e) ==
  LET gc == IF e.form = "default" THEN DefaultGapChars ELSE e.gc
      r == FromFastaOpt(e.G, gc)
      dom == Dom_FastaText(e.G, gc)
      both == dom /\ r.oc = "ok" /\ e.obs[1] = "ok"
      okOc == dom => e.obs[1] = r.oc
      \* the parsed alignment: the text's symbols, a valid trace
      okA == both => (e.obs[2] = r.A.seqs /\ e.obs[3] = r.A.tr /\ ValidTrace(Aln(e.obs[2], e.obs[3])))
      \* FASTA and back: the same alignment again
      okAgain == both => e.obs2 = <<"ok", r.A.seqs, r.A.tr>>
      flags == <<okOc, okA, okAgain>>
  IN IF okOc /\ okA /\ okAgain THEN TRUE
     ELSE PrintT(<<"MISMATCH", tid, l + 1, flags, <<r.oc, r.A.seqs, r.A.tr, dom>>>>)

(* ------------------------------------------------------------------ indexing *)
JudgeIndex(e) ==
  LET A == AlnOf(e.A)
      r == IF e.ridx[1] = "none" THEN IndexCols(A, e.cidx) ELSE IndexRC(A, e.cidx, e.ridx)
      okOc == e.obs[1] = r.oc
      okA  == r.oc = "ok" /\ e.obs[1] = "ok" => (e.obs[2] = r.A.seqs /\ e.obs[3] = r.A.tr)
      \* the property: a forward selection of whole columns is again a valid trace
      okValid == (e.obs[1] = "ok" /\ e.ridx[1] = "none" /\ Resolve(e.cidx, NCols(A)).ok
                  /\ ForwardPos(Resolve(e.cidx, NCols(A)).pos)) => ValidTrace(Aln(e.obs[2], e.obs[3]))
      flags == <<okOc, okA, okValid>>
  IN IF okOc /\ okA /\ okValid THEN TRUE
     ELSE PrintT(<<"MISMATCH", tid, l + 1, flags, <<r.oc, r.A.seqs, r.A.tr, KB_C11_IntIndex1D(e.cidx, e.ridx)>>>>)

(* ------------------------------------------------------------------ CIGAR *)
OptsOfEvent(o) == Opts(o.ref, o.seg, o.introns, o.distinguish, o.hard, o.terminal)

JudgeCigarW(e) ==
  LET A == AlnOf(e.A)
      o == OptsOfEvent(e.o)
      w == WriteCigar(A, o)
      dom == Dom_CigarTrace(A, o)
      okOc  == e.obs[1] = w.oc
      okOps == w.oc = "ok" /\ e.obs[1] = "ok" => (e.obs[2] = w.ops /\ e.obs2 = w.ops)
      \* inputs of the read-back must be the specification's (a wrong value is a harness error)
      okInputs == (w.oc = "ok" /\ dom) => (e.pos = PosOf(A, o) /\ e.stored = StoredSegment(A, o))
      okBack == (w.oc = "ok" /\ dom /\ e.obs[1] = "ok") =>
                  LET n == Normalise(A, o) IN
                  e.back[1] = "ok" /\ e.back[2] = n.seqs /\ e.back[3] = n.tr /\ ValidTrace(Aln(e.back[2], e.back[3]))
      flags == <<okOc, okOps, okInputs, okBack>>
  IN IF okOc /\ okOps /\ okInputs /\ okBack THEN TRUE
     ELSE PrintT(<<"MISMATCH", tid, l + 1, flags,
                   [oc |-> w.oc, ops |-> w.ops, dom |-> dom,
                    back |-> IF w.oc = "ok" /\ dom THEN Normalise(A, o).tr ELSE <<>>]>>)

JudgeCigarR(e) ==
  LET r == ReadCigar(e.c, e.pos, e.ref, e.seg)
      fits == Dom_CigarFits(e.c, e.pos, e.ref, e.seg)
      okOc == e.obs[1] = r.oc
      okTr == (r.oc = "ok" /\ e.obs[1] = "ok" /\ fits) => (e.obs[2] = r.A.tr /\ ValidTrace(Aln(<<e.ref, e.seg>>, e.obs[2])))
      flags == <<okOc, okTr>>
  IN IF okOc /\ okTr THEN TRUE
     ELSE PrintT(<<"MISMATCH", tid, l + 1, flags, <<r.oc, r.A.tr>>>>)

(* ------------------------------------------------------------------ multiple alignment *)
JudgeMsa(e) ==
  LET A == AlnOf(e.A)
      p == Post(e.inputs, A, e.order, e.leaves)
      tree1 == [k \in DOMAIN e.tree |-> IF e.tree[k] >= 0 THEN e.tree[k] + 1 ELSE e.tree[k]]
      rp == Replay(e.inputs, [k \in DOMAIN e.merges |-> [a |-> e.merges[k][1], b |-> e.merges[k][2], tr |-> e.merges[k][3]]])
      \* diagnostics (documented behaviour beyond the property statement)
      dReplay == e.merges = <<>> \/
                   (rp.ok /\ Cardinality(rp.F) = 1 /\
                    LET g == CHOOSE x \in rp.F : TRUE IN
                    /\ FinalRows(g) = Codes(A)
                    /\ g.tree = tree1)
      dOrder == e.order = e.leaves
      dBalanced == TreeBalanced(e.tree)
      \* the caller's Sequence objects are as before; okObjs is generator sanity (a harness error if FALSE)
      okAfter == InputsUnchanged(e.inputs, e.after)
      okObjs == Dom_Objs(e.inputs, e.objs)
      flags == <<p.rowsPerInput, p.valid, p.complete, p.orderPerm, p.treeOnce, okAfter, okObjs>>
  IN /\ IF dReplay /\ dOrder /\ dBalanced THEN TRUE ELSE PrintT(<<"DIAG", tid, l + 1, <<dReplay, dOrder, dBalanced>>>>)
     /\ IF PostAll(p) /\ okAfter /\ okObjs THEN TRUE
        ELSE PrintT(<<"MISMATCH", tid, l + 1, flags, [inputs |-> e.inputs]>>)

\* align_multiple raised something that is not the documented refusal: never expected; the
\* known-finding predicate is evaluated here so that the classifier uses the specification's value
JudgeMsaExc(e) ==
  PrintT(<<"MISMATCH", tid, l + 1, <<FALSE>>, [kb |-> KB_C11_IdenticalHomopolymers(e.inputs)]>>)

Judge(e) ==
  CASE e.op = "helpers" -> JudgeHelpers(e)
    [] e.op = "fasta_r" -> JudgeFastaR(e)
    [] e.op = "index"   -> JudgeIndex(e)
    [] e.op = "cigar_w" -> JudgeCigarW(e)
    [] e.op = "cigar_r" -> JudgeCigarR(e)
    [] e.op = "msa"     -> JudgeMsa(e)
    [] e.op = "msa_exc" -> JudgeMsaExc(e)

Init == tid \in 1..Len(Tr) /\ l = 0
Next == /\ l < Len(Tr[tid])
        /\ Judge(Tr[tid][l + 1])
        /\ l' = l + 1
        /\ UNCHANGED tid
Spec == Init /\ [][Next]_tvars
=============================================================================
