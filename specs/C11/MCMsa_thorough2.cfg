SPECIFICATION Spec
CONSTANTS
  MaxSeqs = 3
  MaxLen = 3
  MaxGapCols = 3
  MaxTotal = 7
INVARIANT InvGroups
INVARIANT InvPartition
INVARIANT InvReplay
INVARIANT InvFinal
CHECK_DEADLOCK FALSE
