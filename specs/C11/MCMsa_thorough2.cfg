SPECIFICATION Spec
CONSTANTS
  Aliasing = TRUE
  MaxSeqs = 3
  MaxLen = 3
  MaxGapCols = 3
  MaxTotal = 7
INVARIANT InvGroups
INVARIANT InvPartition
INVARIANT InvReplay
INVARIANT InvFinal
INVARIANT InvObjects
CHECK_DEADLOCK FALSE
