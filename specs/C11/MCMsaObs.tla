------------------------------- MODULE MCMsaObs -------------------------------
(* C11 S2 (observed): every set of 2..MaxSeqs sequences over {0, 1} of length 1..MaxLen is an
   input of the real align_multiple with default settings; the run is recorded (merges seen by
   the rebound align_optimal, returned tuple) and judged by Trace.tla.  This module only
   enumerates the inputs and evaluates the known-finding predicate on them.
   objs: every way of passing equal sequences as one and the same object (Dom_Objs). *)
EXTENDS ProgressiveMsa, TLC
CONSTANTS MaxSeqs, MaxLen
VARIABLES inputs, objs, kb
Seqs == UNION {[1..k -> {0, 1}] : k \in 1..MaxLen}
Init == /\ \E n \in 2..MaxSeqs : /\ inputs \in [1..n -> Seqs]
                                   /\ objs \in {o \in ObjPatterns(n) : Dom_Objs(inputs, o)}
        /\ kb = KB_C11_IdenticalHomopolymers(inputs)
Next == UNCHANGED <<inputs, objs, kb>>
Spec == Init /\ [][Next]_<<inputs, objs, kb>>
\* identical inputs that are not homopolymers are in the domain of the property without restriction
ASSUME ~KB_C11_IdenticalHomopolymers(<<<<0, 1>>, <<0, 1>>>>) /\ KB_C11_IdenticalHomopolymers(<<<<1, 1>>, <<0>>, <<1, 1>>>>)
=============================================================================
