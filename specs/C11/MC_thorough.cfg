SPECIFICATION Spec
CONSTANTS
  MaxLen2 = 4
  MaxLen3 = 2
  Rich = TRUE
INVARIANT L_GeneratorValid
INVARIANT L_TfsImplIsDecl
INVARIANT L_RoundTrip
INVARIANT L_Terminal
INVARIANT L_RemoveGaps
INVARIANT L_Identity
INVARIANT L_Pairwise
INVARIANT L_Score
INVARIANT L_Index
CHECK_DEADLOCK FALSE
