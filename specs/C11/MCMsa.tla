------------------------------- MODULE MCMsa -------------------------------
(* C11 S1/S2 for ProgressiveMsa: the forest machine.  Init: any 2..MaxSeqs inputs of lengths
   1..MaxLen (symbols are distinct tokens 10*k + p, so "row k is input k" is visible in the
   values); Merge: any two groups, any representatives, any global pairwise trace between the
   representatives' rows with at most MaxGapCols gap columns.  hist records the merges, so that
   every final state is one complete behaviour that S2 forces the real align_multiple through
   (guide tree = merge tree, distance matrix making (a, b) the closest pair, align_optimal
   answering with the recorded traces).
   objs: which inputs are one and the same Sequence object (ObjPatterns; only inputs of equal
   content can be one object, so a shared object's positions carry the same tokens 10*objs[k] + p).
   With Aliasing = FALSE every input is its own object. *)
EXTENDS ProgressiveMsa, TLC

CONSTANTS MaxSeqs, MaxLen, MaxGapCols, MaxTotal, Aliasing

VARIABLES lens, objs, F, hist
vars == <<lens, objs, F, hist>>

InputsOf(l, o) == [k \in DOMAIN l |-> [p \in 1..l[k] |-> 10 * o[k] + p]]
Inputs == InputsOf(lens, objs)

Sum(l) == FoldLeft(LAMBDA a, x : a + x, 0, l)
Init ==
  /\ \E n \in 2..MaxSeqs :
       /\ lens \in {l \in [1..n -> 1..MaxLen] : Sum(l) <= MaxTotal}
       /\ objs \in IF Aliasing THEN {o \in ObjPatterns(n) : \A k \in 1..n : lens[o[k]] = lens[k]}
                   ELSE {NoSharing(n)}
  /\ F = {Leaf(k, InputsOf(lens, objs)[k]) : k \in DOMAIN lens}
  /\ hist = <<>>

Merge ==
  \E g1 \in F, g2 \in F :
    /\ g1 # g2
    /\ \E a \in ToSet(g1.idx), b \in ToSet(g2.idx) :
       \E aln \in {t \in GlobalAlns(RowLen(g1), RowLen(g2)) : GapColumns(t) <= MaxGapCols} :
         /\ F' = (F \ {g1, g2}) \cup {MergeGroups(g1, g2, aln)}
         /\ hist' = Append(hist, [a |-> a, b |-> b, tr |-> aln])
         /\ UNCHANGED <<lens, objs>>

Next == Merge
Spec == Init /\ [][Next]_vars

Done == Cardinality(F) = 1
Final == CHOOSE g \in F : TRUE

(* ------------------------------------------------------------------ invariants *)
InvGroups == \A g \in F : GroupOK(Inputs, g)
\* the groups partition the inputs; every merge tree holds its group's inputs exactly once, in idx order
InvPartition ==
  /\ \A g, h \in F : g # h => ToSet(g.idx) \cap ToSet(h.idx) = {}
  /\ UNION {ToSet(g.idx) : g \in F} = DOMAIN lens
  /\ \A g \in F : TreeLeaves(g.tree) = g.idx /\ TreeBalanced(g.tree)
\* replaying the recorded merges from the leaves reproduces the forest (the replay used for
\* observed executions is the same machine)
InvReplay == LET r == Replay(Inputs, hist) IN r.ok /\ r.F = F
\* at the end: ArgSort reordering = "row of input k", and the postcondition of the call
InvFinal ==
  Done =>
    LET g == Final
        A == FinalAlignment(Inputs, g)
    IN /\ FinalRows(g) = FinalRowsDecl(g)
       /\ Codes(A) = FinalRows(g)
       /\ PostAll(Post(Inputs, A, [k \in DOMAIN g.idx |-> g.idx[k] - 1],
                       [k \in DOMAIN g.idx |-> TreeLeaves(g.tree)[k] - 1]))
\* object identity: the machine above works on values.  The code works on Sequence objects; with
\* the leaf copy it computes the same rows for EVERY sharing pattern of the inputs, returns
\* sequences equal to the inputs and leaves the caller's objects untouched.
InvObjects ==
  /\ Dom_Objs(Inputs, objs)
  /\ Done => LET r == HeapRun(Inputs, objs, hist, TRUE) IN
             /\ r.rows = FinalRows(Final)
             /\ r.seqs = Inputs
             /\ InputsUnchanged(Inputs, r.after)
\* ... and what the copy is for: without it the same history is still right when no object is
\* shared, and wrong (all-gap column / rows that do not spell the input / caller's object
\* changed) when a gap goes into a group that holds one object twice
ExampleHist == <<[a |-> 1, b |-> 2, tr |-> <<<<0, 0>>, <<1, 1>>>>],
                 [a |-> 1, b |-> 3, tr |-> <<<<0, 0>>, <<Gap, 1>>, <<1, 2>>>>]>>
ExampleIn(o) == InputsOf(<<2, 2, 3>>, o)
ASSUME LET r == HeapRun(ExampleIn(<<1, 2, 3>>), <<1, 2, 3>>, ExampleHist, FALSE) IN
       /\ r.rows = <<<<11, Gap, 12>>, <<21, Gap, 22>>, <<31, 32, 33>>>>
       /\ r.rows = HeapRun(ExampleIn(<<1, 2, 3>>), <<1, 2, 3>>, ExampleHist, TRUE).rows
       /\ r.after = ExampleIn(<<1, 2, 3>>)
ASSUME LET r == HeapRun(ExampleIn(<<1, 1, 3>>), <<1, 1, 3>>, ExampleHist, TRUE) IN
       r.rows = <<<<11, Gap, 12>>, <<11, Gap, 12>>, <<31, 32, 33>>>> /\ r.after = ExampleIn(<<1, 1, 3>>)
ASSUME LET r == HeapRun(ExampleIn(<<1, 1, 3>>), <<1, 1, 3>>, ExampleHist, FALSE) IN
       r.rows # <<<<11, Gap, 12>>, <<11, Gap, 12>>, <<31, 32, 33>>>> /\ r.after # ExampleIn(<<1, 1, 3>>)
\* reordering by `order` itself (instead of its argsort) is a different function
ASSUME ArgSort(<<2, 3, 1>>) = <<3, 1, 2>>
ASSUME IsGlobalAln(<<<<0, Gap>>, <<1, 0>>, <<Gap, 1>>>>, 2, 2) /\ ~IsGlobalAln(<<<<0, 0>>, <<Gap, 1>>>>, 2, 2)
=============================================================================
