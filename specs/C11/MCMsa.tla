------------------------------- MODULE MCMsa -------------------------------
(* C11 S1/S2 for ProgressiveMsa: the forest machine.  Init: any 2..MaxSeqs inputs of lengths
   1..MaxLen (symbols are distinct tokens 10*k + p, so "row k is input k" is visible in the
   values); Merge: any two groups, any representatives, any global pairwise trace between the
   representatives' rows with at most MaxGapCols gap columns.  hist records the merges, so that
   every final state is one complete behaviour that S2 forces the real align_multiple through
   (guide tree = merge tree, distance matrix making (a, b) the closest pair, align_optimal
   answering with the recorded traces). *)
EXTENDS ProgressiveMsa, TLC

CONSTANTS MaxSeqs, MaxLen, MaxGapCols, MaxTotal

VARIABLES lens, F, hist
vars == <<lens, F, hist>>

InputsOf(l) == [k \in DOMAIN l |-> [p \in 1..l[k] |-> 10 * k + p]]
Inputs == InputsOf(lens)

Sum(l) == FoldLeft(LAMBDA a, x : a + x, 0, l)
Init ==
  /\ \E n \in 2..MaxSeqs : lens \in {l \in [1..n -> 1..MaxLen] : Sum(l) <= MaxTotal}
  /\ F = {Leaf(k, InputsOf(lens)[k]) : k \in DOMAIN lens}
  /\ hist = <<>>

Merge ==
  \E g1 \in F, g2 \in F :
    /\ g1 # g2
    /\ \E a \in ToSet(g1.idx), b \in ToSet(g2.idx) :
       \E aln \in {t \in GlobalAlns(RowLen(g1), RowLen(g2)) : GapColumns(t) <= MaxGapCols} :
         /\ F' = (F \ {g1, g2}) \cup {MergeGroups(g1, g2, aln)}
         /\ hist' = Append(hist, [a |-> a, b |-> b, tr |-> aln])
         /\ UNCHANGED lens

Next == Merge
Spec == Init /\ [][Next]_vars

Done == Cardinality(F) = 1
Final == CHOOSE g \in F : TRUE

(* ------------------------------------------------------------------ invariants *)
InvGroups == \A g \in F : GroupOK(Inputs, g)
\* the groups partition the inputs; every merge tree holds its group's inputs exactly once, in idx order
InvPartition ==
  /\ \A g, h \in F : g # h => ToSet(g.idx) \cap ToSet(h.idx) = {}
  /\ UNION {ToSet(g.idx) : g \in F} = DOMAIN lens
  /\ \A g \in F : TreeLeaves(g.tree) = g.idx /\ TreeBalanced(g.tree)
\* replaying the recorded merges from the leaves reproduces the forest (the replay used for
\* observed executions is the same machine)
InvReplay == LET r == Replay(Inputs, hist) IN r.ok /\ r.F = F
\* at the end: ArgSort reordering = "row of input k", and the postcondition of the call
InvFinal ==
  Done =>
    LET g == Final
        A == FinalAlignment(Inputs, g)
    IN /\ FinalRows(g) = FinalRowsDecl(g)
       /\ Codes(A) = FinalRows(g)
       /\ PostAll(Post(Inputs, A, [k \in DOMAIN g.idx |-> g.idx[k] - 1],
                       [k \in DOMAIN g.idx |-> TreeLeaves(g.tree)[k] - 1]))
\* reordering by `order` itself (instead of its argsort) is a different function
ASSUME ArgSort(<<2, 3, 1>>) = <<3, 1, 2>>
ASSUME IsGlobalAln(<<<<0, Gap>>, <<1, 0>>, <<Gap, 1>>>>, 2, 2) /\ ~IsGlobalAln(<<<<0, 0>>, <<Gap, 1>>>>, 2, 2)
=============================================================================
