------------------------------- MODULE MCCigar -------------------------------
(* C11 S1/S2 for Cigar: inputs are tagged
     <<"w", A, o>>                     write A with options o, read the result back
     <<"r", c, pos, refSeq, segSeq>>   read a CIGAR built by the specification, write it again
   One step computes the expected values (variable res). *)
EXTENDS Cigar, TLC

CONSTANTS MaxLen2,     \* pairwise alignments with contiguous rows, lengths 1..MaxLen2
          MaxLen3,     \* three-row alignments (every ordered pair of rows as reference/segment); 0: none
          MaxOps,      \* spec-built CIGARs: at most MaxOps operations of length 1..2
          Rich

VARIABLES inp, res, phase
vars == <<inp, res, phase>>

RefContent(n) == IF Rich /\ n = 2 THEN {<<0, 1>>, <<1, 1>>} ELSE {[k \in 1..n |-> k % 2]}
SegContent(n) ==
  CASE n = 1 -> IF Rich THEN {<<0>>, <<1>>} ELSE {<<1>>}
    [] n = 2 -> IF Rich THEN {<<0, 1>>, <<1, 1>>} ELSE {<<1, 1>>}
    [] n = 3 -> IF Rich THEN {<<0, 1, 0>>, <<1, 1, 0>>} ELSE {<<0, 0, 1>>}
    [] OTHER -> {[k \in 1..n |-> (k + 1) % 2]}

IntronSets == IF Rich THEN {<<>>, <<<<1, 2>>>>, <<<<0, 2>>>>, <<<<1, 3>>>>, <<<<2, 1>>>>, <<<<0, 1>>, <<2, 3>>>>}
              ELSE {<<>>, <<<<1, 2>>>>, <<<<0, 3>>>>, <<<<2, 1>>>>}

\* quick tier and three-row alignments: all boolean combinations without introns, introns only
\* with the plain options; thorough tier, two rows: the full product
OptSets(R) ==
  {Opts(p[1], p[2], i, d, h, t) :
     p \in {q \in (1..R) \X (1..R) : q[1] # q[2]}, i \in IntronSets, d \in BOOLEAN, h \in BOOLEAN, t \in BOOLEAN}
OptSetsFor(R) ==
  IF Rich /\ R = 2 THEN OptSets(R)
  ELSE {o \in OptSets(R) :
          /\ (o.introns = <<>> \/ (~o.distinguish /\ ~o.hard /\ (~o.terminal \/ o.introns = <<<<1, 2>>>>)))
          /\ (o.ref < o.seg \/ (o.introns = <<>> /\ ~o.distinguish /\ ~o.hard))}

RefSeqs == UNION {RefContent(n) : n \in 1..MaxLen2}
SegSeqs == UNION {SegContent(n) : n \in 1..MaxLen2}
Seqs3(l) == <<[k \in 1..l[1] |-> k % 2], [k \in 1..l[2] |-> (k + 1) % 2], [k \in 1..l[3] |-> 1]>>

OpLetters == {"M", "I", "D", "N", "S", "H", "=", "X", "P"}
Elems == {<<op, n>> : op \in OpLetters, n \in 1..2}
Elems1 == {<<op, 1>> : op \in {"M", "I", "D", "N", "S", "="}}
\* quick tier: the longest CIGARs only over the frequent operations with length 1
CigarsOfLen(k) == [1..k -> IF Rich \/ k < MaxOps THEN Elems ELSE Elems1]
RefPat(n) == [k \in 1..n |-> k % 2]
SegPat(n) == [k \in 1..n |-> IF k % 3 = 0 THEN 0 ELSE 1]

\* the inputs are enumerated by nested quantifiers (no big set is built)
IsInput(x) ==
  \/ \E a \in RefSeqs, b \in SegSeqs : \E t \in AllTraces(<<Len(a), Len(b)>>, FALSE) : \E o \in OptSetsFor(2) :
        x = <<"w", Aln(<<a, b>>, t), o>>
  \/ /\ MaxLen3 > 0
     /\ \E l \in [1..3 -> 1..MaxLen3] : \E t \in AllTraces(l, FALSE) : \E o \in OptSetsFor(3) :
          x = <<"w", Aln(Seqs3(l), t), o>>
  \/ \E k \in 0..MaxOps : \E c \in CigarsOfLen(k) : \E pos \in {0, 2}, extra \in {0, 1} :
        x = <<"r", c, pos, RefPat(pos + RefSpan(c) + extra), SegPat(SegSpan(c) + extra)>>

WResults(A, o) ==
  LET w == WriteCigar(A, o)
      rt == RoundTrip(A, o)
  IN [oc |-> w.oc, ops |-> w.ops,
      dom |-> Dom_CigarTrace(A, o),
      pos |-> IF w.oc = "ok" THEN PosOf(A, o) ELSE 0,
      stored |-> IF w.oc = "ok" THEN StoredSegment(A, o) ELSE <<>>,
      back |-> <<rt.oc, rt.A.seqs, rt.A.tr>>]

RResults(c, pos, refSeq, segSeq) ==
  LET r == ReadCigar(c, pos, refSeq, segSeq)
      fits == Dom_CigarFits(c, pos, refSeq, segSeq)
      canon == r.oc = "ok" /\ Dom_Canonical(c, pos, refSeq, segSeq)
  IN [oc |-> r.oc, tr |-> r.A.tr, fits |-> fits, canon |-> canon,
      opts |-> OptsOf(c, pos),
      again |-> IF canon THEN WriteCigar(r.A, OptsOf(c, pos)).ops ELSE <<>>]

Results(x) == IF x[1] = "w" THEN WResults(x[2], x[3]) ELSE RResults(x[2], x[3], x[4], x[5])

Init == IsInput(inp) /\ res = <<>> /\ phase = 0
Next == phase = 0 /\ phase' = 1 /\ res' = Results(inp) /\ UNCHANGED inp
Spec == Init /\ [][Next]_vars

(* ------------------------------------------------------------------ laws *)
IsW == phase = 1 /\ inp[1] = "w"
IsR == phase = 1 /\ inp[1] = "r"

\* reading what was written gives back exactly what the options are specified to keep
L_WriteRead ==
  IsW => LET A == inp[2]  o == inp[3]  w == WriteCigar(A, o) IN
         (Dom_CigarTrace(A, o) /\ w.oc = "ok") =>
           LET rt == RoundTrip(A, o) IN
           /\ rt.oc = "ok"
           /\ rt.A = Normalise(A, o)
           /\ ValidTrace(rt.A)
           \* without hard clipping and with terminal gaps kept, a two-row alignment comes back whole
           /\ (NRows(A) = 2 /\ o.ref = 1 /\ ~o.hard /\ o.terminal => rt.A = A)

\* the two ways of aggregating runs agree and lose nothing
L_Aggregate ==
  IsW => LET A == inp[2]  o == inp[3] IN
         SegCols(A, o.seg) # {} =>
           LET w == Window(A, o)
               ops == [k \in 1..(w.hi - w.lo + 1) |-> ColumnOp(A, o, w.lo + k - 1)]
           IN Rle(ops) = RleBoundaries(ops) /\ Expand(Rle(ops)) = ops

\* a written CIGAR is well formed: positive lengths, maximal runs, clips outermost,
\* it spans exactly the stored segment
L_WrittenWellFormed ==
  IsW => LET A == inp[2]  o == inp[3]  w == WriteCigar(A, o) IN
         w.oc = "ok" =>
           /\ \A k \in DOMAIN w.ops : w.ops[k][2] >= 1
           /\ \A k \in DOMAIN w.ops : IsClip(w.ops[k]) => k \in {1, Len(w.ops)}
           /\ \A k \in 1..(Len(Body(w.ops)) - 1) : Body(w.ops)[k][1] # Body(w.ops)[k + 1][1]
           /\ SegSpan(w.ops) = Len(StoredSegment(A, o))
           /\ (o.terminal \/ Body(w.ops)[1][1] \notin {"D", "N"})

\* every CIGAR that fits its sequences is parsed into a valid, contiguous trace
L_ReadValid ==
  IsR => LET c == inp[2]  r == ReadCigar(c, inp[3], inp[4], inp[5]) IN
         /\ (r.oc = "Rejected") = (\E k \in DOMAIN c : c[k][1] \in {"P", "B"})
         /\ (r.oc = "ok" /\ Dom_CigarFits(c, inp[3], inp[4], inp[5])) =>
              /\ ValidTrace(r.A) /\ Len(r.A.tr) = Len(Expand(Body(c)))
              /\ (Dom_ClipsOutside(c) => Contiguous(r.A))

\* writing what was read reproduces every CIGAR of the writer's image
L_ReadWrite ==
  IsR => LET c == inp[2]  r == ReadCigar(c, inp[3], inp[4], inp[5]) IN
         (r.oc = "ok" /\ Dom_Canonical(c, inp[3], inp[4], inp[5])) =>
           LET w == WriteCigar(r.A, OptsOf(c, inp[3])) IN w.oc = "ok" /\ w.ops = c
=============================================================================
