SPECIFICATION Spec
CONSTANTS
  MaxSeqs = 3
  MaxLen = 3
CHECK_DEADLOCK FALSE
