------------------------------- MODULE ProgressiveMsa -------------------------------
(* C11, part 3: progressive multiple alignment (biotite.sequence.align.align_multiple).

   A group is a sub-alignment  [idx |-> input numbers (1-based) in guide-tree order,
                                rows |-> their gapped rows (codes, Gap = -1), all of one length,
                                tree |-> the merge tree as a token sequence]
   Merge tree tokens: leaf k -> <<k>>, node(a, b) -> <<Open>> \o a \o b \o <<Close>>
   (Open = -1, Close = -2; a flat integer sequence, so trees of different shape are comparable).

   MergeGroups(g1, g2, a, b, aln): aln is ANY global pairwise trace between the current rows of
   the representatives a (in g1) and b (in g2) -- which alignment is optimal is C08's business.
   Every row of g1 receives the gaps of aln's first row, every row of g2 those of the second
   ("once a gap, always a gap"); ExpandRow is _replace_gaps as written (index look-up).
   FinalRows reorders by ArgSort(order) as the code does; Post is the property's postcondition. *)
EXTENDS AlignTrace

Open == -1
Close == -2

Leaf(k, s) == [idx |-> <<k>>, rows |-> <<s>>, tree |-> <<k>>]
RowLen(g) == Len(g.rows[1])
PosIn(s, x) == CHOOSE p \in DOMAIN s : s[p] = x
RowOf(g, k) == g.rows[PosIn(g.idx, k)]

(* ---- global pairwise traces between rows of lengths n and m: every index of both rows once,
        in order, no all-gap column ----------------------------------------------------------- *)
RECURSIVE GlobalFrom(_, _, _, _)
GlobalFrom(i, j, n, m) ==
  IF i = n /\ j = m THEN {<<>>}
  ELSE (IF i < n /\ j < m THEN {<<<<i, j>>>> \o t : t \in GlobalFrom(i + 1, j + 1, n, m)} ELSE {})
       \cup (IF i < n THEN {<<<<i, Gap>>>> \o t : t \in GlobalFrom(i + 1, j, n, m)} ELSE {})
       \cup (IF j < m THEN {<<<<Gap, j>>>> \o t : t \in GlobalFrom(i, j + 1, n, m)} ELSE {})
GlobalAlns(n, m) == GlobalFrom(0, 0, n, m)
GapColumns(t) == Cardinality({c \in DOMAIN t : t[c][1] = Gap \/ t[c][2] = Gap})

IsGlobalAln(t, n, m) ==
  /\ \A c \in DOMAIN t : Len(t[c]) = 2 /\ (t[c][1] # Gap \/ t[c][2] # Gap)
  /\ RowIdx(t, 1) = [k \in 1..n |-> k - 1]
  /\ RowIdx(t, 2) = [k \in 1..m |-> k - 1]

(* ---- _replace_gaps: new row position c takes the old symbol at index aln[c][side] --------- *)
ExpandRow(row, aln, side) == [c \in DOMAIN aln |-> IF aln[c][side] = Gap THEN Gap ELSE row[aln[c][side] + 1]]

MergeGroups(g1, g2, aln) ==
  [idx  |-> g1.idx \o g2.idx,
   rows |-> [k \in DOMAIN g1.rows |-> ExpandRow(g1.rows[k], aln, 1)]
            \o [k \in DOMAIN g2.rows |-> ExpandRow(g2.rows[k], aln, 2)],
   tree |-> <<Open>> \o g1.tree \o g2.tree \o <<Close>>]

(* ---- the end of align_multiple: reorder into input order, build the trace ---------------- *)
\* numpy.argsort of a sequence of distinct integers: position (1-based) of the k-th smallest
ArgSort(s) == [k \in DOMAIN s |-> CHOOSE p \in DOMAIN s : Cardinality({q \in DOMAIN s : s[q] < s[p]}) = k - 1]
FinalRows(g) == LET o == ArgSort(g.idx) IN [k \in DOMAIN o |-> g.rows[o[k]]]
FinalRowsDecl(g) == [k \in 1..Len(g.idx) |-> RowOf(g, k)]
FinalAlignment(inputs, g) == Aln(inputs, TraceFromStrings(FinalRows(g)))

(* ---- invariants of every group, and the postcondition of the call ------------------------- *)
GroupOK(inputs, g) ==
  /\ Len(g.idx) = Len(g.rows) /\ Cardinality(ToSet(g.idx)) = Len(g.idx)
  /\ \A k \in DOMAIN g.rows : Len(g.rows[k]) = RowLen(g)                  \* equal lengths
  /\ \A k \in DOMAIN g.rows : NonGap(g.rows[k]) = inputs[g.idx[k]]         \* gaps only inserted
  /\ \A c \in 1..RowLen(g) : \E k \in DOMAIN g.rows : g.rows[k][c] # Gap   \* no all-gap column

TreeLeaves(tree) == SelectSeq(tree, LAMBDA x : x >= 0)
\* well-formed binary tree token sequence (checked by a counter walk: never closes more than it opened)
TreeBalanced(tree) ==
  LET w == FoldLeft(LAMBDA acc, x : IF x = Open THEN [d |-> acc.d + 1, ok |-> acc.ok]
                                     ELSE IF x = Close THEN [d |-> acc.d - 1, ok |-> acc.ok /\ acc.d >= 1]
                                     ELSE acc,
                    [d |-> 0, ok |-> TRUE], tree)
  IN w.ok /\ w.d = 0
IsPermutationOf(s, S) == Len(s) = Cardinality(S) /\ ToSet(s) = S

\* Post: what the property promises about align_multiple(inputs) = (alignment, order, tree):
\*   A      returned alignment (sequences + trace), order0/leaves0 0-based as returned
Post(inputs, A, order0, leaves0) ==
  LET n == Len(inputs) IN
  [rowsPerInput |-> NRows(A) = n /\ A.seqs = inputs,                      \* one row per input, input order
   valid        |-> ValidTrace(A),
   complete     |-> Complete(A),                                          \* gap-stripped rows are the inputs
   orderPerm    |-> IsPermutationOf(order0, 0..(n - 1)),
   treeOnce     |-> IsPermutationOf(leaves0, 0..(n - 1))]
PostAll(p) == p.rowsPerInput /\ p.valid /\ p.complete /\ p.orderPerm /\ p.treeOnce

(* ---- known finding (recorded, not repaired: multiple.pyx cannot be rebuilt here) -----------
   With the default distance matrix, two identical inputs that consist of one repeated symbol
   make S = S_max = S_rand in the Feng-Doolittle distance: 0/0 -> ZeroDivisionError. *)
KB_C11_IdenticalHomopolymers(inputs) ==
  \E i, j \in DOMAIN inputs :
     i # j /\ inputs[i] = inputs[j] /\ \A p \in DOMAIN inputs[i] : inputs[i][p] = inputs[i][1]

(* ---- replay of observed merges (code -> spec) ---------------------------------------------
   merges: sequence of [a, b, tr]: representatives (1-based input numbers) and the pairwise trace
   the code obtained for them.  The replay fails (ok = FALSE) when a merge is not an action of
   this specification: a, b in the same group, or tr not a global trace of their current rows. *)
GroupOf(F, k) == CHOOSE g \in F : \E p \in DOMAIN g.idx : g.idx[p] = k
ReplayStep(acc, e) ==
  IF ~acc.ok THEN acc
  ELSE LET g1 == GroupOf(acc.F, e.a)  g2 == GroupOf(acc.F, e.b) IN
       IF g1 = g2 \/ ~IsGlobalAln(e.tr, RowLen(g1), RowLen(g2)) THEN [acc EXCEPT !.ok = FALSE]
       ELSE [ok |-> TRUE, F |-> (acc.F \ {g1, g2}) \cup {MergeGroups(g1, g2, e.tr)}]
Replay(inputs, merges) ==
  FoldLeft(ReplayStep, [ok |-> TRUE, F |-> {Leaf(k, inputs[k]) : k \in DOMAIN inputs}], merges)
(* ---- object identity of the inputs ---------------------------------------------------------
   `sequences` is a Python list: the caller may pass the very same Sequence object at several
   positions ("identical" sequences of the property's quantifier given as one object).
   objs[k] = first position that holds the object of position k (canonical labelling), so
   objs = <<1, 2, .., n>> means n distinct objects.  Same object => same content.
   The postcondition does not mention objs: the result must not depend on it, and the call
   must leave the caller's objects as they were (`after` = contents of the input objects when
   the call has returned; "rows equal the inputs" is meaningless if the inputs move). *)
ObjPatterns(n) == {o \in [1..n -> 1..n] : \A k \in 1..n : o[k] <= k /\ o[o[k]] = o[k]}
NoSharing(n) == [k \in 1..n |-> k]
Dom_Objs(inputs, objs) ==
  /\ Len(objs) = Len(inputs)
  /\ \A k \in DOMAIN objs : objs[k] \in 1..k /\ objs[objs[k]] = objs[k]
  /\ \A k \in DOMAIN objs : inputs[k] = inputs[objs[k]]
Shared(objs) == \E k \in DOMAIN objs : objs[k] # k
InputsUnchanged(inputs, after) == after = inputs

(* The progressive alignment as the code runs it: Sequence objects on a heap H (object number ->
   current code, Gap = the neutral gap symbol), groups hold REFERENCES.  Slots 1..n are the
   caller's objects (slot k is used when objs[k] = k), slots n+1..2n the copies made in the
   leaf case of _progressive_align.  A merge re-assigns `seq.code = _replace_gaps(...)` for every
   reference of both groups, one after the other (ExpandAll is that loop: an object referenced
   twice is expanded twice).  At the end the gapped codes are read, the gap symbols are
   stripped in place, rows are reordered by ArgSort(order).
   copy = TRUE is the design; copy = FALSE (leaf case returns the caller's object) is kept
   to show what the copy is for: HeapRun(.., FALSE) agrees with the value machine exactly when
   no object is shared or no gap is inserted (ASSUMEs in MCMsa). *)
ExpandAll(H, refs, aln, side) ==
  FoldLeft(LAMBDA h, r : [h EXCEPT ![r] = ExpandRow(h[r], aln, side)], H, refs)
HeapInit(inputs, objs, copy) ==
  LET n == Len(inputs) IN
  [H |-> IF copy THEN inputs \o [k \in 1..n |-> inputs[objs[k]]] ELSE inputs,
   F |-> {[idx |-> <<k>>, refs |-> <<IF copy THEN n + k ELSE objs[k]>>] : k \in 1..n}]
HeapStep(acc, e) ==
  LET g1 == GroupOf(acc.F, e.a)
      g2 == GroupOf(acc.F, e.b)
      H1 == ExpandAll(acc.H, g1.refs, e.tr, 1)
      H2 == ExpandAll(H1, g2.refs, e.tr, 2)
  IN [H |-> H2, F |-> (acc.F \ {g1, g2}) \cup {[idx |-> g1.idx \o g2.idx, refs |-> g1.refs \o g2.refs]}]
\* complete merge history (one group left) -> gapped rows in input order, Alignment.sequences,
\* and the caller's objects after the call
HeapRun(inputs, objs, hist, copy) ==
  LET r == FoldLeft(HeapStep, HeapInit(inputs, objs, copy), hist)
      g == CHOOSE x \in r.F : TRUE
      gapped == [k \in DOMAIN g.refs |-> r.H[g.refs[k]]]
      o == ArgSort(g.idx)
      Hs == FoldLeft(LAMBDA h, x : [h EXCEPT ![x] = NonGap(h[x])], r.H, g.refs)
  IN [rows  |-> [k \in DOMAIN o |-> gapped[o[k]]],
      seqs  |-> [k \in DOMAIN o |-> Hs[g.refs[o[k]]]],
      after |-> [k \in DOMAIN inputs |-> Hs[objs[k]]]]
=============================================================================
