------------------------------- MODULE AlignConv -------------------------------
(* C11, part 1b: the conversions of an alignment that go through SYMBOLS (letters) instead of
   codes, and the options of the FASTA reader.

   (a) Rows with different alphabets.  An Alignment is a list of Sequence objects and a trace; no
       call requires the rows to share an alphabet (align_optimal with a SubstitutionMatrix over
       two different alphabets produces such alignments).  A typed alignment is
           AA = [seqs, tr, kinds]      kinds[r] = the alphabet of row r (a name in Kinds)
       and a symbol is  Letter(kinds[r], code).  Per-row decoding is what get_symbols,
       get_gapped_sequences, str() and fasta.set_alignment have to do; get_codes, score and the
       identity helpers work on the codes of each row's own alphabet.

   (b) fasta.get_alignment(file, additional_gap_chars): every character of the option and '-'
       is a gap.  A FASTA text is a matrix of tokens: symbol code (>= 0), Gap (-1, the character
       '-'), or a further gap character AltChar(k) = -(k + 1), k = 1, 2, ..  (driver: "_", ".", ..).
       A further gap character that the option does not declare is not a symbol of any alphabet:
       the text is refused. *)
EXTENDS AlignTrace

(* ------------------------------------------------------------------ alphabets *)
Kinds == {"nuc", "amb", "prot", "gen", "let"}
\* nuc / amb: NucleotideSequence (unambiguous / ambiguous alphabet), prot: ProteinSequence,
\* gen: GeneralSequence over a plain Alphabet (decode_multiple gives a list),
\* let: GeneralSequence over a LetterAlphabet with lower-case letters and a non-letter
AlphabetOf(kind) ==
  CASE kind = "nuc"  -> <<"A", "C", "G", "T">>
    [] kind = "amb"  -> <<"A", "C", "G", "T", "R", "Y", "W", "S", "M", "K", "H", "B", "V", "D", "N">>
    [] kind = "prot" -> <<"A", "C", "D", "E", "F", "G", "H", "I", "K", "L", "M", "N", "P", "Q", "R", "S",
                          "T", "V", "W", "Y", "B", "Z", "X", "*">>
    [] kind = "gen"  -> <<"T", "G", "C", "A", "W">>
    [] kind = "let"  -> <<"t", "g", "c", "a", "+">>
GapChar == "-"
ASize(kind) == Len(AlphabetOf(kind))
Letter(kind, code) == AlphabetOf(kind)[code + 1]

\* an alphabet is a bijection code <-> symbol, and the gap character is no symbol
ASSUME \A k \in Kinds : Cardinality(ToSet(AlphabetOf(k))) = ASize(k) /\ GapChar \notin ToSet(AlphabetOf(k))

AlnK(seqs, tr, kinds) == [seqs |-> seqs, tr |-> tr, kinds |-> kinds]
Untyped(AA) == Aln(AA.seqs, AA.tr)
Dom_Kinds(AA) ==
  /\ Len(AA.kinds) = Len(AA.seqs)
  /\ \A r \in DOMAIN AA.seqs : AA.kinds[r] \in Kinds
       /\ \A k \in DOMAIN AA.seqs[r] : AA.seqs[r][k] \in 0..(ASize(AA.kinds[r]) - 1)
Uniform(AA) == \A r \in DOMAIN AA.kinds : AA.kinds[r] = AA.kinds[1]

LetterSeq(kind, s) == [k \in DOMAIN s |-> Letter(kind, s[k])]
LetterSeqs(AA) == [r \in DOMAIN AA.seqs |-> LetterSeq(AA.kinds[r], AA.seqs[r])]

(* ------------------------------------------------------------------ symbol matrices / gapped strings *)
\* declarative, and the shape of Alignment._gapped_str: cell by cell, the row's own alphabet
SymbolAt(AA, r, c) ==
  IF AA.tr[c][r] = Gap THEN GapChar ELSE Letter(AA.kinds[r], AA.seqs[r][AA.tr[c][r] + 1])
GappedStrings(AA) == [r \in DOMAIN AA.seqs |-> [c \in DOMAIN AA.tr |-> SymbolAt(AA, r, c)]]

\* get_symbols as written: per row, the codes without gaps are decoded together with the row's
\* alphabet and scattered back to the non-gap cells
SymbolsRow(kind, crow) ==
  LET dec == LetterSeq(kind, NonGap(crow)) IN
  FoldLeft(LAMBDA acc, c : IF crow[c] = Gap THEN [out |-> Append(acc.out, GapChar), n |-> acc.n]
                           ELSE [out |-> Append(acc.out, dec[acc.n + 1]), n |-> acc.n + 1],
           [out |-> <<>>, n |-> 0], [c \in DOMAIN crow |-> c]).out
Symbols(AA) == [r \in DOMAIN AA.seqs |-> SymbolsRow(AA.kinds[r], Codes(Untyped(AA))[r])]

\* str(alignment): blocks of at most W columns (textwrap, W = 70), every block all rows in order
StrWidth == 70
StrBlocks(G, W) ==
  LET m == IF Len(G) = 0 THEN 0 ELSE Len(G[1]) IN
  [b \in 1..CeilDiv(m, W) |-> [r \in DOMAIN G |-> SubSeq(G[r], (b - 1) * W + 1, Min2(b * W, m))]]

\* letters -> alignment (trace_from_strings + removal of the gap character)
LetterMask(L) == [r \in DOMAIN L |-> [c \in DOMAIN L[r] |-> IF L[r][c] = GapChar THEN Gap ELSE 0]]
FromGappedLetters(L) ==
  [seqs |-> [r \in DOMAIN L |-> SelectSeq(L[r], LAMBDA x : x # GapChar)], tr |-> TraceFromStrings(LetterMask(L))]

\* FASTA: get_alignment upper-cases, maps U / O / X and guesses the sequence type of every row:
\* letters it hands back unchanged
StableLetters == ToSet(AlphabetOf("prot")) \ {"X"}
Dom_FastaStable(AA) ==
  \A r \in DOMAIN AA.seqs : \A c \in DOMAIN AA.tr : SymbolAt(AA, r, c) \in StableLetters \cup {GapChar}
ThroughFasta(AA) == FromGappedLetters(GappedStrings(AA))

\* score(): one matrix M[a + 1][b + 1] for every pair of rows i < j: defined for two rows (matrix
\* over the two alphabets) or rows of one alphabet
Dom_ScoreKinds(AA) == Len(AA.seqs) = 2 \/ Uniform(AA)
\* identity helpers compare codes; the statement's "column-by-column recomputation" compares
\* symbols: judged where the two readings agree
Dom_CodesMeanSymbols(AA) ==
  \A c \in DOMAIN AA.tr : \A i, j \in DOMAIN AA.seqs :
     (AA.tr[c][i] # Gap /\ AA.tr[c][j] # Gap) =>
        ((CodeAt(Untyped(AA), i, c) = CodeAt(Untyped(AA), j, c)) <=> (SymbolAt(AA, i, c) = SymbolAt(AA, j, c)))

(* ------------------------------------------------------------------ FASTA reader options *)
AltChar(k) == -(k + 1)
IsAltChar(x) == x <= -2
Forms == <<"tuple", "list", "str">>           \* containers the option may be passed in (same meaning)
DefaultGapChars == <<AltChar(1)>>             \* the signature's default ("_",)

TextCols(G) == IF Len(G) = 0 THEN 0 ELSE Len(G[1])
ReplaceChar(G, ch) == [r \in DOMAIN G |-> [c \in DOMAIN G[r] |-> IF G[r][c] = ch THEN Gap ELSE G[r][c]]]
\* as written: one pass over all rows per declared character, each pass on the previous result
ReplaceGapChars(G, gc) == FoldLeft(LAMBDA acc, ch : ReplaceChar(acc, ch), G, gc)
ReplaceGapCharsDecl(G, gc) ==
  [r \in DOMAIN G |-> [c \in DOMAIN G[r] |-> IF G[r][c] \in ToSet(gc) THEN Gap ELSE G[r][c]]]

HasUndeclared(G, gc) == \E r \in DOMAIN G : \E c \in DOMAIN G[r] : IsAltChar(G[r][c]) /\ G[r][c] \notin ToSet(gc)

\* Dom_FastaText: equal-length rows, >= 1 column; when the text is accepted no column may consist of
\* gap characters only
Dom_FastaText(G, gc) ==
  /\ Len(G) >= 1 /\ GappedRowsWellFormed(G) /\ TextCols(G) >= 1
  /\ (HasUndeclared(G, gc) \/ Len(G) < 2
      \/ \A c \in 1..TextCols(G) : \E r \in DOMAIN G : ReplaceGapCharsDecl(G, gc)[r][c] # Gap)

FromFastaOpt(G, gc) ==
  LET H == ReplaceGapChars(G, gc) IN
  IF HasUndeclared(G, gc) \/ Len(G) < 2 THEN [oc |-> "Rejected", A |-> Aln(<<>>, <<>>)]
  ELSE [oc |-> "ok", A |-> FromGapped(H)]
=============================================================================
