SPECIFICATION Spec
CONSTANTS
  MaxSeqs = 3
  MaxLen = 2
CHECK_DEADLOCK FALSE
