------------------------------- MODULE AlignTrace -------------------------------
(* C11, part 1: alignment traces and their conversions (biotite.sequence.align.alignment,
   biotite.sequence.io.fasta.convert.get_alignment / set_alignment).

   An alignment is  A = [seqs |-> <<s_1 .. s_R>>, tr |-> <<col_1 .. col_m>>]
     s_r    sequence of symbol codes (small non-negative integers) of row r
     col_c  sequence of R entries: 0-based index into s_r, or Gap (-1)
   exactly the code's (m x R) trace array plus its list of sequences.

   Gapped strings, code matrices and symbol matrices are the same abstract value here:
   a sequence of R rows, each a sequence of m entries "symbol code or Gap" (the driver maps
   '-' / None / -1 to Gap and symbols to their codes).

   One operator per public call:
     Codes                    get_codes / get_symbols / Alignment.get_gapped_sequences
     TraceFromStrings         Alignment.trace_from_strings        (impl-shaped: running counters)
     FromGapped               fasta.get_alignment (strings -> sequences + trace)
     ToFasta / FromFasta      fasta.set_alignment / get_alignment
     IndexCols / IndexRC      Alignment.__getitem__  (1-D and 2-D, through PyIndex.Resolve)
     FindTerminalGaps         find_terminal_gaps     (impl: max of firsts / min of lasts)
     RemoveTerminalGaps, RemoveGaps
     Identity, PairwiseIdentity   get_sequence_identity / get_pairwise_sequence_identity
     Score                    score()                (impl-shaped scan with an in-gap flag)
   and declarative counterparts (…Decl) used by the S1 laws. *)
EXTENDS Integers, Sequences, FiniteSets, SequencesExt, FiniteSetsExt, PyIndex

Gap == -1

Aln(seqs, tr) == [seqs |-> seqs, tr |-> tr]
NRows(A) == Len(A.seqs)
NCols(A) == Len(A.tr)

Row(t, r)    == [c \in DOMAIN t |-> t[c][r]]                  \* one trace row, gaps included
NonGap(s)    == SelectSeq(s, LAMBDA x : x # Gap)
RowIdx(t, r) == NonGap(Row(t, r))                             \* the indices row r uses, in order
ColsOf(t, r) == {c \in DOMAIN t : t[c][r] # Gap}              \* columns (1-based) where row r is present

StrictlyIncreasing(s) == \A k \in 1..(Len(s) - 1) : s[k] < s[k + 1]
Consecutive(s)        == \A k \in 1..(Len(s) - 1) : s[k + 1] = s[k] + 1

(* ------------------------------------------------------------------ validity (the property) *)
NoAllGapColumn(t) == \A c \in DOMAIN t : \E r \in DOMAIN t[c] : t[c][r] # Gap

ValidTrace(A) ==
  /\ \A c \in DOMAIN A.tr : Len(A.tr[c]) = NRows(A)
  /\ NoAllGapColumn(A.tr)
  /\ \A r \in 1..NRows(A) :
       LET ix == RowIdx(A.tr, r) IN
       /\ StrictlyIncreasing(ix)
       /\ \A k \in DOMAIN ix : 0 <= ix[k] /\ ix[k] < Len(A.seqs[r])

\* like ValidTrace, but all-gap columns allowed (what a selection of rows leaves behind)
ValidSubTrace(A) ==
  /\ \A c \in DOMAIN A.tr : Len(A.tr[c]) = NRows(A)
  /\ \A r \in 1..NRows(A) :
       LET ix == RowIdx(A.tr, r) IN
       /\ StrictlyIncreasing(ix)
       /\ \A k \in DOMAIN ix : 0 <= ix[k] /\ ix[k] < Len(A.seqs[r])

\* every row uses all of its sequence (a global alignment): conversions lose nothing
Complete(A) == \A r \in 1..NRows(A) : RowIdx(A.tr, r) = [k \in 1..Len(A.seqs[r]) |-> k - 1]
\* every row uses a contiguous stretch (what alignment algorithms and CIGAR strings give)
Contiguous(A) == \A r \in 1..NRows(A) : Consecutive(RowIdx(A.tr, r))
Dom_RowsPresent(A) == \A r \in 1..NRows(A) : ColsOf(A.tr, r) # {}

(* ------------------------------------------------------------------ codes / gapped rows *)
CodeAt(A, r, c) == IF A.tr[c][r] = Gap THEN Gap ELSE A.seqs[r][A.tr[c][r] + 1]
Codes(A) == [r \in 1..NRows(A) |-> [c \in DOMAIN A.tr |-> CodeAt(A, r, c)]]

GappedRowsWellFormed(G) ==            \* Dom_Gapped: equal lengths
  \A r \in DOMAIN G : Len(G[r]) = Len(G[1])
Dom_Gapped(G) ==
  /\ Len(G) >= 2 /\ GappedRowsWellFormed(G)
  /\ \A c \in 1..Len(G[1]) : \E r \in DOMAIN G : G[r][c] # Gap

(* Alignment.trace_from_strings as written: one running counter per row, columns left to right *)
TfsStep(G, acc, c) ==
  LET R == Len(G) IN
  [cnt |-> [r \in 1..R |-> IF G[r][c] = Gap THEN acc.cnt[r] ELSE acc.cnt[r] + 1],
   tr  |-> Append(acc.tr, [r \in 1..R |-> IF G[r][c] = Gap THEN Gap ELSE acc.cnt[r]])]

TraceFromStrings(G) ==
  FoldLeft(LAMBDA acc, c : TfsStep(G, acc, c),
           [cnt |-> [r \in 1..Len(G) |-> 0], tr |-> <<>>],
           [c \in 1..Len(G[1]) |-> c]).tr

(* declarative: an entry is the number of symbols of the same row to its left *)
TraceFromStringsDecl(G) ==
  [c \in 1..Len(G[1]) |->
     [r \in 1..Len(G) |->
        IF G[r][c] = Gap THEN Gap ELSE Cardinality({d \in 1..(c - 1) : G[r][d] # Gap})]]

\* outcome of the public call: fewer than two rows are refused (documented ValueError)
TraceFromStringsCall(G) ==
  IF Len(G) < 2 THEN [oc |-> "Rejected", tr |-> <<>>]
  ELSE [oc |-> "ok", tr |-> TraceFromStrings(G)]

FromGapped(G) == Aln([r \in DOMAIN G |-> NonGap(G[r])], TraceFromStrings(G))

(* what conversion through gapped rows keeps of an alignment: the aligned symbols, renumbered *)
Compact(A) ==
  Aln([r \in 1..NRows(A) |-> LET ix == RowIdx(A.tr, r) IN [k \in DOMAIN ix |-> A.seqs[r][ix[k] + 1]]],
      [c \in DOMAIN A.tr |->
         [r \in 1..NRows(A) |->
            IF A.tr[c][r] = Gap THEN Gap ELSE Cardinality({d \in 1..(c - 1) : A.tr[d][r] # Gap})]])

(* FASTA: ordered entries <<name, gapped row>>; names are keys of a mapping *)
Dom_Names(names, A) == Len(names) = NRows(A) /\ Cardinality(ToSet(names)) = Len(names)
ToFasta(A, names) == [k \in 1..NRows(A) |-> <<names[k], Codes(A)[k]>>]
FromFasta(entries) == FromGapped([k \in DOMAIN entries |-> entries[k][2]])
\* get_alignment treats further characters as gaps (default "_"): token AltGap
AltGap == -2
ReplaceAltGaps(G) == [r \in DOMAIN G |-> [c \in DOMAIN G[r] |-> IF G[r][c] = AltGap THEN Gap ELSE G[r][c]]]
FromFastaAlt(entries) == FromGapped(ReplaceAltGaps([k \in DOMAIN entries |-> entries[k][2]]))

(* ------------------------------------------------------------------ indexing *)
PickSeq(s, pos) == [k \in DOMAIN pos |-> s[pos[k] + 1]]

\* alignment[idx]: columns only.  A bare integer is not an alignment index ("a single sequence or
\* alignment column cannot be selected"): refused.
IndexCols(A, idx) ==
  LET r == Resolve(idx, NCols(A)) IN
  IF idx[1] = "int" \/ ~r.ok THEN [oc |-> "Rejected", A |-> A]
  ELSE [oc |-> "ok", A |-> Aln(A.seqs, PickSeq(A.tr, r.pos))]
\* known finding (recorded, not repaired): alignment[int] is not refused, it returns an object whose
\* trace is one-dimensional
KB_C11_IntIndex1D(cidx, ridx) == cidx[1] = "int" /\ ridx[1] = "none"

\* alignment[cidx, ridx]; integers are refused (IndexError in the code; any exception counts);
\* Dom_Index2: at most one of the two is an index array / mask (numpy would pair them up)
Dom_Index2(cidx, ridx) == cidx[1] \in {"slice", "all"} \/ ridx[1] \in {"slice", "all"}
IndexRC(A, cidx, ridx) ==
  LET rc == Resolve(cidx, NCols(A))
      rr == Resolve(ridx, NRows(A))
  IN IF cidx[1] = "int" \/ ridx[1] = "int" \/ ~rc.ok \/ ~rr.ok
       THEN [oc |-> "Rejected", A |-> A]
       ELSE [oc |-> "ok",
             A |-> Aln(PickSeq(A.seqs, rr.pos),
                       [k \in DOMAIN rc.pos |-> PickSeq(A.tr[rc.pos[k] + 1], rr.pos)])]

\* selections that keep the order of columns keep validity of the rows
ForwardPos(pos) == StrictlyIncreasing(pos)

(* ------------------------------------------------------------------ terminal gaps *)
\* find_terminal_gaps as written: latest first symbol, earliest last symbol (0-based, stop exclusive)
FindTerminalGaps(A) ==
  IF ~Dom_RowsPresent(A) THEN [oc |-> "Rejected", start |-> 0, stop |-> 0]
  ELSE [oc |-> "ok",
        start |-> Max({Min(ColsOf(A.tr, r)) : r \in 1..NRows(A)}) - 1,
        stop  |-> Min({Max(ColsOf(A.tr, r)) : r \in 1..NRows(A)})]

\* declarative: column c (1-based) is terminal for row r when r has no symbol at or before c,
\* or none at or after c ("before the sequence starts / after it ends")
TerminalFor(t, r, c) == (\A d \in 1..c : t[d][r] = Gap) \/ (\A d \in c..Len(t) : t[d][r] = Gap)
NonTerminalCols(t, rows) == {c \in DOMAIN t : \A r \in rows : ~TerminalFor(t, r, c)}

RemoveTerminalGaps(A) ==
  LET f == FindTerminalGaps(A) IN
  IF f.oc # "ok" THEN [oc |-> "Rejected", A |-> A]
  ELSE IF f.stop < f.start THEN [oc |-> "Rejected", A |-> A]          \* documented ValueError
  ELSE IF f.stop = f.start THEN [oc |-> "EmptyOrRejected", A |-> Aln(A.seqs, <<>>)]
  ELSE [oc |-> "ok", A |-> Aln(A.seqs, SubSeq(A.tr, f.start + 1, f.stop))]

RemoveGaps(A) ==
  Aln(A.seqs, SelectSeq(A.tr, LAMBDA col : \A r \in DOMAIN col : col[r] # Gap))

(* ------------------------------------------------------------------ identity *)
Modes == {"all", "not_terminal", "shortest"}

ColumnCodes(A, c) == [r \in 1..NRows(A) |-> CodeAt(A, r, c)]
\* a column matches when all rows carry the same symbol and none is a gap
MatchColumn(cc) == cc[1] # Gap /\ \A r \in DOMAIN cc : cc[r] = cc[1]
Matches(A) == Cardinality({c \in DOMAIN A.tr : MatchColumn(ColumnCodes(A, c))})

Frac(oc, num, den) == <<oc, num, den>>
Rej == Frac("Rejected", 0, 1)

\* get_sequence_identity: a rational <<"ok", matches, length>>
Identity(A, mode) ==
  CASE mode = "all" -> IF NCols(A) = 0 THEN Rej ELSE Frac("ok", Matches(A), NCols(A))
    [] mode = "not_terminal" ->
         LET f == FindTerminalGaps(A) IN
         IF f.oc # "ok" \/ f.stop <= f.start THEN Rej         \* documented ValueError: no overlap
         ELSE Frac("ok", Matches(A), f.stop - f.start)
    [] mode = "shortest" ->
         LET m == Min({Len(A.seqs[r]) : r \in 1..NRows(A)}) IN
         IF m = 0 THEN Rej ELSE Frac("ok", Matches(A), m)
    [] OTHER -> Rej                                           \* invalid mode: ValueError

IdentityDenDecl(A, mode) ==
  CASE mode = "all" -> NCols(A)
    [] mode = "not_terminal" -> Cardinality(NonTerminalCols(A.tr, 1..NRows(A)))
    [] mode = "shortest" -> Min({Len(A.seqs[r]) : r \in 1..NRows(A)})

\* pairwise: matrix of <<num, den>>; the whole call is refused when one pair has no overlap
PairMatches(A, i, j) ==
  Cardinality({c \in DOMAIN A.tr : CodeAt(A, i, c) # Gap /\ CodeAt(A, i, c) = CodeAt(A, j, c)})
PairLength(A, i, j, mode) ==
  CASE mode = "all" -> NCols(A)
    [] mode = "not_terminal" -> Cardinality(NonTerminalCols(A.tr, {i, j}))
    [] mode = "shortest" -> Min2(Len(A.seqs[i]), Len(A.seqs[j]))
PairwiseIdentity(A, mode) ==
  LET R == NRows(A)
      len == [i \in 1..R |-> [j \in 1..R |-> PairLength(A, i, j, mode)]]
  IN IF mode \notin Modes \/ ~Dom_RowsPresent(A) \/ \E i, j \in 1..R : len[i][j] <= 0
       THEN [oc |-> "Rejected", m |-> <<>>]
       ELSE [oc |-> "ok", m |-> [i \in 1..R |-> [j \in 1..R |-> <<PairMatches(A, i, j), len[i][j]>>]]]

(* ------------------------------------------------------------------ score *)
\* M: substitution matrix as a sequence of rows, M[a + 1][b + 1] for codes a, b
SubstScore(A, M) ==
  LET pairs == SetToSeq({p \in (1..NRows(A)) \X (1..NRows(A)) : p[1] < p[2]})
      PairSum(c) ==
        FoldLeft(LAMBDA acc, p : IF CodeAt(A, p[1], c) # Gap /\ CodeAt(A, p[2], c) # Gap
                                   THEN acc + M[CodeAt(A, p[1], c) + 1][CodeAt(A, p[2], c) + 1] ELSE acc,
                 0, pairs)
  IN FoldLeft(LAMBDA acc, c : acc + PairSum(c), 0, [c \in DOMAIN A.tr |-> c])

\* the code's scan of one row between start (0-based) and stop (exclusive) with an "in gap" flag
GapScan(row, start, stop, go, ge) ==
  FoldLeft(LAMBDA acc, c :
             IF row[c] = Gap
               THEN [s |-> acc.s + (IF acc.g THEN ge ELSE go), g |-> TRUE]
               ELSE [s |-> acc.s, g |-> FALSE],
           [s |-> 0, g |-> FALSE],
           [k \in 1..(IF stop > start THEN stop - start ELSE 0) |-> start + k]).s

\* declarative: every maximal run of gaps inside the window costs one opening and (len-1) extensions
GapRunsDecl(row, start, stop, go, ge) ==
  LET W == {c \in DOMAIN row : start < c /\ c <= stop}
      gaps == {c \in W : row[c] = Gap}
      opens == {c \in gaps : c - 1 \notin gaps}
  IN Cardinality(opens) * go + (Cardinality(gaps) - Cardinality(opens)) * ge

ScoreWith(A, M, go, ge, terminal, Pen(_, _, _, _, _)) ==
  LET f == FindTerminalGaps(A)
      start == IF terminal THEN 0 ELSE f.start
      stop  == IF terminal THEN NCols(A) ELSE f.stop
  IN IF ~terminal /\ f.oc # "ok" THEN <<"Rejected", 0>>
     ELSE <<"ok", SubstScore(A, M)
                  + FoldLeft(LAMBDA acc, r : acc + Pen(Row(A.tr, r), start, stop, go, ge),
                             0, [r \in 1..NRows(A) |-> r])>>
Score(A, M, go, ge, terminal)     == ScoreWith(A, M, go, ge, terminal, GapScan)
ScoreDecl(A, M, go, ge, terminal) == ScoreWith(A, M, go, ge, terminal, GapRunsDecl)

(* ------------------------------------------------------------------ generators of valid traces *)
\* All valid traces over rows of lengths `lens`, continuing after the indices last[r] already
\* used (-1: row not started).  jump = TRUE: indices may skip (clipped ends, removed columns);
\* jump = FALSE: a row may start anywhere but then advances by one (local / global alignments).
RECURSIVE TracesFrom(_, _, _)
TracesFrom(last, lens, jump) ==
  LET R == Len(lens)
      Choice(r) == {Gap} \cup {i \in (last[r] + 1)..(lens[r] - 1) : jump \/ last[r] = -1 \/ i = last[r] + 1}
      cols == {col \in [1..R -> (-1)..(Max(ToSet(lens)) - 1)] :
                 (\A r \in 1..R : col[r] \in Choice(r)) /\ (\E r \in 1..R : col[r] # Gap)}
  IN {<<>>} \cup
     UNION {{<<col>> \o rest :
               rest \in TracesFrom([r \in 1..R |-> IF col[r] = Gap THEN last[r] ELSE col[r]], lens, jump)}
            : col \in cols}

AllTraces(lens, jump) == TracesFrom([r \in 1..Len(lens) |-> -1], lens, jump)
=============================================================================
