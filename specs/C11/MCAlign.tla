------------------------------- MODULE MCAlign -------------------------------
(* C11 S1/S2 for AlignTrace: Init enumerates every alignment in the bounds, one step computes
   the result of every public call on it (variable res: these are the expected values S2 compares
   the real functions with), the invariants are the laws of the property. *)
EXTENDS AlignTrace, TLC

CONSTANTS MaxLen2,      \* pairwise alignments: row lengths 1..MaxLen2, indices may jump
          MaxLen3,      \* three-row alignments: row lengths 1..MaxLen3 (0: none)
          Rich          \* TRUE: more symbol contents per length

VARIABLES inp, res, phase
vars == <<inp, res, phase>>

Content(n) ==
  CASE n = 1 -> {<<0>>, <<1>>}
    [] n = 2 -> IF Rich THEN {<<0, 1>>, <<1, 1>>, <<1, 0>>} ELSE {<<0, 1>>, <<1, 1>>}
    [] n = 3 -> IF Rich THEN {<<0, 1, 0>>, <<1, 1, 0>>, <<0, 0, 1>>} ELSE {<<0, 1, 0>>, <<1, 1, 0>>}
    [] n = 4 -> {<<0, 1, 1, 0>>, <<1, 1, 0, 1>>}
    [] OTHER -> {[k \in 1..n |-> k % 2]}

SeqsUpto(n) == UNION {Content(k) : k \in 1..n}

Short(S) == {x \in S : Len(x) <= MaxLen3}
\* the inputs are enumerated by nested quantifiers (no big set is built)
IsInput(x) ==
  \/ \E a \in SeqsUpto(MaxLen2), b \in SeqsUpto(MaxLen2) : \E t \in AllTraces(<<Len(a), Len(b)>>, TRUE) :
        x = Aln(<<a, b>>, t)
  \/ /\ MaxLen3 > 0
     /\ \E a \in Short({<<0>>, <<1>>, <<0, 1>>, <<1, 1>>, <<0, 1, 0>>}), b \in Short({<<1>>, <<0, 1>>, <<1, 0, 1>>}),
           c \in Short({<<0>>, <<1, 1>>}) : \E t \in AllTraces(<<Len(a), Len(b), Len(c)>>, TRUE) :
          x = Aln(<<a, b, c>>, t)

(* ---- fixed parameters of the helper calls (part of the expected values) ---- *)
SubstM == <<<<2, -1>>, <<-3, 1>>>>          \* asymmetric on purpose: M[a][b] and M[b][a] differ
ScoreCases == <<<<-2, -2, TRUE>>, <<-3, -1, TRUE>>, <<-3, -1, FALSE>>, <<-2, -2, FALSE>>>>
ModeSeq == <<"all", "not_terminal", "shortest">>

AltMask(n) == [k \in 1..n |-> k % 2 = 1]
Idx1Cases(nc) ==
  <<<<"slice", <<Some(1), None, None>>>>, <<"slice", <<None, Some(-1), None>>>>,
    <<"slice", <<None, None, Some(2)>>>>, <<"slice", <<Some(0), Some(2), None>>>>,
    <<"mask", AltMask(nc)>>, <<"mask", AltMask(nc + 1)>>,
    <<"arr", IF nc >= 2 THEN <<0, nc - 1>> ELSE <<>>>>, <<"arr", <<nc>>>>, <<"arr", <<-1>>>>, <<"all", <<>>>>, <<"int", <<0>>>>>>
Idx2Cases(nc, nr) ==
  <<<<<<"all", <<>>>>, <<"slice", <<Some(0), Some(1), None>>>>>>,
    <<<<"slice", <<Some(1), None, None>>>>, <<"arr", <<1, 0>>>>>>,
    <<<<"mask", AltMask(nc)>>, <<"all", <<>>>>>>,
    <<<<"all", <<>>>>, <<"mask", AltMask(nr)>>>>,
    <<<<"all", <<>>>>, <<"arr", <<0, 0>>>>>>,
    <<<<"all", <<>>>>, <<"arr", <<nr - 1, -nr>>>>>>,
    <<<<"slice", <<None, Some(-1), None>>>>, <<"slice", <<Some(1), None, None>>>>>>,
    <<<<"int", <<0>>>>, <<"all", <<>>>>>>,
    <<<<"all", <<>>>>, <<"int", <<0>>>>>>,
    <<<<"all", <<>>>>, <<"arr", <<nr>>>>>>>>

Names(A) == [k \in 1..NRows(A) |-> k]       \* header k is written as "s<k>"

Results(A) ==
  LET f  == FindTerminalGaps(A)
      rt == RemoveTerminalGaps(A)
      i1 == Idx1Cases(NCols(A))
      i2 == Idx2Cases(NCols(A), NRows(A))
  IN [dom   |-> Dom_RowsPresent(A),       \* domain of the terminal-gap / identity / score helpers
      codes |-> Codes(A),
      back  |-> FromGapped(Codes(A)),
      fasta |-> FromFasta(ToFasta(A, Names(A))),
      term  |-> <<f.oc, f.start, f.stop>>,
      rterm |-> <<rt.oc, rt.A.tr>>,
      rgaps |-> RemoveGaps(A).tr,
      ident |-> [k \in 1..3 |-> Identity(A, ModeSeq[k])],
      pident |-> [k \in 1..3 |-> LET p == PairwiseIdentity(A, ModeSeq[k]) IN <<p.oc, p.m>>],
      score |-> [k \in DOMAIN ScoreCases |->
                   Score(A, SubstM, ScoreCases[k][1], ScoreCases[k][2], ScoreCases[k][3])],
      idx1c |-> i1,
      idx1  |-> [k \in DOMAIN i1 |-> LET r == IndexCols(A, i1[k]) IN <<r.oc, r.A.seqs, r.A.tr>>],
      idx2c |-> i2,
      idx2  |-> [k \in DOMAIN i2 |-> LET r == IndexRC(A, i2[k][1], i2[k][2]) IN <<r.oc, r.A.seqs, r.A.tr>>]]

Init == IsInput(inp) /\ res = <<>> /\ phase = 0
Next == phase = 0 /\ phase' = 1 /\ res' = Results(inp) /\ UNCHANGED inp
Spec == Init /\ [][Next]_vars

(* ------------------------------------------------------------------ laws (S1) *)
A0 == inp
G0 == Codes(inp)

B_L_GeneratorValid == ValidTrace(A0)

\* trace_from_strings: running counters = "symbols to the left"
B_L_TfsImplIsDecl == TraceFromStrings(G0) = TraceFromStringsDecl(G0)

\* gapped strings / code matrix / symbol matrix / FASTA and back: the aligned part, renumbered;
\* nothing is lost when every row is aligned completely; the reverse composition is the identity
B_L_RoundTrip ==
  /\ FromGapped(G0) = Compact(A0)
  /\ (Complete(A0) => Compact(A0) = A0)
  /\ Codes(FromGapped(G0)) = G0
  /\ ValidTrace(Compact(A0)) /\ Complete(Compact(A0))
  /\ FromFasta(ToFasta(A0, Names(A0))) = Compact(A0)

\* terminal gaps: the interval [start, stop) is exactly the set of columns that are terminal for no row
B_L_Terminal ==
  Dom_RowsPresent(A0) =>
    LET f == FindTerminalGaps(A0) IN
    /\ f.oc = "ok"
    /\ NonTerminalCols(A0.tr, 1..NRows(A0)) = (f.start + 1)..f.stop
    /\ LET rt == RemoveTerminalGaps(A0) IN
       /\ ValidTrace(rt.A)
       \* the kept columns are exactly the non-terminal ones, in order (removal is not idempotent:
       \* a row whose first symbol sat in a removed column starts later in the result)
       /\ rt.oc = "ok" =>
            rt.A.tr = [k \in 1..(f.stop - f.start) |-> A0.tr[f.start + k]]
       /\ (NRows(A0) = 2 => rt.oc # "Rejected")          \* two rows: stop < start cannot happen

B_L_RemoveGaps ==
  LET B == RemoveGaps(A0) IN
  /\ ValidTrace(B)
  /\ \A c \in DOMAIN B.tr : \A r \in DOMAIN B.tr[c] : B.tr[c][r] # Gap
  /\ RemoveGaps(B) = B
  /\ ToSet(B.tr) = {A0.tr[c] : c \in {d \in DOMAIN A0.tr : \A r \in 1..NRows(A0) : A0.tr[d][r] # Gap}}

B_L_Identity ==
  \A k \in 1..3 :
    LET x == Identity(A0, ModeSeq[k]) IN
    x[1] = "ok" => /\ x[3] = IdentityDenDecl(A0, ModeSeq[k])
                   /\ 0 <= x[2] /\ x[2] <= x[3] /\ x[3] > 0

B_L_Pairwise ==
  \A k \in 1..3 :
    LET p == PairwiseIdentity(A0, ModeSeq[k]) IN
    p.oc = "ok" =>
      /\ \A i, j \in 1..NRows(A0) : p.m[i][j] = p.m[j][i] /\ p.m[i][j][1] <= p.m[i][j][2]
      /\ (NRows(A0) = 2 /\ Identity(A0, ModeSeq[k])[1] = "ok" =>
            p.m[1][2] = <<Identity(A0, ModeSeq[k])[2], Identity(A0, ModeSeq[k])[3]>>)

\* the flag-driven scan charges exactly "one opening per run, one extension per further column"
B_L_Score ==
  \A k \in DOMAIN ScoreCases :
    Score(A0, SubstM, ScoreCases[k][1], ScoreCases[k][2], ScoreCases[k][3])
      = ScoreDecl(A0, SubstM, ScoreCases[k][1], ScoreCases[k][2], ScoreCases[k][3])

\* selections: forward column selections of all rows stay valid; row selections stay valid up to
\* all-gap columns
B_L_Index ==
  /\ \A k \in DOMAIN Idx1Cases(NCols(A0)) :
       LET ix == Idx1Cases(NCols(A0))[k]  r == IndexCols(A0, ix) IN
       r.oc = "ok" /\ ForwardPos(Resolve(ix, NCols(A0)).pos) => ValidTrace(r.A)
  /\ \A k \in DOMAIN Idx2Cases(NCols(A0), NRows(A0)) :
       LET ix == Idx2Cases(NCols(A0), NRows(A0))[k]  r == IndexRC(A0, ix[1], ix[2]) IN
       /\ Dom_Index2(ix[1], ix[2])
       /\ r.oc = "ok" /\ ForwardPos(Resolve(ix[1], NCols(A0)).pos) => ValidSubTrace(r.A)

\* the laws are evaluated on the computed states only (phase 1: generated by the parallel workers)
L_GeneratorValid == phase = 1 => B_L_GeneratorValid
L_TfsImplIsDecl == phase = 1 => B_L_TfsImplIsDecl
L_RoundTrip == phase = 1 => B_L_RoundTrip
L_Terminal == phase = 1 => B_L_Terminal
L_RemoveGaps == phase = 1 => B_L_RemoveGaps
L_Identity == phase = 1 => B_L_Identity
L_Pairwise == phase = 1 => B_L_Pairwise
L_Score == phase = 1 => B_L_Score
L_Index == phase = 1 => B_L_Index

ASSUME TraceFromStrings(<<<<0, 1, Gap, 1>>, <<Gap, 1, 1, 0>>>>) = <<<<0, Gap>>, <<1, 0>>, <<Gap, 1>>, <<2, 2>>>>
\* docstring example of find_terminal_gaps: (5, 12)
ASSUME LET t == [c \in 1..15 |-> <<IF c <= 12 THEN c - 1 ELSE Gap,
                                   IF c <= 2 \/ c = 9 \/ c >= 14 THEN Gap ELSE IF c < 9 THEN c - 3 ELSE c - 4,
                                   IF c <= 5 THEN Gap ELSE c - 6>>]
           f == FindTerminalGaps(Aln(<<[k \in 1..12 |-> 0], [k \in 1..10 |-> 0], [k \in 1..10 |-> 0]>>, t))
       IN f.start = 5 /\ f.stop = 12
=============================================================================
