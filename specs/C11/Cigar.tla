------------------------------- MODULE Cigar -------------------------------
(* C11, part 2: CIGAR strings (biotite.sequence.align.cigar).

   A CIGAR is a sequence of <<op, length>> with op one of
     "M" "I" "D" "N" "S" "H" "P" "=" "X" "B"      (the driver maps them to CigarOp / letters)

   WriteCigar  = write_alignment_to_cigar, shaped like the code:
                 trim terminal segment gaps (unless include_terminal_gaps) -> one operation per
                 column -> introns -> '=' / 'X' -> aggregate consecutive -> add clips.
   ReadCigar   = read_alignment_from_cigar, the walk with counters (refPos, segPos).
   Normalise   = what the options are specified to discard, i.e. the value the round trip
                 Read(Write(A, opts), pos) must return.                                        *)
EXTENDS AlignTrace

Ops == {"M", "I", "D", "N", "S", "H", "P", "=", "X", "B"}

Opts(ref, seg, introns, distinguish, hard, terminal) ==
  [ref |-> ref, seg |-> seg, introns |-> introns, distinguish |-> distinguish, hard |-> hard,
   terminal |-> terminal]

Fail == [oc |-> "Rejected", ops |-> <<>>]

(* ---- aggregate consecutive equal operations ------------------------------------------- *)
\* as a fold: extend the last run or open a new one
Rle(ops) ==
  FoldLeft(LAMBDA acc, o : IF acc # <<>> /\ Last(acc)[1] = o
                             THEN Append(Front(acc), <<o, Last(acc)[2] + 1>>)
                             ELSE Append(acc, <<o, 1>>),
           <<>>, ops)

\* as the code does it (_aggregate_consecutive): positions where the operation changes
RleBoundaries(ops) ==
  LET starts == SetToSortSeq({1} \cup {k + 1 : k \in {j \in 1..(Len(ops) - 1) : ops[j] # ops[j + 1]}},
                             LAMBDA a, b : a < b)
      ends == Append(Tail(starts), Len(ops) + 1)
  IN [k \in DOMAIN starts |-> <<ops[starts[k]], ends[k] - starts[k]>>]

Expand(c) == FlattenSeq([k \in DOMAIN c |-> [j \in 1..c[k][2] |-> c[k][1]]])

(* ---- writer ----------------------------------------------------------------------------- *)
SegCols(A, seg) == ColsOf(A.tr, seg)

\* the columns that are written: all, or from the first to the last segment symbol
Window(A, o) ==
  IF o.terminal THEN [lo |-> 1, hi |-> NCols(A)]
  ELSE [lo |-> Min(SegCols(A, o.seg)), hi |-> Max(SegCols(A, o.seg))]

IntronsWellFormed(introns) == \A k \in DOMAIN introns : introns[k][1] < introns[k][2] /\ introns[k][1] >= 0
InIntron(introns, i) == \E k \in DOMAIN introns : introns[k][1] <= i /\ i < introns[k][2]

ColumnOp(A, o, c) ==
  LET col == A.tr[c]
      base == IF col[o.ref] = Gap THEN "I" ELSE IF col[o.seg] = Gap THEN "D" ELSE "M"
      withIntron == IF col[o.ref] # Gap /\ InIntron(o.introns, col[o.ref]) THEN "N" ELSE base
  IN IF withIntron = "M" /\ o.distinguish
       THEN (IF A.seqs[o.ref][col[o.ref] + 1] = A.seqs[o.seg][col[o.seg] + 1] THEN "=" ELSE "X")
       ELSE withIntron

ClipOp(o) == IF o.hard THEN "H" ELSE "S"
StartClip(A, o) == A.tr[Min(SegCols(A, o.seg))][o.seg]
EndClip(A, o)   == Len(A.seqs[o.seg]) - A.tr[Max(SegCols(A, o.seg))][o.seg] - 1

WriteCigar(A, o) ==
  IF SegCols(A, o.seg) = {} THEN Fail                       \* no aligned segment base: refused
  ELSE
    LET w == Window(A, o)
        cols == [k \in 1..(w.hi - w.lo + 1) |-> w.lo + k - 1]
    IN IF \E k \in DOMAIN cols : A.tr[cols[k]][o.ref] = Gap /\ A.tr[cols[k]][o.seg] = Gap
         THEN Fail                                          \* insertion and deletion in one column
       ELSE IF ~IntronsWellFormed(o.introns) THEN Fail
       ELSE IF \E k \in DOMAIN cols :                       \* introns must lie in reference-only columns
                 LET col == A.tr[cols[k]] IN
                 col[o.ref] # Gap /\ InIntron(o.introns, col[o.ref]) /\ col[o.seg] # Gap
         THEN Fail
       ELSE
         LET body == Rle([k \in DOMAIN cols |-> ColumnOp(A, o, cols[k])])
             sc == StartClip(A, o)
             ec == EndClip(A, o)
         IN [oc |-> "ok",
             ops |-> (IF sc # 0 THEN <<<<ClipOp(o), sc>>>> ELSE <<>>) \o body
                     \o (IF ec # 0 THEN <<<<ClipOp(o), ec>>>> ELSE <<>>)]

(* ---- reader ----------------------------------------------------------------------------- *)
ReadStep(acc, e) ==
  LET op == e[1]  n == e[2] IN
  CASE op \in {"M", "=", "X"} ->
         [acc EXCEPT !.tr = acc.tr \o [k \in 1..n |-> <<acc.rp + k - 1, acc.sp + k - 1>>],
                     !.rp = acc.rp + n, !.sp = acc.sp + n]
    [] op = "I" ->
         [acc EXCEPT !.tr = acc.tr \o [k \in 1..n |-> <<Gap, acc.sp + k - 1>>], !.sp = acc.sp + n]
    [] op \in {"D", "N"} ->
         [acc EXCEPT !.tr = acc.tr \o [k \in 1..n |-> <<acc.rp + k - 1, Gap>>], !.rp = acc.rp + n]
    [] op = "S" -> [acc EXCEPT !.sp = acc.sp + n]
    [] op = "H" -> acc
    [] OTHER -> [acc EXCEPT !.bad = TRUE]                   \* P, B: not implemented (ValueError)

ReadCigar(c, pos, refSeq, segSeq) ==
  LET r == FoldLeft(ReadStep, [tr |-> <<>>, rp |-> pos, sp |-> 0, bad |-> FALSE], c) IN
  IF r.bad THEN [oc |-> "Rejected", A |-> Aln(<<refSeq, segSeq>>, <<>>)]
  ELSE [oc |-> "ok", A |-> Aln(<<refSeq, segSeq>>, r.tr)]

\* what a CIGAR consumes
RefSpan(c) == FoldLeft(LAMBDA a, e : IF e[1] \in {"M", "=", "X", "D", "N"} THEN a + e[2] ELSE a, 0, c)
SegSpan(c) == FoldLeft(LAMBDA a, e : IF e[1] \in {"M", "=", "X", "I", "S"} THEN a + e[2] ELSE a, 0, c)
Dom_CigarFits(c, pos, refSeq, segSeq) ==
  /\ \A k \in DOMAIN c : c[k][2] >= 1
  /\ pos >= 0 /\ pos + RefSpan(c) <= Len(refSeq) /\ SegSpan(c) <= Len(segSeq)

\* clips stand at the ends (possibly several): only then the segment row is contiguous
Dom_ClipsOutside(c) ==
  \A k \in DOMAIN c : c[k][1] \in {"S", "H"} =>
     (\A j \in 1..k : c[j][1] \in {"S", "H"}) \/ (\A j \in k..Len(c) : c[j][1] \in {"S", "H"})

(* ---- the round trip --------------------------------------------------------------------- *)
\* the domain of the writer's round trip: reference and segment rows advance by one inside the
\* written window (a CIGAR cannot express a jump), and the segment has an aligned base
Dom_CigarTrace(A, o) ==
  /\ o.ref # o.seg /\ o.ref \in 1..NRows(A) /\ o.seg \in 1..NRows(A)
  /\ SegCols(A, o.seg) # {}
  /\ LET w == Window(A, o)
         sub == SubSeq(A.tr, w.lo, w.hi)
     IN Consecutive(RowIdx(sub, o.ref)) /\ Consecutive(RowIdx(sub, o.seg))

\* POS of the record: the first reference position of the written window (0 when the window has none)
PosOf(A, o) ==
  LET w == Window(A, o)
      ix == RowIdx(SubSeq(A.tr, w.lo, w.hi), o.ref)
  IN IF ix = <<>> THEN 0 ELSE ix[1]

\* the segment as stored next to the CIGAR: hard-clipped bases are absent
StoredSegment(A, o) ==
  IF o.hard THEN SubSeq(A.seqs[o.seg], StartClip(A, o) + 1, Len(A.seqs[o.seg]) - EndClip(A, o))
  ELSE A.seqs[o.seg]

Normalise(A, o) ==
  LET w == Window(A, o)
      shift == IF o.hard THEN StartClip(A, o) ELSE 0
  IN Aln(<<A.seqs[o.ref], StoredSegment(A, o)>>,
         [k \in 1..(w.hi - w.lo + 1) |->
            LET col == A.tr[w.lo + k - 1] IN
            <<col[o.ref], IF col[o.seg] = Gap THEN Gap ELSE col[o.seg] - shift>>])

RoundTrip(A, o) ==
  LET w == WriteCigar(A, o) IN
  IF w.oc # "ok" THEN [oc |-> "Rejected", A |-> Aln(<<>>, <<>>)]
  ELSE ReadCigar(w.ops, PosOf(A, o), A.seqs[o.ref], StoredSegment(A, o))

(* ---- CIGARs the writer can emit (for Write(Read(c)) = c) --------------------------------- *)
IsClip(e) == e[1] \in {"S", "H"}
Body(c) == SelectSeq(c, LAMBDA e : ~IsClip(e))
Dom_Canonical(c, pos, refSeq, segSeq) ==
  /\ Dom_CigarFits(c, pos, refSeq, segSeq)
  /\ SegSpan(c) = Len(segSeq)                                   \* the end clip is what remains
  /\ \A k \in 1..(Len(c) - 1) : c[k][1] # c[k + 1][1]           \* runs are maximal
  /\ \A k \in DOMAIN c : c[k][1] \in {"M", "I", "D", "N", "S", "=", "X"}
  /\ \A k \in DOMAIN c : c[k][1] = "S" => k \in {1, Len(c)}     \* soft clips only at the ends
  /\ \E k \in DOMAIN c : c[k][1] \in {"M", "=", "X", "I"}       \* an aligned segment base exists
  /\ ~((\E k \in DOMAIN c : c[k][1] = "M") /\ (\E k \in DOMAIN c : c[k][1] \in {"=", "X"}))
  /\ LET A == ReadCigar(c, pos, refSeq, segSeq).A IN            \* '=' / 'X' tell the truth
     \A k \in DOMAIN A.tr :
       Expand(Body(c))[k] \in {"=", "X"} =>
         ((Expand(Body(c))[k] = "=") = (refSeq[A.tr[k][1] + 1] = segSeq[A.tr[k][2] + 1]))

\* the options under which the writer reproduces c
IntronsOf(c, pos) ==
  LET walk == FoldLeft(LAMBDA acc, e :
                         [rp |-> IF e[1] \in {"M", "=", "X", "D", "N"} THEN acc.rp + e[2] ELSE acc.rp,
                          ins |-> IF e[1] = "N" THEN Append(acc.ins, <<acc.rp, acc.rp + e[2]>>) ELSE acc.ins],
                       [rp |-> pos, ins |-> <<>>], c)
  IN walk.ins
OptsOf(c, pos) ==
  Opts(1, 2, IntronsOf(c, pos), \E k \in DOMAIN c : c[k][1] \in {"=", "X"}, FALSE, TRUE)

\* docstring examples
ASSUME Rle(<<"M", "M", "D", "M">>) = <<<<"M", 2>>, <<"D", 1>>, <<"M", 1>>>>
ASSUME RleBoundaries(<<"M", "M", "D", "M">>) = Rle(<<"M", "M", "D", "M">>)
ASSUME ReadCigar(<<<<"S", 1>>, <<"M", 2>>, <<"D", 1>>, <<"I", 1>>>>, 3, <<0,0,0,0,0,0,0>>, <<0,0,0,0>>).A.tr
         = <<<<3, 1>>, <<4, 2>>, <<5, Gap>>, <<Gap, 3>>>>
=============================================================================
