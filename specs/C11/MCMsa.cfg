SPECIFICATION Spec
CONSTANTS
  Aliasing = TRUE
  MaxSeqs = 3
  MaxLen = 2
  MaxGapCols = 2
  MaxTotal = 5
INVARIANT InvGroups
INVARIANT InvPartition
INVARIANT InvReplay
INVARIANT InvFinal
INVARIANT InvObjects
CHECK_DEADLOCK FALSE
