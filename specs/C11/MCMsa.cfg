SPECIFICATION Spec
CONSTANTS
  MaxSeqs = 3
  MaxLen = 2
  MaxGapCols = 2
  MaxTotal = 5
INVARIANT InvGroups
INVARIANT InvPartition
INVARIANT InvReplay
INVARIANT InvFinal
CHECK_DEADLOCK FALSE
