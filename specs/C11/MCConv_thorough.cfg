SPECIFICATION Spec
CONSTANTS
  MaxLenK = 3
  MaxLenK3 = 1
  Kinds3 = {"nuc", "amb", "prot", "gen", "let"}
  MaxColsF = 3
  MaxColsF3 = 1
  Rich = TRUE
INVARIANT L_GeneratorValid
INVARIANT L_Symbols
INVARIANT L_LettersRoundTrip
INVARIANT L_StrBlocks
INVARIANT L_FastaOpt
INVARIANT L_FastaStable
CHECK_DEADLOCK FALSE
