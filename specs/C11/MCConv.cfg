SPECIFICATION Spec
CONSTANTS
  MaxLenK = 2
  MaxLenK3 = 1
  Kinds3 = {"nuc", "prot", "gen"}
  MaxColsF = 2
  MaxColsF3 = 0
  Rich = FALSE
INVARIANT L_GeneratorValid
INVARIANT L_Symbols
INVARIANT L_LettersRoundTrip
INVARIANT L_StrBlocks
INVARIANT L_FastaOpt
INVARIANT L_FastaStable
CHECK_DEADLOCK FALSE
