SPECIFICATION Spec
CONSTANTS
  MaxLen2 = 3
  MaxLen3 = 1
  MaxOps = 3
  Rich = FALSE
INVARIANT L_WriteRead
INVARIANT L_Aggregate
INVARIANT L_WrittenWellFormed
INVARIANT L_ReadValid
INVARIANT L_ReadWrite
CHECK_DEADLOCK FALSE
