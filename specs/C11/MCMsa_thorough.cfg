SPECIFICATION Spec
CONSTANTS
  Aliasing = TRUE
  MaxSeqs = 4
  MaxLen = 2
  MaxGapCols = 1
  MaxTotal = 6
INVARIANT InvGroups
INVARIANT InvPartition
INVARIANT InvReplay
INVARIANT InvFinal
INVARIANT InvObjects
CHECK_DEADLOCK FALSE
