SPECIFICATION Spec
CONSTANTS
  MaxSeqs = 4
  MaxLen = 2
  MaxGapCols = 1
  MaxTotal = 6
INVARIANT InvGroups
INVARIANT InvPartition
INVARIANT InvReplay
INVARIANT InvFinal
CHECK_DEADLOCK FALSE
