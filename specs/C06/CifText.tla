------------------------------- MODULE CifText -------------------------------
(* C06, first sentence: the CIF text layer of biotite.structure.io.pdbx (cif.py).

   Text is a sequence of character tokens.  A token is one character, named when it is
   special for the format:
       sp tab nl          blank, tab, line break      (Python str.strip()/split() blanks)
       sq dq              ' and "
       us hash semi dollar lbr dot qm      _ # ; $ [ . ?
       data_ loop_ save_ global_ stop_     the reserved words, one token each (5/7 chars)
   every other token (a letter, a digit, another punctuation mark) is an ordinary character.
   The driver maps tokens <-> real characters one to one.

   A file is   Seq([name, cats : Seq([name, cols : Seq([name, cells : Seq(Cell)])])])
   with names and values Seq(token) and Cell == [m, v]:  m = 0 present with value v,
   m = 1 inapplicable ('.'), m = 2 missing ('?')  (v = <<>> for m # 0).

   Ideal*    what the property demands:  read(write(F)) = F.
   Impl*     one operator per function of cif.py, shaped like the code
             (_escape, _multiline, _serialize_single/_looped, serialize of category/block/file,
              _is_empty, _split_one_line, _to_single, _deserialize_single/_looped,
              deserialize of category/block/file, mask inference of CIFColumn).
   KB_*      declarative description of the recorded defects; S1 checks that the inputs on
             which the implementation-shaped model loses the table are exactly these.
   Ref*      the CIF 1.1 grammar (lexer + a writer choosing any legal quoting style):
             S1 checks that a correct codec exists on the whole domain. *)
EXTENDS Integers, Sequences, FiniteSets, SequencesExt, FiniteSetsExt, TLC

(* ------------------------------------------------------------------ characters *)
WsTok    == {"sp", "tab", "nl"}
QuoteTok == {"sq", "dq"}
ResTok   == {"data_", "loop_", "save_", "global_", "stop_"}

TokLen(t) == CASE t \in {"data_", "loop_", "save_", "stop_"} -> 5
               [] t = "global_" -> 7
               [] OTHER -> 1
CharLen(s) == FoldLeft(LAMBDA acc, t : acc + TokLen(t), 0, s)
Spaces(n)  == [i \in 1..n |-> "sp"]
Has(s, t)  == \E i \in DOMAIN s : s[i] = t
HasAny(s, T) == \E i \in DOMAIN s : s[i] \in T
FirstIdx(s, t) == LET I == {i \in DOMAIN s : s[i] = t} IN IF I = {} THEN 0 ELSE Min(I)
Cat3(a, b, c) == a \o b \o c

(* ------------------------------------------------------------------ Python string methods *)
NonWsIdx(s)   == {i \in DOMAIN s : s[i] \notin WsTok}
PyStrip(s)    == LET I == NonWsIdx(s) IN IF I = {} THEN <<>> ELSE SubSeq(s, Min(I), Max(I))
PyLStrip(s)   == LET I == NonWsIdx(s) IN IF I = {} THEN <<>> ELSE SubSeq(s, Min(I), Len(s))

\* str.split(sep) for a one-character separator: keeps empty parts
SplitOnTok(s, t) ==
  LET r == FoldLeft(LAMBDA acc, c : IF c = t THEN [ps |-> Append(acc.ps, acc.cur), cur |-> <<>>]
                                     ELSE [ps |-> acc.ps, cur |-> Append(acc.cur, c)],
                    [ps |-> <<>>, cur |-> <<>>], s)
  IN Append(r.ps, r.cur)
\* str.splitlines(): like split on nl, but no last empty part
PySplitLines(s) == LET p == SplitOnTok(s, "nl") IN IF p[Len(p)] = <<>> THEN Front(p) ELSE p
\* str.split(): split on runs of blanks, no empty parts
PySplitWs(s) ==
  LET r == FoldLeft(LAMBDA acc, c :
                      IF c \in WsTok
                      THEN (IF acc.cur = <<>> THEN acc ELSE [ps |-> Append(acc.ps, acc.cur), cur |-> <<>>])
                      ELSE [ps |-> acc.ps, cur |-> Append(acc.cur, c)],
                    [ps |-> <<>>, cur |-> <<>>], s)
  IN IF r.cur = <<>> THEN r.ps ELSE Append(r.ps, r.cur)
\* str.partition(t): text before / after the first t
PartBefore(s, t) == LET i == FirstIdx(s, t) IN IF i = 0 THEN s ELSE SubSeq(s, 1, i - 1)
PartAfter(s, t)  == LET i == FirstIdx(s, t) IN IF i = 0 THEN <<>> ELSE SubSeq(s, i + 1, Len(s))
JoinWith(parts, sep) ==
  IF parts = <<>> THEN <<>> ELSE FoldLeft(LAMBDA acc, l : Cat3(acc, sep, l), parts[1], Tail(parts))
Lines2Text(lines) == FlattenSeq([i \in DOMAIN lines |-> Append(lines[i], "nl")])

(* ------------------------------------------------------------------ data model *)
P(v)    == [m |-> 0, v |-> v]
Inappl  == [m |-> 1, v |-> <<>>]
Missing == [m |-> 2, v |-> <<>>]
\* CIFColumn.as_item / as_array(str): what is written for a cell
CellText(c) == CASE c.m = 0 -> c.v [] c.m = 1 -> <<"dot">> [] c.m = 2 -> <<"qm">>
\* CIFColumn(data) without mask: mask inferred from "." and "?"
CellOf(v) == IF v = <<"dot">> THEN Inappl ELSE IF v = <<"qm">> THEN Missing ELSE P(v)

Col(name, cells) == [name |-> name, cells |-> cells]
Cg(name, cols)   == [name |-> name, cols |-> cols]
Blk(name, cats)  == [name |-> name, cats |-> cats]

\* ordered dict: sequence of records with field `name`; assignment keeps the position of a key
DictPut(d, e) ==
  IF \E i \in DOMAIN d : d[i].name = e.name
  THEN [i \in DOMAIN d |-> IF d[i].name = e.name THEN e ELSE d[i]]
  ELSE Append(d, e)

(* ================================================================== writer (code shaped) *)
ImplMultiline(v) == Cat3(<<"nl", "semi">>, v, <<"nl", "semi", "nl">>)
Wrap(q, v) == Cat3(<<q>>, v, <<q>>)
\* _escape: ten branches, in the order of the code as it is after the repairs
\*   0540e6c2  the leading-'_' branch stands behind the two quote branches (was: before them)
\*   090058e5  new branch: a value starting with # ; $ [ ] or a reserved word is quoted
\* (the upper-case spellings of the reserved words that the code also quotes are outside the
\*  token alphabet)
LineStartTok == {"hash", "semi", "dollar", "lbr", "rbr"} \cup ResTok
ImplEscape(v) ==
  IF Has(v, "nl") THEN ImplMultiline(v)
  ELSE IF Has(v, "sq") /\ Has(v, "dq") THEN ImplMultiline(v)
  ELSE IF v = <<>> THEN <<"sq", "sq">>
  ELSE IF Has(v, "sq") THEN Wrap("dq", v)
  ELSE IF Has(v, "dq") THEN Wrap("sq", v)
  ELSE IF v[1] = "us" THEN Wrap("sq", v)
  ELSE IF v[1] \in LineStartTok THEN Wrap("sq", v)
  ELSE IF Has(v, "sp") THEN Wrap("sq", v)
  ELSE IF Has(v, "tab") THEN Wrap("sq", v)
  ELSE v
EscapeStyle(v) ==
  IF Has(v, "nl") \/ (Has(v, "sq") /\ Has(v, "dq")) THEN "text"
  ELSE IF v = <<>> THEN "sq"
  ELSE IF Has(v, "sq") THEN "dq"
  ELSE IF Has(v, "dq") \/ v[1] = "us" \/ v[1] \in LineStartTok \/ Has(v, "sp") \/ Has(v, "tab") THEN "sq"
  ELSE "bare"

LJust(s, n) == s \o Spaces(IF n > CharLen(s) THEN n - CharLen(s) ELSE 0)
KeyText(cat, col) == Cat3(<<"us">> \o cat, <<"dot">>, col)

\* CIFCategory._serialize_single
ImplSerializeSingle(cat, cols) ==
  LET keys == [j \in DOMAIN cols |-> KeyText(cat, cols[j].name)]
      req  == Max({CharLen(keys[j]) : j \in DOMAIN cols}) + 3
  IN [j \in DOMAIN cols |-> PyStrip(LJust(keys[j], req) \o ImplEscape(CellText(cols[j].cells[1])))]
\* CIFCategory._serialize_looped
ImplSerializeLooped(cat, cols) ==
  LET nrow == Len(cols[1].cells)
      esc  == [j \in DOMAIN cols |-> [i \in 1..nrow |-> ImplEscape(CellText(cols[j].cells[i]))]]
      wid  == [j \in DOMAIN cols |-> Max({CharLen(esc[j][i]) : i \in 1..nrow}) + 1]
      keyl == [j \in DOMAIN cols |-> Append(KeyText(cat, cols[j].name), "sp")]
      vall == [i \in 1..nrow |-> PyStrip(FlattenSeq([j \in DOMAIN cols |-> LJust(esc[j][i], wid[j])]))]
  IN Cat3(<<<<"loop_">>>>, keyl, vall)
\* CIFCategory.serialize (Dom: at least one column, all columns of one length >= 1)
ImplSerializeCategory(c) ==
  Lines2Text(IF Len(c.cols[1].cells) = 1 THEN ImplSerializeSingle(c.name, c.cols)
             ELSE ImplSerializeLooped(c.name, c.cols))
\* CIFBlock.serialize
ImplSerializeBlock(b) ==
  Cat3(<<"data_">>, b.name, <<"nl", "hash", "nl">>)
    \o FlattenSeq([k \in DOMAIN b.cats |-> ImplSerializeCategory(b.cats[k]) \o <<"hash", "nl">>])
\* CIFFile.serialize
ImplSerializeFile(F) == FlattenSeq([k \in DOMAIN F |-> ImplSerializeBlock(F[k])])

(* ================================================================== reader (code shaped) *)
NoneName == <<"<None>">>        \* the Python value None used as a dictionary key
Fail == [ok |-> FALSE, val |-> <<>>]
Okv(v) == [ok |-> TRUE, val |-> v]

\* _is_empty (line as found in the text, not stripped)
ImplIsEmpty(line) == PyStrip(line) = <<>> \/ line[1] = "hash"
\* _parse_category_name: None, or line[1 : line.find(".")]  (find = -1 drops the last character)
ImplCategoryName(line) ==
  IF line[1] # "us" THEN NoneName
  ELSE LET d == FirstIdx(line, "dot") IN
       IF d = 0 THEN SubSeq(line, 2, Len(line) - 1) ELSE SubSeq(line, 2, d - 1)
\* name_part.split(".")[1]
ImplKeyOf(s) == LET p == SplitOnTok(s, "dot") IN IF Len(p) < 2 THEN Fail ELSE Okv(p[2])

\* _split_one_line, branch "a quote occurs in the line"
RECURSIVE ImplSplitQuoted(_, _)
ImplSplitQuoted(line, acc) ==
  IF line = <<>> THEN acc
  ELSE LET st   == PyLStrip(line)
           word == PartBefore(st, "sp")
           rest == PartAfter(st, "sp")
       IN IF word # <<>> /\ word[1] \in QuoteTok
          THEN IF Len(word) > 1 /\ word[Len(word)] = word[1]
               THEN ImplSplitQuoted(rest, Append(acc, SubSeq(word, 2, Len(word) - 1)))
               ELSE ImplSplitQuoted(PartAfter(Tail(st), word[1]), Append(acc, PartBefore(Tail(st), word[1])))
          ELSE ImplSplitQuoted(rest, Append(acc, word))
\* _split_one_line (line is never empty where the code calls it)
ImplSplitOneLine(line) ==
  IF line[1] = "semi" THEN <<Tail(line)>>
  ELSE IF Has(line, "sq") \/ Has(line, "dq") THEN ImplSplitQuoted(line, <<>>)
  ELSE PySplitWs(line)

\* _to_single: an unterminated text field is dropped silently
ImplToSingle(lines) ==
  LET r == FoldLeft(LAMBDA acc, line :
             IF line[1] = "semi"
             THEN IF ~acc.inml THEN [out |-> acc.out, inml |-> TRUE, ml |-> <<line>>]
                  ELSE [out |-> Append(acc.out, JoinWith(acc.ml, <<"nl">>)), inml |-> FALSE, ml |-> <<>>]
             ELSE IF acc.inml THEN [out |-> acc.out, inml |-> TRUE, ml |-> Append(acc.ml, line)]
                  ELSE [out |-> Append(acc.out, line), inml |-> FALSE, ml |-> <<>>],
             [out |-> <<>>, inml |-> FALSE, ml |-> <<>>], lines)
  IN r.out

\* CIFCategory._deserialize_single
RECURSIVE ImplDeserSingle(_, _, _)
ImplDeserSingle(lines, i, cols) ==
  IF i > Len(lines) THEN Okv(cols)
  ELSE LET parts == ImplSplitOneLine(lines[i]) IN
       IF Len(parts) = 2 THEN
          LET k == ImplKeyOf(parts[1]) IN
          IF ~k.ok THEN Fail
          ELSE ImplDeserSingle(lines, i + 1, DictPut(cols, Col(k.val, <<CellOf(parts[2])>>)))
       ELSE IF Len(parts) = 1 /\ i + 1 <= Len(lines) /\ Len(ImplSplitOneLine(lines[i + 1])) = 1 THEN
          LET k == ImplKeyOf(parts[1]) IN
          IF ~k.ok THEN Fail
          ELSE ImplDeserSingle(lines, i + 2,
                               DictPut(cols, Col(k.val, <<CellOf(ImplSplitOneLine(lines[i + 1])[1])>>)))
       ELSE Fail
\* CIFCategory._deserialize_looped followed by CIFCategory(dict) (an empty column is refused)
ImplDeserLooped(lines) ==
  LET nonKey == {i \in DOMAIN lines : lines[i][1] # "us"}
      nk     == IF nonKey = {} THEN Len(lines) ELSE Min(nonKey) - 1
      keys   == [j \in 1..nk |-> ImplKeyOf(lines[j])]
      vals   == FlattenSeq([i \in 1..(Len(lines) - nk) |-> ImplSplitOneLine(lines[nk + i])])
  IN IF nk = 0 \/ Len(vals) = 0 \/ Len(vals) % nk # 0 \/ \E j \in 1..nk : ~keys[j].ok THEN Fail
     ELSE LET ColCells(name) ==
                LET ps == {p \in DOMAIN vals : keys[((p - 1) % nk) + 1].val = name}
                    sq == SetToSortSeq(ps, LAMBDA a, b : a < b)
                IN [i \in DOMAIN sq |-> CellOf(vals[sq[i]])]
          IN Okv(FoldLeft(LAMBDA d, j : IF \E e \in ToSet(d) : e.name = keys[j].val THEN d
                                        ELSE Append(d, Col(keys[j].val, ColCells(keys[j].val))),
                          <<>>, [j \in 1..nk |-> j]))
\* CIFCategory.deserialize
ImplDeserializeCategory(text) ==
  LET raw    == PySplitLines(text)
      kept   == SelectSeq(raw, LAMBDA l : ~ImplIsEmpty(l))
      lines0 == [i \in DOMAIN kept |-> PyStrip(kept[i])]
      looped == lines0 # <<>> /\ lines0[1][1] = "loop_"
      lines1 == IF looped THEN Tail(lines0) ELSE lines0
  IN IF lines1 = <<>> THEN Fail
     ELSE IF ImplCategoryName(lines1[1]) = NoneName THEN Fail
     ELSE IF looped THEN ImplDeserLooped(ImplToSingle(lines1))
     ELSE ImplDeserSingle(ImplToSingle(lines1), 1, <<>>)

\* _create_element_dict: later elements of the same name overwrite earlier ones
ImplElementDict(lines, names, starts) ==
  LET stop(i) == IF i = Len(starts) THEN Len(lines) ELSE starts[i + 1] - 1
  IN FoldLeft(LAMBDA d, i : DictPut(d, [name |-> names[i],
                                        text |-> Lines2Text(SubSeq(lines, starts[i], stop(i)))]),
              <<>>, [i \in DOMAIN names |-> i])

\* CIFBlock.deserialize: scan for category starts
ImplDeserializeBlock(text) ==
  LET lines == PySplitLines(text)
      r == FoldLeft(LAMBDA acc, i :
             LET line == lines[i] IN
             IF ~acc.ok \/ ImplIsEmpty(line) THEN acc
             ELSE LET isloop == line[1] = "loop_"
                      cn == ImplCategoryName(line)
                  IN IF isloop \/ (cn # acc.cur /\ cn # NoneName)
                     THEN IF isloop /\ (i + 1 > Len(lines) \/ lines[i + 1] = <<>>)
                          THEN [acc EXCEPT !.ok = FALSE]          \* IndexError
                          ELSE LET cn2 == IF isloop THEN ImplCategoryName(lines[i + 1]) ELSE cn
                               IN [ok |-> TRUE, cur |-> cn2, starts |-> Append(acc.starts, i),
                                   names |-> Append(acc.names, cn2)]
                     ELSE acc,
             [ok |-> TRUE, cur |-> NoneName, starts |-> <<>>, names |-> <<>>],
             [i \in DOMAIN lines |-> i])
  IN IF r.ok THEN Okv(ImplElementDict(lines, r.names, r.starts)) ELSE Fail

\* CIFFile.deserialize: scan for block starts
ImplDeserializeFile(text) ==
  LET lines == PySplitLines(text)
      r == FoldLeft(LAMBDA acc, i :
             IF ~ImplIsEmpty(lines[i]) /\ lines[i][1] = "data_"
             THEN [starts |-> Append(acc.starts, i), names |-> Append(acc.names, Tail(lines[i]))]
             ELSE acc,
             [starts |-> <<>>, names |-> <<>>], [i \in DOMAIN lines |-> i])
  IN ImplElementDict(lines, r.names, r.starts)

\* reading everything: file[b][c][k] for all keys, in iteration order; any exception = "err"
ImplReadBlock(text) ==
  LET d == ImplDeserializeBlock(text) IN
  IF ~d.ok THEN Fail
  ELSE LET cs == [k \in DOMAIN d.val |-> ImplDeserializeCategory(d.val[k].text)] IN
       IF \E k \in DOMAIN cs : ~cs[k].ok THEN Fail
       ELSE Okv([k \in DOMAIN cs |-> Cg(d.val[k].name, cs[k].val)])
ImplReadFile(text) ==
  LET d  == ImplDeserializeFile(text)
      bs == [k \in DOMAIN d |-> ImplReadBlock(d[k].text)]
  IN IF \E k \in DOMAIN bs : ~bs[k].ok THEN [oc |-> "err", f |-> <<>>]
     ELSE [oc |-> "ok", f |-> [k \in DOMAIN bs |-> Blk(d[k].name, bs[k].val)]]

(* ================================================================== domain *)
\* CIF 1.1 cannot express a value in which a line break is directly followed by ';' (that
\* sequence terminates a text field and no other quoting style may span lines), nor tell a
\* present value "." / "?" from the two mask states in biotite's data model (CIFColumn infers
\* the mask from these strings).  Both are outside the property's domain.
Dom_Value(v) == /\ \A i \in 1..(Len(v) - 1) : ~(v[i] = "nl" /\ v[i + 1] = "semi")
                /\ v # <<"dot">> /\ v # <<"qm">>
Dom_Cell(c)  == IF c.m = 0 THEN Dom_Value(c.v) ELSE c.m \in {1, 2} /\ c.v = <<>>
\* names: CIF data names are non-blank; the category/item separator is the first '.', so
\* names contain no '.'; biotite's own convention strips the leading '_' of category names
NameSpecial == WsTok \cup {"dot"}
Dom_Name(n) == n # <<>> /\ ~HasAny(n, NameSpecial)
Dom_Category(c) ==
  /\ Dom_Name(c.name) /\ c.cols # <<>>
  /\ \A j \in DOMAIN c.cols : /\ Dom_Name(c.cols[j].name)
                              /\ Len(c.cols[j].cells) = Len(c.cols[1].cells)
                              /\ Len(c.cols[j].cells) >= 1
                              /\ \A i \in DOMAIN c.cols[j].cells : Dom_Cell(c.cols[j].cells[i])
  /\ \A j1, j2 \in DOMAIN c.cols : c.cols[j1].name = c.cols[j2].name => j1 = j2
Dom_File(F) ==
  /\ \A k \in DOMAIN F : /\ Dom_Name(F[k].name)
                         /\ \A q \in DOMAIN F[k].cats : Dom_Category(F[k].cats[q])
                         /\ \A q1, q2 \in DOMAIN F[k].cats :
                               F[k].cats[q1].name = F[k].cats[q2].name => q1 = q2
  /\ \A k1, k2 \in DOMAIN F : F[k1].name = F[k2].name => k1 = k2

(* ================================================================== recorded defects *)
(* Where a value lands decides whether the quoting decision of _escape is sufficient.
   In a looped category (>= 2 rows) the value of column 1 starts a line of the file; the value
   following a text field starts a (blank-indented) continuation line. *)
CellStr(c, i, j)  == CellText(c.cols[j].cells[i])
IsLooped(c)       == Len(c.cols[1].cells) >= 2
BareAt(c, i, j)   == EscapeStyle(CellStr(c, i, j)) = "bare"
TextAt(c, i, j)   == EscapeStyle(CellStr(c, i, j)) = "text"
StartsLine(c, i, j) == IsLooped(c) /\ j = 1
Continues(c, i, j)  == IsLooped(c) /\ j > 1 /\ TextAt(c, i, j - 1)
FirstTokAt(c, i, j, T) == BareAt(c, i, j) /\ CellStr(c, i, j)[1] \in T

\* The three line-start classes were repaired by 090058e5 (_escape quotes values starting with
\* # ; $ [ ] or a reserved word): such a value is never written bare (EscapeStyle), so FirstTokAt
\* is FALSE and the classes are empty.  The definitions are kept: they describe what comes back
\* if the branch of _escape is lost.
\* '#...' in column 1 of a loop: the whole row is skipped as a comment
KB_HashAtLineStart(c) == \E i \in DOMAIN c.cols[1].cells : StartsLine(c, i, 1) /\ FirstTokAt(c, i, 1, {"hash"})
\* ';...' at a line start or after a text field: taken for a text-field delimiter
KB_SemiAtLineStart(c) == \E j \in DOMAIN c.cols : \E i \in DOMAIN c.cols[j].cells :
                            (StartsLine(c, i, j) \/ Continues(c, i, j)) /\ FirstTokAt(c, i, j, {"semi"})
\* 'data_...' / 'loop_...' in column 1 of a loop: taken for a block header / loop header
KB_ReservedAtLineStart(c) == \E i \in DOMAIN c.cols[1].cells :
                            StartsLine(c, i, 1) /\ FirstTokAt(c, i, 1, {"data_", "loop_"})
\* text fields: the reader strips every line, drops blank and '#' lines and scans the inner
\* lines for '_', 'data_', 'loop_'
BlankTok == {"sp", "tab"}
KB_TextFieldLine(v) ==
  LET L == SplitOnTok(v, "nl") IN
  \/ L[1] # <<>> /\ L[1][Len(L[1])] \in BlankTok
  \/ \E n \in 2..Len(L) : \/ L[n] = <<>>
                          \/ L[n][1] \in BlankTok \/ L[n][Len(L[n])] \in BlankTok
                          \/ L[n][1] \in {"hash", "us", "data_", "loop_"}
KB_TextField(c) == \E j \in DOMAIN c.cols : \E i \in DOMAIN c.cols[j].cells :
                      TextAt(c, i, j) /\ KB_TextFieldLine(CellStr(c, i, j))

\* _escape tests the leading '_' before the quote characters: '_it's ok' is wrapped in the
\* quote it contains (any position, single-row or looped)
\* Repaired by 0540e6c2 (quote branches first): the class is empty (leading FALSE); the rest of
\* the definition says which values were affected.
KB_UnderscoreQuoteValue(v) == /\ FALSE
                              /\ v # <<>> /\ v[1] = "us" /\ Has(v, "sq") /\ Has(v, "sp")
                              /\ ~Has(v, "dq") /\ ~Has(v, "nl")
KB_UnderscoreQuote(c) == \E j \in DOMAIN c.cols : \E i \in DOMAIN c.cols[j].cells :
                            KB_UnderscoreQuoteValue(CellStr(c, i, j))

KB_Category(c) == (IF KB_UnderscoreQuote(c) THEN {"UnderscoreQuote"} ELSE {})
             \cup (IF KB_HashAtLineStart(c) THEN {"HashAtLineStart"} ELSE {})
             \cup (IF KB_SemiAtLineStart(c) THEN {"SemiAtLineStart"} ELSE {})
             \cup (IF KB_ReservedAtLineStart(c) THEN {"ReservedAtLineStart"} ELSE {})
             \cup (IF KB_TextField(c) THEN {"TextFieldLine"} ELSE {})
KB_File(F) == UNION {KB_Category(F[k].cats[q]) : <<k, q>> \in {<<k, q>> \in (DOMAIN F) \X (1..8) : q \in DOMAIN F[k].cats}}

(* ================================================================== CIF 1.1 reference codec *)
(* Lexer of the CIF 1.1 grammar: blanks separate tokens; '#' at a token start opens a comment;
   ';' as first character of a line opens a text field closed by the next line starting with
   ';'; a quote at a token start opens a string closed by the same quote followed by a blank
   (so a'b may be written 'a'b'); other tokens are data names (_...), data_<name>, loop_ or bare
   values, which must not start with $ [ ] or a reserved word. *)
BadTok == [k |-> "bad", s |-> <<>>, q |-> FALSE]
RefClassify(w) ==
  IF w[1] = "us" THEN [k |-> "name", s |-> Tail(w), q |-> FALSE]
  ELSE IF w[1] = "data_" THEN [k |-> "data", s |-> Tail(w), q |-> FALSE]
  ELSE IF w = <<"loop_">> THEN [k |-> "loop", s |-> <<>>, q |-> FALSE]
  ELSE IF w[1] \in ResTok \cup {"dollar", "lbr", "rbr"} THEN BadTok
  ELSE [k |-> "val", s |-> w, q |-> FALSE]
RECURSIVE RefLex(_, _, _)
RefLex(t, i, acc) ==
  IF i > Len(t) THEN acc
  ELSE LET c == t[i]
           bol == i = 1 \/ t[i - 1] = "nl"
       IN
       IF c \in WsTok THEN RefLex(t, i + 1, acc)
       ELSE IF c = "hash" THEN
            LET nls == {j \in i..Len(t) : t[j] = "nl"} IN
            IF nls = {} THEN acc ELSE RefLex(t, Min(nls) + 1, acc)
       ELSE IF c = "semi" /\ bol THEN
            LET ends == {j \in (i + 1)..(Len(t) - 1) : t[j] = "nl" /\ t[j + 1] = "semi"} IN
            IF ends = {} THEN Append(acc, BadTok)
            ELSE RefLex(t, Min(ends) + 2, Append(acc, [k |-> "val", s |-> SubSeq(t, i + 1, Min(ends) - 1), q |-> TRUE]))
       ELSE IF c \in QuoteTok THEN
            LET ends == {j \in (i + 1)..Len(t) : t[j] = c /\ (j = Len(t) \/ t[j + 1] \in WsTok)}
                nls  == {j \in (i + 1)..Len(t) : t[j] = "nl"}
            IN IF ends = {} \/ (nls # {} /\ Min(nls) < Min(ends)) THEN Append(acc, BadTok)
               ELSE RefLex(t, Min(ends) + 1, Append(acc, [k |-> "val", s |-> SubSeq(t, i + 1, Min(ends) - 1), q |-> TRUE]))
       ELSE LET wss == {j \in i..Len(t) : t[j] \in WsTok}
                e   == IF wss = {} THEN Len(t) ELSE Min(wss) - 1
            IN RefLex(t, e + 1, Append(acc, RefClassify(SubSeq(t, i, e))))

(* Parser: data_ opens a block; "_c.k value" is a one-row item; loop_ is followed by names and
   then by values that fill the columns row by row.  Items are grouped into categories by the
   part of the data name before the first '.' (the mmCIF convention biotite uses). *)
RefCellOf(t) == IF t.q THEN P(t.s) ELSE CellOf(t.s)
RefAddCols(blocks, cols) ==
  LET b  == blocks[Len(blocks)]
      Put(cats, c) ==
        IF \E q \in DOMAIN cats : cats[q].name = c.cat
        THEN [q \in DOMAIN cats |-> IF cats[q].name = c.cat
                                    THEN Cg(cats[q].name, Append(cats[q].cols, Col(c.name, c.cells)))
                                    ELSE cats[q]]
        ELSE Append(cats, Cg(c.cat, <<Col(c.name, c.cells)>>))
  IN [blocks EXCEPT ![Len(blocks)] = Blk(b.name, FoldLeft(Put, b.cats, cols))]
RefColumn(dataname, cells) ==
  [cat |-> PartBefore(dataname, "dot"), name |-> PartAfter(dataname, "dot"), cells |-> cells]
\* close a pending loop / item
RefFlush(st) ==
  IF st.mode = "top" THEN st
  ELSE IF st.mode = "want" \/ st.blocks = <<>> \/ st.names = <<>> \/ st.vals = <<>>
          \/ Len(st.vals) % Len(st.names) # 0
       THEN [st EXCEPT !.ok = FALSE]
  ELSE LET nk == Len(st.names)
           nr == Len(st.vals) \div nk
           cols == [j \in 1..nk |-> RefColumn(st.names[j], [i \in 1..nr |-> st.vals[(i - 1) * nk + j]])]
       IN [ok |-> TRUE, blocks |-> RefAddCols(st.blocks, cols), mode |-> "top", names |-> <<>>, vals |-> <<>>]
RECURSIVE RefParse(_, _, _)
RefParse(ts, i, st) ==
  IF ~st.ok THEN st
  ELSE IF i > Len(ts) THEN RefFlush(st)
  ELSE LET t == ts[i] IN
       IF t.k = "bad" THEN [st EXCEPT !.ok = FALSE]
       ELSE IF t.k = "data" THEN
            LET f == RefFlush(st) IN
            RefParse(ts, i + 1, [f EXCEPT !.blocks = Append(@, Blk(t.s, <<>>))])
       ELSE IF t.k = "loop" THEN RefParse(ts, i + 1, [RefFlush(st) EXCEPT !.mode = "names"])
       ELSE IF t.k = "name" THEN
            IF st.mode = "names" THEN RefParse(ts, i + 1, [st EXCEPT !.names = Append(@, t.s)])
            ELSE RefParse(ts, i + 1, [RefFlush(st) EXCEPT !.mode = "want", !.names = <<t.s>>])
       ELSE \* a value
            IF st.mode = "want" THEN
                 RefParse(ts, i + 1, RefFlush([st EXCEPT !.mode = "vals", !.vals = <<RefCellOf(t)>>]))
            ELSE IF st.mode \in {"names", "vals"} /\ st.names # <<>> THEN
                 RefParse(ts, i + 1, [st EXCEPT !.mode = "vals", !.vals = Append(@, RefCellOf(t))])
            ELSE [st EXCEPT !.ok = FALSE]
RefRead(text) ==
  LET r == RefParse(RefLex(text, 1, <<>>), 1,
                    [ok |-> TRUE, blocks |-> <<>>, mode |-> "top", names |-> <<>>, vals |-> <<>>])
  IN IF r.ok THEN [oc |-> "ok", f |-> r.blocks] ELSE [oc |-> "err", f |-> <<>>]

(* Reference writer: every value in a quoting style the grammar allows at its position. *)
RefStyles(v, bol) ==
     (IF /\ v # <<>> /\ ~HasAny(v, WsTok)
         /\ v[1] \notin {"us", "hash", "dollar", "lbr", "rbr", "sq", "dq"} \cup ResTok
         /\ ~(v[1] = "semi" /\ bol)
      THEN {"bare"} ELSE {})
  \cup {q \in QuoteTok : ~Has(v, "nl") /\ \A i \in 1..(Len(v) - 1) : ~(v[i] = q /\ v[i + 1] \in WsTok)}
  \cup (IF \A i \in 1..(Len(v) - 1) : ~(v[i] = "nl" /\ v[i + 1] = "semi") THEN {"text"} ELSE {})
StyleOrder == <<"bare", "sq", "dq", "text">>
\* the preferred style if legal, otherwise the first legal one
RefStyle(c, bol, pref) ==
  IF c.m # 0 THEN "bare"
  ELSE LET L == RefStyles(c.v, bol) IN
       IF pref \in L THEN pref ELSE StyleOrder[Min({k \in 1..4 : StyleOrder[k] \in L})]
RefRender(c, style) ==
  CASE style = "bare" -> CellText(c)
    [] style = "text" -> ImplMultiline(c.v)
    [] OTHER -> Wrap(style, c.v)
\* one row of values; a value after a text field starts a line
RefRow(cells, firstBol, pref) ==
  FoldLeft(LAMBDA acc, c :
             LET sty == RefStyle(c, acc.bol, pref) IN
             [txt |-> acc.txt \o (IF acc.txt = <<>> \/ acc.bol THEN <<>> ELSE <<"sp">>) \o RefRender(c, sty),
              bol |-> sty = "text"],
           [txt |-> <<>>, bol |-> firstBol], cells).txt
RefSerializeCategory(c, pref) ==
  IF Len(c.cols[1].cells) = 1
  THEN FlattenSeq([j \in DOMAIN c.cols |->
          Cat3(KeyText(c.name, c.cols[j].name), <<"sp">>, RefRow(<<c.cols[j].cells[1]>>, FALSE, pref)) \o <<"nl">>])
  ELSE Cat3(<<"loop_", "nl">>,
            FlattenSeq([j \in DOMAIN c.cols |-> Append(KeyText(c.name, c.cols[j].name), "nl")]),
            FlattenSeq([i \in DOMAIN c.cols[1].cells |->
               Append(RefRow([j \in DOMAIN c.cols |-> c.cols[j].cells[i]], TRUE, pref), "nl")]))
RefSerializeFile(F, pref) ==
  FlattenSeq([k \in DOMAIN F |->
     Cat3(<<"data_">>, F[k].name, <<"nl">>)
       \o FlattenSeq([q \in DOMAIN F[k].cats |-> RefSerializeCategory(F[k].cats[q], pref)])])
\* names the grammar can carry: block names and data names are single blank-free tokens
Dom_RefName(n) == n # <<>> /\ ~HasAny(n, WsTok \cup {"dot"})

(* Diagnostic (not part of the property): files biotite writes that are not CIF 1.1, i.e. that
   a grammar-conformant reader does not read back as the table. *)
NB_Category(c) ==
  \/ \E j \in DOMAIN c.cols : \E i \in DOMAIN c.cols[j].cells :
        LET v == CellStr(c, i, j) IN
        EscapeStyle(v) \in QuoteTok /\ EscapeStyle(v) \notin RefStyles(v, FALSE)
  \/ \E j \in DOMAIN c.cols : \E i \in DOMAIN c.cols[j].cells :
        BareAt(c, i, j) /\ ( \/ CellStr(c, i, j)[1] \in {"hash", "dollar", "lbr", "rbr"} \cup ResTok
                             \/ CellStr(c, i, j)[1] = "semi" /\ StartsLine(c, i, j) )   \* continuation lines are indented
NB_File(F) == \E k \in DOMAIN F : \E q \in DOMAIN F[k].cats : NB_Category(F[k].cats[q])

ImplRoundTrip(F) == ImplReadFile(ImplSerializeFile(F))
IdealRoundTrip(F) == [oc |-> "ok", f |-> F]

(* ================================================================== construction forms *)
(* "Stored in a CIF category": the API accepts the values of a column in many forms - a single
   string, a list, an ndarray, a CIFData, a CIFColumn built from any of these, with or without
   an explicit mask, handed to the constructor of the category or assigned afterwards.  What is
   stored does not depend on the form:
     an explicit mask wins (the text under a masked cell is irrelevant),
     without a mask the cells "." and "?" ARE the two mask states (Dom_Value: a present value is
     never "." / "?").
   A raw column is [form, vals, mask]: vals the texts handed over, mask = <<>> (none given) or
   <<m>> with m the sequence of mask values.  StoredCells ignores the form. *)
\* (round 5) the same containers around arrays of another NumPy representation: item size wider than the
\* longest text ("wide"), a strided view on a bigger array ("view"), non-native byte order ("be"), mask values
\* as 64-bit integers ("i64").  The representation of the array is as irrelevant as the container.
FormsNoMask == {"item", "list", "array", "data", "col_item", "col_list", "col_array", "col_data", "col_data_str",
                "array_wide", "array_view", "array_be", "data_wide", "data_view", "col_array_wide", "col_data_be"}
FormsMask   == {"col_item_mask", "col_list_mask", "col_array_mask", "col_data_mask", "col_data_listmask",
                "col_array_mask_i64", "col_data_mask_i64", "col_data_wide_mask_i64"}
ItemForms   == {"item", "col_item", "col_item_mask"}          \* a single value, not a sequence: one row only
Fillers     == {"same", "cross", "junk"}                      \* the text under a masked cell of an explicit mask
RawCol(name, form, vals, mask) == [name |-> name, form |-> form, vals |-> vals, mask |-> mask]
StoredCells(raw) ==
  IF raw.mask = <<>> THEN [i \in DOMAIN raw.vals |-> CellOf(raw.vals[i])]
  ELSE [i \in DOMAIN raw.vals |-> IF raw.mask[1][i] = 0 THEN P(raw.vals[i])
                                  ELSE [m |-> raw.mask[1][i], v |-> <<>>]]
StoredFile(R) ==
  [k \in DOMAIN R |-> Blk(R[k].name,
     [q \in DOMAIN R[k].cats |-> Cg(R[k].cats[q].name,
        [j \in DOMAIN R[k].cats[q].cols |-> Col(R[k].cats[q].cols[j].name, StoredCells(R[k].cats[q].cols[j]))])])]
FillerText(fi, m) ==
  CASE fi = "same"  -> CellText([m |-> m, v |-> <<>>])
    [] fi = "cross" -> IF m = 1 THEN <<"qm">> ELSE <<"dot">>
    [] fi = "junk"  -> <<"j", "sp", "sq">>
\* a way of handing the column `col` over in the given form
RawOfCol(col, form, fi) ==
  LET f == IF form \in ItemForms /\ Len(col.cells) # 1
           THEN (IF form = "col_item_mask" THEN "col_list_mask" ELSE "list") ELSE form
  IN IF f \in FormsNoMask
     THEN RawCol(col.name, f, [i \in DOMAIN col.cells |-> CellText(col.cells[i])], <<>>)
     ELSE RawCol(col.name, f, [i \in DOMAIN col.cells |-> IF col.cells[i].m = 0 THEN col.cells[i].v
                                                           ELSE FillerText(fi, col.cells[i].m)],
                 <<[i \in DOMAIN col.cells |-> col.cells[i].m]>>)
RawOfFile(F, form, fi) ==
  [k \in DOMAIN F |-> [name |-> F[k].name, cats |->
     [q \in DOMAIN F[k].cats |-> [name |-> F[k].cats[q].name, cols |->
        [j \in DOMAIN F[k].cats[q].cols |-> RawOfCol(F[k].cats[q].cols[j], form, fi)]]]]]
Dom_Raw(raw) == /\ raw.form \in FormsNoMask \cup FormsMask
                /\ (raw.form \in FormsNoMask) = (raw.mask = <<>>)
                /\ raw.form \in ItemForms => Len(raw.vals) = 1
                /\ raw.mask # <<>> => /\ Len(raw.mask[1]) = Len(raw.vals)
                                      /\ \A i \in DOMAIN raw.vals : raw.mask[1][i] \in {0, 1, 2}

(* Object equality between what was constructed and what is read back.  The containers are mappings and a
   column is its rows and masks, so  built == reparsed  is demanded at every level whenever the table comes
   back unchanged AND the raw column is the representation the reader would produce itself: no explicit mask
   (the mask is inferred, as by the reader), or an explicit mask that masks at least one cell (the reader
   creates a mask iff a cell is masked) with the placeholder text under every masked cell.  An all-present
   explicit mask and other text under a masked cell are representation: nothing is demanded then. *)
ReprExact(raw) ==
  \/ raw.mask = <<>>
  \/ /\ \E i \in DOMAIN raw.vals : raw.mask[1][i] # 0
     /\ \A i \in DOMAIN raw.vals : raw.mask[1][i] # 0 => raw.vals[i] = CellText([m |-> raw.mask[1][i], v |-> <<>>])
EqDemanded(R) == \A k \in DOMAIN R : \A q \in DOMAIN R[k].cats : \A j \in DOMAIN R[k].cats[q].cols :
                    ReprExact(R[k].cats[q].cols[j])

(* ================================================================== read accessors of a column *)
(* (round 5) "Same rows, order and masks" is what the caller sees through the read accessors of the column
   that comes back:  as_array(dtype, masked_value)  and  as_item().  An accessor option is
   [dt, mv]: dt in {"str", "int", "float", "item"}; mv = <<>> (None: the placeholders "." / "?" for text)
   or <<r>> with the replacement r (a token sequence for text, a number otherwise).
   Ideal: present rows as they are, masked rows the replacement - whatever the replacement is (the empty
   string and 0 are replacements like any other).
   Impl (code shape): the text branch writes the replacement into a copy of the data array, whose item size
   is that of the longest stored text - a longer replacement is cut (recorded defect KB_ReplCut). *)
IsDigits(v) == v # <<>> /\ \A i \in DOMAIN v : v[i] \in {"0", "1", "2", "3", "4", "5", "6", "7", "8", "9"}
DigitVal(t) == CASE t = "0" -> 0 [] t = "1" -> 1 [] t = "2" -> 2 [] t = "3" -> 3 [] t = "4" -> 4
                 [] t = "5" -> 5 [] t = "6" -> 6 [] t = "7" -> 7 [] t = "8" -> 8 [] t = "9" -> 9
NumVal(v) == FoldLeft(LAMBDA a, t : 10 * a + DigitVal(t), 0, v)
Dom_Acc(cells, opt) ==
  /\ opt.dt \in {"str", "int", "float", "item"}
  /\ opt.dt = "item" => Len(cells) = 1 /\ opt.mv = <<>>
  /\ opt.dt \in {"int", "float"} => /\ opt.mv # <<>>      \* no placeholder exists for numbers: nothing is demanded
                                   /\ \A i \in DOMAIN cells : cells[i].m = 0 => IsDigits(cells[i].v) /\ Len(cells[i].v) <= 4
ColWidth(cells) == FoldLeft(LAMBDA a, c : IF CharLen(CellText(c)) > a THEN CharLen(CellText(c)) ELSE a, 0, cells)
AccCell(c, opt, repl) ==
  IF opt.dt \in {"int", "float"} THEN <<"n", IF c.m = 0 THEN NumVal(c.v) ELSE NumVal(repl)>>
  ELSE <<"s", IF c.m = 0 THEN c.v ELSE IF opt.mv = <<>> THEN CellText(c) ELSE repl>>
AccRepl(opt) == IF opt.mv = <<>> THEN <<>> ELSE opt.mv[1]
IdealAccess(cells, opt) == [i \in DOMAIN cells |-> AccCell(cells[i], opt, AccRepl(opt))]
\* the replacement is a token sequence (digits for a number); only single-character tokens, so cutting is SubSeq
Dom_Repl(opt) == /\ opt.mv # <<>> => \A i \in DOMAIN opt.mv[1] : TokLen(opt.mv[1][i]) = 1
                 /\ (opt.dt \in {"int", "float"} /\ opt.mv # <<>>) => IsDigits(opt.mv[1]) /\ Len(opt.mv[1]) <= 4
ImplAccess(cells, opt) ==
  IF opt.dt = "str" /\ opt.mv # <<>>
  THEN [i \in DOMAIN cells |-> AccCell(cells[i], opt, SubSeq(opt.mv[1], 1, Min({Len(opt.mv[1]), ColWidth(cells)})))]
  ELSE IdealAccess(cells, opt)
KB_ReplCut(cells, opt) == /\ opt.dt = "str" /\ opt.mv # <<>>
                          /\ Len(opt.mv[1]) > ColWidth(cells)
                          /\ \E i \in DOMAIN cells : cells[i].m # 0
ASSUME IdealAccess(<<P(<<"a">>), Inappl, Missing>>, [dt |-> "str", mv |-> << <<>> >>])
         = << <<"s", <<"a">> >>, <<"s", <<>> >>, <<"s", <<>> >> >>
ASSUME IdealAccess(<<P(<<"a">>), Inappl, Missing>>, [dt |-> "str", mv |-> <<>>])
         = << <<"s", <<"a">> >>, <<"s", <<"dot">> >>, <<"s", <<"qm">> >> >>
ASSUME IdealAccess(<<P(<<"1", "2">>), Missing>>, [dt |-> "int", mv |-> << <<"0">> >>]) = << <<"n", 12>>, <<"n", 0>> >>

(* ================================================================== equality of contents *)
(* File, block and category are mappings: equal iff the same names carry equal values, whatever
   the order of insertion; a column is its sequence of cells (rows in order, masks included). *)
NameSet(d)   == {d[i].name : i \in DOMAIN d}
ByName(d, n) == d[CHOOSE i \in DOMAIN d : d[i].name = n]
TEqCat(c, d)   == NameSet(c.cols) = NameSet(d.cols)
                  /\ \A n \in NameSet(c.cols) : ByName(c.cols, n).cells = ByName(d.cols, n).cells
TEqBlock(b, d) == NameSet(b.cats) = NameSet(d.cats)
                  /\ \A n \in NameSet(b.cats) : TEqCat(ByName(b.cats, n), ByName(d.cats, n))
TEqFile(F, G)  == NameSet(F) = NameSet(G)
                  /\ \A n \in NameSet(F) : TEqBlock(ByName(F, n), ByName(G, n))
\* A, B: results [oc, f] of reading two texts; the answer of `==` at the three levels, through the
\* block named bn and its category named cn ("na": the level cannot be reached in one of the two)
Verdict(b) == IF b THEN "eq" ELSE "ne"
HasName(d, n) == n \in NameSet(d)
EqLevels(A, B, bn, cn) ==
  IF A.oc # "ok" \/ B.oc # "ok" THEN [file |-> "na", block |-> "na", cat |-> "na"]
  ELSE LET hb == HasName(A.f, bn) /\ HasName(B.f, bn)
           ba == ByName(A.f, bn)   bb == ByName(B.f, bn)
           hc == hb /\ HasName(ba.cats, cn) /\ HasName(bb.cats, cn)
       IN [file  |-> Verdict(TEqFile(A.f, B.f)),
           block |-> IF hb THEN Verdict(TEqBlock(ba, bb)) ELSE "na",
           cat   |-> IF hc THEN Verdict(TEqCat(ByName(ba.cats, cn), ByName(bb.cats, cn))) ELSE "na"]

(* ================================================================== other renderings of a file *)
(* The same table can be written in many ways: another legal quoting style, other blank runs between
   the fields, a one-row category as a loop_, comment and empty lines, every value on a line of its
   own.  A style is [q, loop1, sep, cmt, split]:
     q      "impl": the style _escape chooses; "bare" | "sq" | "dq" | "text": this style wherever
            CIF 1.1 allows it for the value at its position (RefStyles), else the first legal one
     loop1  a one-row category is written as a loop_
     sep    "sp" | "sp3" | "tab": the blank run between two fields of a line
     cmt    a comment line and an empty line before, a '#' line after every category
     split  every value on a line of its own (an item's value on the line after its name)
   Containers parsed from two renderings of one table must be equal, and the answer must not depend
   on which parts of them have been accessed (parsed) before. *)
Style(q, loop1, sep, cmt, split) == [q |-> q, loop1 |-> loop1, sep |-> sep, cmt |-> cmt, split |-> split]
SepText(s) == CASE s = "sp" -> <<"sp">> [] s = "sp3" -> <<"sp", "sp", "sp">> [] s = "tab" -> <<"tab">>
VarStyle(c, bol, st) ==
  IF st.q = "impl" THEN (IF c.m # 0 THEN "bare" ELSE EscapeStyle(c.v)) ELSE RefStyle(c, bol, st.q)
\* a run of values; firstBol = FALSE: something (the data name) precedes on the line
VarRow(cells, firstBol, st) ==
  LET r == FoldLeft(LAMBDA acc, c :
             LET sty == VarStyle(c, acc.bol \/ st.split, st)      \* split: the value will start a line
                 t   == RefRender(c, sty)
             IN IF sty = "text" THEN [txt |-> acc.txt \o (IF acc.bol THEN Tail(t) ELSE t), bol |-> TRUE]
                ELSE IF st.split
                     THEN [txt |-> Cat3(acc.txt, IF acc.bol THEN <<>> ELSE <<"nl">>, Append(t, "nl")), bol |-> TRUE]
                ELSE [txt |-> Cat3(acc.txt, IF acc.bol THEN <<>> ELSE SepText(st.sep), t), bol |-> FALSE],
             [txt |-> <<>>, bol |-> firstBol], cells)
  IN IF r.bol THEN r.txt ELSE Append(r.txt, "nl")
VarSerializeCategory(c, st) ==
  LET single == Len(c.cols[1].cells) = 1 /\ ~st.loop1
      body == IF single
              THEN FlattenSeq([j \in DOMAIN c.cols |->
                      KeyText(c.name, c.cols[j].name) \o VarRow(<<c.cols[j].cells[1]>>, FALSE, st)])
              ELSE Cat3(<<"loop_", "nl">>,
                        FlattenSeq([j \in DOMAIN c.cols |-> Append(KeyText(c.name, c.cols[j].name), "nl")]),
                        FlattenSeq([i \in DOMAIN c.cols[1].cells |->
                                      VarRow([j \in DOMAIN c.cols |-> c.cols[j].cells[i]], TRUE, st)]))
  IN Cat3(IF st.cmt THEN <<"hash", "sp", "r", "nl", "nl">> ELSE <<>>, body,
          IF st.cmt THEN <<"hash", "nl">> ELSE <<>>)
VarSerializeFile(F, st) ==
  FlattenSeq([k \in DOMAIN F |->
     Cat3(<<"data_">>, F[k].name, <<"nl">>)
       \o FlattenSeq([q \in DOMAIN F[k].cats |-> VarSerializeCategory(F[k].cats[q], st)])])
\* the style with every knob turned
OppStyle(st) ==
  Style(CASE st.q = "impl" -> "dq" [] st.q = "dq" -> "impl" [] st.q = "sq" -> "text" [] st.q = "text" -> "sq"
          [] st.q = "bare" -> "sq",
        ~st.loop1,
        CASE st.sep = "sp" -> "sp3" [] st.sep = "sp3" -> "tab" [] st.sep = "tab" -> "sp",
        ~st.cmt, ~st.split)
=============================================================================
