------------------------------- MODULE MCKeys -------------------------------
(* C06: "all block/category names" for the mapping protocol itself (no text involved):
   a key given to a container comes back unchanged from iteration, before and after a reload.
   Pure-function pattern: Init enumerates (flavour, level, key), the variables hold the
   specification's values.  Keys are sequences of tokens ("us" = '_', other tokens letters). *)
EXTENDS Containers

CONSTANTS KeyAlphabet, KeyLen
VARIABLES fl, lvl, key, echo, shown, kb
vars == <<fl, lvl, key, echo, shown, kb>>

KeyVals == UNION {[1..n -> KeyAlphabet] : n \in 1..KeyLen}
\* what iteration shows for the key: only BinaryCIFBlock rewrites its keys
ImplShown(f, l, k) == IF f = "binary" /\ l = "category" THEN BcifShownKeyImpl(BcifStoredKey(k)) ELSE k

Init == /\ fl \in {"text", "binary"} /\ lvl \in {"block", "category", "column"} /\ key \in KeyVals
        /\ echo = key                                \* Ideal: a dictionary returns its keys
        /\ shown = ImplShown(fl, lvl, key)           \* code shaped
        /\ kb = IF fl = "binary" /\ lvl = "category" /\ KB_BcifLstripKey(key) THEN {"BcifLstripKey"} ELSE {}
Next == UNCHANGED vars
Spec == Init /\ [][Next]_vars

InvKnownBadExact == (shown # echo) = (kb # {})
InvIntendedExact == fl = "binary" /\ lvl = "category" => BcifShownKeyIntended(BcifStoredKey(key)) = key
=============================================================================
