SPECIFICATION Spec
CONSTANTS
  AccAlphabet = {"a","1"}
  AccLen = 2
  AccRows = 3
CHECK_DEADLOCK FALSE
INVARIANT InvDomain
INVARIANT InvAccKnownBadExact
INVARIANT InvAccIntent
