SPECIFICATION Spec
CONSTANTS
  PairShapes = {"s2b","l2a","mlc"}
  PairVals = {"plain","blank","apos","dquo","empty","hash"}
  PairPrefs = {"impl","dq","text"}
  PairSeps = {"sp","sp3","tab"}
  FullProduct = FALSE
  OtherIds = {"same","impl","opp","colrev","ordrev","cell","mask","rowrev","qcat","eblk"}
  Access = {"none","block","all"}
CHECK_DEADLOCK FALSE
INVARIANT InvDomain
INVARIANT InvRenderingIsCif
INVARIANT InvIntent
INVARIANT InvTextsDiffer
