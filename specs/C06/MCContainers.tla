------------------------------- MODULE MCContainers -------------------------------
(* C06 exhaustive state machine over Containers.Apply, for both flavours. *)
EXTENDS Containers

CONSTANTS Depth,        \* maximal number of calls in a behaviour
          LeafReadOnly, \* TRUE: a call that left the container (content, lazy flags, row counts) untouched
                        \* is not continued - its futures are those of its predecessor (quick tier)
          BlockLits, CatLits, ColLits, FileLits,   \* literal ids used as arguments
          BKeys, CKeys, KKeys,                      \* keys tried at the three levels
          EqOps                                     \* <<kind, provenance>> of the derived operands of equality calls

VARIABLES fl,      \* "text" | "binary", fixed in Init
          f,       \* the lazy container
          oc, out, \* outcome and returned value of the last call
          kb,      \* recorded-defect predicates that hold for the last call
          agree,   \* the last call, abstracted, is the Ideal call
          same,    \* the last call did not change f at all
          ser      \* observation demanded after every call: can the container be written (and read back
                   \* with its content) now?  A function of f; S2 executes it on a copy of the real object,
                   \* so that state the model does not have (caches left behind by the history) shows
vars == <<fl, f, oc, out, kb, agree, same, ser>>

AllCalls ==
       {<<"FSet", <<b, l>>>> : b \in BKeys, l \in BlockLits}
  \cup {<<"FSetWrong", <<b>>>> : b \in {PB}}
  \cup {<<op, <<b>>>> : op \in {"FGet", "FDel", "FContains"}, b \in BKeys}
  \cup {<<op, <<>>>> : op \in {"FIter", "FLen", "Reload", "Peek"}}
  \cup {<<"FEq", <<p[1], p[2]>>>> : p \in EqOps} \cup {<<"FEq", <<l, "fresh">>>> : l \in FileLits}
  \cup {<<"BSet", <<c, l>>>> : c \in CKeys, l \in CatLits}
  \cup {<<op, <<c>>>> : op \in {"BGet", "BDel", "BContains"}, c \in CKeys}
  \cup {<<op, <<>>>> : op \in {"BIter", "BLen"}}
  \cup {<<"BEq", <<p[1], p[2]>>>> : p \in EqOps} \cup {<<"BEq", <<l, "fresh">>>> : l \in BlockLits}
  \cup {<<"CSet", <<k, v, fm>>>> : k \in KKeys, v \in ColLits, fm \in ColForms}
  \cup {<<op, <<k>>>> : op \in {"CGet", "CDel", "CContains"}, k \in KKeys}
  \cup {<<op, <<>>>> : op \in {"CIter", "CLen"}}
  \cup {<<"CEq", <<p[1], p[2]>>>> : p \in EqOps} \cup {<<"CEq", <<l, "fresh">>>> : l \in CatLits}

\* every derived operand freshly built; written and read back (untouched / everything accessed) the
\* copy, the deeply re-ordered mapping (equal content, other serialised form) and the key-swapped one
EqOpsQuick == (EqSelfKinds \X {"fresh"}) \cup ({"self", "deeprev", "revkeys"} \X {"lazy"}) \cup ({"deeprev"} \X {"read"})
EqOpsFull  == EqSelfKinds \X EqProvs
ASSUME EqOps \subseteq EqSelfKinds \X EqProvs

Call(c) ==
  LET r == Apply(fl, f, c[1], c[2])
      i == IdealApply(fl, AbsFile(f), c[1], c[2])
  IN /\ ~(LeafReadOnly /\ same)
     /\ f' = r.f /\ oc' = r.oc /\ out' = r.out /\ kb' = r.kb
     /\ agree' = (AbsFile(r.f) = i.f /\ r.oc = i.oc /\ r.out = i.out)
     /\ same' = (r.f = f)
     /\ ser' = IdealSerializable(AbsFile(r.f))
     /\ UNCHANGED fl

Init == fl \in {"text", "binary"} /\ f = <<>> /\ oc = "ok" /\ out = <<>> /\ kb = {} /\ agree = TRUE /\ same = FALSE /\ ser = TRUE
Next == \E c \in AllCalls : Call(c)
Spec == Init /\ [][Next]_vars
DepthBound == TLCGet("level") <= Depth

(* ---------------------------------------------------------------- properties *)
\* the code-shaped container is, for every call, the plain dictionary of the property
InvImplRefinesIdeal == agree
\* a serialised element has no parsed parts; text columns are never serialised on their own
CanonCat(c)   == c.rc = <<>> /\ \A i \in DOMAIN c.cols : c.cols[i].lz
CanonBlock(b) == \A j \in DOMAIN b : b[j].lz /\ CanonCat(b[j].v)
InvLazyShape ==
  \A i \in DOMAIN f :
     /\ f[i].lz => CanonBlock(f[i].v)
     /\ \A j \in DOMAIN f[i].v :
          /\ f[i].v[j].lz => CanonCat(f[i].v[j].v)
          /\ (fl = "text" /\ ~f[i].lz /\ ~f[i].v[j].lz) => \A q \in DOMAIN f[i].v[j].v.cols : ~f[i].v[j].v.cols[q].lz
InvKeysUnique ==
  /\ Cardinality(KeySet(f)) = Len(f)
  /\ \A i \in DOMAIN f : /\ Cardinality(KeySet(f[i].v)) = Len(f[i].v)
                         /\ \A j \in DOMAIN f[i].v : Cardinality(KeySet(f[i].v[j].v.cols)) = Len(f[i].v[j].v.cols)
\* serialisation never succeeds on something the property calls unserialisable, and it fails on
\* a serialisable file exactly when a parsed category carries an outdated row count
InvStaleCharacterised ==
  /\ ImplSerializable(fl, f) => IdealSerializable(AbsFile(f))
  /\ (IdealSerializable(AbsFile(f)) /\ ~ImplSerializable(fl, f)) => HasStaleCat(f)
\* the observation `ser` on the code-shaped container: in every reachable state the walk of serialize()
\* succeeds exactly when the property calls the content serialisable (no history leaves a cache behind
\* that blocks writing - the class KB_StaleRowCount is empty since c2b1fbb3)
InvSerObservation == ser = ImplSerializable(fl, f)
\* a refused call changes nothing that can be observed
RefusalIsNoOp == [][oc' # "ok" => AbsFile(f') = AbsFile(f)]_vars
\* key prefixing of BinaryCIFBlock: the intended inverse is exact; the coded one is exact too since
\* a259ccb0 (removeprefix), the former one (lstrip) was not
ASSUME \A key \in {<<"c">>, <<"us", "c">>, <<"us", "us">>, <<"c", "us">>} :
          /\ BcifShownKeyIntended(BcifStoredKey(key)) = key
          /\ (BcifShownKeyImpl(BcifStoredKey(key)) # key) = KB_BcifLstripKey(key)
          /\ (BcifShownKeyLstrip(BcifStoredKey(key)) # key) = (key[1] = "us")     \* the repaired defect
=============================================================================
