SPECIFICATION Spec
CONSTANTS
  Depth = 6
  LeafReadOnly = FALSE
  BlockLits = {"B0", "B1"}
  CatLits = {"C2", "C3"}
  ColLits = {"x", "zz"}
  FileLits = {"F1"}
  BKeys = {"b1", "b2"}
  CKeys = {"c1", "c2"}
  KKeys = {"k1", "k2"}
  EqOps <- EqOpsFull
CONSTRAINT DepthBound
INVARIANT InvImplRefinesIdeal
INVARIANT InvLazyShape
INVARIANT InvKeysUnique
INVARIANT InvStaleCharacterised
INVARIANT InvSerObservation
PROPERTY RefusalIsNoOp
CHECK_DEADLOCK FALSE
