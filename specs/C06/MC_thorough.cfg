SPECIFICATION Spec
CONSTANTS
  Alphabet = {"a","sp","tab","sq","dq","us","hash","semi","dollar","lbr","nl","dot","qm","data_","loop_","save_","global_","stop_"}
  MaxLen = 2
  Alphabet3 = {"a","sp","sq","dq","us","hash","semi","nl","data_"}
  MaxLen3 = 3
  Leaders = {"a","us","hash","semi","dollar","lbr","rbr","dot","data_","loop_","save_","global_","stop_"}
  Features = {"sp","tab","sq","dq"}
  ShapesF = {"s1","s2a","s2b","l1a","l1b","l2a","l2b","l2c","l2d","mlc","l2m","s2m"}
  FileShapes = {"solo","sand"}
  Shapes = {"s1","s2a","s2b","l1a","l1b","l2a","l2b","l2c","l2d","mlc","l2m","s2m"}
  NameAlphabet = {"a","sq","dq","us","hash","semi","dollar","lbr","qm","data_","loop_","save_"}
  NameLen = 2
  Prefs = {"bare","sq","dq","text"}
  FormAlphabet = {"a","dot","qm","sp"}
  FormLen = 2
  FormShapes = {"s1","l2a","mlc","s2m","l2m","l3m"}
  Forms = {"item","list","array","data","col_item","col_list","col_array","col_data","col_data_str","col_item_mask","col_list_mask","col_array_mask","col_data_mask","col_data_listmask","array_wide","array_view","array_be","data_wide","data_view","col_array_wide","col_data_be","col_array_mask_i64","col_data_mask_i64","col_data_wide_mask_i64"}
  FormFillers = {"same","cross","junk"}
  Modes = {"ctor","setitem","topdown"}
  SibAlphabet = {"a","A","us"}
  SibLen = 2
CHECK_DEADLOCK FALSE
INVARIANT InvDomain
INVARIANT InvFormStores
INVARIANT InvEqDemand
INVARIANT InvNoUnknownLoss
INVARIANT InvKnownBadTight
INVARIANT InvRefCodecExists
INVARIANT InvGrammarDiag
