------------------------------- MODULE Containers -------------------------------
(* C06, second sentence: CIFFile/CIFBlock/CIFCategory and BinaryCIFFile/BinaryCIFBlock/
   BinaryCIFCategory as mutable mappings, before and after lazy parsing.

   Ideal*  the property: a three-level ordered dictionary  file -> block -> category -> column
           (plain values, Python dict semantics: assignment keeps the position of an existing
           key, deletion of a missing key is a KeyError, equality ignores the order).
   Impl    the same container shaped like the code: every element is either parsed or still
           serialised (lz = TRUE; component.py: _HierarchicalContainer.__getitem__ parses and
           caches; cif.py does the same with text), a category carries the cached row count rc
           (CIFCategory._row_count / BinaryCIFCategory._row_count), serialisation walks the
           parsed part only and keeps serialised elements as they are.
   S1 checks that Impl, abstracted, is Ideal for every call (variable `agree`).
   KB_*    recorded defects: predicates over (flavour, state, call); ApplyKB is what the defective
           code does instead.

   A column is one of the literals ColLits (with a row count); what is inside a column is the
   business of CifText / C05. *)
EXTENDS Integers, Sequences, FiniteSets, SequencesExt, FiniteSetsExt, TLC

Rows(col) == IF col = "zz" THEN 2 ELSE 1          \* "x", "y": one row; "zz": two rows

(* ------------------------------------------------------------------ ordered dictionaries *)
\* elements are records with a field k (Ideal: [k, v]; Impl: [k, lz, v])
Idx(m, key)    == LET I == {i \in DOMAIN m : m[i].k = key} IN IF I = {} THEN 0 ELSE Min(I)
HasKey(m, key) == \E i \in DOMAIN m : m[i].k = key
Put(m, e)      == IF HasKey(m, e.k) THEN [m EXCEPT ![Idx(m, e.k)] = e] ELSE Append(m, e)
DelKey(m, key) == SelectSeq(m, LAMBDA e : e.k # key)
Keys(m)        == [i \in DOMAIN m |-> m[i].k]
KeySet(m)      == {m[i].k : i \in DOMAIN m}
ValOf(m, key)  == m[Idx(m, key)].v

(* ================================================================== Ideal: plain dictionaries *)
KV(k, v) == [k |-> k, v |-> v]
IdealCatOk(c) == c # <<>> /\ \A i \in DOMAIN c : Rows(c[i].v) = Rows(c[1].v)
\* serialisable: every category has a column and all its columns have one length (documented)
IdealSerializable(F) == \A i \in DOMAIN F : \A j \in DOMAIN F[i].v : IdealCatOk(F[i].v[j].v)
\* equality of dictionaries: same keys, equal values, order irrelevant
IdealEqCat(c, d)   == KeySet(c) = KeySet(d) /\ \A k \in KeySet(c) : ValOf(c, k) = ValOf(d, k)
IdealEqBlock(b, d) == KeySet(b) = KeySet(d) /\ \A k \in KeySet(b) : IdealEqCat(ValOf(b, k), ValOf(d, k))
IdealEqFile(f, d)  == KeySet(f) = KeySet(d) /\ \A k \in KeySet(f) : IdealEqBlock(ValOf(f, k), ValOf(d, k))

(* The other operand of an equality call is a literal or is derived from the container itself:
     "self"     an independent copy (same keys, same order)
     "rev"      the same mapping, keys inserted in the opposite order     (always equal)
     "revkeys"  the keys in the opposite order over the values in their old positions, i.e. key i
                carries the value of key n+1-i (equal iff these values are pairwise equal)
     "deeprev"  the same mapping, the keys inserted in the opposite order at EVERY level below
                (always equal; for the text flavour the serialised form of every element differs)
   Equality of mappings must depend on which key carries which value and on nothing else; the
   derived operands separate "by key" from "by position" in both directions.

   The operand has a provenance as well (second argument of the call, EqProvs):
     "fresh"    built through the public constructors, everything parsed
     "lazy"     written and read back, nothing accessed: every element is still serialised
     "read"     written and read back, everything accessed once
   "before and after lazy parsing" quantifies over BOTH operands of `==`: neither the Ideal nor the
   Impl answer looks at the provenance.  A lazy operand exists only if its content can be written
   (OperandOk); otherwise the call has the outcome "NoOperand" and `==` is not evaluated. *)
EqSelfKinds == {"self", "rev", "revkeys", "deeprev"}
EqProvs == {"fresh", "lazy", "read"}
Derived(kind, m) ==
  CASE kind = "self"    -> m
    [] kind = "rev"     -> Reverse(m)
    [] kind = "revkeys" -> [i \in DOMAIN m |-> KV(m[Len(m) + 1 - i].k, m[i].v)]
DeepRevCat(c)   == Reverse(c)
DeepRevBlock(b) == Reverse([i \in DOMAIN b |-> KV(b[i].k, DeepRevCat(b[i].v))])
DeepRevFile(f)  == Reverse([i \in DOMAIN f |-> KV(f[i].k, DeepRevBlock(f[i].v))])
EqOther(id, m, Lit(_), Deep(_)) ==
  IF id = "deeprev" THEN Deep(m) ELSE IF id \in EqSelfKinds THEN Derived(id, m) ELSE Lit(id)
Prov(a) == IF Len(a) >= 2 THEN a[2] ELSE "fresh"
\* F: the operand wrapped into a file (a block under "b1", a category under "b1" / "c1")
OperandOk(prov, F) == prov = "fresh" \/ IdealSerializable(F)
WrapBlock(b) == <<KV("b1", b)>>
WrapCat(c)   == <<KV("b1", <<KV("c1", c)>>)>>

(* ================================================================== Impl: lazy containers *)
El(k, lz, v) == [k |-> k, lz |-> lz, v |-> v]
\* a freshly constructed (parsed) object from a literal
FreshCat(lit)   == [rc |-> <<>>, cols |-> [i \in DOMAIN lit |-> El(lit[i].k, FALSE, lit[i].v)]]
FreshBlock(lit) == [i \in DOMAIN lit |-> El(lit[i].k, FALSE, FreshCat(lit[i].v))]
FreshFile(lit)  == [i \in DOMAIN lit |-> El(lit[i].k, FALSE, FreshBlock(lit[i].v))]
\* abstraction: forget lz and rc
AbsCat(c)   == [i \in DOMAIN c.cols |-> KV(c.cols[i].k, c.cols[i].v)]
AbsBlock(b) == [i \in DOMAIN b |-> KV(b[i].k, AbsCat(b[i].v))]
AbsFile(f)  == [i \in DOMAIN f |-> KV(f[i].k, AbsBlock(f[i].v))]
\* the serialised form of an element has no parsed parts
SerCat(c)   == [rc |-> <<>>, cols |-> [i \in DOMAIN c.cols |-> El(c.cols[i].k, TRUE, c.cols[i].v)]]
SerBlock(b) == [i \in DOMAIN b |-> El(b[i].k, TRUE, SerCat(b[i].v))]
SerFile(f)  == [i \in DOMAIN f |-> El(f[i].k, TRUE, SerBlock(f[i].v))]

\* __getitem__ on a serialised element: parse one level, cache the object
\*   text:   CIFCategory.deserialize builds all columns, row count unknown until asked
\*   binary: BinaryCIFCategory.deserialize keeps the columns serialised, rowCount is read
ParseCat(fl, c) ==
  IF fl = "text" THEN [rc |-> <<>>, cols |-> [i \in DOMAIN c.cols |-> El(c.cols[i].k, FALSE, c.cols[i].v)]]
  ELSE [rc |-> <<Rows(c.cols[1].v)>>, cols |-> c.cols]
ForceBlockEl(e)   == IF e.lz THEN El(e.k, FALSE, e.v) ELSE e
ForceCatEl(fl, e) == IF e.lz THEN El(e.k, FALSE, ParseCat(fl, e.v)) ELSE e
ForceColEl(e)     == El(e.k, FALSE, e.v)

(* serialize(): walks parsed blocks and parsed categories in order, stops at the first failure.
   CIFCategory/BinaryCIFCategory.serialize: refuse an empty category; the first column fixes the
   cached row count if it is unknown, every column must have the cached length; the binary
   flavour parses the columns it visits (Mapping.items -> __getitem__). *)
WalkCat(fl, c) ==
  IF c.cols = <<>> THEN [v |-> c, ok |-> FALSE]
  ELSE LET r == FoldLeft(LAMBDA acc, e :
                   IF ~acc.ok THEN [acc EXCEPT !.cols = Append(@, e)]
                   ELSE LET e2 == IF fl = "binary" THEN ForceColEl(e) ELSE e IN
                        IF acc.rc = <<>> THEN [rc |-> <<Rows(e.v)>>, cols |-> Append(acc.cols, e2), ok |-> TRUE]
                        ELSE [rc |-> acc.rc, cols |-> Append(acc.cols, e2), ok |-> Rows(e.v) = acc.rc[1]],
                   [rc |-> c.rc, cols |-> <<>>, ok |-> TRUE], c.cols)
       IN [v |-> [rc |-> r.rc, cols |-> r.cols], ok |-> r.ok]
WalkBlock(fl, b) ==
  LET r == FoldLeft(LAMBDA acc, e :
              IF ~acc.ok \/ e.lz THEN [acc EXCEPT !.v = Append(@, e)]
              ELSE LET w == WalkCat(fl, e.v) IN [v |-> Append(acc.v, El(e.k, FALSE, w.v)), ok |-> w.ok],
              [v |-> <<>>, ok |-> TRUE], b)
  IN r
WalkFile(fl, f) ==
  FoldLeft(LAMBDA acc, e :
              IF ~acc.ok \/ e.lz THEN [acc EXCEPT !.v = Append(@, e)]
              ELSE LET w == WalkBlock(fl, e.v) IN [v |-> Append(acc.v, El(e.k, FALSE, w.v)), ok |-> w.ok],
           [v |-> <<>>, ok |-> TRUE], f)
ImplSerializable(fl, f) == WalkFile(fl, f).ok
\* forget every cached row count (the repair: a cache that is invalidated by __setitem__/__delitem__)
ResetRc(f) ==
  [i \in DOMAIN f |-> IF f[i].lz THEN f[i] ELSE
     El(f[i].k, FALSE, [j \in DOMAIN f[i].v |-> IF f[i].v[j].lz THEN f[i].v[j] ELSE
        El(f[i].v[j].k, FALSE, [f[i].v[j].v EXCEPT !.rc = <<>>])])]

(* __eq__: key sets first; then element by element in the order of self, each self[key] parses
   and caches the element; stops at the first difference. `o` is a plain (Ideal) value. *)
EqCat(fl, c, o) ==
  IF KeySet(c.cols) # KeySet(o) THEN [eq |-> FALSE, v |-> c]
  ELSE LET r == FoldLeft(LAMBDA acc, e :
                   IF ~acc.eq THEN [acc EXCEPT !.cols = Append(@, e)]
                   ELSE [eq |-> e.v = ValOf(o, e.k),
                         cols |-> Append(acc.cols, IF fl = "binary" THEN ForceColEl(e) ELSE e)],
                   [eq |-> TRUE, cols |-> <<>>], c.cols)
       IN [eq |-> r.eq, v |-> [c EXCEPT !.cols = r.cols]]
EqBlock(fl, b, o) ==
  IF KeySet(b) # KeySet(o) THEN [eq |-> FALSE, v |-> b]
  ELSE LET r == FoldLeft(LAMBDA acc, e :
                   IF ~acc.eq THEN [acc EXCEPT !.v = Append(@, e)]
                   ELSE LET p == ForceCatEl(fl, e)
                            q == EqCat(fl, p.v, ValOf(o, e.k))
                        IN [eq |-> q.eq, v |-> Append(acc.v, El(e.k, FALSE, q.v))],
                   [eq |-> TRUE, v |-> <<>>], b)
       IN r
EqFile(fl, f, o) ==
  IF KeySet(f) # KeySet(o) THEN [eq |-> FALSE, v |-> f]
  ELSE FoldLeft(LAMBDA acc, e :
                   IF ~acc.eq THEN [acc EXCEPT !.v = Append(@, e)]
                   ELSE LET q == EqBlock(fl, ForceBlockEl(e).v, ValOf(o, e.k))
                        IN [eq |-> q.eq, v |-> Append(acc.v, El(e.k, FALSE, q.v))],
                [eq |-> TRUE, v |-> <<>>], f)

(* ================================================================== literals and calls *)
PB == "b1"      \* in the exhaustive model block-level calls go through file["b1"]
PC == "c1"      \* and category-level calls through file["b1"]["c1"]; traces name their own path
CatLit(id) ==
  CASE id = "C1" -> <<KV("k1", "x")>>
    [] id = "C2" -> <<KV("k2", "y"), KV("k1", "x")>>
    [] id = "C3" -> <<KV("k1", "zz")>>
    [] id = "C4" -> <<KV("k3", "y"), KV("k1", "zz")>>          \* not rectangular
BlockLit(id) ==
  CASE id = "B0" -> <<>>
    [] id = "B1" -> <<KV("c1", CatLit("C1"))>>
    [] id = "B2" -> <<KV("c2", CatLit("C3")), KV("c1", CatLit("C2"))>>
    [] id = "B3" -> <<KV("c3", CatLit("C1")), KV("c2", CatLit("C1")), KV("c1", CatLit("C3"))>>
FileLit(id) ==
  CASE id = "F0" -> <<>>
    [] id = "F1" -> <<KV("b1", BlockLit("B1"))>>
    [] id = "F2" -> <<KV("b2", BlockLit("B0")), KV("b1", BlockLit("B1"))>>
    [] id = "F3" -> <<KV("b1", BlockLit("B2")), KV("b3", BlockLit("B1"))>>

(* CSet carries a third argument, the representation in which the caller hands the column over:
   "col" a column object, "data" a data object that __setitem__ wraps into a column itself.  A
   mapping stores the value whatever its representation: neither Ideal nor Impl looks at it. *)
ColForms == {"col", "data"}

Res(f, oc, out, kb) == [f |-> f, oc |-> oc, out |-> out, kb |-> kb]
Refuse(f, oc) == Res(f, oc, <<>>, {})

(* ------------------------------------------------------------------ Ideal calls *)
\* F is a plain file; pb / pc name the block and category the nested calls go through;
\* result [f, oc, out]
IdealApplyAt(fl, F, pb, pc, op, a) ==
  LET I(f, oc, out) == [f |-> f, oc |-> oc, out |-> out]
      No(oc) == I(F, oc, <<>>)
      hasB == HasKey(F, pb)
      B    == ValOf(F, pb)
      hasC == hasB /\ HasKey(B, pc)
      C    == ValOf(B, pc)
      WithB(b2) == [F EXCEPT ![Idx(F, pb)].v = b2]
      WithC(c2) == WithB([B EXCEPT ![Idx(B, pc)].v = c2])
  IN
  CASE op = "FSet"      -> I(Put(F, KV(a[1], BlockLit(a[2]))), "ok", <<>>)
    [] op = "FSetWrong" -> No("Rejected")                  \* a category where a block belongs
    [] op = "FGet"      -> IF HasKey(F, a[1]) THEN I(F, "ok", ValOf(F, a[1])) ELSE No("KeyError")
    [] op = "FDel"      -> IF HasKey(F, a[1]) THEN I(DelKey(F, a[1]), "ok", <<>>) ELSE No("KeyError")
    [] op = "FIter"     -> I(F, "ok", Keys(F))
    [] op = "FLen"      -> I(F, "ok", Len(F))
    [] op = "FContains" -> I(F, "ok", HasKey(F, a[1]))
    [] op = "FEq"       -> LET o == EqOther(a[1], F, FileLit, DeepRevFile) IN
                           IF OperandOk(Prov(a), o) THEN I(F, "ok", IdealEqFile(F, o)) ELSE No("NoOperand")
    [] op \in {"Reload", "Peek"} ->
         IF ~IdealSerializable(F) THEN No("Rejected")
         ELSE I(F, "ok", IF op = "Peek" THEN F ELSE <<>>)
    [] ~hasB            -> No("KeyError")
    [] op = "BSet"      -> I(WithB(Put(B, KV(a[1], CatLit(a[2])))), "ok", <<>>)
    [] op = "BGet"      -> IF HasKey(B, a[1]) THEN I(F, "ok", ValOf(B, a[1])) ELSE No("KeyError")
    [] op = "BDel"      -> IF HasKey(B, a[1]) THEN I(WithB(DelKey(B, a[1])), "ok", <<>>) ELSE No("KeyError")
    [] op = "BIter"     -> I(F, "ok", Keys(B))
    [] op = "BLen"      -> I(F, "ok", Len(B))
    [] op = "BContains" -> I(F, "ok", HasKey(B, a[1]))
    [] op = "BEq"       -> LET o == EqOther(a[1], B, BlockLit, DeepRevBlock) IN
                           IF OperandOk(Prov(a), WrapBlock(o)) THEN I(F, "ok", IdealEqBlock(B, o)) ELSE No("NoOperand")
    [] ~hasC            -> No("KeyError")
    [] op = "CSet"      -> I(WithC(Put(C, KV(a[1], a[2]))), "ok", <<>>)
    [] op = "CGet"      -> IF HasKey(C, a[1]) THEN I(F, "ok", ValOf(C, a[1])) ELSE No("KeyError")
    [] op = "CDel"      -> \* CIFCategory refuses to lose its last column (ValueError, deliberate)
                           IF fl = "text" /\ Len(C) = 1 THEN No("Rejected")
                           ELSE IF HasKey(C, a[1]) THEN I(WithC(DelKey(C, a[1])), "ok", <<>>)
                           ELSE No("KeyError")
    [] op = "CIter"     -> I(F, "ok", Keys(C))
    [] op = "CLen"      -> I(F, "ok", Len(C))
    [] op = "CContains" -> I(F, "ok", HasKey(C, a[1]))
    [] op = "CEq"       -> LET o == EqOther(a[1], C, CatLit, DeepRevCat) IN
                           IF OperandOk(Prov(a), WrapCat(o)) THEN I(F, "ok", IdealEqCat(C, o)) ELSE No("NoOperand")

(* ------------------------------------------------------------------ recorded defects *)
\* BinaryCIFBlock.__delitem__ called super().__setitem__("_" + key) with one argument: TypeError.
\* Repaired by 08201441: ApplyAt no longer tags BDel; the predicate is kept as the description of
\* the class that was affected.
KB_BcifBlockDel(fl, f, pb, op) == fl = "binary" /\ op = "BDel" /\ HasKey(f, pb)
\* the cached row count was never invalidated: after serialize() / row_count / reading a binary
\* category, replacing the columns by columns of another length made serialize() refuse a
\* consistent category.  Repaired by c2b1fbb3 (__setitem__ / __delitem__ of both category classes
\* drop the cached count, see CSet / CDel in ApplyAt): no reachable state has an outdated count any
\* more, so the class is empty; the definitions are kept (InvStaleCharacterised still says that an
\* outdated count is the only way to lose serialisability).
KB_StaleRowCount(fl, f, op) ==
  op \in {"Reload", "Peek"} /\ IdealSerializable(AbsFile(f)) /\ ~ImplSerializable(fl, f)
\* declarative reading of the same condition
StaleCat(c) == c.rc # <<>> /\ c.cols # <<>> /\ (\A i \in DOMAIN c.cols : Rows(c.cols[i].v) = Rows(c.cols[1].v))
               /\ Rows(c.cols[1].v) # c.rc[1]
HasStaleCat(f) == \E i \in DOMAIN f : ~f[i].lz /\ \E j \in DOMAIN f[i].v : ~f[i].v[j].lz /\ StaleCat(f[i].v[j].v)

(* ------------------------------------------------------------------ Impl calls *)
\* f is a lazy file; result [f, oc, out, kb]; out and oc follow the property (Ideal), the state
\* carries the parse / cache effects of the code
ApplyAt(fl, f, pb, pc, op, a) ==
  LET bi == Idx(f, pb)
      g  == IF bi = 0 THEN f ELSE [f EXCEPT ![bi] = ForceBlockEl(f[bi])]      \* file["b1"]
      B  == g[bi].v
      ci == IF bi = 0 THEN 0 ELSE Idx(B, pc)
      h  == IF ci = 0 THEN g ELSE [g EXCEPT ![bi].v[ci] = ForceCatEl(fl, B[ci])]  \* file["b1"]["c1"]
      C  == h[bi].v[ci].v
      WithB(b2) == [g EXCEPT ![bi].v = b2]
      WithC(c2) == [h EXCEPT ![bi].v[ci].v = c2]
  IN
  CASE op = "FSet"      -> Res(Put(f, El(a[1], FALSE, FreshBlock(BlockLit(a[2])))), "ok", <<>>, {})
    [] op = "FSetWrong" -> Refuse(f, "Rejected")
    [] op = "FGet"      -> IF ~HasKey(f, a[1]) THEN Refuse(f, "KeyError")
                           ELSE LET f2 == [f EXCEPT ![Idx(f, a[1])] = ForceBlockEl(@)]
                                IN Res(f2, "ok", AbsBlock(ValOf(f2, a[1])), {})
    [] op = "FDel"      -> IF HasKey(f, a[1]) THEN Res(DelKey(f, a[1]), "ok", <<>>, {}) ELSE Refuse(f, "KeyError")
    [] op = "FIter"     -> Res(f, "ok", Keys(f), {})
    [] op = "FLen"      -> Res(f, "ok", Len(f), {})
    [] op = "FContains" -> Res(f, "ok", HasKey(f, a[1]), {})
    [] op = "FEq"       -> LET o == EqOther(a[1], AbsFile(f), FileLit, DeepRevFile)
                               q == EqFile(fl, f, o)
                           IN IF OperandOk(Prov(a), o) THEN Res(q.v, "ok", q.eq, {}) ELSE Refuse(f, "NoOperand")
    [] op \in {"Reload", "Peek"} ->
         IF ~IdealSerializable(AbsFile(f)) THEN Refuse(WalkFile(fl, f).v, "Rejected")
         ELSE LET stale == ~ImplSerializable(fl, f)
                  kbs   == IF stale THEN {"StaleRowCount"} ELSE {}
              IN IF op = "Reload" THEN Res(SerFile(f), "ok", <<>>, kbs)
                 ELSE Res(WalkFile(fl, IF stale THEN ResetRc(f) ELSE f).v, "ok", AbsFile(f), kbs)
    [] bi = 0           -> Refuse(f, "KeyError")
    [] op = "BSet"      -> Res(WithB(Put(B, El(a[1], FALSE, FreshCat(CatLit(a[2]))))), "ok", <<>>, {})
    [] op = "BGet"      -> IF ~HasKey(B, a[1]) THEN Refuse(g, "KeyError")
                           ELSE LET b2 == [B EXCEPT ![Idx(B, a[1])] = ForceCatEl(fl, @)]
                                IN Res(WithB(b2), "ok", AbsCat(ValOf(b2, a[1])), {})
    [] op = "BDel"      -> LET kbs == {} IN      \* was {"BcifBlockDel"} for binary before 08201441
                           IF HasKey(B, a[1]) THEN Res(WithB(DelKey(B, a[1])), "ok", <<>>, kbs)
                           ELSE Res(g, "KeyError", <<>>, kbs)
    [] op = "BIter"     -> Res(g, "ok", Keys(B), {})
    [] op = "BLen"      -> Res(g, "ok", Len(B), {})
    [] op = "BContains" -> Res(g, "ok", HasKey(B, a[1]), {})
    [] op = "BEq"       -> LET o == EqOther(a[1], AbsBlock(B), BlockLit, DeepRevBlock)
                               q == EqBlock(fl, B, o)
                           IN IF OperandOk(Prov(a), WrapBlock(o)) THEN Res(WithB(q.v), "ok", q.eq, {})
                              ELSE Refuse(g, "NoOperand")
    [] ci = 0           -> Refuse(g, "KeyError")
    \* CSet / CDel: the cached row count is dropped (self._row_count = None, since c2b1fbb3)
    [] op = "CSet"      -> Res(WithC([C EXCEPT !.cols = Put(@, El(a[1], FALSE, a[2])), !.rc = <<>>]), "ok", <<>>, {})
    [] op = "CGet"      -> IF ~HasKey(C.cols, a[1]) THEN Refuse(h, "KeyError")
                           ELSE Res(WithC([C EXCEPT !.cols[Idx(C.cols, a[1])] = ForceColEl(@)]), "ok",
                                    ValOf(C.cols, a[1]), {})
    [] op = "CDel"      -> IF fl = "text" /\ Len(C.cols) = 1 THEN Refuse(h, "Rejected")
                           ELSE IF HasKey(C.cols, a[1]) THEN Res(WithC([C EXCEPT !.cols = DelKey(@, a[1]), !.rc = <<>>]), "ok", <<>>, {})
                           ELSE Refuse(h, "KeyError")
    [] op = "CIter"     -> Res(h, "ok", Keys(C.cols), {})
    [] op = "CLen"      -> Res(h, "ok", Len(C.cols), {})
    [] op = "CContains" -> Res(h, "ok", HasKey(C.cols, a[1]), {})
    [] op = "CEq"       -> LET o == EqOther(a[1], AbsCat(C), CatLit, DeepRevCat)
                               q == EqCat(fl, C, o)
                           IN IF OperandOk(Prov(a), WrapCat(o)) THEN Res(WithC(q.v), "ok", q.eq, {})
                              ELSE Refuse(h, "NoOperand")

\* what the defective code does where a KB_* predicate holds: refuses, nothing deleted / written
ApplyKBAt(fl, f, pb, pc, op, a) ==
  IF op = "BDel" THEN Refuse([f EXCEPT ![Idx(f, pb)] = ForceBlockEl(@)], "Rejected")
  ELSE Refuse(WalkFile(fl, f).v, "Rejected")

IdealApply(fl, F, op, a) == IdealApplyAt(fl, F, PB, PC, op, a)
Apply(fl, f, op, a)      == ApplyAt(fl, f, PB, PC, op, a)
ApplyKB(fl, f, op, a)    == ApplyKBAt(fl, f, PB, PC, op, a)

\* text-flavour columns are parsed together with their category; binary keys are prefixed
\* with '_' inside the block and the prefix is removed again on the way out
BcifStoredKey(key) == <<"us">> \o key
BcifShownKeyIntended(stored) == Tail(stored)                                  \* removeprefix("_")
\* the code as it is since a259ccb0: removeprefix("_"); before, lstrip("_") removed every leading '_'
\* (BcifShownKeyLstrip) and the keys starting with '_' were a recorded-defect class
BcifShownKeyImpl(stored) == IF stored # <<>> /\ stored[1] = "us" THEN Tail(stored) ELSE stored
RECURSIVE BcifShownKeyLstrip(_)
BcifShownKeyLstrip(stored) == IF stored # <<>> /\ stored[1] = "us" THEN BcifShownKeyLstrip(Tail(stored)) ELSE stored
\* repaired by a259ccb0: the class is empty (leading FALSE), the rest says which keys were affected
KB_BcifLstripKey(key) == FALSE /\ key # <<>> /\ key[1] = "us"
=============================================================================
