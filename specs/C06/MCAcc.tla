------------------------------- MODULE MCAcc -------------------------------
(* C06 (round 5) read accessors of a column that came back from a text round trip: every column of
   1..AccRows cells (present texts over AccAlphabet up to AccLen tokens, inapplicable, missing), every
   accessor option (as_array with dtype str / int / float and masked_value None / "" / one character /
   longer than the stored texts / 0 / another number; as_item).  Pure-function pattern. *)
EXTENDS CifText

CONSTANTS AccAlphabet, AccLen, AccRows

VARIABLES cells, opt, done, exp, impl, kb
vars == <<cells, opt, done, exp, impl, kb>>

AVals(A, n) == UNION {[1..k -> A] : k \in 0..n}
AccVals  == {v \in AVals(AccAlphabet, AccLen) : Dom_Value(v)}
AccCells == {P(v) : v \in AccVals} \cup {Inappl, Missing}
AccCols  == UNION {[1..r -> AccCells] : r \in 1..AccRows}
ReplsText == {<<>>, <<"N">>, <<"N", "A">>, <<"0">>, <<"l", "o", "n", "g", "e", "r">>}   \* "" and "0" are the falsy-looking ones
ReplsNum  == {<<"0">>, <<"7">>, <<"1", "2">>}
Opts == {[dt |-> "str", mv |-> <<>>], [dt |-> "item", mv |-> <<>>]}
          \cup {[dt |-> "str", mv |-> <<r>>] : r \in ReplsText}
          \cup {[dt |-> d, mv |-> <<r>>] : d \in {"int", "float"}, r \in ReplsNum}
AccInputs == {p \in AccCols \X Opts : Dom_Acc(p[1], p[2]) /\ Dom_Repl(p[2])}

Init == /\ \E p \in AccInputs : cells = p[1] /\ opt = p[2]
        /\ done = FALSE /\ exp = <<>> /\ impl = <<>> /\ kb = {}
Compute == /\ ~done /\ done' = TRUE
           /\ exp' = IdealAccess(cells, opt)
           /\ impl' = ImplAccess(cells, opt)
           /\ kb' = IF KB_ReplCut(cells, opt) THEN {"ReplCut"} ELSE {}
           /\ UNCHANGED <<cells, opt>>
Next == Compute
Spec == Init /\ [][Next]_vars

InvDomain == \A i \in DOMAIN cells : Dom_Cell(cells[i])
\* the code-shaped accessor returns rows and masks exactly outside the recorded class
InvAccKnownBadExact == done => ((kb # {}) = (impl # exp))
\* a masked row shows the replacement, a present row its text - whatever the replacement is
InvAccIntent == done => /\ Len(exp) = Len(cells)
                        /\ \A i \in DOMAIN cells :
                             /\ (cells[i].m = 0 /\ opt.dt \in {"str", "item"}) => exp[i] = <<"s", cells[i].v>>
                             /\ (cells[i].m # 0 /\ opt.dt = "str" /\ opt.mv # <<>>) => exp[i] = <<"s", opt.mv[1]>>
=============================================================================
