SPECIFICATION Spec
CONSTANTS
  AccAlphabet = {"a","1"}
  AccLen = 2
  AccRows = 2
CHECK_DEADLOCK FALSE
INVARIANT InvDomain
INVARIANT InvAccKnownBadExact
INVARIANT InvAccIntent
