SPECIFICATION Spec
CONSTANTS
  KeyAlphabet = {"c", "us", "d"}
  KeyLen = 3
INVARIANT InvKnownBadExact
INVARIANT InvIntendedExact
CHECK_DEADLOCK FALSE
