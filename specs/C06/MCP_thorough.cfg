SPECIFICATION Spec
CONSTANTS
  PairShapes = {"s1","s2b","l2a","l2d","mlc","l2m"}
  PairVals = {"plain","blank","apos","dquo","both","empty","hash","semi","lines","tab"}
  PairPrefs = {"impl","bare","sq","dq","text"}
  PairSeps = {"sp","sp3","tab"}
  FullProduct = TRUE
  OtherIds = {"same","impl","opp","colrev","ordrev","cell","cellI","mask","rowrev","colkey","qcat","eblk"}
  Access = {"none","block","all"}
CHECK_DEADLOCK FALSE
INVARIANT InvDomain
INVARIANT InvRenderingIsCif
INVARIANT InvIntent
INVARIANT InvTextsDiffer
