------------------------------- MODULE Trace -------------------------------
(* C06 direction B: executions recorded from the real library, re-computed by TLC with the
   operators of CifText and Containers.  TRACE_FILE is a JSON array of traces; a trace is an
   array of events of one kind:

   kind = "text":  {kind, F, raw, before, obs, txt}     F a file (see CifText), raw the columns as they
                   were handed to the library (CifText: RawCol - form, texts, explicit mask or none),
                   before the table the built object held, obs = [oc, f] what
                   CIFFile.deserialize(file.serialize()) returned, txt the text biotite wrote.
                   Events are independent of each other.
   kind = "pair":  {kind, left, right, bn, cn, lrd, rrd, eqs}   two texts (written by a randomising
                   writer, any layout), what the real reader made of each (everything accessed), and
                   eqs = <<[level, al, ar, got]>>: the answers of `==` / `!=` between the two freshly
                   parsed files at file / block bn / category cn level after the prior accesses al, ar.
                   Judged against what the READER MODEL makes of the two texts (EqLevels); if the real
                   reader made something else of a text the event is a diagnostic (READDIFF) only.
   kind = "map":   {kind, fl, pb, pc, op, a, oc, out, abs, ser}   one mapping call on a container of
                   flavour fl (history starts with an empty file); abs is the content after the
                   call, out the returned value, ser = [oc, abs] what writing and re-reading an
                   independent copy of the container gave after the call (MCContainers: `ser`).

   Every event is judged on its own and the run never stops:
     <<"MISMATCH", tid, i, "known" | "unknown", kb, ...>>   the property does not hold for the event;
                   "known" iff a recorded-defect predicate holds AND the observation is exactly what
                   the implementation-shaped model / ApplyKB predicts
     <<"NOTDOM", tid, i>>        the generator left the domain (machinery failure)
     <<"TEXTDIFF", tid, i>>      diagnostic: biotite's text differs from the writer model
     <<"KBMISS", tid, i, kb>>    diagnostic: a recorded defect did not show
     <<"READDIFF", tid, i>>      diagnostic: the real reader and the reader model disagree on a text that
                                 biotite did not write
     <<"PAIRS", tid, i, n>>      n answers of a pair event were judged *)
EXTENDS CifText, Containers, Json, IOUtils

Tr == JsonDeserialize(IOEnv.TRACE_FILE)

VARIABLES tid, l, S
tvars == <<tid, l, S>>

(* ---------------------------------------------------------------- text events *)
JudgeText(e, i) ==
  LET ideal == IdealRoundTrip(e.F)
      kbs   == KB_File(e.F)
      rawok == /\ StoredFile(e.raw) = e.F
               /\ \A k \in DOMAIN e.raw : \A q \in DOMAIN e.raw[k].cats : \A j \in DOMAIN e.raw[k].cats[q].cols :
                     Dom_Raw(e.raw[k].cats[q].cols[j])
  IN /\ (IF Dom_File(e.F) /\ rawok THEN TRUE ELSE PrintT(<<"NOTDOM", tid, i>>))
     /\ (IF e.txt = ImplSerializeFile(e.F) THEN TRUE ELSE PrintT(<<"TEXTDIFF", tid, i>>))
     \* the table the object holds before it is written: whatever the form, the stored table is F
     /\ (IF e.before = e.F THEN TRUE ELSE PrintT(<<"MISMATCH", tid, i, "unknown", {}, "before">>))
     /\ IF e.obs = ideal
        THEN (IF kbs = {} THEN TRUE ELSE PrintT(<<"KBMISS", tid, i, kbs>>))
        ELSE LET impl == ImplRoundTrip(e.F) IN
             PrintT(<<"MISMATCH", tid, i, IF kbs # {} /\ e.obs = impl THEN "known" ELSE "unknown", kbs, impl.oc>>)

(* ---------------------------------------------------------------- pair events *)
JudgePair(e, i) ==
  LET a == ImplReadFile(e.left)
      b == ImplReadFile(e.right)
      lv == EqLevels(a, b, e.bn, e.cn)
      exp(level) == CASE level = "file" -> lv.file [] level = "block" -> lv.block [] level = "cat" -> lv.cat
      judged == {n \in DOMAIN e.eqs : exp(e.eqs[n].level) # "na"}
      wrong  == {n \in judged : e.eqs[n].got # <<exp(e.eqs[n].level)>>}
  IN IF a # e.lrd \/ b # e.rrd THEN PrintT(<<"READDIFF", tid, i>>)
     ELSE /\ PrintT(<<"PAIRS", tid, i, Cardinality(judged)>>)
          /\ \A n \in wrong : PrintT(<<"MISMATCH", tid, i, "unknown", {}, "pair", n, exp(e.eqs[n].level)>>)

(* ---------------------------------------------------------------- mapping events *)
OutMatches(op, exp, got) ==
  IF op \in {"FSet", "FSetWrong", "FDel", "Reload", "BSet", "BDel", "CSet", "CDel"} THEN TRUE ELSE exp = got

MapStep(e, i) ==
  LET r  == ApplyAt(e.fl, S, e.pb, e.pc, e.op, e.a)
      ok == r.oc = e.oc /\ AbsFile(r.f) = e.abs /\ (r.oc # "ok" \/ OutMatches(e.op, r.out, e.out))
      k  == ApplyKBAt(e.fl, S, e.pb, e.pc, e.op, e.a)
      known == r.kb # {} /\ k.oc = e.oc /\ AbsFile(k.f) = e.abs
      \* the observation after the call: a serialisable content is written and read back unchanged,
      \* anything else is refused - whatever the history left inside the objects
      wr    == IdealSerializable(AbsFile(r.f))
      serok == IF wr THEN e.ser.oc = "ok" /\ e.ser.abs = AbsFile(r.f) ELSE e.ser.oc = "Rejected"
  IN IF ok THEN /\ S' = r.f
                /\ (IF serok THEN TRUE
                    ELSE PrintT(<<"MISMATCH", tid, i, "unknown", {}, "ser", AbsFile(r.f), wr>>))
     ELSE /\ PrintT(<<"MISMATCH", tid, i, IF known THEN "known" ELSE "unknown", r.kb, r.oc, AbsFile(r.f), r.out>>)
          /\ S' = IF known THEN k.f ELSE FreshFile(e.abs)

Init == /\ tid \in 1..Len(Tr)
        /\ l = 0
        /\ S = <<>>

Next == /\ l < Len(Tr[tid])
        /\ l' = l + 1
        /\ UNCHANGED tid
        /\ LET e == Tr[tid][l + 1] IN
           IF e.kind = "text" THEN JudgeText(e, l + 1) /\ UNCHANGED S
           ELSE IF e.kind = "pair" THEN JudgePair(e, l + 1) /\ UNCHANGED S
           ELSE MapStep(e, l + 1)

Spec == Init /\ [][Next]_tvars
=============================================================================
