------------------------------- MODULE Trace -------------------------------
(* C06 direction B: executions recorded from the real library, re-computed by TLC with the
   operators of CifText and Containers.  TRACE_FILE is a JSON array of traces; a trace is an
   array of events of one kind:

   kind = "text":  {kind, F, obs, txt}     F a file (see CifText), obs = [oc, f] what
                   CIFFile.deserialize(CIFFile(F).serialize()) returned, txt the text biotite wrote.
                   Events are independent of each other.
   kind = "map":   {kind, fl, pb, pc, op, a, oc, out, abs, ser}   one mapping call on a container of
                   flavour fl (history starts with an empty file); abs is the content after the
                   call, out the returned value, ser = [oc, abs] what writing and re-reading an
                   independent copy of the container gave after the call (MCContainers: `ser`).

   Every event is judged on its own and the run never stops:
     <<"MISMATCH", tid, i, "known" | "unknown", kb, ...>>   the property does not hold for the event;
                   "known" iff a recorded-defect predicate holds AND the observation is exactly what
                   the implementation-shaped model / ApplyKB predicts
     <<"NOTDOM", tid, i>>        the generator left the domain (machinery failure)
     <<"TEXTDIFF", tid, i>>      diagnostic: biotite's text differs from the writer model
     <<"KBMISS", tid, i, kb>>    diagnostic: a recorded defect did not show *)
EXTENDS CifText, Containers, Json, IOUtils

Tr == JsonDeserialize(IOEnv.TRACE_FILE)

VARIABLES tid, l, S
tvars == <<tid, l, S>>

(* ---------------------------------------------------------------- text events *)
JudgeText(e, i) ==
  LET ideal == IdealRoundTrip(e.F)
      kbs   == KB_File(e.F)
  IN /\ (IF Dom_File(e.F) THEN TRUE ELSE PrintT(<<"NOTDOM", tid, i>>))
     /\ (IF e.txt = ImplSerializeFile(e.F) THEN TRUE ELSE PrintT(<<"TEXTDIFF", tid, i>>))
     /\ IF e.obs = ideal
        THEN (IF kbs = {} THEN TRUE ELSE PrintT(<<"KBMISS", tid, i, kbs>>))
        ELSE LET impl == ImplRoundTrip(e.F) IN
             PrintT(<<"MISMATCH", tid, i, IF kbs # {} /\ e.obs = impl THEN "known" ELSE "unknown", kbs, impl.oc>>)

(* ---------------------------------------------------------------- mapping events *)
OutMatches(op, exp, got) ==
  IF op \in {"FSet", "FSetWrong", "FDel", "Reload", "BSet", "BDel", "CSet", "CDel"} THEN TRUE ELSE exp = got

MapStep(e, i) ==
  LET r  == ApplyAt(e.fl, S, e.pb, e.pc, e.op, e.a)
      ok == r.oc = e.oc /\ AbsFile(r.f) = e.abs /\ (r.oc # "ok" \/ OutMatches(e.op, r.out, e.out))
      k  == ApplyKBAt(e.fl, S, e.pb, e.pc, e.op, e.a)
      known == r.kb # {} /\ k.oc = e.oc /\ AbsFile(k.f) = e.abs
      \* the observation after the call: a serialisable content is written and read back unchanged,
      \* anything else is refused - whatever the history left inside the objects
      wr    == IdealSerializable(AbsFile(r.f))
      serok == IF wr THEN e.ser.oc = "ok" /\ e.ser.abs = AbsFile(r.f) ELSE e.ser.oc = "Rejected"
  IN IF ok THEN /\ S' = r.f
                /\ (IF serok THEN TRUE
                    ELSE PrintT(<<"MISMATCH", tid, i, "unknown", {}, "ser", AbsFile(r.f), wr>>))
     ELSE /\ PrintT(<<"MISMATCH", tid, i, IF known THEN "known" ELSE "unknown", r.kb, r.oc, AbsFile(r.f), r.out>>)
          /\ S' = IF known THEN k.f ELSE FreshFile(e.abs)

Init == /\ tid \in 1..Len(Tr)
        /\ l = 0
        /\ S = <<>>

Next == /\ l < Len(Tr[tid])
        /\ l' = l + 1
        /\ UNCHANGED tid
        /\ LET e == Tr[tid][l + 1] IN
           IF e.kind = "text" THEN JudgeText(e, l + 1) /\ UNCHANGED S
           ELSE MapStep(e, l + 1)

Spec == Init /\ [][Next]_tvars
=============================================================================
