SPECIFICATION Spec
CONSTANTS
  Tier = "quick"
INVARIANT InvDomain
INVARIANT InvExact
INVARIANT InvSuperset
INVARIANT InvAdjacency
INVARIANT InvGrid
CHECK_DEADLOCK FALSE
