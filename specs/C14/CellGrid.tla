------------------------------- MODULE CellGrid -------------------------------
(* C14, exhaustive model: every input of a bounded family is evaluated once with the
   operators of CellGridOps (declarative and implementation-shaped layer); the state holds
   the expected results of every public call (S2 replays them against the real CellList) and
   the truth of the design claims (S1 invariants). *)
EXTENDS CellGridOps

(* ------------------------------------------------------------------ bounded input families *)
(* The bounded sets are chosen by the single constant Tier ("tiny", "quick", "thorough")
   and defined here.  They are ordinary constant-level definitions and
   NOT configuration substitutions (Queries <- ...): TLC re-evaluates a substituted constant
   at every reference (measured: 1 s per state instead of 10 ms). *)
CONSTANT Tier
(* Besides the query-heavy families (Inputs, evaluated with the query lattice Queries) there
   is a second, cheap exhaustive family PairInputs, evaluated with the few queries
   QueriesPairs: two atoms whose displacement runs through EVERY class of displacements
   modulo the box, for every tabulated box (all 8 tilt patterns), atoms inside and outside
   the box.  It carries the clause "the adjacency matrix equals the thresholded pairwise
   distance matrix" (and the periodic queries) through the whole box, which the query-heavy
   families with their few atom positions cannot afford.  The state variable vq tells which
   query list an input is evaluated with ("grid" = Queries, "few" = QueriesPairs). *)

\* sequences up to permutation: keep those sorted by a rank function
PtRank(p) == 100 * (p[1] + 5) + 10 * (p[2] + 5) + (p[3] + 5)
SortedSeqs(P, n) == {s \in [1..n -> P] : \A k \in 1..(n - 1) : PtRank(s[k]) <= PtRank(s[k + 1])}
UpTo(P, n) == UNION {SortedSeqs(P, m) : m \in 1..n}
Pts(a, b, c) == (0..a) \X (0..b) \X (0..c)
Masks(n) == {m \in [1..n -> BOOLEAN] : (\E k \in 1..n : m[k]) /\ (\E k \in 1..n : ~m[k])}
AllMasks == UNION {Masks(n) : n \in 1..3}

CS1 == <<1, 1>>   CS32 == <<3, 2>>   CS2 == <<2, 1>>   CS5 == <<5, 1>>   CS12 == <<1, 2>>

Plain(A, CS)      == {<<a, cs, <<>>, <<>>>> : a \in A, cs \in CS}
WithSel(A, CS)    == {<<am[1], cs, <<>>, <<am[2]>>>> : am \in {x \in A \X AllMasks : Len(x[1]) = Len(x[2])}, cs \in CS}
Periodic(A, CS, BX) == {<<a, cs, <<b>>, <<>>>> : a \in A, cs \in CS, b \in BX}
PeriodicSel(A, CS, BX) == {<<am[1], cs, <<b>>, <<am[2]>>>> : am \in {x \in A \X AllMasks : Len(x[1]) = Len(x[2])}, cs \in CS, b \in BX}

QueriesOf(lo, hi) ==
  LET n == hi - lo + 1
  IN [j \in 1..(n * n * n) |-> <<lo + ((j - 1) \div (n * n)), lo + (((j - 1) \div n) % n), lo + ((j - 1) % n)>>]
\* a sublattice of the cube that still contains every value of every coordinate pair
Thin(Q) == SelectSeq(Q, LAMBDA p : (p[1] + 2 * p[2] + 3 * p[3] + 40) % 4 = 0)
FarQueries == <<<<-9, 0, 1>>, <<12, 12, 12>>, <<1, -11, 2>>, <<0, 1, 17>>, <<-8, -8, -8>>>>

CellRadiiDefault == <<0, 1, 2>>
RadiiAll == <<<<0, 1>>, <<1, 1>>, <<1, 2>>, <<3, 2>>, <<4, 1>>, <<5, 2>>, <<9, 1>>, <<17, 2>>, <<25, 2>>, <<55, 2>>>>

InputsTiny  == Plain(UpTo(Pts(1, 1, 0), 2), {CS1}) \cup Periodic(UpTo(Pts(1, 0, 0), 1), {CS2}, {Ortho444})
QueriesTiny == QueriesOf(-1, 1)

InputsQuick ==
       Plain(UpTo(Pts(3, 2, 1), 2), {CS1, CS32, CS5})
  \cup Plain(SortedSeqs(Pts(1, 1, 1), 3), {CS1, CS32})
  \cup WithSel(SortedSeqs({<<0, 0, 0>>, <<1, 2, 0>>, <<3, 0, 1>>, <<1, 2, 1>>}, 3) \cup SortedSeqs({<<0, 1, 0>>, <<2, 1, 3>>}, 2), {CS1, CS2})
  \cup Periodic(UpTo({<<0, 0, 0>>, <<3, 1, 0>>, <<1, 3, 2>>, <<4, 5, -1>>, <<2, 2, 2>>}, 2), {CS1, CS2}, {Ortho444, Tric1})
  \cup Periodic(UpTo({<<0, 0, 0>>, <<1, 3, 7>>, <<3, 1, 4>>}, 2), {CS32}, {Ortho248, Tric2, RotOrtho})
  \cup Periodic(UpTo({<<0, 0, 0>>, <<1, 3, 2>>, <<3, 1, 4>>}, 2), {CS2}, TiltBoxes \cup {Tric3})
  \cup PeriodicSel(SortedSeqs({<<0, 0, 0>>, <<3, 1, 0>>, <<1, 3, 2>>}, 3), {CS2}, {Ortho444, Tric1})
QueriesQuick == Thin(QueriesOf(-2, 5)) \o FarQueries

\* second atom = first atom + w (+ a lattice vector), w over all points of the box
PairStarts == {<<Zero3, Zero3>>, <<<<-1, 2, 5>>, <<1, -1, 0>>>>, <<<<3, 3, 1>>, <<0, 1, -2>>>>}
PairsOf(B, ST) == {<<<<st[1], VAdd(VAdd(st[1], w), LatVec(st[2], B))>>, CS2, <<B>>, <<>>>> : w \in BoxPoints(B), st \in ST}
\* quick: one box per tilt pattern and two starts; thorough: every tabulated box, three starts
OnePerPattern == {Ortho444, Tric1, Tric2, Tric3} \cup TiltBoxes
PairInputs == CASE Tier = "tiny" -> PairsOf(TricBC, {<<Zero3, Zero3>>})
                [] Tier = "quick" -> UNION {PairsOf(B, {<<Zero3, Zero3>>, <<<<-1, 2, 5>>, <<1, -1, 0>>>>}) : B \in OnePerPattern}
                [] Tier = "thorough" -> UNION {PairsOf(B, PairStarts) : B \in TabBoxes}
QueriesPairs == <<<<0, 0, 0>>, <<1, 3, 2>>, <<2, 1, 3>>, <<-3, 2, 6>>, <<-9, 0, 1>>, <<1, -11, 2>>>>
ASSUME {TiltPattern(B) : B \in OnePerPattern} = BOOLEAN \X BOOLEAN \X BOOLEAN

InputsThorough ==
       Plain(UpTo(Pts(3, 2, 1), 2), {CS1, CS32, CS2, CS5, CS12})
  \cup Plain(SortedSeqs(Pts(2, 1, 1), 3), {CS1, CS32})
  \cup WithSel(SortedSeqs(Pts(1, 1, 1), 3) \cup SortedSeqs(Pts(1, 1, 1), 2), {CS1})
  \cup Periodic(UpTo({<<0, 0, 0>>, <<3, 1, 0>>, <<1, 3, 2>>, <<4, 5, -1>>, <<2, 2, 2>>, <<-1, 0, 3>>, <<7, 7, 1>>}, 2), {CS1, CS2, CS32}, TabBoxes)
  \cup Periodic(SortedSeqs({<<0, 0, 0>>, <<3, 1, 0>>, <<1, 3, 2>>, <<4, 5, -1>>, <<-1, 0, 3>>}, 3), {CS2}, {Ortho444, Tric1, Tric3})
  \cup PeriodicSel(SortedSeqs({<<0, 0, 0>>, <<3, 1, 0>>, <<1, 3, 2>>, <<2, 2, 2>>}, 3), {CS2, CS1}, {Ortho444, Tric1, Tric2})
  \cup PeriodicSel(SortedSeqs({<<0, 0, 0>>, <<3, 1, 0>>, <<1, 3, 2>>}, 3), {CS2}, TiltBoxes)
QueriesThorough == QueriesOf(-2, 5) \o FarQueries

Inputs    == CASE Tier = "tiny" -> InputsTiny [] Tier = "quick" -> InputsQuick [] Tier = "thorough" -> InputsThorough
Queries   == CASE Tier = "tiny" -> QueriesTiny [] Tier = "quick" -> QueriesQuick [] Tier = "thorough" -> QueriesThorough
Radii     == RadiiAll
CellRadii == CellRadiiDefault

(* ------------------------------------------------------------------ the model *)
\* per-query radii for the vectorised call: query j gets Radii[((j + s) % |Radii|) + 1]
MultiShifts == <<0, 3>>
MultiRho(j, s) == Radii[((j + s) % Len(Radii)) + 1]

(* Evaluate(inp) = <<result, checks>>.
   result = <<near, multi, must, cells, adj, pair>>:
     (rows over the queries Q are packed with PackRow)
     near[r][j]   bits of get_atoms(Q[j], Radii[r])
     multi[s][j]  bits of get_atoms(Q, per-query radii MultiRho(j, MultiShifts[s]))[j]
     must[c][j]   bits every get_atoms_in_cells(Q[j], CellRadii[c]) must contain
     cells[c][j]  bits the implementation-shaped grid returns for that call (diagnostic)
     adj[r][k]    bits of row k of create_adjacency_matrix(Radii[r])
     pair         <<d2, exact>>: d2[k][m] the squared (minimum-image) distance of atoms k, m as
                  the pairwise distance functions have to report it, exact = PairExact(inp)
                  (FALSE: the box is outside Dom_Images8, entries may be larger)
   checks = <<exact, superset, adjacency, grid, pairdist>> the design claims for this input. *)
Evaluate(inp, Q) ==
  LET g   == Grid(inp)
      sel == Selected(inp)
      n   == N(inp)
      \* squared distances: queries x atoms, atoms x atoms (declarative layer)
      dq  == Eager([j \in DOMAIN Q |-> Eager([k \in 1..n |-> D2P(inp, g.bx, inp[1][k], Q[j])])])
      da  == Eager([k \in 1..n |-> Eager([m \in 1..n |-> D2P(inp, g.bx, inp[1][k], inp[1][m])])])
      near(j, rho) == {k \in sel : Within(dq[j][k], rho)}
      adjrow(k, rho) == IF k \in sel THEN {m \in sel : Within(da[k][m], rho)} ELSE {}
      \* implementation-shaped layer
      qq  == Eager([j \in DOMAIN Q |-> ImplQuery(inp, g, Q[j])])
      qc  == Eager([j \in DOMAIN Q |-> CellOf(qq[j], g.mn, inp[2])])
      cr  == Eager([r \in DOMAIN Radii |-> CellRadius(Radii[r], inp[2])])
      \* per query and stored position: <<Chebyshev cell distance, squared distance>>
      pm  == Eager([j \in DOMAIN Q |->
                     Eager([m \in DOMAIN g.C |-> <<CellCheb(g.ac[m], qc[j], g.cnt), Dist2(g.C[m], qq[j])>>])])
      inear(j, r) == {OrigOf(inp, m) : m \in {x \in g.stored : pm[j][x][1] <= cr[r] /\ Within(pm[j][x][2], Radii[r])}}
      icells(j, c) == {OrigOf(inp, m) : m \in {x \in g.stored : pm[j][x][1] <= c}}
      Near_  == Eager([r \in DOMAIN Radii |-> Eager([j \in DOMAIN Q |-> near(j, Radii[r])])])
      INear_ == Eager([r \in DOMAIN Radii |-> Eager([j \in DOMAIN Q |-> inear(j, r)])])
      Must_  == Eager([c \in DOMAIN CellRadii |-> Eager([j \in DOMAIN Q |-> near(j, CellRho(inp[2], CellRadii[c]))])])
      Cells_ == Eager([c \in DOMAIN CellRadii |-> Eager([j \in DOMAIN Q |-> icells(j, CellRadii[c])])])
      Adj_   == Eager([r \in DOMAIN Radii |-> Eager([k \in 1..n |-> adjrow(k, Radii[r])])])
  IN << << [r \in DOMAIN Radii |-> PackRow([j \in DOMAIN Q |-> BitsOf(Near_[r][j])])],
           [s \in DOMAIN MultiShifts |-> PackRow([j \in DOMAIN Q |-> BitsOf(near(j, MultiRho(j, MultiShifts[s])))])],
           [c \in DOMAIN CellRadii |-> PackRow([j \in DOMAIN Q |-> BitsOf(Must_[c][j])])],
           [c \in DOMAIN CellRadii |-> PackRow([j \in DOMAIN Q |-> BitsOf(Cells_[c][j])])],
           [r \in DOMAIN Radii |-> [k \in 1..n |-> BitsOf(Adj_[r][k])]],
           <<da, PairExact(inp)>> >>,
        << \* exact: the cell-list algorithm returns exactly the atoms within the radius
           Near_ = INear_,
           \* superset: cell queries contain every atom within cell_radius * cell_size
           \* and nothing that is not selected
           \A c \in DOMAIN CellRadii : \A j \in DOMAIN Q :
               Must_[c][j] \subseteq Cells_[c][j] /\ Cells_[c][j] \subseteq sel,
           \* adjacency: symmetric, selected diagonal set, unselected rows/columns empty
           \A r \in DOMAIN Radii : \A k, m \in 1..n :
               /\ (m \in Adj_[r][k]) <=> (k \in Adj_[r][m])
               /\ (k \in sel => k \in Adj_[r][k])
               /\ (m \in Adj_[r][k] => (k \in sel /\ m \in sel)),
           ImplCellsInGrid(g),
           \* pairdist: the adjacency matrix is the pairwise distance matrix thresholded (and
           \* restricted to the selection); the algorithm of the distance functions
           \* (orthogonal shortcut / 8 copies) returns the length of a periodic copy, the
           \* shortest one for boxes inside Dom_Images8
           /\ \A r \in DOMAIN Radii : \A k \in 1..n :
                 Adj_[r][k] = DistAdjRow(inp, k, Radii[r]) /\ Adj_[r][k] = AdjRow(inp, k, Radii[r])
           /\ \A k, m \in 1..n :
                 LET i2 == ImplPairD2(inp, g.bx, k, m)
                 IN i2 >= da[k][m] /\ (PairExact(inp) => i2 = da[k][m]) /\ da[k][m] = da[m][k] >> >>

\* (state variables are named so that they cannot coincide with a bound variable or parameter
\* of a constant definition - TLC would stop caching that definition, see Trace.tla)
VARIABLES vin, vq, vout     \* vout = <<>> before, <<result, checks>> after the evaluation
vars == <<vin, vq, vout>>

QueriesFor(tag) == IF tag = "few" THEN QueriesPairs ELSE Queries
Init == /\ vout = <<>>
        /\ \/ vin \in Inputs /\ vq = "grid"
           \/ vin \in PairInputs /\ vq = "few"
Next == vout = <<>> /\ vout' = Evaluate(vin, QueriesFor(vq)) /\ UNCHANGED <<vin, vq>>
Spec == Init /\ [][Next]_vars

Done == vout # <<>>

(* ------------------------------------------------------------------ S1: design claims *)
InvDomain    == Dom_Input(vin) /\ N(vin) <= 3 /\ (IsPeriodic(vin) => BoxOf(vin) \in TabBoxes)
InvExact     == Done => vout[2][1]
InvSuperset  == Done => vout[2][2]
InvAdjacency == Done => vout[2][3]
InvGrid      == Done => vout[2][4]
InvPairDist  == Done => vout[2][5]

\* the search over images -2..2 of the declarative layer is stable (-3..3 finds nothing
\* shorter) and the boxes with tables satisfy Dom_Images27
ASSUME \A B \in TabBoxes : MinImageTable(B, 3) = BoxTables[B]
ASSUME \A B \in TabBoxes : Dom_Images27(B, BoxTables[B])
ASSUME \A r \in DOMAIN Radii : Dom_Radius(Radii[r])
\* the driver reads the bounded sets from TLC (it never rebuilds them)
ASSUME PrintT(<<"C14CONST", Queries, Radii, CellRadii, MultiShifts, QueriesPairs>>)
\* ... and the kinds of caller's arrays (names, which are integer kinds, which may be refused): the
\* arrays handed to the real CellList for the inputs of this model are cycled through them
KindFlags(seq) == <<seq, [i \in DOMAIN seq |-> seq[i] \in IntKinds], [i \in DOMAIN seq |-> seq[i] \in RefusableKinds]>>
ASSUME PrintT(<<"C14KINDS", KindFlags(CoordKindSeq), KindFlags(RadiiKindSeq), KindFlags(SelKindSeq)>>)
=============================================================================
