SPECIFICATION Spec
CONSTANTS
  Tier = "quick"
  MaxCalls = 2
INVARIANT InvDomain
INVARIANT InvPure
INVARIANT InvSameAnswer
INVARIANT InvImpl
CHECK_DEADLOCK FALSE
