SPECIFICATION Spec
CONSTANTS
  Tier = "thorough"
  MaxCalls = 3
INVARIANT InvDomain
INVARIANT InvPure
INVARIANT InvSameAnswer
INVARIANT InvImpl
CHECK_DEADLOCK FALSE
