------------------------------- MODULE CellSession -------------------------------
(* C14, sessions: histories of public calls on ONE cell list with the SAME argument objects,
   for every construction form and every kind of caller's array.

   The property quantifies over values (coordinates, radii, query points, boxes, selections).
   Three things about the way the values reach the cell list are therefore irrelevant for the
   answer - and each of them is an input dimension of the real code:
     * the construction form  (coordinates as ndarray or AtomArray, with / without an own box,
       box= given / not given / different from the own one, periodic flag): the box that
       counts is EffBox(form);
     * the kind of array (element type, memory layout, write protection) of the coordinates,
       the query points, the per-query radii, the selection and the box;
     * the history: a cell list is immutable and every call leaves the caller's arrays as
       they are (ArgsAfter), so the k-th call of a history answers like a first call.
   A state is one session: sesCase = <<atoms, cs, sel, form, kinds>>, sesCon = <<outcome of the
   construction, may it be refused>>, sesArgs = the values held by the caller's argument arrays
   (changed only by ArgsAfter), sesHist = the calls made, sesRes = for every call
   <<expected answer, relation, may the call be refused>>.
   The states with a complete history (MaxCalls calls; none for a refused construction) are the
   behaviours S2 replays against the real CellList: one set of array objects for the whole
   history, every answer compared, every array compared with a snapshot after every call. *)
EXTENDS CellGridOps
CONSTANTS Tier, MaxCalls

SB1 == Ortho444
SB2 == Tric2
SessForms == FormsOver({SB1, SB2})

\* base systems <<atoms, cs, sel>>: without and with a selection
BaseA == <<<<<<0, 0, 0>>, <<3, 1, 0>>, <<1, 3, 2>>>>, <<2, 1>>, <<>>>>
BaseS == <<<<<<-1, 2, 5>>, <<3, 1, 0>>, <<2, 2, 2>>>>, <<3, 2>>, <<<<TRUE, FALSE, TRUE>>>>>>
BaseD == <<<<<<1, 1, 1>>, <<1, 1, 1>>, <<5, 4, 2>>>>, <<1, 1>>, <<<<FALSE, TRUE, TRUE>>>>>>
\* the values of the argument arrays: integer radii (every kind of radii array can hold them),
\* query points inside, on the border of and outside the atoms' bounding box
SessArgs == << <<<<0, 0, 0>>, <<2, 1, 1>>, <<3, 2, 0>>, <<-3, 2, 6>>, <<1, 4, 2>>, <<5, 1, -2>>>>,
               <<<<4, 1>>, <<9, 1>>, <<1, 1>>, <<4, 1>>, <<0, 1>>, <<9, 1>>>>,
               <<4, 1>>,
               <<1, 0, 2, 1, 0, 1>>,
               1 >>

DefaultKinds == <<"f4", "f8", "f4", "b", "f8">>
CycAt(s, i) == s[((i - 1) % Len(s)) + 1]
\* every kind of every array at least once with plain partners, plus a diagonal of mixtures
KindTuples ==
       {<<k, "f4", "f4", "b", "f8">> : k \in CoordKinds}
  \cup {<<"f4", k, "f8", "b", "f4">> : k \in CoordKinds}
  \cup {<<"f8", "f8", k, "b", "f4">> : k \in RadiiKinds}
  \cup {<<"f4", "f4", "f4", k, "f8">> : k \in SelKinds}
  \cup {<<"f8", "f4", "f4", "b", k>> : k \in CoordKinds}
  \cup {<<CycAt(CoordKindSeq, i), CycAt(CoordKindSeq, i + 5), CycAt(RadiiKindSeq, i), CycAt(SelKindSeq, i), CycAt(CoordKindSeq, i + 7)>> : i \in 1..12}
\* three plain forms for the kind cases: not periodic, ndarray + box=, AtomArray with its own box
PlainForms == {<<"nd", <<>>, <<>>, FALSE>>, <<"nd", <<>>, <<SB2>>, TRUE>>, <<"aa", <<SB1>>, <<>>, TRUE>>}

FormCases(bases) == {<<b[1], b[2], b[3], f, DefaultKinds>> : b \in bases, f \in SessForms}
KindCases(bases) == {<<b[1], b[2], b[3], f, k>> : b \in bases, f \in PlainForms, k \in KindTuples}

CaseForm(c)  == c[4]
CaseKinds(c) == c[5]
CaseInput(c) == FormInput(c[1], c[2], c[3], c[4])

\* (state variables are named so that they cannot coincide with a bound variable or parameter
\* of a constant definition, see CellGrid.tla)
VARIABLES sesCase, sesCon, sesArgs, sesHist, sesRes
svars == <<sesCase, sesCon, sesArgs, sesHist, sesRes>>

Init ==
  /\ \/ sesCase \in FormCases(IF Tier = "thorough" THEN {BaseA, BaseS, BaseD} ELSE {BaseA, BaseS})
     \/ sesCase \in KindCases({BaseS})
  /\ sesCon = <<FormOutcome(CaseForm(sesCase)), MayRefuseConstruct(CaseKinds(sesCase))>>
  /\ sesArgs = SessArgs
  /\ sesHist = <<>>
  /\ sesRes = <<>>
Call(op) ==
  /\ sesCon[1] = "ok"
  /\ Len(sesHist) < MaxCalls
  /\ sesHist' = Append(sesHist, op)
  /\ sesRes' = Append(sesRes, <<CallResult(CaseInput(sesCase), sesArgs, op), CallRelation(op),
                                MayRefuseCall(op, CaseKinds(sesCase))>>)
  /\ sesArgs' = ArgsAfter(op, sesArgs)
  /\ UNCHANGED <<sesCase, sesCon>>
Next == \E op \in CallOps : Call(op)
Spec == Init /\ [][Next]_svars

(* ------------------------------------------------------------------ S1: design claims *)
InvDomain ==
  /\ Dom_Form(CaseForm(sesCase)) /\ Dom_Kinds(CaseKinds(sesCase))
  /\ Dom_KindValues(CaseKinds(sesCase), 1, sesArgs[2])
  /\ sesCon[1] = "ok" => /\ Dom_Input(CaseInput(sesCase))
                         /\ (IsPeriodic(CaseInput(sesCase)) => BoxOf(CaseInput(sesCase)) \in TabBoxes)
  /\ \A j \in DOMAIN sesArgs[2] : Dom_Radius(sesArgs[2][j])
  /\ Dom_Radius(sesArgs[3])
\* the caller's arrays hold the values they were made from after any history
InvPure == sesArgs = SessArgs
\* the same call has the same answer wherever it stands in a history
InvSameAnswer == \A i, j \in DOMAIN sesHist : sesHist[i] = sesHist[j] => sesRes[i] = sesRes[j]
\* the grid algorithm of celllist.pyx on the effective input returns the declarative answer
\* (evaluated once per case: after a first call)
InvImpl ==
  (sesHist = <<"multi">>) =>
    LET inp == CaseInput(sesCase)  g == Grid(inp) IN
    \A j \in DOMAIN sesArgs[1] :
       /\ ImplNear(inp, g, sesArgs[1][j], sesArgs[2][j]) = Near(inp, sesArgs[1][j], sesArgs[2][j])
       /\ ImplNear(inp, g, sesArgs[1][j], sesArgs[3]) = Near(inp, sesArgs[1][j], sesArgs[3])
       /\ MustInCells(inp, sesArgs[1][j], sesArgs[4][j]) \subseteq ImplInCells(inp, g, sesArgs[1][j], sesArgs[4][j])

(* The construction forms are decisive: for every base system the three effective boxes (none,
   SB1, SB2) give pairwise different answers to the per-query call, so a cell list built with
   the wrong box (or with a box it should ignore) cannot answer a history right.  And the arguments are decisive:
   some answer is neither empty nor the whole selection. *)
Answers(b, box) ==
  LET inp == <<b[1], b[2], box, b[3]>>
  IN <<CallResult(inp, SessArgs, "multi"), CallResult(inp, SessArgs, "near"), CallResult(inp, SessArgs, "adj")>>
ASSUME \A b \in {BaseA, BaseS, BaseD} :
         /\ Answers(b, <<>>)[1] # Answers(b, <<SB1>>)[1]
         /\ Answers(b, <<>>)[1] # Answers(b, <<SB2>>)[1]
         /\ Answers(b, <<SB1>>)[1] # Answers(b, <<SB2>>)[1]
         /\ \E j \in DOMAIN SessArgs[1] : Answers(b, <<>>)[1][j] \notin {0, BitsOf(Selected(<<b[1], b[2], <<>>, b[3]>>))}
ASSUME SB1 # SB2 /\ {SB1, SB2} \subseteq TabBoxes
ASSUME Len(CoordKindSeq) = 12 /\ Cardinality(CoordKinds) = 12 /\ Cardinality(RadiiKinds) = Len(RadiiKindSeq)
\* every kind of every array occurs in the kind cases
ASSUME /\ {k[1] : k \in KindTuples} = CoordKinds /\ {k[2] : k \in KindTuples} = CoordKinds
       /\ {k[3] : k \in KindTuples} = RadiiKinds /\ {k[4] : k \in KindTuples} = SelKinds
       /\ {k[5] : k \in KindTuples} = CoordKinds
ASSUME PrintT(<<"C14SESSION", CallOpSeq, Cardinality(SessForms), Cardinality(KindTuples)>>)
=============================================================================
