SPECIFICATION Spec
CONSTANTS
  Tier = "thorough"
INVARIANT InvDomain
INVARIANT InvExact
INVARIANT InvSuperset
INVARIANT InvAdjacency
INVARIANT InvGrid
INVARIANT InvPairDist
CHECK_DEADLOCK FALSE
