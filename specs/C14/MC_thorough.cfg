SPECIFICATION Spec
CONSTANTS
  Tier = "thorough"
INVARIANT InvDomain
INVARIANT InvExact
INVARIANT InvSuperset
INVARIANT InvAdjacency
INVARIANT InvGrid
CHECK_DEADLOCK FALSE
