------------------------------- MODULE CellGridOps -------------------------------
(* C14: biotite.structure.CellList on the integer lattice.

   Two layers.
   * Declarative (the property): Near = the atoms whose (minimum-image) squared distance to
     the query does not exceed the squared radius; MustInCells = the atoms a cell-based
     query has to contain; AdjRow = thresholded pairwise distances.
   * Implementation-shaped (celllist.pyx): a grid with origin at the minimum coordinate of
     ALL atoms (selected or not; for periodic lists: of the 27 replicated images of the
     atoms moved into the box), cell index = C truncation of (x - min) / cell_size, cell
     count trunc((max - min) / cell_size + 1), a query visits the cube of cells of radius
     ceil(radius / cell_size) around its own (unclamped) cell index, clipped to the grid,
     and filters the candidates by squared distance; periodic indices are reduced mod n.
   S1 (TLC) decides that the two layers agree for every bounded input, i.e. the *design*
   (grid origin, truncation instead of floor for queries left of the grid, clipping, 27
   images) has the property.  S2 / S3 compare the real CellList with the declarative layer
   (verdict) and with the implementation-shaped candidate sets (diagnostic only).

   An input is   <<atoms, cs, box, sel>>
     atoms  non-empty sequence of integer points (atom k of the code is atoms[k+1])
     cs     cell size <<num, den>> > 0
     box    <<>> (not periodic) or <<B>> (periodic with box matrix B)
     sel    <<>> (no selection) or <<mask>> with mask a sequence of BOOLEANs, one per atom
   Radii are squared radii <<num, den>> (Lattice!Dom_Radius).  Index sets are reported as
   bit masks  Sum 2^k over the 0-based atom indices k  (the as_mask=True row read as a
   binary number), so results are sequences of small integers. *)
EXTENDS Lattice, TLC

(* ------------------------------------------------------------------ domains *)
Dom_Atoms(atoms)  == Len(atoms) >= 1
Dom_CellSize(cs)  == cs[1] > 0 /\ cs[2] > 0
Dom_Sel(atoms, sel) == sel = <<>> \/ (Len(sel[1]) = Len(atoms) /\ \E k \in DOMAIN sel[1] : sel[1][k])
Dom_Box(box)      == box = <<>> \/ IsBox(box[1])
Dom_Input(inp)    == Dom_Atoms(inp[1]) /\ Dom_CellSize(inp[2]) /\ Dom_Box(inp[3]) /\ Dom_Sel(inp[1], inp[4])
(* Dom_Images27(B): the 27 images kept by a periodic cell list contain a minimum image of
   every displacement between two points of the box, i.e. for w1, w2 inside the box some
   image w1 - w2 + k.B with k in {-1,0,1}^3 is a shortest one.  True for every orthogonal
   box; for triclinic boxes it says the box is not too skewed.  It is evaluated by TLC for
   each box used (ASSUME below / Trace), not taken on trust. *)
Dom_Images27(B, T) ==   \* T = MinImageTable(B, 2)
  LET L == LatVecs(B, 1)  bx == BoxCtx(B)
  IN \A d \in {VSub(w1, w2) : w1 \in DOMAIN T, w2 \in DOMAIN T} :
        SetMin({Norm2(VAdd(d, l)) : l \in L}) = T[MoveInsideP(d, bx)]

IsPeriodic(inp) == inp[3] # <<>>
BoxOf(inp)      == inp[3][1]
N(inp)          == Len(inp[1])
Selected(inp)   == IF inp[4] = <<>> THEN 1..N(inp) ELSE {k \in 1..N(inp) : inp[4][1][k]}

RECURSIVE BitsOf(_)
BitsOf(S) == IF S = {} THEN 0 ELSE LET k == CHOOSE x \in S : TRUE IN 2 ^ (k - 1) + BitsOf(S \ {k})

Eager(s) == EagerSeq(s)

(* Rows of bit masks are printed packed: for at most 3 atoms a mask is an octal digit, and
   ten consecutive masks form one integer  m1 + 8*m2 + ... + 8^9*m10  (< 2^30).  This only
   keeps TLC's state dump small (one integer per line otherwise); drivers unpack it. *)
PackRow(row) ==
  LET n == Len(row)
      D(b, i) == LET x == 10 * (b - 1) + i IN IF x <= n THEN row[x] ELSE 0
  IN [b \in 1..((n + 9) \div 10) |->
        D(b,1) + 8 * (D(b,2) + 8 * (D(b,3) + 8 * (D(b,4) + 8 * (D(b,5) + 8 * (D(b,6) + 8 * (D(b,7) + 8 * (D(b,8) + 8 * (D(b,9) + 8 * D(b,10)))))))))]

(* boxes with a precomputed (constant, evaluated once) minimum-image table; any other box
   is handled by direct search *)
Ortho444 == Diag(4, 4, 4)
Ortho248 == Diag(2, 4, 8)
Tric1    == <<<<4, 0, 0>>, <<2, 4, 0>>, <<0, 0, 4>>>>
Tric2    == <<<<4, 0, 0>>, <<0, 4, 0>>, <<2, -2, 4>>>>
RotOrtho == <<<<2, 2, 0>>, <<-2, 2, 0>>, <<0, 0, 4>>>>
Ortho844 == Diag(8, 4, 4)
Tric3    == <<<<8, 0, 0>>, <<-2, 4, 0>>, <<2, 2, 4>>>>
LeftHand == <<<<0, 4, 0>>, <<4, 0, 0>>, <<0, 0, 4>>>>          \* negative determinant
(* The tilt pattern of a box says which of the three pairs of box vectors are NOT
   perpendicular: <<a.b # 0, a.c # 0, b.c # 0>>.  Whether a box is orthogonal is decided by
   the library pair by pair (box.is_orthogonal) and selects the algorithm of the pairwise
   distance functions, so every one of the 8 patterns is a value class of its own:
     FFF the orthogonal boxes above, TFF Tric1, FTT Tric2, TTT Tric3,
     FTF TricAC, FFT TricBC, TTF TricABAC, TFT TricABBC. *)
TricAC   == <<<<4, 0, 0>>, <<0, 4, 0>>, <<2, 0, 4>>>>
TricBC   == <<<<4, 0, 0>>, <<0, 4, 0>>, <<0, 2, 4>>>>
TricABAC == <<<<4, 0, 0>>, <<2, 4, 0>>, <<2, -1, 4>>>>
TricABBC == <<<<4, 0, 0>>, <<2, 4, 0>>, <<0, 2, 4>>>>
TiltBoxes == {TricAC, TricBC, TricABAC, TricABBC}
TabBoxes == {Ortho444, Ortho248, Tric1, Tric2, RotOrtho, Ortho844, Tric3, LeftHand} \cup TiltBoxes
TiltPattern(B) == <<Dot(B[1], B[2]) # 0, Dot(B[1], B[3]) # 0, Dot(B[2], B[3]) # 0>>
BoxTables == EagerFcn([B \in TabBoxes |-> MinImageTable(B, 2)])
MinN2(d, bx) ==
  IF bx.B \in TabBoxes THEN BoxTables[bx.B][MoveInsideP(d, bx)] ELSE MinImageN2(d, bx.B, 2)

(* ------------------------------------------------------------------ declarative layer *)
\* squared (minimum-image) distance between the point p and the point q
D2P(inp, bx, p, q) == IF IsPeriodic(inp) THEN MinN2(VSub(p, q), bx) ELSE Dist2(p, q)
BxOf(inp) == IF IsPeriodic(inp) THEN BoxCtx(BoxOf(inp)) ELSE BoxCtx(Id3)
D2(inp, k, q) == D2P(inp, BxOf(inp), inp[1][k], q)

\* get_atoms(q, radius): 1-based positions of the atoms within the radius
Near(inp, q, rho) == {k \in Selected(inp) : Within(D2(inp, k, q), rho)}

\* get_atoms_in_cells(q, c) must contain every atom within c * cell_size
CellRho(cs, c) == <<c * c * cs[1] * cs[1], cs[2] * cs[2]>>
MustInCells(inp, q, c) == Near(inp, q, CellRho(inp[2], c))

\* create_adjacency_matrix(threshold): row k = atoms within the threshold of atom k;
\* rows and columns of unselected atoms are empty
AdjRow(inp, k, rho) == IF k \in Selected(inp) THEN Near(inp, inp[1][k], rho) ELSE {}

(* ------------------------------------------------------------------ pairwise distance matrix *)
(* "the adjacency matrix equals the thresholded pairwise distance matrix": the pairwise
   distance matrix is the one the library's own distance functions return
   (geometry.distance(box=...) / index_distance(periodic=True): minimum-image convention).
   PairD2(inp, k, m) is the squared (minimum-image) distance between atom k and atom m
   (every atom, selected or not: the distance functions know no selection) and
   DistAdjRow(inp, k, rho) is row k of that matrix thresholded at rho and restricted to the
   selection - which the property says is row k of the adjacency matrix.

   Domain.  The documentation of the distance functions warns that for non-orthorhombic
   boxes the shortest periodic copy is not guaranteed to be found, "especially for heavily
   skewed boxes": only the 8 copies  w + k.B, k in {-1, 0}^3  of the displacement w moved
   into the box are looked at.  Dom_Images8(B) is the geometric condition on the box under
   which that is harmless (these 8 copies always contain a shortest one) - the counterpart
   of Dom_Images27 for the cell list.  It holds for every orthogonal box; TLC evaluates it
   for each tabulated box (PairExact).  For a box outside Dom_Images8 only
       distance matrix entry >= minimum-image distance
   is required (the distance functions always return the length of SOME periodic copy),
   i.e. thresholded distance matrix \subseteq adjacency matrix. *)
Dom_Images8(B, T) ==    \* T = MinImageTable(B, 2)
  \A w \in DOMAIN T : SetMin({Norm2(VAdd(w, LatVec(Shifts8[k], B))) : k \in 1..8}) = T[w]
PairExactTab == EagerFcn([B \in TabBoxes |-> Dom_Images8(B, BoxTables[B])])
PairExact(inp) == IF IsPeriodic(inp) THEN (IF BoxOf(inp) \in TabBoxes THEN PairExactTab[BoxOf(inp)] ELSE FALSE) ELSE TRUE
PairD2(inp, k, m) == D2(inp, k, inp[1][m])
DistAdjRow(inp, k, rho) == IF k \in Selected(inp) THEN {m \in Selected(inp) : Within(PairD2(inp, k, m), rho)} ELSE {}
\* implementation-shaped (geometry.displacement: orthogonal shortcut or 8 copies, chosen by
\* is_orthogonal): squared length of the displacement from atom k to atom m
ImplPairD2(inp, bx, k, m) ==
  IF IsPeriodic(inp) THEN Norm2(ImplDispP(VSub(inp[1][m], inp[1][k]), bx)) ELSE Dist2(inp[1][k], inp[1][m])

(* ------------------------------------------------------------------ implementation-shaped layer *)
\* stored coordinates: the atoms (moved into the box and followed by their 26 other
\* images in repeat_box_coord's loop order when periodic)
Shifts27 == <<Zero3>> \o
  [m \in 1..26 |-> LET t == IF m <= 13 THEN m - 1 ELSE m
                   IN <<(t \div 9) - 1, ((t \div 3) % 3) - 1, (t % 3) - 1>>]
ImplCoords(inp) ==
  IF IsPeriodic(inp)
  THEN LET bx == BxOf(inp)
           W == Eager([k \in 1..N(inp) |-> MoveInsideP(inp[1][k], bx)])
           S == Eager([t \in 1..27 |-> LatVec(Shifts27[t], bx.B)])
       IN Eager([m \in 1..(27 * N(inp)) |-> VAdd(W[((m - 1) % N(inp)) + 1], S[((m - 1) \div N(inp)) + 1])])
  ELSE inp[1]
OrigOf(inp, m) == ((m - 1) % N(inp)) + 1

\* <int>((x - min) / cell_size): truncation toward zero (x may be left of the grid)
CellIdx(x, mn, cs) == TruncDiv((x - mn) * cs[2], cs[1])
CellOf(p, mn, cs)  == <<CellIdx(p[1], mn[1], cs), CellIdx(p[2], mn[2], cs), CellIdx(p[3], mn[3], cs)>>

\* everything __cinit__ derives from the input, computed once per input
Grid(inp) ==
  LET C  == ImplCoords(inp)
      mn == <<SetMin({C[m][1] : m \in DOMAIN C}), SetMin({C[m][2] : m \in DOMAIN C}), SetMin({C[m][3] : m \in DOMAIN C})>>
      mx == <<SetMax({C[m][1] : m \in DOMAIN C}), SetMax({C[m][2] : m \in DOMAIN C}), SetMax({C[m][3] : m \in DOMAIN C})>>
      sel == Selected(inp)
  IN [C |-> C, mn |-> mn,
      cnt |-> <<CellIdx(mx[1], mn[1], inp[2]) + 1, CellIdx(mx[2], mn[2], inp[2]) + 1, CellIdx(mx[3], mn[3], inp[2]) + 1>>,
      ac |-> Eager([m \in DOMAIN C |-> CellOf(C[m], mn, inp[2])]),
      stored |-> {m \in DOMAIN C : OrigOf(inp, m) \in sel},
      bx |-> BxOf(inp)]

\* ceil(radius / cell_size) = least k with (k * cs)^2 >= rho
CellRadius(rho, cs) ==
  CHOOSE k \in 0..(rho[1] * cs[2] + 1) :
     /\ k * k * cs[1] * cs[1] * rho[2] >= rho[1] * cs[2] * cs[2]
     /\ (k = 0 \/ (k - 1) * (k - 1) * cs[1] * cs[1] * rho[2] < rho[1] * cs[2] * cs[2])

ImplQuery(inp, g, q) == IF IsPeriodic(inp) THEN MoveInsideP(q, g.bx) ELSE q
(* A query whose (unclamped) cell is qc visits, with cell radius cr, the cells
   qc[d]-cr .. qc[d]+cr clipped to 0 .. cnt[d]-1 in every dimension d.  The stored position
   with cell ac is therefore visited iff it lies in the grid and its Chebyshev cell distance
   to qc is at most cr. *)
BigCell == 1000000
CellCheb(ac, qc, cnt) ==
  IF \E d \in 1..3 : ac[d] < 0 \/ ac[d] >= cnt[d] THEN BigCell
  ELSE MaxI(Abs(ac[1] - qc[1]), MaxI(Abs(ac[2] - qc[2]), Abs(ac[3] - qc[3])))
ImplCandidates(g, qc, cr) == {m \in g.stored : CellCheb(g.ac[m], qc, g.cnt) <= cr}
ImplInCells(inp, g, q, cr) ==
  {OrigOf(inp, m) : m \in ImplCandidates(g, CellOf(ImplQuery(inp, g, q), g.mn, inp[2]), cr)}
ImplNear(inp, g, q, rho) ==
  LET qq == ImplQuery(inp, g, q)
  IN {OrigOf(inp, m) : m \in {x \in ImplCandidates(g, CellOf(qq, g.mn, inp[2]), CellRadius(rho, inp[2])) :
                                  Within(Dist2(g.C[x], qq), rho)}}
\* every stored atom has a cell inside the grid (no out-of-bounds write in __cinit__)
ImplCellsInGrid(g) == \A m \in DOMAIN g.C : \A d \in 1..3 : g.ac[m][d] >= 0 /\ g.ac[m][d] < g.cnt[d]

(* ------------------------------------------------------------------ construction forms *)
(* HOW a cell list is constructed.  A form is  <<container, own, explicit, periodic>>:
     container  "nd" the coordinates are passed as an ndarray, "aa" as an AtomArray
     own        <<>> or <<B>>: the box attribute of the AtomArray (always <<>> for "nd")
     explicit   <<>> or <<B>>: the box= parameter of the constructor
     periodic   the periodic= flag
   Documentation of CellList: box "If provided, the periodicity is based on this parameter
   instead of the box attribute of atom_array.  Only has an effect, if periodic is True";
   coordinates passed directly: "In this case box must be set" (when periodic).  So the box
   the minimum-image distances refer to is EffBox(form): the explicit one OVERRIDES the
   array's own one, a box without periodic=True is ignored, and periodic=True without any
   box is refused (any exception: the statement names none). *)
Containers == {"nd", "aa"}
Dom_Form(f) == /\ f[1] \in Containers /\ f[4] \in BOOLEAN
               /\ Dom_Box(f[2]) /\ Dom_Box(f[3]) /\ (f[1] = "nd" => f[2] = <<>>)
FormOutcome(f) == IF f[4] /\ f[2] = <<>> /\ f[3] = <<>> THEN "Rejected" ELSE "ok"
EffBox(f) == IF ~f[4] THEN <<>> ELSE IF f[3] # <<>> THEN f[3] ELSE f[2]
FormInput(atoms, cs, sel, f) == <<atoms, cs, EffBox(f), sel>>
FormsOver(BX) == LET O == {<<>>} \cup {<<b>> : b \in BX} IN
  {<<"nd", <<>>, e, p>> : e \in O, p \in BOOLEAN} \cup {<<"aa", o, e, p>> : o \in O, e \in O, p \in BOOLEAN}

(* ------------------------------------------------------------------ the caller's arrays *)
(* WHAT KIND of array holds the values.  The property speaks about coordinates, radii,
   boxes and selections as VALUES; every array that holds the same values must give the same
   answer, whatever its element type and memory form:
     f4 / f8 float32 / float64, i8 / i4 integers, suffix F = column-major (Fortran order, the
     layout of np.array([x, y, z]).T), rows = every second row of a larger array, cols = every
     second column of a larger array (last axis NOT contiguous), rev = both axes reversed
     (negative strides), strided = every second element (1-D), ro = write-protected.
   f4 is exactly the element type the cell list works in (astype(float32, copy=False) hands
   the caller's own memory to the compiled loops), which is why it is a class of its own.
   Dom_Kind: an integer kind can hold the values only if they are integers (tick denominator
   1; integer radii).  RefusableKinds: a write-protected array of exactly the internal element
   type and a selection that is not one contiguous writable block MAY be refused by a call
   (outcome "Rejected" = any exception, nothing changed) - the statement is silent about
   them; if the call answers, the answer must be exact.  Every other kind must be served. *)
CoordKindSeq == <<"f4", "f8", "f4F", "i8", "f4cols", "f8F", "f4rows", "f4rev", "f8cols", "i4", "f8ro", "f4ro">>
RadiiKindSeq == <<"f4", "f8", "f4strided", "i8", "f4rev", "f8ro", "f8strided", "f4ro">>
SelKindSeq   == <<"b", "bstrided", "bro">>
CoordKinds == {CoordKindSeq[i] : i \in DOMAIN CoordKindSeq}
RadiiKinds == {RadiiKindSeq[i] : i \in DOMAIN RadiiKindSeq}
SelKinds   == {SelKindSeq[i] : i \in DOMAIN SelKindSeq}
IntKinds == {"i8", "i4"}
RefusableKinds == {"f4ro", "bstrided", "bro"}
\* kinds = <<coordinates, queries, radii, selection, box>> (boxes are 3x3 arrays: coordinate kinds)
Dom_Kinds(kinds) == /\ kinds[1] \in CoordKinds /\ kinds[2] \in CoordKinds /\ kinds[3] \in RadiiKinds
                    /\ kinds[4] \in SelKinds /\ kinds[5] \in CoordKinds
\* den = denominator of the ticks (1: integer values); rhos = the squared radii held by the radii array
Dom_KindValues(kinds, den, rhos) ==
  /\ (\E i \in {1, 2, 3} : kinds[i] \in IntKinds) => den = 1
  /\ kinds[3] \in IntKinds => \A j \in DOMAIN rhos : rhos[j][2] = 1
\* an integer-typed box holds whole numbers: every tick of every box handed over is a multiple of den
\* (the coordinates may then still lie on the half or quarter lattice); boxes = sequence of <<>> / <<matrix>>
Dom_BoxKind(kinds, den, boxes) ==
  kinds[5] \in IntKinds =>
    \A b \in DOMAIN boxes : boxes[b] # <<>> => \A r \in 1..3, c \in 1..3 : boxes[b][1][r][c] % den = 0
MayRefuseConstruct(kinds) == kinds[1] \in RefusableKinds \/ kinds[4] \in RefusableKinds \/ kinds[5] \in RefusableKinds

(* ------------------------------------------------------------------ sessions *)
(* A session is a history of public calls on ONE cell list with the SAME argument objects.
   args = <<Q, rhos, r0, cells, c0>>: query points, per-query squared radii, scalar squared
   radius, per-query cell radii, scalar cell radius - the values held by the caller's arrays.
   A CellList is immutable after construction and every call works on its own copies:
   ArgsAfter(op, args) = args, so every call of a history has the answer of a first call on
   the values the arrays were made from.  CallResult gives the answer as bit masks (BitsOf);
   for the cell queries it is the set the answer must CONTAIN (CallRelation). *)
CallOpSeq == <<"near", "near_mask", "multi", "multi_mask", "single", "cells", "cells_multi_mask", "adj">>
CallOps == {CallOpSeq[i] : i \in DOMAIN CallOpSeq}
CallResult(inp, args, op) ==
  CASE op \in {"near", "near_mask"}   -> [j \in DOMAIN args[1] |-> BitsOf(Near(inp, args[1][j], args[3]))]
    [] op \in {"multi", "multi_mask"} -> [j \in DOMAIN args[1] |-> BitsOf(Near(inp, args[1][j], args[2][j]))]
    [] op = "single"                  -> <<BitsOf(Near(inp, args[1][1], args[3]))>>
    [] op = "cells"                   -> [j \in DOMAIN args[1] |-> BitsOf(MustInCells(inp, args[1][j], args[5]))]
    [] op = "cells_multi_mask"        -> [j \in DOMAIN args[1] |-> BitsOf(MustInCells(inp, args[1][j], args[4][j]))]
    [] op = "adj"                     -> [a \in 1..N(inp) |-> BitsOf(AdjRow(inp, a, args[3]))]
CallRelation(op) == IF op \in {"cells", "cells_multi_mask"} THEN "contains" ELSE "equals"
ArgsAfter(op, args) == args
\* the arrays a call reads: the queries (all but adj), the radii array (per-query forms)
MayRefuseCall(op, kinds) ==
  \/ op # "adj" /\ kinds[2] \in RefusableKinds
  \/ op \in {"multi", "multi_mask"} /\ kinds[3] \in RefusableKinds

\* (the two expensive facts about the tabulated boxes - the search over images -2..2 is
\* stable against -3..3, and every box satisfies Dom_Images27 - are ASSUMEd in CellGrid.tla,
\* i.e. evaluated once per check in S1 and not again by every trace validation run)
\* every orthogonal box is inside Dom_Images8; every tilt pattern (which pairs of box vectors
\* are not perpendicular) occurs among the boxes, and among those inside Dom_Images8
ASSUME \A B \in TabBoxes : IsOrthogonalBox(B) => PairExactTab[B]
ASSUME \A pat \in BOOLEAN \X BOOLEAN \X BOOLEAN : \E B \in TabBoxes : TiltPattern(B) = pat /\ PairExactTab[B]
\* (diagnostic print: which tabulated boxes are inside Dom_Images8)
ASSUME PrintT(<<"C14PAIREXACT", [B \in TabBoxes |-> PairExactTab[B]]>>)
\* docstring-level pins
ASSUME CellRadius(<<4, 1>>, <<1, 1>>) = 2 /\ CellRadius(<<9, 1>>, <<3, 2>>) = 2 /\ CellRadius(<<5, 2>>, <<3, 2>>) = 2
       /\ CellRadius(<<0, 1>>, <<5, 1>>) = 0 /\ CellRadius(<<1, 2>>, <<5, 1>>) = 1
ASSUME CellIdx(-1, 0, <<3, 2>>) = 0 /\ CellIdx(-3, 0, <<3, 2>>) = -2 /\ CellIdx(3, 0, <<3, 2>>) = 2
ASSUME Len(Shifts27) = 27 /\ Cardinality({Shifts27[t] : t \in 1..27}) = 27 /\ Shifts27[2] = <<-1, -1, -1>> /\ Shifts27[27] = <<1, 1, 1>>
=============================================================================
