SPECIFICATION Spec
CONSTANTS
  Tier = "tiny"
INVARIANT InvDomain
INVARIANT InvExact
INVARIANT InvSuperset
INVARIANT InvAdjacency
INVARIANT InvGrid
INVARIANT InvPairDist
CHECK_DEADLOCK FALSE
