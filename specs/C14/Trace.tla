------------------------------- MODULE Trace -------------------------------
(* C14 direction B: executions recorded from the real CellList are re-computed by TLC with
   the declarative operators of CellGridOps.

   TRACE_FILE is a JSON array of traces.  A trace is a SESSION: event 1 is the construction
     {op: "construct", atoms: [[x,y,z],...], cs: [num,den], sel: [] | [[bool,...]],
      container: "nd" | "aa", own: [] | [B], box: [] | [B], periodic: bool,    (construction form)
      kinds: [coordinates, -, -, selection, box], scale: ticks per unit,
      out: "ok" | "Rejected", changed: [names of caller's arrays whose memory changed]}
   (coordinates in integer ticks; the driver divided them by a power of two; own = the box
   attribute of the AtomArray, box = the box= parameter).  The box that counts is
   EffBox(form); a form without any box for a periodic list must be refused.  Every
   further event is one public call on that cell list; the argument arrays are objects of the
   session that are used again by later calls:
     {op: "get_atoms", q: [points], rho: [[num,den] per point], multi: bool, got: [[indices] per point]}
     {op: "cells",     q: [points], c: [cell radius per point], multi: bool, got: [[indices] per point]}
     {op: "adjacency", rho: [num,den], got: [[indices] per atom]}
     {op: "pairdist",  pairs: [[i,j],...], got: [squared distance in ticks^2 per pair], box_used}
     {op: "distadj",   rho: [num,den], got: [[indices] per atom], box_used}
   each with  qk, rk (kinds of the query and the radii array), out ("ok" | "Rejected") and
   changed (as above).  q / rho / c are the values the arrays were MADE from (ArgsAfter: a call
   changes no array, so they are the values of every later use as well): changed must be empty,
   and a refusal is accepted only for the kinds in RefusableKinds.
   pairdist / distadj are the library's own pairwise distance matrix (index_distance with
   periodic=True, distance(box=...)) computed with the box box_used (= EffBox(form), checked):
   entries (0-based atom pairs; -1 = the value was not the
   distance of two lattice points) and its rows thresholded at rho and restricted to the
   selection.  They must equal PairD2 / AdjRow ("the adjacency matrix equals the thresholded
   pairwise distance matrix"); for a box outside Dom_Images8 only got >= PairD2 and
   row \subseteq AdjRow are required.
   got lists are 0-based atom indices (padding removed; masks converted to indices).
   get_atoms / adjacency must equal Near / AdjRow; cells must contain MustInCells and be
   contained in the selection.  Every event is judged on its own; a disagreement prints
   <<"MISMATCH", tid, event, position, expected>> and the run continues. *)
EXTENDS CellGridOps, SequencesExt, Json, IOUtils

Tr == JsonDeserialize(IOEnv.TRACE_FILE)

\* NOTE: state variables must not share a name with any bound variable or parameter of the
\* constant definitions (Lattice uses l, x, k, ...): TLC then treats those definitions as
\* state-level and re-evaluates the minimum-image tables at every use (measured: 300x slower).
VARIABLES trcNo, evNo
tvars == <<trcNo, evNo>>

FormOf(e) == <<e.container, e.own, e.box, e.periodic>>
InputOf(t) == LET e == Tr[t][1] IN FormInput(e.atoms, e.cs, e.sel, FormOf(e))
\* the kinds of the arrays an event hands to the call, in the layout of the session model
EvKinds(t, e) == <<Tr[t][1].kinds[1], e.qk, e.rk, Tr[t][1].kinds[4], Tr[t][1].kinds[5]>>
EvOp(e) == CASE e.op = "get_atoms" -> (IF e.multi THEN "multi" ELSE "near")
             [] e.op = "cells" -> (IF e.multi THEN "cells_multi_mask" ELSE "cells")
             [] OTHER -> "adj"
EvRhos(e) == IF e.op = "get_atoms" /\ e.multi THEN e.rho ELSE <<>>
Zero(S) == {k - 1 : k \in S}           \* 1-based positions -> 0-based indices

FirstBad(ok) == IF \A j \in DOMAIN ok : ok[j] THEN 0 ELSE CHOOSE j \in DOMAIN ok : ~ok[j] /\ \A i \in 1..(j - 1) : ok[i]

JudgeConstruct(t, k) ==
  LET e == Tr[t][k]  f == FormOf(e) IN
  IF ~(k = 1 /\ Dom_Form(f) /\ Dom_Kinds(e.kinds) /\ Dom_KindValues(e.kinds, e.scale, <<>>)
       /\ Dom_BoxKind(e.kinds, e.scale, <<f[2], f[3]>>))
  THEN PrintT(<<"MISMATCH", t, k, 0, "domain">>)
  ELSE IF e.changed # <<>> THEN PrintT(<<"MISMATCH", t, k, 0, "callers_array_changed">>)
  ELSE IF FormOutcome(f) = "Rejected"
  THEN (IF e.out = "Rejected" /\ Len(Tr[t]) = 1 THEN TRUE ELSE PrintT(<<"MISMATCH", t, k, 0, "construction must be refused">>))
  ELSE IF e.out = "Rejected"
  THEN (IF MayRefuseConstruct(e.kinds) /\ Len(Tr[t]) = 1 THEN TRUE ELSE PrintT(<<"MISMATCH", t, k, 0, "construction refused">>))
  ELSE IF Dom_Input(InputOf(t)) /\ (IsPeriodic(InputOf(t)) => BoxOf(InputOf(t)) \in TabBoxes) THEN TRUE
  ELSE PrintT(<<"MISMATCH", t, k, 0, "domain">>)

JudgeAnswer(t, k) ==
  LET e == Tr[t][k]  inp == InputOf(t) IN
  CASE e.op = "get_atoms" ->
         LET exp == [j \in DOMAIN e.q |-> Zero(Near(inp, e.q[j], e.rho[j]))]
             ok  == [j \in DOMAIN e.q |-> ToSet(e.got[j]) = exp[j]]
             b   == FirstBad(ok)
         IN IF Len(e.got) = Len(e.q) /\ b = 0 THEN TRUE
            ELSE PrintT(<<"MISMATCH", t, k, b, IF b = 0 THEN {} ELSE exp[b]>>)
    [] e.op = "cells" ->
         LET must == [j \in DOMAIN e.q |-> Zero(MustInCells(inp, e.q[j], e.c[j]))]
             ok   == [j \in DOMAIN e.q |-> must[j] \subseteq ToSet(e.got[j]) /\ ToSet(e.got[j]) \subseteq Zero(Selected(inp))]
             b    == FirstBad(ok)
         IN IF Len(e.got) = Len(e.q) /\ b = 0 THEN TRUE
            ELSE PrintT(<<"MISMATCH", t, k, b, IF b = 0 THEN {} ELSE must[b]>>)
    [] e.op = "adjacency" ->
         LET exp == [a \in 1..N(inp) |-> Zero(AdjRow(inp, a, e.rho))]
             ok  == [a \in 1..N(inp) |-> ToSet(e.got[a]) = exp[a]]
             b   == FirstBad(ok)
         IN IF Len(e.got) = N(inp) /\ b = 0 THEN TRUE
            ELSE PrintT(<<"MISMATCH", t, k, b, IF b = 0 THEN {} ELSE exp[b]>>)
    [] e.op = "pairdist" ->
         LET exp == [j \in DOMAIN e.pairs |-> PairD2(inp, e.pairs[j][1] + 1, e.pairs[j][2] + 1)]
             ex  == PairExact(inp)
             ok  == [j \in DOMAIN e.pairs |-> IF ex THEN e.got[j] = exp[j] ELSE e.got[j] >= exp[j]]
             b   == FirstBad(ok)
         IN IF Len(e.got) = Len(e.pairs) /\ b = 0 THEN TRUE
            ELSE PrintT(<<"MISMATCH", t, k, b, IF b = 0 THEN -1 ELSE exp[b]>>)
    [] e.op = "distadj" ->
         LET exp == [a \in 1..N(inp) |-> Zero(DistAdjRow(inp, a, e.rho))]
             ex  == PairExact(inp)
             ok  == [a \in 1..N(inp) |-> IF ex THEN ToSet(e.got[a]) = exp[a] ELSE ToSet(e.got[a]) \subseteq exp[a]]
             b   == FirstBad(ok)
         IN IF Len(e.got) = N(inp) /\ b = 0 THEN TRUE
            ELSE PrintT(<<"MISMATCH", t, k, b, IF b = 0 THEN {} ELSE exp[b]>>)
    [] OTHER -> PrintT(<<"MISMATCH", t, k, 0, "unknown op">>)

\* every call: the caller's arrays are unchanged (ArgsAfter); a refusal only for RefusableKinds and
\* never for a call that reads no caller's array; otherwise the answer is judged
Judge(t, k) ==
  LET e == Tr[t][k] IN
  IF e.op = "construct" THEN JudgeConstruct(t, k)
  ELSE IF ~(Dom_Kinds(EvKinds(t, e)) /\ Dom_KindValues(EvKinds(t, e), Tr[t][1].scale, EvRhos(e)) /\ Tr[t][1].out = "ok")
  THEN PrintT(<<"MISMATCH", t, k, 0, "domain">>)
  ELSE IF e.changed # <<>> THEN PrintT(<<"MISMATCH", t, k, 0, "callers_array_changed">>)
  ELSE IF e.out = "Rejected"
  THEN (IF e.op \in {"get_atoms", "cells"} /\ MayRefuseCall(EvOp(e), EvKinds(t, e)) THEN TRUE
        ELSE PrintT(<<"MISMATCH", t, k, 0, "call refused">>))
  ELSE IF e.op \in {"pairdist", "distadj"} /\ e.box_used # InputOf(t)[3] THEN PrintT(<<"MISMATCH", t, k, 0, "box_used">>)
  ELSE JudgeAnswer(t, k)

Init == trcNo \in 1..Len(Tr) /\ evNo = 0
Next == /\ evNo < Len(Tr[trcNo])
        /\ evNo' = evNo + 1
        /\ UNCHANGED trcNo
        /\ Judge(trcNo, evNo + 1)
Spec == Init /\ [][Next]_tvars
=============================================================================
