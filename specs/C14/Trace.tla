------------------------------- MODULE Trace -------------------------------
(* C14 direction B: executions recorded from the real CellList are re-computed by TLC with
   the declarative operators of CellGridOps.

   TRACE_FILE is a JSON array of traces.  Event 1 of a trace is the construction
     {op: "construct", atoms: [[x,y,z],...], cs: [num,den], box: [] | [[r1,r2,r3]],
      sel: [] | [[bool,...]]}
   (coordinates in integer ticks; the driver divided them by a power of two).  Every
   further event is one public call on that cell list:
     {op: "get_atoms", q: [points], rho: [[num,den] per point], got: [[indices] per point]}
     {op: "cells",     q: [points], c: [cell radius per point], got: [[indices] per point]}
     {op: "adjacency", rho: [num,den], got: [[indices] per atom]}
     {op: "pairdist",  pairs: [[i,j],...], got: [squared distance in ticks^2 per pair]}
     {op: "distadj",   rho: [num,den], got: [[indices] per atom]}
   pairdist / distadj are the library's own pairwise distance matrix (index_distance with
   periodic=True, distance(box=...)): entries (0-based atom pairs; -1 = the value was not the
   distance of two lattice points) and its rows thresholded at rho and restricted to the
   selection.  They must equal PairD2 / AdjRow ("the adjacency matrix equals the thresholded
   pairwise distance matrix"); for a box outside Dom_Images8 only got >= PairD2 and
   row \subseteq AdjRow are required.
   got lists are 0-based atom indices (padding removed; masks converted to indices).
   get_atoms / adjacency must equal Near / AdjRow; cells must contain MustInCells and be
   contained in the selection.  Every event is judged on its own; a disagreement prints
   <<"MISMATCH", tid, event, position, expected>> and the run continues. *)
EXTENDS CellGridOps, SequencesExt, Json, IOUtils

Tr == JsonDeserialize(IOEnv.TRACE_FILE)

\* NOTE: state variables must not share a name with any bound variable or parameter of the
\* constant definitions (Lattice uses l, x, k, ...): TLC then treats those definitions as
\* state-level and re-evaluates the minimum-image tables at every use (measured: 300x slower).
VARIABLES trcNo, evNo
tvars == <<trcNo, evNo>>

InputOf(t) == LET e == Tr[t][1] IN <<e.atoms, e.cs, e.box, e.sel>>
Zero(S) == {k - 1 : k \in S}           \* 1-based positions -> 0-based indices

FirstBad(ok) == IF \A j \in DOMAIN ok : ok[j] THEN 0 ELSE CHOOSE j \in DOMAIN ok : ~ok[j] /\ \A i \in 1..(j - 1) : ok[i]

Judge(t, k) ==
  LET e == Tr[t][k]  inp == InputOf(t) IN
  CASE e.op = "construct" ->
         IF Dom_Input(inp) /\ (IsPeriodic(inp) => BoxOf(inp) \in TabBoxes) /\ k = 1 THEN TRUE
         ELSE PrintT(<<"MISMATCH", t, k, 0, "domain">>)
    [] e.op = "get_atoms" ->
         LET exp == [j \in DOMAIN e.q |-> Zero(Near(inp, e.q[j], e.rho[j]))]
             ok  == [j \in DOMAIN e.q |-> ToSet(e.got[j]) = exp[j]]
             b   == FirstBad(ok)
         IN IF Len(e.got) = Len(e.q) /\ b = 0 THEN TRUE
            ELSE PrintT(<<"MISMATCH", t, k, b, IF b = 0 THEN {} ELSE exp[b]>>)
    [] e.op = "cells" ->
         LET must == [j \in DOMAIN e.q |-> Zero(MustInCells(inp, e.q[j], e.c[j]))]
             ok   == [j \in DOMAIN e.q |-> must[j] \subseteq ToSet(e.got[j]) /\ ToSet(e.got[j]) \subseteq Zero(Selected(inp))]
             b    == FirstBad(ok)
         IN IF Len(e.got) = Len(e.q) /\ b = 0 THEN TRUE
            ELSE PrintT(<<"MISMATCH", t, k, b, IF b = 0 THEN {} ELSE must[b]>>)
    [] e.op = "adjacency" ->
         LET exp == [a \in 1..N(inp) |-> Zero(AdjRow(inp, a, e.rho))]
             ok  == [a \in 1..N(inp) |-> ToSet(e.got[a]) = exp[a]]
             b   == FirstBad(ok)
         IN IF Len(e.got) = N(inp) /\ b = 0 THEN TRUE
            ELSE PrintT(<<"MISMATCH", t, k, b, IF b = 0 THEN {} ELSE exp[b]>>)
    [] e.op = "pairdist" ->
         LET exp == [j \in DOMAIN e.pairs |-> PairD2(inp, e.pairs[j][1] + 1, e.pairs[j][2] + 1)]
             ex  == PairExact(inp)
             ok  == [j \in DOMAIN e.pairs |-> IF ex THEN e.got[j] = exp[j] ELSE e.got[j] >= exp[j]]
             b   == FirstBad(ok)
         IN IF Len(e.got) = Len(e.pairs) /\ b = 0 THEN TRUE
            ELSE PrintT(<<"MISMATCH", t, k, b, IF b = 0 THEN -1 ELSE exp[b]>>)
    [] e.op = "distadj" ->
         LET exp == [a \in 1..N(inp) |-> Zero(DistAdjRow(inp, a, e.rho))]
             ex  == PairExact(inp)
             ok  == [a \in 1..N(inp) |-> IF ex THEN ToSet(e.got[a]) = exp[a] ELSE ToSet(e.got[a]) \subseteq exp[a]]
             b   == FirstBad(ok)
         IN IF Len(e.got) = N(inp) /\ b = 0 THEN TRUE
            ELSE PrintT(<<"MISMATCH", t, k, b, IF b = 0 THEN {} ELSE exp[b]>>)
    [] OTHER -> PrintT(<<"MISMATCH", t, k, 0, "unknown op">>)

Init == trcNo \in 1..Len(Tr) /\ evNo = 0
Next == /\ evNo < Len(Tr[trcNo])
        /\ evNo' = evNo + 1
        /\ UNCHANGED trcNo
        /\ Judge(trcNo, evNo + 1)
Spec == Init /\ [][Next]_tvars
=============================================================================
