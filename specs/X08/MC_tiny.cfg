SPECIFICATION Spec
CONSTANTS
  MaxN = 4
  FullN = 2
  TypedN = 3
  ClassNs = {4}
  MonoNs = {}
  PermAllN = 3
INVARIANT InvDom
INVARIANT InvCycles
INVARIANT InvMinBasis
INVARIANT InvImplBasis
INVARIANT InvRotatable
INVARIANT InvTypeMaps
INVARIANT InvRelabel
CHECK_DEADLOCK FALSE
