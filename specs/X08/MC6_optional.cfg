\* NOT run by ./check (too slow on a shared machine: about 500 states per minute with 4 workers
\* under load; 32,768 + 32,768 states).  All labelled graphs on 6 atoms over absent / aromatic and
\* absent / SINGLE, with the traversal and domain invariants only.  Run by hand:
\*   java -DTLA-Library=/verif/specs/lib -cp tla2tools.jar:CommunityModules-deps.jar tlc2.TLC \
\*        -workers 16 -config MC6_optional.cfg MCPerception.tla
SPECIFICATION Spec
CONSTANTS
  MaxN = 6
  FullN = 0
  TypedNs = {}
  ClassNs = {}
  SaNs = {}
  MonoNs = {6}
  PermAllN = 0
  LawFams = {}
INVARIANT InvDom
INVARIANT InvImplBasis
INVARIANT InvRotatable
CHECK_DEADLOCK FALSE
