SPECIFICATION Spec
CONSTANTS
  N = 4
  T = {1, 9}
  MaxBonds = 6
CONSTRAINT BondBound
INVARIANT InvDom
INVARIANT InvView
INVARIANT InvViewSense
PROPERTY TypeMapStep
CHECK_DEADLOCK FALSE
