SPECIFICATION Spec
CONSTANTS
  MaxN = 4
  FullN = 0
  TypedN = 0
  ClassNs = {4}
  MonoNs = {}
  PermAllN = 0
CHECK_DEADLOCK FALSE
INVARIANT InvRelabel
