SPECIFICATION Spec
CONSTANTS
  MaxN = 4
  FullN = 0
  TypedN = 4
  ClassNs = {}
  MonoNs = {}
  PermAllN = 0
CHECK_DEADLOCK FALSE
INVARIANT InvImplBasis
