------------------------------- MODULE Trace -------------------------------
(* X08 direction code -> spec: sessions recorded from the real API are re-computed with the
   operators of RingPerception.  TRACE_FILE is a JSON array of traces; a trace is a list of events.

     {op: "load", n, rows: [[i, j, t], ...]}        the subject: a live BondList (i < j, as_array())
   mutating calls on the live object, logged with the rows read back before / after:
     {op: "strip_arom",  rows, out}                  BondList.remove_aromaticity()
     {op: "strip_order", rows, out}                  BondList.remove_bond_order()
     {op: "add",    a: [i, j, t], out}               add_bond (indices 0 <= i, j < n, i # j)
     {op: "remove", a: [i, j], out}                  remove_bond
   queries, logged with the rows of the object at the time of the call (`rows`) and after it
   (`after`, must be identical: a query does not touch its argument):
     {op: "rings", rows, after, oc, out: [[atom, ...], ...]}    find_aromatic_rings
     {op: "rot",   rows, after, oc, out: [[i, j, t], ...], m}   find_rotatable_bonds (m = atom count of the result)
     {op: "perm",  pi, rows, rot: [...], m, rings: [...]}        both queries on a relabelled copy
                                                                (atom a -> pi[a + 1]; rows = its rows)
     {op: "noarom", t, out}                          BondType(t).without_aromaticity()
     {op: "nobonds", oc}                             find_aromatic_rings on atoms without BondList
   Every event is judged on its own; a disagreement is printed as
     <<"MISMATCH", tid, eventIndex, op, detail>>   and never stops the run.
   For ring answers the detail holds the flags of RingFlags, the minimum-basis size histogram
   and the size histogram / exact answer of the implementation-shaped traversal on the same
   rows (used to tell the known non-minimality, finding X08-F1, from anything else). *)
EXTENDS RingPerception, Json, IOUtils, TLC

Tr == JsonDeserialize(IOEnv.TRACE_FILE)

VARIABLES tid, l, S
tvars == <<tid, l, S>>

(* minimum-basis sizes for a graph of any size: the cycle space is spanned by the traversal's
   basis, provided that basis passes ImplBasisOk for THIS input (checked here, event by event:
   right number of independent simple cycles = a basis, by dimension) *)
RingJudgement(n, rows, out) ==
  LET es == RowEdges(AromRows(rows))
      Ea == ToSet(es)
      impl == ImplCycleBasis(n, es)
      cert == ImplBasisOk(n, es)
      minHist == SizeHist(MinBasis(SimpleOfSpan(RingSet(impl)), n), n)
      f == RingFlags(out, Ea, n, minHist)
  IN [cert |-> cert, ok |-> FlagsOk(f), flags |-> f, minHist |-> minHist,
      implHist |-> LenHist(impl, n), exact |-> out = impl]

SameRows(a, b) == a = b
BindsState(rows) == Dom_Rows(S.n, rows) /\ ToSet(rows) = S.B

Report(op, detail) == PrintT(<<"MISMATCH", tid, l + 1, op, detail>>)

JudgeRings(e, n, rows, out, tag) ==
  LET j == RingJudgement(n, rows, out) IN
  /\ IF j.cert THEN TRUE ELSE PrintT(<<"SPECFAIL", tid, l + 1>>)
  /\ IF j.exact THEN TRUE ELSE PrintT(<<"SHAPE", tid, l + 1>>)
  /\ IF j.ok THEN TRUE
     ELSE Report(tag, [flags |-> j.flags, minHist |-> j.minHist, implHist |-> j.implHist,
                       obsHist |-> LenHist(out, n), exact |-> j.exact])

JudgeRot(n, B, out, m, tag) ==
  LET want == BridgeRotatable(B) IN
  IF m = n /\ ToSet(out) = want /\ NoDupSeq(out) THEN TRUE
  ELSE Report(tag, [want |-> want, n |-> n])

Judge(e) ==
  CASE e.op = "rings" ->
         IF e.oc = "ok" /\ BindsState(e.rows) /\ SameRows(e.rows, e.after)
         THEN JudgeRings(e, S.n, e.rows, e.out, "rings")
         ELSE Report("rings", [state |-> BindsState(e.rows), untouched |-> SameRows(e.rows, e.after), oc |-> "ok"])
    [] e.op = "rot" ->
         IF e.oc = "ok" /\ BindsState(e.rows) /\ SameRows(e.rows, e.after)
         THEN JudgeRot(S.n, S.B, e.out, e.m, "rot")
         ELSE Report("rot", [state |-> BindsState(e.rows), untouched |-> SameRows(e.rows, e.after), oc |-> "ok"])
    [] e.op = "perm" ->
         IF IsPerm(e.pi, S.n) /\ Dom_Rows(S.n, e.rows) /\ ToSet(e.rows) = Relabel(S.B, e.pi)
         THEN /\ JudgeRot(S.n, Relabel(S.B, e.pi), e.rot, e.m, "perm_rot")
              /\ JudgeRings(e, S.n, e.rows, e.rings, "perm_rings")
         ELSE Report("perm", [want |-> Relabel(S.B, e.pi)])
    [] e.op = "noarom" ->
         IF Dom_BondType(e.t) /\ e.out = Op_WithoutAromaticity(e.t) THEN TRUE
         ELSE Report("noarom", [want |-> Op_WithoutAromaticity(e.t)])
    [] e.op = "nobonds" ->
         IF e.oc = "Rejected" THEN TRUE ELSE Report("nobonds", [want |-> "Rejected"])

\* mutating calls: the object afterwards holds exactly the specified bonds; the type maps keep
\* the rows where they are
JudgeMut(e, after) ==
  LET inPlace == e.op \in {"strip_arom", "strip_order"} IN
  IF /\ Dom_Rows(S.n, e.out) /\ ToSet(e.out) = after
     /\ inPlace => (BindsState(e.rows) /\
                    e.out = (IF e.op = "strip_arom" THEN ImplRemoveAromaticity(e.rows)
                             ELSE [k \in DOMAIN e.rows |-> <<e.rows[k][1], e.rows[k][2], 0>>]))
  THEN TRUE ELSE Report(e.op, [want |-> after])

Dom_Add(n, a) == 0 <= a[1] /\ a[1] < n /\ 0 <= a[2] /\ a[2] < n /\ a[1] # a[2] /\ Dom_BondType(a[3])
Dom_Remove(n, a) == 0 <= a[1] /\ a[1] < n /\ 0 <= a[2] /\ a[2] < n /\ a[1] # a[2]

Init == tid \in 1..Len(Tr) /\ l = 0 /\ S = [n |-> 0, B |-> {}]

Next ==
  /\ l < Len(Tr[tid])
  /\ l' = l + 1
  /\ UNCHANGED tid
  /\ LET e == Tr[tid][l + 1] IN
     CASE e.op = "load" ->
            /\ IF Dom_Rows(e.n, e.rows) THEN TRUE ELSE Report("load", [want |-> "Dom_Rows"])
            /\ S' = [n |-> e.n, B |-> ToSet(e.rows)]
       [] e.op = "strip_arom" ->
            LET after == Op_RemoveAromaticity(S.B) IN JudgeMut(e, after) /\ S' = [S EXCEPT !.B = after]
       [] e.op = "strip_order" ->
            LET after == Op_RemoveBondOrder(S.B) IN JudgeMut(e, after) /\ S' = [S EXCEPT !.B = after]
       [] e.op = "add" ->
            LET after == AddBond(S.B, e.a[1], e.a[2], e.a[3]) IN
            /\ IF Dom_Add(S.n, e.a) THEN JudgeMut(e, after) ELSE Report("add", [want |-> "Dom_Add"])
            /\ S' = [S EXCEPT !.B = after]
       [] e.op = "remove" ->
            LET after == RemoveBond(S.B, e.a[1], e.a[2]) IN
            /\ IF Dom_Remove(S.n, e.a) THEN JudgeMut(e, after) ELSE Report("remove", [want |-> "Dom_Remove"])
            /\ S' = [S EXCEPT !.B = after]
       [] OTHER -> Judge(e) /\ UNCHANGED S

Spec == Init /\ [][Next]_tvars
=============================================================================
