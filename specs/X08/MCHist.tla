------------------------------- MODULE MCHist -------------------------------
(* X08: one live BondList of N atoms as a state machine - one action per public mutating call
   of the area (remove_aromaticity, remove_bond_order) plus the two calls that build graphs
   (add_bond, remove_bond; their index forms and refusals are the subject of C02, here they are
   called with 0 <= i < j < N only).  `view` holds the uniquely determined projections of the
   two perceptions for the CURRENT bonds; the driver asks find_aromatic_rings and
   find_rotatable_bonds on the live object after every call of a replayed path (and checks that
   asking changes nothing).  The state graph is dumped as a dot file; every transition is
   replayed against biotite on paths from the initial state. *)
EXTENDS RingPerception, TLC

CONSTANTS N,          \* atoms of the bond list
          T,          \* bond types passed to add_bond
          MaxBonds    \* state constraint: at most this many bonds

VARIABLES B, view
vars == <<B, view>>

K == TLCEval(KCycles(N))

View(b) ==
  LET cs == CyclesIn(AromEdgesOf(b), K)  rb == UNION cs IN
  [mu     |-> Mu(AromEdgesOf(b)),
   hist   |-> SizeHist(MinBasis(cs, N), N),
   rbonds |-> rb,
   rot    |-> DeclRotatable(b, K)]

Apply(b, c) ==
  CASE c[1] = "add" -> AddBond(b, c[2], c[3], c[4])
    [] c[1] = "remove" -> RemoveBond(b, c[2], c[3])
    [] c[1] = "strip_arom" -> Op_RemoveAromaticity(b)
    [] c[1] = "strip_order" -> Op_RemoveBondOrder(b)

AllCalls ==
  {<<"add", p[1], p[2], t>> : p \in AllPairs(N), t \in T}
  \cup {<<"remove", p[1], p[2]>> : p \in AllPairs(N)}
  \cup {<<"strip_arom">>, <<"strip_order">>}

Call(c) == B' = Apply(B, c) /\ view' = View(B')

Init == B = {} /\ view = View({})
Next == \E c \in AllCalls : Call(c)
Spec == Init /\ [][Next]_vars

BondBound == Cardinality(B) <= MaxBonds

(* ------------------------------------------------------------------ properties *)
InvDom == Dom_Graph(N, B)
InvView == view = View(B)
\* no aromatic bond -> no ring; no SINGLE bond -> nothing rotatable
InvViewSense ==
  /\ (AromEdgesOf(B) = {}) => (view.mu = 0 /\ view.rbonds = {})
  /\ (\A b \in B : b[3] # SINGLE) => view.rot = {}
  /\ view.rot \subseteq B
\* the type maps never change which atoms are bonded, are idempotent, and leave nothing aromatic
TypeMapStep ==
  [][(B' = Op_RemoveAromaticity(B) \/ B' = Op_RemoveBondOrder(B)) =>
       (EdgesOf(B') = EdgesOf(B) /\ AromEdgesOf(B') = {} /\ view'.mu = 0
        /\ Op_RemoveAromaticity(B') = B')]_vars
=============================================================================
