INIT Init
NEXT Next
