------------------------------- MODULE MCPerception -------------------------------
(* X08: bounded exhaustive model, pure-function pattern (root -> chunk -> input states).
   Every input state carries a bond graph (n, tv): tv[k] is the bond type of the k-th atom pair
   in lexicographic order (PairSeq), -1 = no bond.  `exp` holds the specification's answers;
   the dump of this model is the list of (input, expected) pairs that the driver executes
   against biotite.  The invariants are the laws of RingPerception for the input at hand.

   Families (every labelled graph of a family is enumerated, so every relabelling of every
   graph is an input of its own):
     "full"   n <= FullN : every pair absent or one of ALL ten bond types
     "typed"  n in TypedNs: every pair absent or one of {SINGLE, DOUBLE, AROMATIC_SINGLE,
                           AROMATIC_DOUBLE, AROMATIC}
     "class"  n in ClassNs: every pair absent / SINGLE / other non-aromatic / aromatic (the
                           aromatic type rotates over the four aromatic types, the other type
                           over ANY, DOUBLE, TRIPLE, QUADRUPLE, COORDINATION, with the pair number)
     "sa"     n in SaNs:   every pair absent / SINGLE / aromatic (rotating)
     "arom"   n in MonoNs: every pair absent / aromatic (rotating)       - ring perception
     "single" n in MonoNs: every pair absent / SINGLE, one chosen pair DOUBLE - rotatable bonds *)
EXTENDS RingPerception, TLC

CONSTANTS MaxN,       \* largest atom count (cycles of the complete graph on MaxN atoms are precomputed)
          FullN, TypedNs, ClassNs, SaNs, MonoNs,
          PermAllN,   \* graphs with up to this many atoms: relabelling law for EVERY permutation
          LawFams     \* families on which the structural laws (cycles, minimum basis, type maps,
                      \* relabelling) are checked; the others get the expected values, the
                      \* domain, traversal and rotatable-bond laws only (their bond STRUCTURES are
                      \* all contained in the mono families of the same atom count)

VARIABLES kind, n, tv, exp
vars == <<kind, n, tv, exp>>

K == TLCEval(KCycles(MaxN))
PairLess(a, b) == a[1] < b[1] \/ (a[1] = b[1] /\ a[2] < b[2])
PairSeq(m) == SetToSortSeq(AllPairs(m), PairLess)
PS == TLCEval([m \in 0..MaxN |-> PairSeq(m)])
NPairs(m) == (m * (m - 1)) \div 2

BondsOf(m, t) == {<<PS[m][k][1], PS[m][k][2], t[k]>> : k \in {x \in DOMAIN t : t[x] # -1}}
PairsToIdx(m, E) == {k \in 1..NPairs(m) : PS[m][k] \in E}
TvOf(m, B) == [k \in 1..NPairs(m) |-> IF HasPair(B, PS[m][k][1], PS[m][k][2])
                                       THEN PairType(B, PS[m][k][1], PS[m][k][2]) ELSE -1]

T5 == {1, 2, 5, 6, 9}
AromRot == <<9, 5, 6, 7>>
OtherRot == <<2, 0, 3, 8, 4>>
\* option codes of a family; 100 = "aromatic, rotating", 101 = "SINGLE, but DOUBLE on pair 2",
\* 102 = "neither SINGLE nor aromatic, rotating"
Opts(fam) ==
  CASE fam = "full" -> {-1} \cup BondTypes
    [] fam = "typed" -> {-1} \cup T5
    [] fam = "class" -> {-1, 1, 102, 100}
    [] fam = "sa" -> {-1, 1, 100}
    [] fam = "arom" -> {-1, 100}
    [] fam = "single" -> {-1, 101}
CodeType(code, k) ==
  CASE code = 100 -> AromRot[((k - 1) % 4) + 1]
    [] code = 101 -> IF k = 2 THEN 2 ELSE 1
    [] code = 102 -> OtherRot[((k - 1) % 5) + 1]
    [] OTHER -> code
CodeTypes(codes, off) == [k \in DOMAIN codes |-> CodeType(codes[k], k + off)]

FamNs(fam) ==
  CASE fam = "full" -> 0..FullN
    [] fam = "typed" -> TypedNs
    [] fam = "class" -> ClassNs
    [] fam = "sa" -> SaNs
    [] fam = "arom" -> MonoNs
    [] fam = "single" -> MonoNs
Fams == {"full", "typed", "class", "sa", "arom", "single"}
HeadLen(m) == IF m <= 1 THEN 0 ELSE m - 1

\* a chunk fixes the family, the atom count and the bonds of atom 0
Chunks == UNION {UNION {{<<fam, m, h>> : h \in [1..HeadLen(m) -> Opts(fam)]} : m \in FamNs(fam)} : fam \in Fams}

(* ------------------------------------------------------------------ expected values *)
\* a type map applied to the type sequence (equal to the set-level operators by InvTypeMaps)
MapTv(t, F(_)) == [k \in DOMAIN t |-> IF t[k] = -1 THEN -1 ELSE F(t[k])]
ToAny(t) == 0
Expected(m, t) ==
  LET B == BondsOf(m, t)
      cs == CyclesIn(AromEdgesOf(B), K)
      rb == UNION cs
      na == MapTv(t, NoArom)
  IN [mu     |-> Mu(AromEdgesOf(B)),
      hist   |-> SizeHist(MinBasis(cs, m), m),
      ratoms |-> Verts(rb),
      rbonds |-> rb,
      rot    |-> EdgesOf(DeclRotatable(B, K)),
      na     |-> na,
      no     |-> MapTv(t, ToAny),
      rotNA  |-> EdgesOf(DeclRotatable(BondsOf(m, na), K))]

Set(k, m, t, e) == kind' = k /\ n' = m /\ tv' = t /\ exp' = e

Expand(c) ==
  LET fam == c[1]  m == c[2]  h == c[3] IN
  \E rest \in [1..(NPairs(m) - HeadLen(m)) -> Opts(fam)] :
    LET t == CodeTypes(h, 0) \o CodeTypes(rest, HeadLen(m)) IN
    Set(fam, m, t, Expected(m, t))

\* the root state carries the pair numbering for the driver's self-check
Init == kind = "root" /\ n = 0 /\ tv = <<>> /\ exp = PS
Next ==
  \/ kind = "root" /\ \E c \in Chunks : Set("chunk", 0, c, <<>>)
  \/ kind = "chunk" /\ Expand(tv)
Spec == Init /\ [][Next]_vars

(* ------------------------------------------------------------------ invariants = laws *)
IsInput == kind \in Fams
IsLawInput == kind \in LawFams
B == BondsOf(n, tv)
Ea == AromEdgesOf(B)
E == EdgesOf(B)

InvDom == IsInput => Dom_Graph(n, B) /\ Dom_Rows(n, SortedRows(B)) /\ TvOf(n, B) = tv
InvCycles ==
  IsLawInput =>
    /\ RingBonds(E, K) = RingBondsByReach(E)
    /\ RingBonds(Ea, K) = RingBondsByReach(Ea)
    /\ exp.mu = 0 <=> exp.rbonds = {}
    /\ \A r \in Verts(E) : ReachIn(E, r) = ReachRounds(E, r)
    /\ Cardinality(CyclesIn(Ea, K)) <= 7 =>
         Independent(CyclesIn(Ea, K)) = IndependentDecl(CyclesIn(Ea, K))
InvMinBasis ==
  IsLawInput =>
    /\ Law_MinBasisIsBasis(Ea, K, n)
    /\ Law_GreedyMinimum(Ea, K, n)
    /\ Law_MinBasisIsBasis(E, K, n)
\* the traversal of networkx is a cycle basis of the whole graph and of the aromatic part
InvImplBasis ==
  IsInput =>
    /\ Law_ImplBasis(n, B)
    /\ \A rows \in SomeOrders(B) :
         /\ ImplBasisOk(n, RowEdges(AromRows(rows)))
         /\ LET r == ImplRings(n, rows) IN
            /\ Len(r) = exp.mu
            /\ UNION RingSet(r) = exp.rbonds
            /\ LET f == RingFlags(r, Ea, n, exp.hist) IN f.valid /\ f.once /\ f.count /\ f.indep
InvRotatable == IsInput => Law_Rotatable(n, B, K)
InvTypeMaps == IsLawInput => Law_TypeMaps(n, B, K)
\* the expected values of the dump are the values of the public operators
InvExp ==
  IsInput =>
    /\ BondsOf(n, exp.na) = Op_RemoveAromaticity(B)
    /\ BondsOf(n, exp.no) = Op_RemoveBondOrder(B)
    /\ exp.ratoms = RingAtoms(Ea, K) /\ exp.rbonds = RingBonds(Ea, K)
    /\ exp.rot = EdgesOf(BridgeRotatable(B))
AllPerms(m) == {p \in [1..m -> Atoms(m)] : IsPerm(p, m)}
InvRelabel ==
  IsLawInput =>
    \A pi \in (IF n <= PermAllN THEN AllPerms(n) ELSE GenPerms(n)) : Law_Relabel(n, B, K, pi)
\* NOT an invariant of the design (finding X08-F1): checked by MCImplMin.cfg, whose violation
\* is the expected result
InvImplMinimum == IsInput => Law_ImplMinimum(n, B, K)
=============================================================================
