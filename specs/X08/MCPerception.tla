------------------------------- MODULE MCPerception -------------------------------
(* X08: bounded exhaustive model, pure-function pattern (root -> chunk -> input states).
   Every input state carries a bond graph (n, tv): tv[k] is the bond type of the k-th atom pair
   in lexicographic order (PairSeq), -1 = no bond.  `exp` holds the specification's answers;
   the dump of this model is the list of (input, expected) pairs that the driver executes
   against biotite.  The invariants are the laws of RingPerception for the input at hand.

   Families (every labelled graph of a family is enumerated, so every relabelling of every
   graph is an input of its own):
     "full"   n <= FullN : every pair absent or one of ALL ten bond types
     "typed"  n <= TypedN: every pair absent or one of {SINGLE, DOUBLE, AROMATIC_SINGLE,
                           AROMATIC_DOUBLE, AROMATIC}
     "class"  n in ClassNs: every pair absent / SINGLE / aromatic (the aromatic type rotates
                           over the four aromatic types with the pair number)
     "arom"   n in MonoNs: every pair absent / aromatic (rotating)       - ring perception
     "single" n in MonoNs: every pair absent / SINGLE, one chosen pair DOUBLE - rotatable bonds *)
EXTENDS RingPerception, TLC

CONSTANTS MaxN,       \* largest atom count (cycles of the complete graph on MaxN atoms are precomputed)
          FullN, TypedN, ClassNs, MonoNs,
          PermAllN    \* graphs with up to this many atoms: relabelling law for EVERY permutation

VARIABLES kind, n, tv, exp
vars == <<kind, n, tv, exp>>

K == TLCEval(KCycles(MaxN))
PairLess(a, b) == a[1] < b[1] \/ (a[1] = b[1] /\ a[2] < b[2])
PairSeq(m) == SetToSortSeq(AllPairs(m), PairLess)
PS == TLCEval([m \in 0..MaxN |-> PairSeq(m)])
NPairs(m) == (m * (m - 1)) \div 2

BondsOf(m, t) == {<<PS[m][k][1], PS[m][k][2], t[k]>> : k \in {x \in DOMAIN t : t[x] # -1}}
PairsToIdx(m, E) == {k \in 1..NPairs(m) : PS[m][k] \in E}
TvOf(m, B) == [k \in 1..NPairs(m) |-> IF HasPair(B, PS[m][k][1], PS[m][k][2])
                                       THEN PairType(B, PS[m][k][1], PS[m][k][2]) ELSE -1]

T5 == {1, 2, 5, 6, 9}
AromRot == <<9, 5, 6, 7>>
\* option codes of a family; 100 = "aromatic, rotating", 101 = "SINGLE, but DOUBLE on pair 2"
Opts(fam) ==
  CASE fam = "full" -> {-1} \cup BondTypes
    [] fam = "typed" -> {-1} \cup T5
    [] fam = "class" -> {-1, 1, 100}
    [] fam = "arom" -> {-1, 100}
    [] fam = "single" -> {-1, 101}
CodeType(code, k) ==
  CASE code = 100 -> AromRot[((k - 1) % 4) + 1]
    [] code = 101 -> IF k = 2 THEN 2 ELSE 1
    [] OTHER -> code
CodeTypes(codes, off) == [k \in DOMAIN codes |-> CodeType(codes[k], k + off)]

FamNs(fam) ==
  CASE fam = "full" -> 0..FullN
    [] fam = "typed" -> 0..TypedN
    [] fam = "class" -> ClassNs
    [] fam = "arom" -> MonoNs
    [] fam = "single" -> MonoNs
Fams == {"full", "typed", "class", "arom", "single"}
HeadLen(m) == IF m <= 1 THEN 0 ELSE m - 1

\* a chunk fixes the family, the atom count and the bonds of atom 0
Chunks == UNION {UNION {{<<fam, m, h>> : h \in [1..HeadLen(m) -> Opts(fam)]} : m \in FamNs(fam)} : fam \in Fams}

(* ------------------------------------------------------------------ expected values *)
Expected(m, t) ==
  LET B == BondsOf(m, t)
      Ea == AromEdgesOf(B)
      na == StripAromatic(B)
  IN [mu     |-> Mu(Ea),
      hist   |-> SizeHist(MinBasis(CyclesIn(Ea, K), m), m),
      ratoms |-> RingAtoms(Ea, K),
      rbonds |-> RingBonds(Ea, K),
      rot    |-> EdgesOf(DeclRotatable(B, K)),
      na     |-> TvOf(m, na),
      no     |-> TvOf(m, StripOrder(B)),
      rotNA  |-> EdgesOf(DeclRotatable(na, K))]

Set(k, m, t, e) == kind' = k /\ n' = m /\ tv' = t /\ exp' = e

Expand(c) ==
  LET fam == c[1]  m == c[2]  h == c[3] IN
  \E rest \in [1..(NPairs(m) - HeadLen(m)) -> Opts(fam)] :
    LET t == CodeTypes(h, 0) \o CodeTypes(rest, HeadLen(m)) IN
    Set(fam, m, t, Expected(m, t))

Init == kind = "root" /\ n = 0 /\ tv = <<>> /\ exp = <<>>
Next ==
  \/ kind = "root" /\ \E c \in Chunks : Set("chunk", 0, c, <<>>)
  \/ kind = "chunk" /\ Expand(tv)
Spec == Init /\ [][Next]_vars

(* ------------------------------------------------------------------ invariants = laws *)
IsInput == kind \in Fams
B == BondsOf(n, tv)
Ea == AromEdgesOf(B)
E == EdgesOf(B)

InvDom == IsInput => Dom_Graph(n, B) /\ Dom_Rows(n, SortedRows(B)) /\ TvOf(n, B) = tv
InvCycles ==
  IsInput =>
    /\ RingBonds(E, K) = RingBondsByReach(E)
    /\ RingBonds(Ea, K) = RingBondsByReach(Ea)
    /\ exp.mu = 0 <=> exp.rbonds = {}
    /\ Cardinality(CyclesIn(Ea, K)) <= 7 =>
         Independent(CyclesIn(Ea, K)) = IndependentDecl(CyclesIn(Ea, K))
InvMinBasis ==
  IsInput =>
    /\ Law_MinBasisIsBasis(Ea, K, n)
    /\ Law_GreedyMinimum(Ea, K, n)
    /\ Law_MinBasisIsBasis(E, K, n)
\* the traversal of networkx is a cycle basis of the whole graph and of the aromatic part
InvImplBasis ==
  IsInput =>
    /\ Law_ImplBasis(n, B)
    /\ \A rows \in SomeOrders(B) :
         /\ ImplBasisOk(n, RowEdges(AromRows(rows)))
         /\ LET r == ImplRings(n, rows) IN
            /\ Len(r) = exp.mu
            /\ UNION RingSet(r) = exp.rbonds
            /\ LET f == RingFlags(r, Ea, n, exp.hist) IN f.valid /\ f.once /\ f.count /\ f.indep
InvRotatable == IsInput => Law_Rotatable(n, B, K)
InvTypeMaps == IsInput => Law_TypeMaps(n, B, K)
AllPerms(m) == {p \in [1..m -> Atoms(m)] : IsPerm(p, m)}
InvRelabel ==
  IsInput =>
    \A pi \in (IF n <= PermAllN THEN AllPerms(n) ELSE GenPerms(n)) : Law_Relabel(n, B, K, pi)
\* NOT an invariant of the design (finding X08-F1): checked by MCImplMin.cfg, whose violation
\* is the expected result
InvImplMinimum == IsInput => Law_ImplMinimum(n, B, K)
=============================================================================
