---- MODULE Scratch ----
EXTENDS RingPerception, TLC
ASSUME PrintT(<<"A", ImplCycleBasis(4, <<<<0, 1>>, <<0, 2>>, <<1, 2>>, <<2, 3>>>>)>>)
ASSUME PrintT(<<"B", ImplCycleBasis(5, <<<<0, 2>>, <<0, 3>>, <<0, 4>>, <<1, 2>>, <<1, 3>>, <<1, 4>>, <<2, 3>>>>)>>)
VARIABLE x
Init == x = 0
Next == UNCHANGED x
====
