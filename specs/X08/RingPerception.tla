------------------------------- MODULE RingPerception -------------------------------
(* X08: ring, aromaticity and rotatable-bond perception on a bond graph.

   Anchors:  biotite.structure.rings.find_aromatic_rings
             biotite.structure.bonds.find_rotatable_bonds
             BondList.remove_aromaticity / BondList.remove_bond_order / BondType.without_aromaticity
             (BondList.remove_kekulization does not exist in this version of biotite, see NOTES.md)

   A bond list is (n, B): atoms 0..n-1 and a set B of triples <<i, j, t>>, i < j, one per pair
   (lib/BondOps).  Where the code's answer can depend on the ORDER of the rows of
   BondList.as_array() the implementation-shaped operators take the rows as a sequence.

   Layers
     * graph algebra: cycles as EDGE SETS, symmetric difference, span, independence, rank;
     * declarative definitions
         - cycles: the non-empty connected 2-regular edge sets (IsCycle);
         - a RING PERCEPTION ANSWER for a graph is a list of rings such that every ring is a
           simple cycle of the aromatic bonds, each cycle is listed once, the rings are a
           basis of the cycle space (as many as the cyclomatic number, independent), and - the
           documented criterion "only rings with minimum size are returned" - the ring sizes
           are those of a minimum cycle basis (RingAnswerOk);
         - rotatable bond: SINGLE, both ends have another partner, the two ends are not in a
           common cycle (three equivalent formulations: Decl / Bridge / Impl);
     * implementation-shaped definitions
         - ImplCycleBasis: the traversal of networkx.cycle_basis (what both functions call),
           on the node / adjacency order networkx derives from the order of the rows;
         - ImplRings, ImplRotatable: the bodies of the two functions.
   The laws at the end relate the layers; MCPerception checks them on every bounded input. *)
EXTENDS Integers, Sequences, FiniteSets, SequencesExt, FiniteSetsExt, BondOps

(* ------------------------------------------------------------------ bond types *)
BondTypes == 0..9          \* ANY SINGLE DOUBLE TRIPLE QUADRUPLE AROM_SINGLE AROM_DOUBLE AROM_TRIPLE COORDINATION AROMATIC
SINGLE == 1
AromaticTypes == {5, 6, 7, 9}   \* the types find_aromatic_rings keeps (np.isin list)
IsAromatic(t) == t \in AromaticTypes
Dom_BondType(t) == t \in BondTypes

Atoms(n) == 0..(n - 1)
AllPairs(n) == {<<i, j>> \in Atoms(n) \X Atoms(n) : i < j}
\* the property's input domain: canonical bond set, known bond types, no bond of an atom to itself
Dom_Graph(n, B) == Canonical(B, n) /\ \A b \in B : Dom_BondType(b[3])
\* rows as stored by a BondList: i < j, one row per pair
Dom_Rows(n, rows) ==
  /\ \A k \in DOMAIN rows : 0 <= rows[k][1] /\ rows[k][1] < rows[k][2] /\ rows[k][2] < n /\ Dom_BondType(rows[k][3])
  /\ \A k, m \in DOMAIN rows : (rows[k][1] = rows[m][1] /\ rows[k][2] = rows[m][2]) => k = m

EdgesOf(B) == {<<b[1], b[2]>> : b \in B}
AromEdgesOf(B) == {<<b[1], b[2]>> : b \in {c \in B : IsAromatic(c[3])}}
RowEdges(rows) == [k \in DOMAIN rows |-> <<rows[k][1], rows[k][2]>>]
AromRows(rows) == SelectSeq(rows, LAMBDA r : IsAromatic(r[3]))

(* ------------------------------------------------------------------ graph algebra on edge sets *)
Verts(C) == {e[1] : e \in C} \cup {e[2] : e \in C}
Deg(C, a) == Cardinality({e \in C : e[1] = a \/ e[2] = a})
\* neighbourhood / closure: re-stated from C17 BondGraph (Nbrs, Grow, Reach)
Nb(C, a) == {e[2] : e \in {x \in C : x[1] = a}} \cup {e[1] : e \in {x \in C : x[2] = a}}
GrowIn(C, S) == S \cup UNION {Nb(C, a) : a \in S}
\* the atoms reachable from r over the edges C: least fixed point of the neighbourhood closure
RECURSIVE GrowFix(_, _)
GrowFix(C, S) == LET S2 == GrowIn(C, S) IN IF S2 = S THEN S ELSE GrowFix(C, S2)
ReachIn(C, r) == GrowFix(C, {r})
\* the same by a fixed number of rounds (as in C17 BondGraph.Reach); equal by InvCycles
ReachRounds(C, r) == FoldLeft(LAMBDA S, k : GrowIn(C, S), {r}, [k \in 1..Cardinality(Verts(C)) |-> k])
ComponentsOf(C) == {ReachIn(C, r) : r \in Verts(C)}
\* cyclomatic number of the graph spanned by the edges C (isolated atoms do not count)
Mu(C) == Cardinality(C) - Cardinality(Verts(C)) + Cardinality(ComponentsOf(C))

Xor(A, B) == (A \ B) \cup (B \ A)
XorAll(S) == FoldSet(LAMBDA c, acc : Xor(c, acc), {}, S)
SpanOf(S) == {XorAll(T) : T \in SUBSET S}
\* no non-empty subfamily cancels out (declarative) / every member enlarges the span of the
\* members before it (incremental; equal by Law_Independent, used on recorded answers)
IndependentDecl(S) == \A T \in SUBSET S : T # {} => XorAll(T) # {}
SpanAdd(span, c) == span \cup {Xor(x, c) : x \in span}
Independent(S) ==
  FoldSet(LAMBDA c, acc : IF ~acc.ok \/ c \in acc.span THEN [ok |-> FALSE, span |-> acc.span]
                          ELSE [ok |-> TRUE, span |-> SpanAdd(acc.span, c)],
          [ok |-> TRUE, span |-> {{}}], S).ok

\* a simple cycle as an edge set: non-empty, every touched atom has exactly two of the edges,
\* connected
IsCycle(C) ==
  /\ Cardinality(C) >= 3
  /\ Cardinality(Verts(C)) = Cardinality(C)
  /\ \A a \in Verts(C) : Deg(C, a) = 2
  /\ ReachIn(C, (CHOOSE e \in C : TRUE)[1]) = Verts(C)
\* all simple cycles of the complete graph on n atoms (a constant of a model: KCycles(MaxN))
KCycles(n) == {C \in SUBSET AllPairs(n) : IsCycle(C)}
\* declarative: the simple cycles of the graph with edge set E, given the cycles K of a
\* complete graph that contains it
CyclesIn(E, K) == {C \in K : C \subseteq E}
\* the same without a precomputed K (small E only)
CyclesOf(E) == {C \in SUBSET E : IsCycle(C)}

\* an edge lies on a cycle iff its ends stay connected without it
OnCycle(E, e) == e[2] \in ReachIn(E \ {e}, e[1])
RingBondsByReach(E) == {e \in E : OnCycle(E, e)}

(* ------------------------------------------------------------------ minimum cycle basis *)
\* greedy over the cycles by increasing size (the cycle space is a matroid: every choice among
\* cycles of equal size yields the same multiset of sizes, Law_GreedyMinimum)
GreedyStep(acc, c) ==
  IF c \in acc.span THEN acc ELSE [basis |-> acc.basis \cup {c}, span |-> SpanAdd(acc.span, c)]
MinBasis(CS, n) ==
  FoldLeft(LAMBDA acc, k : FoldSet(LAMBDA c, a : GreedyStep(a, c), acc, {C \in CS : Cardinality(C) = k}),
           [basis |-> {}, span |-> {{}}], [k \in 1..n |-> k]).basis
\* sizes of a family of edge sets / of a list of rings as a histogram over 1..n
SizeHist(S, n) == [k \in 1..n |-> Cardinality({C \in S : Cardinality(C) = k})]
LenHist(rings, n) == [k \in 1..n |-> Cardinality({m \in DOMAIN rings : Len(rings[m]) = k})]
TotalSize(S) == FoldSet(LAMBDA C, acc : Cardinality(C) + acc, 0, S)

\* the cycle space from any basis given as edge sets (built member by member; equal to SpanOf
\* by InvMinBasis); its simple cycles
CycleSpace(basis) == FoldSet(LAMBDA c, sp : SpanAdd(sp, c), {{}}, basis)
SimpleOfSpan(basis) == {C \in CycleSpace(basis) : IsCycle(C)}

(* ------------------------------------------------------------------ declarative: aromatic rings *)
\* the edge set of a ring given as a list of atoms (consecutive atoms and last-first are bonded)
RingEdges(r) ==
  {<<Lo(r[k], r[(k % Len(r)) + 1]), Hi(r[k], r[(k % Len(r)) + 1])>> : k \in DOMAIN r}
NoDupSeq(s) == Cardinality(ToSet(s)) = Len(s)
\* one ring is a simple cycle of the edges Ea
RingValid(r, Ea) == Len(r) >= 3 /\ NoDupSeq(r) /\ RingEdges(r) \subseteq Ea
RingSet(rings) == {RingEdges(rings[k]) : k \in DOMAIN rings}

\* the judgement of an answer `rings` for the aromatic edges Ea with minimum-basis sizes minHist
RingFlags(rings, Ea, n, minHist) ==
  LET valid == \A k \in DOMAIN rings : RingValid(rings[k], Ea) IN
  [valid |-> valid,
   once  |-> Cardinality(RingSet(rings)) = Len(rings),
   count |-> Len(rings) = Mu(Ea),
   indep |-> valid /\ Independent(RingSet(rings)),
   min   |-> LenHist(rings, n) = minHist]
FlagsOk(f) == f.valid /\ f.once /\ f.count /\ f.indep /\ f.min
RingAnswerOk(rings, Ea, n, minHist) == FlagsOk(RingFlags(rings, Ea, n, minHist))

\* uniquely determined views of every correct answer
RingBonds(E, K) == UNION CyclesIn(E, K)
RingAtoms(E, K) == Verts(RingBonds(E, K))

(* ------------------------------------------------------------------ declarative: rotatable bonds *)
\* documentation: 1. single bond  2. the connected atoms are not within the same cycle
\*                3. both connected atoms are not terminal
SameCycle(cs, i, j) == \E C \in cs : i \in Verts(C) /\ j \in Verts(C)
DeclRotatable(B, K) ==
  LET cs == CyclesIn(EdgesOf(B), K) IN
  {b \in B : /\ b[3] = SINGLE
             /\ Degree(B, b[1]) > 1 /\ Degree(B, b[2]) > 1
             /\ ~SameCycle(cs, b[1], b[2])}
\* the same with "the bond is a bridge" (no K needed: used for recorded inputs of any size)
BridgeRotatable(B) ==
  {b \in B : /\ b[3] = SINGLE
             /\ Degree(B, b[1]) > 1 /\ Degree(B, b[2]) > 1
             /\ ~OnCycle(EdgesOf(B), <<b[1], b[2]>>)}

(* ------------------------------------------------------------------ bond type maps *)
\* NoArom, StripAromatic, StripOrder come from lib/BondOps (shared with C02):
\*   AROMATIC_SINGLE/DOUBLE/TRIPLE -> SINGLE/DOUBLE/TRIPLE, AROMATIC -> ANY, others unchanged
Op_WithoutAromaticity(t) == NoArom(t)
Op_RemoveAromaticity(B) == StripAromatic(B)
Op_RemoveBondOrder(B) == StripOrder(B)
\* implementation-shaped: four successive masked assignments on the type column
ImplRemoveAromaticity(rows) ==
  FoldLeft(LAMBDA rs, m : [k \in DOMAIN rs |-> IF rs[k][3] = m[1] THEN <<rs[k][1], rs[k][2], m[2]>> ELSE rs[k]],
           rows, <<<<5, 1>>, <<6, 2>>, <<7, 3>>, <<9, 0>>>>)

(* ------------------------------------------------------------------ implementation-shaped:
   networkx.cycle_basis(G) for G built by add_edges_from(rows) (networkx 3.x):
     nodes in order of first appearance (u before v of each edge), adjacency in edge order;
     gnodes = dict.fromkeys(G); root = gnodes.popitem()  -> the LAST remaining node;
     stack walk: z = stack.pop(); for nbr in G[z]:
        new node -> pred[nbr] = z, push, used[nbr] = {z}
        nbr not in used[z] -> cycle [nbr, z, pred[z], pred[pred[z]], ... up to the first node in used[nbr]];
                              used[nbr].add(z)
     then the visited nodes are dropped from gnodes and the next component starts. *)
NodeOrder(es) ==
  FoldLeft(LAMBDA acc, e :
             LET a1 == IF e[1] \in ToSet(acc) THEN acc ELSE Append(acc, e[1]) IN
             IF e[2] \in ToSet(a1) THEN a1 ELSE Append(a1, e[2]),
           <<>>, es)
AdjSeq(es, z) ==
  FoldLeft(LAMBDA acc, e : IF e[1] = z THEN Append(acc, e[2])
                           ELSE IF e[2] = z THEN Append(acc, e[1]) ELSE acc,
           <<>>, es)

RECURSIVE Climb(_, _, _, _)
Climb(pred, pn, p, acc) ==
  IF p \in pn \/ pred[p] = p THEN Append(acc, p) ELSE Climb(pred, pn, pred[p], Append(acc, p))

VisitNbr(w, z, nbr) ==
  IF nbr \notin w.seen
  THEN [w EXCEPT !.pred[nbr] = z, !.stack = Append(@, nbr), !.used[nbr] = {z}, !.seen = @ \cup {nbr}]
  ELSE IF nbr \notin w.used[z]
  THEN [w EXCEPT !.cycles = Append(@, Climb(w.pred, w.used[nbr], w.pred[z], <<nbr, z>>)),
                 !.used[nbr] = @ \cup {z}]
  ELSE w

RECURSIVE Walk(_, _)
Walk(es, w) ==
  IF w.stack = <<>> THEN w
  ELSE LET z == Last(w.stack) IN
       Walk(es, FoldLeft(LAMBDA a, nbr : VisitNbr(a, z, nbr), [w EXCEPT !.stack = Front(@)], AdjSeq(es, z)))

RECURSIVE CompLoop(_, _, _, _)
CompLoop(n, es, gnodes, cycles) ==
  IF gnodes = <<>> THEN cycles
  ELSE LET root == Last(gnodes)
           w == Walk(es, [stack |-> <<root>>,
                          pred |-> [a \in Atoms(n) |-> IF a = root THEN root ELSE -1],
                          used |-> [a \in Atoms(n) |-> {}],
                          seen |-> {root},
                          cycles |-> cycles])
       IN CompLoop(n, es, SelectSeq(gnodes, LAMBDA a : a \notin w.seen), w.cycles)

\* es: sequence of edges <<u, v>>, no loops, no repeated pair; result: list of atom lists
ImplCycleBasis(n, es) == CompLoop(n, es, NodeOrder(es), <<>>)

\* find_aromatic_rings: keep the rows with an aromatic type, cycle basis of that graph
ImplRings(n, rows) == ImplCycleBasis(n, RowEdges(AromRows(rows)))

\* find_rotatable_bonds: cycles = cycle_basis(as_graph()); partners from get_all_bonds();
\* keep a row if SINGLE, both atoms have > 1 partner and no listed cycle contains both atoms
RowDegree(rows, a) == Cardinality({k \in DOMAIN rows : rows[k][1] = a \/ rows[k][2] = a})
ImplRotatable(n, rows) ==
  LET cyc == ImplCycleBasis(n, RowEdges(rows))
      InSame(i, j) == \E k \in DOMAIN cyc : i \in ToSet(cyc[k]) /\ j \in ToSet(cyc[k])
  IN SelectSeq(rows, LAMBDA r : /\ r[3] = SINGLE
                                /\ RowDegree(rows, r[1]) > 1 /\ RowDegree(rows, r[2]) > 1
                                /\ ~InSame(r[1], r[2]))

(* ------------------------------------------------------------------ relabelling *)
\* pi: a permutation of the atoms as a sequence, atom a becomes pi[a + 1]
IsPerm(pi, n) == Len(pi) = n /\ ToSet(pi) = Atoms(n)
RelabelPair(e, pi) == <<Lo(pi[e[1] + 1], pi[e[2] + 1]), Hi(pi[e[1] + 1], pi[e[2] + 1])>>
RelabelEdges(E, pi) == {RelabelPair(e, pi) : e \in E}
Relabel(B, pi) == {<<RelabelPair(b, pi)[1], RelabelPair(b, pi)[2], b[3]>> : b \in B}
RelabelAtoms(S, pi) == {pi[a + 1] : a \in S}
\* two generators of the symmetric group: the transposition (0 1) and the rotation a -> a + 1
SwapPerm(n) == [k \in 1..n |-> IF k = 1 THEN 1 ELSE IF k = 2 THEN 0 ELSE k - 1]
RotPerm(n) == [k \in 1..n |-> k % n]
GenPerms(n) == IF n < 2 THEN {} ELSE {SwapPerm(n), RotPerm(n)}

(* ------------------------------------------------------------------ row orders *)
SortedRows(B) == SetToSortSeq(B, LAMBDA a, b : a[1] < b[1] \/ (a[1] = b[1] /\ a[2] < b[2]))
RotateSeq(s, k) == IF s = <<>> THEN s ELSE [m \in DOMAIN s |-> s[((m + k - 1) % Len(s)) + 1]]
\* the orders the model evaluates the implementation-shaped operators on
SomeOrders(B) ==
  LET s == SortedRows(B) IN {s, Reverse(s), RotateSeq(s, 1), RotateSeq(Reverse(s), 2)}

(* ------------------------------------------------------------------ laws *)
\* the cycles by inclusion in K are the cycles by definition; ring bonds two ways
Law_Cycles(E, K) ==
  /\ CyclesIn(E, K) = CyclesOf(E)
  /\ RingBonds(E, K) = RingBondsByReach(E)
\* greedy yields a basis of the cycle space: right number, independent, spans every cycle
Law_MinBasisIsBasis(E, K, n) ==
  LET mb == MinBasis(CyclesIn(E, K), n) IN
  /\ Cardinality(mb) = Mu(E)
  /\ mb \subseteq CyclesIn(E, K)
  /\ Independent(mb)
  /\ Cardinality(mb) <= 7 => (IndependentDecl(mb) /\ CyclesIn(E, K) \subseteq SpanOf(mb))
  /\ Cardinality(mb) <= 7 => CycleSpace(mb) = SpanOf(mb)
  /\ SimpleOfSpan(mb) = CyclesIn(E, K)
\* ... of minimum total size among ALL bases (brute force; only where that is affordable)
ChooseK(S, k) == {T \in SUBSET S : Cardinality(T) = k}
Law_GreedyMinimum(E, K, n) ==
  LET cs == CyclesIn(E, K)  mb == MinBasis(cs, n) IN
  (Cardinality(cs) <= 8) =>
     \A T \in ChooseK(cs, Mu(E)) : Independent(T) => TotalSize(T) >= TotalSize(mb)
\* the traversal of networkx yields a cycle basis for every row order tried: right number of
\* simple cycles of the graph, each once, independent.  (It does NOT always yield minimum
\* sizes: that is Law_ImplMinimum, violated from 5 atoms on, see NOTES.md finding X08-F1.)
ImplBasisOk(n, es) ==
  LET cyc == ImplCycleBasis(n, es)  E == ToSet(es) IN
  /\ \A k \in DOMAIN cyc : RingValid(cyc[k], E)
  /\ Cardinality(RingSet(cyc)) = Len(cyc)
  /\ Len(cyc) = Mu(E)
  /\ Independent(RingSet(cyc))
Law_ImplBasis(n, B) == \A rows \in SomeOrders(B) : ImplBasisOk(n, RowEdges(rows))
Law_ImplMinimum(n, B, K) ==
  \A rows \in SomeOrders(B) :
    LenHist(ImplRings(n, rows), n) = SizeHist(MinBasis(CyclesIn(AromEdgesOf(B), K), n), n)
\* the three formulations of "rotatable" agree, for every row order tried
Law_Rotatable(n, B, K) ==
  /\ DeclRotatable(B, K) = BridgeRotatable(B)
  /\ \A rows \in SomeOrders(B) : ToSet(ImplRotatable(n, rows)) = DeclRotatable(B, K)
  /\ DeclRotatable(B, K) \subseteq B
\* type maps: shape, idempotence, absorption, effect on the two perceptions
Law_TypeMaps(n, B, K) ==
  LET na == StripAromatic(B)  no == StripOrder(B) IN
  /\ EdgesOf(na) = EdgesOf(B) /\ EdgesOf(no) = EdgesOf(B)
  /\ Cardinality(na) = Cardinality(B) /\ Cardinality(no) = Cardinality(B)
  /\ StripAromatic(na) = na /\ StripOrder(no) = no
  /\ StripOrder(na) = no /\ StripAromatic(no) = no
  /\ AromEdgesOf(na) = {} /\ AromEdgesOf(no) = {}
  /\ \A b \in B : ~IsAromatic(b[3]) => b \in na
  /\ ToSet(ImplRemoveAromaticity(SortedRows(B))) = na
  /\ DeclRotatable(B, K) \subseteq DeclRotatable(na, K)
  /\ DeclRotatable(no, K) = {}
\* relabelling the atoms relabels the answers (pi ranges over generators of the group; the
\* model enumerates every labelled graph, so the law extends to every permutation)
Law_Relabel(n, B, K, pi) ==
  LET Bp == Relabel(B, pi)
      Ea == AromEdgesOf(B)
      Eap == AromEdgesOf(Bp)
      cs == CyclesIn(Ea, K)
      csp == CyclesIn(Eap, K)
  IN
  /\ Dom_Graph(n, Bp)
  /\ Eap = RelabelEdges(Ea, pi)
  /\ DeclRotatable(Bp, K) = Relabel(DeclRotatable(B, K), pi)
  /\ csp = {RelabelEdges(C, pi) : C \in cs}
  /\ UNION csp = RelabelEdges(UNION cs, pi)                    \* ring bonds
  /\ Verts(UNION csp) = RelabelAtoms(Verts(UNION cs), pi)      \* ring atoms
  /\ Mu(Eap) = Mu(Ea)
  /\ SizeHist(MinBasis(csp, n), n) = SizeHist(MinBasis(cs, n), n)
  /\ StripAromatic(Bp) = Relabel(StripAromatic(B), pi)

(* ------------------------------------------------------------------ pinned examples *)
\* documentation of BondType.without_aromaticity / BondList.remove_aromaticity
ASSUME Op_WithoutAromaticity(6) = 2
ASSUME Op_RemoveAromaticity({<<0, 1, 5>>, <<1, 2, 6>>}) = {<<0, 1, 1>>, <<1, 2, 2>>}
ASSUME ImplRemoveAromaticity(<<<<0, 1, 5>>, <<1, 2, 6>>, <<0, 2, 9>>>>) = <<<<0, 1, 1>>, <<1, 2, 2>>, <<0, 2, 0>>>>
ASSUME \A t \in BondTypes : NoArom(t) \in BondTypes /\ ~IsAromatic(NoArom(t)) /\ NoArom(NoArom(t)) = NoArom(t)
\* cycles of small graphs
ASSUME Cardinality(KCycles(4)) = 7 /\ Cardinality(KCycles(3)) = 1
ASSUME Mu({<<0, 1>>, <<1, 2>>, <<0, 2>>, <<2, 3>>}) = 1 /\ Mu({}) = 0
\* two triangles sharing a bond: minimum basis = the two triangles, not the 4-ring
ASSUME SizeHist(MinBasis(KCycles(4) \cap SUBSET {<<0,1>>, <<1,2>>, <<0,2>>, <<1,3>>, <<2,3>>}, 4), 4) = <<0, 0, 2, 0>>
\* networkx walk on a triangle with a tail, rows in sorted order
ASSUME ImplCycleBasis(4, <<<<0, 1>>, <<0, 2>>, <<1, 2>>, <<2, 3>>>>) = <<<<0, 1, 2>>>>
ASSUME RingEdges(<<0, 2, 1>>) = {<<0, 1>>, <<0, 2>>, <<1, 2>>}
\* butane-like chain: only the middle bond is rotatable; in a 4-ring none is
ASSUME BridgeRotatable({<<0, 1, 1>>, <<1, 2, 1>>, <<2, 3, 1>>}) = {<<1, 2, 1>>}
ASSUME BridgeRotatable({<<0, 1, 1>>, <<1, 2, 1>>, <<2, 3, 1>>, <<0, 3, 1>>}) = {}
ASSUME ImplRotatable(4, <<<<0, 1, 1>>, <<1, 2, 1>>, <<2, 3, 1>>>>) = <<<<1, 2, 1>>>>
\* documentation of find_rotatable_bonds: tyrosine with hydrogens (atoms numbered N CA CB CG CD1 CE1
\* CZ OH CE2 CD2 C OXT O, then the hydrogens) -> N-CA, CA-C, CA-CB, C-OXT, CB-CG, CZ-OH
TyrosineH ==
  {<<0,1,1>>, <<1,2,1>>, <<2,3,1>>, <<3,4,5>>, <<4,5,6>>, <<5,6,5>>, <<6,7,1>>, <<6,8,6>>, <<8,9,5>>,
   <<1,10,1>>, <<10,11,1>>, <<10,12,2>>, <<3,9,6>>, <<0,13,1>>, <<0,14,1>>, <<1,15,1>>, <<2,16,1>>,
   <<2,17,1>>, <<4,18,1>>, <<5,19,1>>, <<7,20,1>>, <<8,21,1>>, <<9,22,1>>, <<11,23,1>>}
ASSUME EdgesOf(BridgeRotatable(TyrosineH)) = {<<0,1>>, <<1,10>>, <<1,2>>, <<10,11>>, <<2,3>>, <<6,7>>}
ASSUME LenHist(ImplRings(24, SortedRows(TyrosineH)), 24)[6] = 1 /\ Mu(AromEdgesOf(TyrosineH)) = 1
=============================================================================
