SPECIFICATION Spec
CONSTANTS
  MaxN = 5
  FullN = 0
  TypedNs = {}
  ClassNs = {}
  SaNs = {}
  MonoNs = {5}
  PermAllN = 0
  LawFams = {}
INVARIANT InvImplMinimum
CHECK_DEADLOCK FALSE
