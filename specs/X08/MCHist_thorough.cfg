SPECIFICATION Spec
CONSTANTS
  N = 4
  T = {1, 6, 9}
  MaxBonds = 4
CONSTRAINT BondBound
INVARIANT InvDom
INVARIANT InvView
INVARIANT InvViewSense
PROPERTY TypeMapStep
CHECK_DEADLOCK FALSE
