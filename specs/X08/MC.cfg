SPECIFICATION Spec
CONSTANTS
  MaxN = 5
  FullN = 3
  TypedNs = {}
  ClassNs = {4}
  SaNs = {}
  MonoNs = {5}
  PermAllN = 3
  LawFams = {"full", "class", "arom", "single"}
INVARIANT InvDom
INVARIANT InvCycles
INVARIANT InvMinBasis
INVARIANT InvImplBasis
INVARIANT InvRotatable
INVARIANT InvTypeMaps
INVARIANT InvExp
INVARIANT InvRelabel
CHECK_DEADLOCK FALSE
