----------------------------- MODULE SeqCodecOps -----------------------------
(* C03: biotite.sequence Alphabet / LetterAlphabet / AlphabetMapper, Sequence objects,
   NucleotideSequence.complement / translate, CodonTable, KmerAlphabet.

   Symbols are integers: for letter alphabets the byte value of the character (so "all byte
   values" 0..255 are inputs of the encoders), for generic alphabets an index into the
   driver's list of arbitrary hashable objects.  An alphabet is a sequence of distinct
   symbols, the code of a symbol is its 0-based index.  A sequence object is
       [kind \in {"general","nuc","prot"}, alph, codes].

   One operator per public call; Apply(S, op, a) = [kind, alph, codes, oc, out] is total on
   the call universe of the configurations.
   oc \in {"ok", "AlphabetError", "IndexError", "Rejected"}  ("Rejected": any exception, used
   where the property names no exception class); a refused call leaves the object unchanged.

   Decl definitions state the property, Impl definitions follow the code's shape (256-entry
   byte table with sentinel, complement through an alphabet mapper, radix numbers, per-frame
   ORF scan, rolling k-mer code); S1 proves Impl = Decl on the bounded universe.            *)
EXTENDS PyIndex, SequencesExt, FiniteSetsExt, TLC

(* ------------------------------------------------------------------ alphabets *)
Distinct(alph)    == \A i, j \in DOMAIN alph : alph[i] = alph[j] => i = j
Dom_Alphabet(alph) == Len(alph) >= 1 /\ Distinct(alph)
InAlph(alph, s)   == \E i \in DOMAIN alph : alph[i] = s
CodeOf(alph, s)   == (CHOOSE i \in DOMAIN alph : alph[i] = s) - 1
ValidCode(alph, c) == 0 <= c /\ c < Len(alph)
SymOf(alph, c)    == alph[c + 1]

R(oc, out) == [oc |-> oc, out |-> out]

Encode(alph, s) == IF InAlph(alph, s) THEN R("ok", CodeOf(alph, s)) ELSE R("AlphabetError", <<>>)
Decode(alph, c) == IF ValidCode(alph, c) THEN R("ok", SymOf(alph, c)) ELSE R("AlphabetError", <<>>)
EncodeMultiple(alph, syms) ==
  IF \A i \in DOMAIN syms : InAlph(alph, syms[i])
    THEN R("ok", [i \in DOMAIN syms |-> CodeOf(alph, syms[i])]) ELSE R("AlphabetError", <<>>)
DecodeMultiple(alph, codes) ==
  IF \A i \in DOMAIN codes : ValidCode(alph, codes[i])
    THEN R("ok", [i \in DOMAIN codes |-> SymOf(alph, codes[i])]) ELSE R("AlphabetError", <<>>)

\* implementation-shaped (codec.pyx encode_chars): 256-entry table, sentinel = alphabet length
ByteTable(alph) == [b \in 0..255 |-> IF InAlph(alph, b) THEN CodeOf(alph, b) ELSE Len(alph)]
EncodeCharsImpl(alph, syms) ==
  LET T == ByteTable(alph) IN
  IF \E i \in DOMAIN syms : T[syms[i]] = Len(alph) THEN R("AlphabetError", <<>>)
  ELSE R("ok", [i \in DOMAIN syms |-> T[syms[i]]])

\* alphabet a extends alphabet b: b is a prefix of a
Extends(a, b) == Len(b) <= Len(a) /\ \A i \in DOMAIN b : a[i] = b[i]

\* AlphabetMapper(src, tgt)[codes]: the same symbols, coded in tgt
Dom_Mapper(src, tgt) == \A i \in DOMAIN src : InAlph(tgt, src[i])
MapCodes(src, tgt, codes) == [i \in DOMAIN codes |-> CodeOf(tgt, SymOf(src, codes[i]))]
\* implementation-shaped: identity when tgt extends src, otherwise a per-code table
MapCodesImpl(src, tgt, codes) ==
  IF Extends(tgt, src) THEN codes
  ELSE LET M == [c \in 0..(Len(src) - 1) |-> CodeOf(tgt, SymOf(src, c))] IN
       [i \in DOMAIN codes |-> M[codes[i]]]

(* ------------------------------------------------------------------ nucleotides *)
\* A C G T R Y W S M K H B V D N  (byte values)
NucUnamb == <<65, 67, 71, 84>>
NucAmb   == <<65, 67, 71, 84, 82, 89, 87, 83, 77, 75, 72, 66, 86, 68, 78>>
\* IUPAC pairing as a constant function on symbols
ComplSym(s) ==
  CASE s = 65 -> 84 [] s = 84 -> 65 [] s = 67 -> 71 [] s = 71 -> 67      \* A-T C-G
    [] s = 82 -> 89 [] s = 89 -> 82                                      \* R-Y
    [] s = 77 -> 75 [] s = 75 -> 77                                      \* M-K
    [] s = 72 -> 68 [] s = 68 -> 72                                      \* H-D
    [] s = 66 -> 86 [] s = 86 -> 66                                      \* B-V
    [] s = 87 -> 87 [] s = 83 -> 83 [] s = 78 -> 78                      \* W S N
\* implementation-shaped (seqtypes.py): mapper from the alphabet of complement symbols to the
\* ambiguous alphabet, applied to the codes (also for unambiguous sequences)
ComplCodeImpl(c) == CodeOf(NucAmb, [i \in DOMAIN NucAmb |-> ComplSym(NucAmb[i])][c + 1])
ProtAlph == <<65, 67, 68, 69, 70, 71, 72, 73, 75, 76, 77, 78, 80, 81, 82, 83, 84, 86, 87, 89, 66, 90, 88, 42>>
StopCode == 23
MetCode  == 10

(* ------------------------------------------------------------------ codon tables *)
\* a table is a function 0..63 -> amino acid code (sequence of length 64 indexed by number+1);
\* a codon is a triple of nucleotide codes 0..3
Num(c1, c2, c3) == 16 * c1 + 4 * c2 + c3
\* implementation-shaped (CodonTable._to_number): sum of radix multipliers (16, 4, 1) * codes
NumImpl(cod) == FoldLeft(LAMBDA acc, i : acc + <<16, 4, 1>>[i] * cod[i], 0, <<1, 2, 3>>)
\* CodonTable._to_codon
ToCodon(n) == <<n \div 16, (n % 16) \div 4, n % 4>>
AA(table, n) == table[n + 1]

StdTable == <<8, 11, 8, 11, 16, 16, 16, 16, 14, 15, 14, 15, 7, 7, 10, 7, 13, 6, 13, 6, 12, 12, 12, 12,
              14, 14, 14, 14, 9, 9, 9, 9, 3, 2, 3, 2, 0, 0, 0, 0, 5, 5, 5, 5, 17, 17, 17, 17,
              23, 19, 23, 19, 15, 15, 15, 15, 23, 1, 18, 1, 9, 4, 9, 4>>
\* a synthetic table: no relation to biology, several stop codons, start codons that are stops
SynTable == [n \in 1..64 |-> IF (n - 1) % 7 = 3 THEN 23 ELSE ((n - 1) * 5 + 2) % 23]

CodonAt(codes, p) == Num(codes[p + 1], codes[p + 2], codes[p + 3])          \* p 0-based

Dom_Complete(codes) == Len(codes) % 3 = 0
\* met_start is documented for the ORF mode only
Dom_Translate(complete, met) == complete => ~met
TranslateComplete(codes, table) ==
  [k \in 1..(Len(codes) \div 3) |-> AA(table, CodonAt(codes, 3 * (k - 1)))]

\* Declarative: an ORF <<s, e>> starts at a start codon s and ends behind the first in-frame
\* stop codon at or after s, or at the end of the frame
FrameEnd(n, f) == f + ((n - f) \div 3) * 3
OrfStarts(codes, starts) == {s \in 0..(Len(codes) - 3) : CodonAt(codes, s) \in starts}
OrfEnd(codes, table, s) ==
  LET n == Len(codes)
      stops == {q \in s..(n - 3) : (q - s) % 3 = 0 /\ AA(table, CodonAt(codes, q)) = StopCode}
  IN IF stops = {} THEN FrameEnd(n, s % 3) ELSE Min(stops) + 3
OrfProtein(codes, table, s, e, met) ==
  [k \in 1..((e - s) \div 3) |->
     IF met /\ k = 1 THEN MetCode ELSE AA(table, CodonAt(codes, s + 3 * (k - 1)))]
OrfsDecl(codes, table, starts, met) ==
  LET ss == SetToSortSeq(OrfStarts(codes, starts), LAMBDA x, y : x < y) IN
  [i \in DOMAIN ss |-> <<ss[i], OrfEnd(codes, table, ss[i]),
                         OrfProtein(codes, table, ss[i], OrfEnd(codes, table, ss[i]), met)>>]

\* Implementation-shaped (NucleotideSequence.translate, complete=False): per frame, translate
\* the whole frame, find start codon indices, cut at the first stop in the translated frame,
\* positions = shift + 3 * index; finally sort by start
OrfsImpl(codes, table, starts, met) ==
  LET n == Len(codes)
      Frame(shift) ==
        LET m == (n - shift) \div 3
            prot == [k \in 1..m |-> AA(table, CodonAt(codes, shift + 3 * (k - 1)))]
            sidx == {k \in 1..m : CodonAt(codes, shift + 3 * (k - 1)) \in starts}      \* 1-based
            One(si) ==
              LET rest  == SubSeq(prot, si, m)
                  stops == {j \in DOMAIN rest : rest[j] = StopCode}
                  stopi == IF stops = {} THEN Len(rest) ELSE Min(stops)
                  p     == SubSeq(rest, 1, stopi)
              IN <<shift + (si - 1) * 3, shift + (si - 1 + stopi) * 3,
                   IF met THEN [p EXCEPT ![1] = MetCode] ELSE p>>
        IN {One(si) : si \in sidx}
      all == Frame(0) \cup Frame(1) \cup Frame(2)
  IN SetToSortSeq(all, LAMBDA x, y : x[1] < y[1])

(* ------------------------------------------------------------------ k-mers *)
Pow(b, e) == FoldLeft(LAMBDA acc, i : acc * b, 1, [i \in 1..e |-> i])
\* Declarative positional radix value of a k-mer
FuseVal(b, kmer) == FoldLeft(LAMBDA acc, i : acc * b + kmer[i], 0, [i \in 1..Len(kmer) |-> i])
Fuse(b, k, kmer) ==
  IF Len(kmer) # k THEN R("Rejected", <<>>)           \* not a k-mer: the property names no exception class
  ELSE IF \E i \in DOMAIN kmer : ~(0 <= kmer[i] /\ kmer[i] < b) THEN R("AlphabetError", <<>>)
  ELSE R("ok", FuseVal(b, kmer))
Split(b, k, n) ==
  IF n < 0 \/ n >= Pow(b, k) THEN R("AlphabetError", <<>>)
  ELSE R("ok", [i \in 1..k |-> (n \div Pow(b, k - i)) % b])

\* spacing: <<>> (contiguous) or <<offsets>> with a sorted sequence of k distinct offsets >= 0
Offsets(k, sp)  == IF sp = <<>> THEN [i \in 1..k |-> i - 1] ELSE sp[1]
Span(k, sp)     == Offsets(k, sp)[k] + 1
\* positions of the sequence (1-based) that some k-mer reads
ReadPos(k, sp, n) == {i + Offsets(k, sp)[j] : i \in 1..(n - Span(k, sp) + 1), j \in 1..k}
\* whether an invalid code at a position no k-mer reads must be reported is left open:
\* such inputs are outside the domain
Dom_Kmers(b, k, sp, codes) == \A p \in DOMAIN codes : codes[p] >= b => p \in ReadPos(k, sp, Len(codes))
CreateKmers(b, k, sp, codes) ==
  LET off == Offsets(k, sp)  m == Len(codes) - Span(k, sp) + 1 IN
  IF m < 1 THEN R("Rejected", <<>>)                                \* documented ValueError
  ELSE IF \E i \in 1..m : \E j \in 1..k : codes[i + off[j]] >= b THEN R("AlphabetError", <<>>)
  ELSE R("ok", [i \in 1..m |-> FuseVal(b, [j \in 1..k |-> codes[i + off[j]]])])
\* implementation-shaped (contiguous case): rolling update of the previous k-mer code
RollingKmers(b, k, codes) ==
  LET m == Len(codes) - k + 1
      first == FuseVal(b, SubSeq(codes, 1, k))
      step(acc, i) == Append(acc, (acc[Len(acc)] - codes[i - 1] * Pow(b, k - 1)) * b + codes[i + k - 1])
  IN FoldLeft(step, <<first>>, [i \in 1..(m - 1) |-> i + 1])

(* Large k.  TLC integers are 32 bit, so a k-mer code n with b^k >= 2^31 cannot be written as a
   number.  The radix definition is stated on the base-b digits instead: the code of a k-mer is
   THE number whose k base-b digits (most significant first) are the symbol codes of the k-mer.
   In this "digit form" a code is the sequence of its k digits; the driver converts the int64
   the library returns into its digits (a longer sequence when the value is >= b^k, a leading
   -1 when it is negative - both are never expected).  Law_Digits ties the digit form to the
   integer form wherever the latter is expressible.
   Codes are int64 in the library: k is restricted to b^k <= 2^62, stated with the bit length
   of b so that TLC can evaluate it.                                                        *)
Bits(b) == CHOOSE t \in 1..16 : Pow(2, t) >= b /\ (t = 1 \/ Pow(2, t - 1) < b)
Dom_KmerWidth(b, k) == b >= 2 /\ b <= 65536 /\ k >= 2 /\ k * Bits(b) <= 62
ValidDigits(b, k, d) == Len(d) = k /\ \A i \in DOMAIN d : 0 <= d[i] /\ d[i] < b
FuseD(b, k, kmer) ==
  IF Len(kmer) # k THEN R("Rejected", <<>>)
  ELSE IF \E i \in DOMAIN kmer : ~(0 <= kmer[i] /\ kmer[i] < b) THEN R("AlphabetError", <<>>)
  ELSE R("ok", kmer)
\* the code is given by its digits; k+1 digits <<1, 0, ..., 0>> = b^k, the first invalid code
SplitD(b, k, d) == IF ValidDigits(b, k, d) THEN R("ok", d) ELSE R("AlphabetError", <<>>)
Window(k, sp, codes, i) == [j \in 1..k |-> codes[i + Offsets(k, sp)[j]]]
CreateKmersD(b, k, sp, codes) ==
  LET m == Len(codes) - Span(k, sp) + 1 IN
  IF m < 1 THEN R("Rejected", <<>>)
  ELSE IF \E i \in 1..m : \E j \in 1..k : Window(k, sp, codes, i)[j] >= b THEN R("AlphabetError", <<>>)
  ELSE R("ok", [i \in 1..m |-> Window(k, sp, codes, i)])
\* implementation-shaped rolling update on digits: prev - lead * b^(k-1) clears the leading
\* digit (it IS lead), * b shifts every digit one place up, + code fills the last place
RollD(prev, lead, code) == IF prev[1] = lead THEN Tail(prev) \o <<code>> ELSE <<-1>> \o prev
RollingKmersD(k, codes) ==
  LET m == Len(codes) - k + 1
      step(acc, i) == Append(acc, RollD(acc[Len(acc)], codes[i - 1], codes[i + k - 1]))
  IN FoldLeft(step, <<SubSeq(codes, 1, k)>>, [i \in 1..(m - 1) |-> i + 1])
KEncodeD(alph, k, syms) ==
  IF ~(\A i \in DOMAIN syms : InAlph(alph, syms[i])) THEN R("AlphabetError", <<>>)
  ELSE FuseD(Len(alph), k, EncodeMultiple(alph, syms).out)
KDecodeD(alph, k, d) ==
  LET r == SplitD(Len(alph), k, d) IN
  IF r.oc # "ok" THEN r ELSE R("ok", [i \in 1..k |-> SymOf(alph, r.out[i])])

\* the k-mer alphabet over a base alphabet: symbols are k-tuples of base symbols
KEncode(alph, k, syms) ==
  IF ~(\A i \in DOMAIN syms : InAlph(alph, syms[i])) THEN R("AlphabetError", <<>>)
  ELSE Fuse(Len(alph), k, EncodeMultiple(alph, syms).out)
KDecode(alph, k, n) ==
  LET r == Split(Len(alph), k, n) IN
  IF r.oc # "ok" THEN r ELSE R("ok", [i \in 1..k |-> SymOf(alph, r.out[i])])

(* ------------------------------------------------------------------ sequence objects *)
Seq0(kind, alph, codes) == [kind |-> kind, alph |-> alph, codes |-> codes]
Res(S, oc, out) == [kind |-> S.kind, alph |-> S.alph, codes |-> S.codes, oc |-> oc, out |-> out]
Fail(S, oc)     == Res(S, oc, <<>>)
Symbols(S)      == [i \in DOMAIN S.codes |-> SymOf(S.alph, S.codes[i])]      \* the "string"

AllIn(alph, syms) == \A i \in DOMAIN syms : InAlph(alph, syms[i])
\* NucleotideSequence(symbols): unambiguous alphabet if possible, else the ambiguous one
NucAlphFor(syms) == IF AllIn(NucUnamb, syms) THEN NucUnamb ELSE NucAmb

\* a failing constructor yields no object: the object at hand stays what it was
Construct(S, kind, alph, syms) ==
  LET al == IF kind = "nuc" THEN NucAlphFor(syms) ELSE IF kind = "prot" THEN ProtAlph ELSE alph IN
  IF AllIn(al, syms) THEN Res(Seq0(kind, al, EncodeMultiple(al, syms).out), "ok", <<>>)
  ELSE Fail(S, "AlphabetError")

PickSeq(s, pos) == [i \in DOMAIN pos |-> s[pos[i] + 1]]

(* Index forms.  An index object is <<kind, payload, form>> (PyIndex.Resolve reads the first two
   components): the form says in which of the shapes numpy accepts the index is handed over -
   a Python int or a numpy integer scalar of some width, a Python list or an integer ndarray of
   some dtype, a bool ndarray or a list of bools, a slice with Python or numpy integer bounds.
   The meaning of a call never depends on the form; the call universes enumerate every
   admissible form (Dom_Form) so that the real objects are exercised with each of them.      *)
IntForms   == {"py", "i8", "i16", "i32", "i64", "u8", "u16", "u32", "u64"}
ArrForms   == {"list", "i8", "i16", "i32", "i64", "u8", "u16", "u32", "u64"}
MaskForms  == {"np", "list"}
SliceForms == {"py", "np"}
UnsignedForm(f) == f \in {"u8", "u16", "u32", "u64"}
FormsOf(kind) == CASE kind = "int" -> IntForms [] kind = "arr" -> ArrForms
                   [] kind = "mask" -> MaskForms [] kind = "slice" -> SliceForms
\* unsigned forms hold no negative value; an empty Python list is not an integer/bool index
\* (numpy reads [] as a float array)
Dom_Form(idx) ==
  /\ Len(idx) = 3 /\ idx[3] \in FormsOf(idx[1])
  /\ (idx[1] \in {"int", "arr"} /\ UnsignedForm(idx[3]) => \A i \in DOMAIN idx[2] : idx[2][i] >= 0)
  /\ (idx[1] \in {"arr", "mask"} /\ idx[3] = "list" => Len(idx[2]) >= 1)
WithForms(X, F) == {<<x[1], x[2], f>> : x \in X, f \in F}
Formed(X, FI, FA, FM, FS) ==       \* every index of X in every admissible form of the given sets
  {y \in UNION {WithForms({x}, CASE x[1] = "int" -> FI [] x[1] = "arr" -> FA
                                 [] x[1] = "mask" -> FM [] x[1] = "slice" -> FS) : x \in X} : Dom_Form(y)}

SetSym(S, i, s) ==
  IF ~InAlph(S.alph, s) /\ ~InRange(i, Len(S.codes)) THEN Fail(S, "Rejected")   \* either error
  ELSE IF ~InAlph(S.alph, s) THEN Fail(S, "AlphabetError")
  ELSE IF ~InRange(i, Len(S.codes)) THEN Fail(S, "IndexError")
  ELSE Res(Seq0(S.kind, S.alph, [S.codes EXCEPT ![WrapOne(i, Len(S.codes)) + 1] = CodeOf(S.alph, s)]),
           "ok", <<>>)
Reversed(S) == Res(Seq0(S.kind, S.alph, [i \in DOMAIN S.codes |-> S.codes[Len(S.codes) + 1 - i]]), "ok", <<>>)
Complemented(S) ==
  Res(Seq0(S.kind, S.alph, [i \in DOMAIN S.codes |-> CodeOf(S.alph, ComplSym(SymOf(S.alph, S.codes[i])))]),
      "ok", <<>>)
Added(S, al, syms) ==
  LET oc2 == EncodeMultiple(al, syms).out IN
  IF Extends(S.alph, al) THEN Res(Seq0(S.kind, S.alph, S.codes \o oc2), "ok", <<>>)
  ELSE IF Extends(al, S.alph) THEN Res(Seq0(S.kind, al, S.codes \o oc2), "ok", <<>>)
  ELSE Fail(S, "Rejected")

(* Independence.  copy(), reverse(), complement() and + return a NEW sequence: like a new string
   it does not change when the sequence it was made from (or the other operand of +) is written
   to afterwards, and writing to it changes neither of them.  A history of three calls is one
   case:  derive (dop, da);  assign symbol w[2] at index w[1] of one of the objects - side "res"
   (the derived sequence), "src" (the sequence at hand), "other" (the right operand of +);  read
   both strings.  Whether a sub-sequence obtained by indexing shares memory with its source is
   left open (numpy view semantics), so indexing is no derive operation.                    *)
DeriveOps == {"copy", "reverse", "complement", "add"}
Derive(S, dop, da) ==
  CASE dop = "copy" -> Res(S, "ok", <<>>)
    [] dop = "reverse" -> Reversed(S)
    [] dop = "complement" -> Complemented(S)
    [] dop = "add" -> Added(S, da[1], da[2])
Dom_Indep(S, a) ==
  /\ a[1] \in DeriveOps /\ a[3] \in {"res", "src", "other"}
  /\ (a[1] = "complement" => S.kind = "nuc")
  /\ (a[1] = "add" => AllIn(a[2][1], a[2][2]) /\ Derive(S, a[1], a[2]).oc = "ok")
  /\ (a[3] = "other" => a[1] = "add")
Indep(S, a) ==
  LET D  == Derive(S, a[1], a[2])
      DS == Seq0(D.kind, D.alph, D.codes)
      O  == IF a[1] = "add" THEN Seq0(S.kind, a[2][1], EncodeMultiple(a[2][1], a[2][2]).out) ELSE S
      W  == SetSym(CASE a[3] = "res" -> DS [] a[3] = "src" -> S [] a[3] = "other" -> O, a[4][1], a[4][2])
      S2 == IF a[3] = "src" THEN Seq0(W.kind, W.alph, W.codes) ELSE S      \* a refused write changes nothing
      D2 == IF a[3] = "res" THEN Seq0(W.kind, W.alph, W.codes) ELSE DS
  IN Res(S2, W.oc, IF W.oc = "ok" THEN [src |-> Symbols(S2), res |-> Symbols(D2)] ELSE <<>>)

Apply(S, op, a) ==
  CASE op = "construct" -> Construct(S, a[1], a[2], a[3])
    [] op = "str"   -> Res(S, "ok", Symbols(S))
    [] op = "len"   -> Res(S, "ok", Len(S.codes))
    [] op = "get"   ->                                   \* a = <<index object>>
         LET r == Resolve(a[1], Len(S.codes)) IN
         IF ~r.ok THEN Fail(S, IF a[1][1] \in {"int", "arr"} THEN "IndexError" ELSE "Rejected")
         ELSE IF r.scalar THEN Res(S, "ok", SymOf(S.alph, S.codes[r.pos[1] + 1]))
         ELSE Res(Seq0(S.kind, S.alph, PickSeq(S.codes, r.pos)), "ok", <<>>)
    [] op = "setsym" -> SetSym(S, a[1], a[2])            \* a = <<int index, symbol, form of the index>>
    [] op = "setmany" ->                                 \* a = <<index object, symbols>>, lengths agree
         LET r == Resolve(a[1], Len(S.codes)) IN
         IF ~AllIn(S.alph, a[2]) THEN Fail(S, "AlphabetError")
         ELSE Res(Seq0(S.kind, S.alph,
                       [i \in DOMAIN S.codes |->
                          IF \E j \in DOMAIN r.pos : r.pos[j] = i - 1
                            THEN CodeOf(S.alph, a[2][CHOOSE j \in DOMAIN r.pos : r.pos[j] = i - 1])
                            ELSE S.codes[i]]), "ok", <<>>)
    [] op = "add" -> Added(S, a[1], a[2])                \* a = <<other alphabet, other symbols>>
    [] op = "reverse" -> Reversed(S)
    [] op = "indep" -> Indep(S, a)                       \* a = <<derive op, its arguments, side, <<index, symbol, form>>>>
    [] op = "eq" -> Res(S, "ok", Symbols(S) = a[1])      \* a = <<symbols of a sequence of the same type and alphabet>>
    [] op = "copy" -> Res(S, "ok", [eq |-> TRUE, indep |-> TRUE])
    [] op = "isvalid" -> Res(S, "ok", TRUE)
    [] op = "complement" -> Complemented(S)
    [] op = "setcode" ->                                 \* a = <<codes>>, all valid
         Res(Seq0(S.kind, S.alph, a[1]), "ok", <<>>)
    (* ---- pure calls (S is ignored and returned unchanged) ---- *)
    [] op = "encode"  -> LET r == Encode(a[1], a[2]) IN Res(S, r.oc, r.out)
    [] op = "decode"  -> LET r == Decode(a[1], a[2]) IN Res(S, r.oc, r.out)
    [] op = "encode_multiple" -> LET r == EncodeMultiple(a[1], a[2]) IN Res(S, r.oc, r.out)
    [] op = "decode_multiple" -> LET r == DecodeMultiple(a[1], a[2]) IN Res(S, r.oc, r.out)
    [] op = "extends" -> Res(S, "ok", Extends(a[1], a[2]))
    [] op = "map"     -> Res(S, "ok", MapCodes(a[1], a[2], a[3]))              \* Dom_Mapper, valid codes
    [] op = "translate" ->                               \* a = <<codes, table, complete?, starts, met?>>
         IF a[3] THEN IF Dom_Complete(a[1]) THEN Res(S, "ok", TranslateComplete(a[1], a[2]))
                      ELSE Fail(S, "Rejected")
         ELSE Res(S, "ok", OrfsDecl(a[1], a[2], a[4], a[5]))
    [] op = "table" ->                                   \* a = <<table, starts>>: what a CodonTable reports,
         \* what a table derived from it (with_codon_mappings: codon AAA -> another amino acid;
         \* with_start_codons: {AAA}) reports, and what the original reports afterwards (unchanged)
         Res(S, "ok", [aa |-> a[1], starts |-> a[2],
                       derived |-> [a[1] EXCEPT ![1] = (a[1][1] + 1) % 23],
                       derivedStarts |-> {0},
                       aaAfter |-> a[1], startsAfter |-> a[2]])
    [] op = "big_seq" ->       \* a = <<n, syms>>: a sequence over the alphabet 0..n-1 (symbol = code)
         IF \A i \in DOMAIN a[2] : a[2][i] \in 0..(a[1] - 1)
           THEN Res(S, "ok", [codes |-> a[2], symbols |-> a[2]])
           ELSE Fail(S, "AlphabetError")
    [] op = "fuse"    -> LET r == Fuse(a[1], a[2], a[3]) IN Res(S, r.oc, r.out)      \* <<b, k, kmer codes>>
    [] op = "split"   -> LET r == Split(a[1], a[2], a[3]) IN Res(S, r.oc, r.out)     \* <<b, k, code>>
    [] op = "kencode" -> LET r == KEncode(a[1], a[2], a[3]) IN Res(S, r.oc, r.out)   \* <<base alphabet, k, symbols>>
    [] op = "kdecode" -> LET r == KDecode(a[1], a[2], a[3]) IN Res(S, r.oc, r.out)   \* <<base alphabet, k, code>>
    [] op = "kmers"   -> LET r == CreateKmers(a[1], a[2], a[3], a[4]) IN Res(S, r.oc, r.out)  \* <<b,k,sp,codes>>
    (* ---- the same k-mer calls with codes in digit form (any k with b^k <= 2^62) ---- *)
    [] op = "fuse_d"    -> LET r == FuseD(a[1], a[2], a[3]) IN Res(S, r.oc, r.out)
    [] op = "split_d"   -> LET r == SplitD(a[1], a[2], a[3]) IN Res(S, r.oc, r.out)
    [] op = "kencode_d" -> LET r == KEncodeD(a[1], a[2], a[3]) IN Res(S, r.oc, r.out)
    [] op = "kdecode_d" -> LET r == KDecodeD(a[1], a[2], a[3]) IN Res(S, r.oc, r.out)
    [] op = "kmers_d"   -> LET r == CreateKmersD(a[1], a[2], a[3], a[4]) IN Res(S, r.oc, r.out)

(* ------------------------------------------------------------------ laws (S1) *)
Law_RoundTrip(alph, syms) ==
  LET e == EncodeMultiple(alph, syms) IN
  IF AllIn(alph, syms) THEN e.oc = "ok" /\ DecodeMultiple(alph, e.out) = R("ok", syms)
  ELSE e.oc = "AlphabetError"
Law_ByteTable(alph) ==
  \A b \in 0..255 : LET e == Encode(alph, b)  t == EncodeCharsImpl(alph, <<b>>) IN
                    t.oc = e.oc /\ (e.oc = "ok" => t.out = <<e.out>>)
Law_CodeRoundTrip(alph) ==
  /\ \A c \in 0..(Len(alph) - 1) : Encode(alph, Decode(alph, c).out) = R("ok", c)
  /\ \A c \in {-Len(alph) - 1, -1, Len(alph), Len(alph) + 1, 255, 256} : Decode(alph, c).oc = "AlphabetError"
Law_Map(src, tgt, codes) ==
  /\ MapCodesImpl(src, tgt, codes) = MapCodes(src, tgt, codes)
  /\ DecodeMultiple(tgt, MapCodes(src, tgt, codes)) = DecodeMultiple(src, codes)
Law_Complement ==
  /\ \A i \in DOMAIN NucAmb : InAlph(NucAmb, ComplSym(NucAmb[i])) /\ ComplSym(ComplSym(NucAmb[i])) = NucAmb[i]
  /\ \A i \in DOMAIN NucUnamb : InAlph(NucUnamb, ComplSym(NucUnamb[i]))
  /\ \A c \in 0..14 : ComplCodeImpl(c) = CodeOf(NucAmb, ComplSym(SymOf(NucAmb, c)))
  /\ \A c \in 0..3 : ComplCodeImpl(c) = CodeOf(NucUnamb, ComplSym(SymOf(NucUnamb, c)))
Law_Num == \A c1, c2, c3 \in 0..3 : /\ NumImpl(<<c1, c2, c3>>) = Num(c1, c2, c3)
                                    /\ ToCodon(Num(c1, c2, c3)) = <<c1, c2, c3>>
Law_Orfs(codes, table, starts, met) ==
  LET D == OrfsDecl(codes, table, starts, met) IN
  /\ OrfsImpl(codes, table, starts, met) = D
  /\ \A i \in DOMAIN D : /\ D[i][1] < D[i][2] /\ D[i][2] <= Len(codes) /\ (D[i][2] - D[i][1]) % 3 = 0
                         /\ Len(D[i][3]) * 3 = D[i][2] - D[i][1]
                         \* no stop before the last codon; ends at a stop unless the frame ends
                         /\ \A k \in 1..(Len(D[i][3]) - 1) : AA(table, CodonAt(codes, D[i][1] + 3 * (k - 1))) # StopCode
                         /\ (AA(table, CodonAt(codes, D[i][2] - 3)) = StopCode \/ D[i][2] + 3 > Len(codes))
Law_Kmer(b, k) ==
  /\ \A n \in 0..(Pow(b, k) - 1) : Fuse(b, k, Split(b, k, n).out) = R("ok", n)
  /\ Split(b, k, Pow(b, k)).oc = "AlphabetError" /\ Split(b, k, -1).oc = "AlphabetError"
Law_KmerSymbols(alph, k) ==
  \A n \in 0..(Pow(Len(alph), k) - 1) : KEncode(alph, k, KDecode(alph, k, n).out) = R("ok", n)
Law_Rolling(b, k, codes) ==
  (Len(codes) >= k /\ \A i \in DOMAIN codes : codes[i] < b) =>
     RollingKmers(b, k, codes) = CreateKmers(b, k, <<>>, codes).out
\* digit form = integer form wherever the integer form is expressible
Law_Digits(b, k) ==
  /\ \A n \in 0..(Pow(b, k) - 1) :
        LET d == Split(b, k, n).out IN
        /\ SplitD(b, k, d) = R("ok", d) /\ FuseD(b, k, d) = R("ok", d) /\ FuseVal(b, d) = n
  /\ SplitD(b, k, <<1>> \o [i \in 1..k |-> 0]).oc = "AlphabetError"
  /\ FuseVal(b, <<1>> \o [i \in 1..k |-> 0]) = Pow(b, k)
Law_KmersD(b, k, sp, codes) ==
  LET I == CreateKmers(b, k, sp, codes)  D == CreateKmersD(b, k, sp, codes) IN
  /\ I.oc = D.oc
  /\ (I.oc = "ok" => I.out = [i \in DOMAIN D.out |-> FuseVal(b, D.out[i])])
Law_RollingD(b, k, codes) ==
  (Len(codes) >= k /\ \A i \in DOMAIN codes : codes[i] >= 0 /\ codes[i] < b) =>
     RollingKmersD(k, codes) = CreateKmersD(b, k, <<>>, codes).out

(* documented examples *)
ASSUME Encode(<<65, 67, 71, 84>>, 71) = R("ok", 2) /\ Decode(<<65, 67, 71, 84>>, 2) = R("ok", 71)
ASSUME Extends(<<1, 2, 3, 4, 5>>, <<1, 2, 3, 4>>) /\ ~Extends(<<1, 2, 3, 4>>, <<1, 2, 3, 4, 5>>)
         /\ ~Extends(<<1, 2, 3, 4>>, <<1, 2, 4, 3>>)
\* AlphabetMapper docstring: ACGT -> TUAGC, mapper[[1,1,3]] = [4 4 0]
ASSUME MapCodes(<<65, 67, 71, 84>>, <<84, 85, 65, 71, 67>>, <<1, 1, 3>>) = <<4, 4, 0>>
\* translate docstring: ATGGCATAG... standard table: ATG -> M, TAA / TAG / TGA stops
ASSUME AA(StdTable, Num(0, 3, 2)) = MetCode /\ AA(StdTable, Num(3, 0, 0)) = StopCode
         /\ AA(StdTable, Num(3, 0, 2)) = StopCode /\ AA(StdTable, Num(3, 2, 0)) = StopCode
\* KmerAlphabet docstring: base ACGT, k=2: "TC" <-> 13, split(13) = [3 1]; ATTGCT -> [3 15 14 9 7]
ASSUME Fuse(4, 2, <<3, 1>>) = R("ok", 13) /\ Split(4, 2, 13) = R("ok", <<3, 1>>)
ASSUME CreateKmers(4, 2, <<>>, <<0, 3, 3, 2, 1, 3>>) = R("ok", <<3, 15, 14, 9, 7>>)
ASSUME RollingKmers(4, 2, <<0, 3, 3, 2, 1, 3>>) = <<3, 15, 14, 9, 7>>
ASSUME CreateKmers(4, 2, <<<<0, 3>>>>, <<0, 3, 3, 2, 1, 3>>) = R("ok", <<2, 13, 15>>)
ASSUME CreateKmers(4, 2, <<>>, <<0, 1, 2, 3>>) = R("ok", <<1, 6, 11>>)
ASSUME CreateKmersD(4, 2, <<>>, <<0, 3, 3, 2, 1, 3>>) = R("ok", <<<<0, 3>>, <<3, 3>>, <<3, 2>>, <<2, 1>>, <<1, 3>>>>)
ASSUME CreateKmersD(4, 2, <<<<0, 3>>>>, <<0, 3, 3, 2, 1, 3>>) = R("ok", <<<<0, 2>>, <<3, 1>>, <<3, 3>>>>)
ASSUME RollingKmersD(2, <<0, 3, 3, 2, 1, 3>>) = CreateKmersD(4, 2, <<>>, <<0, 3, 3, 2, 1, 3>>).out
ASSUME Bits(2) = 1 /\ Bits(3) = 2 /\ Bits(4) = 2 /\ Bits(5) = 3 /\ Bits(24) = 5 /\ Bits(94) = 7 /\ Bits(256) = 8
ASSUME Dom_KmerWidth(4, 31) /\ ~Dom_KmerWidth(4, 32) /\ Dom_KmerWidth(24, 12) /\ ~Dom_KmerWidth(24, 13)
\* reverse() docstring: ACGTA -> ATGCA; the reversed copy is independent of its source
ASSUME Indep(Seq0("nuc", NucUnamb, <<1>>), <<"reverse", <<>>, "res", <<0, 65, "py">>>>).out
         = [src |-> <<67>>, res |-> <<65>>]
ASSUME Indep(Seq0("nuc", NucUnamb, <<0, 1>>), <<"add", <<NucUnamb, <<71>>>>, "src", <<-1, 84, "i64">>>>).out
         = [src |-> <<65, 84>>, res |-> <<65, 67, 71>>]
=============================================================================
