------------------------------- MODULE Trace -------------------------------
(* C03 direction code -> spec: executions recorded from the real alphabets / sequences /
   codon tables / k-mer alphabets are re-computed by SeqCodecOps.Apply.
   TRACE_FILE is a JSON array of traces; a trace is an array of events
     {op, a, oc, kind, alph, codes, out}
   (kind / alph / codes: projection of the sequence object AFTER the call; event 1 is
   "construct"; pure calls such as encode, translate, fuse leave the object unchanged).
   Every event is judged from the logged pre-state; disagreements are printed as
   <<"MISMATCH", tid, event, flags, expected...>>, calls outside the Dom_* predicates as
   flags = <<"DOMAIN">> (a failure of the generator, not of biotite).                      *)
EXTENDS SeqCodecOps, Json, IOUtils

Tr == JsonDeserialize(IOEnv.TRACE_FILE)

VARIABLES tid, l, S
tvars == <<tid, l, S>>

Args(e) ==
  CASE e.op = "translate" -> <<e.a[1], e.a[2], e.a[3], ToSet(e.a[4]), e.a[5]>>
    [] e.op = "table" -> <<e.a[1], ToSet(e.a[2])>>
    [] OTHER -> e.a

ValidCodes(al, k) == \A i \in DOMAIN k : ValidCode(al, k[i])
SmallPow(b, k) == b >= 1 /\ k >= 2 /\ k <= 6 /\ Pow(b, k) < 100000000
Dom_IntForm(i, f) == f \in IntForms /\ (UnsignedForm(f) => i >= 0)

DomOK(e, a) ==
  CASE e.op = "construct" -> a[1] \in {"nuc", "prot"} \/ Dom_Alphabet(a[2])
    [] e.op \in {"encode", "decode", "encode_multiple", "decode_multiple"} -> Dom_Alphabet(a[1])
    [] e.op = "extends" -> Dom_Alphabet(a[1]) /\ Dom_Alphabet(a[2])
    [] e.op = "map" -> Dom_Alphabet(a[1]) /\ Dom_Alphabet(a[2]) /\ Dom_Mapper(a[1], a[2]) /\ ValidCodes(a[1], a[3])
    [] e.op = "setsym" -> Len(a) = 3 /\ Dom_IntForm(a[1], a[3])
    [] e.op = "indep" -> Dom_Indep(S, a) /\ Dom_Alphabet(IF a[1] = "add" THEN a[2][1] ELSE S.alph)
                         /\ Len(a[4]) = 3 /\ Dom_IntForm(a[4][1], a[4][3])
    [] e.op = "setmany" -> Dom_Form(a[1]) /\ Resolve(a[1], Len(S.codes)).ok /\ Len(Resolve(a[1], Len(S.codes)).pos) = Len(a[2])
                           /\ ~HasDup(Resolve(a[1], Len(S.codes)).pos)
    [] e.op = "setcode" -> ValidCodes(S.alph, a[1])
    [] e.op = "add" -> Dom_Alphabet(a[1]) /\ AllIn(a[1], a[2])
    [] e.op = "eq" -> AllIn(S.alph, a[1])
    [] e.op = "get" -> Dom_Form(a[1]) /\ (a[1][1] # "mask" \/ Len(a[1][2]) = Len(S.codes))
    [] e.op = "complement" -> S.kind = "nuc"
    [] e.op = "translate" -> Len(a[2]) = 64 /\ (\A i \in DOMAIN a[1] : a[1][i] \in 0..3)
                             /\ (\A i \in 1..64 : a[2][i] \in 0..23) /\ a[4] \subseteq 0..63
                             /\ Dom_Translate(a[3], a[5])
    [] e.op = "table" -> Len(a[1]) = 64 /\ a[2] \subseteq 0..63
    [] e.op \in {"fuse", "split"} -> SmallPow(a[1], a[2])
    [] e.op \in {"kencode", "kdecode"} -> Dom_Alphabet(a[1]) /\ SmallPow(Len(a[1]), a[2])
    [] e.op \in {"fuse_d", "split_d"} -> Dom_KmerWidth(a[1], a[2])
    [] e.op \in {"kencode_d", "kdecode_d"} -> Dom_Alphabet(a[1]) /\ Dom_KmerWidth(Len(a[1]), a[2])
    [] e.op = "kmers_d" -> Dom_KmerWidth(a[1], a[2]) /\ (a[3] = <<>> \/ Len(a[3][1]) = a[2])
                           /\ Dom_Kmers(a[1], a[2], a[3], a[4])
    [] e.op = "kmers" -> SmallPow(a[1], a[2]) /\ (a[3] = <<>> \/ Len(a[3][1]) = a[2])
                         /\ Dom_Kmers(a[1], a[2], a[3], a[4])
    [] OTHER -> TRUE

OutMatches(e, exp, got) ==
  LET op == e.op IN
  CASE op = "table" -> /\ got.aa = exp.aa /\ ToSet(got.starts) = exp.starts
                       /\ got.derived = exp.derived /\ ToSet(got.derivedStarts) = exp.derivedStarts
                       /\ got.aaAfter = exp.aaAfter /\ ToSet(got.startsAfter) = exp.startsAfter
    [] op = "big_seq" -> got = exp
    [] op \in {"str", "len", "eq", "copy", "isvalid", "encode", "decode", "encode_multiple",
               "decode_multiple", "extends", "map", "translate", "fuse", "split", "kmers",
               "kencode", "kdecode", "indep", "fuse_d", "split_d", "kencode_d", "kdecode_d", "kmers_d"} -> got = exp
    [] op = "get" -> IF e.a[1][1] = "int" THEN got = exp ELSE TRUE      \* scalar index: the symbol
    [] OTHER -> TRUE

Judge(e, r) ==
  LET okOc    == r.oc = e.oc \/ (r.oc = "Rejected" /\ e.oc # "ok")   \* "Rejected" = any exception
      okAlph  == r.alph = e.alph
      okCodes == r.codes = e.codes
      okOut   == IF r.oc = "ok" /\ e.oc = "ok" THEN OutMatches(e, r.out, e.out) ELSE TRUE
  IN IF okOc /\ okAlph /\ okCodes /\ okOut THEN TRUE
     ELSE PrintT(<<"MISMATCH", tid, l + 1, <<okOc, okAlph, okCodes, okOut>>, r.oc, r.alph, r.codes, r.out>>)

CheckDom(e) ==
  IF DomOK(e, Args(e)) THEN TRUE ELSE PrintT(<<"MISMATCH", tid, l + 1, <<"DOMAIN">>, "", <<>>, <<>>, <<>>>>)

Init == /\ tid \in 1..Len(Tr)
        /\ l = 0
        /\ S = Seq0("general", <<0>>, <<>>)

Next == /\ l < Len(Tr[tid])
        /\ l' = l + 1
        /\ UNCHANGED tid
        /\ LET e == Tr[tid][l + 1]
               r == Apply(S, e.op, Args(e))
           IN /\ CheckDom(e)
              /\ Judge(e, r)
              /\ S' = Seq0(e.kind, e.alph, e.codes)

Spec == Init /\ [][Next]_tvars
=============================================================================
