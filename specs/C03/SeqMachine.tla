------------------------------- MODULE SeqMachine -------------------------------
(* C03, histories: a Sequence object under sequences of public calls (index, assignment,
   concatenation, reversal, complement, copy ...).  Every transition of the state graph is
   replayed against the real object (S2); the invariant says that the object always stays a
   valid sequence over its alphabet and that refused calls change nothing.

   Two objects are alive: the sequence at hand (kind, alph, codes) and, once a call has returned
   a NEW sequence (copy, reverse, complement, +), the sequence it was made from ("held").  The
   new sequence is independent of it: whatever is done to the one at hand, the held sequence
   keeps its string (and "swap" exchanges the two, so writes go either way).  Indices are
   handed over in several forms (SeqCodecOps.Dom_Form); the form is part of the call.     *)
EXTENDS SeqCodecOps

CONSTANTS Depth, Rich
VARIABLES kind, alph, codes, oc, out, steps,
          held        \* <<>> or <<[alph, codes]>>: the sequence the one at hand was derived from
vars == <<kind, alph, codes, oc, out, steps, held>>
Cur == Seq0(kind, alph, codes)

GenAlph == <<2, 0, 1>>
\* length 3 for the index universe below, and the boundary lengths 1 and 0 (a one-element array is
\* contiguous in every layout, an empty one has nothing to copy)
InitObjs == {Seq0("nuc", NucUnamb, <<0, 1, 2>>), Seq0("general", GenAlph, <<1, 1, 0>>),
             Seq0("nuc", NucUnamb, <<1>>), Seq0("general", GenAlph, <<>>)}
            \cup (IF Rich THEN {Seq0("nuc", NucAmb, <<14, 0, 4>>), Seq0("prot", ProtAlph, <<10, 23>>)} ELSE {})

SymsOf(k) == IF k = "general" THEN {2, 1, 7} ELSE IF k = "prot" THEN {77, 42, 64} ELSE {65, 84, 78, 64}
AlphOf(k) == IF k = "general" THEN GenAlph ELSE IF k = "prot" THEN ProtAlph ELSE NucUnamb
Kinds == {"nuc", "general"} \cup (IF Rich THEN {"prot"} ELSE {})

MFI == IF Rich THEN {"py", "i16", "i64", "u8", "u32"} ELSE {"py", "i64", "u8"}
MFA == IF Rich THEN {"list", "i32", "i64", "u8"} ELSE {"list", "i64"}
MFS == IF Rich THEN SliceForms ELSE {"py"}
MForms(X) == Formed(X, MFI, MFA, MaskForms, MFS)

CallsFor(k) ==
       {<<k, "str", <<>>>>, <<k, "len", <<>>>>, <<k, "reverse", <<>>>>, <<k, "copy", <<>>>>, <<k, "isvalid", <<>>>>,
        <<k, "takecopy", <<>>>>, <<k, "swap", <<>>>>}
  \cup {<<k, "get", <<x>>>> : x \in MForms(IntIdx(-4..3) \cup SliceIdx({1}, {-1, 2}, {-1, 2})
                                   \cup {<<"arr", <<1, 0, 1>>>>, <<"arr", <<-1>>>>, <<"mask", <<TRUE, FALSE, TRUE>>>>})}
  \cup {<<k, "setsym", <<x[2][1], s, x[3]>>>> : x \in MForms(IntIdx({-4, -1, 0, 2, 3})), s \in SymsOf(k)}
  \cup {<<k, "setmany", <<x, v>>>> : x \in MForms(SliceIdx({1}, {}, {-1}) \cup SliceIdx({}, {2}, {})
                                                  \cup {<<"arr", <<1, 0>>>>, <<"mask", <<FALSE, TRUE, FALSE>>>>}),
                                     v \in {<<AlphOf(k)[1], AlphOf(k)[2]>>, <<AlphOf(k)[3]>>}}
  \cup {<<k, "add", <<AlphOf(k), v>>>> : v \in {<<>>, <<AlphOf(k)[2]>>}}
  \cup {<<k, "eq", <<v>>>> : v \in {<<>>, <<AlphOf(k)[1], AlphOf(k)[2], AlphOf(k)[3]>>}}
  \cup (IF k = "nuc" THEN {<<k, "complement", <<>>>>} ELSE {})
AllCalls == UNION {CallsFor(k) : k \in Kinds}

\* calls in the domain: assigned values have the length of the selected window; + keeps the length small
Enabled(S, op, a) ==
  CASE op = "setmany" -> Resolve(a[1], Len(S.codes)).ok /\ Len(Resolve(a[1], Len(S.codes)).pos) = Len(a[2])
    [] op = "add" -> Len(S.codes) + Len(a[2]) <= 4 /\ (Extends(S.alph, a[1]) \/ Extends(a[1], S.alph))
    [] op = "get" -> a[1][1] # "mask" \/ Len(a[1][2]) = Len(S.codes)
    [] op = "swap" -> held # <<>>
    [] OTHER -> TRUE

\* calls that return a new sequence, which becomes the one at hand; the old one is held
Fresh == {"reverse", "complement", "add"}
Do(op, a) ==
  /\ Enabled(Cur, op, a) = TRUE
  /\ CASE op = "swap" ->          \* the held sequence becomes the one at hand and vice versa
            /\ alph' = held[1].alph /\ codes' = held[1].codes /\ oc' = "ok" /\ out' = <<>>
            /\ held' = <<[alph |-> alph, codes |-> codes]>>
       [] op = "takecopy" ->      \* continue with copy(), hold the original
            /\ UNCHANGED <<alph, codes>> /\ oc' = "ok" /\ out' = <<>>
            /\ held' = <<[alph |-> alph, codes |-> codes]>>
       [] OTHER ->
            LET res == Apply(Cur, op, a) IN
            /\ alph' = res.alph /\ codes' = res.codes /\ oc' = res.oc /\ out' = res.out
            \* a sub-sequence obtained by indexing replaces the one at hand (whether it shares
            \* memory with the dropped source is left open); the held sequence stays independent
            /\ held' = IF op \in Fresh /\ res.oc = "ok" THEN <<[alph |-> alph, codes |-> codes]>> ELSE held
  /\ UNCHANGED kind
  /\ steps' = steps + 1

Init == /\ \E o \in InitObjs : kind = o.kind /\ alph = o.alph /\ codes = o.codes
        /\ oc = "ok" /\ out = <<>> /\ steps = 0 /\ held = <<>>
Call(cl) == steps < Depth /\ cl[1] = kind /\ Do(cl[2], cl[3])
Next == \E cl \in AllCalls : Call(cl)
Spec == Init /\ [][Next]_vars

InvValid == /\ \A i \in DOMAIN codes : ValidCode(alph, codes[i])
            /\ held # <<>> => \A i \in DOMAIN held[1].codes : ValidCode(held[1].alph, held[1].codes[i])
\* the held sequence changes only when it is replaced (a new sequence was returned / swap)
HeldIsIndependent == [][held' # held => \/ held = <<>> \/ held' = <<[alph |-> alph, codes |-> codes]>>]_vars
RefusalIsNoOp == [][oc' # "ok" => (alph' = alph /\ codes' = codes)]_vars
=============================================================================
