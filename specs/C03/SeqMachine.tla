------------------------------- MODULE SeqMachine -------------------------------
(* C03, histories: a Sequence object under sequences of public calls (index, assignment,
   concatenation, reversal, complement, copy ...).  Every transition of the state graph is
   replayed against the real object (S2); the invariant says that the object always stays a
   valid sequence over its alphabet and that refused calls change nothing.                *)
EXTENDS SeqCodecOps

CONSTANTS Depth, Rich
VARIABLES kind, alph, codes, oc, out, steps
vars == <<kind, alph, codes, oc, out, steps>>
Cur == Seq0(kind, alph, codes)

GenAlph == <<2, 0, 1>>
InitObjs == {Seq0("nuc", NucUnamb, <<0, 1, 2>>), Seq0("general", GenAlph, <<1, 1, 0>>)}
            \cup (IF Rich THEN {Seq0("nuc", NucAmb, <<14, 0, 4>>), Seq0("prot", ProtAlph, <<10, 23>>)} ELSE {})

SymsOf(k) == IF k = "general" THEN {2, 1, 7} ELSE IF k = "prot" THEN {77, 42, 64} ELSE {65, 84, 78, 64}
AlphOf(k) == IF k = "general" THEN GenAlph ELSE IF k = "prot" THEN ProtAlph ELSE NucUnamb
Kinds == {"nuc", "general"} \cup (IF Rich THEN {"prot"} ELSE {})

CallsFor(k) ==
       {<<k, "str", <<>>>>, <<k, "len", <<>>>>, <<k, "reverse", <<>>>>, <<k, "copy", <<>>>>, <<k, "isvalid", <<>>>>}
  \cup {<<k, "get", <<x>>>> : x \in IntIdx(-4..3) \cup SliceIdx({1}, {-1, 2}, {-1, 2})
                                   \cup {<<"arr", <<1, 0, 1>>>>, <<"arr", <<-1>>>>, <<"mask", <<TRUE, FALSE, TRUE>>>>}}
  \cup {<<k, "setsym", <<i, s>>>> : i \in {-4, -1, 0, 2, 3}, s \in SymsOf(k)}
  \cup {<<k, "setmany", <<x, v>>>> : x \in SliceIdx({1}, {}, {-1}) \cup SliceIdx({}, {2}, {}),
                                     v \in {<<AlphOf(k)[1], AlphOf(k)[2]>>, <<AlphOf(k)[3]>>}}
  \cup {<<k, "add", <<AlphOf(k), v>>>> : v \in {<<>>, <<AlphOf(k)[2]>>}}
  \cup {<<k, "eq", <<v>>>> : v \in {<<>>, <<AlphOf(k)[1], AlphOf(k)[2], AlphOf(k)[3]>>}}
  \cup (IF k = "nuc" THEN {<<k, "complement", <<>>>>} ELSE {})
AllCalls == UNION {CallsFor(k) : k \in Kinds}

\* calls in the domain: assigned values have the length of the selected window; + keeps the length small
Enabled(S, op, a) ==
  CASE op = "setmany" -> Resolve(a[1], Len(S.codes)).ok /\ Len(Resolve(a[1], Len(S.codes)).pos) = Len(a[2])
    [] op = "add" -> Len(S.codes) + Len(a[2]) <= 4 /\ (Extends(S.alph, a[1]) \/ Extends(a[1], S.alph))
    [] op = "get" -> a[1][1] # "mask" \/ Len(a[1][2]) = Len(S.codes)
    [] OTHER -> TRUE

Do(op, a) ==
  /\ Enabled(Cur, op, a) = TRUE
  /\ LET res == Apply(Cur, op, a) IN
     alph' = res.alph /\ codes' = res.codes /\ oc' = res.oc /\ out' = res.out
  /\ UNCHANGED kind
  /\ steps' = steps + 1

Init == /\ \E o \in InitObjs : kind = o.kind /\ alph = o.alph /\ codes = o.codes
        /\ oc = "ok" /\ out = <<>> /\ steps = 0
Call(cl) == steps < Depth /\ cl[1] = kind /\ Do(cl[2], cl[3])
Next == \E cl \in AllCalls : Call(cl)
Spec == Init /\ [][Next]_vars

InvValid == \A i \in DOMAIN codes : ValidCode(alph, codes[i])
RefusalIsNoOp == [][oc' # "ok" => (alph' = alph /\ codes' = codes)]_vars
=============================================================================
