------------------------------- MODULE SeqCodec -------------------------------
(* C03, exhaustive single-call configuration (pattern of specs/C13/AnnotSlice.tla).

   Initial states are "roots" (an alphabet, a DNA string, a k-mer geometry, a sequence
   object); one step applies one public call to the root:  c = the case, r = Apply(...).
   TLC checks the laws of SeqCodecOps on every case (S1) and dumps all (c, r) pairs, which
   the driver executes against the real classes (S2).  Codon tables are referred to by name
   in the cases; the root "tables" publishes them to the driver.                          *)
EXTENDS SeqCodecOps

CONSTANTS MaxDna,      \* DNA strings of length 0..MaxDna go through translate / create_kmers
          MaxObj,      \* sequence objects of length 0..MaxObj go through the object calls
          Rich         \* TRUE: larger argument universes (thorough tier)

VARIABLES c, r
vars == <<c, r>>

(* ---------------------------------------------------------------- universes *)
SeqsUpToLen(S, k) == UNION {[1..m -> S] : m \in 0..k}
Printables == 33..126                                  \* the 94 letters a LetterAlphabet may hold
LetterAlphabets ==
  {<<65>>, <<90, 33>>, NucUnamb, NucAmb, ProtAlph,
   [i \in 1..94 |-> 32 + i],                            \* all printable characters in order
   [i \in 1..94 |-> 127 - i]}                           \* ... and reversed
GenericAlphabets == {<<0>>, <<0, 1, 2>>, <<2, 0, 1, 3, 4>>, <<5, 4, 3, 2, 1, 0>>}
Tables == [std |-> StdTable, syn |-> SynTable]
StartSets == [atg |-> {Num(0, 3, 2)}, three |-> {Num(0, 3, 2), Num(1, 3, 2), Num(3, 3, 2)},
              odd |-> {Num(0, 0, 3), Num(3, 0, 0), Num(2, 2, 2)}]      \* AAT, TAA (a stop), GGG
TableIds == {"std", "syn"}
StartIds == {"atg", "three", "odd"}

\* the forms in which an index is handed over (all of them in the thorough tier)
FI == IF Rich THEN IntForms ELSE {"py", "i32", "i64", "u8", "u64"}
FA == IF Rich THEN ArrForms ELSE {"list", "i64", "u8"}
FM == MaskForms
FS == IF Rich THEN SliceForms ELSE {"py"}
AllForms(X) == Formed(X, FI, FA, FM, FS)

\* index objects for Sequence.__getitem__ on a sequence of length n, in every form
GetIdx(n) == AllForms(IntIdx((-n - 2)..(n + 1))
        \cup (IF Rich THEN SliceIdx({-4, -1, 0, 1, 2, 5}, {-4, -2, 0, 1, 3, 5}, {-2, -1, 1, 2, 0})
                      ELSE SliceIdx({-1, 1}, {-2, 2, 5}, {-1, 2, 0}))
        \cup MaskIdx(n)
        \cup ArrIdx((-n - 1)..n, Min2(n, 2)))

(* ---------------------------------------------------------------- calls per root *)
\* root "alph": c.alph is the alphabet, c.kind in {"letter", "generic"}
CallsAlph(kind, al) ==
  LET n == Len(al)
      syms == IF kind = "letter" THEN 0..255 ELSE 0..7
      some == {al[1], al[n], al[(n + 1) \div 2]} \cup (IF kind = "letter" THEN {32, 127, 0, 255} ELSE {7})
      short == {<<>>} \cup {<<x>> : x \in some} \cup {<<x, y>> : x \in some, y \in some}
               \cup {<<al[1], al[n], al[1]>>, al}
      codesS == {-1, 0, n - 1, n} \cup (IF kind = "letter" THEN {255, 256, 256 + n - 1, -256} ELSE {})
      carr == {<<>>} \cup {<<x>> : x \in codesS} \cup {<<x, y>> : x \in {0, n - 1}, y \in codesS}
              \cup {[i \in 1..n |-> n - i]}
      others == IF kind = "letter" THEN LetterAlphabets ELSE GenericAlphabets
  IN   {<<"encode", <<al, s>>>> : s \in syms}
  \cup {<<"decode", <<al, k>>>> : k \in (-2..(n + 1)) \cup {255, 256}}
  \cup {<<"encode_multiple", <<al, s>>>> : s \in short}
  \cup {<<"decode_multiple", <<al, k>>>> : k \in carr}
  \cup {<<"extends", <<al, o>>>> : o \in others \cup (IF n > 1 THEN {SubSeq(al, 1, n - 1)} ELSE {})}
  \cup {<<"map", <<al, o, k>>>> : o \in {t \in others : Dom_Mapper(al, t)},
                                   k \in {<<>>, <<0>>, <<n - 1, 0>>, [i \in 1..n |-> n - i]}}

\* root "dna": c.codes is a DNA string (codes 0..3)
Spacings == IF Rich THEN {<<2, <<>>>>, <<3, <<>>>>, <<2, <<<<0, 2>>>>>>, <<2, <<<<1, 3>>>>>>, <<3, <<<<0, 1, 3>>>>>>, <<2, <<<<0, 3>>>>>>}
                    ELSE {<<2, <<>>>>, <<3, <<>>>>, <<2, <<<<0, 2>>>>>>, <<3, <<<<0, 1, 3>>>>>>}
CallsDna(s) ==
       {<<"translate", <<s, t, TRUE, "atg", FALSE>>>> : t \in TableIds}
  \cup {<<"translate", <<s, t, FALSE, st, m>>>> : t \in TableIds, st \in StartIds, m \in BOOLEAN}
  \cup {<<"kmers", <<bk[1], bk[2][1], bk[2][2], s>>>> :
          bk \in {x \in {3, 4} \X Spacings : Dom_Kmers(x[1], x[2][1], x[2][2], s)}}

\* root "kmer": c.a = <<b, k>>
KBase(b) == IF b = 4 THEN NucUnamb ELSE [i \in 1..b |-> 96 + i]            \* a, b, c, ...
CallsKmer(b, k) ==
       {<<"fuse", <<b, k, km>>>> : km \in [1..k -> -1..(b + 1)] \cup [1..(k - 1) -> 0..(b - 1)] \cup [1..(k + 1) -> {0, b - 1}]}
  \cup {<<"split", <<b, k, n>>>> : n \in -2..(Pow(b, k) + 1)}
  \cup {<<"kencode", <<KBase(b), k, km>>>> :
          km \in [1..k -> SeqRange(KBase(b)) \cup {126}] \cup [1..(k - 1) -> {KBase(b)[1]}] \cup [1..(k + 1) -> {KBase(b)[b]}]}
  \cup {<<"kdecode", <<KBase(b), k, n>>>> : n \in -1..Pow(b, k)}

\* root "kbig": c.a = <<b, k>>, any k with b^k <= 2^62; codes in digit form.  Sequences and
\* k-mers are patterns (constant, ramps, a single leading symbol, alternating, quadratic residues)
Pats(b, n) ==
  {[i \in 1..n |-> 0], [i \in 1..n |-> b - 1], [i \in 1..n |-> (i - 1) % b], [i \in 1..n |-> (n - i) % b],
   [i \in 1..n |-> IF i = 1 THEN b - 1 ELSE 0], [i \in 1..n |-> IF i = 1 THEN 1 ELSE 0],
   [i \in 1..n |-> IF i % 2 = 1 THEN b - 1 ELSE 0], [i \in 1..n |-> (i * i + 1) % b]}
Ramp(b, n) == [i \in 1..n |-> (i - 1) % b]
LetterBase(b) == [i \in 1..b |-> 32 + i]                                   \* b <= 94 printable letters
BigBases == IF Rich THEN {2, 3, 4, 5, 20, 24, 94, 200, 1000} ELSE {2, 4, 5, 24, 94}
BigGeoms == {g \in BigBases \X (2..62) : Dom_KmerWidth(g[1], g[2])}
GapSpacing(k) == <<[j \in 1..k |-> IF j = k THEN k ELSE j - 1]>>         \* offsets 0..k-2 and k
CallsKbig(b, k) ==
  LET sps == {<<>>, GapSpacing(k)}
      seqs == UNION {Pats(b, k + e) : e \in IF Rich THEN {0, 1, 2, 3, 5} ELSE {1, 3}}
              \cup {Ramp(b, k - 1), Ramp(b, k), [Ramp(b, k + 2) EXCEPT ![k] = b], [Ramp(b, k + 2) EXCEPT ![k + 2] = b + 1]}
  IN   UNION {{<<"kmers_d", <<b, k, sp, s>>>> : s \in {x \in seqs : Dom_Kmers(b, k, sp, x)}} : sp \in sps}
  \cup {<<"fuse_d", <<b, k, km>>>> : km \in Pats(b, k) \cup {Ramp(b, k - 1), Ramp(b, k + 1), [Ramp(b, k) EXCEPT ![1] = b + 1],
                                                             [Ramp(b, k) EXCEPT ![k] = b + 2]}}
  \cup {<<"split_d", <<b, k, d>>>> : d \in Pats(b, k) \cup {<<1>> \o [i \in 1..k |-> 0]}}
  \cup (IF b <= 94
        THEN {<<"kencode_d", <<LetterBase(b), k, [j \in DOMAIN d |-> IF d[j] < b THEN LetterBase(b)[d[j] + 1] ELSE 32]>>>> :
                d \in Pats(b, k) \cup {Ramp(b, k + 1), [Ramp(b, k) EXCEPT ![k] = b]}}
          \cup {<<"kdecode_d", <<LetterBase(b), k, d>>>> : d \in Pats(b, k) \cup {<<1>> \o [i \in 1..k |-> 0]}}
        ELSE {})

\* root "obj": a sequence object
OtherSeqs(S) ==      \* operands for + and ==: <<alphabet, symbols>>
  LET sy == Symbols(S) IN
  {<<S.alph, sy>>, <<S.alph, <<>>>>, <<S.alph, <<S.alph[1]>>>>, <<S.alph, <<S.alph[Len(S.alph)], S.alph[1]>>>>}
\* histories derive -> write -> read (SeqCodecOps.Indep): every derive operation, every side,
\* every position of the written object (and the first position behind it), two symbols
Derivs(S) ==
  LET al == S.alph IN
       {<<"copy", <<>>>>, <<"reverse", <<>>>>}
  \cup (IF S.kind = "nuc" THEN {<<"complement", <<>>>>} ELSE {})
  \cup {<<"add", o>> : o \in {<<al, <<>>>>, <<al, <<al[Len(al)]>>>>}
                             \cup (IF S.kind = "general" THEN {<<al \o <<6>>, <<6>>>>} ELSE {})}
IndepCalls(S) ==
  UNION {LET D == Derive(S, d[1], d[2])
             sides == {"res", "src"} \cup (IF d[1] = "add" THEN {"other"} ELSE {})
             m(side) == CASE side = "res" -> Len(D.codes) [] side = "src" -> Len(S.codes)
                          [] side = "other" -> Len(d[2][2])
         IN UNION {{<<"indep", <<d[1], d[2], side, <<i, s, f>>>>>> :
                      i \in (-m(side))..m(side), s \in {S.alph[1], S.alph[Len(S.alph)]},
                      f \in IF Rich THEN {"py", "i64"} ELSE {"py"}}
                   : side \in sides}
        : d \in Derivs(S)}
CallsObj(S) ==
  LET n == Len(S.codes)  al == S.alph  la == Len(S.alph) IN
       {<<"str", <<>>>>, <<"len", <<>>>>, <<"reverse", <<>>>>, <<"copy", <<>>>>, <<"isvalid", <<>>>>}
  \cup {<<"get", <<x>>>> : x \in GetIdx(n)}
  \cup {<<"setsym", <<x[2][1], s, x[3]>>>> : x \in AllForms(IntIdx((-n - 1)..n)),
                                               s \in {al[1], al[la], IF S.kind = "general" THEN 7 ELSE 64}}
  \cup {<<"setmany", <<x, [j \in 1..Len(Resolve(x, n).pos) |-> al[((j + 1) % la) + 1]]>>>> :
          x \in {y \in AllForms(SliceIdx({-1, 1}, {2, 5}, {-1, 2}) \cup MaskIdx(n) \cup ArrIdx((-n)..(n - 1), Min2(n, 2))) :
                    Resolve(y, n).ok /\ ~HasDup(Resolve(y, n).pos)}}
  \cup IndepCalls(S)
  \cup {<<"add", o>> : o \in OtherSeqs(S)
                           \cup (IF S.kind = "general" THEN {<<al \o <<6>>, <<6, al[1]>>>>, <<<<al[1]>>, <<al[1]>>>>,
                                                            <<<<6>> \o al, <<6>>>>} ELSE {})}
  \cup {<<"eq", <<o[2]>>>> : o \in OtherSeqs(S)}
  \cup {<<"setcode", <<k>>>> : k \in {<<>>, <<la - 1, 0>>, [i \in 1..Min2(la, 3) |-> i - 1]}}
  \cup (IF S.kind = "nuc" THEN {<<"complement", <<>>>>} ELSE {})
  \cup {<<"construct", <<S.kind, al, sy>>>> :
          sy \in {Symbols(S), Symbols(S) \o <<IF S.kind = "general" THEN 7 ELSE 64>>,
                  <<IF S.kind = "general" THEN 7 ELSE 35>> \o Symbols(S)}}

NucStrings  == SeqsUpToLen(0..3, MaxObj)
GenObjs  == {Seq0("general", <<2, 0, 1>>, k) : k \in SeqsUpToLen(0..2, Min2(MaxObj, 3))}
NucObjs  == {Seq0("nuc", NucUnamb, k) : k \in NucStrings}
        \cup {Seq0("nuc", NucAmb, k) : k \in {<<14>>, <<0, 4>>, <<5, 6, 7>>, <<8, 9, 10, 11>>, <<12, 13, 14, 3>>, <<1, 2, 14>>}}
ProtObjs == {Seq0("prot", ProtAlph, k) : k \in {<<>>, <<10>>, <<0, 23>>, <<22, 21, 20>>, <<19, 1, 2, 23>>}}
Objs == GenObjs \cup NucObjs \cup ProtObjs

KmerGeoms == IF Rich THEN {<<2, 2>>, <<3, 2>>, <<4, 2>>, <<2, 3>>, <<3, 3>>, <<4, 3>>, <<2, 4>>}
                     ELSE {<<2, 2>>, <<4, 2>>, <<3, 3>>, <<4, 3>>}

BigSizes == {255, 256, 257, 65535, 65536, 65537}

(* ---------------------------------------------------------------- two-level generation *)
Root(fam, kind, alph, codes, a) == [fam |-> fam, kind |-> kind, alph |-> alph, codes |-> codes,
                                    op |-> "init", a |-> a]
S0 == Seq0(c.kind, c.alph, c.codes)

Init ==
  /\ \/ \E al \in LetterAlphabets : c = Root("alph", "letter", al, <<>>, <<>>)
     \/ \E al \in GenericAlphabets : c = Root("alph", "generic", al, <<>>, <<>>)
     \/ \E s \in SeqsUpToLen(0..3, MaxDna) : c = Root("dna", "none", <<>>, s, <<>>)
     \/ \E g \in KmerGeoms : c = Root("kmer", "none", <<>>, <<>>, g)
     \/ \E g \in BigGeoms : c = Root("kbig", "none", <<>>, <<>>, g)
     \/ \E o \in Objs : c = Root("obj", o.kind, o.alph, o.codes, <<>>)
     \/ c = Root("tables", "none", <<>>, <<>>, <<>>)
     \/ \E n \in BigSizes : c = Root("big", "none", <<>>, <<>>, <<n>>)
  /\ r = Res(S0, "ok", IF c.fam = "tables" THEN [tables |-> Tables, starts |-> StartSets] ELSE <<>>)

CallsOf(cc) ==
  CASE cc.fam = "alph" -> CallsAlph(cc.kind, cc.alph)
    [] cc.fam = "dna"  -> CallsDna(cc.codes)
    [] cc.fam = "kmer" -> CallsKmer(cc.a[1], cc.a[2])
    [] cc.fam = "kbig" -> CallsKbig(cc.a[1], cc.a[2])
    [] cc.fam = "obj"  -> CallsObj(S0)
    [] cc.fam = "tables" -> {<<"table", <<t, st>>>> : t \in TableIds, st \in StartIds}
    \* alphabets whose size sits on the limits of the code widths (uint8 / uint16): the last
    \* symbols, and the first value that is not a symbol
    [] cc.fam = "big" ->
         LET n == cc.a[1]  vals == {0, n - 2, n - 1, n} IN
         {<<"big_seq", <<n, <<x>>>>>> : x \in vals} \cup {<<"big_seq", <<n, <<x, y>>>>>> : x \in vals, y \in {0, n - 1}}

\* table / start-set names -> values
Resolved(op, a) ==
  CASE op = "translate" -> <<a[1], Tables[a[2]], a[3], StartSets[a[4]], a[5]>>
    [] op = "table" -> <<Tables[a[1]], StartSets[a[2]]>>
    [] OTHER -> a

Next == /\ c.op = "init"
        /\ \E call \in CallsOf(c) :
              /\ c' = [c EXCEPT !.op = call[1], !.a = call[2]]
              /\ r' = Apply(S0, call[1], Resolved(call[1], call[2]))
Spec == Init /\ [][Next]_vars

(* ---------------------------------------------------------------- laws per case *)
InvAlphabet ==
  (c.fam = "alph" /\ c.op = "init") =>
     /\ Dom_Alphabet(c.alph)
     /\ Law_CodeRoundTrip(c.alph)
     /\ (c.kind = "letter" => Law_ByteTable(c.alph))
InvRoundTrip == c.op = "encode_multiple" => Law_RoundTrip(c.a[1], c.a[2])
InvMap       == c.op = "map" => Law_Map(c.a[1], c.a[2], c.a[3])
InvConstants == c.fam = "tables" => (Law_Complement /\ Law_Num)
InvOrfs      == (c.op = "translate" /\ ~c.a[3]) =>
                   Law_Orfs(c.a[1], Tables[c.a[2]], StartSets[c.a[4]], c.a[5])
InvKmer      == (c.fam = "kmer" /\ c.op = "init") =>
                   (Law_Kmer(c.a[1], c.a[2]) /\ Law_KmerSymbols(KBase(c.a[1]), c.a[2]) /\ Law_Digits(c.a[1], c.a[2]))
InvRolling   == /\ (c.op = "kmers" /\ c.a[3] = <<>>) => Law_Rolling(c.a[1], c.a[2], c.a[4])
                /\ c.op = "kmers" => Law_KmersD(c.a[1], c.a[2], c.a[3], c.a[4])
\* large k: the rolling update on digits yields the windows; digit-form fuse/split are inverse
InvKbig      == /\ (c.op = "kmers_d" /\ c.a[3] = <<>>) => Law_RollingD(c.a[1], c.a[2], c.a[4])
                /\ (c.op = "split_d" /\ r.oc = "ok") => FuseD(c.a[1], c.a[2], r.out) = R("ok", c.a[3])
                /\ (c.op = "kdecode_d" /\ r.oc = "ok") => KEncodeD(c.a[1], c.a[2], r.out) = R("ok", c.a[3])
                /\ (c.fam = "kbig" /\ c.op = "init") => Dom_KmerWidth(c.a[1], c.a[2])
\* sequence objects behave like their strings
Str(x) == Symbols(Seq0(x.kind, x.alph, x.codes))
InvObject ==
  c.fam = "obj" /\ c.op # "init" /\ r.oc = "ok" =>
    CASE c.op = "reverse" -> Str(r) = [i \in DOMAIN Str(S0) |-> Str(S0)[Len(Str(S0)) + 1 - i]]
      [] c.op = "add" -> Str(r) = Str(S0) \o c.a[2]
      [] c.op = "complement" -> Str(r) = [i \in DOMAIN Str(S0) |-> ComplSym(Str(S0)[i])]
                                /\ Apply(Seq0(r.kind, r.alph, r.codes), "complement", <<>>).codes = S0.codes
      [] c.op = "get" /\ c.a[1][1] # "int" -> Str(r) = PickSeq(Str(S0), Resolve(c.a[1], Len(S0.codes)).pos)
      [] c.op = "setsym" -> Str(r) = [Str(S0) EXCEPT ![WrapOne(c.a[1], Len(S0.codes)) + 1] = c.a[2]]
      \* a new sequence is independent: only the written object changes, in one position
      [] c.op = "indep" ->
           LET d == Derive(S0, c.a[1], c.a[2])  w == c.a[4]  side == c.a[3]
               put(s) == [s EXCEPT ![WrapOne(w[1], Len(s)) + 1] = w[2]] IN
           /\ Dom_Indep(S0, c.a)
           /\ r.out.src = (IF side = "src" THEN put(Str(S0)) ELSE Str(S0))
           /\ r.out.res = (IF side = "res" THEN put(Str(d)) ELSE Str(d))
      [] OTHER -> TRUE
InvRefusal == r.oc # "ok" => (r.kind = c.kind /\ r.alph = c.alph /\ r.codes = c.codes)
=============================================================================
