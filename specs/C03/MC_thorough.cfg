SPECIFICATION Spec
CONSTANTS
  MaxDna = 7
  MaxObj = 3
  Rich = TRUE
INVARIANT InvAlphabet
INVARIANT InvRoundTrip
INVARIANT InvMap
INVARIANT InvConstants
INVARIANT InvOrfs
INVARIANT InvKmer
INVARIANT InvRolling
INVARIANT InvKbig
INVARIANT InvObject
INVARIANT InvRefusal
CHECK_DEADLOCK FALSE
