SPECIFICATION Spec
CONSTANTS
  Depth = 3
  Rich = FALSE
INVARIANT InvValid
PROPERTY RefusalIsNoOp
CHECK_DEADLOCK FALSE
