SPECIFICATION Spec
CONSTANTS
  Depth = 3
  Rich = FALSE
INVARIANT InvValid
PROPERTY RefusalIsNoOp
PROPERTY HeldIsIndependent
CHECK_DEADLOCK FALSE
