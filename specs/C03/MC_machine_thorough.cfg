SPECIFICATION Spec
CONSTANTS
  Depth = 3
  Rich = TRUE
INVARIANT InvValid
PROPERTY RefusalIsNoOp
PROPERTY HeldIsIndependent
CHECK_DEADLOCK FALSE
