SPECIFICATION Spec
CONSTANTS
  Depth = 3
  Rich = TRUE
INVARIANT InvValid
PROPERTY RefusalIsNoOp
CHECK_DEADLOCK FALSE
