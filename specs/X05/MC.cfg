SPECIFICATION Spec
CONSTANTS
  IdLen = 4
  DupLen = 3
  KeyFullLen = 2
  KeySmallLen = 4
  NameLen = 3
  ElemLen = 4
  FiltLen = 2
  PolyLen = 3
  InterA = 3
  InterB = 2
  LinLen = 3
  BBLen = 3
  AltLen = 3
INVARIANT InvDomain
INVARIANT InvResult
INVARIANT InvIds
INVARIANT InvDup
INVARIANT InvResid
INVARIANT InvRepair
INVARIANT InvNames
INVARIANT InvElems
INVARIANT InvFilt
INVARIANT InvPoly
INVARIANT InvInter
INVARIANT InvLin
INVARIANT InvBB
INVARIANT InvAlt
CHECK_DEADLOCK FALSE
