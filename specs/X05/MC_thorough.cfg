SPECIFICATION Spec
CONSTANTS
  IdLen = 5
  DupLen = 4
  KeyFullLen = 3
  KeySmallLen = 4
  NameLen = 4
  ElemLen = 5
  FiltLen = 3
  PolyLen = 4
  InterA = 4
  InterB = 3
  LinLen = 4
  BBLen = 4
  AltLen = 4
INVARIANT InvDomain
INVARIANT InvResult
INVARIANT InvIds
INVARIANT InvDup
INVARIANT InvResid
INVARIANT InvRepair
INVARIANT InvNames
INVARIANT InvElems
INVARIANT InvFilt
INVARIANT InvPoly
INVARIANT InvInter
INVARIANT InvLin
INVARIANT InvBB
INVARIANT InvAlt
CHECK_DEADLOCK FALSE
