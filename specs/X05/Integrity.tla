------------------------------- MODULE Integrity -------------------------------
(* X05, bounded exhaustive model (pure-function pattern).

     root  ->  one "input" state per abstract atom array (family, rows, coordinates, ...)
           ->  one "case" state per call (op, argument tuple) on that input, with the
               specification's answer  r = Apply(op, inp, a).

   TLC checks the laws of IntegrityOps on every input (S1: the code-shaped definitions equal
   the per-atom ones, repairs pass their checks, ...) and dumps every (c, r); the driver
   executes each case against biotite (AtomArray and AtomArrayStack, list arguments where the
   documentation allows them) and compares (S2).                                            *)
EXTENDS IntegrityOps

CONSTANTS IdLen,        \* ids:   id sequences up to this length over IdAlphabet
          DupLen,       \* dup:   arrays up to this length over the 9 one-column variants of a row
          KeyFullLen,   \* resid: arrays up to this length over the 24-key alphabet
          KeySmallLen,  \* resid: arrays up to this length over the 7-key alphabet
          NameLen,      \* names: atom names up to this many characters over NameChars
          ElemLen,      \* elems: element lists up to this length over ElemAlphabet
          FiltLen,      \* filt:  arrays of 1..FiltLen atoms over the 18 atom kinds
          PolyLen,      \* poly:  arrays of 1..PolyLen atoms over the 11 keys of PolyKeys
          InterA, InterB, \* inter: array / intersect lengths over 4 rows
          LinLen,       \* lin:   up to LinLen displacements (LinLen + 1 atoms)
          BBLen,        \* bb:    up to BBLen atoms
          AltLen        \* alt:   1..AltLen atoms over 2 residue keys x 5 altloc ids x 3 occupancy vectors

VARIABLES kind, c, r
vars == <<kind, c, r>>

BSeq(S, k) == UNION {[1..m -> S] : m \in 0..k}
TA == <<"A">>   TB == <<"B">>   TN == <<"N">>   TC == <<"C">>   TCA == <<"C", "A">>   TO == <<"O">>   TP == <<"P">>
NoText == <<>>

Row(chain, res, ins, rname, aname, el, het, id) == <<chain, res, ins, rname, aname, el, het, id>>
Row0 == Row(TA, 1, NoText, T_ALA, TCA, TC, FALSE, 1)
KeyRow(k) == Row(k[1], k[2], k[3], k[4], TCA, TC, FALSE, 1)
Inp(rows, hasId, pts, rowsB, hasIdB) == [rows |-> rows, hasId |-> hasId, pts |-> pts, rowsB |-> rowsB, hasIdB |-> hasIdB]
Plain(rows) == Inp(rows, FALSE, <<>>, <<>>, FALSE)

(* ---------------------------------------------------------------- ids *)
IdAlphabet == {-1, 0, 1, 2, 4}
\* residue ids = the sequence, atom ids = the reversed sequence (the two columns differ)
IdRows(ids) == [k \in DOMAIN ids |-> Row(TA, ids[k], NoText, T_ALA, TCA, TC, FALSE, ids[Len(ids) + 1 - k])]
IdInputs == {Inp(IdRows(ids), TRUE, <<>>, <<>>, FALSE) : ids \in BSeq(IdAlphabet, IdLen)}
              \cup {Inp(IdRows(ids), FALSE, <<>>, <<>>, FALSE) : ids \in BSeq(IdAlphabet, 1)}
IdCalls == {<<"check_atom_id_continuity", <<>>>>, <<"check_res_id_continuity", <<>>>>}

(* ---------------------------------------------------------------- dup *)
DupAlphabet == {Row0} \cup {[Row0 EXCEPT ![col] = v] :
                  <<col, v>> \in {<<1, TB>>, <<2, 2>>, <<3, TA>>, <<4, T_GLY>>, <<5, TN>>, <<6, TN>>, <<7, TRUE>>, <<8, 2>>}}
DupInputs == {Inp(rows, h, <<>>, <<>>, FALSE) : rows \in BSeq(DupAlphabet, DupLen), h \in BOOLEAN}
DupCalls == {<<"check_duplicate_atoms", <<>>>>}

(* ---------------------------------------------------------------- resid *)
KeysFull == {TA, TB} \X {1, 2, 4} \X {NoText, TA} \X {T_ALA, T_GLY}
KeysSmall == {<<TA, 1, NoText, T_ALA>>, <<TA, 2, NoText, T_ALA>>, <<TA, 4, NoText, T_ALA>>, <<TA, 1, TA, T_ALA>>,
              <<TA, 1, NoText, T_GLY>>, <<TB, 1, NoText, T_ALA>>, <<TB, 2, NoText, T_ALA>>}
KeySeqs == BSeq(KeysFull, KeyFullLen) \cup BSeq(KeysSmall, KeySmallLen)
ResidInputs == {Plain([k \in DOMAIN ks |-> KeyRow(ks[k])]) : ks \in KeySeqs}
\* (repair_res_ids contains the plain call: its first component)
ResidCalls(n) == {<<"repair_res_ids", <<b>>>> : b \in BOOLEAN}
                   \cup (IF n <= 2 THEN {<<"create_continuous_res_ids", <<b>>>> : b \in BOOLEAN}
                                          \cup {<<"create_continuous_res_ids", <<>>>>, <<"repair_res_ids", <<>>>>}
                         ELSE {})

(* ---------------------------------------------------------------- names / elems *)
NameChars == {"C", "A", "H", "E", "K", "Q", "F", "1", "a", "'"}
NameRow(nm) == [Row0 EXCEPT ![5] = nm]
NameLists == BSeq({TCA, <<"F", "E", "1">>, NoText, <<"1", "H">>}, 3)
\* every element symbol as a name, followed by a digit, by a letter that makes no symbol, in lower case
TableNames == UNION {{ElemSyms[k], ElemSyms[k] \o <<"1">>, ElemSyms[k] \o <<"X">>,
                      [j \in DOMAIN ElemSyms[k] |-> LowerChars[CHOOSE i \in 1..26 : UpperChars[i] = ElemSyms[k][j]]]} :
                       k \in DOMAIN ElemSyms}
NameInputs == {Plain(<<NameRow(nm)>>) : nm \in BSeq(NameChars, NameLen) \cup TableNames}
                \cup {Plain([k \in DOMAIN l |-> NameRow(l[k])]) : l \in NameLists}
NameCalls == {<<"infer_elements", <<>>>>}

ElemAlphabet == {TC, TN, <<"F", "E">>, <<"C", "L">>, NoText, <<"c">>}
ElemRow(el) == [Row0 EXCEPT ![6] = el]
ElemInputs == {Plain([k \in DOMAIN l |-> ElemRow(l[k])]) : l \in BSeq(ElemAlphabet, ElemLen)}
ElemCalls == {<<"create_atom_names", <<>>>>, <<"names_roundtrip", <<>>>>}

(* ---------------------------------------------------------------- filt *)
AtomKinds ==      \* <<res_name, atom_name, element>>
  {<<T_ALA, TCA, TC>>, <<T_ALA, TO, TO>>, <<T_GLY, TN, TN>>, <<T_SER, TC, TC>>,
   <<T_DA, TP, TP>>, <<T_DA, <<"O", "5", "'">>, TO>>, <<T_DG, <<"C", "4", "'">>, TC>>,
   <<T_DA, TCA, TC>>, <<T_ALA, TP, TP>>,                          \* backbone name of the other polymer type
   <<T_HOH, TO, TO>>, <<T_SOL, TO, TO>>, <<T_NA, T_NA, T_NA>>, <<T_NA, T_NA, TN>>, <<T_LIG, <<"C", "1">>, TC>>,
   <<<<"U">>, TP, TP>>, <<<<"P", "Y", "L">>, TCA, TC>>,          \* canonical names the dictionary lacks
   <<<<"Z", "Z", "Z">>, TN, TN>>, <<TCA, TCA, TCA>>}              \* unknown residue; calcium ion
KindRow(k) == [Row0 EXCEPT ![4] = k[1], ![5] = k[2], ![6] = k[3]]
\* every name of the fixed lists and of the dictionary (one atom each), every backbone atom name
ListedNames == CanonicalAA \cup CanonicalNuc \cup SolventNames \cup DOMAIN CCDType
                 \cup {<<"D", "U">>, <<"T">>, <<"H", "O">>, <<"A", "L">>, <<"a", "l", "a">>}
ListedKinds == {<<nm, TCA, TC>> : nm \in ListedNames}
                 \cup {<<res, an, TC>> : res \in {T_ALA, T_DA}, an \in PeptideBackboneAtoms \cup PhosphateBackboneAtoms
                                                                  \cup {<<"O", "P", "1">>, <<"C", "B">>, <<"C", "2", "'">>}}
FiltInputs == {Plain([k \in DOMAIN l |-> KindRow(l[k])]) : l \in BSeq(AtomKinds, FiltLen) \ {<<>>}}
                \cup {Plain(<<KindRow(k)>>) : k \in ListedKinds}
FiltCalls == {<<f, <<>>>> : f \in AtomFilters}

(* ---------------------------------------------------------------- poly *)
PolyKeys == ({TA} \X {1, 2, 4} \X {NoText} \X {T_ALA, T_DA, T_HOH})
              \cup {<<TB, 2, NoText, T_ALA>>, <<TA, 2, TA, T_ALA>>}
PolyInputs == {Plain([k \in DOMAIN ks |-> KeyRow(ks[k])]) : ks \in BSeq(PolyKeys, PolyLen) \ {<<>>}}
Txt_p == <<"p">>   Txt_pep == <<"p", "e", "p">>   Txt_n == <<"n">>   Txt_nuc == <<"n", "u", "c">>
Txt_c == <<"c">>   Txt_x == <<"x">>
PolyArgsCore == {<<>>, <<1, Txt_pep>>, <<3, DefaultPolType>>, <<2, Txt_n>>}
PolyArgsAll == PolyArgsCore \cup {<<2, Txt_p>>, <<1, Txt_nuc>>, <<1, Txt_c>>, <<0, Txt_c>>, <<2, Txt_x>>, <<1, NoText>>}
PolyCalls(n) == {<<"filter_polymer", a>> : a \in (IF n <= 2 THEN PolyArgsAll ELSE PolyArgsCore)}

(* ---------------------------------------------------------------- inter *)
InterAlphabet == {Row0, [Row0 EXCEPT ![1] = TB], [Row0 EXCEPT ![8] = 2]}
InterInputs == {Inp(A, ha, <<>>, B, hb) : A \in BSeq(InterAlphabet, InterA), B \in BSeq(InterAlphabet, InterB),
                                          ha \in BOOLEAN, hb \in BOOLEAN}
InterCalls == {<<"filter_intersection", <<>>>>}

(* ---------------------------------------------------------------- lin / bb *)
\* squared lengths 0, 16, 24, 25, 36, 49, 51, 52, 64 (1/4 A)^2; default bonds are 24..51
Disps == {<<0, 0, 0>>, <<4, 0, 0>>, <<2, 2, 4>>, <<3, 4, 0>>, <<6, 0, 0>>, <<-6, 0, 0>>, <<0, 7, 0>>,
          <<1, 5, 5>>, <<4, 6, 0>>, <<0, 0, 8>>}
Walk(ds) == FoldLeft(LAMBDA acc, d : Append(acc, <<acc[Len(acc)][1] + d[1], acc[Len(acc)][2] + d[2],
                                                   acc[Len(acc)][3] + d[3]>>), <<<<0, 0, 0>>>>, ds)
Lims == {<<5, 4, 7, 4>>, <<3, 2, 3, 2>>, <<2, 1, 1, 1>>}          \* 1.25..1.75, 1.5..1.5, 2..1
PlainRows(n) == [k \in 1..n |-> Row0]
LinInputs == {Inp(<<>>, FALSE, <<>>, <<>>, FALSE)}
               \cup {Inp(PlainRows(Len(ds) + 1), FALSE, Walk(ds), <<>>, FALSE) : ds \in BSeq(Disps, LinLen)}
LinCalls(n) == {<<op, a>> : op \in {"filter_linear_bond_continuity", "check_linear_continuity"},
                            a \in {<<>>} \cup (IF n <= 3 THEN {<<l>> : l \in Lims} ELSE {})}

BBKinds == {<<T_ALA, TCA, TC>>, <<T_ALA, TO, TO>>, <<T_DA, TP, TP>>, <<T_HOH, TO, TO>>}
BBDisps == {<<6, 0, 0>>, <<8, 0, 0>>, <<3, 0, 0>>}
BBInputs == {Inp(<<>>, FALSE, <<>>, <<>>, FALSE)}
              \cup UNION {{Inp([k \in DOMAIN ks |-> KindRow(ks[k])], FALSE, Walk(ds), <<>>, FALSE) :
                             ks \in [1..n -> BBKinds], ds \in [1..(n - 1) -> BBDisps]} : n \in 1..BBLen}
BBCalls == {<<"check_backbone_continuity", a>> : a \in {<<>>, <<<<5, 4, 7, 4>>>>}}

(* ---------------------------------------------------------------- alt *)
AltKeys == {<<TA, 1, NoText, T_ALA>>, <<TA, 2, NoText, T_ALA>>}
AltInputs == {Plain([k \in DOMAIN ks |-> KeyRow(ks[k])]) : ks \in BSeq(AltKeys, AltLen)}
AltIds == {NoText, <<"A">>, <<"B">>, <<"a">>, <<"1">>}
AltIdsOne == AltIds \cup NoAltIds \cup {<<"Z">>, <<"*">>}         \* single atoms: every "no id" spelling
OccVectors(n) == {[k \in 1..n |-> 2], [k \in 1..n |-> k], [k \in 1..n |-> n + 1 - k]}
AltSeqs(n) == IF n = 1 THEN {<<x>> : x \in AltIdsOne} ELSE [1..n -> AltIds]
AltCalls(n) == {<<"filter_first_altloc", <<al>>>> : al \in AltSeqs(n)}
                 \cup {<<"filter_highest_occupancy_altloc", <<al, oc>>>> : al \in AltSeqs(n), oc \in OccVectors(n)}

(* ---------------------------------------------------------------- the model *)
Families == {"ids", "dup", "resid", "names", "elems", "filt", "poly", "inter", "lin", "bb", "alt"}
InputsOf(fam) ==
  CASE fam = "ids" -> IdInputs [] fam = "dup" -> DupInputs [] fam = "resid" -> ResidInputs
    [] fam = "names" -> NameInputs [] fam = "elems" -> ElemInputs [] fam = "filt" -> FiltInputs
    [] fam = "poly" -> PolyInputs [] fam = "inter" -> InterInputs [] fam = "lin" -> LinInputs
    [] fam = "bb" -> BBInputs [] fam = "alt" -> AltInputs
CallsOf(fam, inp) ==
  CASE fam = "ids" -> IdCalls [] fam = "dup" -> DupCalls [] fam = "resid" -> ResidCalls(Len(inp.rows))
    [] fam = "names" -> NameCalls [] fam = "elems" -> ElemCalls [] fam = "filt" -> FiltCalls
    [] fam = "poly" -> PolyCalls(Len(inp.rows)) [] fam = "inter" -> InterCalls
    [] fam = "lin" -> LinCalls(Len(inp.rows)) [] fam = "bb" -> BBCalls [] fam = "alt" -> AltCalls(Len(inp.rows))

Case(fam, inp, op, a) == [fam |-> fam, inp |-> inp, op |-> op, a |-> a]
NoResult == R("ok", <<>>, "any")

Init == kind = "root" /\ c = Case("", Plain(<<>>), "", <<>>) /\ r = NoResult
Next ==
  \/ /\ kind = "root"
     /\ \E fam \in Families : \E inp \in InputsOf(fam) :
          kind' = "input" /\ c' = Case(fam, inp, "", <<>>) /\ r' = NoResult
  \/ /\ kind = "input"
     /\ \E call \in CallsOf(c.fam, c.inp) :
          /\ kind' = "case"
          /\ c' = Case(c.fam, c.inp, call[1], call[2])
          /\ r' = Apply(call[1], c.inp, call[2])
Spec == Init /\ [][Next]_vars

(* ---------------------------------------------------------------- invariants (S1)
   the laws of an input are evaluated once, in the case state of one designated call        *)
At(fam, op) == kind = "case" /\ c.fam = fam /\ c.op = op
ArgsDefault == kind = "case" /\ c.a = <<>>

InvDomain == kind = "case" => Dom_Call(c.op, c.inp, c.a)
InvResult == kind = "case" => /\ r.oc \in {"ok", "Rejected"}
                              /\ r.kind \in {"int", "bool", "str", "any"}
                              /\ (r.oc = "ok" /\ r.kind = "bool") => Len(r.out) = Len(c.inp.rows)
InvIds == At("ids", "check_res_id_continuity") =>
            Law_Discont(Column(c.inp.rows, 2)) /\ Law_Discont(Column(c.inp.rows, 8))
InvDup == At("dup", "check_duplicate_atoms") => Law_Duplicates(c.inp.rows, Cats(c.inp.hasId))
InvResid == (At("resid", "repair_res_ids") /\ c.a = <<TRUE>>) => Law_ContIds(KeysOf(c.inp.rows))
\* the repair pipeline: the written-back ids pass the check (plain) / fail it at chain starts only (restart)
InvRepair == At("resid", "repair_res_ids") =>
               LET restart == IF c.a = <<>> THEN DefaultRestart ELSE c.a[1]  keys == KeysOf(c.inp.rows) IN
               /\ r.out[1] = ContIdsDecl(keys, restart)
               /\ ~restart => (r.out[2] = <<>> /\ r.out[3] = r.out[1])
               /\ restart => ToSet(r.out[2]) \subseteq ChainStartSet(keys)
               /\ (restart /\ Dom_ChainsById(keys)) => r.out[3] = r.out[1]
InvNames == At("names", "infer_elements") => \A k \in DOMAIN c.inp.rows : Law_Guess(c.inp.rows[k][5])
InvElems == At("elems", "create_atom_names") => Law_Names(Column(c.inp.rows, 6))
InvFilt == At("filt", "filter_solvent") => \A k \in DOMAIN c.inp.rows : Law_Filters(c.inp.rows[k])
InvPoly == (kind = "case" /\ c.fam = "poly" /\ r.oc = "ok") =>
             LET ms == IF c.a = <<>> THEN DefaultMinSize ELSE c.a[1]
                 pt == IF c.a = <<>> THEN DefaultPolType ELSE c.a[2]
             IN Law_Polymer(KeysOf(c.inp.rows), ms, PolClass(pt)) /\ r.out = PolymerDecl(KeysOf(c.inp.rows), ms, PolClass(pt))
InvInter == At("inter", "filter_intersection") => Law_Intersection(c.inp.rows, c.inp.hasId, c.inp.rowsB, c.inp.hasIdB)
InvLin == At("lin", "check_linear_continuity") => Law_Linear(c.inp.pts, LimOf(c.a))
InvBB == At("bb", "check_backbone_continuity") => Law_Backbone(c.inp.rows, c.inp.pts, LimOf(c.a))
InvAlt == At("alt", "filter_highest_occupancy_altloc") => Law_Altloc(KeysOf(c.inp.rows), c.a[1], c.a[2])
=============================================================================
