------------------------------- MODULE Trace -------------------------------
(* X05 direction code -> spec: sessions recorded from the real functions on LIVE atom arrays /
   stacks are re-computed event by event with the operators of IntegrityOps.

   TRACE_FILE is a JSON array of traces; a trace is an array of events
     {op, a, pre: {rows, hasId, pts}, rowsB, hasIdB, oc, out, kind, post: {rows, hasId, pts}}
   rows: list of [chain, res_id, ins_code, res_name, atom_name, element, hetero, atom_id] with
   every text as a list of one-character strings; pts: list of [x, y, z] in 1/4 Angstrom.
   pre / post are the projections of the real object before / after the event.

   Query events (op \in Ops): the logged result must equal Apply(op, pre, a) and the object must
   be unchanged (post = pre).  Write events (op \in Writes: the result of a repair function
   written back by the session, or an in-place edit of one annotation value): post must equal
   ApplyWrite(pre).  Every event is judged from its own logged pre-state, so one run reports
   every disagreement:  <<"MISMATCH", tid, event, flags, expected oc, out, kind>>.          *)
EXTENDS IntegrityOps, Json, IOUtils

Tr == JsonDeserialize(IOEnv.TRACE_FILE)

VARIABLES tid, l
tvars == <<tid, l>>

InpOf(e) == [rows |-> e.pre.rows, hasId |-> e.pre.hasId, pts |-> e.pre.pts,
             rowsB |-> e.rowsB, hasIdB |-> e.hasIdB]

\* atom ids are meaningless when the annotation is absent (logged as 0)
SameState(p, q) == p.rows = q.rows /\ p.hasId = q.hasId /\ p.pts = q.pts

JudgeQuery(e) ==
  LET x == Apply(e.op, InpOf(e), e.a)
      okOc   == x.oc = e.oc
      okOut  == IF x.oc = "ok" /\ e.oc = "ok" THEN x.out = e.out ELSE TRUE
      okKind == IF x.oc = "ok" /\ e.oc = "ok" /\ x.kind # "any" THEN x.kind = e.kind ELSE TRUE
      okPure == SameState(e.pre, e.post)
  IN IF okOc /\ okOut /\ okKind /\ okPure THEN TRUE
     ELSE PrintT(<<"MISMATCH", tid, l + 1, <<okOc, okOut, okKind, okPure>>, x.oc, x.out, x.kind>>)

JudgeWrite(e) ==
  LET rows2 == ApplyWrite(e.pre.rows, e.op, e.a)
      ok == e.oc = "ok" /\ e.post.rows = rows2 /\ e.post.hasId = e.pre.hasId /\ e.post.pts = e.pre.pts
  IN IF ok THEN TRUE
     ELSE PrintT(<<"MISMATCH", tid, l + 1, <<e.oc = "ok", e.post.rows = rows2, TRUE, e.post.pts = e.pre.pts>>,
                   "ok", rows2, "rows">>)

\* the recorded call lies in the domain the check quantifies over (the generator is supposed to
\* stay inside; a violation is a failure of the machinery, not of biotite)
DomOK(e) ==
  /\ Len(e.pre.pts) = Len(e.pre.rows)
  /\ \A k \in DOMAIN e.pre.rows : Len(e.pre.rows[k]) = NCols
  /\ IF e.op \in Writes THEN Dom_Write(e.pre.rows, e.op, e.a)
     ELSE e.op \in Ops /\ Dom_Call(e.op, InpOf(e), e.a)
CheckDom(e) ==
  IF DomOK(e) THEN TRUE ELSE PrintT(<<"MISMATCH", tid, l + 1, <<"DOMAIN">>, "", <<>>, "">>)

Init == tid \in 1..Len(Tr) /\ l = 0
Next == /\ l < Len(Tr[tid])
        /\ l' = l + 1
        /\ UNCHANGED tid
        /\ LET e == Tr[tid][l + 1] IN
           /\ CheckDom(e)
           /\ IF ~DomOK(e) THEN TRUE
              ELSE IF e.op \in Writes THEN JudgeWrite(e) ELSE JudgeQuery(e)
Spec == Init /\ [][Next]_tvars
=============================================================================
