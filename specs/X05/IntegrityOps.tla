---------------------------- MODULE IntegrityOps ----------------------------
(* X05: biotite.structure integrity checks (integrity.py), repair functions (repair.py) and
   the filters of filter.py.

   An atom array (or stack: the annotations are shared by all models) is abstracted to
     rows   sequence of  <<chain_id, res_id, ins_code, res_name, atom_name, element, hetero, atom_id>>
     hasId  whether the optional annotation `atom_id` exists
     pts    sequence of <<x, y, z>>, integer coordinates in units of 1/4 Angstrom (exact in float32)
   Every piece of text (chain id, insertion code, residue / atom name, element, polymer type)
   is a Text = sequence of one-character strings, because TLC has no string operations and
   infer_elements / create_atom_names / filter_monoatomic_ions work on characters.
   Atom indices are 0-based like the code's; index lists are ascending sequences.

   One operator Op_* per public function, returning  R(oc, out, kind):
     oc   "ok" | "Rejected" (any exception; the statement names no exception class)
     out  the returned array as a sequence
     kind documented dtype class of the returned array: "int" | "bool" | "str" | "any"
   All functions are PURE: the post-state of every call is its pre-state (the drivers compare
   the input object before and after every call with the rows the specification was given).

   "Decl" definitions state the behaviour atom by atom; "Impl" definitions follow the numpy
   shape of the code (diff / where / cumsum / insert / boolean scatter / np.split).  The laws at
   the end relate them and are model-checked on every bounded input (stage S1).              *)
EXTENDS Integers, Sequences, FiniteSets, SequencesExt, FiniteSetsExt, TLC

R(oc, out, kind) == [oc |-> oc, out |-> out, kind |-> kind]
Rejected == R("Rejected", <<>>, "any")

(* ------------------------------------------------------------------ small helpers *)
Idx0(n) == [k \in 1..n |-> k - 1]                                   \* np.arange(n)
WhereTrue(mask) == SelectSeq(Idx0(Len(mask)), LAMBDA p : mask[p + 1])   \* np.where(mask)[0]
Shift1(s) == [k \in DOMAIN s |-> s[k] + 1]
SortedSeq(S) == SetToSortSeq(S, LAMBDA a, b : a < b)
SumSeq(s) == FoldLeft(LAMBDA acc, x : acc + x, 0, s)
CumSum(d) == FoldLeft(LAMBDA acc, x : Append(acc, (IF acc = <<>> THEN 0 ELSE acc[Len(acc)]) + x), <<>>, d)
NotSeq(m) == [k \in DOMAIN m |-> ~m[k]]
AllFalse(n) == [k \in 1..n |-> FALSE]
StrictlyAscending(s) == \A k \in 1..(Len(s) - 1) : s[k] < s[k + 1]
Gather(s, ix0) == [k \in DOMAIN ix0 |-> s[ix0[k] + 1]]              \* s[ix0], 0-based indices
\* mask_full = all False; mask_full[sel] = vals   (vals has one entry per TRUE of sel)
Scatter(sel, vals) ==
  [k \in DOMAIN sel |-> IF sel[k] THEN vals[Cardinality({j \in 1..k : sel[j]})] ELSE FALSE]

(* ------------------------------------------------------------------ rows *)
ChainOf(r)   == r[1]
ResIdOf(r)   == r[2]
InsOf(r)     == r[3]
ResNameOf(r) == r[4]
AtomNameOf(r) == r[5]
ElementOf(r) == r[6]
HeteroOf(r)  == r[7]
AtomIdOf(r)  == r[8]
NCols == 8
KeyOf(r) == <<r[1], r[2], r[3], r[4]>>
Column(rows, c) == [k \in DOMAIN rows |-> rows[k][c]]
KeysOf(rows) == [k \in DOMAIN rows |-> KeyOf(rows[k])]
SetColumn(rows, c, vals) == [k \in DOMAIN rows |-> [rows[k] EXCEPT ![c] = vals[k]]]

(* ------------------------------------------------------------------ text *)
LowerChars == <<"a", "b", "c", "d", "e", "f", "g", "h", "i", "j", "k", "l", "m", "n", "o", "p", "q",
                "r", "s", "t", "u", "v", "w", "x", "y", "z">>
UpperChars == <<"A", "B", "C", "D", "E", "F", "G", "H", "I", "J", "K", "L", "M", "N", "O", "P", "Q",
                "R", "S", "T", "U", "V", "W", "X", "Y", "Z">>
DigitChars == <<"0", "1", "2", "3", "4", "5", "6", "7", "8", "9">>
IsDigit(ch) == \E d \in 1..10 : DigitChars[d] = ch
UpChar(ch)  == IF \E i \in 1..26 : LowerChars[i] = ch
               THEN UpperChars[CHOOSE i \in 1..26 : LowerChars[i] = ch] ELSE ch
Upper(t)       == [k \in DOMAIN t |-> UpChar(t[k])]
StripDigits(t) == SelectSeq(t, LAMBDA ch : ~IsDigit(ch))
\* decimal digits of k >= 0  (str(k))
RECURSIVE Dec(_)
Dec(k) == IF k < 10 THEN <<DigitChars[k + 1]>> ELSE Append(Dec(k \div 10), DigitChars[(k % 10) + 1])
\* the characters the model knows how to classify (ASCII letters, digits, prime, star, blank, underscore, dot, question mark)
KnownChar(ch) == IsDigit(ch) \/ (\E i \in 1..26 : LowerChars[i] = ch \/ UpperChars[i] = ch)
                 \/ ch \in {"'", "*", " ", "_", ".", "?"}
Dom_Text(t) == \A k \in DOMAIN t : KnownChar(t[k])

(* ================================================================== integrity.py *)
(* _check_continuity: indices of atoms whose id is neither equal to nor one above the id of
   the atom before.                                                                       *)
ContStep(d) == d = 0 \/ d = 1
DiscontDecl(ids) == {i \in 1..(Len(ids) - 1) : ~ContStep(ids[i + 1] - ids[i])}
DiscontImpl(ids) ==
  LET diff == [k \in 1..(Len(ids) - 1) |-> ids[k + 1] - ids[k]]            \* np.diff
      mask == [k \in DOMAIN diff |-> diff[k] # 0 /\ diff[k] # 1]
  IN Shift1(WhereTrue(mask))

\* check_atom_id_continuity needs the optional annotation (AttributeError otherwise)
Op_CheckAtomId(rows, hasId) ==
  IF ~hasId THEN Rejected ELSE R("ok", DiscontImpl(Column(rows, 8)), "int")
Op_CheckResId(rows) == R("ok", DiscontImpl(Column(rows, 2)), "int")

(* check_duplicate_atoms: atoms equal to an earlier atom in EVERY annotation category
   (coordinates may differ); the first occurrence is not a duplicate.                      *)
Cats(hasId) == IF hasId THEN 1..8 ELSE 1..7
SameAtom(a, b, cats) == \A c \in cats : a[c] = b[c]
DupDecl(rows, cats) == {i \in 1..(Len(rows) - 1) : \E j \in 0..(i - 1) : SameAtom(rows[j + 1], rows[i + 1], cats)}
DupImpl(rows, cats) ==
  LET catSeq == SortedSeq(cats)
      IsDup(i) ==        \* is_duplicate = full(i, True); for annot: is_duplicate &= annot[:i] == annot[i]
        LET m == FoldLeft(LAMBDA acc, c : [j \in 1..i |-> acc[j] /\ rows[j][c] = rows[i + 1][c]],
                          [j \in 1..i |-> TRUE], catSeq)
        IN \E j \in 1..i : m[j]
  IN SelectSeq([k \in 1..(Len(rows) - 1) |-> k], IsDup)
Op_CheckDuplicates(rows, hasId) == R("ok", DupImpl(rows, Cats(hasId)), "int")

(* ------------------------------------------------------------------ coordinates *)
Dist2(p, q) == (p[1] - q[1]) * (p[1] - q[1]) + (p[2] - q[2]) * (p[2] - q[2]) + (p[3] - q[3]) * (p[3] - q[3])
\* a limit pair is <<a, b, c, d>>: min_len = a/b Angstrom, max_len = c/d Angstrom (b, d > 0).
\* d2 is in (1/4 A)^2:   a/b <= sqrt(d2)/4   <=>   16 a^2 <= d2 b^2      (a >= 0)
DefaultLim == <<6, 5, 9, 5>>                                   \* min_len=1.2, max_len=1.8
InBond(d2, lim) == 16 * lim[1] * lim[1] <= d2 * lim[2] * lim[2] /\ d2 * lim[4] * lim[4] <= 16 * lim[3] * lim[3]
IsPow2(b) == b \in {1, 2, 4, 8, 16}
\* floating point is exact or irrelevant: a bound that is not a dyadic rational is never hit exactly
Dom_Lim(pts, lim) ==
  /\ lim[1] >= 0 /\ lim[3] >= 0 /\ lim[2] > 0 /\ lim[4] > 0
  /\ \A k \in 1..(Len(pts) - 1) :
       LET d2 == Dist2(pts[k], pts[k + 1]) IN
       /\ (~IsPow2(lim[2])) => 16 * lim[1] * lim[1] # d2 * lim[2] * lim[2]
       /\ (~IsPow2(lim[4])) => 16 * lim[3] * lim[3] # d2 * lim[4] * lim[4]

(* filter_linear_bond_continuity: TRUE where the distance to the NEXT atom is a bond length;
   the trailing atom is always TRUE.  One entry per atom.                                  *)
LinearDecl(pts, lim) ==
  [k \in 1..Len(pts) |-> IF k = Len(pts) THEN TRUE ELSE InBond(Dist2(pts[k], pts[k + 1]), lim)]
LinearImpl(pts, lim) ==            \* np.append(mask over np.diff(coord), True)
  Append([k \in 1..(Len(pts) - 1) |-> InBond(Dist2(pts[k], pts[k + 1]), lim)], TRUE)
Op_FilterLinear(pts, lim) == R("ok", LinearDecl(pts, lim), "bool")

(* check_linear_continuity: atoms whose distance to the PRECEDING atom is not a bond length *)
CheckLinearDecl(pts, lim) == {i \in 1..(Len(pts) - 1) : ~InBond(Dist2(pts[i], pts[i + 1]), lim)}
DisconFromCon(con) ==             \* np.insert(~con_mask[:-1], 0, False)
  <<FALSE>> \o NotSeq(SubSeq(con, 1, Len(con) - 1))
CheckLinearImpl(pts, lim) == WhereTrue(DisconFromCon(LinearImpl(pts, lim)))
Op_CheckLinear(pts, lim) == R("ok", CheckLinearImpl(pts, lim), "int")

(* ================================================================== filter.py *)
T_ALA == <<"A", "L", "A">>   T_GLY == <<"G", "L", "Y">>   T_SER == <<"S", "E", "R">>
T_DA  == <<"D", "A">>        T_DG  == <<"D", "G">>        T_LIG == <<"L", "I", "G">>
T_RNG == <<"R", "N", "G">>   T_HOH == <<"H", "O", "H">>   T_NA  == <<"N", "A">>
T_SOL == <<"S", "O", "L">>

(* The Chemical Component Dictionary in use: /verif/fixtures/ccd/components_synth.bcif
   (component id -> _chem_comp.type, upper case).  No carbohydrate is in it.               *)
CCDType == (T_ALA :> "L-PEPTIDE LINKING" @@ T_GLY :> "PEPTIDE LINKING" @@ T_SER :> "L-PEPTIDE LINKING"
            @@ T_DA :> "DNA LINKING" @@ T_DG :> "DNA LINKING" @@ T_LIG :> "NON-POLYMER"
            @@ T_RNG :> "NON-POLYMER" @@ T_HOH :> "NON-POLYMER" @@ T_NA :> "NON-POLYMER")
TypeOf(res) == IF res \in DOMAIN CCDType THEN CCDType[res] ELSE ""
\* type names of the docstrings / info/groups.py, compared case-insensitively (upper case here)
AminoTypes == {"D-BETA-PEPTIDE, C-GAMMA LINKING", "D-GAMMA-PEPTIDE, C-DELTA LINKING",
               "D-PEPTIDE COOH CARBOXY TERMINUS", "D-PEPTIDE NH3 AMINO TERMINUS", "D-PEPTIDE LINKING",
               "L-BETA-PEPTIDE, C-GAMMA LINKING", "L-GAMMA-PEPTIDE, C-DELTA LINKING",
               "L-PEPTIDE COOH CARBOXY TERMINUS", "L-PEPTIDE NH3 AMINO TERMINUS", "L-PEPTIDE LINKING",
               "PEPTIDE LINKING"}
NucleotideTypes == {"DNA OH 3 PRIME TERMINUS", "DNA OH 5 PRIME TERMINUS", "DNA LINKING", "L-DNA LINKING",
                    "L-RNA LINKING", "RNA OH 3 PRIME TERMINUS", "RNA OH 5 PRIME TERMINUS", "RNA LINKING"}
CarbohydrateTypes == {"D-SACCHARIDE", "D-SACCHARIDE, ALPHA LINKING", "D-SACCHARIDE, BETA LINKING",
                      "L-SACCHARIDE", "L-SACCHARIDE, ALPHA LINKING", "L-SACCHARIDE, BETA LINKING", "SACCHARIDE"}
IsAmino(res)        == TypeOf(res) \in AminoTypes
IsNucleotide(res)   == TypeOf(res) \in NucleotideTypes
IsCarbohydrate(res) == TypeOf(res) \in CarbohydrateTypes

\* fixed lists of filter.py (the documentation only says "canonical"; the lists are the code's)
CanonicalAA ==
  {<<"A", "L", "A">>, <<"A", "R", "G">>, <<"A", "S", "N">>, <<"A", "S", "P">>, <<"C", "Y", "S">>,
   <<"G", "L", "N">>, <<"G", "L", "U">>, <<"G", "L", "Y">>, <<"H", "I", "S">>, <<"I", "L", "E">>,
   <<"L", "E", "U">>, <<"L", "Y", "S">>, <<"M", "E", "T">>, <<"P", "H", "E">>, <<"P", "R", "O">>,
   <<"P", "Y", "L">>, <<"S", "E", "R">>, <<"T", "H", "R">>, <<"T", "R", "P">>, <<"T", "Y", "R">>,
   <<"V", "A", "L">>, <<"S", "E", "C">>}
CanonicalNuc == {<<"A">>, <<"D", "A">>, <<"G">>, <<"D", "G">>, <<"C">>, <<"D", "C">>, <<"U">>, <<"D", "T">>}
SolventNames == {T_HOH, T_SOL}
PeptideBackboneAtoms == {<<"N">>, <<"C", "A">>, <<"C">>}
PhosphateBackboneAtoms == {<<"P">>, <<"O", "5", "'">>, <<"C", "5", "'">>, <<"C", "4", "'">>,
                           <<"C", "3", "'">>, <<"O", "3", "'">>}

AtomFilters == {"filter_solvent", "filter_monoatomic_ions", "filter_canonical_nucleotides",
                "filter_nucleotides", "filter_canonical_amino_acids", "filter_amino_acids",
                "filter_carbohydrates", "filter_peptide_backbone", "filter_phosphate_backbone"}
\* the per-atom definition of every annotation-only filter (r is a full row)
FilterPred(f, r) ==
  CASE f = "filter_solvent"               -> ResNameOf(r) \in SolventNames
    [] f = "filter_monoatomic_ions"       -> ResNameOf(r) = ElementOf(r)
    [] f = "filter_canonical_nucleotides" -> ResNameOf(r) \in CanonicalNuc
    [] f = "filter_nucleotides"           -> IsNucleotide(ResNameOf(r))
    [] f = "filter_canonical_amino_acids" -> ResNameOf(r) \in CanonicalAA
    [] f = "filter_amino_acids"           -> IsAmino(ResNameOf(r))
    [] f = "filter_carbohydrates"         -> IsCarbohydrate(ResNameOf(r))
    [] f = "filter_peptide_backbone"      -> AtomNameOf(r) \in PeptideBackboneAtoms /\ IsAmino(ResNameOf(r))
    [] f = "filter_phosphate_backbone"    -> AtomNameOf(r) \in PhosphateBackboneAtoms /\ IsNucleotide(ResNameOf(r))
FilterMask(f, rows) == [k \in DOMAIN rows |-> FilterPred(f, rows[k])]
Op_Filter(f, rows) == R("ok", FilterMask(f, rows), "bool")

(* check_backbone_continuity: among the backbone atoms (peptide or phosphate), those whose
   distance to the preceding BACKBONE atom is not a bond length.                           *)
IsBackbone(r) == FilterPred("filter_peptide_backbone", r) \/ FilterPred("filter_phosphate_backbone", r)
BackboneDecl(rows, pts, lim) ==
  {i \in 1..(Len(rows) - 1) :
     /\ IsBackbone(rows[i + 1])
     /\ \E j \in 0..(i - 1) :
          /\ IsBackbone(rows[j + 1])
          /\ \A m \in (j + 1)..(i - 1) : ~IsBackbone(rows[m + 1])
          /\ ~InBond(Dist2(pts[j + 1], pts[i + 1]), lim)}
BackboneImpl(rows, pts, lim) ==
  LET bb  == [k \in DOMAIN rows |-> IsBackbone(rows[k])]
      sub == Gather(pts, WhereTrue(bb))                       \* array[backbone_mask]
      dis == DisconFromCon(LinearImpl(sub, lim))              \* one entry too many when sub is empty:
      vals == IF Len(sub) = 0 THEN <<>> ELSE dis              \* numpy broadcasts it onto zero atoms
  IN WhereTrue(Scatter(bb, vals))
Op_CheckBackbone(rows, pts, lim) == R("ok", BackboneImpl(rows, pts, lim), "int")

(* ------------------------------------------------------------------ residues / chains
   re-stated from specs/C17/Segments.tla (ResidueChange, ChainChange, StartSet), on KeyOf rows *)
ResidueChange(a, b) == a[1] # b[1] \/ a[2] # b[2] \/ a[3] # b[3] \/ a[4] # b[4]
ChainChange(a, b)   == a[1] # b[1] \/ b[2] < a[2]
ResStartSet(keys)   == {i \in 0..(Len(keys) - 1) : i = 0 \/ ResidueChange(keys[i], keys[i + 1])}
ChainStartSet(keys) == {i \in 0..(Len(keys) - 1) : i = 0 \/ ChainChange(keys[i], keys[i + 1])}
\* get_residue_starts / get_chain_starts: [0] ++ (where(change mask) + 1); empty for no atoms
StartsImpl(keys, Change(_, _)) ==
  IF Len(keys) = 0 THEN <<>>
  ELSE <<0>> \o Shift1(WhereTrue([k \in 1..(Len(keys) - 1) |-> Change(keys[k], keys[k + 1])]))
ResStartsImpl(keys)   == StartsImpl(keys, ResidueChange)
ChainStartsImpl(keys) == StartsImpl(keys, ChainChange)
ResidueCount(keys)    == Len(ResStartsImpl(keys))             \* get_residue_count

(* filter_polymer(array, min_size=2, pol_type="peptide"):
   the array is split where the residue id is discontinuous (check_res_id_continuity; a chain
   id change alone does not split); a fragment is TRUE as a whole iff the atoms of the polymer
   type in it form at least min_size residues.  (The documentation says "atoms [that] belong to
   consecutive polymer entity"; that the other atoms of the fragment are TRUE as well is the
   code's behaviour, modelled as is.)                                                      *)
DefaultMinSize == 2
DefaultPolType == <<"p", "e", "p", "t", "i", "d", "e">>
PolClass(t) == IF Len(t) = 0 THEN "bad"
               ELSE CASE t[1] = "p" -> "p" [] t[1] = "n" -> "n" [] t[1] = "c" -> "c" [] OTHER -> "bad"
OfClass(cls, key) == CASE cls = "p" -> IsAmino(key[4]) [] cls = "n" -> IsNucleotide(key[4])
                       [] cls = "c" -> IsCarbohydrate(key[4])
IsPolymerSeg(keys, minSize, cls) ==
  ResidueCount(SelectSeq(keys, LAMBDA k : OfClass(cls, k))) >= minSize
\* the fragment of atom i: maximal run without residue id discontinuity
FragLo(keys, i) == LET D == DiscontDecl(Column(keys, 2)) IN Max({0} \cup {d \in D : d <= i})
FragHi(keys, i) == LET D == DiscontDecl(Column(keys, 2)) IN Min({Len(keys)} \cup {d \in D : d > i})   \* exclusive
PolymerDecl(keys, minSize, cls) ==
  [k \in 1..Len(keys) |-> IsPolymerSeg(SubSeq(keys, FragLo(keys, k - 1) + 1, FragHi(keys, k - 1)), minSize, cls)]
PolymerImpl(keys, minSize, cls) ==
  LET cuts == <<0>> \o DiscontImpl(Column(keys, 2)) \o <<Len(keys)>>          \* np.split
      Piece(p) == SubSeq(keys, cuts[p] + 1, cuts[p + 1])
  IN FoldLeft(LAMBDA acc, p : acc \o [j \in 1..Len(Piece(p)) |-> IsPolymerSeg(Piece(p), minSize, cls)],
              <<>>, [p \in 1..(Len(cuts) - 1) |-> p])
Dom_Polymer(keys, minSize) == Len(keys) >= 1 /\ minSize \in Int
Op_FilterPolymer(keys, minSize, polType) ==
  IF PolClass(polType) = "bad" THEN Rejected
  ELSE R("ok", PolymerImpl(keys, minSize, PolClass(polType)), "bool")

(* filter_intersection(array, intersect): TRUE where some atom of `intersect` agrees in every
   annotation category that both arrays have.                                               *)
CommonCats(hasA, hasB) == IF hasA /\ hasB THEN 1..8 ELSE 1..7
InterDecl(A, B, cats) == [i \in 1..Len(A) |-> \E j \in 1..Len(B) : SameAtom(A[i], B[j], cats)]
InterImpl(A, B, cats) ==
  LET catSeq == SortedSeq(cats)
      Sub(i) == FoldLeft(LAMBDA acc, c : [j \in 1..Len(B) |-> acc[j] /\ B[j][c] = A[i][c]],
                         [j \in 1..Len(B) |-> TRUE], catSeq)
  IN [i \in 1..Len(A) |-> \E j \in 1..Len(B) : Sub(i)[j]]
Op_FilterIntersection(A, hasA, B, hasB) == R("ok", InterImpl(A, B, CommonCats(hasA, hasB)), "bool")

(* filter_first_altloc(atoms, altloc_ids) / filter_highest_occupancy_altloc(atoms, altloc_ids,
   occupancies): per residue, keep the atoms without alternate location id and those of ONE id:
   the first letter id appearing in the residue / the letter id with the highest occupancy sum
   (ties: the first in sorted order, because the code requires a strictly higher sum).
   An altloc id is a Text of at most one character; occupancies are integers in units of 1/4.  *)
NoAltIds == {<<".">>, <<"?">>, <<" ">>, <<>>}
IsAlpha(ch) == \E i \in 1..26 : LowerChars[i] = ch \/ UpperChars[i] = ch
IsLetterId(t) == Len(t) >= 1 /\ \A k \in DOMAIN t : IsAlpha(t[k])                  \* str.isalpha
CharRank(ch) == IF \E i \in 1..26 : UpperChars[i] = ch THEN CHOOSE i \in 1..26 : UpperChars[i] = ch
                ELSE 26 + (CHOOSE i \in 1..26 : LowerChars[i] = ch)                \* code point order
ResLo(keys, i) == Max({s \in ResStartSet(keys) : s <= i})
ResHi(keys, i) == Min({Len(keys)} \cup {s \in ResStartSet(keys) : s > i})          \* exclusive
LetterAtoms(keys, alts, i) == {j \in (ResLo(keys, i) + 1)..ResHi(keys, i) : IsLetterId(alts[j])}  \* 1-based
FirstAltDecl(keys, alts) ==
  [k \in 1..Len(keys) |->
     \/ alts[k] \in NoAltIds
     \/ LET L == LetterAtoms(keys, alts, k - 1) IN L # {} /\ alts[k] = alts[Min(L)]]
OccSum(alts, occ, S, id) == SumSeq([j \in 1..Len(alts) |-> IF j \in S /\ alts[j] = id THEN occ[j] ELSE 0])
HighestDecl(keys, alts, occ) ==
  [k \in 1..Len(keys) |->
     \/ alts[k] \in NoAltIds
     \/ LET L == LetterAtoms(keys, alts, k - 1)
            ids == {alts[j] : j \in L}
            Better(a, b) == \/ OccSum(alts, occ, L, a) > OccSum(alts, occ, L, b)
                            \/ (OccSum(alts, occ, L, a) = OccSum(alts, occ, L, b) /\ CharRank(a[1]) <= CharRank(b[1]))
        IN L # {} /\ alts[k] = (CHOOSE a \in ids : \A b \in ids : Better(a, b))]
\* the code: one pass over get_residue_starts(atoms, add_exclusive_stop=True)
AltLoop(keys, alts, Pick(_, _)) ==
  LET ss == ResStartsImpl(keys) \o (IF Len(keys) = 0 THEN <<>> ELSE <<Len(keys)>>)
      base == [k \in 1..Len(keys) |-> alts[k] \in NoAltIds]            \* np.isin(altloc_ids, [".", "?", " ", ""])
  IN FoldLeft(LAMBDA m, p :
                LET start == ss[p]  stop == ss[p + 1]
                    letters == SelectSeq(SubSeq(alts, start + 1, stop), IsLetterId) IN
                IF Len(letters) = 0 THEN m
                ELSE LET id == Pick(start, stop) IN
                     [k \in DOMAIN m |-> IF k > start /\ k <= stop THEN m[k] \/ alts[k] = id ELSE m[k]],
              base, [p \in 1..(Len(ss) - 1) |-> p])
FirstAltImpl(keys, alts) ==
  AltLoop(keys, alts, LAMBDA start, stop : SelectSeq(SubSeq(alts, start + 1, stop), IsLetterId)[1])
HighestImpl(keys, alts, occ) ==
  AltLoop(keys, alts,
          LAMBDA start, stop :
            LET S == (start + 1)..stop
                ids == SetToSortSeq({alts[j] : j \in {q \in S : IsLetterId(alts[q])}},
                                    LAMBDA a, b : CharRank(a[1]) < CharRank(b[1]))
                best == FoldLeft(LAMBDA acc, id : IF OccSum(alts, occ, S, id) > acc[1]
                                                  THEN <<OccSum(alts, occ, S, id), id>> ELSE acc,
                                 <<-1, <<>>>>, ids)
            IN best[2])
Dom_Altloc(n, alts) == Len(alts) = n /\ \A k \in DOMAIN alts : Len(alts[k]) <= 1 /\ Dom_Text(alts[k])
Dom_Occ(n, occ) == Len(occ) = n /\ \A k \in DOMAIN occ : occ[k] >= 0
Op_FilterFirstAltloc(keys, alts) == R("ok", FirstAltImpl(keys, alts), "bool")
Op_FilterHighestOccupancy(keys, alts, occ) == R("ok", HighestImpl(keys, alts, occ), "bool")

(* ================================================================== repair.py *)
(* create_continuous_res_ids(atoms, restart_each_chain=True): residue ids that grow by one at
   every residue start; with restart_each_chain they restart at 1 at every chain start.      *)
DefaultRestart == TRUE
ContIdsDecl(keys, restart) ==
  LET RS == ResStartSet(keys)  CS == ChainStartSet(keys) IN
  [k \in 1..Len(keys) |->
     LET i == k - 1 IN
     IF restart THEN LET c == Max({s \in CS : s <= i}) IN 1 + Cardinality({s \in RS : c < s /\ s <= i})
     ELSE Cardinality({s \in RS : s <= i})]
ContIdsImpl(keys, restart) ==
  LET n == Len(keys)
      rs == ToSet(ResStartsImpl(keys))
      cum == CumSum([k \in 1..n |-> IF (k - 1) \in rs THEN 1 ELSE 0])
  IN IF ~restart THEN cum
     ELSE FoldLeft(LAMBDA ids, s : [k \in 1..n |-> IF k - 1 >= s THEN ids[k] - (ids[s + 1] - 1) ELSE ids[k]],
                   cum, ChainStartsImpl(keys))                 \* res_ids[start:] -= res_ids[start] - 1
Op_ContinuousResIds(keys, restart) == R("ok", ContIdsImpl(keys, restart), "int")

\* the residue ids written back (array.res_id = create_continuous_res_ids(array, ...))
WithResIds(keys, ids) == [k \in DOMAIN keys |-> <<keys[k][1], ids[k], keys[k][3], keys[k][4]>>]
\* repair, write back, check, repair again, on one live array:
\*   out = <<ids, check_res_id_continuity after writing, ids of the second repair>>
Op_RepairResIds(keys, restart) ==
  LET ids1 == ContIdsImpl(keys, restart)
      k2   == WithResIds(keys, ids1)
  IN R("ok", <<ids1, DiscontImpl(ids1), ContIdsImpl(k2, restart)>>, "int")

(* infer_elements: the element is guessed from the atom name.  The documentation gives examples
   only; the rule is the code's: digits are dropped, the rest is upper-cased; names starting
   with C, N, O, S or H are that element; otherwise the first two characters if they are an
   element symbol, else the first character if it is one, else "".                          *)
ElemSyms ==
  <<<<"H">>, <<"H", "E">>, <<"L", "I">>, <<"B", "E">>, <<"B">>, <<"C">>, <<"N">>, <<"O">>, <<"F">>,
    <<"N", "E">>, <<"N", "A">>, <<"M", "G">>, <<"A", "L">>, <<"S", "I">>, <<"P">>, <<"S">>, <<"C", "L">>,
    <<"A", "R">>, <<"K">>, <<"C", "A">>, <<"S", "C">>, <<"T", "I">>, <<"V">>, <<"C", "R">>,
    <<"M", "N">>, <<"F", "E">>, <<"C", "O">>, <<"N", "I">>, <<"C", "U">>, <<"Z", "N">>, <<"G", "A">>,
    <<"G", "E">>, <<"A", "S">>, <<"S", "E">>, <<"B", "R">>, <<"K", "R">>, <<"R", "B">>, <<"S", "R">>,
    <<"Y">>, <<"Z", "R">>, <<"N", "B">>, <<"M", "O">>, <<"T", "C">>, <<"R", "U">>, <<"R", "H">>,
    <<"P", "D">>, <<"A", "G">>, <<"C", "D">>, <<"I", "N">>, <<"S", "N">>, <<"S", "B">>, <<"T", "E">>, <<"I">>,
    <<"X", "E">>, <<"C", "S">>, <<"B", "A">>, <<"L", "A">>, <<"C", "E">>, <<"P", "R">>, <<"N", "D">>,
    <<"P", "M">>, <<"S", "M">>, <<"E", "U">>, <<"G", "D">>, <<"T", "B">>, <<"D", "Y">>, <<"H", "O">>,
    <<"E", "R">>, <<"T", "M">>, <<"Y", "B">>, <<"L", "U">>, <<"H", "F">>, <<"T", "A">>, <<"W">>,
    <<"R", "E">>, <<"O", "S">>, <<"I", "R">>, <<"P", "T">>, <<"A", "U">>, <<"H", "G">>, <<"T", "L">>,
    <<"P", "B">>, <<"B", "I">>, <<"P", "O">>, <<"A", "T">>, <<"R", "N">>, <<"F", "R">>, <<"R", "A">>,
    <<"A", "C">>, <<"T", "H">>, <<"P", "A">>, <<"U">>, <<"N", "P">>, <<"P", "U">>, <<"A", "M">>, <<"C", "M">>,
    <<"B", "K">>, <<"C", "F">>, <<"E", "S">>, <<"F", "M">>, <<"M", "D">>, <<"N", "O">>, <<"L", "R">>,
    <<"R", "F">>, <<"D", "B">>, <<"S", "G">>, <<"B", "H">>, <<"H", "S">>, <<"M", "T">>, <<"D", "S">>,
    <<"R", "G">>, <<"C", "N">>, <<"N", "H">>, <<"F", "L">>, <<"M", "C">>, <<"L", "V">>, <<"T", "S">>,
    <<"O", "G">>>>
ElemSet == ToSet(ElemSyms)
CommonFirst == {"C", "N", "O", "S", "H"}
Prefix(t, k) == SubSeq(t, 1, IF k < Len(t) THEN k ELSE Len(t))
GuessDecl(name) ==
  LET e == Upper(StripDigits(name)) IN
  IF e = <<>> THEN <<>>
  ELSE IF e[1] \in CommonFirst THEN <<e[1]>>
  ELSE LET cands == {p \in {Prefix(e, 1), Prefix(e, 2)} : p \in ElemSet} IN
       IF cands = {} THEN <<>> ELSE CHOOSE p \in cands : \A q \in cands : Len(q) <= Len(p)
\* _guess_element: list searches (_elements.index), first the two-character prefix, then the first character
IndexIn(seq, x) == IF \E k \in DOMAIN seq : seq[k] = x THEN Min({k \in DOMAIN seq : seq[k] = x}) ELSE 0
GuessImpl(name) ==
  LET e == Upper(SelectSeq(name, LAMBDA ch : ~IsDigit(ch))) IN
  IF Len(e) = 0 THEN <<>>
  ELSE IF e[1] = "C" \/ e[1] = "N" \/ e[1] = "O" \/ e[1] = "S" \/ e[1] = "H" THEN <<e[1]>>
  ELSE LET k2 == IndexIn(ElemSyms, Prefix(e, 2)) IN
       IF k2 > 0 THEN ElemSyms[k2]
       ELSE LET k1 == IndexIn(ElemSyms, <<e[1]>>) IN IF k1 > 0 THEN ElemSyms[k1] ELSE <<>>
Dom_Names(names) == \A k \in DOMAIN names : Dom_Text(names[k])
\* the dtype of an EMPTY result is not asserted (np.array([]) is float64; harmless, assignment converts)
Op_InferElements(names) ==
  R("ok", [k \in DOMAIN names |-> GuessImpl(names[k])], IF Len(names) = 0 THEN "any" ELSE "str")

(* create_atom_names: "<element><running number of that element>".                          *)
NamesDecl(elems) ==
  [i \in DOMAIN elems |-> elems[i] \o Dec(Cardinality({j \in 1..i : elems[j] = elems[i]}))]
NamesImpl(elems) ==                 \* Counter(), one pass
  LET zero == [e \in ToSet(elems) |-> 0]
      st == FoldLeft(LAMBDA acc, e : LET cnt == [acc.cnt EXCEPT ![e] = @ + 1]
                                     IN [cnt |-> cnt, out |-> Append(acc.out, e \o Dec(cnt[e]))],
                     [cnt |-> zero, out |-> <<>>], elems)
  IN st.out
\* the result array is "U6": longer names would be cut (not modelled: outside the domain)
Dom_Elements(elems) ==
  /\ \A k \in DOMAIN elems : Dom_Text(elems[k]) /\ Len(elems[k]) + Len(Dec(Len(elems))) <= 6
Op_CreateAtomNames(elems) == R("ok", NamesImpl(elems), "str")
\* name the atoms, write the names back, infer the elements from them: out = <<names, elements>>
Op_NamesRoundTrip(elems) ==
  LET nm == NamesImpl(elems) IN
  R("ok", <<nm, [k \in DOMAIN nm |-> GuessImpl(nm[k])]>>, IF Len(elems) = 0 THEN "any" ELSE "str")

(* ================================================================== dispatch *)
(* inp: record holding what the call reads; a: argument tuple (<<>> = all defaults).        *)
Ops == {"check_atom_id_continuity", "check_res_id_continuity", "check_duplicate_atoms",
        "filter_linear_bond_continuity", "check_linear_continuity", "check_backbone_continuity",
        "filter_polymer", "filter_intersection", "create_continuous_res_ids", "repair_res_ids",
        "infer_elements", "create_atom_names", "names_roundtrip",
        "filter_first_altloc", "filter_highest_occupancy_altloc"} \cup AtomFilters
LimOf(a) == IF Len(a) = 0 THEN DefaultLim ELSE a[1]
Apply(op, inp, a) ==
  CASE op = "check_atom_id_continuity" -> Op_CheckAtomId(inp.rows, inp.hasId)
    [] op = "check_res_id_continuity"  -> Op_CheckResId(inp.rows)
    [] op = "check_duplicate_atoms"    -> Op_CheckDuplicates(inp.rows, inp.hasId)
    [] op = "filter_linear_bond_continuity" -> Op_FilterLinear(inp.pts, LimOf(a))
    [] op = "check_linear_continuity"  -> Op_CheckLinear(inp.pts, LimOf(a))
    [] op = "check_backbone_continuity" -> Op_CheckBackbone(inp.rows, inp.pts, LimOf(a))
    [] op = "filter_polymer" ->
         IF Len(a) = 0 THEN Op_FilterPolymer(KeysOf(inp.rows), DefaultMinSize, DefaultPolType)
         ELSE Op_FilterPolymer(KeysOf(inp.rows), a[1], a[2])
    [] op = "filter_intersection" -> Op_FilterIntersection(inp.rows, inp.hasId, inp.rowsB, inp.hasIdB)
    [] op = "create_continuous_res_ids" ->
         Op_ContinuousResIds(KeysOf(inp.rows), IF Len(a) = 0 THEN DefaultRestart ELSE a[1])
    [] op = "repair_res_ids" ->
         Op_RepairResIds(KeysOf(inp.rows), IF Len(a) = 0 THEN DefaultRestart ELSE a[1])
    [] op = "infer_elements"    -> Op_InferElements(Column(inp.rows, 5))
    [] op = "create_atom_names" -> Op_CreateAtomNames(Column(inp.rows, 6))
    [] op = "names_roundtrip"   -> Op_NamesRoundTrip(Column(inp.rows, 6))
    [] op = "filter_first_altloc" -> Op_FilterFirstAltloc(KeysOf(inp.rows), a[1])
    [] op = "filter_highest_occupancy_altloc" -> Op_FilterHighestOccupancy(KeysOf(inp.rows), a[1], a[2])
    [] op \in AtomFilters       -> Op_Filter(op, inp.rows)

\* the domain the check quantifies over, per call (generators of S2 and S3 stay inside)
Dom_Call(op, inp, a) ==
  CASE op \in {"filter_linear_bond_continuity", "check_linear_continuity"} ->
         Len(inp.pts) = Len(inp.rows) /\ Dom_Lim(inp.pts, LimOf(a))
    [] op = "check_backbone_continuity" -> Len(inp.pts) = Len(inp.rows) /\ Dom_Lim(inp.pts, LimOf(a))
    [] op = "filter_polymer" -> Dom_Polymer(KeysOf(inp.rows), IF Len(a) = 0 THEN DefaultMinSize ELSE a[1])
    [] op = "infer_elements" -> Dom_Names(Column(inp.rows, 5))
    [] op \in {"create_atom_names", "names_roundtrip"} -> Dom_Elements(Column(inp.rows, 6))
    [] op = "filter_first_altloc" -> Len(a) = 1 /\ Dom_Altloc(Len(inp.rows), a[1])
    [] op = "filter_highest_occupancy_altloc" ->
         Len(a) = 2 /\ Dom_Altloc(Len(inp.rows), a[1]) /\ Dom_Occ(Len(inp.rows), a[2])
    [] OTHER -> TRUE

(* ------------------------------------------------------------------ live arrays (recorded sessions)
   The functions are pure; a user repairs an array by writing the result back.  These are the
   writes the recorded sessions perform between calls.                                       *)
Writes == {"apply_res_ids", "apply_elements", "apply_atom_names", "set"}
ApplyWrite(rows, w, a) ==
  CASE w = "apply_res_ids"    -> SetColumn(rows, 2, ContIdsImpl(KeysOf(rows), a[1]))
    [] w = "apply_elements"   -> SetColumn(rows, 6, [k \in DOMAIN rows |-> GuessImpl(rows[k][5])])
    [] w = "apply_atom_names" -> SetColumn(rows, 5, NamesImpl(Column(rows, 6)))
    [] w = "set"              -> [rows EXCEPT ![a[1] + 1][a[2]] = a[3]]       \* array.<field>[i] = v
Dom_Write(rows, w, a) ==
  CASE w = "apply_elements"   -> Dom_Names(Column(rows, 5))
    [] w = "apply_atom_names" -> Dom_Elements(Column(rows, 6))
    [] w = "set"              -> a[1] \in 0..(Len(rows) - 1) /\ a[2] \in 1..NCols
    [] OTHER -> TRUE

(* ================================================================== laws (S1) *)
Law_Discont(ids) ==
  /\ DiscontImpl(ids) = SortedSeq(DiscontDecl(ids))
  /\ StrictlyAscending(DiscontImpl(ids))
  /\ \A k \in DOMAIN DiscontImpl(ids) : DiscontImpl(ids)[k] \in 1..(Len(ids) - 1)

\* dropping the reported duplicates leaves an array without duplicates, and keeps every distinct atom
Law_Duplicates(rows, cats) ==
  LET D == DupDecl(rows, cats)
      kept == SelectSeq(Idx0(Len(rows)), LAMBDA i : i \notin D)
      rest == Gather(rows, kept)
  IN /\ DupImpl(rows, cats) = SortedSeq(D)
     /\ DupDecl(rest, cats) = {}
     /\ \A i \in 0..(Len(rows) - 1) : \E k \in DOMAIN rest : SameAtom(rest[k], rows[i + 1], cats)

Law_Linear(pts, lim) ==
  /\ Len(pts) >= 1 => LinearImpl(pts, lim) = LinearDecl(pts, lim)
  /\ CheckLinearImpl(pts, lim) = SortedSeq(CheckLinearDecl(pts, lim))
  \* the check reports exactly the atoms behind a FALSE of the filter
  /\ CheckLinearDecl(pts, lim) = {i \in 1..(Len(pts) - 1) : ~LinearDecl(pts, lim)[i]}
\* the code-shaped filter has one entry too many on an array without atoms (finding X05-linear-empty)
ASSUME LinearImpl(<<>>, DefaultLim) = <<TRUE>> /\ LinearDecl(<<>>, DefaultLim) = <<>>

Law_Backbone(rows, pts, lim) ==
  /\ BackboneImpl(rows, pts, lim) = SortedSeq(BackboneDecl(rows, pts, lim))
  \* on an array of backbone atoms only it is the linear check
  /\ (\A k \in DOMAIN rows : IsBackbone(rows[k])) => BackboneDecl(rows, pts, lim) = CheckLinearDecl(pts, lim)

Law_Filters(r) ==
  /\ FilterPred("filter_peptide_backbone", r) => FilterPred("filter_amino_acids", r)
  /\ FilterPred("filter_phosphate_backbone", r) => FilterPred("filter_nucleotides", r)
  /\ ~(FilterPred("filter_amino_acids", r) /\ FilterPred("filter_nucleotides", r))
  /\ ~(FilterPred("filter_peptide_backbone", r) /\ FilterPred("filter_phosphate_backbone", r))
  \* every canonical residue the dictionary knows has the matching type
  /\ (FilterPred("filter_canonical_amino_acids", r) /\ ResNameOf(r) \in DOMAIN CCDType) => FilterPred("filter_amino_acids", r)
  /\ (FilterPred("filter_canonical_nucleotides", r) /\ ResNameOf(r) \in DOMAIN CCDType) => FilterPred("filter_nucleotides", r)
  /\ FilterPred("filter_solvent", r) => ~FilterPred("filter_amino_acids", r) /\ ~FilterPred("filter_nucleotides", r)

Law_Polymer(keys, minSize, cls) ==
  LET m == PolymerDecl(keys, minSize, cls) IN
  /\ PolymerImpl(keys, minSize, cls) = m
  /\ minSize <= 0 => \A k \in DOMAIN m : m[k]
  /\ \A k \in DOMAIN m : PolymerDecl(keys, minSize + 1, cls)[k] => m[k]           \* monotone
  \* constant on runs without residue id discontinuity
  /\ \A k \in 1..(Len(keys) - 1) : ContStep(keys[k + 1][2] - keys[k][2]) => m[k] = m[k + 1]

Law_Intersection(A, hasA, B, hasB) ==
  LET cats == CommonCats(hasA, hasB) IN
  /\ InterImpl(A, B, cats) = InterDecl(A, B, cats)
  /\ \A k \in DOMAIN A : InterDecl(A, A, Cats(hasA))[k]
  /\ \A k \in DOMAIN A : ~InterDecl(A, <<>>, cats)[k]
  \* an atom is a duplicate iff it is found among the atoms before it
  /\ \A i \in 1..(Len(A) - 1) : (i \in DupDecl(A, Cats(hasA))) = InterDecl(A, SubSeq(A, 1, i), Cats(hasA))[i + 1]

\* chain starts with a chain id change (the only ones that survive writing restarted ids back)
Dom_ChainsById(keys) == \A s \in ChainStartSet(keys) : s = 0 \/ keys[s][1] # keys[s + 1][1]
Law_ContIds(keys) ==
  LET plain == ContIdsDecl(keys, FALSE)  rst == ContIdsDecl(keys, TRUE)
      kp == WithResIds(keys, plain)      kr == WithResIds(keys, rst) IN
  /\ ContIdsImpl(keys, FALSE) = plain /\ ContIdsImpl(keys, TRUE) = rst
  /\ ToSet(ResStartsImpl(keys)) = ResStartSet(keys) /\ ToSet(ChainStartsImpl(keys)) = ChainStartSet(keys)
  /\ ChainStartSet(keys) \subseteq ResStartSet(keys)
  \* without restart: starts at 1, grows by one exactly at the residue starts, passes the check,
  \* keeps the residues, is idempotent
  /\ Len(keys) > 0 => plain[1] = 1 /\ rst[1] = 1
  /\ \A k \in 1..(Len(keys) - 1) : plain[k + 1] - plain[k] = (IF k \in ResStartSet(keys) THEN 1 ELSE 0)
  /\ DiscontDecl(plain) = {}
  /\ ResStartSet(kp) = ResStartSet(keys)
  /\ ContIdsDecl(kp, FALSE) = plain
  \* with restart: 1 at every chain start, +1 at the other residue starts; the check reports
  \* chain starts only; residues can merge but never split
  /\ \A k \in 1..Len(keys) : (k - 1) \in ChainStartSet(keys) => rst[k] = 1
  /\ \A k \in 1..(Len(keys) - 1) :
       k \notin ChainStartSet(keys) => rst[k + 1] - rst[k] = (IF k \in ResStartSet(keys) THEN 1 ELSE 0)
  /\ DiscontDecl(rst) \subseteq ChainStartSet(keys)
  /\ ResStartSet(kr) \subseteq ResStartSet(keys)
  /\ Dom_ChainsById(keys) => (ContIdsDecl(kr, TRUE) = rst /\ ResStartSet(kr) = ResStartSet(keys))
\* with restart the repair is NOT idempotent when a chain starts by a residue id decrease only:
\* (A,5,X)(A,3,Y) -> [1,1] -> [1,2]
ASSUME LET k == <<<<<<"A">>, 5, <<>>, <<"X">>>>, <<<<"A">>, 3, <<>>, <<"Y">>>>>> IN
       /\ ContIdsImpl(k, TRUE) = <<1, 1>>
       /\ ContIdsImpl(WithResIds(k, <<1, 1>>), TRUE) = <<1, 2>>

Law_Guess(name) ==
  LET g == GuessImpl(name)  e == Upper(StripDigits(name)) IN
  /\ g = GuessDecl(name)
  /\ g = <<>> \/ g \in ElemSet
  /\ g = Prefix(e, Len(g))
  /\ GuessImpl(StripDigits(name)) = g /\ GuessImpl(Upper(name)) = g
\* elements whose generated names give the element back
RoundTripSafe(el) == el \in ElemSet /\ (Len(el) = 1 \/ el[1] \notin CommonFirst)
Law_Names(elems) ==
  LET nm == NamesImpl(elems) IN
  /\ nm = NamesDecl(elems)
  /\ Len(nm) = Len(elems)
  \* unique within the array when no element text ends in a digit
  /\ (\A k \in DOMAIN elems : elems[k] = <<>> \/ ~IsDigit(elems[k][Len(elems[k])])) =>
       \A i, j \in DOMAIN nm : nm[i] = nm[j] => i = j
  /\ \A k \in DOMAIN elems : RoundTripSafe(elems[k]) => GuessImpl(nm[k]) = elems[k]

\* altloc filters: code-shaped = per-atom; atoms without id are kept; of the letter ids of a residue
\* exactly one survives; with a single letter id per residue both filters keep every letter atom;
\* filtering the filtered array changes nothing when every id is "no id" or a letter
Dom_AltIdsClean(alts) == \A k \in DOMAIN alts : alts[k] \in NoAltIds \/ IsLetterId(alts[k])
Law_Altloc(keys, alts, occ) ==
  LET f == FirstAltDecl(keys, alts)  h == HighestDecl(keys, alts, occ)
      Survivors(m, i) == {alts[j] : j \in {q \in LetterAtoms(keys, alts, i) : m[q]}}
      kept == WhereTrue(f)
  IN /\ FirstAltImpl(keys, alts) = f /\ HighestImpl(keys, alts, occ) = h
     /\ \A k \in DOMAIN alts : alts[k] \in NoAltIds => f[k] /\ h[k]
     /\ \A i \in 0..(Len(keys) - 1) :
          LET n == IF LetterAtoms(keys, alts, i) = {} THEN 0 ELSE 1 IN
          /\ Cardinality(Survivors(f, i)) = n /\ Cardinality(Survivors(h, i)) = n
          /\ Cardinality({alts[j] : j \in LetterAtoms(keys, alts, i)}) = 1 =>
               \A j \in LetterAtoms(keys, alts, i) : f[j] /\ h[j]
     /\ Dom_AltIdsClean(alts) =>
          \A k \in DOMAIN kept : FirstAltDecl(Gather(keys, kept), Gather(alts, kept))[k]
\* docstring example: one residue, CA without id, CB twice with ids A and B; occupancies 1.0 / 0.1 / 0.9
\* (here 4/4, 1/4, 3/4)
ASSUME LET k == <<<<<<"A">>, 1, <<>>, <<"X">>>>, <<<<"A">>, 1, <<>>, <<"X">>>>, <<<<"A">>, 1, <<>>, <<"X">>>>>>
           al == <<<<".">>, <<"A">>, <<"B">>>> IN
       /\ FirstAltImpl(k, al) = <<TRUE, TRUE, FALSE>>
       /\ HighestImpl(k, al, <<4, 1, 3>>) = <<TRUE, FALSE, TRUE>>

(* examples of the docstrings *)
ASSUME [k \in 1..7 |-> GuessImpl(<<<<"C", "A">>, <<"C">>, <<"C", "1">>, <<"O", "D", "1">>, <<"H", "D", "2", "1">>,
                                   <<"1", "H">>, <<"F", "E">>>>[k])]
       = <<<<"C">>, <<"C">>, <<"C">>, <<"O">>, <<"H">>, <<"H">>, <<"F", "E">>>>
ASSUME NamesImpl(<<<<"N">>, <<"C">>, <<"O">>, <<"N">>, <<"C">>, <<"O">>, <<"C">>, <<"C">>, <<"H">>, <<"H">>, <<"H">>, <<"H">>>>)
       = <<<<"N", "1">>, <<"C", "1">>, <<"O", "1">>, <<"N", "2">>, <<"C", "2">>, <<"O", "2">>, <<"C", "3">>,
           <<"C", "4">>, <<"H", "1">>, <<"H", "2">>, <<"H", "3">>, <<"H", "4">>>>
\* filter_linear_bond_continuity: C1-C2-C4 in a row, C3 bonded to C2, order [C1, C2, C4, C3]
ASSUME LinearDecl(<<<<0, 0, 0>>, <<6, 0, 0>>, <<12, 0, 0>>, <<6, 6, 0>>>>, DefaultLim) = <<TRUE, TRUE, FALSE, TRUE>>
ASSUME DiscontImpl(<<1, 2, 3, 4, 6, 7>>) = <<4>> /\ DiscontImpl(<<1, 2, 1, 1>>) = <<2>>
ASSUME Dec(0) = <<"0">> /\ Dec(12) = <<"1", "2">> /\ Dec(305) = <<"3", "0", "5">>
=============================================================================
