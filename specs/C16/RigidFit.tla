------------------------------- MODULE RigidFit -------------------------------
(* C16, exhaustive model.  A case is <<kind, payload>>:

   "fit"    <<P, gi, ti, mask, noise, fd, md, ff, mf, hs, kf>>
            P a lattice point set; the fixed structure(s) and the mobile structure(s) are
            rigid images of P:   fixed model j  = ProperSeq-rotation/translation number j of P
                                 mobile model j = GroupSeq[gi + 7(j-1)] . P + translation, plus
                                 an integer displacement `noise` of its first atom;
            fd, md = 0 (array) or the stack depth; mask = <<>> or <<sequence of BOOLEANs>>;
            ff, mf = the FORM (RigidFitOps!Forms: dtype / memory layout / container) in which
            the fixed / mobile coordinates are handed over; hs = 1: the fixed structure is
            displaced by (1/2, 1/2, 1/2) - a rigid motion's translation is a real vector, an
            integer grid is in general fitted onto off-grid positions.  The witness bound is
            invariant under translations (claim), so W needs no half ticks.
            kf = the FORM of the selection (RigidFitOps!MaskForms: boolean ndarray / list,
            integer index array of either width, unsorted, list of ints; "none" without a
            selection).  The selected SET of atoms, and with it every expected value, does not
            depend on kf.
            Expected: the broadcasting outcome, and for every transformation k the lattice
            witness bound W_k on the masked atoms and whether the whole fitted model must
            coincide with the fixed one.
   "affine" <<cs, gis, ts, X, depth, form, den, tform, rform>>  AffineTransformation(cs / den,
            rotations, ts / den) applied to the coordinates X (depth 0) or to `depth` translated
            copies of X handed over in `form`, and its 4x4 form.  Expected images and matrices
            are numerators over den; tform = dtype of the two translation arrays, rform = dtype of
            the rotation array (a lattice rotation is an integer matrix - the class docstring
            writes it with ints -, whatever the translations are).
   "hist"   <<cs, gis, ts, X, depth, ops, form, den, tform, rform>>  a HISTORY on one transformation
            object: accessor calls, edits of returned arrays, edits of the attributes
            (RigidFitOps: histories).  Expected: after every step the attributes and, for
            accessors, the result - a function of the current attributes only.
   "anch"   <<op, sF, sM, P, gi, ti, outl, minA, maxit, form>>  inputs of the outlier-tolerant
            (op = "outliers") and homolog (op = "homologs") variants: CA trace P, residue
            names sF / sM, rigid motion, displaced residues outl = <<<<k, d>>, ...>>.
            Expected: the anchor path (fallback / identity / Rejected / open), the
            coordinates, whether outlier removal is switched off.  The reported anchors of the
            execution are judged by Trace.tla (W on exactly the reported anchors).

   "far"    <<P, C, qs, t, nz, mask, fd, md, ff, mf, kf>>  motions off the lattice (RigidFitOps: integer
            quaternions): fixed = C + P (C may lie far from the origin), mobile model j =
            C + R(qs[j]) P + t (+ noise nz on its first atom); t = <<x, y, z, den>> and
            nz = <<x, y, z, den>> are rationals.  Expected: for every transformation the
            generating motion's inverse as a rational AffineTransformation (the WITNESS
            placement), its exact mean squared deviation over the masked atoms, the rounding
            allowance in ulps and the ulp exponent of the coordinate magnitude.

   "big"    <<blocks, gi, ti, fd, md, ff, mf, sel, kf>>  LARGE structures, run-length encoded (RigidFitOps:
            large structures): blocks[b] = <<point set, count, scale, offset, displacement d_b>>;
            fixed = the tiled blocks, mobile model j = g_j (fixed + d_b) + t_j.  Expected: the
            block cycles of fixed and mobile, the counts, and the exact mean squared deviation of
            the witness placement "g^-1, centroids aligned" (0 for an exact rigid copy).
            sel = <<>> or <<one BOOLEAN per block>>: a selection of whole blocks, handed over in
            the form kf; witness and deviation are then those of the selected atoms.

   S1 claims are listed in Evaluate. *)
EXTENDS RigidFitOps, SequencesExt

CONSTANT Tier

PermSeq == <<<<1, 2, 3>>, <<1, 3, 2>>, <<2, 1, 3>>, <<2, 3, 1>>, <<3, 1, 2>>, <<3, 2, 1>>>>
SignSeq == <<<<1, 1, 1>>, <<1, 1, -1>>, <<1, -1, 1>>, <<1, -1, -1>>, <<-1, 1, 1>>, <<-1, 1, -1>>, <<-1, -1, 1>>, <<-1, -1, -1>>>>
GroupSeq == EagerSeq([i \in 1..48 |-> SignedPerm(PermSeq[((i - 1) \div 8) + 1], SignSeq[((i - 1) % 8) + 1])])
ASSUME {GroupSeq[i] : i \in 1..48} = SignedPerms
ProperIdx == SeqOfSet({i \in 1..48 : Det(GroupSeq[i]) = 1})
ASSUME Len(ProperIdx) = 24
TransSeq == <<<<0, 0, 0>>, <<1, -2, 3>>, <<-4, 0, 1>>, <<2, 2, -5>>, <<0, 7, -1>>>>

FixedModel(P, j) ==      \* j = 1: P itself; further models: other proper images of P
  IF j = 1 THEN P ELSE RigidSeq(GroupSeq[ProperIdx[((5 * j) % 24) + 1]], TransSeq[(j % 5) + 1], P)
MobileG(gi, j) == GroupSeq[((gi - 1 + 7 * (j - 1)) % 48) + 1]
MobileModel(P, gi, ti, noise, j) ==
  LET M == RigidSeq(MobileG(gi, j), TransSeq[((ti + j) % 5) + 1], P)
  IN [k \in DOMAIN M |-> IF k = 1 THEN VAdd(M[1], noise) ELSE M[k]]

EvalFit(c) ==
  LET P == c[1]  gi == c[2]  ti == c[3]  mask == c[4]  noise == c[5]  fd == c[6]  md == c[7]
      ff == c[8]  mf == c[9]  hs == c[10]  kf == c[11]
      n  == Len(P)
      A  == MaskSet(mask, n)
      bc == Broadcast(fd, md)
      F  == EagerSeq([j \in 1..ModelCount(fd) |-> FixedModel(P, j)])
      M  == EagerSeq([j \in 1..ModelCount(md) |-> MobileModel(P, gi, ti, noise, j)])
      nT == IF bc[1] = "Rejected" THEN 0 ELSE bc[2]
      W  == EagerSeq([k \in 1..nT |-> WitnessBoundOn(F[FixedOf(k, fd)], M[MobileOf(k, md)], A)])
      proper(k) == Det(MobileG(gi, MobileOf(k, md))) = 1
      clean == noise = Zero3
      rk == Rank(Sub(P, A))
      whole == EagerSeq([k \in 1..nT |-> clean /\ proper(k) /\ rk >= 2])
  IN << <<bc[1], nT, bc[3], [k \in 1..nT |-> <<W[k][1], W[k][2], whole[k]>>], F, M,
          SeqOfSet({a - 1 : a \in A}), rk>>,
        << \* a proper rigid copy can be superimposed exactly (on every subset of the atoms)
           \A k \in 1..nT : (clean /\ proper(k)) => W[k][1] = 0,
           \* mirror-ambiguous sets: a mirrored copy of a planar / collinear / single-location
           \* set is also a proper rigid copy.  Among the lattice witnesses this shows whenever
           \* the set lies in a mirror plane of the cube group (for other planes the proper
           \* motion exists too, but is not a lattice rotation: W is then only an upper bound)
           \A k \in 1..nT : (clean /\ InLatticeMirror(Sub(P, A))) => W[k][1] = 0,
           \* a mirrored copy of a set of rank 3 is not (atoms are paired by index, so even a
           \* set with a mirror symmetry cannot be matched: a reflection fixing every atom
           \* needs all atoms in one plane)
           \A k \in 1..nT : (clean /\ ~proper(k) /\ rk = 3) => W[k][1] > 0,
           \* the witness is attained by a proper rotation
           \* (= WitnessRot(..) \in Proper, with the bound W[k] already computed above)
           \A k \in 1..nT : \E h \in Proper : ScaledDev(Sub(F[FixedOf(k, fd)], A), Sub(M[MobileOf(k, md)], A), h) = W[k][1],
           \* the coordinates are representable in the chosen forms
           Dom_Form(mf, M, 1) /\ Dom_Form(ff, F, 1) /\ (hs = 1 => ~IntForm(ff)),
           \* the selection is well-formed in its form (non-empty set of positions; no form without a selection)
           Dom_MaskForm(kf, mask, n),
           \* W does not depend on where the fixed structure lies: in half ticks, fixed displaced
           \* by (1/2, 1/2, 1/2) (every scaled deviation is multiplied by 4)
           (hs = 1 /\ nT >= 1) =>
              WitnessBoundOn([k \in 1..n |-> VAdd(VScale(2, F[1][k]), <<1, 1, 1>>)], [k \in 1..n |-> VScale(2, M[1][k])], A)[1] = 4 * W[1][1] >> >>

AffModels(X, depth) == [j \in 1..ModelCount(depth) |-> [k \in DOMAIN X |-> VAdd(X[k], <<j - 1, 2 * (j - 1), 0>>)]]
EvalAffine(c) ==
  LET cs == c[1]  gis == c[2]  ts == c[3]  X == c[4]  depth == c[5]  form == c[6]  den == c[7]  tform == c[8]  rform == c[9]
      Ts == [k \in DOMAIN cs |-> Xf(cs[k], GroupSeq[gis[k]], ts[k])]
      oc == ApplyOutcome(Len(cs), depth)
      mods == AffModels(X, depth)
      res == IF oc = "ok" THEN ApplyModels(Ts, ScaleModels(den, mods)) ELSE <<>>
  IN << <<oc, res, [k \in DOMAIN cs |-> Mat4Tup(AsMatrixScaled(Ts[k], den))], mods, [k \in DOMAIN cs |-> GroupSeq[gis[k]]]>>,
        << \* the 4x4 form applied to (x, 1) is apply(x)   (numerators over den)
           \A k \in DOMAIN cs : \A i \in DOMAIN X :
              LET a == ApplyXf(Ts[k], VScale(den, X[i])) IN
              Tup4(Mat4Vec(AsMatrixScaled(Ts[k], den), X[i])) = <<a[1], a[2], a[3], den>>,
           \* apply is x |-> R x + (R c + t): distances are preserved
           \A k \in DOMAIN cs : \A i, j \in DOMAIN X :
              Dist2(ApplyXf(Ts[k], X[i]), ApplyXf(Ts[k], X[j])) = Dist2(X[i], X[j]),
           \* integer constructor arrays cannot hold half ticks; the rotation is an integer matrix
           \* and can be held in every numeric dtype
           tform = "i64" => den = 1,
           rform \in ToSet(RForms) /\ \A k \in DOMAIN gis : IntMatrix(GroupSeq[gis[k]]) >> >>

(* ------------------------------------------------------------------ histories *)
HistRun(Ts0, ops, mods, den) ==
  FoldLeft(LAMBDA acc, op :
             LET Ts == HistEdit(acc.Ts, op) IN
             [Ts |-> Ts,
              steps |-> Append(acc.steps,
                 [op |-> op, c |-> [j \in DOMAIN Ts |-> Ts[j].c], R |-> [j \in DOMAIN Ts |-> Ts[j].R],
                  t |-> [j \in DOMAIN Ts |-> Ts[j].t], res |-> HistResult(Ts, op, mods, den)])],
           [Ts |-> Ts0, steps |-> <<>>], ops).steps
AccessorResults(steps) == LET a == SelectSeq(steps, LAMBDA s : IsAccessor(s.op)) IN [i \in DOMAIN a |-> a[i].res]
EvalHist(c) ==
  LET cs == c[1]  gis == c[2]  ts == c[3]  X == c[4]  depth == c[5]  ops == c[6]  form == c[7]  den == c[8]  tform == c[9]  rform == c[10]
      Ts0 == [k \in DOMAIN cs |-> Xf(cs[k], GroupSeq[gis[k]], ts[k])]
      mods == AffModels(X, depth)
      steps == HistRun(Ts0, ops, mods, den)
      noscr == SelectSeq(ops, LAMBDA o : o # "scr")
  IN << <<steps, mods, [k \in DOMAIN cs |-> GroupSeq[gis[k]]]>>,
        << \* at every point of the history the matrix form of the CURRENT attributes is apply
           \A s \in DOMAIN steps : \A k \in DOMAIN cs : \A i \in DOMAIN X :
              LET T == Xf(steps[s].c[k], steps[s].R[k], steps[s].t[k])  a == ApplyXf(T, VScale(den, X[i])) IN
              Tup4(Mat4Vec(AsMatrixScaled(T, den), X[i])) = <<a[1], a[2], a[3], den>>,
           \* what the caller does with returned arrays is invisible: the accessor results of the
           \* history are those of the history without the "scr" steps
           AccessorResults(steps) = AccessorResults(HistRun(Ts0, noscr, mods, den)),
           \* accessors do not change the attributes
           \A s \in DOMAIN steps : IsAccessor(steps[s].op) =>
              LET prev == IF s = 1 THEN [c |-> cs, R |-> [k \in DOMAIN cs |-> GroupSeq[gis[k]]], t |-> ts] ELSE steps[s - 1] IN
              steps[s].c = prev.c /\ steps[s].R = prev.R /\ steps[s].t = prev.t,
           ApplyOutcome(Len(cs), depth) = "ok" /\ (tform = "i64" => den = 1),
           rform \in ToSet(RForms) /\ \A s \in DOMAIN steps : \A k \in DOMAIN cs : IntMatrix(steps[s].R[k]) >> >>

(* ------------------------------------------------------------------ anchors *)
Displace(M, outl) ==
  [k \in DOMAIN M |-> LET hit == SelectSeq(outl, LAMBDA o : o[1] = k) IN IF hit = <<>> THEN M[k] ELSE VAdd(M[k], hit[1][2])]
EvalAnch(c) ==
  LET op == c[1]  sF == c[2]  sM == c[3]  P == c[4]  gi == c[5]  ti == c[6]  outl == c[7]  minA == c[8]  maxit == c[9]  form == c[10]
      nF == IF op = "homologs" THEN Len(sF) ELSE Len(P)
      nM == IF op = "homologs" THEN Len(sM) ELSE Len(P)
      F  == SubSeq(P, 1, nF)
      M0 == RigidSeq(GroupSeq[gi], TransSeq[(ti % 5) + 1], SubSeq(P, 1, nM))
      M  == Displace(M0, outl)
      moved == {outl[i][1] : i \in DOMAIN outl}
      path == IF op = "homologs" THEN HomologPath(sF, sM, minA) ELSE "outliers"
      byPos == op = "outliers" \/ PairedByPosition(path)
      proper == Det(GroupSeq[gi]) = 1
  IN << <<path, F, M, Cardinality(PosPairs(sF, sM)), maxit = 1, SeqOfSet({k - 1 : k \in moved})>>,
        << \A i \in DOMAIN outl : outl[i][1] \in 1..nM,
           nF <= Len(P) /\ nM <= Len(P) /\ minA >= 1,
           byPos => nF = nM,
           Dom_Form(form, <<F, M>>, 1) /\ (op = "homologs" => form = "atoms"),
           \* dropping exactly the displaced atoms leaves a rigid copy: that anchor selection admits an
           \* exact fit; keeping a displaced atom does not (when at least 3 further atoms pin the motion)
           (byPos /\ proper /\ (1..nM) \ moved # {}) => WitnessBoundOn(F, M, (1..nM) \ moved)[1] = 0,
           (byPos /\ proper /\ moved # {} /\ Rank(Sub(F, (1..nM) \ moved)) = 3 /\ \A i \in DOMAIN outl : outl[i][2] # Zero3)
               => WitnessBoundOn(F, M, 1..nM)[1] > 0 >> >>

(* ------------------------------------------------------------------ motions off the lattice *)
MaxAbs3(v) == MaxI(Abs(v[1]), MaxI(Abs(v[2]), Abs(v[3])))
EvalFar(c) ==
  LET P == c[1]  C == c[2]  qs == c[3]  t == c[4]  nz == c[5]  mask == c[6]  fd == c[7]  md == c[8]  ff == c[9]  mf == c[10]  kf == c[11]
      n  == Len(P)
      A  == MaskSet(mask, n)
      bc == Broadcast(fd, md)
      nT == bc[2]
      F  == [k \in 1..n |-> VAdd(C, P[k])]
      \* numerators (over QD(qs[j])) of the rotation's displacement R P_k - P_k
      off == [j \in DOMAIN qs |-> [k \in 1..n |-> MatVec(QE(qs[j]), P[k])]]
      W  == FarWitnessMsd(nz, A)
      \* an upper bound of every coordinate magnitude (a rotation about C moves no atom further
      \* than twice its distance from C)
      mag == MaxAbs3(C) + 4 * SetMax({MaxAbs3(P[k]) : k \in 1..n}) + MaxAbs3(t) + MaxAbs3(nz) + 1
  IN << <<nT, bc[3], F, off, [j \in DOMAIN qs |-> QD(qs[j])], [j \in DOMAIN qs |-> FarWitness(qs[j], C, t)],
          SeqOfSet({a - 1 : a \in A}), W, FarAllowUlps(Cardinality(A)), UlpExp(mag)>>,
        << \* the witness placement is the inverse of the generating motion: R^T R = I
           \A j \in DOMAIN qs : InverseLaw(qs[j]),
           \* an exact rigid copy admits a placement without any deviation
           nz = <<0, 0, 0, 1>> => W[1] = 0,
           \* a displaced atom outside the mask does not count
           (1 \notin A) => W[1] = 0,
           bc[1] = "ok" /\ Len(qs) = ModelCount(md) /\ ModelCount(fd) = 1 /\ nT = Len(qs),
           FineForm(ff) /\ FineForm(mf) /\ t[4] >= 1 /\ nz[4] >= 1 /\ A # {} /\ Dom_MaskForm(kf, mask, n) >> >>

(* ------------------------------------------------------------------ large structures *)
\* the expanded structure (small instances only)
Tile(cycles, counts) ==
  FoldLeft(LAMBDA acc, b : acc \o [i \in 1..counts[b] |-> cycles[b][((i - 1) % Len(cycles[b])) + 1]], <<>>, [b \in DOMAIN counts |-> b])
BigG(gi, j) == GroupSeq[ProperIdx[((gi + 5 * (j - 1)) % 24) + 1]]
EvalBig(c) ==
  LET blocks == c[1]  gi == c[2]  ti == c[3]  fd == c[4]  md == c[5]  ff == c[6]  mf == c[7]  sel == c[8]  kf == c[9]
      counts == [b \in DOMAIN blocks |-> blocks[b][2]]
      selb == [b \in DOMAIN blocks |-> IF sel = <<>> \/ sel[1][b] THEN 1 ELSE 0]
      scounts == [b \in DOMAIN blocks |-> selb[b] * counts[b]]       \* an unselected block has no fitted atom
      nsel == SumSeq(scounts)
      ds == [b \in DOMAIN blocks |-> blocks[b][5]]
      n  == SumSeq(counts)
      bc == Broadcast(fd, md)
      T(j) == TransSeq[((ti + j) % 5) + 1]
      FB == [b \in DOMAIN blocks |-> BlockCycle(blocks[b][1], blocks[b][3], blocks[b][4])]
      MB == [j \in 1..ModelCount(md) |-> [b \in DOMAIN blocks |->
                [k \in DOMAIN FB[b] |-> VAdd(MatVec(BigG(gi, j), VAdd(FB[b][k], ds[b])), T(j))]]]
      W  == BigWitness(scounts, ds)
      small == n <= 40
      Fx == IF small THEN Tile(FB, counts) ELSE <<>>
      flags == IF small THEN Tile([b \in DOMAIN blocks |-> <<selb[b]>>], counts) ELSE <<>>
      A  == {i \in DOMAIN flags : flags[i] = 1}
  IN << <<bc[2], bc[3], FB, MB, counts, n, W, selb, nsel>>,
        << bc[1] = "ok" /\ ModelCount(fd) = 1 /\ \A b \in DOMAIN blocks : counts[b] >= 1,
           \* an exact rigid copy admits a placement without any deviation
           W[1] >= 0 /\ ((\A b \in DOMAIN blocks : ds[b] = Zero3) => W[1] = 0),
           \* the witness placement is a proper rotation
           \A j \in 1..ModelCount(md) : Transpose(BigG(gi, j)) \in Proper,
           \* on instances small enough to be expanded the formula IS the lattice deviation of that placement
           \* (ScaledDev = n^2 * sum = n^3 * msd), and the lattice bound W of the 24 placements is not above it
           small => \A j \in 1..ModelCount(md) :
                      /\ Len(Fx) = n /\ Cardinality(A) = nsel
                      /\ ScaledDev(Sub(Fx, A), Sub(Tile(MB[j], counts), A), Transpose(BigG(gi, j))) = nsel * W[1]
                      /\ WitnessBoundOn(Fx, Tile(MB[j], counts), A)[1] <= nsel * W[1],
           \* scaling lemma: a k-fold repetition of every block has the same bound
           small => \A k \in {2, 3, 7} : LET Wk == BigWitness([b \in DOMAIN counts |-> k * scounts[b]], ds) IN Wk[1] * W[2] = W[1] * Wk[2],
           nsel >= 1 /\ (sel = <<>> <=> kf = "none") /\ (sel # <<>> => kf \in ToSet(MaskForms) /\ Len(sel[1]) = Len(blocks)),
           ff # "f16" /\ mf # "f16" /\ Dom_Form(ff, FB, 1) /\ \A j \in DOMAIN MB : Dom_Form(mf, MB[j], 1) >> >>

Evaluate(c) == CASE c[1] = "fit" -> EvalFit(c[2]) [] c[1] = "affine" -> EvalAffine(c[2])
                 [] c[1] = "hist" -> EvalHist(c[2]) [] c[1] = "anch" -> EvalAnch(c[2])
                 [] c[1] = "far" -> EvalFar(c[2]) [] c[1] = "big" -> EvalBig(c[2])

(* ------------------------------------------------------------------ bounded families *)
PointSets == <<
  <<<<2, -1, 3>>>>,                                                     \* one atom
  <<<<1, 1, 1>>, <<1, 1, 1>>>>,                                         \* two atoms, one location
  <<<<0, 0, 0>>, <<2, 0, 0>>>>,                                         \* two atoms
  <<<<0, 0, 0>>, <<1, 1, 0>>, <<3, 3, 0>>>>,                            \* collinear
  <<<<0, 0, 0>>, <<0, 0, 2>>, <<0, 0, 2>>, <<0, 0, -1>>>>,              \* collinear with a duplicate
  <<<<0, 0, 0>>, <<2, 0, 0>>, <<0, 1, 0>>>>,                            \* scalene triangle (planar)
  <<<<0, 0, 0>>, <<1, 0, 0>>, <<1, 1, 0>>, <<0, 1, 0>>>>,               \* square
  <<<<0, 0, 0>>, <<2, 0, 0>>, <<2, 1, 0>>, <<0, 3, 0>>>>,               \* planar, chiral in its plane
  <<<<0, 0, 0>>, <<1, 0, 0>>, <<0, 1, 0>>, <<0, 0, 1>>>>,               \* achiral corner
  <<<<0, 0, 0>>, <<1, 0, 0>>, <<0, 2, 0>>, <<0, 0, 3>>>>,               \* chiral corner
  <<<<1, 0, 0>>, <<0, 2, 0>>, <<0, 0, 3>>, <<-1, -1, 0>>, <<2, 2, 1>>>>,  \* five atoms, chiral
  <<<<0, 0, 0>>, <<1, 0, 0>>, <<2, 1, 0>>, <<2, 2, 1>>, <<1, 2, 2>>, <<0, 1, 2>>>>   \* helix-like chain
>>
MasksFor(n) ==
  {<<>>} \cup (IF n >= 2 THEN {<<[k \in 1..n |-> k # n]>>, <<[k \in 1..n |-> k <= 2]>>} ELSE {})
      \cup (IF n >= 4 THEN {<<[k \in 1..n |-> k # 2]>>, <<[k \in 1..n |-> k % 2 = 1]>>} ELSE {})
      \* without the FIRST atom (the one that carries the perturbation): position 0 is the one an
      \* integer index array may or may not hold
      \cup (IF n >= 3 THEN {<<[k \in 1..n |-> k # 1]>>} ELSE {})
Depths == <<<<0, 0>>, <<0, 2>>, <<1, 0>>, <<2, 2>>, <<1, 3>>, <<3, 3>>, <<2, 0>>, <<2, 1>>, <<2, 3>>, <<0, 1>>, <<1, 1>>>>
FormNo(f) == CHOOSE i \in DOMAIN Forms : Forms[i] = f
NF == Len(Forms)
MaskNo(mask) == IF mask = <<>> THEN 0 ELSE Cardinality({k \in DOMAIN mask[1] : mask[1][k]})
NoiseNo(nz) == Abs(nz[1]) + 2 * Abs(nz[2]) + 3 * Abs(nz[3])
\* the forms and the half shift cycle with the other inputs (coverage of the combinations is
\* measured by the driver): mobile form, fixed form, half shift (never with an integer fixed form)
MobForm(gi, p, mask, nz) == Forms[((gi + 5 * p + 3 * MaskNo(mask) + 7 * NoiseNo(nz)) % NF) + 1]
FixForm(gi, p, mask, nz) == Forms[((2 * gi + p + MaskNo(mask) + NoiseNo(nz)) % NF) + 1]
\* (gi \div 2: with an even number of forms the parity of gi is tied to the parity of the mobile form)
HalfShift(gi, p, mask, nz) == IF IntForm(FixForm(gi, p, mask, nz)) THEN 0 ELSE ((gi \div 2) + p + MaskNo(mask)) % 2
\* the form of the selection cycles too
NMF == Len(MaskForms)
MaskFormOf(key, mask) == IF mask = <<>> THEN "none" ELSE MaskForms[(key % NMF) + 1]
FitCases(PS, GI, NZ) ==
  {<<"fit", <<PointSets[p], gi, (gi + p) % 5, mask, noise, Depths[((gi + 3 * p) % Len(Depths)) + 1][1], Depths[((gi + 3 * p) % Len(Depths)) + 1][2],
              FixForm(gi, p, mask, noise), MobForm(gi, p, mask, noise), HalfShift(gi, p, mask, noise),
              MaskFormOf(gi + (gi \div 6) + 2 * p + MaskNo(mask) + NoiseNo(noise), mask)>>>> :
      p \in PS, gi \in GI, noise \in NZ, mask \in UNION {MasksFor(Len(PointSets[q])) : q \in PS}}
FitOK(c) == c[2][4] = <<>> \/ Len(c[2][4][1]) = Len(c[2][1])

AffCs == {<<<<0, 0, 0>>>>, <<<<1, -2, 3>>>>, <<<<1, -2, 3>>, <<0, 5, 0>>>>, <<<<-1, 0, 0>>, <<0, 0, 2>>, <<4, 4, 4>>>>}
AffTs == {<<<<0, 0, 0>>>>, <<<<2, 0, -1>>>>, <<<<2, 0, -1>>, <<7, 7, 7>>>>, <<<<0, 1, 0>>, <<-3, 0, 0>>, <<0, 0, 9>>>>}
AffGis(GI) == {<<g>> : g \in GI} \cup {<<g, ((g + 10) % 48) + 1>> : g \in GI} \cup {<<g, ((g + 10) % 48) + 1, ((g + 29) % 48) + 1>> : g \in GI}
\* den and the dtype of the constructor arrays cycle; every (form, den) pair occurs
AffKey(cs, gis, depth, form) == gis[1] + depth + Len(cs) + FormNo(form)
DenOf(k) == (k % 2) + 1
TFormOf(k) == IF DenOf(k) = 2 THEN <<"f32", "f64">>[((k \div 2) % 2) + 1] ELSE <<"f32", "f64", "i64">>[((k \div 2) % 3) + 1]
\* dtype of the rotation array: 7 is coprime to the periods of DenOf / TFormOf, every (den, tform, rform) occurs
RFormOf(k) == RForms[((k % 7) % 4) + 1]
AffineCases(GI, FS) ==
  {<<"affine", <<cs, gis, ts, X, depth, form, DenOf(AffKey(cs, gis, depth, form)), TFormOf(AffKey(cs, gis, depth, form)),
                 RFormOf(AffKey(cs, gis, depth, form) + Len(ts[1]) + ts[1][2])>>>> :
      cs \in AffCs, gis \in AffGis(GI), ts \in AffTs,
      X \in {<<<<1, 2, 3>>>>, <<<<0, 0, 0>>, <<1, 0, 0>>, <<-2, 5, 1>>>>},
      depth \in 0..3, form \in FS}
AffOK(c) == Len(c[2][1]) = Len(c[2][2]) /\ Len(c[2][2]) = Len(c[2][3])

\* histories: all operation sequences up to length L that end with an accessor, on 1 or 2
\* transformations, arrays and stacks
HistStarts == <<
  <<<<<<1, -2, 3>>>>, <<1>>, <<<<2, 0, -1>>>>, 0>>,                               \* 1 transformation, array
  <<<<<<0, 0, 0>>>>, <<1>>, <<<<0, 0, 0>>>>, 1>>,                                 \* identity, stack of 1
  <<<<<<1, -2, 3>>, <<0, 5, 0>>>>, <<1, 1>>, <<<<2, 0, -1>>, <<7, 7, 7>>>>, 2>> >>   \* 2 transformations, stack of 2
OpSeqs(L) == UNION {{s \in [1..l -> HistOpSet] : IsAccessor(s[l])} : l \in 1..L}
HistKey(st, g, ops) == st + g + Len(ops) + Cardinality({i \in DOMAIN ops : ops[i] = "scr"}) + 2 * Cardinality({i \in DOMAIN ops : ops[i] = "setR"})
HistCases(GI, L) ==
  {<<"hist", <<HistStarts[st][1], [k \in DOMAIN HistStarts[st][2] |-> ((g + 10 * (k - 1)) % 48) + 1], HistStarts[st][3],
               <<<<0, 0, 0>>, <<1, 0, 0>>, <<-2, 5, 1>>>>, HistStarts[st][4], ops,
               Forms[((HistKey(st, g, ops) + 4 * st) % NF) + 1], DenOf(HistKey(st, g, ops)), TFormOf(HistKey(st, g, ops)), RFormOf(HistKey(st, g, ops) + st)>>>> :
      st \in DOMAIN HistStarts, g \in GI, ops \in OpSeqs(L)}

\* anchors: CA traces, residue patterns, motions, every single displaced residue and one pair
Chains == <<PointSets[12],
            <<<<0, 0, 0>>, <<1, 0, 0>>, <<2, 1, 0>>, <<2, 2, 1>>, <<1, 2, 2>>, <<0, 1, 2>>, <<-1, 0, 3>>, <<-1, -1, 5>>>>,
            PointSets[11]>>
Mixed(n) == [k \in 1..n |-> <<"ALA", "GLY", "SER", "SER", "GLY">>[(k % 5) + 1]]
All(r, n) == [k \in 1..n |-> r]
\* <<name, fixed residues, mobile residues>> for a chain of n residues
SeqPatterns(n) == {
  <<All("ALA", n), All("GLY", n)>>,                                        \* no positive pair: fallback
  <<[k \in 1..n |-> IF k % 2 = 0 THEN "SER" ELSE "ALA"], All("GLY", n)>>,  \* fallback
  <<All("GLY", n), [k \in 1..n |-> IF k % 3 = 0 THEN "SER" ELSE "ALA"]>>,  \* fallback
  <<Mixed(n), Mixed(n)>>,                                                  \* identity
  <<All("SER", n), All("SER", n)>>,                                        \* identity
  <<All("ALA", n), All("SER", n)>>,                                        \* positive pairs: open
  <<All("ALA", n), All("GLY", n - 1)>>,                                    \* fallback refused
  <<Mixed(n), Mixed(n - 1)>> }                                             \* open
Disp1 == <<6, -5, 4>>
Disp2 == <<-4, 7, 5>>
Outls(m) == {<<>>} \cup {<<<<k, Disp1>>>> : k \in 1..m} \cup {<<<<1, Disp1>>, <<m, Disp2>>>>, <<<<2, Disp2>>, <<3, Disp1>>>>}
MaxItOf(k) == IF k % 4 = 0 THEN 1 ELSE 10
OutlNo(o) == IF o = <<>> THEN 0 ELSE o[1][1] + Len(o)
AnchCases(CH, GI) ==
  {<<"anch", <<"homologs", sp[1], sp[2], Chains[ch], gi, gi + ch, o, minA, MaxItOf(gi + ch + OutlNo(o) + minA), "atoms">>>> :
      ch \in CH, gi \in GI, minA \in {1, 3}, sp \in UNION {SeqPatterns(Len(Chains[q])) : q \in CH}, o \in UNION {Outls(Len(Chains[q])) : q \in CH}}
  \cup
  {<<"anch", <<"outliers", <<>>, <<>>, Chains[ch], gi, gi + ch, o, minA, MaxItOf(gi + ch + OutlNo(o) + minA),
               Forms[((gi + ch + OutlNo(o) + 3 * minA) % NF) + 1]>>>> :
      ch \in CH, gi \in GI, minA \in {1, 3, 5}, o \in UNION {Outls(Len(Chains[q])) : q \in CH}}
AnchOK(c) ==
  LET p == c[2]  n == Len(p[4])  m == IF p[1] = "homologs" THEN Len(p[3]) ELSE n IN
  /\ p[1] = "homologs" => Len(p[2]) = n
  /\ p[7] \in Outls(m)

\* motions off the lattice: point sets of rank 1-3, centres near and far from the origin, rotations
\* from a quarter turn down to 0.01 degrees, no / tiny / ordinary translation, no / tiny / large noise
FarSets == <<PointSets[10], PointSets[11], PointSets[12], Chains[2], PointSets[8], PointSets[4]>>
FarCentres == <<<<300, 400, 500>>, <<-700, 900, 1200>>, <<40, -50, 60>>, <<0, 0, 0>>, <<1000, -1000, 1000>>>>
FarQuats == <<<<8192, 1, 0, 0>>, <<8192, 1, -1, 1>>, <<4096, 0, 1, 0>>, <<4096, 1, 1, -1>>, <<2048, -1, 0, 1>>,
              <<1024, 1, 0, 0>>, <<256, 0, 0, 1>>, <<16, 1, 0, 0>>, <<1, 0, 0, 0>>, <<1, 1, 0, 0>>,
              <<6000, -1, 1, 0>>, <<3000, 1, 0, -1>>, <<12, 3, -4, 0>>, <<0, 1, 1, 0>>>>
FarTrans == <<<<0, 0, 0, 1>>, <<1, -1, 2, 4096>>, <<3, -2, 1, 1>>>>
FarNoise == <<<<0, 0, 0, 1>>, <<2, -1, 1, 1024>>, <<1, 0, 0, 1>>>>
FarDepths == <<<<0, 0>>, <<0, 2>>, <<1, 0>>, <<0, 0>>, <<1, 2>>, <<0, 1>>>>
FarMasks(n) == <<<<>>, <<[k \in 1..n |-> k # n]>>, <<>>, <<[k \in 1..n |-> k % 2 = 1]>>, <<[k \in 1..n |-> k # 1]>>>>
NFine == Len(FineForms)
FarCases(PS, CS, QS, scale) ==
  {LET key == p + 2 * ci + 3 * qi + 5 * ti + 7 * ni
       dp == FarDepths[(key % Len(FarDepths)) + 1]
       P == [k \in DOMAIN FarSets[p] |-> VScale(scale, FarSets[p][k])]
   IN <<"far", <<P, FarCentres[ci], [j \in 1..ModelCount(dp[2]) |-> FarQuats[((qi + 3 * (j - 1) - 1) % Len(FarQuats)) + 1]],
                 FarTrans[ti], FarNoise[ni], FarMasks(Len(P))[((key \div 2) % 5) + 1], dp[1], dp[2],
                 FineForms[((key + ci) % NFine) + 1], FineForms[((2 * key + p + 1) % NFine) + 1],
                 MaskFormOf(key + qi + ci, FarMasks(Len(P))[((key \div 2) % 5) + 1])>>>> :
      p \in PS, ci \in CS, qi \in QS, ti \in DOMAIN FarTrans, ni \in DOMAIN FarNoise}

\* large structures: three layouts (a displaced block early and off-centre, in the middle, at the end;
\* a spread-out block at the end), with and without the displacement, sizes across 4096 / 8192 and 10^4
BigLayouts(n, e) == <<
  << <<PointSets[10], n \div 10, 1, <<5, 0, 0>>, VScale(e, <<0, 3, 0>>)>>, <<PointSets[10], n - (n \div 10) - (n \div 3), 1, Zero3, Zero3>>,
     <<PointSets[11], n \div 3, 3, <<-2, 0, 1>>, Zero3>> >>,
  << <<PointSets[12], n - (n \div 12) - (n \div 4), 1, Zero3, Zero3>>, <<PointSets[10], n \div 12, 1, <<0, 4, 0>>, VScale(e, <<0, 0, 2>>)>>,
     <<PointSets[11], n \div 4, 4, Zero3, Zero3>> >>,
  << <<PointSets[11], n - (n \div 8), 2, Zero3, Zero3>>, <<PointSets[10], n \div 8, 1, <<0, -6, 0>>, VScale(e, <<2, 0, -1>>)>> >> >>
BigForms == SelectSeq(Forms, LAMBDA f : f # "f16")
BigDepths == <<<<0, 0>>, <<1, 0>>, <<0, 2>>, <<0, 1>>, <<1, 2>>>>
\* selections of whole blocks: none / without the first block / without the last block
BigSel(L, s) == CASE s = 0 -> <<>> [] s = 1 -> <<[b \in DOMAIN L |-> b # 1]>> [] OTHER -> <<[b \in DOMAIN L |-> b # Len(L)]>>
BigCases(NS, GI) ==
  {LET key == n + gi + 2 * l + 5 * e + 3 * s
       dp == BigDepths[(key % Len(BigDepths)) + 1]
       L == BigLayouts(n, e)[l]
   IN <<"big", <<L, gi, key % 5, dp[1], dp[2],
                 BigForms[(key % Len(BigForms)) + 1], BigForms[((3 * key + l) % Len(BigForms)) + 1],
                 BigSel(L, s), MaskFormOf(key + (n \div 7), BigSel(L, s))>>>> :
      n \in NS, gi \in GI, l \in 1..3, e \in {0, 1}, s \in 0..2}
BigSizes == {24, 37, 4095, 4096, 4097, 6000, 8191, 8193, 10000}

\* The cases of a tier, as a SEQUENCE of small sets that Init enumerates one after the other.  TLC evaluates
\* constant sets at start-up and sorts each of them with a quadratic insertion sort (ValueVec.sort; measured:
\* 58-75 s for the union of 15,596 cases, 1-4 s for each family alone): the families are therefore cut along one
\* of their independent dimensions (point set, group element).  Equal cases of two overlapping sets are one state.
FitFams(NZ) == [p \in DOMAIN PointSets |-> {c \in FitCases({p}, 1..48, NZ) : FitOK(c)}]
AffFams(GIs, FS) == [i \in DOMAIN GIs |-> {c \in AffineCases({GIs[i]}, FS) : AffOK(c)}]
HistFams(Gs, L) == [i \in DOMAIN Gs |-> HistCases({Gs[i]}, L)]
AnchFams(CH, GIs) == [i \in DOMAIN GIs |-> {c \in AnchCases(CH, {GIs[i]}) : AnchOK(c)}]
FarFams(PS, CS, QS, scale) == [p \in PS |-> FarCases({p}, CS, QS, scale)]
FamsTiny == <<{c \in FitCases({3, 10}, {1, 2, 9}, {Zero3}) : FitOK(c)}, {c \in AffineCases({1, 20}, {"f32", "i64"}) : AffOK(c)},
              HistCases({5}, 3), {c \in AnchCases({3}, {2}) : AnchOK(c)},
              FarCases({1, 4}, {1, 4}, {1, 5, 10}, 1), BigCases({24, 4097, 6000}, {3})>>
FamsQuick == FitFams({Zero3, <<1, 0, 0>>}) \o AffFams(<<1, 4, 11, 20, 31, 46>>, ToSet(Forms))
               \o HistFams(<<5, 26>>, 4) \o AnchFams({1, 2}, <<2, 30>>)
               \o FarFams(DOMAIN FarSets, DOMAIN FarCentres, 1..10, 1) \o <<BigCases(BigSizes, {3, 14})>>
FamsThorough == FitFams({Zero3, <<1, 0, 0>>, <<0, -2, 1>>, <<3, 3, 3>>})
                  \o AffFams([g \in 1..48 |-> g], {"f32", "i64"})
                  \o AffFams(<<1, 4, 7, 11, 15, 20, 26, 31, 38, 42, 46, 48>>, ToSet(Forms))
                  \o HistFams(<<5, 26, 40>>, 4) \o HistFams(<<5>>, 5) \o AnchFams({1, 2, 3}, <<2, 9, 30, 41>>)
                  \o FarFams(DOMAIN FarSets, DOMAIN FarCentres, DOMAIN FarQuats, 1)
                  \o FarFams(DOMAIN FarSets, DOMAIN FarCentres, DOMAIN FarQuats, 3)
                  \o [g \in 1..5 |-> BigCases(BigSizes \cup {31, 2048, 5000, 12288, 12289, 12500}, {<<1, 3, 8, 14, 20>>[g]})]
Fams == CASE Tier = "tiny" -> FamsTiny [] Tier = "quick" -> FamsQuick [] Tier = "thorough" -> FamsThorough

(* ------------------------------------------------------------------ the model *)
VARIABLES vcase, vout
vars == <<vcase, vout>>
Init == vout = <<>> /\ \E f \in DOMAIN Fams : vcase \in Fams[f]
Next == vout = <<>> /\ vout' = Evaluate(vcase) /\ UNCHANGED vcase
Spec == Init /\ [][Next]_vars
Done == vout # <<>>
InvClaims == Done => \A i \in DOMAIN vout[2] : vout[2][i]

\* pins
ASSUME \A p \in DOMAIN PointSets : IndexMirrorSymmetric(PointSets[p]) <=> Rank(PointSets[p]) <= 2
ASSUME Rank(PointSets[1]) = 0 /\ Rank(PointSets[2]) = 0 /\ Rank(PointSets[4]) = 1 /\ Rank(PointSets[8]) = 2 /\ Rank(PointSets[10]) = 3
ASSUME HomologPath(<<"ALA", "ALA", "SER">>, <<"GLY", "GLY", "GLY">>, 3) = "fallback" /\ HomologPath(<<"ALA", "ALA", "SER">>, <<"GLY", "GLY">>, 1) = "Rejected"
       /\ HomologPath(<<"ALA", "GLY", "SER">>, <<"ALA", "GLY", "SER">>, 3) = "identity" /\ HomologPath(<<"ALA", "ALA", "ALA">>, <<"SER", "GLY", "GLY">>, 1) = "open"
\* the quaternion rotation: D R(q) is D times a proper rotation.  The entries of (D R)^T (D R) - D^2 I and of
\* InverseLaw are polynomials of degree <= 4 in each of a, b, c, d: equality on a grid of 5 values per variable
\* proves them for all integers.  det = +D^3 then follows (det is +-D^3, continuous in q # 0, +1 at the identity);
\* it is pinned on the same grid.  (ASSUMEs are evaluated without caching: a larger grid costs 30 s.)
ASSUME \A q \in (-2..2) \X (-2..2) \X (-2..2) \X (-2..2) :
          /\ MatMul(Transpose(QRotScaled(q)), QRotScaled(q)) = MatScale(QD(q) * QD(q), Id3)
          /\ Det(QRotScaled(q)) = QD(q) * QD(q) * QD(q)
          /\ InverseLaw(q)
ASSUME QRotScaled(<<1, 1, 0, 0>>) = MatScale(2, <<<<1, 0, 0>>, <<0, 0, -1>>, <<0, 1, 0>>>>)    \* quarter turn about x
ASSUME \A i \in DOMAIN FarQuats : InverseLaw(FarQuats[i]) /\ QD(FarQuats[i]) > 0
ASSUME UlpExp(1) = 0 /\ UlpExp(511) = 8 /\ UlpExp(512) = 9 /\ UlpExp(1300) = 10
ASSUME FarBelow(16 * 12 + 1, 0, 4) /\ ~FarBelow(16 * 12 + 2, 0, 4) /\ FarBelow(500, 400, 1)
ASSUME Len(FineForms) = 7 /\ \A i \in DOMAIN FineForms : FineForm(FineForms[i])
ASSUME Det(HistQ) = 1 /\ HistQ \in Proper
ASSUME \A f \in ToSet(Forms) : Forms[FormNo(f)] = f
ASSUME Broadcast(0, 0) = <<"ok", 1, 0>> /\ Broadcast(0, 3) = <<"ok", 3, 3>> /\ Broadcast(2, 0)[1] = "Unspecified" /\ Broadcast(2, 3)[1] = "Rejected" /\ Broadcast(1, 3) = <<"ok", 3, 3>>
=============================================================================
