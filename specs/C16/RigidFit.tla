------------------------------- MODULE RigidFit -------------------------------
(* C16, exhaustive model.  A case is <<kind, payload>>:

   "fit"    <<P, gi, ti, mask, noise, fd, md>>
            P a lattice point set; the fixed structure(s) and the mobile structure(s) are
            rigid images of P:   fixed model j  = ProperSeq-rotation/translation number j of P
                                 mobile model j = GroupSeq[gi + 7(j-1)] . P + translation, plus
                                 an integer displacement `noise` of its first atom;
            fd, md = 0 (array) or the stack depth; mask = <<>> or <<sequence of BOOLEANs>>.
            Expected: the broadcasting outcome, and for every transformation k the lattice
            witness bound W_k on the masked atoms and whether the whole fitted model must
            coincide with the fixed one.
   "affine" <<cs, gis, ts, X, depth>>  AffineTransformation(cs, rotations, ts) applied to the
            coordinates X (depth 0) or to `depth` translated copies of X, and its 4x4 form.

   S1 claims are listed in Evaluate. *)
EXTENDS RigidFitOps

CONSTANT Tier

PermSeq == <<<<1, 2, 3>>, <<1, 3, 2>>, <<2, 1, 3>>, <<2, 3, 1>>, <<3, 1, 2>>, <<3, 2, 1>>>>
SignSeq == <<<<1, 1, 1>>, <<1, 1, -1>>, <<1, -1, 1>>, <<1, -1, -1>>, <<-1, 1, 1>>, <<-1, 1, -1>>, <<-1, -1, 1>>, <<-1, -1, -1>>>>
GroupSeq == EagerSeq([i \in 1..48 |-> SignedPerm(PermSeq[((i - 1) \div 8) + 1], SignSeq[((i - 1) % 8) + 1])])
ASSUME {GroupSeq[i] : i \in 1..48} = SignedPerms
ProperIdx == SeqOfSet({i \in 1..48 : Det(GroupSeq[i]) = 1})
ASSUME Len(ProperIdx) = 24
TransSeq == <<<<0, 0, 0>>, <<1, -2, 3>>, <<-4, 0, 1>>, <<2, 2, -5>>, <<0, 7, -1>>>>

FixedModel(P, j) ==      \* j = 1: P itself; further models: other proper images of P
  IF j = 1 THEN P ELSE RigidSeq(GroupSeq[ProperIdx[((5 * j) % 24) + 1]], TransSeq[(j % 5) + 1], P)
MobileG(gi, j) == GroupSeq[((gi - 1 + 7 * (j - 1)) % 48) + 1]
MobileModel(P, gi, ti, noise, j) ==
  LET M == RigidSeq(MobileG(gi, j), TransSeq[((ti + j) % 5) + 1], P)
  IN [k \in DOMAIN M |-> IF k = 1 THEN VAdd(M[1], noise) ELSE M[k]]

EvalFit(c) ==
  LET P == c[1]  gi == c[2]  ti == c[3]  mask == c[4]  noise == c[5]  fd == c[6]  md == c[7]
      n  == Len(P)
      A  == MaskSet(mask, n)
      bc == Broadcast(fd, md)
      F  == EagerSeq([j \in 1..ModelCount(fd) |-> FixedModel(P, j)])
      M  == EagerSeq([j \in 1..ModelCount(md) |-> MobileModel(P, gi, ti, noise, j)])
      nT == IF bc[1] = "Rejected" THEN 0 ELSE bc[2]
      W  == EagerSeq([k \in 1..nT |-> WitnessBoundOn(F[FixedOf(k, fd)], M[MobileOf(k, md)], A)])
      proper(k) == Det(MobileG(gi, MobileOf(k, md))) = 1
      clean == noise = Zero3
      rk == Rank(Sub(P, A))
      whole == EagerSeq([k \in 1..nT |-> clean /\ proper(k) /\ rk >= 2])
  IN << <<bc[1], nT, bc[3], [k \in 1..nT |-> <<W[k][1], W[k][2], whole[k]>>], F, M,
          SeqOfSet({a - 1 : a \in A}), rk>>,
        << \* a proper rigid copy can be superimposed exactly (on every subset of the atoms)
           \A k \in 1..nT : (clean /\ proper(k)) => W[k][1] = 0,
           \* mirror-ambiguous sets: a mirrored copy of a planar / collinear / single-location
           \* set is also a proper rigid copy.  Among the lattice witnesses this shows whenever
           \* the set lies in a mirror plane of the cube group (for other planes the proper
           \* motion exists too, but is not a lattice rotation: W is then only an upper bound)
           \A k \in 1..nT : (clean /\ InLatticeMirror(Sub(P, A))) => W[k][1] = 0,
           \* a mirrored copy of a set of rank 3 is not (atoms are paired by index, so even a
           \* set with a mirror symmetry cannot be matched: a reflection fixing every atom
           \* needs all atoms in one plane)
           \A k \in 1..nT : (clean /\ ~proper(k) /\ rk = 3) => W[k][1] > 0,
           \* the witness is attained by a proper rotation
           \A k \in 1..nT : WitnessRot(Sub(F[FixedOf(k, fd)], A), Sub(M[MobileOf(k, md)], A)) \in Proper >> >>

AffModels(X, depth) == [j \in 1..ModelCount(depth) |-> [k \in DOMAIN X |-> VAdd(X[k], <<j - 1, 2 * (j - 1), 0>>)]]
EvalAffine(c) ==
  LET cs == c[1]  gis == c[2]  ts == c[3]  X == c[4]  depth == c[5]
      Ts == [k \in DOMAIN cs |-> Xf(cs[k], GroupSeq[gis[k]], ts[k])]
      oc == ApplyOutcome(Len(cs), depth)
      mods == AffModels(X, depth)
      res == IF oc = "ok" THEN ApplyModels(Ts, mods) ELSE <<>>
  IN << <<oc, res, [k \in DOMAIN cs |-> Mat4Tup(AsMatrix(Ts[k]))], mods, [k \in DOMAIN cs |-> GroupSeq[gis[k]]]>>,
        << \* the 4x4 form applied to (x, 1) is apply(x)
           \A k \in DOMAIN cs : \A i \in DOMAIN X :
              Tup4(Mat4Vec(AsMatrix(Ts[k]), X[i])) = <<ApplyXf(Ts[k], X[i])[1], ApplyXf(Ts[k], X[i])[2], ApplyXf(Ts[k], X[i])[3], 1>>,
           \* apply is x |-> R x + (R c + t): distances are preserved
           \A k \in DOMAIN cs : \A i, j \in DOMAIN X :
              Dist2(ApplyXf(Ts[k], X[i]), ApplyXf(Ts[k], X[j])) = Dist2(X[i], X[j]) >> >>

Evaluate(c) == CASE c[1] = "fit" -> EvalFit(c[2]) [] c[1] = "affine" -> EvalAffine(c[2])

(* ------------------------------------------------------------------ bounded families *)
PointSets == <<
  <<<<2, -1, 3>>>>,                                                     \* one atom
  <<<<1, 1, 1>>, <<1, 1, 1>>>>,                                         \* two atoms, one location
  <<<<0, 0, 0>>, <<2, 0, 0>>>>,                                         \* two atoms
  <<<<0, 0, 0>>, <<1, 1, 0>>, <<3, 3, 0>>>>,                            \* collinear
  <<<<0, 0, 0>>, <<0, 0, 2>>, <<0, 0, 2>>, <<0, 0, -1>>>>,              \* collinear with a duplicate
  <<<<0, 0, 0>>, <<2, 0, 0>>, <<0, 1, 0>>>>,                            \* scalene triangle (planar)
  <<<<0, 0, 0>>, <<1, 0, 0>>, <<1, 1, 0>>, <<0, 1, 0>>>>,               \* square
  <<<<0, 0, 0>>, <<2, 0, 0>>, <<2, 1, 0>>, <<0, 3, 0>>>>,               \* planar, chiral in its plane
  <<<<0, 0, 0>>, <<1, 0, 0>>, <<0, 1, 0>>, <<0, 0, 1>>>>,               \* achiral corner
  <<<<0, 0, 0>>, <<1, 0, 0>>, <<0, 2, 0>>, <<0, 0, 3>>>>,               \* chiral corner
  <<<<1, 0, 0>>, <<0, 2, 0>>, <<0, 0, 3>>, <<-1, -1, 0>>, <<2, 2, 1>>>>,  \* five atoms, chiral
  <<<<0, 0, 0>>, <<1, 0, 0>>, <<2, 1, 0>>, <<2, 2, 1>>, <<1, 2, 2>>, <<0, 1, 2>>>>   \* helix-like chain
>>
MasksFor(n) ==
  {<<>>} \cup (IF n >= 2 THEN {<<[k \in 1..n |-> k # n]>>, <<[k \in 1..n |-> k <= 2]>>} ELSE {})
      \cup (IF n >= 4 THEN {<<[k \in 1..n |-> k # 2]>>, <<[k \in 1..n |-> k % 2 = 1]>>} ELSE {})
Depths == <<<<0, 0>>, <<0, 2>>, <<1, 0>>, <<2, 2>>, <<1, 3>>, <<3, 3>>, <<2, 0>>, <<2, 1>>, <<2, 3>>, <<0, 1>>, <<1, 1>>>>
FitCases(PS, GI, NZ) ==
  {<<"fit", <<PointSets[p], gi, (gi + p) % 5, mask, noise, Depths[((gi + 3 * p) % Len(Depths)) + 1][1], Depths[((gi + 3 * p) % Len(Depths)) + 1][2]>>>> :
      p \in PS, gi \in GI, noise \in NZ, mask \in UNION {MasksFor(Len(PointSets[q])) : q \in PS}}
FitOK(c) == c[2][4] = <<>> \/ Len(c[2][4][1]) = Len(c[2][1])
AffineCases(GI) ==
  {<<"affine", <<cs, gis, ts, X, depth>>>> :
      cs \in {<<<<0, 0, 0>>>>, <<<<1, -2, 3>>>>, <<<<1, -2, 3>>, <<0, 5, 0>>>>, <<<<-1, 0, 0>>, <<0, 0, 2>>, <<4, 4, 4>>>>},
      gis \in {<<g>> : g \in GI} \cup {<<g, ((g + 10) % 48) + 1>> : g \in GI} \cup {<<g, ((g + 10) % 48) + 1, ((g + 29) % 48) + 1>> : g \in GI},
      ts \in {<<<<0, 0, 0>>>>, <<<<2, 0, -1>>>>, <<<<2, 0, -1>>, <<7, 7, 7>>>>, <<<<0, 1, 0>>, <<-3, 0, 0>>, <<0, 0, 9>>>>},
      X \in {<<<<1, 2, 3>>>>, <<<<0, 0, 0>>, <<1, 0, 0>>, <<-2, 5, 1>>>>},
      depth \in 0..3}
AffOK(c) == Len(c[2][1]) = Len(c[2][2]) /\ Len(c[2][2]) = Len(c[2][3])

CasesTiny(z) == {c \in FitCases({3, 10}, {1, 2, 9}, {Zero3}) : FitOK(c)} \cup {c \in AffineCases({1, 20}) : AffOK(c)}
CasesQuick(z) == {c \in FitCases(DOMAIN PointSets, 1..48, {Zero3, <<1, 0, 0>>}) : FitOK(c)} \cup {c \in AffineCases({1, 4, 11, 20, 31, 46}) : AffOK(c)}
CasesThorough(z) == {c \in FitCases(DOMAIN PointSets, 1..48, {Zero3, <<1, 0, 0>>, <<0, -2, 1>>, <<3, 3, 3>>}) : FitOK(c)} \cup {c \in AffineCases(1..48) : AffOK(c)}
Cases == CASE Tier = "tiny" -> CasesTiny(0) [] Tier = "quick" -> CasesQuick(0) [] Tier = "thorough" -> CasesThorough(0)

(* ------------------------------------------------------------------ the model *)
VARIABLES vcase, vout
vars == <<vcase, vout>>
Init == vcase \in Cases /\ vout = <<>>
Next == vout = <<>> /\ vout' = Evaluate(vcase) /\ UNCHANGED vcase
Spec == Init /\ [][Next]_vars
Done == vout # <<>>
InvClaims == Done => \A i \in DOMAIN vout[2] : vout[2][i]

\* pins
ASSUME \A p \in DOMAIN PointSets : IndexMirrorSymmetric(PointSets[p]) <=> Rank(PointSets[p]) <= 2
ASSUME Rank(PointSets[1]) = 0 /\ Rank(PointSets[2]) = 0 /\ Rank(PointSets[4]) = 1 /\ Rank(PointSets[8]) = 2 /\ Rank(PointSets[10]) = 3
ASSUME Broadcast(0, 0) = <<"ok", 1, 0>> /\ Broadcast(0, 3) = <<"ok", 3, 3>> /\ Broadcast(2, 0)[1] = "Unspecified" /\ Broadcast(2, 3)[1] = "Rejected" /\ Broadcast(1, 3) = <<"ok", 3, 3>>
=============================================================================
