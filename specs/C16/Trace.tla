------------------------------- MODULE Trace -------------------------------
(* C16 direction B: recorded calls of superimpose / superimpose_without_outliers /
   superimpose_homologs on seeded lattice systems (up to 12 fitted atoms, integer noise,
   outliers, masks, stacks) are judged by TLC with the operators of RigidFitOps.

   Events (coordinates are integers; rmsd2q = floor(observed RMSD^2 * 10000) over the atoms
   the call itself fitted; `sane` = the driver's projection of the returned transformation:
   rotation orthonormal with determinant +1, fitted = transformation.apply(mobile) =
   as_matrix() applied, fitted shape as documented):
   {op:"fit", F:[models], M:[models], fd, md, mask:[]|[[bool..]], oc:"ok"|"Rejected",
    rmsd2q:[per transformation], sane:bool}
   {op:"outliers", F:[points], M:[points], min_anchors, maxit, anchors:[0-based], rmsd2q, sane}
   {op:"homologs", F:[CA points fixed], M:[CA points mobile], sF:[residue names], sM:[..],
    min_anchors, maxit, oc:"ok"|"Rejected", fa:[1-based positions in F], ma:[1-based positions in M],
    rmsd2q, sane}
   {op:"far", fd, md, nfit, ue, qfit:[per transformation], qwit:[per transformation], oc, sane}
    real-valued coordinates (any rotation angle, centres up to 2000 A from the origin, noise):
    nfit = number of fitted atoms, qfit / qwit = RMSD of the fitted placement / of the WITNESS
    placement (the generating motion's inverse, applied with the library's own apply()) over the
    fitted atoms in units of 1/16 of the float32 spacing 2^(ue-23) at the largest coordinate.
   The events come from the seeded recorder (S3) and from the executions of the spec-generated
   "anch" cases of RigidFit.tla (S2).
   Judged: broadcasting outcome and number of transformations; RMSD^2 <= the lattice witness
   bound W (+ 3/10000); anchors well-formed, at least min(min_anchors, n) of them, all of them
   when max_iterations = 1, the witness law of RigidFitOps for "far" events (fitted RMSD <= witness
   RMSD + (8 + nfit) ulps: no candidate placement is better than the returned one), the anchor path of the homolog variant (fallback / identity pairing
   by position, refusal of the fallback for unequal counts), and the reported fit no worse than
   W on exactly those anchors.  NOT judged: optimality below W. *)
EXTENDS RigidFitOps, SequencesExt, Json, IOUtils

Tr == JsonDeserialize(IOEnv.TRACE_FILE)
VARIABLES trcNo, evNo      \* (names that occur nowhere as bound variables: TLC caching)
tvars == <<trcNo, evNo>>

KK == 10000
\* q / KK <= num / den + 3 / KK
Below(q, W) == q <= 3 \/ FracLeq(q - 3, KK, W[1], W[2])

StrictlyIncreasing(s) == \A i \in 1..(Len(s) - 1) : s[i] < s[i + 1]

JudgeFit(t, k, e) ==
  LET bc == Broadcast(e.fd, e.md)
      n  == Len(e.F[1])
      A  == MaskSet(e.mask, n)
      okOc == \/ bc[1] = "Unspecified"
              \/ bc[1] = e.oc
      W(j) == WitnessBoundOn(e.F[FixedOf(j, e.fd)], e.M[MobileOf(j, e.md)], A)
      okN == e.oc = "ok" => Len(e.rmsd2q) = bc[2]
      bad == IF e.oc = "ok" /\ okN THEN {j \in DOMAIN e.rmsd2q : ~Below(e.rmsd2q[j], W(j))} ELSE {}
  IN IF okOc /\ okN /\ bad = {} /\ (e.oc = "ok" => e.sane) THEN TRUE
     ELSE PrintT(<<"MISMATCH", t, k, "fit", <<okOc, okN, e.sane>>, bc[1], {<<j, W(j)>> : j \in bad}>>)

JudgeOutliers(t, k, e) ==
  LET n == Len(e.F)
      a1 == [i \in DOMAIN e.anchors |-> e.anchors[i] + 1]
      wf == /\ StrictlyIncreasing(e.anchors) /\ \A i \in DOMAIN e.anchors : e.anchors[i] >= 0 /\ e.anchors[i] < n
            /\ Len(e.anchors) >= MinI(e.min_anchors, n)
            /\ (e.maxit = 1 => Len(e.anchors) = n)        \* documented: no outlier removal is conducted
      W == WitnessBoundOn(e.F, e.M, ToSet(a1))
  IN IF wf /\ e.sane /\ Below(e.rmsd2q, W) THEN TRUE
     ELSE PrintT(<<"MISMATCH", t, k, "outliers", <<wf, e.sane>>, "", IF wf THEN {<<1, W>>} ELSE {}>>)

(* homologs: the anchor path (RigidFitOps!HomologPath) from the residue names; oc = "Rejected" is
   the documented ValueError refusal.  Paired by position (fallback, identical sequences): the
   two anchor lists are equal; without outlier removal they are all residues. *)
JudgeHomologs(t, k, e) ==
  LET path == HomologPath(e.sF, e.sM, e.min_anchors)
      okOc == /\ path = "Rejected" => e.oc = "Rejected"
              /\ PairedByPosition(path) => e.oc = "ok"
      wf == /\ Len(e.fa) = Len(e.ma) /\ Len(e.fa) >= MinI(e.min_anchors, MinI(Len(e.F), Len(e.M)))
            /\ StrictlyIncreasing(e.fa) /\ StrictlyIncreasing(e.ma)
            /\ \A i \in DOMAIN e.fa : e.fa[i] >= 1 /\ e.fa[i] <= Len(e.F)
            /\ \A i \in DOMAIN e.ma : e.ma[i] >= 1 /\ e.ma[i] <= Len(e.M)
            /\ PairedByPosition(path) => (e.fa = e.ma /\ (e.maxit = 1 => Len(e.fa) = Len(e.F)))
      W == WitnessBoundPairs(e.F, e.M, e.fa, e.ma)
  IN IF e.oc = "Rejected" THEN
       (IF okOc THEN TRUE ELSE PrintT(<<"MISMATCH", t, k, "homologs", <<okOc, TRUE, e.sane>>, path, {}>>))
     ELSE IF okOc /\ wf /\ e.sane /\ Below(e.rmsd2q, W) THEN TRUE
     ELSE PrintT(<<"MISMATCH", t, k, "homologs", <<okOc, wf, e.sane>>, path, IF wf THEN {<<1, W>>} ELSE {}>>)

JudgeFar(t, k, e) ==
  LET bc == Broadcast(e.fd, e.md)
      okOc == bc[1] = "ok" /\ e.oc = "ok"
      okN == Len(e.qfit) = bc[2] /\ Len(e.qwit) = bc[2] /\ e.nfit >= 1
      bad == IF okN THEN {j \in DOMAIN e.qfit : ~FarBelow(e.qfit[j], e.qwit[j], e.nfit)} ELSE {}
  IN IF okOc /\ okN /\ e.sane /\ bad = {} THEN TRUE
     ELSE PrintT(<<"MISMATCH", t, k, "far", <<okOc, okN, e.sane>>, bc[1], {<<j, <<e.qwit[j], UlpUnits * FarAllowUlps(e.nfit)>>>> : j \in bad}>>)

Judge(t, k) ==
  LET e == Tr[t][k] IN
  CASE e.op = "fit" -> JudgeFit(t, k, e)
    [] e.op = "far" -> JudgeFar(t, k, e)
    [] e.op = "outliers" -> JudgeOutliers(t, k, e)
    [] e.op = "homologs" -> JudgeHomologs(t, k, e)
    [] OTHER -> PrintT(<<"MISMATCH", t, k, "unknown op", <<>>, "", {}>>)

Init == trcNo \in 1..Len(Tr) /\ evNo = 0
Next == /\ evNo < Len(Tr[trcNo])
        /\ evNo' = evNo + 1
        /\ UNCHANGED trcNo
        /\ Judge(trcNo, evNo + 1)
Spec == Init /\ [][Next]_tvars
ASSUME Below(0, <<0, 8>>) /\ Below(3, <<0, 8>>) /\ ~Below(4, <<0, 8>>) /\ Below(5003, <<1, 2>>) /\ ~Below(5004, <<1, 2>>)
=============================================================================
