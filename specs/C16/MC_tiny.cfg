SPECIFICATION Spec
CONSTANTS
  Tier = "tiny"
INVARIANT InvClaims
CHECK_DEADLOCK FALSE
