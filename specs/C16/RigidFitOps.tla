------------------------------- MODULE RigidFitOps -------------------------------
(* C16: superimposition (biotite.structure.superimpose, AffineTransformation, rmsd) on the
   integer lattice.

   What a TLA+ model can decide here, and what it cannot, is stated once:
   * DECIDED.  (a) the algebra of AffineTransformation: apply(x) = R.(x + c) + t model by
     model, as_matrix() = T(t).R.T(c) as 4x4 matrices, the broadcasting case analysis of
     superimpose (array vs stack for fixed and mobile), the shape / count refusals;
     (b) exact lattice WITNESSES for the optimum: for point sets on the lattice and the 24
     proper rotations h of the cube, the centred squared deviation of the placement h is an
     exact rational UPPER bound W of the minimal mean squared deviation.  For a mobile set
     that is a proper rigid copy W = 0; for a mirrored copy of a set of rank <= 2 also W = 0
     (some proper h maps the set onto its mirror image - found by TLC); for a mirrored chiral
     set W > 0.  The real superimpose must return a proper rotation whose RMSD does not exceed
     sqrt(W): necessary conditions of optimality that a missing centring, a transposed
     rotation or a missing reflection correction violate.
   * NOT DECIDED.  That no other rigid placement is better than the returned one for noisy /
     non-congruent inputs (the optimum involves singular values, which are outside integer
     arithmetic); only W bounds it from above.

   Squared deviations are kept integer by scaling with the number n of fitted atoms:
   n^2 * Sum |F_i - cF - h(M_i - cM)|^2 = Sum |n F_i - sF - h(n M_i - sM)|^2, sF, sM the
   coordinate sums.  A bound is a rational <<num, den>> for the MEAN squared deviation. *)
EXTENDS Lattice

(* ------------------------------------------------------------------ affine transformations *)
\* one transformation: [c |-> centre translation, R |-> matrix, t |-> target translation]
Xf(c, R, t) == [c |-> c, R |-> R, t |-> t]
ApplyXf(T, x) == VAdd(MatVec(T.R, VAdd(x, T.c)), T.t)
ApplyXfSeq(T, X) == [k \in DOMAIN X |-> ApplyXf(T, X[k])]

\* 4x4 matrices as <<row1..row4>>
Mat4Mul(A, B) == [i \in 1..4 |-> [j \in 1..4 |-> A[i][1] * B[1][j] + A[i][2] * B[2][j] + A[i][3] * B[3][j] + A[i][4] * B[4][j]]]
TransMat4(v) == <<<<1, 0, 0, v[1]>>, <<0, 1, 0, v[2]>>, <<0, 0, 1, v[3]>>, <<0, 0, 0, 1>>>>
RotMat4(R) == <<<<R[1][1], R[1][2], R[1][3], 0>>, <<R[2][1], R[2][2], R[2][3], 0>>, <<R[3][1], R[3][2], R[3][3], 0>>, <<0, 0, 0, 1>>>>
\* as_matrix(): target_translation_mat @ rotation_mat @ center_translation_mat
AsMatrix(T) == Mat4Mul(Mat4Mul(TransMat4(T.t), RotMat4(T.R)), TransMat4(T.c))
Mat4Vec(A, x) == [i \in 1..4 |-> A[i][1] * x[1] + A[i][2] * x[2] + A[i][3] * x[3] + A[i][4]]   \* A.(x,1)
Tup4(f) == <<f[1], f[2], f[3], f[4]>>
Mat4Tup(A) == <<Tup4(A[1]), Tup4(A[2]), Tup4(A[3]), Tup4(A[4])>>

(* apply() on structures: `depth` 0 = one array (n,3), k >= 1 = a stack of k models.
   The number of models must equal the number of transformations (an array counts as 1). *)
ModelCount(depth) == IF depth = 0 THEN 1 ELSE depth
ApplyOutcome(nT, depth) == IF ModelCount(depth) = nT THEN "ok" ELSE "Rejected"
\* model-wise application: models[k] transformed by Ts[k]
ApplyModels(Ts, models) == [k \in DOMAIN models |-> ApplyXfSeq(Ts[k], models[k])]

(* ------------------------------------------------------------------ superimpose: broadcasting *)
(* superimpose(fixed, mobile): fd, md = depth of fixed / mobile (0 = array).
   Result <<outcome, number of transformations, fitted depth>>; transformation k fits mobile
   model min(k, |mobile|) onto fixed model min(k, |fixed|).
     array , array      1 transformation, fitted is an array
     array , stack m    m transformations (every model onto the one fixed structure)
     stack 1, array     1 transformation
     stack m, stack m   m transformations, model-wise
     stack 1, stack m   as array, stack m            (numpy broadcasting of the single model)
     stack m, stack k   (m # k, both > 1) refused: the documentation demands equal counts
     stack m, array / stack 1 (m > 1): m transformations cannot be applied to one mobile
        model; the code refuses (IndexError).  The documentation neither promises nor
        excludes this combination, so the outcome is "Unspecified": a refusal is accepted,
        and so is a model-wise result. *)
Broadcast(fd, md) ==
  LET nf == ModelCount(fd)  nm == ModelCount(md) IN
  IF nf = nm THEN <<"ok", nf, md>>
  ELSE IF nf = 1 THEN <<"ok", nm, md>>
  ELSE IF nm = 1 THEN <<"Unspecified", nf, md>>
  ELSE <<"Rejected", 0, md>>
FixedOf(k, fd) == IF ModelCount(fd) = 1 THEN 1 ELSE k
MobileOf(k, md) == IF ModelCount(md) = 1 THEN 1 ELSE k

(* ------------------------------------------------------------------ lattice witnesses *)
\* positions (1-based) selected by a mask (sequence of BOOLEANs), or all
MaskSet(mask, n) == IF mask = <<>> THEN 1..n ELSE {k \in 1..n : mask[1][k]}
RECURSIVE SeqOfSet(_)
SeqOfSet(S) == IF S = {} THEN <<>> ELSE LET m == SetMin(S) IN <<m>> \o SeqOfSet(S \ {m})
Sub(P, A) == LET idx == SeqOfSet(A) IN [j \in DOMAIN idx |-> P[idx[j]]]

\* n^2 * (sum of squared deviations) of the placement "rotate the centred mobile set by h"
ScaledDev(F, M, h) ==
  LET n == Len(F)  sF == VSum(F)  sM == VSum(M)
  IN SumSeq([k \in DOMAIN F |-> Norm2(VSub(VSub(VScale(n, F[k]), sF), MatVec(h, VSub(VScale(n, M[k]), sM))))])

\* the best of the 24 lattice placements: an upper bound of the minimal mean squared deviation
WitnessBound(F, M) ==
  LET n == Len(F) IN <<SetMin({ScaledDev(F, M, h) : h \in Proper}), n * n * n>>
WitnessRot(F, M) == CHOOSE h \in Proper : ScaledDev(F, M, h) = WitnessBound(F, M)[1]
\* restricted to the atoms in A (pairs F[k], M[k], k in A)
WitnessBoundOn(F, M, A) == WitnessBound(Sub(F, A), Sub(M, A))
\* paired by two index sequences (homologs): F[fa[k]] with M[ma[k]]
WitnessBoundPairs(F, M, fa, ma) ==
  WitnessBound([k \in DOMAIN fa |-> F[fa[k]]], [k \in DOMAIN ma |-> M[ma[k]]])

\* index-preserving mirror symmetry: one of the proper lattice rotations maps the point
\* reflection of the set onto the set, atom by atom (possible exactly for rank <= 2)
MirrorSeq(P) == [k \in DOMAIN P |-> VNeg(P[k])]
IndexMirrorSymmetric(P) == WitnessBound(P, MirrorSeq(P))[1] = 0

\* the set lies in a mirror plane of the cube group: an improper element fixes every
\* difference vector (then rank <= 2)
InLatticeMirror(P) == \E r \in Improper : \A k \in DOMAIN P : MatVec(r, VSub(P[k], P[1])) = VSub(P[k], P[1])

\* the rigid motion fitting M = g(P) + t onto P is unique iff P has rank >= 2
FitUnique(P) == Rank(P) >= 2
=============================================================================
