------------------------------- MODULE RigidFitOps -------------------------------
(* C16: superimposition (biotite.structure.superimpose, AffineTransformation, rmsd) on the
   integer lattice.

   What a TLA+ model can decide here, and what it cannot, is stated once:
   * DECIDED.  (a) the algebra of AffineTransformation: apply(x) = R.(x + c) + t model by
     model, as_matrix() = T(t).R.T(c) as 4x4 matrices, the broadcasting case analysis of
     superimpose (array vs stack for fixed and mobile), the shape / count refusals;
     (b) exact lattice WITNESSES for the optimum: for point sets on the lattice and the 24
     proper rotations h of the cube, the centred squared deviation of the placement h is an
     exact rational UPPER bound W of the minimal mean squared deviation.  For a mobile set
     that is a proper rigid copy W = 0; for a mirrored copy of a set of rank <= 2 also W = 0
     (some proper h maps the set onto its mirror image - found by TLC); for a mirrored chiral
     set W > 0.  The real superimpose must return a proper rotation whose RMSD does not exceed
     sqrt(W): necessary conditions of optimality that a missing centring, a transposed
     rotation or a missing reflection correction violate.
   * NOT DECIDED.  That no other rigid placement is better than the returned one for noisy /
     non-congruent inputs (the optimum involves singular values, which are outside integer
     arithmetic); only W bounds it from above.

   Squared deviations are kept integer by scaling with the number n of fitted atoms:
   n^2 * Sum |F_i - cF - h(M_i - cM)|^2 = Sum |n F_i - sF - h(n M_i - sM)|^2, sF, sM the
   coordinate sums.  A bound is a rational <<num, den>> for the MEAN squared deviation. *)
EXTENDS Lattice

(* ------------------------------------------------------------------ affine transformations *)
\* one transformation: [c |-> centre translation, R |-> matrix, t |-> target translation]
Xf(c, R, t) == [c |-> c, R |-> R, t |-> t]
ApplyXf(T, x) == VAdd(MatVec(T.R, VAdd(x, T.c)), T.t)
ApplyXfSeq(T, X) == [k \in DOMAIN X |-> ApplyXf(T, X[k])]

\* 4x4 matrices as <<row1..row4>>
Mat4Mul(A, B) == [i \in 1..4 |-> [j \in 1..4 |-> A[i][1] * B[1][j] + A[i][2] * B[2][j] + A[i][3] * B[3][j] + A[i][4] * B[4][j]]]
TransMat4(v) == <<<<1, 0, 0, v[1]>>, <<0, 1, 0, v[2]>>, <<0, 0, 1, v[3]>>, <<0, 0, 0, 1>>>>
RotMat4(R) == <<<<R[1][1], R[1][2], R[1][3], 0>>, <<R[2][1], R[2][2], R[2][3], 0>>, <<R[3][1], R[3][2], R[3][3], 0>>, <<0, 0, 0, 1>>>>
\* as_matrix(): target_translation_mat @ rotation_mat @ center_translation_mat
AsMatrix(T) == Mat4Mul(Mat4Mul(TransMat4(T.t), RotMat4(T.R)), TransMat4(T.c))
Mat4Vec(A, x) == [i \in 1..4 |-> A[i][1] * x[1] + A[i][2] * x[2] + A[i][3] * x[3] + A[i][4]]   \* A.(x,1)
Tup4(f) == <<f[1], f[2], f[3], f[4]>>
Mat4Tup(A) == <<Tup4(A[1]), Tup4(A[2]), Tup4(A[3]), Tup4(A[4])>>

(* apply() on structures: `depth` 0 = one array (n,3), k >= 1 = a stack of k models.
   The number of models must equal the number of transformations (an array counts as 1). *)
ModelCount(depth) == IF depth = 0 THEN 1 ELSE depth
ApplyOutcome(nT, depth) == IF ModelCount(depth) = nT THEN "ok" ELSE "Rejected"
\* model-wise application: models[k] transformed by Ts[k]
ApplyModels(Ts, models) == [k \in DOMAIN models |-> ApplyXfSeq(Ts[k], models[k])]

(* ------------------------------------------------------------------ superimpose: broadcasting *)
(* superimpose(fixed, mobile): fd, md = depth of fixed / mobile (0 = array).
   Result <<outcome, number of transformations, fitted depth>>; transformation k fits mobile
   model min(k, |mobile|) onto fixed model min(k, |fixed|).
     array , array      1 transformation, fitted is an array
     array , stack m    m transformations (every model onto the one fixed structure)
     stack 1, array     1 transformation
     stack m, stack m   m transformations, model-wise
     stack 1, stack m   as array, stack m            (numpy broadcasting of the single model)
     stack m, stack k   (m # k, both > 1) refused: the documentation demands equal counts
     stack m, array / stack 1 (m > 1): m transformations cannot be applied to one mobile
        model; the code refuses (IndexError).  The documentation neither promises nor
        excludes this combination, so the outcome is "Unspecified": a refusal is accepted,
        and so is a model-wise result. *)
Broadcast(fd, md) ==
  LET nf == ModelCount(fd)  nm == ModelCount(md) IN
  IF nf = nm THEN <<"ok", nf, md>>
  ELSE IF nf = 1 THEN <<"ok", nm, md>>
  ELSE IF nm = 1 THEN <<"Unspecified", nf, md>>
  ELSE <<"Rejected", 0, md>>
FixedOf(k, fd) == IF ModelCount(fd) = 1 THEN 1 ELSE k
MobileOf(k, md) == IF ModelCount(md) = 1 THEN 1 ELSE k

(* ------------------------------------------------------------------ lattice witnesses *)
\* positions (1-based) selected by a mask (sequence of BOOLEANs), or all
MaskSet(mask, n) == IF mask = <<>> THEN 1..n ELSE {k \in 1..n : mask[1][k]}
RECURSIVE SeqOfSet(_)
SeqOfSet(S) == IF S = {} THEN <<>> ELSE LET m == SetMin(S) IN <<m>> \o SeqOfSet(S \ {m})
Sub(P, A) == LET idx == SeqOfSet(A) IN [j \in DOMAIN idx |-> P[idx[j]]]

\* n^2 * (sum of squared deviations) of the placement "rotate the centred mobile set by h"
ScaledDev(F, M, h) ==
  LET n == Len(F)  sF == VSum(F)  sM == VSum(M)
  IN SumSeq([k \in DOMAIN F |-> Norm2(VSub(VSub(VScale(n, F[k]), sF), MatVec(h, VSub(VScale(n, M[k]), sM))))])

\* the best of the 24 lattice placements: an upper bound of the minimal mean squared deviation
WitnessBound(F, M) ==
  LET n == Len(F) IN <<SetMin({ScaledDev(F, M, h) : h \in Proper}), n * n * n>>
WitnessRot(F, M) == CHOOSE h \in Proper : ScaledDev(F, M, h) = WitnessBound(F, M)[1]
\* restricted to the atoms in A (pairs F[k], M[k], k in A)
WitnessBoundOn(F, M, A) == WitnessBound(Sub(F, A), Sub(M, A))
\* paired by two index sequences (homologs): F[fa[k]] with M[ma[k]]
WitnessBoundPairs(F, M, fa, ma) ==
  WitnessBound([k \in DOMAIN fa |-> F[fa[k]]], [k \in DOMAIN ma |-> M[ma[k]]])

\* index-preserving mirror symmetry: one of the proper lattice rotations maps the point
\* reflection of the set onto the set, atom by atom (possible exactly for rank <= 2)
MirrorSeq(P) == [k \in DOMAIN P |-> VNeg(P[k])]
IndexMirrorSymmetric(P) == WitnessBound(P, MirrorSeq(P))[1] = 0

\* the set lies in a mirror plane of the cube group: an improper element fixes every
\* difference vector (then rank <= 2)
InLatticeMirror(P) == \E r \in Improper : \A k \in DOMAIN P : MatVec(r, VSub(P[k], P[1])) = VSub(P[k], P[1])

\* the rigid motion fitting M = g(P) + t onto P is unique iff P has rank >= 2
FitUnique(P) == Rank(P) >= 2

(* ------------------------------------------------------------------ forms of the coordinates *)
(* Coordinates reach superimpose() / apply() in different FORMS: ndarrays of any numeric dtype
   (the apply() docstring itself uses np.arange), contiguous or not, or AtomArray /
   AtomArrayStack.  The property quantifies over the point sets, not over their
   representation: every expected value of this module is independent of the form
   (FormIndependent is the explicit claim; the families carry the form as an input).
     f16 f32 f64  floating ndarrays        i32 i64   integer ndarrays (grid coordinates)
     f32s         non-contiguous view (every second row of a larger buffer)
     f64F         Fortran-ordered          i64s      integer view with a stride in the last axis
     atoms        AtomArray (depth 0) / AtomArrayStack (depth >= 1)
     f32m f64u i32u   instances of ndarray SUBCLASSES: a read-only numpy.memmap (a frame of a
                  trajectory file), a user subclass obtained with .view(Sub).  An instance of a
                  subclass IS an ndarray ("coordinates were given"): the result is coordinates,
                  transformed like those of a plain array.  (Masked arrays and numpy.matrix
                  change the meaning of the arithmetic and are not coordinates; Python lists
                  are not documented inputs.)
   Dom_Form: an integer form can only hold integer coordinates.  Values given as numerators
   over a denominator `den` (den = 2: half ticks, still exact in every float type) are
   representable in a form iff the form is not an integer one or every value is a multiple
   of den. *)
Forms == <<"f32", "f64", "f16", "i32", "i64", "atoms", "f32s", "f64F", "i64s", "f32m", "f64u", "i32u">>
IntForm(f) == f \in {"i32", "i64", "i64s", "i32u"}
SubclassForm(f) == f \in {"f32m", "f64u", "i32u"}
\* forms that hold coordinates of a few hundred ticks with a fractional part to float32 precision
FineForm(f) == ~IntForm(f) /\ f # "f16"
FineForms == SelectSeq(Forms, FineForm)
AllMultiples(models, den) == \A j \in DOMAIN models : \A k \in DOMAIN models[j] : \A i \in 1..3 : models[j][k][i] % den = 0
Dom_Form(f, models, den) == IntForm(f) => AllMultiples(models, den)

(* The SELECTION of the fitted atoms ("all atom masks") is a set of positions; it reaches
   superimpose() as a NumPy index along the atom axis, in different forms:
     bool    boolean ndarray (the documented form)      blist   Python list of bools
     idx64 idx32   integer index array (np.where(mask)[0], the anchor indices the outlier /
                   homolog variants report), ascending     idxrev  the same, descending (a view)
     ilist   Python list of ints
   Every one of them denotes the same set of (fixed, mobile) atom pairs - sums over the pairs do
   not depend on their order - so MaskSet, and every expected value, is independent of the form.
   Dom_MaskForm: positions distinct and in range (they are built from a set), selection not empty;
   "none" exactly when no selection is given. *)
MaskForms == <<"bool", "idx64", "blist", "idx32", "idxrev", "ilist">>
IndexForm(kf) == kf \in {"idx64", "idx32", "idxrev", "ilist"}
Dom_MaskForm(kf, mask, n) ==
  IF mask = <<>> THEN kf = "none"
  ELSE kf \in {MaskForms[i] : i \in DOMAIN MaskForms} /\ Len(mask[1]) = n /\ \E k \in 1..n : mask[1][k]

(* dtype of the ROTATION array of a hand-built AffineTransformation: a lattice rotation is an
   integer matrix and is representable in every numeric dtype, independently of the translations
   (which may be half ticks and then need a floating dtype). *)
RForms == <<"i64", "f32", "i32", "f64">>
IntMatrix(R) == \A i \in 1..3 : \A j \in 1..3 : R[i][j] \in Int

(* ------------------------------------------------------------------ large structures *)
(* "All point sets with n >= 1 atoms": also thousands of atoms (sizes across the block / counter
   boundaries of an implementation: 4095 / 4096 / 4097, 8191 / 8193, 10^4).  A large structure is
   given RUN-LENGTH encoded: a sequence of blocks, block b = a small lattice set (scaled, placed
   at an offset) whose atoms are repeated cyclically until the block has counts[b] atoms.  The
   mobile structure is  g (F + d_b) + t : a rigid image in which whole blocks are displaced by
   d_b ("domain motion"; all d_b = 0: an exact rigid copy).
   WITNESS: the placement "rotate by g^-1, centroids aligned" (a proper rotation).  It leaves the
   deviation g^-1(...) = d_b - mean(d) on every atom of block b, so with m_b = counts[b], n = Sum m_b
       n^2 * msd  =  n * Sum m_b |d_b|^2  -  | Sum m_b d_b |^2          (exact integers)
   - a function of the multiplicities only: repeating a small set k-fold (all counts * k) leaves
   the bound unchanged (scaling lemma, claim), and on instances small enough to be expanded it IS
   the lattice deviation ScaledDev of the expanded sets (claim).  No rigid placement found by
   superimpose() may be worse than this witness. *)
BigWitness(counts, ds) ==
  LET n == SumSeq(counts)
      q == SumSeq([b \in DOMAIN counts |-> counts[b] * Norm2(ds[b])])
      s == VSum([b \in DOMAIN counts |-> VScale(counts[b], ds[b])])
  IN <<n * q - Norm2(s), n * n>>
BlockCycle(P, scale, off) == [k \in DOMAIN P |-> VAdd(off, VScale(scale, P[k]))]

(* numerators over den: the real transformation has centre c/den and target t/den (the
   rotation is not scaled); den * as_matrix() = [[den R, R c + t], [0, den]] and
   den * apply(x) = R (den x + c) + t *)
AsMatrixScaled(T, den) ==
  LET A == AsMatrix(T) IN
  [i \in 1..4 |-> [j \in 1..4 |-> IF j <= 3 THEN den * A[i][j] ELSE IF i <= 3 THEN A[i][4] ELSE den]]
ScaleModels(den, models) == [j \in DOMAIN models |-> [k \in DOMAIN models[j] |-> VScale(den, models[j][k])]]

(* ------------------------------------------------------------------ motions off the lattice *)
(* "All rigid motions": the cube group moves lattice sets onto lattice sets, but a SMALL
   rotation has no lattice image.  Rotations with rational entries come from integer
   quaternions q = <<a, b, c, d>>:  R(q) = I + QE(q) / QD(q)  with QD = |q|^2 and QE the integer
   matrix below; the angle is 2 atan(|(b,c,d)| / a): a large a gives a small rotation.  A
   structure F = C + P (P a small lattice set, C a centre that may lie far from the origin) and
   its image  M_k = C + R(q) P_k + t + noise_k  = F_k + QE(q) P_k / QD(q) + t + noise_k  are
   exact rationals; only the displacement numerators QE(q) P_k are formed (32-bit integers).

   WITNESS LAW.  The property says "no other rigid-body placement has a lower RMSD": every
   candidate placement is a witness.  The generator knows one: the inverse motion
   x |-> R(q)^T (x - C - t) + C, an AffineTransformation with centre translation -(C + t),
   rotation I + QE(q)^T / QD(q) and target translation C.  It maps the exact M_k onto
   F_k + R^T noise_k, so its mean squared deviation over the fitted atoms A is exactly
   Sum_{k in A} |noise_k|^2 / |A|  (a rotation preserves lengths) - 0 for an exact rigid copy.
   The real superimpose() must not be worse, up to float32 rounding of the coordinates:
       RMSD(fitted) <= RMSD(witness) + FarAllowUlps(|A|) * ulp,
   ulp = the float32 spacing at the largest coordinate magnitude.  Rounding allowance: the
   coordinates are float32 (1/2 ulp each), the centroids are float32 sums of |A| such values
   (worst case (|A|-1)/2 ulp), rotation and translations a few more: 8 + |A| ulps (measured on
   the unchanged code: at most 2.9 ulps for |A| <= 8).
   InverseLaw(q) is R^T R = I written without forming QD^2:
       (D I + E^T)(D I + E) = D^2 I   <=>   D (E + E^T) + E^T E = 0. *)
QD(q) == q[1] * q[1] + q[2] * q[2] + q[3] * q[3] + q[4] * q[4]
QE(q) == LET a == q[1]  b == q[2]  c == q[3]  d == q[4] IN
  << <<-2 * (c * c + d * d), 2 * (b * c - a * d), 2 * (b * d + a * c)>>,
     <<2 * (b * c + a * d), -2 * (b * b + d * d), 2 * (c * d - a * b)>>,
     <<2 * (b * d - a * c), 2 * (c * d + a * b), -2 * (b * b + c * c)>> >>
ZeroMat == <<Zero3, Zero3, Zero3>>
InverseLaw(q) == LET E == QE(q) IN
  MatAdd(MatScale(QD(q), MatAdd(E, Transpose(E))), MatMul(Transpose(E), E)) = ZeroMat
\* D R(q) as an integer matrix (small q only: entries of size |q|^2)
QRotScaled(q) == MatAdd(MatScale(QD(q), Id3), QE(q))
\* the generating motion's inverse as an AffineTransformation with rational entries:
\* centre translation ct[1..3] / ct[4], rotation I + Et / D, target translation C
FarWitness(q, C, t) ==
  [ct |-> <<-(C[1] * t[4] + t[1]), -(C[2] * t[4] + t[2]), -(C[3] * t[4] + t[3]), t[4]>>,
   Et |-> Transpose(QE(q)), D |-> QD(q), C |-> C]
\* exact mean squared deviation of the witness placement: noise nz = <<x, y, z, den>> on atom 1
FarWitnessMsd(nz, A) ==
  IF 1 \in A THEN <<nz[1] * nz[1] + nz[2] * nz[2] + nz[3] * nz[3], nz[4] * nz[4] * Cardinality(A)>>
  ELSE <<0, Cardinality(A)>>
FarAllowUlps(n) == 8 + n
\* measured RMSDs are logged in units of 1/UlpUnits ulp (floor)
UlpUnits == 16
FarBelow(qfit, qwit, n) == qfit <= qwit + 1 + UlpUnits * FarAllowUlps(n)
\* the exponent e with 2^e <= m < 2^(e+1): the float32 spacing at magnitude m is 2^(e-23)
UlpExp(m) == CHOOSE e \in 0..29 : 2 ^ e <= m /\ m < 2 ^ (e + 1)

(* ------------------------------------------------------------------ histories on one object *)
(* An AffineTransformation is an object with the attributes center_translation, rotation,
   target_translation and NO other state: the result of apply() / as_matrix() is a function of
   the current attributes only.  It does not depend on earlier accessor calls, and editing an
   array that an accessor returned ("scr": the caller scribbles on the last result in place)
   changes nothing.  Operations of a history:
     "mat"   as_matrix()                 "app"   apply(X)
     "scr"   the last returned array is overwritten in place by the caller
     "setR"  rotation           := Q . rotation            (attribute re-assigned)
     "sett"  target_translation := target_translation + dT (attribute re-assigned)
     "incc"  center_translation[first model] += dC          (attribute edited in place) *)
HistOpSet == {"mat", "app", "scr", "setR", "sett", "incc"}
IsAccessor(op) == op \in {"mat", "app"}
HistQ  == <<<<0, 0, 1>>, <<1, 0, 0>>, <<0, 1, 0>>>>        \* a third turn about (1,1,1)
HistDT == <<3, -1, 4>>
HistDC == <<1, 0, 2>>
HistEdit(Ts, op) ==
  CASE op = "setR" -> [j \in DOMAIN Ts |-> Xf(Ts[j].c, MatMul(HistQ, Ts[j].R), Ts[j].t)]
    [] op = "sett" -> [j \in DOMAIN Ts |-> Xf(Ts[j].c, Ts[j].R, VAdd(Ts[j].t, VAdd(HistDT, <<j, 0, 0>>)))]
    [] op = "incc" -> [j \in DOMAIN Ts |-> IF j = 1 THEN Xf(VAdd(Ts[j].c, HistDC), Ts[j].R, Ts[j].t) ELSE Ts[j]]
    [] OTHER -> Ts
\* what the accessor must return in the state Ts (numerators over den)
HistResult(Ts, op, models, den) ==
  CASE op = "mat" -> [j \in DOMAIN Ts |-> Mat4Tup(AsMatrixScaled(Ts[j], den))]
    [] op = "app" -> ApplyModels(Ts, ScaleModels(den, models))
    [] OTHER -> <<>>

(* ------------------------------------------------------------------ anchors of the homolog variant *)
(* superimpose_homologs chooses the initial anchors in one of two ways (documented):
   residue pairs of the sequence alignment with a POSITIVE substitution score, or - when fewer
   than min_anchors such pairs exist - all backbone atoms one-to-one in the given order
   ("fallback"; refused when the two structures have different numbers of backbone atoms).
   The alignment itself is C08's subject; decided here is only what does not need it:
     no residue pair scores positively  -> 0 < min_anchors alignment anchors -> fallback
     identical sequences                -> the identity alignment is the unique optimum
                                           (every self score is the row maximum and positive)
   In both cases residue i is paired with residue i, so the reported anchor lists must be
   equal position by position, whatever the outlier removal drops afterwards.
   PosScore is the sign pattern of BLOSUM62 on the residues of the synthetic CCD (bound to the
   real matrix by the driver). *)
Residues == {"ALA", "GLY", "SER"}
PosScore(a, b) == a = b \/ {a, b} = {"ALA", "SER"}
PosPairs(sF, sM) == {<<i, j>> \in (DOMAIN sF) \X (DOMAIN sM) : PosScore(sF[i], sM[j])}
HomologPath(sF, sM, minA) ==
  IF Len(sF) < minA \/ Len(sM) < minA THEN "open"          \* (the code refuses; not documented)
  ELSE IF PosPairs(sF, sM) = {} THEN (IF Len(sF) = Len(sM) THEN "fallback" ELSE "Rejected")
  ELSE IF sF = sM THEN "identity"
  ELSE "open"
PairedByPosition(path) == path \in {"fallback", "identity"}
=============================================================================
