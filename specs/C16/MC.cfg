SPECIFICATION Spec
CONSTANTS
  Tier = "quick"
INVARIANT InvClaims
CHECK_DEADLOCK FALSE
