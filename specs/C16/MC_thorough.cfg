SPECIFICATION Spec
CONSTANTS
  Tier = "thorough"
INVARIANT InvClaims
CHECK_DEADLOCK FALSE
