#!/bin/sh
# usage: mk_worktree.sh <dir>   — scratch worktree of /repo HEAD incl. the (untracked) compiled extensions
set -e
d="$1"
git -C /repo worktree add --detach "$d" HEAD >/dev/null 2>&1
cd /repo
find src -name '*.so' -o -name '*.c' -o -name '*.cpp' -o -name 'version.py' | while read f; do cp -p "$f" "$d/$f"; done
echo "$d ready"
