#!/bin/sh
# usage: try_mutant.sh <Cxx> <worktree> <N> [test dirs...]
# Confirms mutant N of a seeded-defect worktree (demo passes clean / fails mutated, existing
# tests pass mutated), then runs the property's quick check against the mutated sources
# (PYTHONPATH points the check at the worktree; generated-C mutants are compiled there).
prop=$1; wt=$2; n=$3; shift 3
cd "$wt" || exit 2
git checkout -q -- . ; export PYTHONPATH="$wt/src"
FLAGS="-shared -fPIC -O2 -w -DNPY_NO_DEPRECATED_API=NPY_1_7_API_VERSION -I/root/.pyenv/versions/3.12.1/include/python3.12 -I/venv/lib/python3.12/site-packages/numpy/_core/include"
build() { # $1 = path of .c/.cpp relative to worktree
  so="${1%.*}.cpython-312-x86_64-linux-gnu.so"
  case "$1" in *.cpp) g++ -std=c++11 $FLAGS "$1" -o "$so";; *) gcc $FLAGS "$1" -o "$so";; esac
}
echo "== clean demo"; /venv/bin/python mutants/demo_$n.py >/dev/null 2>&1; echo "clean demo exit=$?"
cfile=$(grep -m1 '^+++ ' mutants/mutant_$n.diff | sed 's/^+++ //; s/\t.*//' | grep -E '\.(c|cpp)$' | sed 's#^.*\(src/biotite/.*\)$#\1#')
case "$cfile" in ""|src/biotite/*) ;; *) cfile=$(find src/biotite -name "$(basename "$cfile")" | head -1);; esac
if [ -n "$cfile" ]; then
  cp "$cfile" /tmp/cfile.keep.$$
  patch -s "$cfile" mutants/mutant_$n.diff || exit 2
  build "$cfile"
else
  git apply mutants/mutant_$n.diff || exit 2
fi
echo "== mutated demo"; /venv/bin/python mutants/demo_$n.py >/dev/null 2>&1; echo "mutated demo exit=$?"
if [ $# -gt 0 ]; then
  echo "== existing tests (mutated): $*"; /venv/bin/python -m pytest -q -p no:cacheprovider "$@" -q 2>&1 | tail -2
fi
echo "== check $prop (mutated)"
(cd /verif && VERIF_EVIDENCE_DIR=/tmp/verif-evidence-mutated PYTHONPATH="$wt/src" timeout 3600 ./check $prop --tier quick --no-build > /tmp/try_${prop}_${n}.log 2>&1; echo "check exit=$?"; grep -c '^VIOLATION' /tmp/try_${prop}_${n}.log; grep -A6 'violations in' /tmp/try_${prop}_${n}.log | cut -c1-220 | head -8)
if [ -n "$cfile" ]; then
  cp /tmp/cfile.keep.$$ "$cfile"; rm -f /tmp/cfile.keep.$$
  build "$cfile"
else
  git checkout -q -- .
fi
