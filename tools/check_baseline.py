#!/venv/bin/python
"""Compare a junit XML of the repository suite with /root/.vp/BASELINE.json stable_pass."""
import json
import sys
import xml.etree.ElementTree as ET

base = set(json.load(open("/root/.vp/BASELINE.json"))["stable_pass"])
root = ET.parse(sys.argv[1]).getroot()
passed = set()
for tc in root.iter("testcase"):
    if not any(ch.tag in ("failure", "error", "skipped") for ch in tc):
        passed.add(f"{tc.get('classname')}::{tc.get('name')}")
missing = sorted(base - passed)
print(f"baseline stable_pass={len(base)} passed_now={len(passed)} missing={len(missing)} extra={len(passed - base)}")
for m in missing[:40]:
    print("  NOT PASSING:", m)
sys.exit(1 if missing else 0)
