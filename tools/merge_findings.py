#!/venv/bin/python
"""Merge findings.d/*.json into KNOWN_FINDINGS.json (entries keyed by id; findings.d wins on
status/commit updates) and regenerate DESIGN.md's table of repaired defects (section 9.3)."""
import glob, json, os, subprocess
V = "/verif"
main = json.load(open(f"{V}/KNOWN_FINDINGS.json"))
by_id = {e["id"]: e for e in main["findings"]}
for p in sorted(glob.glob(f"{V}/findings.d/*.json")):
    for e in json.load(open(p)).get("findings", []):
        by_id[e["id"]] = e
main["findings"] = sorted(by_id.values(), key=lambda e: (e["property"], e["status"], e["id"]))
json.dump(main, open(f"{V}/KNOWN_FINDINGS.json", "w"), indent=1)
fixed = [e for e in main["findings"] if e["status"] == "fixed"]
known = [e for e in main["findings"] if e["status"] == "known"]
rows = []
for e in fixed:
    c = e.get("commit", "")
    subj = subprocess.run(["git", "-C", "/repo", "log", "--format=%s", "-1", c], capture_output=True, text=True).stdout.strip()
    rows.append(f"| {e['property']} | {c} | {e['id']} | {subj[5:] if subj.startswith('fix: ') else subj} |")
krows = [f"| {e['property']} | {e['id']} | {e['where'].split(' (')[0][:90]} |" for e in known]
s = open(f"{V}/DESIGN.md").read()
start = s.index("### 9.3 Defects found by the checks and repaired in /repo")
end = s.index("### 9.5 Seeded changes")
sec = ("### 9.3 Defects found by the checks and repaired in /repo (`fix:` commits)\n\n"
       f"{len(fixed)} defects, each one minimal unguarded commit; the entry in KNOWN_FINDINGS.json has status\n"
       "`fixed` and suppresses nothing (the classifier id is reported as a VIOLATION if the defect returns).\n\n"
       "| property | commit | finding id | repair (commit subject) |\n|---|---|---|---|\n" + "\n".join(rows) + "\n\n"
       "After these commits the repository suite (guard off, unedited) still passes its 7,701\n"
       "baseline tests (`tools/check_baseline.py` on the junit file of the BASELINE.json command).\n\n"
       f"### 9.3b Known findings (recorded, not repaired): {len(known)}\n\n"
       "Defects in `.pyx` files cannot be repaired here (Cython is not installed, the generated C is\n"
       "not tracked); the others are conventions of the file formats or repairs that are not small.\n"
       "Each has a reproducer and, where one exists, a proposed patch in `specs/Cxx/NOTES.md`.\n\n"
       "| property | finding id | where |\n|---|---|---|\n" + "\n".join(krows) + "\n\n")
s = s[:start] + sec + s[end:]
open(f"{V}/DESIGN.md", "w").write(s)
print(len(fixed), "fixed,", len(known), "known")
