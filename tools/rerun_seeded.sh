#!/bin/sh
# usage: rerun_seeded.sh <Cxx> [seeded-id ...]
# Re-confirms that the property's quick check still catches its kept seeded changes.  Each
# change is applied in a throw-away worktree of /repo HEAD (generated-C changes are compiled
# there) and the check is pointed at it with PYTHONPATH; /repo itself is not touched.
# Prints one line per change: <id> caught|MISSED|machinery (exit code, #VIOLATION lines).
prop=$1; shift
ids="$*"; [ -n "$ids" ] || ids=$(ls -d /verif/seeded/$prop-* 2>/dev/null | xargs -n1 basename)
wt=/tmp/reseed-$prop-$$
/verif/tools/mk_worktree.sh $wt >/dev/null || exit 2
FLAGS="-shared -fPIC -O2 -w -DNPY_NO_DEPRECATED_API=NPY_1_7_API_VERSION -I/root/.pyenv/versions/3.12.1/include/python3.12 -I/venv/lib/python3.12/site-packages/numpy/_core/include"
build() { so="${1%.*}.cpython-312-x86_64-linux-gnu.so"; case "$1" in *.cpp) g++ -std=c++11 $FLAGS "$1" -o "$so";; *) gcc $FLAGS "$1" -o "$so";; esac; }
cd $wt
for id in $ids; do
  d=/verif/seeded/$id
  cfile=$(grep -m1 '^+++ ' $d/patch.diff | sed 's/^+++ //; s/\t.*//' | grep -E '\.(c|cpp)$' | sed 's#^.*\(src/biotite/.*\)$#\1#')
  case "$cfile" in ""|src/biotite/*) ;; *) cfile=$(find src/biotite -name "$(basename "$cfile")" | head -1);; esac
  if [ -n "$cfile" ]; then cp "$cfile" /tmp/keep.$$; patch -s "$cfile" $d/patch.diff || { echo "$id patch-failed"; cp /tmp/keep.$$ "$cfile"; continue; }; build "$cfile"
  else git apply $d/patch.diff || { echo "$id patch-failed"; git checkout -q -- .; continue; }; fi
  PYTHONPATH=$wt/src /venv/bin/python $d/demo.py >/dev/null 2>&1; demo=$?
  (cd /verif && VERIF_EVIDENCE_DIR=/tmp/verif-evidence-mutated PYTHONPATH=$wt/src timeout 2400 ./check $prop --tier quick --no-build > /tmp/reseed_$id.log 2>&1); rc=$?
  nv=$(grep -c '^VIOLATION' /tmp/reseed_$id.log)
  case $rc in 1) [ "$nv" -gt 0 ] && v=caught || v=machinery;; 0) v=MISSED;; *) v=machinery;; esac
  echo "$id $v (exit $rc, $nv VIOLATION lines, demo exit $demo)"
  if [ -n "$cfile" ]; then cp /tmp/keep.$$ "$cfile"; build "$cfile"; else git checkout -q -- .; fi
done
cd /; git -C /repo worktree remove --force $wt
