#!/venv/bin/python
import glob, json, sys
pid = sys.argv[1]
lines = []
for p in sorted(glob.glob(f"/verif/seeded/{pid}-*/meta.json")):
    m = json.load(open(p))
    lines.append(f"  - {m['id'].split('-',1)[1]}: breaks \"{m.get('breaks','')}\"; needs {m.get('needs','')}")
print("This is a SIXTH round. Earlier rounds already produced the changes listed below for this property. "
      "Do not repeat them or close variants of them. Look at code sites, functions, options and clauses of the "
      "property statement that NONE of them touches (read the statement again clause by clause, and the anchored "
      "files function by function, and pick the least obvious ones — helper functions used by the anchored code, "
      "rarely used keyword options, alternative input types the API accepts, error paths). Give preference to defects "
      "that only show after a *sequence* of operations on the same object, through an *interaction* of two features "
      "or options, at a *boundary* of sizes/widths/counts/dtypes, for an *alternative but legal form of the input* "
      "(other dtype, byte order, non-contiguous view, list instead of array, same object passed twice, subclass), "
      "or through *two cooperating code sites* that each look fine alone.\n" + "\n".join(lines) + "\n\n")
