#!/venv/bin/python
"""Regenerate /verif/MANIFEST.json from the drivers' MANIFEST dictionaries."""
import importlib
import json
import os
import sys

VERIF = os.path.dirname(os.path.dirname(os.path.abspath(__file__)))
sys.path.insert(0, VERIF)
BASE = json.load(open("/root/.vp/BASELINE.json"))

props = [json.loads(l) for l in open(os.path.join(VERIF, "properties.jsonl"))]
# only properties whose check has been reviewed and integrated by the coordinator are claimed
INTEGRATED = set(open(os.path.join(VERIF, "tools", "integrated.txt")).read().split())
checks, na = [], []
for p in props:
    pid = p["id"]
    path = os.path.join(VERIF, "harness", "drivers", pid.lower() + ".py")
    m = None
    if os.path.exists(path) and pid in INTEGRATED:
        m = importlib.import_module("harness.drivers." + pid.lower())
    if m is None or not hasattr(m, "MANIFEST"):
        na.append({"property_id": pid, "reason": "check not built yet in this round (planned in DESIGN.md section 4); nothing is claimed for it"})
        continue
    M = m.MANIFEST
    if M.get("not_applicable"):
        na.append({"property_id": pid, "reason": M["not_applicable"]})
        continue
    checks.append({
        "property_id": pid,
        "quick_cmd": f"./check {pid} --tier quick",
        "thorough_cmd": f"./check {pid} --tier thorough",
        "evidence_file": f"/verif/evidence/{pid}.json",
        "replay_cmd_template": f"./check {pid} --replay {{path}}",
        "engine": "tlabind",
        "level_claimed": {"category": "model_checking", "text": M["level_text"],
                          "design_ref": M.get("design_ref", f"DESIGN.md section 4, {pid}")},
        "level_note": M["level_note"],
        "technique": M["technique"],
    })
man = {
    "version": 1,
    "setup_cmd": "/venv/bin/python -m harness.tlabind.setup",
    "hooks": {
        "guard": "BIOTITE_VERIF",
        "enable": "no hook inside /repo is needed: the library is sequential and its public API exposes the abstract state; recorders wrap public callables from outside (harness/drivers). Extension modules are rebuilt from the generated C next to each .pyx when it changed (harness/tlabind/build.py).",
        "baseline_off_cmd": BASE["cmd"].replace("--junitxml=<file>", "--junitxml=/tmp/verif-baseline.junit.xml"),
        "source_commits": [],
        "add_only": True,
    },
    "engines": [{
        "name": "tlabind",
        "path": "/verif/harness/tlabind",
        "serves_properties": [c["property_id"] for c in checks],
        "kind_free_text": "explicit TLA+ specifications (specs/) model-checked by TLC 1.8; bound to the implementation in both directions: TLC-generated behaviours/input-output pairs replayed into the real API in crash-isolated child processes, and traces recorded from the real API validated by TLC against the same operators",
    }],
    "checks": checks,
    "not_applicable": na,
    "notes": "See DESIGN.md. Exit codes: 0 property held on everything explored (KNOWN-FINDING lines for listed defects), 1 VIOLATION, 2 machinery failure.",
}
with open(os.path.join(VERIF, "MANIFEST.json"), "w") as f:
    json.dump(man, f, indent=1)
print(f"MANIFEST.json: {len(checks)} checks, {len(na)} not claimed")
