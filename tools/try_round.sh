#!/bin/sh
# usage: try_round.sh <prefix> <Cxx>  — try every delivered mutant of /tmp/<prefix>-Cxx (sequentially), log to /tmp/round_<Cxx>.log
pre=$1; p=$2; wt=/tmp/$pre-$p
case $p in
 C03) t="tests/sequence/test_alphabet.py tests/sequence/test_sequence.py tests/sequence/test_seqtypes.py tests/sequence/test_codon.py";;
 C04) t="tests/structure/io/test_pdbx.py";;
 C07) t="tests/structure/io/test_pdb.py";;
 C08) t="tests/sequence/align/test_pairwise.py tests/sequence/align/test_matrix.py";;
 C09) t="tests/sequence/align/test_banded.py tests/sequence/align/test_localgapped.py tests/sequence/align/test_localungapped.py";;
 C10) t="tests/sequence/align/test_kmertable.py tests/sequence/align/test_selector.py tests/sequence/align/test_kmeralphabet.py tests/sequence/align/test_kmersimilarity.py";;
 C12) t="tests/sequence/io";;
 C13) t="tests/sequence/test_annotation.py";;
 C15) t="tests/structure/test_geometry.py tests/structure/test_box.py";;
 C17) t="tests/structure/test_residues.py tests/structure/test_chains.py tests/structure/test_molecules.py";;
 C18) t="tests/structure/io/test_mol.py";;
 C01) t="tests/structure/test_atoms.py";;
 C02) t="tests/structure/test_bonds.py";;
 C05) t="tests/structure/io/test_pdbx.py";;
 C11) t="tests/sequence/align/test_alignment.py tests/sequence/align/test_cigar.py tests/sequence/align/test_multiple.py";;
 C14) t="tests/structure/test_celllist.py";;
 *) t="";;
esac
tt=""; for f in $t; do [ -e $wt/$f ] && tt="$tt $f"; done
: > /tmp/round_$p.log
for n in 1 2 3; do
  [ -f $wt/mutants/mutant_$n.diff ] || continue
  echo "##### $p mutant $n" >> /tmp/round_$p.log
  /verif/tools/try_mutant.sh $p $wt $n $tt >> /tmp/round_$p.log 2>&1
done
echo "done $p"
