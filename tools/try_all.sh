#!/bin/sh
# try_all.sh <round-prefix> <Cxx>... : try mutants 1..3 of each worktree /tmp/<prefix>-Cxx, one summary line each in /tmp/tryall.log
pre=$1; shift
for p in "$@"; do for n in 1 2 3; do
  [ -f /tmp/$pre-$p/mutants/mutant_$n.diff ] || continue
  r=$(/verif/tools/try_mutant.sh $p /tmp/$pre-$p $n 2>&1 | grep -E 'demo exit|check exit' | tr '\n' ' ')
  cp /tmp/try_${p}_${n}.log /tmp/try3_${p}_${n}.log 2>/dev/null
  echo "$p m$n: $r" >> /tmp/tryall.log
done; done
