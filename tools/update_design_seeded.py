#!/venv/bin/python
"""Regenerate DESIGN.md section 9.5 (table of seeded changes) from /verif/seeded/*/meta.json.
Section 9.5 must stay the last section of DESIGN.md."""
import glob, json
rows = []
for d in sorted(glob.glob('/verif/seeded/*/meta.json')):
    m = json.load(open(d))
    rows.append(f"| {m['id']} | {m.get('breaks','')} | {m.get('needs','')} | {m.get('check_result','')} |")
p = '/verif/DESIGN.md'
s = open(p).read()
marker = "| id | breaks | needs | result |\n|---|---|---|---|\n"
s = s[:s.index(marker) + len(marker)] + "\n".join(rows) + "\n"
open(p, 'w').write(s)
print(len(rows), "seeded changes listed")
