#!/venv/bin/python
"""mk_extra_prompt.py <Xnn> -> /tmp/build-Xnn-prompt.txt (brief for a builder of a specification beyond the listed properties)."""
import json, os, sys
here = os.path.dirname(os.path.abspath(__file__))
xid = sys.argv[1]
d = json.load(open(os.path.join(here, "extras.json")))[xid]
t = open(os.path.join(here, "extra_prompt.txt")).read()
t = (t.replace("{XID}", xid).replace("{xid}", xid.lower()).replace("{TITLE}", d["title"])
     .replace("{STATEMENT}", d["statement"]).replace("{ANCHORS}", d["anchors"]).replace("{HINTS}", d["hints"]))
out = f"/tmp/build-{xid}-prompt.txt"
open(out, "w").write(t)
print(out)
