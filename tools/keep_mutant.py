#!/venv/bin/python
"""keep_mutant.py <prop> <worktree> <n> <slug> <json meta extras>: store a confirmed seeded change under /verif/seeded/."""
import json, os, shutil, sys
prop, wt, n, slug = sys.argv[1:5]
extra = json.loads(sys.argv[5]) if len(sys.argv) > 5 else {}
d = f"/verif/seeded/{prop}-{slug}"
os.makedirs(d, exist_ok=True)
shutil.copy(f"{wt}/mutants/mutant_{n}.diff", f"{d}/patch.diff")
shutil.copy(f"{wt}/mutants/demo_{n}.py", f"{d}/demo.py")
notes = open(f"{wt}/mutants/notes.md").read() if os.path.exists(f"{wt}/mutants/notes.md") else ""
meta = {"property": prop, "id": f"{prop}-{slug}", "source": "independent sub-agent given only the property text and a scratch worktree",
        "apply": "git -C /repo apply patch.diff" if not any(x in open(f"{d}/patch.diff").read()[:400] for x in (".c\t", ".c ", ".cpp")) else "patch /repo/src/biotite/structure/bonds.c patch.diff (generated C; the check's S0 stage rebuilds the extension)",
        "demo": "PYTHONPATH=<tree>/src /venv/bin/python demo.py  (exit 0 clean, exit 1 with the change)"}
meta.update(extra)
json.dump(meta, open(f"{d}/meta.json", "w"), indent=1)
open(f"{d}/agent_notes.md", "w").write(notes)
print(d)
