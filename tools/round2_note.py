#!/venv/bin/python
import glob, json, sys
pid = sys.argv[1]
lines = []
for p in sorted(glob.glob(f"/verif/seeded/{pid}-*/meta.json")):
    m = json.load(open(p))
    lines.append(f"  - {m['id'].split('-',1)[1]}: breaks \"{m.get('breaks','')}\"; needs {m.get('needs','')}")
print("This is a SECOND round. An earlier round already produced the changes listed below for this property. "
      "Do not repeat them or close variants of them: look at different code sites and at clauses of the property "
      "they leave untouched, and give preference to defects that only show after a *sequence* of operations, through "
      "an *interaction* of two features or options, at a *boundary* of sizes/widths/counts, or through *two cooperating "
      "code sites* that each look fine alone.\n" + "\n".join(lines) + "\n\n")
