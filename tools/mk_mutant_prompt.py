#!/venv/bin/python
"""Print the prompt for a seeded-defect sub-agent: only the property text and its worktree."""
import json, sys
pid, wt = sys.argv[1], sys.argv[2]
cnote = sys.argv[3] if len(sys.argv) > 3 else ""
round2 = sys.argv[4] if len(sys.argv) > 4 else ""
for l in open("/verif/properties.jsonl"):
    p = json.loads(l)
    if p["id"] == pid:
        break
t = open("/verif/tools/mutant_prompt.txt").read()
print(t.replace("{WT}", wt).replace("{PID}", pid).replace("{TITLE}", p["title"])
       .replace("{STATEMENT}", p["statement"]).replace("{QUANT}", p["quantifier"]["text"])
       .replace("{FILES}", ", ".join(p["anchors"]["files"])).replace("{CNOTE}", cnote).replace("{ROUND2}", round2))
