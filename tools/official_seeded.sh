#!/bin/sh
# usage: official_seeded.sh [seeded-id ...]      (default: all)
# Runs each kept seeded change the official way: apply it to /repo itself
# (git -C /repo apply, or patch for generated-C changes, which the check's S0 stage compiles),
# run the property's quick check, undo the change straight afterwards.  Writes
# /verif/seeded/<id>/official_run.json and prints one line per change.
# Must not run while anything else uses /repo.
cd /verif
ids="$*"; [ -n "$ids" ] || ids=$(ls seeded)
for id in $ids; do
  d=/verif/seeded/$id; prop=${id%%-*}
  [ -f $d/patch.diff ] || continue
  if ! git -C /repo diff --quiet; then echo "/repo has uncommitted changes - refusing"; exit 2; fi
  cfile=$(grep -m1 '^+++ ' $d/patch.diff | sed 's/^+++ //; s/\t.*//' | grep -E '\.(c|cpp)$' | sed 's#^.*\(src/biotite/.*\)$#\1#')
  case "$cfile" in ""|src/biotite/*) ;; *) cfile=$(cd /repo && find src/biotite -name "$(basename "$cfile")" | head -1);; esac
  if [ -n "$cfile" ]; then
    cp /repo/$cfile /tmp/official.keep.$$
    patch -s /repo/$cfile $d/patch.diff || { echo "$id patch-failed"; cp /tmp/official.keep.$$ /repo/$cfile; continue; }
  else
    git -C /repo apply $d/patch.diff || { echo "$id apply-failed"; git -C /repo checkout -- .; continue; }
  fi
  t0=$(date +%s)
  VERIF_EVIDENCE_DIR=/tmp/verif-evidence-mutated timeout 2400 ./check $prop --tier quick > /tmp/official_$id.log 2>&1; rc=$?
  nv=$(grep -c '^VIOLATION' /tmp/official_$id.log)
  if [ -n "$cfile" ]; then cp /tmp/official.keep.$$ /repo/$cfile; rm -f /tmp/official.keep.$$; /venv/bin/python -m harness.tlabind.build >/dev/null 2>&1
  else git -C /repo checkout -- .; fi
  case $rc in 1) [ "$nv" -gt 0 ] && v=caught || v=machinery;; 0) v=MISSED;; *) v=machinery;; esac
  printf '{"id": "%s", "applied_to": "/repo", "check": "./check %s --tier quick", "exit": %s, "violation_lines": %s, "verdict": "%s", "wall_s": %s}\n' "$id" "$prop" "$rc" "$nv" "$v" "$(( $(date +%s) - t0 ))" > $d/official_run.json
  echo "$id $v (exit $rc, $nv VIOLATION lines)"
done
git -C /repo status --short | head -3
