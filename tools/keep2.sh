#!/bin/sh
# keep2.sh <prop> <worktree> <n> <slug> <breaks> <needs> <result>   (round-2 convenience wrapper)
/verif/tools/keep_mutant.py "$1" "$2" "$3" "$4" "$(/venv/bin/python -c 'import json,sys; print(json.dumps({"breaks":sys.argv[1],"needs":sys.argv[2],"check_result":sys.argv[3],"confirmed":"demo exits 0 clean / 1 mutated; the repository tests of the area give the same failing set as on the clean tree (agent_notes.md)","round":int(__import__("os").environ.get("ROUND","3")),"ran":"tools/try_mutant.sh"}))' "$5" "$6" "$7")"
