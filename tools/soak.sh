#!/bin/sh
# usage: soak.sh "<seeds>" [props...]  — run quick checks with several seeds; prints one line per run
seeds="$1"; shift
props="${*:-C01 C02 C03 C04 C05 C06 C07 C08 C09 C10 C11 C12 C13 C14 C15 C16 C17 C18 C19 C20}"
for s in $seeds; do for p in $props; do
  t0=$(date +%s)
  VERIF_EVIDENCE_DIR=/tmp/verif-evidence-soak VERIF_SEED=$s ./check $p --tier quick > /tmp/soak_${p}_$s.log 2>&1; rc=$?
  echo "seed=$s $p rc=$rc $(( $(date +%s) - t0 ))s $(grep -c '^VIOLATION' /tmp/soak_${p}_$s.log) violations"
done; done
