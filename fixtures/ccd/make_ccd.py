#!/venv/bin/python
"""Build the synthetic Chemical Component Dictionary used by the checks (no real CCD is
available offline).  Written with biotite's own BinaryCIF writer; committed as
components_synth.bcif.  Components: ALA, GLY, SER (L-peptide linking), DA, DG (DNA linking),
LIG, HEM-like 'RNG' (aromatic ring), HOH (water), NA (ion).
Use:  biotite.structure.info.set_ccd_path('/verif/fixtures/ccd/components_synth.bcif')
"""
import os
import sys

import numpy as np

from biotite.structure.io.pdbx import BinaryCIFBlock, BinaryCIFCategory, BinaryCIFFile

COMPS = {
    # id: (name, type, one_letter, atoms[(atom_id, element, charge)], bonds[(a1, a2, order, aromatic)])
    "ALA": ("ALANINE", "L-PEPTIDE LINKING", "A",
            [("N", "N", 0), ("CA", "C", 0), ("C", "C", 0), ("O", "O", 0), ("CB", "C", 0), ("OXT", "O", 0)],
            [("N", "CA", "SING", "N"), ("CA", "C", "SING", "N"), ("C", "O", "DOUB", "N"),
             ("CA", "CB", "SING", "N"), ("C", "OXT", "SING", "N")]),
    "GLY": ("GLYCINE", "PEPTIDE LINKING", "G",
            [("N", "N", 0), ("CA", "C", 0), ("C", "C", 0), ("O", "O", 0), ("OXT", "O", 0)],
            [("N", "CA", "SING", "N"), ("CA", "C", "SING", "N"), ("C", "O", "DOUB", "N"),
             ("C", "OXT", "SING", "N")]),
    "SER": ("SERINE", "L-PEPTIDE LINKING", "S",
            [("N", "N", 0), ("CA", "C", 0), ("C", "C", 0), ("O", "O", 0), ("CB", "C", 0), ("OG", "O", 0)],
            [("N", "CA", "SING", "N"), ("CA", "C", "SING", "N"), ("C", "O", "DOUB", "N"),
             ("CA", "CB", "SING", "N"), ("CB", "OG", "SING", "N")]),
    "DA": ("2'-DEOXYADENOSINE-5'-MONOPHOSPHATE", "DNA LINKING", "A",
           [("P", "P", 0), ("OP1", "O", 0), ("O5'", "O", 0), ("C5'", "C", 0), ("C3'", "C", 0), ("O3'", "O", 0)],
           [("P", "OP1", "DOUB", "N"), ("P", "O5'", "SING", "N"), ("O5'", "C5'", "SING", "N"),
            ("C5'", "C3'", "SING", "N"), ("C3'", "O3'", "SING", "N")]),
    "DG": ("2'-DEOXYGUANOSINE-5'-MONOPHOSPHATE", "DNA LINKING", "G",
           [("P", "P", 0), ("OP1", "O", 0), ("O5'", "O", 0), ("C5'", "C", 0), ("C3'", "C", 0), ("O3'", "O", 0)],
           [("P", "OP1", "DOUB", "N"), ("P", "O5'", "SING", "N"), ("O5'", "C5'", "SING", "N"),
            ("C5'", "C3'", "SING", "N"), ("C3'", "O3'", "SING", "N")]),
    "LIG": ("SYNTHETIC LIGAND", "NON-POLYMER", "?",
            [("C1", "C", 0), ("C2", "C", 0), ("O1", "O", -1), ("N1", "N", 1)],
            [("C1", "C2", "TRIP", "N"), ("C2", "O1", "SING", "N"), ("C1", "N1", "DOUB", "N")]),
    "RNG": ("SYNTHETIC AROMATIC RING", "NON-POLYMER", "?",
            [("C1", "C", 0), ("C2", "C", 0), ("C3", "C", 0), ("C4", "C", 0), ("C5", "C", 0), ("C6", "C", 0)],
            [("C1", "C2", "DOUB", "Y"), ("C2", "C3", "SING", "Y"), ("C3", "C4", "DOUB", "Y"),
             ("C4", "C5", "SING", "Y"), ("C5", "C6", "DOUB", "Y"), ("C6", "C1", "SING", "Y")]),
    "HOH": ("WATER", "NON-POLYMER", "?", [("O", "O", 0)], []),
    "NA": ("SODIUM ION", "NON-POLYMER", "?", [("NA", "NA", 1)], []),
}


def main(out):
    ids = sorted(COMPS)
    chem_comp = BinaryCIFCategory({
        "id": np.array(ids),
        "name": np.array([COMPS[i][0] for i in ids]),
        "type": np.array([COMPS[i][1] for i in ids]),
        "one_letter_code": np.array([COMPS[i][2] for i in ids]),
        "formula_weight": np.array([100.0 for _ in ids]),
    })
    a_comp, a_id, a_el, a_ch, xs = [], [], [], [], []
    for i in ids:
        for k, (aid, el, ch) in enumerate(COMPS[i][3]):
            a_comp.append(i); a_id.append(aid); a_el.append(el); a_ch.append(ch); xs.append(float(k))
    chem_comp_atom = BinaryCIFCategory({
        "comp_id": np.array(a_comp), "atom_id": np.array(a_id), "alt_atom_id": np.array(a_id),
        "type_symbol": np.array(a_el), "charge": np.array(a_ch, dtype=np.int32),
        "pdbx_model_Cartn_x_ideal": np.array(xs, dtype=np.float32),
        "pdbx_model_Cartn_y_ideal": np.zeros(len(xs), dtype=np.float32),
        "pdbx_model_Cartn_z_ideal": np.zeros(len(xs), dtype=np.float32),
        "model_Cartn_x": np.array(xs, dtype=np.float32),
        "model_Cartn_y": np.zeros(len(xs), dtype=np.float32),
        "model_Cartn_z": np.zeros(len(xs), dtype=np.float32),
        "pdbx_leaving_atom_flag": np.array(["Y" if a == "OXT" else "N" for a in a_id]),
    })
    b_comp, b1, b2, bo, ba = [], [], [], [], []
    for i in ids:
        for (x, y, o, ar) in COMPS[i][4]:
            b_comp.append(i); b1.append(x); b2.append(y); bo.append(o); ba.append(ar)
    chem_comp_bond = BinaryCIFCategory({
        "comp_id": np.array(b_comp), "atom_id_1": np.array(b1), "atom_id_2": np.array(b2),
        "value_order": np.array(bo), "pdbx_aromatic_flag": np.array(ba),
    })
    f = BinaryCIFFile({"components": BinaryCIFBlock({
        "chem_comp": chem_comp, "chem_comp_atom": chem_comp_atom, "chem_comp_bond": chem_comp_bond})})
    f.write(out)


if __name__ == "__main__":
    main(sys.argv[1] if len(sys.argv) > 1 else os.path.join(os.path.dirname(os.path.abspath(__file__)), "components_synth.bcif"))
